import ThermoVerif.Lemmas.Unifac
import Mathlib.Analysis.Calculus.FDeriv.Mul
import Mathlib.Analysis.Calculus.FDeriv.Add
import Mathlib.Analysis.Calculus.FDeriv.Pi
import Mathlib.Analysis.SpecialFunctions.Log.Deriv
import Mathlib.Analysis.Calculus.Deriv.Inv

/-
Gibbs–Duhem for the concrete UNIFAC / modified-UNIFAC expressions of Model/Unifac.lean.

The excess function `Gex` (as a function of mole numbers `n`) is a finite sum of blocks
`A·n (ln B·n − ln B'·n)` plus a linear part; each block is positively homogeneous of degree one and
differentiable where `B·n, B'·n > 0` (`term`, `dterm`, `hasFDerivAt_term`, `term_hom`).  The work is the
algebra showing that the resulting partial derivatives are exactly the model's `ln γ_i` at `x = n/Σn`
(`lgcS_eq_gradient` for the combinatorial term, `residual_identity` / `lgg_eq_gradient` for the residual
term), for arbitrary group tables.
-/
namespace ThermoVerif.Unifac
open scoped BigOperators
open Filter Topology

variable {n : ℕ}

/-- `A · y` -/
def dot (A y : Fin n → ℝ) : ℝ := ∑ i, A i * y i

/-- the linear functional with coefficients `A` -/
noncomputable def lin (A : Fin n → ℝ) : (Fin n → ℝ) →L[ℝ] ℝ :=
  ∑ i, A i • ContinuousLinearMap.proj (R := ℝ) (φ := fun _ : Fin n => ℝ) i

theorem lin_apply (A v : Fin n → ℝ) : lin A v = dot A v := by
  simp [lin, dot, _root_.sum_apply]

theorem hasFDerivAt_dot (A y : Fin n → ℝ) : HasFDerivAt (dot A) (lin A) y := by
  have : dot A = fun v => lin A v := by funext v; exact (lin_apply A v).symm
  rw [this]; exact (lin A).hasFDerivAt

theorem lin_comb (a b c : ℝ) (A B C : Fin n → ℝ) :
    lin (fun i => a * A i + b * B i - c * C i) = a • lin A + b • lin B - c • lin C := by
  ext v
  simp only [lin_apply, dot, _root_.sub_apply, _root_.add_apply, _root_.smul_apply,
    smul_eq_mul, Finset.mul_sum, ← Finset.sum_add_distrib, ← Finset.sum_sub_distrib]
  apply Finset.sum_congr rfl; intro i _; ring

/-- one building block of the excess functions: `A·y (ln B·y − ln B'·y)` -/
noncomputable def term (A B B' y : Fin n → ℝ) : ℝ := dot A y * (Real.log (dot B y) - Real.log (dot B' y))

/-- its partial derivatives -/
noncomputable def dterm (A B B' y : Fin n → ℝ) (i : Fin n) : ℝ :=
  A i * (Real.log (dot B y) - Real.log (dot B' y)) + dot A y * (B i / dot B y - B' i / dot B' y)

theorem hasFDerivAt_term (A B B' y : Fin n → ℝ) (hB : 0 < dot B y) (hB' : 0 < dot B' y) :
    HasFDerivAt (term A B B') (lin (dterm A B B' y)) y := by
  have h := (hasFDerivAt_dot A y).mul
    (((hasFDerivAt_dot B y).log hB.ne').sub ((hasFDerivAt_dot B' y).log hB'.ne'))
  have e : lin (dterm A B B' y)
      = dot A y • ((dot B y)⁻¹ • lin B - (dot B' y)⁻¹ • lin B')
        + (Real.log (dot B y) - Real.log (dot B' y)) • lin A := by
    have := lin_comb (Real.log (dot B y) - Real.log (dot B' y)) (dot A y / dot B y) (dot A y / dot B' y) A B B'
    have e2 : dterm A B B' y = fun i => (Real.log (dot B y) - Real.log (dot B' y)) * A i + dot A y / dot B y * B i
        - dot A y / dot B' y * B' i := by
      funext i; simp only [dterm]; ring
    rw [e2, this]
    simp only [smul_sub, smul_smul, div_eq_mul_inv]
    abel
  rw [e]
  exact h

theorem term_hom (A B B' y : Fin n → ℝ) (hB : 0 < dot B y) (hB' : 0 < dot B' y) (t : ℝ) (ht : 0 < t) :
    term A B B' (t • y) = t * term A B B' y := by
  have hd : ∀ C : Fin n → ℝ, dot C (t • y) = t * dot C y := by
    intro C; simp only [dot, Pi.smul_apply, smul_eq_mul, Finset.mul_sum]
    apply Finset.sum_congr rfl; intro i _; ring
  simp only [term, hd, Real.log_mul ht.ne' hB.ne', Real.log_mul ht.ne' hB'.ne']
  ring


/-! ### pure real identities behind the combinatorial terms -/

theorem combU_identity (r q N R Q : ℝ) (hr : 0 < r) (hq : 0 < q) (hN : 0 < N) (hR : 0 < R) (hQ : 0 < Q) :
    1 - r / (R / N) + Real.log (r / (R / N))
        - 5 * q * (1 - r / (R / N) / (q / (Q / N)) + Real.log (r / (R / N) / (q / (Q / N))))
      = Real.log r + 5 * q * (Real.log q - Real.log r)
        + (1 * (Real.log N - Real.log R) + N * (1 / N - r / R))
        + (5 * q * (Real.log R - Real.log Q) + 5 * Q * (r / R - q / Q)) := by
  have e1 : r / (R / N) = r * N / R := by field_simp
  have e2 : r / (R / N) / (q / (Q / N)) = r * Q / (q * R) := by field_simp
  rw [e2, e1, Real.log_div (by positivity) (by positivity), Real.log_mul (by positivity) (by positivity),
    Real.log_div (by positivity) (by positivity), Real.log_mul (by positivity) (by positivity),
    Real.log_mul (by positivity) (by positivity)]
  field_simp
  ring

theorem combM_identity (r q p N R Q P : ℝ) (hr : 0 < r) (hq : 0 < q) (hp : 0 < p) (hN : 0 < N) (hR : 0 < R)
    (hQ : 0 < Q) (hP : 0 < P) :
    1 - p / (P / N) + Real.log (p / (P / N))
        - 5 * q * (1 - r / (R / N) / (q / (Q / N)) + Real.log (r / (R / N) / (q / (Q / N))))
      = Real.log p + 5 * q * (Real.log q - Real.log r)
        + (1 * (Real.log N - Real.log P) + N * (1 / N - p / P))
        + (5 * q * (Real.log R - Real.log Q) + 5 * Q * (r / R - q / Q)) := by
  have e1 : p / (P / N) = p * N / P := by field_simp
  have e2 : r / (R / N) / (q / (Q / N)) = r * Q / (q * R) := by field_simp
  rw [e2, e1, Real.log_div (by positivity) (by positivity), Real.log_mul (by positivity) (by positivity),
    Real.log_div (by positivity) (by positivity), Real.log_mul (by positivity) (by positivity),
    Real.log_mul (by positivity) (by positivity)]
  field_simp
  ring

open Transc

variable {nC : ℕ}

/-- mole numbers extended by zero beyond the chemicals -/
def ext (y : Fin nC → ℝ) (a : ℕ) : ℝ := if h : a < nC then y ⟨a, h⟩ else 0

/-- mole fractions, as the statement writes them -/
noncomputable def fracs (y : Fin nC → ℝ) (a : ℕ) : ℝ := if h : a < nC then y ⟨a, h⟩ / ∑ b, y b else 0

theorem fracs_eq (y : Fin nC → ℝ) (a : ℕ) : fracs y a = ext y a / ∑ b, y b := by
  unfold fracs ext; split <;> simp

theorem sumN_ext (f : ℕ → ℝ) (y : Fin nC → ℝ) :
    sumN nC (fun a => f a * ext y a) = dot (fun i : Fin nC => f i) y := by
  rw [sumN_eq_sum, Finset.sum_range]
  unfold dot
  apply Finset.sum_congr rfl
  intro i _
  simp [ext, i.2]

theorem sumN_fracs (f : ℕ → ℝ) (y : Fin nC → ℝ) :
    sumN nC (fun a => f a * fracs y a) = dot (fun i : Fin nC => f i) y / ∑ b, y b := by
  rw [← sumN_ext, sumN_eq_sum, sumN_eq_sum, div_eq_mul_inv, Finset.sum_mul]
  apply Finset.sum_congr rfl; intro a _; rw [fracs_eq]; ring

theorem sumN_fracs' (f : ℕ → ℝ) (y : Fin nC → ℝ) :
    sumN nC (fun a => fracs y a * f a) = dot (fun i : Fin nC => f i) y / ∑ b, y b := by
  rw [← sumN_fracs]; apply sumN_congr; intro a _; ring

theorem dot_one (y : Fin nC → ℝ) : dot (fun _ => (1:ℝ)) y = ∑ b, y b := by simp [dot]

theorem dot_pos {A y : Fin nC → ℝ} (hn : 0 < nC) (hA : ∀ i, 0 < A i) (hy : ∀ i, 0 < y i) : 0 < dot A y := by
  have : Nonempty (Fin nC) := ⟨⟨0, hn⟩⟩
  exact Finset.sum_pos (fun i _ => mul_pos (hA i) (hy i)) Finset.univ_nonempty

theorem dot_smul (c : ℝ) (A y : Fin nC → ℝ) : dot (fun i => c * A i) y = c * dot A y := by
  simp only [dot, Finset.mul_sum]; apply Finset.sum_congr rfl; intro i _; ring

/-- constant part of the combinatorial excess function -/
noncomputable def cC (kind : Kind) (qs rs : ℕ → ℝ) (i : Fin nC) : ℝ :=
  (match kind with
   | .unifac => Real.log (rs i)
   | .modified => Real.log (rs i ^ ((3:ℝ)/4))) + 5 * qs i * (Real.log (qs i) - Real.log (rs i))

/-- the volume-like coefficients of the first logarithm: `r_i` (UNIFAC) or `r_i^(3/4)` (modified) -/
noncomputable def vF (kind : Kind) (rs : ℕ → ℝ) (i : Fin nC) : ℝ :=
  match kind with
  | .unifac => rs i
  | .modified => rs i ^ ((3:ℝ)/4)

/-- the model's combinatorial `ln γ_i` at `x = n/Σn` is the `i`-th partial derivative of
`Σ n_i c_i + N (ln N − ln Σ n_j v_j) + 5 Σ n_j q_j (ln Σ n_j r_j − ln Σ n_j q_j)`. -/
theorem lgcS_eq_gradient (kind : Kind) (qs rs : ℕ → ℝ) (y : Fin nC → ℝ) (hn : 0 < nC)
    (hq : ∀ i : Fin nC, 0 < qs i) (hr : ∀ i : Fin nC, 0 < rs i) (hy : ∀ i, 0 < y i) (i : Fin nC) :
    lgcS kind nC qs rs (fracs y) i
      = cC kind qs rs i
        + dterm (fun _ => 1) (fun _ => 1) (vF kind rs) y i
        + dterm (fun j : Fin nC => 5 * qs j) (fun j : Fin nC => rs j) (fun j : Fin nC => qs j) y i := by
  have hN : 0 < ∑ b, y b := by rw [← dot_one]; exact dot_pos hn (fun _ => one_pos) hy
  have hR := dot_pos hn hr hy
  have hQ := dot_pos hn hq hy
  have hp : ∀ j : Fin nC, 0 < rs j ^ ((3:ℝ)/4) := fun j => Real.rpow_pos_of_pos (hr j) _
  have hP := dot_pos hn hp hy
  have v1 : vF (nC := nC) .unifac rs = fun j : Fin nC => rs j := rfl
  have v2 : vF (nC := nC) .modified rs = fun j : Fin nC => rs j ^ ((3:ℝ)/4) := rfl
  cases kind
  · simp only [lgcS, sumN_fracs', log_real, ofNat_real, cC, v1, dterm, dot_one, dot_smul]
    have := combU_identity (rs i) (qs i) (∑ b, y b) (dot (fun j : Fin nC => rs j) y) (dot (fun j : Fin nC => qs j) y)
      (hr i) (hq i) hN hR hQ
    norm_num at this ⊢
    linarith
  · simp only [lgcS, sumN_fracs', log_real, ofNat_real, rpow_real, cC, v2, dterm, dot_one, dot_smul]
    have h34 : ((3:ℕ):ℝ) / ((4:ℕ):ℝ) = (3:ℝ)/4 := by norm_num
    have hs : (sumN nC fun j => rs j ^ (((3:ℕ):ℝ) / ((4:ℕ):ℝ)) * fracs y j)
        = dot (fun j : Fin nC => rs j ^ ((3:ℝ)/4)) y / ∑ b, y b := by
      rw [h34]; exact sumN_fracs (fun j => rs j ^ ((3:ℝ)/4)) y
    rw [hs, h34]
    have := combM_identity (rs i) (qs i) (rs i ^ ((3:ℝ)/4)) (∑ b, y b) (dot (fun j : Fin nC => rs j) y)
      (dot (fun j : Fin nC => qs j) y) (dot (fun j : Fin nC => rs j ^ ((3:ℝ)/4)) y) (hr i) (hq i) (hp i) hN hR hQ hP
    norm_num at this ⊢
    linarith

/-- the algebra behind the residual term: with `θ_k = Q_k W_k / T`, `Σ_m ψ_km θ_m = S_k / T`, the model's
`Σ_m ν_m ln Γ_m` is `Σ_k ∂/∂n_i [Q_k W_k (ln T − ln S_k)]`. -/
theorem residual_identity (nG : ℕ) (Q c W S s : ℕ → ℝ) (psis : ℕ → ℕ → ℝ) (Tn t : ℝ)
    (hT : 0 < Tn) (hS : ∀ k, k < nG → 0 < S k)
    (ht : t = ∑ m ∈ Finset.range nG, Q m * c m)
    (hTsum : ∑ k ∈ Finset.range nG, Q k * W k = Tn)
    (hs : ∀ k, s k = ∑ m ∈ Finset.range nG, psis k m * Q m * c m) :
    ∑ m ∈ Finset.range nG,
        (Q m * (1 - Real.log (S m / Tn)
          + - ∑ k ∈ Finset.range nG, psis k m / (S k / Tn) * (Q k * W k / Tn))) * c m
      = ∑ k ∈ Finset.range nG,
        (Q k * c k * (Real.log Tn - Real.log (S k)) + Q k * W k * (t / Tn - s k / S k)) := by
  have hL : ∀ m ∈ Finset.range nG,
      (Q m * (1 - Real.log (S m / Tn)
          + - ∑ k ∈ Finset.range nG, psis k m / (S k / Tn) * (Q k * W k / Tn))) * c m
      = Q m * c m + Q m * c m * (Real.log Tn - Real.log (S m))
        - ∑ k ∈ Finset.range nG, Q k * W k * (psis k m * Q m * c m) / S k := by
    intro m hm
    have hSm := hS m (Finset.mem_range.mp hm)
    rw [Real.log_div hSm.ne' hT.ne']
    have : ∑ k ∈ Finset.range nG, psis k m / (S k / Tn) * (Q k * W k / Tn)
        = ∑ k ∈ Finset.range nG, psis k m * (Q k * W k) / S k := by
      apply Finset.sum_congr rfl; intro k hk
      have hSk := hS k (Finset.mem_range.mp hk)
      field_simp
    rw [this]
    have e : (∑ k ∈ Finset.range nG, Q k * W k * (psis k m * Q m * c m) / S k)
        = (Q m * c m) * ∑ k ∈ Finset.range nG, psis k m * (Q k * W k) / S k := by
      rw [Finset.mul_sum]; apply Finset.sum_congr rfl; intro k _; ring
    rw [e]; ring
  have hR : ∀ k ∈ Finset.range nG,
      (Q k * c k * (Real.log Tn - Real.log (S k)) + Q k * W k * (t / Tn - s k / S k))
      = Q k * c k * (Real.log Tn - Real.log (S k)) + (t / Tn) * (Q k * W k)
        - ∑ m ∈ Finset.range nG, Q k * W k * (psis k m * Q m * c m) / S k := by
    intro k _
    rw [hs k]
    have : (∑ m ∈ Finset.range nG, Q k * W k * (psis k m * Q m * c m) / S k)
        = Q k * W k * ((∑ m ∈ Finset.range nG, psis k m * Q m * c m) / S k) := by
      rw [div_eq_mul_inv, Finset.sum_mul, Finset.mul_sum]
      apply Finset.sum_congr rfl; intro m _; ring
    rw [this]; ring
  rw [Finset.sum_congr rfl hL, Finset.sum_congr rfl hR]
  simp only [Finset.sum_sub_distrib, Finset.sum_add_distrib]
  rw [← Finset.mul_sum, hTsum, div_mul_cancel₀ _ hT.ne', ht]
  rw [Finset.sum_comm (f := fun m k => Q k * W k * (psis k m * Q m * c m) / S k)]
  ring

section resid
variable {nC nG : ℕ} (cg : ℕ → ℕ → ℝ) (Qs : ℕ → ℝ) (psis : ℕ → ℕ → ℝ)

/-- coefficients (in the mole numbers) of `Q_k W_k`, of `T = Σ_k Q_k W_k` and of `S_k = Σ_m ψ_km Q_m W_m` -/
def aK (k : ℕ) (i : Fin nC) : ℝ := Qs k * cg i k
def tF (i : Fin nC) : ℝ := sumN nG fun m => Qs m * cg i m
def sK (k : ℕ) (i : Fin nC) : ℝ := sumN nG fun m => psis k m * Qs m * cg i m

/-- group mole numbers `W_k = Σ_i ν_k^(i) n_i` -/
def Wk (y : Fin nC → ℝ) (k : ℕ) : ℝ := dot (fun i : Fin nC => cg i k) y

theorem swap_sum (c : ℕ → ℝ) (y : Fin nC → ℝ) :
    sumN nG (fun m => c m * Wk cg y m) = dot (fun i : Fin nC => sumN nG fun m => c m * cg i m) y := by
  simp only [sumN_eq_sum, Wk, dot, Finset.mul_sum, Finset.sum_mul]
  rw [Finset.sum_comm]
  apply Finset.sum_congr rfl; intro i _
  apply Finset.sum_congr rfl; intro m _; ring

variable {cg Qs psis}

theorem thetaS_fracs (y : Fin nC → ℝ) (hN : 0 < ∑ b, y b) (k : ℕ) :
    thetaS nC nG cg Qs (fracs y) k = Qs k * Wk cg y k / dot (tF (nG := nG) cg Qs) y := by
  have hin : ∀ m, (sumN nC fun i => cg i m * fracs y i) = Wk cg y m / ∑ b, y b :=
    fun m => sumN_fracs (fun a => cg a m) y
  have hden : (sumN nG fun m => Qs m * sumN nC fun i => cg i m * fracs y i)
      = dot (tF (nG := nG) cg Qs) y / ∑ b, y b := by
    rw [← show sumN nG (fun m => Qs m * Wk cg y m) = dot (tF (nG := nG) cg Qs) y from swap_sum cg Qs y]
    rw [sumN_eq_sum, sumN_eq_sum, div_eq_mul_inv, Finset.sum_mul]
    apply Finset.sum_congr rfl; intro m _; rw [hin m]; ring
  unfold thetaS
  rw [hin k, hden]
  field_simp

theorem sum1S_fracs (y : Fin nC → ℝ) (hN : 0 < ∑ b, y b) (k : ℕ) :
    sum1S nG psis (thetaS nC nG cg Qs (fracs y)) k
      = dot (sK (nG := nG) cg Qs psis k) y / dot (tF (nG := nG) cg Qs) y := by
  unfold sum1S
  rw [← show sumN nG (fun m => psis k m * Qs m * Wk cg y m) = dot (sK (nG := nG) cg Qs psis k) y from
    swap_sum cg (fun m => psis k m * Qs m) y]
  rw [sumN_eq_sum, sumN_eq_sum, div_eq_mul_inv, Finset.sum_mul]
  apply Finset.sum_congr rfl; intro m _
  rw [thetaS_fracs y hN m]; ring

/-- the mixture part of the model's residual `ln γ_i` at `x = n/Σn` is the `i`-th partial derivative of
`Σ_k Q_k W_k (ln T − ln S_k)`. -/
theorem lgg_eq_gradient (y : Fin nC → ℝ) (hN : 0 < ∑ b, y b)
    (hT : 0 < dot (tF (nG := nG) cg Qs) y) (hS : ∀ k, k < nG → 0 < dot (sK (nG := nG) cg Qs psis k) y) (i : Fin nC) :
    (sumN nG fun m => lggS nG Qs psis (thetaS nC nG cg Qs (fracs y)) m * cg i m)
      = ∑ k ∈ Finset.range nG, dterm (aK cg Qs k) (tF (nG := nG) cg Qs) (sK (nG := nG) cg Qs psis k) y i := by
  have hdotA : ∀ k, dot (aK (nC := nC) cg Qs k) y = Qs k * Wk cg y k := fun k => dot_smul _ _ _
  have := residual_identity nG Qs (fun m => cg i m) (Wk cg y) (fun k => dot (sK (nG := nG) cg Qs psis k) y)
    (fun k => sK (nG := nG) cg Qs psis k i) psis (dot (tF (nG := nG) cg Qs) y) (tF (nG := nG) cg Qs i) hT hS
    (by simp [tF, sumN_eq_sum])
    (by rw [← sumN_eq_sum]; exact swap_sum cg Qs y)
    (by intro k; simp [sK, sumN_eq_sum])
  simp only [dterm, aK, hdotA] at this ⊢
  rw [← this, sumN_eq_sum]
  apply Finset.sum_congr rfl; intro m _
  unfold lggS
  rw [sum1S_fracs y hN m, sumN_eq_sum]
  congr 2
  · congr 1
    congr 1
    apply Finset.sum_congr rfl; intro k _
    rw [sum1S_fracs y hN k, thetaS_fracs y hN k]

end resid
theorem lin_add' {n : ℕ} (A B : Fin n → ℝ) : lin (fun i => A i + B i) = lin A + lin B := by
  ext v; simp only [lin_apply, dot, _root_.add_apply, ← Finset.sum_add_distrib]
  apply Finset.sum_congr rfl; intro i _; ring

theorem lin_sum' {n : ℕ} {ι : Type} (s : Finset ι) (A : ι → Fin n → ℝ) :
    lin (fun i => ∑ k ∈ s, A k i) = ∑ k ∈ s, lin (A k) := by
  ext v; simp only [lin_apply, dot, _root_.sum_apply, Finset.sum_mul]
  rw [Finset.sum_comm]

theorem dot_smul_arg {n : ℕ} (A y : Fin n → ℝ) (t : ℝ) : dot A (t • y) = t * dot A y := by
  simp only [dot, Pi.smul_apply, smul_eq_mul, Finset.mul_sum]
  apply Finset.sum_congr rfl; intro i _; ring

section assemble
variable (kind : Kind) (nC nG : ℕ) (index : ℕ → ℕ) (cg : ℕ → ℕ → ℝ) (Qs Rs : ℕ → ℝ)
  (inter : ℕ → ℕ → ℕ → ℝ) (T : ℝ)

/-- pure-component reference part of `ln γ_i` (a constant) -/
noncomputable def dR (i : Fin nC) : ℝ :=
  sumN nG fun m => clggS nG Qs (build nC nG index cg Qs Rs).cQ
    (gpsisS (build nC nG index cg Qs Rs).mask (psi kind T inter)) i m * cg i m

/-- **The excess function** (`n G^E / RT` as a function of the mole numbers) whose gradient is the
model's `ln γ`:  `Σ_i n_i (c_i − d_i) + N (ln N − ln Σ n_j v_j) + 5 Σ n_j q_j (ln Σ n_j r_j − ln Σ n_j q_j)
+ Σ_k Q_k W_k (ln T − ln S_k)`. -/
noncomputable def Gex (y : Fin nC → ℝ) : ℝ :=
  dot (fun i : Fin nC => cC kind (build nC nG index cg Qs Rs).qs (build nC nG index cg Qs Rs).rs i
      - dR kind nC nG index cg Qs Rs inter T i) y
  + term (fun _ => 1) (fun _ => 1) (vF kind (build nC nG index cg Qs Rs).rs) y
  + term (fun j : Fin nC => 5 * (build nC nG index cg Qs Rs).qs j) (fun j : Fin nC => (build nC nG index cg Qs Rs).rs j)
      (fun j : Fin nC => (build nC nG index cg Qs Rs).qs j) y
  + ∑ k ∈ Finset.range nG, term (aK cg Qs k) (tF (nG := nG) cg Qs) (sK (nG := nG) cg Qs (psi kind T inter) k) y

/-- its gradient, written out -/
noncomputable def gradGex (y : Fin nC → ℝ) (i : Fin nC) : ℝ :=
  (cC kind (build nC nG index cg Qs Rs).qs (build nC nG index cg Qs Rs).rs i - dR kind nC nG index cg Qs Rs inter T i)
  + dterm (fun _ => 1) (fun _ => 1) (vF kind (build nC nG index cg Qs Rs).rs) y i
  + dterm (fun j : Fin nC => 5 * (build nC nG index cg Qs Rs).qs j) (fun j : Fin nC => (build nC nG index cg Qs Rs).rs j)
      (fun j : Fin nC => (build nC nG index cg Qs Rs).qs j) y i
  + ∑ k ∈ Finset.range nG, dterm (aK cg Qs k) (tF (nG := nG) cg Qs) (sK (nG := nG) cg Qs (psi kind T inter) k) y i

variable {kind nC nG index cg Qs Rs inter T}
variable (wf : WF nC nG cg Qs Rs) (hn : 0 < nC)
include wf hn

theorem positivity_facts (y : Fin nC → ℝ) (hy : ∀ i, 0 < y i) :
    0 < dot (fun _ : Fin nC => (1:ℝ)) y
    ∧ 0 < dot (vF kind (build nC nG index cg Qs Rs).rs) y
    ∧ 0 < dot (fun j : Fin nC => (build nC nG index cg Qs Rs).rs j) y
    ∧ 0 < dot (fun j : Fin nC => (build nC nG index cg Qs Rs).qs j) y
    ∧ 0 < dot (tF (nG := nG) cg Qs) y
    ∧ ∀ k, k < nG → 0 < dot (sK (nG := nG) cg Qs (psi kind T inter) k) y := by
  have hr : ∀ j : Fin nC, 0 < (build nC nG index cg Qs Rs).rs j := fun j => wf.r_pos j j.2
  have hq : ∀ j : Fin nC, 0 < (build nC nG index cg Qs Rs).qs j := fun j => wf.q_pos j j.2
  refine ⟨dot_pos hn (fun _ => one_pos) hy, ?_, dot_pos hn hr hy, dot_pos hn hq hy, ?_, ?_⟩
  · apply dot_pos hn _ hy
    intro j; cases kind
    · exact hr j
    · exact Real.rpow_pos_of_pos (hr j) _
  · exact dot_pos hn (fun j => denom_pos wf j.2) hy
  · intro k _
    apply dot_pos hn _ hy
    intro j
    obtain ⟨m, hm, hpos⟩ := exists_pos_of_sumN_pos (denom_pos wf j.2)
    unfold sK
    apply sumN_pos_of (k := m) _ hm
    · rw [mul_assoc]; exact mul_pos (psi_pos kind T inter k m) hpos
    · intro a ha
      rw [mul_assoc]
      exact mul_nonneg (psi_pos kind T inter k a).le (mul_nonneg (wf.Q_nonneg a ha) (wf.cg_nonneg j a j.2 ha))

/-- `Gex` is differentiable on the open positive orthant, with gradient `gradGex`. -/
theorem hasFDerivAt_Gex (y : Fin nC → ℝ) (hy : ∀ i, 0 < y i) :
    HasFDerivAt (Gex kind nC nG index cg Qs Rs inter T) (lin (gradGex kind nC nG index cg Qs Rs inter T y)) y := by
  obtain ⟨h1, hv, hr, hq, ht, hs⟩ := positivity_facts (kind := kind) (index := index) (inter := inter) (T := T) wf hn y hy
  have e : lin (gradGex kind nC nG index cg Qs Rs inter T y)
      = lin (fun i : Fin nC => cC kind (build nC nG index cg Qs Rs).qs (build nC nG index cg Qs Rs).rs i
          - dR kind nC nG index cg Qs Rs inter T i)
        + lin (dterm (fun _ => 1) (fun _ => 1) (vF kind (build nC nG index cg Qs Rs).rs) y)
        + lin (dterm (fun j : Fin nC => 5 * (build nC nG index cg Qs Rs).qs j)
            (fun j : Fin nC => (build nC nG index cg Qs Rs).rs j) (fun j : Fin nC => (build nC nG index cg Qs Rs).qs j) y)
        + ∑ k ∈ Finset.range nG,
            lin (dterm (aK cg Qs k) (tF (nG := nG) cg Qs) (sK (nG := nG) cg Qs (psi kind T inter) k) y) := by
    rw [← lin_sum', ← lin_add', ← lin_add', ← lin_add']
    rfl
  rw [e]
  unfold Gex
  refine (((hasFDerivAt_dot _ y).add (hasFDerivAt_term _ _ _ y h1 hv)).add (hasFDerivAt_term _ _ _ y hr hq)).add ?_
  exact HasFDerivAt.fun_sum (fun k hk => hasFDerivAt_term _ _ _ y ht (hs k (Finset.mem_range.mp hk)))

/-- `Gex` is positively homogeneous of degree one on the positive orthant. -/
theorem Gex_hom (y : Fin nC → ℝ) (hy : ∀ i, 0 < y i) (t : ℝ) (ht : 0 < t) :
    Gex kind nC nG index cg Qs Rs inter T (t • y) = t * Gex kind nC nG index cg Qs Rs inter T y := by
  obtain ⟨h1, hv, hr, hq, hT, hs⟩ := positivity_facts (kind := kind) (index := index) (inter := inter) (T := T) wf hn y hy
  unfold Gex
  rw [dot_smul_arg, term_hom _ _ _ y h1 hv t ht, term_hom _ _ _ y hr hq t ht,
    Finset.sum_congr rfl (fun k hk => term_hom _ _ _ y hT (hs k (Finset.mem_range.mp hk)) t ht), ← Finset.mul_sum]
  ring

/-- the gradient of `Gex` is the model's `ln γ` at `x = n/Σn` -/
theorem gradGex_eq_log_gamma (y : Fin nC → ℝ) (hy : ∀ i, 0 < y i) (i : Fin nC) :
    gradGex kind nC nG index cg Qs Rs inter T y i
      = Real.log (gammaSubS kind (build nC nG index cg Qs Rs) inter T (fracs y) i) := by
  obtain ⟨h1, hv, hr, hq, hT, hs⟩ := positivity_facts (kind := kind) (index := index) (inter := inter) (T := T) wf hn y hy
  have hN : 0 < ∑ b, y b := by rw [← dot_one]; exact h1
  unfold gammaSubS groupGammaS
  rw [exp_real, Real.log_exp]
  have hsplit : (sumN nG fun m =>
        (lggS nG Qs (psi kind T inter) (thetaS nC nG cg Qs (fracs y)) m
          - clggS nG Qs (build nC nG index cg Qs Rs).cQ (gpsisS (build nC nG index cg Qs Rs).mask (psi kind T inter)) i m)
        * cg i m)
      = (sumN nG fun m => lggS nG Qs (psi kind T inter) (thetaS nC nG cg Qs (fracs y)) m * cg i m)
        - dR kind nC nG index cg Qs Rs inter T i := by
    unfold dR
    simp only [sumN_eq_sum, ← Finset.sum_sub_distrib]
    apply Finset.sum_congr rfl; intro m _; ring
  show _ = lgcS kind nC (build nC nG index cg Qs Rs).qs (build nC nG index cg Qs Rs).rs (fracs y) i + _
  rw [show (build nC nG index cg Qs Rs).nC = nC from rfl, show (build nC nG index cg Qs Rs).nG = nG from rfl,
    show (build nC nG index cg Qs Rs).cg = cg from rfl, show (build nC nG index cg Qs Rs).Qs = Qs from rfl] 
  rw [hsplit, lgg_eq_gradient y hN hT hs i,
    lgcS_eq_gradient kind _ _ y hn (fun j => wf.q_pos j j.2) (fun j => wf.r_pos j j.2) hy i]
  unfold gradGex
  ring

end assemble
theorem differentiableAt_dot {n : ℕ} (A y : Fin n → ℝ) : DifferentiableAt ℝ (dot A) y :=
  (hasFDerivAt_dot A y).differentiableAt

theorem differentiableAt_dterm {n : ℕ} (A B B' y : Fin n → ℝ) (i : Fin n) (hB : 0 < dot B y) (hB' : 0 < dot B' y) :
    DifferentiableAt ℝ (fun z => dterm A B B' z i) y := by
  unfold dterm
  have dA := differentiableAt_dot A y
  have dB := differentiableAt_dot B y
  have dB' := differentiableAt_dot B' y
  have cA : DifferentiableAt ℝ (fun _ : Fin n → ℝ => A i) y := differentiableAt_const _
  have cB : DifferentiableAt ℝ (fun _ : Fin n → ℝ => B i) y := differentiableAt_const _
  have cB' : DifferentiableAt ℝ (fun _ : Fin n → ℝ => B' i) y := differentiableAt_const _
  simp only [div_eq_mul_inv]
  exact (cA.mul ((dB.log hB.ne').sub (dB'.log hB'.ne'))).add
    (dA.mul ((cB.mul (dB.inv hB.ne')).sub (cB'.mul (dB'.inv hB'.ne'))))

section
variable {kind : Kind} {nC nG : ℕ} {index : ℕ → ℕ} {cg : ℕ → ℕ → ℝ} {Qs Rs : ℕ → ℝ}
  {inter : ℕ → ℕ → ℕ → ℝ} {T : ℝ} (wf : WF nC nG cg Qs Rs) (hn : 0 < nC)
include wf hn

theorem differentiableAt_gradGex (y : Fin nC → ℝ) (hy : ∀ i, 0 < y i) (i : Fin nC) :
    DifferentiableAt ℝ (fun z => gradGex kind nC nG index cg Qs Rs inter T z i) y := by
  obtain ⟨h1, hv, hr, hq, hT, hs⟩ := positivity_facts (kind := kind) (index := index) (inter := inter) (T := T) wf hn y hy
  unfold gradGex
  refine (((differentiableAt_const _).add (differentiableAt_dterm _ _ _ y i h1 hv)).add
    (differentiableAt_dterm _ _ _ y i hr hq)).add ?_
  exact DifferentiableAt.fun_sum (fun k hk => differentiableAt_dterm _ _ _ y i hT (hs k (Finset.mem_range.mp hk)))

/-- the model's `ln γ_i(n/Σn)` is differentiable on the positive orthant -/
theorem differentiableAt_log_gamma (y : Fin nC → ℝ) (hy : ∀ i, 0 < y i) (i : Fin nC) :
    DifferentiableAt ℝ
      (fun z => Real.log (gammaSubS kind (build nC nG index cg Qs Rs) inter T (fracs z) i)) y := by
  have hopen : IsOpen {z : Fin nC → ℝ | ∀ i, 0 < z i} := by
    have : {z : Fin nC → ℝ | ∀ i, 0 < z i} = ⋂ i, {z | 0 < z i} := by ext z; simp
    rw [this]
    exact isOpen_iInter_of_finite (fun i => isOpen_lt continuous_const (continuous_apply i))
  have hev : (fun z => gradGex kind nC nG index cg Qs Rs inter T z i)
      =ᶠ[𝓝 y] fun z => Real.log (gammaSubS kind (build nC nG index cg Qs Rs) inter T (fracs z) i) := by
    filter_upwards [hopen.mem_nhds (show y ∈ {z : Fin nC → ℝ | ∀ i, 0 < z i} from hy)] with z hz
    exact gradGex_eq_log_gamma wf hn z hz i
  exact (differentiableAt_gradGex wf hn y hy i).congr_of_eventuallyEq hev.symm

end
section wrapper
variable {kind : Kind} {n nC nG : ℕ} {index : ℕ → ℕ} {cg : ℕ → ℕ → ℝ} {Qs Rs : ℕ → ℝ}
  {inter : ℕ → ℕ → ℕ → ℝ} {T : ℝ}

/-- the sub-vector of the members with groups, as a continuous linear map of the whole composition -/
noncomputable def gatherL (n : ℕ) (index : ℕ → ℕ) (hidx : ∀ a, a < nC → index a < n) :
    (Fin n → ℝ) →L[ℝ] (Fin nC → ℝ) :=
  ContinuousLinearMap.pi fun a : Fin nC =>
    ContinuousLinearMap.proj (R := ℝ) (φ := fun _ : Fin n => ℝ) (⟨index a, hidx a a.2⟩ : Fin n)

theorem gatherL_apply (hidx : ∀ a, a < nC → index a < n) (z : Fin n → ℝ) (a : Fin nC) :
    gatherL n index hidx z a = ext z (index a) := by
  simp [gatherL, ext, hidx a a.2]

/-- `ln γ_j` of the WRAPPER (`gamma_UNIFAC` / `gamma_modified_UNIFAC`) as a function of the whole
composition vector `z` (members without groups included) -/
noncomputable def lnGammaW (kind : Kind) (tb : Tables ℝ) (inter : ℕ → ℕ → ℕ → ℝ) (T : ℝ) (n : ℕ)
    (z : Fin n → ℝ) (j : ℕ) : ℝ :=
  Real.log (gammaFS kind tb inter (tabA n (ext z)) T j)

variable (wf : WF nC nG cg Qs Rs) (hnC : 1 < nC) (hidx : ∀ a, a < nC → index a < n)
  (hinj : ∀ a b, a < nC → b < nC → index a = index b → a = b)

omit wf in
/-- a position without groups: `ln γ = 0` whatever the composition -/
theorem lnGammaW_nogroup (z : Fin n → ℝ) (j : ℕ) (h : ∀ a, a < nC → index a ≠ j) :
    lnGammaW kind (build nC nG index cg Qs Rs) inter T n z j = 0 := by
  unfold lnGammaW
  rw [gammaFS_nogroup kind (build nC nG index cg Qs Rs) inter _ T j h, Real.log_one]

include hnC hidx hinj in
/-- a member with groups sees the kernels at the renormalised sub-composition -/
theorem lnGammaW_group (z : Fin n → ℝ) (hz : ∀ a : Fin nC, 0 < gatherL n index hidx z a) (a : Fin nC) :
    lnGammaW kind (build nC nG index cg Qs Rs) inter T n z (index a)
      = Real.log (gammaSubS kind (build nC nG index cg Qs Rs) inter T (fracs (gatherL n index hidx z)) a) := by
  set tb := build nC nG index cg Qs Rs with htb
  have hsub : ∀ b, b < nC → xsubS tb (tabA n (ext z)) b = ext (gatherL n index hidx z) b := by
    intro b hb
    have : vget (tabA n (ext z)) (index b) = ext z (index b) := vget_tabA _ (hidx b hb)
    simp only [xsubS, htb, build, this]
    rw [← gatherL_apply hidx z ⟨b, hb⟩]; simp [ext, hb]
  have hsum : xsumS tb (tabA n (ext z)) = ∑ c, gatherL n index hidx z c := by
    unfold xsumS
    rw [show tb.nC = nC from rfl, sumN_congr hsub]
    have := sumN_ext (fun _ => (1:ℝ)) (gatherL n index hidx z)
    simp only [one_mul] at this
    rw [this, dot_one]
  have hpos : 0 < ∑ c, gatherL n index hidx z c := by
    have : Nonempty (Fin nC) := ⟨⟨0, by omega⟩⟩
    exact Finset.sum_pos (fun c _ => hz c) Finset.univ_nonempty
  unfold lnGammaW gammaFS
  rw [show tb.nC = nC from rfl, show tb.index = index from rfl]
  simp only [gt_iff_lt, hnC, if_true, hsum, isZero_false_of_ne hpos.ne', Bool.false_eq_true, if_false]
  rw [scatterAt_hit index _ nC a a.2 hinj (fun _ _ => rfl)]
  congr 1
  apply gammaSubS_congr
  intro b hb
  rw [hsub b hb, fracs_eq]

end wrapper
end ThermoVerif.Unifac
