import ThermoVerif.Props.C19
/-
Lemmas about the acyclic assembly pipeline of `Network.from_units`
(model: `fromUnits` and its parts in ThermoVerif/Model/NetSort.lean).  Core Lean only.
-/
namespace ThermoVerif.NetSort
open List ThermoVerif.Props.C19

/-! ## More about the depth-first walk: returned paths are duplicate-free and reachable -/

section DfsPaths
variable {g : Graph} {units : List Nat}

/-- a returned path is fine: no unit twice, every unit reachable from the top feed -/
def GoodPath (g : Graph) (units E0 : List Nat) (f0 : Nat) (p : List Nat) : Prop :=
  p.Nodup ∧ ∀ v, v ∈ p → FeedReach g units E0 f0 v

/-- all paths recorded so far are fine -/
def AllGood (g : Graph) (units E0 : List Nat) (f0 : Nat) (st : DfsSt) : Prop :=
  (∀ p, p ∈ st.without → GoodPath g units E0 f0 p) ∧ (∀ p r, (p, r) ∈ st.withR → GoodPath g units E0 f0 p) ∧
  (∀ s, s ∈ E0 → s ∈ st.ends)

/-- the current call is consistent with the walk from `f0` -/
def CallOK (g : Graph) (f0 feed : Nat) (path : List Nat) : Prop :=
  (path = [] → feed = f0) ∧ (∀ a, path.getLast? = some a → feed ∈ g.outsOf a)

theorem AllGood.addWithout {E0 : List Nat} {f0 : Nat} {st : DfsSt} {p : List Nat}
    (h : AllGood g units E0 f0 st) (hp : GoodPath g units E0 f0 p) : AllGood g units E0 f0 (st.addWithout p) := by
  refine ⟨fun q hq => ?_, h.2.1, h.2.2⟩
  simp only [DfsSt.addWithout, List.mem_append, List.mem_singleton] at hq
  rcases hq with hq | rfl
  · exact h.1 q hq
  · exact hp

theorem AllGood.addRecycle {E0 : List Nat} {f0 : Nat} {st : DfsSt} {p : List Nat} {f : Nat}
    (h : AllGood g units E0 f0 st) (hp : GoodPath g units E0 f0 p) : AllGood g units E0 f0 (st.addRecycle p f) := by
  refine ⟨h.1, fun q r hq => ?_, fun s hs => ?_⟩
  · simp only [DfsSt.addRecycle, List.mem_append, List.mem_singleton] at hq
    rcases hq with hq | hq
    · exact h.2.1 q r hq
    · injection hq with h1 h2; subst h1; exact hp
  · simp only [DfsSt.addRecycle, List.mem_append]; exact .inl (h.2.2 s hs)

theorem foldlM_good (E0 : List Nat) (f0 : Nat) (fuel : Nat) (path : List Nat)
    (ih : ∀ feed st st', AllGood g units E0 f0 st → CallOK g f0 feed path →
      fillPath g units fuel feed path st = .ok st' → AllGood g units E0 f0 st')
    (os : List Nat) (hos : ∀ o, o ∈ os → CallOK g f0 o path) (st st' : DfsSt) (hst : AllGood g units E0 f0 st)
    (h : os.foldlM (fun st o => fillPath g units fuel o path st) st = .ok st') : AllGood g units E0 f0 st' := by
  induction os generalizing st with
  | nil =>
    simp only [List.foldlM_nil, pure, Except.pure] at h
    injection h with h; subst h; exact hst
  | cons o os ihos =>
    simp only [List.foldlM_cons, bind, Except.bind] at h
    split at h
    · exact absurd h (by simp)
    · rename_i st1 h1
      exact ihos (fun o' ho' => hos o' (List.mem_cons_of_mem _ ho')) st1
        (ih o st st1 hst (hos o (List.mem_cons_self ..)) h1) h

theorem fillPath_good (E0 : List Nat) (f0 : Nat) (fuel : Nat) :
    ∀ (feed : Nat) (path : List Nat) (st st' : DfsSt), AllGood g units E0 f0 st → GoodPath g units E0 f0 path →
      CallOK g f0 feed path → fillPath g units fuel feed path st = .ok st' → AllGood g units E0 f0 st' := by
  induction fuel with
  | zero => intro feed path st st' _ _ _ h; simp [fillPath] at h
  | succ fuel ih =>
    intro feed path st st' hst hp hc h
    unfold fillPath at h
    split at h
    · injection h with h; subst h; exact hst.addWithout hp
    · rename_i unit hk
      split at h
      · injection h with h; subst h; exact hst.addWithout hp
      · rename_i hin
        have hunit : unit ∈ units := by
          have : units.contains unit = true := by simpa using hin
          exact List.contains_iff_mem.mp this
        split at h
        · injection h with h; subst h; exact hst.addWithout hp
        · rename_i hne
          have hne' : feed ∉ E0 := fun hm => hne (List.contains_iff_mem.mpr (hst.2.2 _ hm))
          split at h
          · split at h
            · split at h
              · injection h with h; subst h; exact hst.addWithout hp
              · injection h with h; subst h; exact hst.addRecycle hp
            · injection h with h; subst h; exact hst.addRecycle hp
          · rename_i hnp
            have hnp' : unit ∉ path := fun hm => hnp (List.contains_iff_mem.mpr hm)
            have hfr : FeedReach g units E0 f0 unit := by
              cases hl : path.getLast? with
              | none =>
                have : path = [] := by
                  cases path with
                  | nil => rfl
                  | cons x xs => simp at hl
                rw [hc.1 this] at hne' hk
                exact .start hne' hk hunit
              | some a =>
                have ha : a ∈ path := List.mem_of_getLast? hl
                exact .step (hp.2 a ha) (hc.2 a hl) hne' hk hunit
            have hp' : GoodPath g units E0 f0 (path ++ [unit]) := by
              refine ⟨?_, fun v hv => ?_⟩
              · rw [List.nodup_append]
                refine ⟨hp.1, by simp, ?_⟩
                intro a ha b hb
                simp only [List.mem_singleton] at hb
                subst hb
                intro e; subst e; exact hnp' ha
              · rcases List.mem_append.mp hv with hv | hv
                · exact hp.2 v hv
                · simp only [List.mem_singleton] at hv; subst hv; exact hfr
            have hc' : ∀ o, o ∈ g.outsOf unit → CallOK g f0 o (path ++ [unit]) := by
              intro o ho
              refine ⟨fun e => absurd e (by simp), fun a ha => ?_⟩
              simp only [List.getLast?_append, List.getLast?_singleton, Option.some_or] at ha
              injection ha with ha; subst ha; exact ho
            simp only at h
            split at h
            · injection h with h; subst h; exact hst
            · rename_i first others ho
              split at h
              · exact absurd h (by simp)
              · rename_i st1 h1
                have g1 := foldlM_good E0 f0 fuel (path ++ [unit]) (fun f a b ha hca hcall => ih f _ a b ha hp' hca hcall)
                  others (fun o hoo => hc' o (by rw [ho]; exact List.mem_cons_of_mem _ hoo)) st st1 hst h1
                exact ih first _ st1 st' g1 hp' (hc' first (by rw [ho]; exact List.mem_cons_self ..)) h

/-- every unit in a returned path is reachable from the feed, and no returned path repeats a unit -/
theorem findPaths_good {feed : Nat} {ends : List Nat} {st : DfsSt} (h : findPaths g units feed ends = .ok st) :
    ∀ p, p ∈ st.without → p.Nodup ∧ ∀ v, v ∈ p → FeedReach g units ends feed v := by
  unfold findPaths at h
  have := fillPath_good ends feed _ feed [] _ st
    ⟨fun p hp => absurd hp List.not_mem_nil, fun p r hp => absurd hp List.not_mem_nil, fun _ hs => hs⟩
    ⟨List.nodup_nil, fun v hv => absurd hv List.not_mem_nil⟩ ⟨fun _ => rfl, fun a ha => by simp at ha⟩ h
  exact this.1

/-- what the walk covers is closed under "downstream inside `units`, not crossing `ends`", and
contains the sink of the feed -/
theorem findPaths_closure {feed : Nat} {ends : List Nat} {st : DfsSt}
    (hout : ∀ u, u ∈ units → g.outsOf u ≠ []) (h : findPaths g units feed ends = .ok st) :
    (∀ v, feed ∉ ends → g.sinkOf feed = some v → v ∈ units → st.cov v) ∧
    (∀ u, st.cov u → ∀ s, s ∈ g.outsOf u → s ∉ ends → ∀ v, g.sinkOf s = some v → v ∈ units → st.cov v) := by
  constructor
  · intro v h1 h2 h3
    exact (fill_path_covers hout h).1 v (.start h1 h2 h3)
  · intro u hu s hs hne v hk hv
    unfold findPaths at h
    obtain ⟨sp, _, _⟩ := fillPath_spec hout _ feed [] _ st h
    have nocov : ∀ u, ¬ DfsSt.cov { withR := [], without := [], ends := ends } u := by
      intro u hu; rcases hu with ⟨_, h, _⟩ | ⟨_, _, h, _⟩ <;> simp at h
    have hgood : Good g units st u := by
      rcases sp.newCov u hu with h | h | h
      · exact absurd h (nocov u)
      · simp at h
      · exact h
    rcases hgood s hs with T | T | ⟨v', hk', hc⟩
    · rcases sp.newEnds s T with h | ⟨v', hk', hc⟩
      · exact absurd h hne
      · rw [hk] at hk'; injection hk' with e; subst e; exact hc
    · exact absurd hv (T v hk)
    · rw [hk] at hk'; injection hk' with e; subst e; exact hc

end DfsPaths

/-! ## `simplified_linear_paths` and the joins -/

theorem mem_insertByLenFront {p q : List Nat} {L : List (List Nat)} :
    q ∈ insertByLenFront p L ↔ q = p ∨ q ∈ L := by
  induction L with
  | nil => simp [insertByLenFront]
  | cons x xs ih =>
    unfold insertByLenFront
    split
    · simp
    · simp only [List.mem_cons, ih]
      constructor
      · rintro (h | h | h)
        · exact .inr (.inl h)
        · exact .inl h
        · exact .inr (.inr h)
      · rintro (h | h | h)
        · exact .inr (.inl h)
        · exact .inl h
        · exact .inr (.inr h)

theorem mem_sortByLen {q : List Nat} {L : List (List Nat)} : q ∈ sortByLen L ↔ q ∈ L := by
  unfold sortByLen
  induction L with
  | nil => simp
  | cons x xs ih =>
    simp only [List.foldr_cons, mem_insertByLenFront, ih, List.mem_cons]

theorem mem_simplifyPath {p : List Nat} {later : List (List Nat)} {u : Nat} :
    u ∈ simplifyPath p later ↔ u ∈ p ∧ ∀ q, q ∈ later → u ∉ q := by
  unfold simplifyPath
  rw [List.mem_filter]
  constructor
  · rintro ⟨hu, hn⟩
    refine ⟨hu, fun q hq hm => ?_⟩
    have : (later.any fun q => q.contains u) = true :=
      List.any_eq_true.mpr ⟨q, hq, List.contains_iff_mem.mpr hm⟩
    rw [this] at hn; simp at hn
  · rintro ⟨hu, hn⟩
    refine ⟨hu, ?_⟩
    cases ha : (later.any fun q => q.contains u) with
    | false => rfl
    | true =>
      obtain ⟨q, hq, hc⟩ := List.any_eq_true.mp ha
      exact absurd (List.contains_iff_mem.mp hc) (hn q hq)

theorem simplifyPath_nodup {p : List Nat} {later : List (List Nat)} (h : p.Nodup) : (simplifyPath p later).Nodup :=
  h.sublist List.filter_sublist

theorem mem_simplifyAll {S : List (List Nat)} {u : Nat} :
    (∃ p, p ∈ simplifyAll S ∧ u ∈ p) ↔ ∃ p, p ∈ S ∧ u ∈ p := by
  induction S with
  | nil => simp [simplifyAll]
  | cons p rest ih =>
    unfold simplifyAll
    simp only
    constructor
    · rintro ⟨q, hq, hu⟩
      rcases List.mem_append.mp hq with hq | hq
      · split at hq
        · exact absurd hq List.not_mem_nil
        · simp only [List.mem_singleton] at hq; subst hq
          exact ⟨p, List.mem_cons_self .., (mem_simplifyPath.mp hu).1⟩
      · obtain ⟨q', hq', hu'⟩ := ih.mp ⟨q, hq, hu⟩
        exact ⟨q', List.mem_cons_of_mem _ hq', hu'⟩
    · rintro ⟨q, hq, hu⟩
      by_cases hex : ∃ q', q' ∈ rest ∧ u ∈ q'
      · obtain ⟨q'', hq'', hu''⟩ := ih.mpr hex
        exact ⟨q'', List.mem_append.mpr (.inr hq''), hu''⟩
      · rcases List.mem_cons.mp hq with rfl | hq
        · have hmem : u ∈ simplifyPath q rest :=
            mem_simplifyPath.mpr ⟨hu, fun q' hq' hm => hex ⟨q', hq', hm⟩⟩
          refine ⟨simplifyPath q rest, List.mem_append.mpr (.inl ?_), hmem⟩
          have : (simplifyPath q rest).isEmpty = false := by
            cases hs : simplifyPath q rest with
            | nil => rw [hs] at hmem; exact absurd hmem List.not_mem_nil
            | cons _ _ => rfl
          simp [this]
        · exact absurd ⟨q, hq, hu⟩ hex

theorem simplifyAll_nodup {S : List (List Nat)} (h : ∀ p, p ∈ S → p.Nodup) : ∀ p, p ∈ simplifyAll S → p.Nodup := by
  induction S with
  | nil => intro p hp; simp [simplifyAll] at hp
  | cons q rest ih =>
    intro p hp
    unfold simplifyAll at hp
    simp only at hp
    rcases List.mem_append.mp hp with hp | hp
    · split at hp
      · exact absurd hp List.not_mem_nil
      · simp only [List.mem_singleton] at hp; subst hp
        exact simplifyPath_nodup (h q (List.mem_cons_self ..))
    · exact ih (fun p' hp' => h p' (List.mem_cons_of_mem _ hp')) p hp

/-- the units of the simplified paths are the units of the paths -/
theorem mem_simplifiedPaths {L : List (List Nat)} {u : Nat} :
    (∃ p, p ∈ simplifiedPaths L ∧ u ∈ p) ↔ ∃ p, p ∈ L ∧ u ∈ p := by
  unfold simplifiedPaths
  constructor
  · rintro ⟨p, hp, hu⟩
    obtain ⟨q, hq, hu'⟩ := mem_simplifyAll.mp ⟨p, List.mem_reverse.mp hp, hu⟩
    exact ⟨q, mem_sortByLen.mp hq, hu'⟩
  · rintro ⟨p, hp, hu⟩
    obtain ⟨q, hq, hu'⟩ := mem_simplifyAll.mpr ⟨p, mem_sortByLen.mpr hp, hu⟩
    exact ⟨q, List.mem_reverse.mpr hq, hu'⟩

theorem simplifiedPaths_nodup {L : List (List Nat)} (h : ∀ p, p ∈ L → p.Nodup) :
    ∀ p, p ∈ simplifiedPaths L → p.Nodup := by
  intro p hp
  unfold simplifiedPaths at hp
  exact simplifyAll_nodup (fun q hq => h q (mem_sortByLen.mp hq)) p (List.mem_reverse.mp hp)

theorem removeOverlap_spec (units : List Nat) (tuple : List Nat) :
    ∀ (path : List Nat), path.Nodup →
      (removeOverlap path tuple units).Nodup ∧
      ∀ u, u ∈ removeOverlap path tuple units ↔ u ∈ path ∧ ¬ (u ∈ tuple ∧ u ∈ units) := by
  induction tuple with
  | nil => intro path h; simp [removeOverlap, h]
  | cons i is ih =>
    intro path hnd
    unfold removeOverlap
    simp only [List.foldl_cons]
    by_cases hi : i ∈ units
    · have hc : units.contains i = true := List.contains_iff_mem.mpr hi
      simp only [hc, if_true]
      obtain ⟨n1, m1⟩ := ih (path.erase i) (hnd.erase i)
      refine ⟨n1, fun u => ?_⟩
      have := m1 u
      unfold removeOverlap at this
      rw [this, hnd.mem_erase_iff]
      constructor
      · rintro ⟨⟨hne, hu⟩, hn⟩
        refine ⟨hu, ?_⟩
        rintro ⟨ht, hun⟩
        rcases List.mem_cons.mp ht with rfl | ht
        · exact hne rfl
        · exact hn ⟨ht, hun⟩
      · rintro ⟨hu, hn⟩
        refine ⟨⟨?_, hu⟩, fun ⟨ht, hun⟩ => hn ⟨List.mem_cons_of_mem _ ht, hun⟩⟩
        intro e; subst e; exact hn ⟨List.mem_cons_self .., hi⟩
    · have hc : units.contains i = false := by
        cases h : units.contains i with
        | false => rfl
        | true => exact absurd (List.contains_iff_mem.mp h) hi
      simp only [hc, Bool.false_eq_true, if_false]
      obtain ⟨n1, m1⟩ := ih path hnd
      refine ⟨n1, fun u => ?_⟩
      have := m1 u
      unfold removeOverlap at this
      rw [this]
      constructor
      · rintro ⟨hu, hn⟩
        refine ⟨hu, ?_⟩
        rintro ⟨ht, hun⟩
        rcases List.mem_cons.mp ht with rfl | ht
        · exact hi hun
        · exact hn ⟨ht, hun⟩
      · rintro ⟨hu, hn⟩
        exact ⟨hu, fun ⟨ht, hun⟩ => hn ⟨List.mem_cons_of_mem _ ht, hun⟩⟩

theorem insertLinear_perm (path : List Nat) (index : Nat) (nw : List Nat) :
    (insertLinear path index nw).Perm (nw ++ path) := by
  unfold insertLinear
  have h1 : (path.take index ++ nw ++ path.drop index).Perm (nw ++ path.take index ++ path.drop index) :=
    (List.perm_append_comm (l₁ := path.take index) (l₂ := nw)).append_right _
  rw [List.append_assoc nw, List.take_append_drop] at h1
  exact h1

/-- joining puts the units of both networks together, each once, provided they were disjoint -/
theorem disjoint_join_nodup {a b l : List Nat} (hp : l.Perm (b ++ a)) (ha : a.Nodup) (hb : b.Nodup)
    (hd : ∀ u, u ∈ a → u ∉ b) : l.Nodup ∧ ∀ u, u ∈ l ↔ u ∈ a ∨ u ∈ b := by
  refine ⟨hp.nodup_iff.mpr ?_, fun u => ?_⟩
  · rw [List.nodup_append]
    exact ⟨hb, ha, fun x hx y hy e => hd y hy (e ▸ hx)⟩
  · rw [hp.mem_iff, List.mem_append]; exact Or.comm

theorem joinLinear_spec {self nw : List Nat} (hs : self.Nodup) (hn : nw.Nodup) :
    (joinLinear self nw).Nodup ∧ ∀ u, u ∈ joinLinear self nw ↔ u ∈ self ∨ u ∈ nw := by
  obtain ⟨n1, m1⟩ := removeOverlap_spec nw self self hs
  have hd : ∀ u, u ∈ removeOverlap self self nw → u ∉ nw := fun u hu hm => ((m1 u).mp hu).2 ⟨((m1 u).mp hu).1, hm⟩
  have key : ∀ l : List Nat, l.Perm (nw ++ removeOverlap self self nw) →
      l.Nodup ∧ ∀ u, u ∈ l ↔ u ∈ self ∨ u ∈ nw := by
    intro l hp
    obtain ⟨nd, mm⟩ := disjoint_join_nodup hp n1 hn hd
    refine ⟨nd, fun u => ?_⟩
    rw [mm u, m1 u]
    constructor
    · rintro (⟨h, _⟩ | h)
      · exact .inl h
      · exact .inr h
    · rintro (h | h)
      · by_cases hm : u ∈ nw
        · exact .inr hm
        · exact .inl ⟨h, fun ⟨_, h2⟩ => hm h2⟩
      · exact .inr h
  unfold joinLinear
  simp only
  split
  · exact key _ (insertLinear_perm _ _ _)
  · exact key _ List.perm_append_comm

theorem joinAtUnit_spec {self nw : List Nat} {unit : Nat} (hs : self.Nodup) (hn : nw.Nodup)
    (hd : ∀ u, u ∈ self → u ∉ nw) :
    (joinAtUnit self nw unit).Nodup ∧ ∀ u, u ∈ joinAtUnit self nw unit ↔ u ∈ self ∨ u ∈ nw := by
  unfold joinAtUnit
  split
  · exact disjoint_join_nodup (insertLinear_perm _ _ _) hs hn hd
  · exact joinLinear_spec hs hn

theorem foldl_joinLinear_spec (rest : List (List Nat)) :
    ∀ (p : List Nat), p.Nodup → (∀ q, q ∈ rest → q.Nodup) →
      (rest.foldl joinLinear p).Nodup ∧
      ∀ u, u ∈ rest.foldl joinLinear p ↔ u ∈ p ∨ ∃ q, q ∈ rest ∧ u ∈ q := by
  induction rest with
  | nil => intro p hp _; simp [hp]
  | cons r rs ih =>
    intro p hp hr
    simp only [List.foldl_cons]
    obtain ⟨n1, m1⟩ := joinLinear_spec hp (hr r (List.mem_cons_self ..))
    obtain ⟨n2, m2⟩ := ih _ n1 (fun q hq => hr q (List.mem_cons_of_mem _ hq))
    refine ⟨n2, fun u => ?_⟩
    rw [m2 u, m1 u]
    constructor
    · rintro ((h | h) | ⟨q, hq, hu⟩)
      · exact .inl h
      · exact .inr ⟨r, List.mem_cons_self .., h⟩
      · exact .inr ⟨q, List.mem_cons_of_mem _ hq, hu⟩
    · rintro (h | ⟨q, hq, hu⟩)
      · exact .inl (.inl h)
      · rcases List.mem_cons.mp hq with rfl | hq
        · exact .inl (.inr hu)
        · exact .inr ⟨q, hq, hu⟩

/-! ## One feed: `from_feedstock(feed, (), ends, units, final=False)` without recycles -/

theorem reach_mono_ends {g : Graph} {ends : List Nat} {u v : Nat} (h : Reach g ends u v) : Reach g [] u v := by
  induction h with
  | single e => obtain ⟨s, hs, _, hk⟩ := e; exact Relation.TransGen.single ⟨s, hs, List.not_mem_nil, hk⟩
  | tail _ e ih => obtain ⟨s, hs, _, hk⟩ := e; exact Relation.TransGen.tail ih ⟨s, hs, List.not_mem_nil, hk⟩

/-- what the linear network of one feed is -/
structure LinearOK (g : Graph) (units ends : List Nat) (feed : Nat) (q : List Nat) : Prop where
  nodup : q.Nodup
  sound : ∀ v, v ∈ q → FeedReach g units ends feed v
  first : ∀ v, feed ∉ ends → g.sinkOf feed = some v → v ∈ units → v ∈ q
  closed : ∀ u, u ∈ q → ∀ s, s ∈ g.outsOf u → s ∉ ends → ∀ v, g.sinkOf s = some v → v ∈ units → v ∈ q

theorem linearNetwork_spec {g : Graph} {units ends : List Nat} (feed : Nat)
    (hout : ∀ u, u ∈ units → g.outsOf u ≠ []) (hac : ¬ Cyclic g) :
    ∃ q, linearNetwork g units feed ends = .ok q ∧ LinearOK g units ends feed q := by
  obtain ⟨st, hst⟩ := findPaths_total g units feed ends
  have hW : st.withR = [] :=
    dfs_acyclic_no_recycle hout (fun u hr => hac ⟨u, reach_mono_ends hr⟩) hst
  have hgood := findPaths_good hst
  obtain ⟨c1, c2⟩ := findPaths_closure hout hst
  have hcov : ∀ u, st.cov u ↔ ∃ p, p ∈ st.without ∧ u ∈ p := by
    intro u
    unfold DfsSt.cov
    rw [hW]
    constructor
    · rintro (h | ⟨_, _, h, _⟩)
      · exact h
      · exact absurd h List.not_mem_nil
    · exact fun h => .inl h
  have hnd := simplifiedPaths_nodup (fun p hp => (hgood p hp).1)
  have main : ∀ q : List Nat, q.Nodup → (∀ u, u ∈ q ↔ ∃ p, p ∈ simplifiedPaths st.without ∧ u ∈ p) →
      LinearOK g units ends feed q := by
    intro q hq hm
    have hm' : ∀ u, u ∈ q ↔ st.cov u := fun u => by rw [hm u, mem_simplifiedPaths, hcov u]
    refine ⟨hq, fun v hv => ?_, fun v h1 h2 h3 => (hm' v).mpr (c1 v h1 h2 h3),
      fun u hu s hs hne v hk hv => (hm' v).mpr (c2 u ((hm' u).mp hu) s hs hne v hk hv)⟩
    obtain ⟨p, hp, hvp⟩ := (hcov v).mp ((hm' v).mp hv)
    exact (hgood p hp).2 v hvp
  unfold linearNetwork
  simp only [hst, hW, List.isEmpty_nil, Bool.not_true, Bool.false_eq_true, if_false]
  cases hs : simplifiedPaths st.without with
  | nil =>
    refine ⟨[], rfl, main [] List.nodup_nil (fun u => ?_)⟩
    rw [hs]; simp
  | cons p rest =>
    rw [hs] at hnd
    obtain ⟨nd, mm⟩ := foldl_joinLinear_spec rest p (hnd p (List.mem_cons_self ..))
      (fun q hq => hnd q (List.mem_cons_of_mem _ hq))
    refine ⟨_, rfl, main _ nd (fun u => ?_)⟩
    rw [mm u, hs]
    constructor
    · rintro (h | ⟨q, hq, hu⟩)
      · exact ⟨p, List.mem_cons_self .., h⟩
      · exact ⟨q, List.mem_cons_of_mem _ hq, hu⟩
    · rintro ⟨q, hq, hu⟩
      rcases List.mem_cons.mp hq with rfl | hq
      · exact .inl hu
      · exact .inr ⟨q, hq, hu⟩

/-! ## Well-formed flowsheets -/

/-- port lists and stream ends agree (the docking invariant of C18), every stream ends in a given
unit or nowhere, every unit has an outlet -/
structure Graph.WF (g : Graph) : Prop where
  outs_len : g.outs.length ≤ g.n
  sinksOK : g.SinksOK
  in_snk : ∀ u s, s ∈ g.insOf u → g.sinkOf s = some u
  snk_in : ∀ s v, g.sinkOf s = some v → s ∈ g.insOf v
  out_src : ∀ u s, s ∈ g.outsOf u → g.sourceOf s = some u
  has_out : ∀ u, u < g.n → g.outsOf u ≠ []

def wfB (g : Graph) : Bool :=
  decide (g.outs.length ≤ g.n) && sinksOKB g &&
  ((List.range g.ins.length).all fun u => (g.insOf u).all fun s => g.sinkOf s == some u) &&
  ((List.range g.snk.length).all fun s => match g.sinkOf s with | some v => (g.insOf v).contains s | none => true) &&
  ((List.range g.outs.length).all fun u => (g.outsOf u).all fun s => g.sourceOf s == some u) &&
  ((List.range g.n).all fun u => !(g.outsOf u).isEmpty)

theorem getD_nil_of_ge {l : List (List Nat)} {u : Nat} (h : l.length ≤ u) : l.getD u [] = [] := by
  rw [List.getD_eq_getElem?_getD, List.getElem?_eq_none h]; rfl

theorem wf_of_B {g : Graph} (h : wfB g = true) : g.WF := by
  unfold wfB at h
  simp only [Bool.and_eq_true, decide_eq_true_eq] at h
  obtain ⟨⟨⟨⟨⟨h1, h2⟩, h3⟩, h4⟩, h5⟩, h6⟩ := h
  refine ⟨h1, sinksOK_of_B h2, ?_, ?_, ?_, ?_⟩
  · intro u s hs
    rcases Nat.lt_or_ge u g.ins.length with hu | hu
    · have := List.all_eq_true.mp (List.all_eq_true.mp h3 u (List.mem_range.mpr hu)) s hs
      simpa using this
    · unfold Graph.insOf at hs; rw [getD_nil_of_ge hu] at hs; exact absurd hs List.not_mem_nil
  · intro s v hk
    rcases Nat.lt_or_ge s g.snk.length with hs | hs
    · have := List.all_eq_true.mp h4 s (List.mem_range.mpr hs)
      rw [hk] at this
      exact List.contains_iff_mem.mp this
    · unfold Graph.sinkOf at hk
      rw [List.getD_eq_getElem?_getD, List.getElem?_eq_none hs] at hk
      simp at hk
  · intro u s hs
    rcases Nat.lt_or_ge u g.outs.length with hu | hu
    · have := List.all_eq_true.mp (List.all_eq_true.mp h5 u (List.mem_range.mpr hu)) s hs
      simpa using this
    · unfold Graph.outsOf at hs; rw [getD_nil_of_ge hu] at hs; exact absurd hs List.not_mem_nil
  · intro u hu hn
    have := List.all_eq_true.mp h6 u (List.mem_range.mpr hu)
    rw [hn] at this; simp at this

/-! ## The loop over the other feeds -/

theorem mem_streamsOf {g : Graph} {P : List Nat} {s : Nat} :
    s ∈ streamsOf g P ↔ ∃ u, u ∈ P ∧ (s ∈ g.insOf u ∨ s ∈ g.outsOf u) := by
  unfold streamsOf
  simp only [List.mem_flatMap, List.mem_append]

theorem mem_productsOf {g : Graph} {units : List Nat} {s : Nat} (h : s ∈ productsOf g units) :
    ∀ v, g.sinkOf s = some v → v ∉ units := by
  unfold productsOf at h
  obtain ⟨u, _, hs⟩ := List.mem_flatMap.mp h
  obtain ⟨_, hc⟩ := List.mem_filter.mp hs
  intro v hk hm
  simp only [hk] at hc
  have := List.contains_iff_mem.mpr hm
  rw [this] at hc; simp at hc

theorem feedReach_entry {g : Graph} {units E : List Nat} {f v : Nat} (h : FeedReach g units E f v) :
    v ∈ units ∧ ∃ s, s ∉ E ∧ g.sinkOf s = some v := by
  cases h with
  | start h1 h2 h3 => exact ⟨h3, _, h1, h2⟩
  | step _ _ h1 h2 h3 => exact ⟨h3, _, h1, h2⟩

structure AsmInv (g : Graph) (units ends0 : List Nat) (st : AsmSt) : Prop where
  nodup : st.path.Nodup
  sub : ∀ u, u ∈ st.path → u ∈ units
  ends_iff : ∀ s, s ∈ st.ends ↔ s ∈ ends0 ∨ s ∈ streamsOf g st.path
  closed : ∀ u, u ∈ st.path → ∀ s, s ∈ g.outsOf u → s ∉ ends0 → ∀ v, g.sinkOf s = some v → v ∈ units → v ∈ st.path

/-- `f` is an inlet of the unit `w` that no given unit produces -/
def IsFeedOf (g : Graph) (units : List Nat) (f w : Nat) : Prop :=
  w ∈ units ∧ f ∈ g.insOf w ∧ ∀ c, c ∈ units → f ∉ g.outsOf c

section Loop
variable {g : Graph} {units ends0 : List Nat}

/-- a stream of `ends` that enters a given unit enters a unit of the path -/
theorem sink_in_path {st : AsmSt} (hwf : g.WF) (hinv : AsmInv g units ends0 st)
    (hprod : ∀ s, s ∈ ends0 → ∀ v, g.sinkOf s = some v → v ∉ units)
    {s v : Nat} (hs : s ∈ st.ends) (hk : g.sinkOf s = some v) (hv : v ∈ units) : v ∈ st.path := by
  rcases (hinv.ends_iff s).mp hs with h | h
  · exact absurd hv (hprod s h v hk)
  · obtain ⟨c, hc, hio⟩ := mem_streamsOf.mp h
    rcases hio with hi | ho
    · have := hwf.in_snk c s hi
      rw [hk] at this; injection this with e; subst e; exact hc
    · by_cases he : s ∈ ends0
      · exact absurd hv (hprod s he v hk)
      · exact hinv.closed c hc s ho he v hk hv

theorem asm_step {st : AsmSt} {f : Nat} {q R : List Nat} (hwf : g.WF) (hinv : AsmInv g units ends0 st)
    (hprod : ∀ s, s ∈ ends0 → ∀ v, g.sinkOf s = some v → v ∉ units)
    (hq : LinearOK g units st.ends f q) (hR : R.Nodup ∧ ∀ u, u ∈ R ↔ u ∈ st.path ∨ u ∈ q) :
    AsmInv g units ends0 { path := R, ends := addNew st.ends (streamsOf g q) } := by
  refine ⟨hR.1, fun u hu => ?_, fun s => ?_, fun u hu s hs hne v hk hv => ?_⟩
  · rcases (hR.2 u).mp hu with h | h
    · exact hinv.sub u h
    · exact (feedReach_entry (hq.sound u h)).1
  · simp only [mem_addNew, hinv.ends_iff s, mem_streamsOf]
    constructor
    · rintro ((h | ⟨c, hc, hio⟩) | ⟨c, hc, hio⟩)
      · exact .inl h
      · exact .inr ⟨c, (hR.2 c).mpr (.inl hc), hio⟩
      · exact .inr ⟨c, (hR.2 c).mpr (.inr hc), hio⟩
    · rintro (h | ⟨c, hc, hio⟩)
      · exact .inl (.inl h)
      · rcases (hR.2 c).mp hc with h | h
        · exact .inl (.inr ⟨c, h, hio⟩)
        · exact .inr ⟨c, h, hio⟩
  · rcases (hR.2 u).mp hu with h | h
    · exact (hR.2 v).mpr (.inl (hinv.closed u h s hs hne v hk hv))
    · by_cases hE : s ∈ st.ends
      · exact (hR.2 v).mpr (.inl (sink_in_path hwf hinv hprod hE hk hv))
      · exact (hR.2 v).mpr (.inr (hq.closed u h s hs hE v hk hv))

theorem addFeed_spec {st : AsmSt} {f w : Nat} (hwf : g.WF) (hac : ¬ Cyclic g)
    (hunits : ∀ u, u ∈ units → u < g.n) (hinv : AsmInv g units ends0 st)
    (hprod : ∀ s, s ∈ ends0 → ∀ v, g.sinkOf s = some v → v ∉ units) (hf : IsFeedOf g units f w) :
    ∃ st', addFeed g units st f = .ok st' ∧ AsmInv g units ends0 st' ∧
      (∀ u, u ∈ st.path → u ∈ st'.path) ∧ w ∈ st'.path := by
  obtain ⟨hw, hfw, hnout⟩ := hf
  have hkf : g.sinkOf f = some w := hwf.in_snk w f hfw
  unfold addFeed
  by_cases hE : f ∈ st.ends
  · have : st.ends.contains f = true := List.contains_iff_mem.mpr hE
    simp only [this, if_true]
    exact ⟨st, rfl, hinv, fun _ h => h, sink_in_path hwf hinv hprod hE hkf hw⟩
  · have hc : st.ends.contains f = false := by
      cases h : st.ends.contains f with
      | false => rfl
      | true => exact absurd (List.contains_iff_mem.mp h) hE
    simp only [hc, Bool.false_eq_true, if_false]
    obtain ⟨q, hq, hlin⟩ := linearNetwork_spec (g := g) (units := units) (ends := st.ends) f
      (fun u hu => hwf.has_out u (hunits u hu)) hac
    simp only [hq]
    have hdis : ∀ u, u ∈ st.path → u ∉ q := by
      intro u hu hm
      obtain ⟨_, s, hs, hk⟩ := feedReach_entry (hlin.sound u hm)
      exact hs ((hinv.ends_iff s).mpr (.inr (mem_streamsOf.mpr ⟨u, hu, .inl (hwf.snk_in s u hk)⟩)))
    have hwq : w ∈ q := hlin.first w hE hkf hw
    have fin : ∀ R : List Nat, (R.Nodup ∧ ∀ u, u ∈ R ↔ u ∈ st.path ∨ u ∈ q) →
        AsmInv g units ends0 { path := R, ends := addNew st.ends (streamsOf g q) } ∧
        (∀ u, u ∈ st.path → u ∈ R) ∧ w ∈ R :=
      fun R hR => ⟨asm_step hwf hinv hprod hlin hR, fun u hu => (hR.2 u).mpr (.inl hu), (hR.2 w).mpr (.inr hwq)⟩
    have hconn : ∀ v, v ∈ connectingUnits g units st.ends (streamsOf g q) → v ∈ st.path := by
      intro v hv
      unfold connectingUnits at hv
      rcases mem_addNew.mp hv with h | h
      · exact absurd h List.not_mem_nil
      · obtain ⟨s, hs, hcond⟩ := List.mem_filterMap.mp h
        split at hcond
        · split at hcond
          · rename_i v' hk
            split at hcond
            · rename_i hu
              injection hcond with e; subst e
              exact sink_in_path hwf hinv hprod hs hk (List.contains_iff_mem.mp hu)
            · exact absurd hcond (by simp)
          · exact absurd hcond (by simp)
        · exact absurd hcond (by simp)
    split
    · exact ⟨_, rfl, fin _ (disjoint_join_nodup List.perm_append_comm hinv.nodup hlin.nodup hdis)⟩
    · exact ⟨_, rfl, fin _ (joinAtUnit_spec hinv.nodup hlin.nodup hdis)⟩
    · rename_i conn hc1 hc2
      split
      · exact ⟨_, rfl, fin _ (joinAtUnit_spec hinv.nodup hlin.nodup hdis)⟩
      · rename_i hnone
        exfalso
        cases hcl : connectingUnits g units st.ends (streamsOf g q) with
        | nil => exact hc1 hcl
        | cons a rest =>
          have ha : a ∈ st.path := hconn a (by rw [hcl]; exact List.mem_cons_self ..)
          have := List.find?_eq_none.mp hnone a ha
          apply this
          rw [hcl]
          exact List.contains_iff_mem.mpr (List.mem_cons_self ..)

theorem addFeeds_spec (hwf : g.WF) (hac : ¬ Cyclic g) (hunits : ∀ u, u ∈ units → u < g.n)
    (hprod : ∀ s, s ∈ ends0 → ∀ v, g.sinkOf s = some v → v ∉ units) (fs : List Nat) :
    ∀ (st : AsmSt), AsmInv g units ends0 st → (∀ f, f ∈ fs → ∃ w, IsFeedOf g units f w) →
      ∃ st', addFeeds g units st fs = .ok st' ∧ AsmInv g units ends0 st' ∧
        (∀ u, u ∈ st.path → u ∈ st'.path) ∧ ∀ f w, f ∈ fs → IsFeedOf g units f w → w ∈ st'.path := by
  induction fs with
  | nil => intro st hinv _; exact ⟨st, rfl, hinv, fun _ h => h, fun f w hf => absurd hf List.not_mem_nil⟩
  | cons f fs ih =>
    intro st hinv hfeeds
    obtain ⟨w, hw⟩ := hfeeds f (List.mem_cons_self ..)
    obtain ⟨st1, h1, inv1, mono1, hw1⟩ := addFeed_spec hwf hac hunits hinv hprod hw
    obtain ⟨st2, h2, inv2, mono2, hfs⟩ := ih st1 inv1 (fun f' hf' => hfeeds f' (List.mem_cons_of_mem _ hf'))
    refine ⟨st2, ?_, inv2, fun u hu => mono2 u (mono1 u hu), ?_⟩
    · unfold addFeeds; simp only [h1]; exact h2
    · intro f' w' hf' hw'
      rcases List.mem_cons.mp hf' with rfl | hf'
      · -- the unit a feed enters is determined by the feed
        have e1 := hwf.in_snk w' f' hw'.2.1
        have e2 := hwf.in_snk w f' hw.2.1
        rw [e1] at e2; injection e2 with e; subst e
        exact mono2 _ hw1
      · exact hfs f' w' hf' hw'

end Loop

/-! ## Putting `from_units` together -/

theorem map_getD_range (l : List Nat) : (List.range l.length).map (fun k => l.getD k 0) = l := by
  apply List.ext_getElem?
  intro i
  rw [List.getElem?_map]
  rcases Nat.lt_or_ge i l.length with h | h
  · rw [List.getElem?_range h]
    simp [List.getD_eq_getElem?_getD, List.getElem?_eq_getElem h]
  · rw [List.getElem?_eq_none (by simpa using h), List.getElem?_eq_none h]; rfl

theorem mem_sortedFeeds (feeds fmass : List Nat) (f : Nat) :
    f ∈ (feedOrder (feeds.map fun s => fmass.getD s 0)).map (fun k => feeds.getD k 0) ↔ f ∈ feeds := by
  have hp := (feedOrder_perm (feeds.map fun s => fmass.getD s 0)).map (fun k => feeds.getD k 0)
  rw [List.length_map, map_getD_range] at hp
  exact hp.mem_iff

theorem isFeedOf_of_mem {g : Graph} {units : List Nat} (hwf : g.WF) {f : Nat} (h : f ∈ feedsOf g units) :
    ∃ w, IsFeedOf g units f w := by
  unfold feedsOf at h
  obtain ⟨w, hw, hf⟩ := List.mem_flatMap.mp h
  obtain ⟨hin, hc⟩ := List.mem_filter.mp hf
  refine ⟨w, hw, hin, fun c hcu hout => ?_⟩
  have := hwf.out_src c f hout
  simp only [this] at hc
  have hcc := List.contains_iff_mem.mpr hcu
  rw [hcc] at hc; simp at hc

theorem feedReach_congr {g : Graph} {units E E' : List Nat} {f v : Nat} (he : ∀ s, s ∈ E ↔ s ∈ E')
    (h : FeedReach g units E f v) : FeedReach g units E' f v := by
  induction h with
  | start h1 h2 h3 => exact .start (fun hm => h1 ((he _).mpr hm)) h2 h3
  | step _ hs h1 h2 h3 ih => exact .step ih hs (fun hm => h1 ((he _).mpr hm)) h2 h3

theorem flatList_map_unit (P : List Nat) : flatList (P.map Item.unit) = P := by
  induction P with
  | nil => rfl
  | cons x xs ih => simp [flatList, Item.flat, ih]

theorem popIfLoop_nodup {l : List Item} (h : (flatList l).Nodup) : popIfLoop l = l := by
  cases l with
  | nil => rfl
  | cons x xs =>
    simp only [popIfLoop]
    split
    · rename_i _ _ a b hl
      split
      · rename_i hab
        exfalso
        have hab' : a = b := by simpa using hab
        subst hab'
        have hb : Item.unit a ∈ xs := List.mem_of_getLast? hl
        have : a ∈ flatList xs := mem_flatList.mpr ⟨_, hb, by simp [Item.flat]⟩
        simp only [flatList, Item.flat, List.singleton_append, List.nodup_cons] at h
        exact h.1 this
      · rfl
    · rfl

/-! ## `sort` never drops a recycle -/

theorem passStep_recycle_mono {α : Type} (down : α → α → Bool) (recy : α → α → List Nat) (st : BState α) (i s : Nat)
    (h : s ∈ st.recycle) : s ∈ (passStep down recy st i).recycle := by
  rcases passStep_cases down recy st i with e | ⟨up, dn, _, _, _, _, e⟩ | ⟨j, dn, _, _, e⟩
  · rw [e]; exact h
  · rw [e]; exact mem_addNew.mpr (.inl h)
  · rw [e]; exact h

theorem bubble_recycle_mono {α : Type} (down : α → α → Bool) (recy : α → α → List Nat) (items : List α) (r : List Nat)
    {s : Nat} (h : s ∈ r) : s ∈ (bubble down recy items r).recycle := by
  have fold : ∀ (is : List Nat) (st : BState α), s ∈ st.recycle → s ∈ (is.foldl (passStep down recy) st).recycle := by
    intro is
    induction is with
    | nil => exact fun _ h => h
    | cons i is ih => exact fun st h => ih _ (passStep_recycle_mono down recy st i s h)
  have pass : ∀ (k : Nat) (st : BState α), s ∈ st.recycle → s ∈ (passes down recy k st).recycle := by
    intro k
    induction k with
    | zero => exact fun _ h => h
    | succ k ih =>
      intro st h
      unfold passes
      simp only
      have h1 : s ∈ (onePass down recy st.items st.recycle).recycle := fold _ _ h
      split
      · exact h1
      · exact ih _ h1
  exact pass _ _ h

/-! ## In an acyclic flowsheet every unit is reachable from a feed -/

section Fed
variable {g : Graph} {units : List Nat}

/-- some feed reaches `u` -/
def Fed (g : Graph) (units : List Nat) (u : Nat) : Prop :=
  ∃ f, f ∈ feedsOf g units ∧ FeedReach g units (productsOf g units) f u

theorem unfed_pred (hwf : g.WF) (hsrc : ∀ s c, g.sourceOf s = some c → s ∈ g.outsOf c)
    (hin : ∀ u, u ∈ units → g.insOf u ≠ []) {h : Nat} (hh : h ∈ units) (hnf : ¬ Fed g units h) :
    ∃ c, c ∈ units ∧ ¬ Fed g units c ∧ Edge g [] c h := by
  obtain ⟨s, hs⟩ := List.exists_mem_of_ne_nil _ (hin h hh)
  have hk : g.sinkOf s = some h := hwf.in_snk h s hs
  have hnp : s ∉ productsOf g units := fun hm => mem_productsOf hm h hk hh
  have feedcase : (match g.sourceOf s with | some v => !units.contains v | none => true) = true → False := by
    intro hc
    apply hnf
    refine ⟨s, ?_, .start hnp hk hh⟩
    unfold feedsOf
    exact List.mem_flatMap.mpr ⟨h, hh, List.mem_filter.mpr ⟨hs, hc⟩⟩
  cases hsc : g.sourceOf s with
  | none => exact absurd (by simp [hsc]) feedcase
  | some c =>
    by_cases hcu : c ∈ units
    · refine ⟨c, hcu, ?_, s, hsrc s c hsc, List.not_mem_nil, hk⟩
      rintro ⟨f, hf, hr⟩
      exact hnf ⟨f, hf, .step hr (hsrc s c hsc) hnp hk hh⟩
    · exfalso
      apply feedcase
      have : units.contains c = false := by
        cases hc : units.contains c with
        | false => rfl
        | true => exact absurd (List.contains_iff_mem.mp hc) hcu
      simp [hsc, hcu]

theorem unfed_chain (hwf : g.WF) (hsrc : ∀ s c, g.sourceOf s = some c → s ∈ g.outsOf c)
    (hin : ∀ u, u ∈ units → g.insOf u ≠ []) (hac : ¬ Cyclic g) {u : Nat} (hu : u ∈ units) (hnf : ¬ Fed g units u) :
    ∀ k : Nat, ∃ (h : Nat) (l : List Nat), (h :: l).length = k + 1 ∧ (h :: l).Nodup ∧
      (∀ x, x ∈ h :: l → x ∈ units) ∧ ¬ Fed g units h ∧ ∀ x, x ∈ l → Reach g [] h x := by
  intro k
  induction k with
  | zero => exact ⟨u, [], rfl, by simp, by simpa using hu, hnf, fun x hx => absurd hx List.not_mem_nil⟩
  | succ k ih =>
    obtain ⟨h, l, hlen, hnd, hsub, hnfh, hreach⟩ := ih
    obtain ⟨c, hc, hnfc, e⟩ := unfed_pred hwf hsrc hin (hsub h (List.mem_cons_self ..)) hnfh
    have hcr : ∀ x, x ∈ h :: l → Reach g [] c x := by
      intro x hx
      rcases List.mem_cons.mp hx with rfl | hx
      · exact Relation.TransGen.single e
      · exact Relation.TransGen.trans (Relation.TransGen.single e) (hreach x hx)
    refine ⟨c, h :: l, by simp at hlen ⊢; omega, List.nodup_cons.mpr ⟨fun hm => hac ⟨c, hcr c hm⟩, hnd⟩, ?_, hnfc, hcr⟩
    intro x hx
    rcases List.mem_cons.mp hx with rfl | hx
    · exact hc
    · exact hsub x hx

/-- **every unit of an acyclic flowsheet is reachable from a feed** (each unit has an inlet; going
upstream from an unfed unit would never end, but there are only `n` units and no cycle) -/
theorem dag_all_fed (hwf : g.WF) (hsrc : ∀ s c, g.sourceOf s = some c → s ∈ g.outsOf c)
    (hin : ∀ u, u ∈ units → g.insOf u ≠ []) (hac : ¬ Cyclic g) (hb : ∀ u, u ∈ units → u < g.n)
    {u : Nat} (hu : u ∈ units) : Fed g units u := by
  apply Classical.byContradiction
  intro hnf
  obtain ⟨h, l, hlen, hnd, hsub, _, _⟩ := unfed_chain hwf hsrc hin hac hu hnf g.n
  have := length_le_of_bounded hnd (fun x hx => hb x (hsub x hx))
  omega

end Fed

end ThermoVerif.NetSort
