import ThermoVerif.Model.Unifac
import Mathlib.Analysis.SpecialFunctions.Pow.Real
import Mathlib.Algebra.BigOperators.Group.Finset.Basic
import Mathlib.Tactic.Ring
import Mathlib.Tactic.FieldSimp
import Mathlib.Tactic.Linarith
import Mathlib.Tactic.IntervalCases

namespace ThermoVerif.Unifac
open Transc Filter Topology

/-- The scalar instance used in the proofs. -/
noncomputable instance instTranscReal : Transc ℝ where
  exp := Real.exp
  log := Real.log
  rpow := fun x y => x ^ y
  ofNat := fun n => (n : ℝ)
  isZero := fun x => @decide (x = 0) (Classical.propDecidable _)
  isNaN := fun _ => false

section generic
variable {α : Type} [Zero α]

@[simp] theorem size_tabA (n : Nat) (f : Nat → α) : (tabA n f).size = n := by
  simp [tabA]

theorem vget_tabA {n : Nat} (f : Nat → α) {i : Nat} (h : i < n) : vget (tabA n f) i = f i := by
  simp [vget, tabA, Array.getD_eq_getD_getElem?, Array.getElem?_ofFn, h]

theorem vget_tabA_of_le {n : Nat} (f : Nat → α) {i : Nat} (h : n ≤ i) : vget (tabA n f) i = 0 := by
  simp [vget, tabA, Array.getD_eq_getD_getElem?, Array.getElem?_ofFn, Nat.not_lt.mpr h]

theorem mget_tabM {r c : Nat} (f : Nat → Nat → α) {i k : Nat} (hi : i < r) (hk : k < c) :
    mget (tabM r c f) i k = f i k := by
  simp [mget, tabM, Array.getD_eq_getD_getElem?, Array.getElem?_ofFn, hi, vget_tabA _ hk]

end generic

theorem sumN_congr {α : Type} [Zero α] [Add α] {n : Nat} {f g : Nat → α} (h : ∀ i, i < n → f i = g i) :
    sumN n f = sumN n g := by
  induction n with
  | zero => rfl
  | succ n ih =>
    simp only [sumN]
    rw [ih (fun i hi => h i (Nat.lt_succ_of_lt hi)), h n (Nat.lt_succ_self n)]

theorem sumN_eq_sum (n : Nat) (f : Nat → ℝ) : sumN n f = ∑ i ∈ Finset.range n, f i := by
  induction n with
  | zero => simp [sumN]
  | succ n ih => simp [sumN, ih, Finset.sum_range_succ]

attribute [congr] sumN_congr

section spec
variable {α : Type} [Zero α] [One α] [Add α] [Sub α] [Mul α] [Div α] [Neg α] [Transc α]

def lgcS (kind : Kind) (nC : Nat) (qs rs x : Nat → α) (i : Nat) : α :=
  let rnet := sumN nC fun j => x j * rs j
  let qnet := sumN nC fun j => x j * qs j
  let VF := rs i / rnet / (qs i / qnet)
  match kind with
  | .unifac => 1 - rs i / rnet + log (rs i / rnet) - ofNat 5 * qs i * (1 - VF + log VF)
  | .modified =>
    let Vp := rpow (rs i) (ofNat 3 / ofNat 4) / sumN nC fun j => rpow (rs j) (ofNat 3 / ofNat 4) * x j
    1 - Vp + log Vp - ofNat 5 * qs i * (1 - VF + log VF)

theorem vget_lgc (kind : Kind) (nC : Nat) (qs rs x : Nat → α) {i : Nat} (hi : i < nC) :
    vget (lgc kind nC qs rs x) i = lgcS kind nC qs rs x i := by
  cases kind <;>
  simp (config := {contextual := true}) [lgc, lgcUnifac, lgcModified, lgcS, vget_tabA, hi]

/-- mixture part: group fractions -/
def thetaS (nC nG : Nat) (cg : Nat → Nat → α) (Qs x : Nat → α) (k : Nat) : α :=
  Qs k * (sumN nC fun i => cg i k * x i) / sumN nG fun m => Qs m * sumN nC fun i => cg i m * x i

def sum1S (nG : Nat) (psis : Nat → Nat → α) (θ : Nat → α) (k : Nat) : α :=
  sumN nG fun m => psis k m * θ m

def lggS (nG : Nat) (Qs : Nat → α) (psis : Nat → Nat → α) (θ : Nat → α) (k : Nat) : α :=
  Qs k * (1 - log (sum1S nG psis θ k) + - sumN nG fun k' => psis k' k / sum1S nG psis θ k' * θ k')

def s1S (nG : Nat) (cQ gpsis : Nat → Nat → α) (i k : Nat) : α :=
  if isZero (sumN nG fun m => cQ i m * gpsis k m) then 1 else sumN nG fun m => cQ i m * gpsis k m

def clggS (nG : Nat) (Qs : Nat → α) (cQ gpsis : Nat → Nat → α) (i m : Nat) : α :=
  Qs m * (1 - log (s1S nG cQ gpsis i m) + sumN nG fun k => (- cQ i k) / s1S nG cQ gpsis i k * gpsis k m)

def groupGammaS (nC nG : Nat) (x : Nat → α) (cg : Nat → Nat → α) (lgcs Qs : Nat → α)
    (psis cQ gpsis : Nat → Nat → α) (i : Nat) : α :=
  exp (lgcs i + sumN nG fun m =>
    (lggS nG Qs psis (thetaS nC nG cg Qs x) m - clggS nG Qs cQ gpsis i m) * cg i m)

theorem vget_groupGamma (nC nG : Nat) (x : Nat → α) (cg : Nat → Nat → α) (lgcs Qs : Nat → α)
    (psis cQ gpsis : Nat → Nat → α) {i : Nat} (hi : i < nC) :
    vget (groupGamma nC nG x cg lgcs Qs psis cQ gpsis) i
      = groupGammaS nC nG x cg lgcs Qs psis cQ gpsis i := by
  simp (config := {contextual := true}) [groupGamma, groupGammaS, lggS, clggS, s1S, sum1S, thetaS,
    vget_tabA, mget_tabM, hi]

end spec


@[simp] theorem isZero_real (x : ℝ) : (isZero x = true) ↔ x = 0 := by
  simp [isZero, instTranscReal]

@[simp] theorem isNaN_real (x : ℝ) : isNaN x = false := rfl
@[simp] theorem exp_real (x : ℝ) : Transc.exp x = Real.exp x := rfl
@[simp] theorem log_real (x : ℝ) : Transc.log x = Real.log x := rfl
@[simp] theorem rpow_real (x y : ℝ) : Transc.rpow x y = x ^ y := rfl
@[simp] theorem ofNat_real (n : ℕ) : (Transc.ofNat n : ℝ) = (n : ℝ) := rfl

theorem sumN_single {n i : Nat} (hi : i < n) (f : Nat → ℝ) :
    sumN n (fun j => f j * (if j = i then 1 else 0)) = f i := by
  rw [sumN_eq_sum]
  simp [Finset.sum_ite_eq', hi]

theorem sumN_single' {n i : Nat} (hi : i < n) (f : Nat → ℝ) :
    sumN n (fun j => (if j = i then 1 else 0) * f j) = f i := by
  rw [sumN_eq_sum]
  simp [Finset.sum_ite_eq', hi]

theorem sumN_nonneg {n : Nat} {f : Nat → ℝ} (h : ∀ i, i < n → 0 ≤ f i) : 0 ≤ sumN n f := by
  rw [sumN_eq_sum]; exact Finset.sum_nonneg (fun i hi => h i (Finset.mem_range.mp hi))

theorem sumN_pos_of {n : Nat} {f : Nat → ℝ} (h : ∀ i, i < n → 0 ≤ f i) {k : Nat} (hk : k < n) (hp : 0 < f k) :
    0 < sumN n f := by
  rw [sumN_eq_sum]
  exact Finset.sum_pos' (fun i hi => h i (Finset.mem_range.mp hi)) ⟨k, Finset.mem_range.mpr hk, hp⟩

theorem sumN_neg (n : Nat) (f : Nat → ℝ) : - sumN n f = sumN n (fun i => - f i) := by
  simp [sumN_eq_sum]

theorem anyN_true_of {n : Nat} {p : Nat → Bool} {i : Nat} (hi : i < n) (h : p i = true) : anyN n p = true := by
  induction n with
  | zero => omega
  | succ n ih =>
    simp only [anyN, Bool.or_eq_true]
    rcases Nat.lt_succ_iff_lt_or_eq.mp hi with h' | h'
    · exact Or.inl (ih h')
    · subst h'; exact Or.inr h

theorem sumN_perm {n : Nat} (σ : Equiv.Perm ℕ) (hσ : ∀ i, σ i < n ↔ i < n) {f g : Nat → ℝ}
    (h : ∀ i, i < n → g i = f (σ i)) : sumN n g = sumN n f := by
  rw [sumN_eq_sum, sumN_eq_sum]
  apply Finset.sum_equiv σ
  · intro i; simp [hσ]
  · intro i hi; exact h i (Finset.mem_range.mp hi)


section spec2
variable {α : Type} [Zero α] [One α] [Add α] [Sub α] [Mul α] [Div α] [Neg α] [Transc α]

def gpsisS (mask : Nat → Nat → Bool) (psis : Nat → Nat → α) (k m : Nat) : α :=
  if mask k m then psis k m else 0

/-- `gamma_sub[i]` written with functions only -/
def gammaSubS (kind : Kind) (tb : Tables α) (inter : Nat → Nat → Nat → α) (T : α) (xs : Nat → α)
    (i : Nat) : α :=
  groupGammaS tb.nC tb.nG xs tb.cg (lgcS kind tb.nC tb.qs tb.rs xs) tb.Qs (psi kind T inter) tb.cQ
    (gpsisS tb.mask (psi kind T inter)) i

theorem vget_gammaSub (kind : Kind) (tb : Tables α) (inter : Nat → Nat → Nat → α) (T : α)
    (xs : Nat → α) {i : Nat} (hi : i < tb.nC) :
    vget (gammaSub kind tb inter T xs).1 i = gammaSubS kind tb inter T xs i := by
  simp (config := {contextual := true}) [gammaSub, gammaSubS, vget_groupGamma, hi, groupGammaS, lggS, clggS,
    s1S, sum1S, thetaS, gpsisS, fillGroupPsis, mget_tabM, vget_lgc]

end spec2

/-- unit vector -/
def e (i : Nat) : Nat → ℝ := fun j => if j = i then 1 else 0

theorem sumN_ite {n i : Nat} (hi : i < n) (f : Nat → ℝ) :
    sumN n (fun j => if j = i then f j else 0) = f i := by
  rw [sumN_eq_sum]
  simp [Finset.sum_ite_eq', hi]

theorem sumN_zero (n : Nat) : sumN n (fun _ => (0:ℝ)) = 0 := by simp [sumN_eq_sum]

theorem isZero_false_of_ne {x : ℝ} (h : x ≠ 0) : isZero x = false := by
  cases hz : isZero x with
  | false => rfl
  | true => exact absurd ((isZero_real x).mp hz) h

/-- Hypotheses on the group data under which the theorems are stated (monitored by the
driver on the real tables: `wf=1`). -/
structure WF (nC nG : Nat) (cg : Nat → Nat → ℝ) (Qs Rs : Nat → ℝ) : Prop where
  cg_nonneg : ∀ i k, i < nC → k < nG → 0 ≤ cg i k
  Q_nonneg : ∀ k, k < nG → 0 ≤ Qs k
  q_pos : ∀ i, i < nC → 0 < sumN nG fun k => cg i k * Qs k
  r_pos : ∀ i, i < nC → 0 < sumN nG fun k => cg i k * Rs k

theorem psi_pos (kind : Kind) (T : ℝ) (inter : Nat → Nat → Nat → ℝ) (k m : Nat) :
    0 < psi kind T inter k m := by
  cases kind <;> simp [psi, Real.exp_pos]

theorem lgcS_vertex (kind : Kind) {nC i : Nat} (hi : i < nC) (qs rs : Nat → ℝ)
    (hq : 0 < qs i) (hr : 0 < rs i) : lgcS kind nC qs rs (e i) i = 0 := by
  have hp : 0 < rs i ^ ((3:ℝ)/4) := Real.rpow_pos_of_pos hr _
  cases kind <;>
  simp [lgcS, e, sumN_ite hi, div_self hq.ne', div_self hr.ne', div_self hp.ne']

section residual
variable {nG : Nat} {Qs : Nat → ℝ} {cQ : Nat → Nat → ℝ} {mask : Nat → Nat → Bool}
  {psis : Nat → Nat → ℝ} {i : Nat}
  (hpsi : ∀ k m, 0 < psis k m)
  (hnn : ∀ k, k < nG → 0 ≤ cQ i k)
  (hmask : ∀ k m, cQ i k ≠ 0 → cQ i m ≠ 0 → mask k m = true)
include hpsi hnn hmask

/-- For a group `k` the chemical `i` really contains, the pure-component sum equals the mixture
sum at the vertex, and it is positive (so the `where(sum1 == 0, 1, sum1)` guard is inactive). -/
theorem s1S_eq {k : Nat} (hk : k < nG) (hne : cQ i k ≠ 0) :
    s1S nG cQ (gpsisS mask psis) i k = sum1S nG psis (cQ i) k ∧ 0 < sum1S nG psis (cQ i) k := by
  have hraw : (sumN nG fun m => cQ i m * gpsisS mask psis k m) = sum1S nG psis (cQ i) k := by
    unfold sum1S
    apply sumN_congr
    intro m _
    by_cases hm : cQ i m = 0
    · simp [hm]
    · simp [gpsisS, hmask k m hne hm, mul_comm]
  have hpos : 0 < sum1S nG psis (cQ i) k := by
    unfold sum1S
    apply sumN_pos_of (k := k) _ hk
    · exact mul_pos (hpsi k k) (lt_of_le_of_ne (hnn k hk) (Ne.symm hne))
    · intro m hm
      exact mul_nonneg (hpsi k m).le (hnn m hm)
  refine ⟨?_, hpos⟩
  unfold s1S
  rw [hraw, isZero_false_of_ne hpos.ne']
  simp

/-- At the vertex the residual term of a chemical equals its pure-component reference:
group by group, the two `Q_k (1 - ln Σ - Σ)` expressions coincide on the groups the chemical
contains, and the others carry the factor `chemgroups[i, m] = 0`. -/
theorem residual_vertex (cgi : Nat → ℝ) (hcg : ∀ m, m < nG → cgi m ≠ 0 → Qs m ≠ 0 → cQ i m ≠ 0) :
    (sumN nG fun m =>
      (lggS nG Qs psis (cQ i) m - clggS nG Qs cQ (gpsisS mask psis) i m) * cgi m) = 0 := by
  have hz : ∀ m, m < nG →
      (lggS nG Qs psis (cQ i) m - clggS nG Qs cQ (gpsisS mask psis) i m) * cgi m = 0 := by
    intro m hm
    by_cases hc : cgi m = 0
    · simp [hc]
    by_cases hQ : Qs m = 0
    · simp [lggS, clggS, hQ]
    have hne : cQ i m ≠ 0 := hcg m hm hc hQ
    have h1 := (s1S_eq hpsi hnn hmask hm hne).1
    have hsum : (- sumN nG fun k' => psis k' m / sum1S nG psis (cQ i) k' * cQ i k')
        = sumN nG fun k => (- cQ i k) / s1S nG cQ (gpsisS mask psis) i k * gpsisS mask psis k m := by
      rw [sumN_neg]
      apply sumN_congr
      intro k hk
      by_cases hk0 : cQ i k = 0
      · simp [hk0]
      · rw [(s1S_eq hpsi hnn hmask hk hk0).1]
        have : gpsisS mask psis k m = psis k m := by simp [gpsisS, hmask k m hk0 hne]
        rw [this]
        ring
    have : lggS nG Qs psis (cQ i) m = clggS nG Qs cQ (gpsisS mask psis) i m := by
      unfold lggS clggS
      rw [h1, hsum]
    rw [this]; simp
  rw [sumN_congr hz, sumN_zero]

end residual

section built
variable {nC nG : Nat} {cg : Nat → Nat → ℝ} {Qs Rs : Nat → ℝ} (index : Nat → Nat)

theorem thetaS_vertex {i : Nat} (hi : i < nC) :
    thetaS nC nG cg Qs (e i) = (build nC nG index cg Qs Rs).cQ i := by
  funext k
  simp [thetaS, build, e, sumN_ite hi]

variable (wf : WF nC nG cg Qs Rs)
include wf

theorem denom_pos {i : Nat} (hi : i < nC) : 0 < sumN nG fun m => Qs m * cg i m := by
  have := wf.q_pos i hi
  rwa [sumN_congr (g := fun m => Qs m * cg i m) (fun k _ => mul_comm _ _)] at this

theorem cQ_nonneg {i k : Nat} (hi : i < nC) (hk : k < nG) : 0 ≤ (build nC nG index cg Qs Rs).cQ i k := by
  simp only [build]
  exact div_nonneg (mul_nonneg (wf.Q_nonneg k hk) (wf.cg_nonneg i k hi hk)) (denom_pos wf hi).le

omit wf in
theorem mask_of_ne {i k m : Nat} (hi : i < nC)
    (hk : (build nC nG index cg Qs Rs).cQ i k ≠ 0) (hm : (build nC nG index cg Qs Rs).cQ i m ≠ 0) :
    (build nC nG index cg Qs Rs).mask k m = true := by
  simp only [build] at hk hm ⊢
  apply anyN_true_of hi
  simp [isZero_false_of_ne hk, isZero_false_of_ne hm]

/-- `γ_i = 1` at `x = e_i` for the kernels evaluated on the tables `__new__` builds. -/
theorem gammaSubS_vertex (kind : Kind) (inter : Nat → Nat → Nat → ℝ) (T : ℝ) {i : Nat} (hi : i < nC) :
    gammaSubS kind (build nC nG index cg Qs Rs) inter T (e i) i = 1 := by
  have hres := residual_vertex (nG := nG) (Qs := Qs) (cQ := (build nC nG index cg Qs Rs).cQ)
    (mask := (build nC nG index cg Qs Rs).mask) (i := i) (psi_pos kind T inter)
    (fun k hk => cQ_nonneg index wf hi hk) (fun k m hk hm => mask_of_ne index hi hk hm) (cg i)
    (by
      intro m _ hc hQ
      simp only [build]
      exact div_ne_zero (mul_ne_zero hQ hc) (denom_pos wf hi).ne')
  have hl : lgcS kind nC (build nC nG index cg Qs Rs).qs (build nC nG index cg Qs Rs).rs (e i) i = 0 :=
    lgcS_vertex kind hi _ _ (wf.q_pos i hi) (wf.r_pos i hi)
  unfold gammaSubS groupGammaS
  rw [show (build nC nG index cg Qs Rs).nC = nC from rfl, show (build nC nG index cg Qs Rs).nG = nG from rfl,
    show (build nC nG index cg Qs Rs).cg = cg from rfl, show (build nC nG index cg Qs Rs).Qs = Qs from rfl,
    thetaS_vertex index hi, hres, hl]
  simp

end built

section scatter
variable {α : Type} [One α] [Transc α]

/-- a position no indexed chemical occupies keeps the initial one -/
theorem scatterAt_miss (index : Nat → Nat) (g : Nat → α) (c j : Nat) (h : ∀ a, a < c → index a ≠ j) :
    scatterAt index g c j = 1 := by
  induction c with
  | zero => rfl
  | succ c ih =>
    have hc : index c ≠ j := h c (Nat.lt_succ_self c)
    simp [scatterAt, hc, ih (fun a ha => h a (Nat.lt_succ_of_lt ha))]

theorem scatterAt_hit (index : Nat → Nat) (g : Nat → α) (c a : Nat) (ha : a < c)
    (hinj : ∀ a b, a < c → b < c → index a = index b → a = b) (hnan : ∀ b, b < c → isNaN (g b) = false) :
    scatterAt index g c (index a) = g a := by
  induction c with
  | zero => omega
  | succ c ih =>
    by_cases hac : a = c
    · subst hac
      simp [scatterAt, hnan a ha]
    · have ha' : a < c := by omega
      have hne : index c ≠ index a := fun h => hac (hinj c a (Nat.lt_succ_self c) ha h).symm
      simp only [scatterAt, hne, decide_false, Bool.false_and, Bool.false_eq_true, if_false]
      exact ih ha' (fun a b ha hb => hinj a b (Nat.lt_succ_of_lt ha) (Nat.lt_succ_of_lt hb))
        (fun b hb => hnan b (Nat.lt_succ_of_lt hb))

end scatter
section scatter
variable {α : Type} [One α] [Transc α]
theorem scatterAt_congr (index : Nat → Nat) {g g' : Nat → α} (c j : Nat) (h : ∀ a, a < c → g a = g' a) :
    scatterAt index g c j = scatterAt index g' c j := by
  induction c with
  | zero => rfl
  | succ c ih =>
    simp only [scatterAt, h c (Nat.lt_succ_self c), ih (fun a ha => h a (Nat.lt_succ_of_lt ha))]
end scatter

section spec3
variable {α : Type} [Zero α] [One α] [Add α] [Sub α] [Mul α] [Div α] [Neg α] [Transc α]

theorem gammaSubS_congr (kind : Kind) (tb : Tables α) (inter : Nat → Nat → Nat → α) (T : α)
    {xs xs' : Nat → α} (h : ∀ a, a < tb.nC → xs a = xs' a) (i : Nat) :
    gammaSubS kind tb inter T xs i = gammaSubS kind tb inter T xs' i := by
  cases kind <;>
  simp (config := {contextual := true}) [gammaSubS, groupGammaS, lggS, clggS, s1S, sum1S, thetaS, lgcS, h]

/-- the gathered sub-composition -/
def xsubS (tb : Tables α) (x : Array α) (a : Nat) : α := vget x (tb.index a)
def xsumS (tb : Tables α) (x : Array α) : α := sumN tb.nC (xsubS tb x)

/-- `gamma[j]` of the wrapper, written with functions only -/
def gammaFS (kind : Kind) (tb : Tables α) (inter : Nat → Nat → Nat → α) (x : Array α) (T : α) (j : Nat) : α :=
  if tb.nC > 1 then
    if isZero (xsumS tb x) then 1
    else scatterAt tb.index (gammaSubS kind tb inter T fun a => xsubS tb x a / xsumS tb x) tb.nC j
  else 1

theorem size_gammaF (kind : Kind) (tb : Tables α) (inter : Nat → Nat → Nat → α) (x : Array α) (T : α) :
    (gammaF kind tb inter x T).gamma.size = x.size := by
  unfold gammaF
  by_cases h1 : tb.nC > 1
  · simp only [h1, if_true]
    split <;> simp
  · simp [h1]

theorem vget_gammaF (kind : Kind) (tb : Tables α) (inter : Nat → Nat → Nat → α) (x : Array α) (T : α)
    {j : Nat} (hj : j < x.size) :
    vget (gammaF kind tb inter x T).gamma j = gammaFS kind tb inter x T j := by
  have hsum : sumN tb.nC (vget (tabA tb.nC fun i => vget x (tb.index i))) = xsumS tb x := by
    unfold xsumS xsubS
    exact sumN_congr (fun a ha => vget_tabA _ ha)
  unfold gammaF gammaFS
  by_cases h1 : tb.nC > 1
  · simp only [h1, if_true, hsum]
    by_cases h2 : isZero (xsumS tb x) = true
    · simp [h2, vget_tabA _ hj]
    · simp only [h2, Bool.false_eq_true, if_false]
      rw [vget_tabA _ hj]
      apply scatterAt_congr
      intro a ha
      rw [vget_gammaSub _ _ _ _ _ ha]
      apply gammaSubS_congr
      intro b hb
      rw [vget_tabA _ hb, vget_tabA _ hb]
      rfl
  · simp [h1, vget_tabA _ hj]

/-- **no_groups_one** on the spec: a chemical that is not indexed gets exactly one. -/
theorem gammaFS_nogroup (kind : Kind) (tb : Tables α) (inter : Nat → Nat → Nat → α) (x : Array α) (T : α)
    (j : Nat) (h : ∀ a, a < tb.nC → tb.index a ≠ j) : gammaFS kind tb inter x T j = 1 := by
  unfold gammaFS
  split
  · split
    · rfl
    · exact scatterAt_miss _ _ _ _ h
  · rfl

end spec3
/-- **pure_limit** on the wrapper spec. -/
theorem gammaFS_vertex (kind : Kind) {nC nG : Nat} {cg : Nat → Nat → ℝ} {Qs Rs : Nat → ℝ}
    (index : Nat → Nat) (wf : WF nC nG cg Qs Rs) (inter : Nat → Nat → Nat → ℝ) (T : ℝ)
    (hnC : 1 < nC) (hinj : ∀ a b, a < nC → b < nC → index a = index b → a = b)
    (x : Array ℝ) {i : Nat} (hi : i < nC)
    (hx : ∀ a, a < nC → vget x (index a) = if a = i then 1 else 0) :
    gammaFS kind (build nC nG index cg Qs Rs) inter x T (index i) = 1 := by
  have hsub : ∀ a, a < nC → xsubS (build nC nG index cg Qs Rs) x a = e i a := by
    intro a ha; simp [xsubS, build, hx a ha, e]
  have hsum : xsumS (build nC nG index cg Qs Rs) x = 1 := by
    unfold xsumS
    rw [show (build nC nG index cg Qs Rs).nC = nC from rfl, sumN_congr hsub]
    exact sumN_ite hi (fun _ => (1:ℝ))
  unfold gammaFS
  rw [show (build nC nG index cg Qs Rs).nC = nC from rfl, show (build nC nG index cg Qs Rs).index = index from rfl]
  simp only [gt_iff_lt, hnC, if_true, hsum, isZero_false_of_ne one_ne_zero, Bool.false_eq_true, if_false]
  rw [scatterAt_hit index _ nC i hi hinj (fun _ _ => rfl)]
  rw [gammaSubS_congr kind (build nC nG index cg Qs Rs) inter T (xs' := e i)
    (by intro a ha; simp [hsub a ha])]
  exact gammaSubS_vertex index wf kind inter T hi

/-- `tb'` is `tb` with the chemicals relabelled by `σ` and the subgroups by `τ`
(what `__new__` produces for a permuted chemical tuple: rows permuted, and the column order is
whatever the `set` of subgroup ids iterates to). -/
structure PermRel (tb tb' : Tables ℝ) (σ τ : Equiv.Perm ℕ) : Prop where
  nC : tb'.nC = tb.nC
  nG : tb'.nG = tb.nG
  hσ : ∀ i, σ i < tb.nC ↔ i < tb.nC
  hτ : ∀ k, τ k < tb.nG ↔ k < tb.nG
  cg : ∀ i k, i < tb.nC → k < tb.nG → tb'.cg i k = tb.cg (σ i) (τ k)
  Qs : ∀ k, k < tb.nG → tb'.Qs k = tb.Qs (τ k)
  qs : ∀ i, i < tb.nC → tb'.qs i = tb.qs (σ i)
  rs : ∀ i, i < tb.nC → tb'.rs i = tb.rs (σ i)
  cQ : ∀ i k, i < tb.nC → k < tb.nG → tb'.cQ i k = tb.cQ (σ i) (τ k)
  mask : ∀ k m, k < tb.nG → m < tb.nG → tb'.mask k m = tb.mask (τ k) (τ m)

section perm
variable {tb tb' : Tables ℝ} {σ τ : Equiv.Perm ℕ} (R : PermRel tb tb' σ τ)
  {xs xs' : Nat → ℝ} (hx : ∀ a, a < tb.nC → xs' a = xs (σ a))
include R

theorem lgcS_perm (kind : Kind) (hx : ∀ a, a < tb.nC → xs' a = xs (σ a)) {i : Nat} (hi : i < tb.nC) :
    lgcS kind tb.nC tb'.qs tb'.rs xs' i = lgcS kind tb.nC tb.qs tb.rs xs (σ i) := by
  have h1 : (sumN tb.nC fun j => xs' j * tb'.rs j) = sumN tb.nC fun j => xs j * tb.rs j :=
    sumN_perm σ R.hσ (fun j hj => by rw [hx j hj, R.rs j hj])
  have h2 : (sumN tb.nC fun j => xs' j * tb'.qs j) = sumN tb.nC fun j => xs j * tb.qs j :=
    sumN_perm σ R.hσ (fun j hj => by rw [hx j hj, R.qs j hj])
  have h3 : (sumN tb.nC fun j => tb'.rs j ^ ((3:ℝ)/4) * xs' j) = sumN tb.nC fun j => tb.rs j ^ ((3:ℝ)/4) * xs j :=
    sumN_perm σ R.hσ (fun j hj => by rw [hx j hj, R.rs j hj])
  cases kind <;> simp only [lgcS, h1, h2, R.rs i hi, R.qs i hi, rpow_real, ofNat_real] <;> norm_num [h3]

theorem thetaS_perm (hx : ∀ a, a < tb.nC → xs' a = xs (σ a)) {k : Nat} (hk : k < tb.nG) :
    thetaS tb.nC tb.nG tb'.cg tb'.Qs xs' k = thetaS tb.nC tb.nG tb.cg tb.Qs xs (τ k) := by
  have hin : ∀ m, m < tb.nG → (sumN tb.nC fun i => tb'.cg i m * xs' i) = sumN tb.nC fun i => tb.cg i (τ m) * xs i :=
    fun m hm => sumN_perm σ R.hσ (fun j hj => by rw [hx j hj, R.cg j m hj hm])
  have hden : (sumN tb.nG fun m => tb'.Qs m * sumN tb.nC fun i => tb'.cg i m * xs' i)
      = sumN tb.nG fun m => tb.Qs m * sumN tb.nC fun i => tb.cg i m * xs i :=
    sumN_perm τ R.hτ (fun m hm => by rw [hin m hm, R.Qs m hm])
  unfold thetaS
  rw [hin k hk, hden, R.Qs k hk]

theorem sum1S_perm {psis psis' : Nat → Nat → ℝ} {θ θ' : Nat → ℝ}
    (hpsi : ∀ k m, k < tb.nG → m < tb.nG → psis' k m = psis (τ k) (τ m))
    (hθ : ∀ k, k < tb.nG → θ' k = θ (τ k)) {k : Nat} (hk : k < tb.nG) :
    sum1S tb.nG psis' θ' k = sum1S tb.nG psis θ (τ k) := by
  unfold sum1S
  exact sumN_perm τ R.hτ (fun m hm => by rw [hpsi k m hk hm, hθ m hm])

theorem lggS_perm {psis psis' : Nat → Nat → ℝ} {θ θ' : Nat → ℝ}
    (hpsi : ∀ k m, k < tb.nG → m < tb.nG → psis' k m = psis (τ k) (τ m))
    (hθ : ∀ k, k < tb.nG → θ' k = θ (τ k)) {k : Nat} (hk : k < tb.nG) :
    lggS tb.nG tb'.Qs psis' θ' k = lggS tb.nG tb.Qs psis θ (τ k) := by
  unfold lggS
  rw [sum1S_perm R hpsi hθ hk, R.Qs k hk]
  congr 3
  exact sumN_perm τ R.hτ (fun m hm => by rw [hpsi m k hm hk, hθ m hm, sum1S_perm R hpsi hθ hm])

theorem s1S_perm {g g' : Nat → Nat → ℝ}
    (hg : ∀ k m, k < tb.nG → m < tb.nG → g' k m = g (τ k) (τ m)) {i k : Nat} (hi : i < tb.nC) (hk : k < tb.nG) :
    s1S tb.nG tb'.cQ g' i k = s1S tb.nG tb.cQ g (σ i) (τ k) := by
  have : (sumN tb.nG fun m => tb'.cQ i m * g' k m) = sumN tb.nG fun m => tb.cQ (σ i) m * g (τ k) m :=
    sumN_perm τ R.hτ (fun m hm => by rw [hg k m hk hm, R.cQ i m hi hm])
  unfold s1S
  rw [this]

theorem clggS_perm {g g' : Nat → Nat → ℝ}
    (hg : ∀ k m, k < tb.nG → m < tb.nG → g' k m = g (τ k) (τ m)) {i m : Nat} (hi : i < tb.nC) (hm : m < tb.nG) :
    clggS tb.nG tb'.Qs tb'.cQ g' i m = clggS tb.nG tb.Qs tb.cQ g (σ i) (τ m) := by
  unfold clggS
  rw [s1S_perm R hg hi hm, R.Qs m hm]
  congr 2
  exact sumN_perm τ R.hτ (fun k hk => by rw [hg k m hk hm, R.cQ i k hi hk, s1S_perm R hg hi hk])

/-- **perm_equivariant**, kernel level: relabelling chemicals and subgroups relabels the result. -/
theorem gammaSubS_perm (kind : Kind) {inter inter' : Nat → Nat → Nat → ℝ} (T : ℝ)
    (hinter : ∀ k m p, k < tb.nG → m < tb.nG → inter' k m p = inter (τ k) (τ m) p)
    (hx : ∀ a, a < tb.nC → xs' a = xs (σ a)) {i : Nat} (hi : i < tb.nC) :
    gammaSubS kind tb' inter' T xs' i = gammaSubS kind tb inter T xs (σ i) := by
  have hpsi : ∀ k m, k < tb.nG → m < tb.nG → psi kind T inter' k m = psi kind T inter (τ k) (τ m) := by
    intro k m hk hm
    cases kind <;> simp [psi, hinter k m _ hk hm]
  have hg : ∀ k m, k < tb.nG → m < tb.nG →
      gpsisS tb'.mask (psi kind T inter') k m = gpsisS tb.mask (psi kind T inter) (τ k) (τ m) := by
    intro k m hk hm
    simp [gpsisS, R.mask k m hk hm, hpsi k m hk hm]
  unfold gammaSubS groupGammaS
  rw [R.nC, R.nG, lgcS_perm R kind hx hi]
  congr 2
  exact sumN_perm τ R.hτ (fun m hm => by
    rw [lggS_perm R hpsi (fun k hk => thetaS_perm R hx hk) hm, clggS_perm R hg hi hm, R.cg i m hi hm])

/-- **perm_equivariant**, wrapper level: `π` relabels the positions of the full chemical tuple. -/
theorem gammaFS_perm (kind : Kind) {inter inter' : Nat → Nat → Nat → ℝ} (T : ℝ)
    (hinter : ∀ k m p, k < tb.nG → m < tb.nG → inter' k m p = inter (τ k) (τ m) p)
    (π : Equiv.Perm ℕ) (hidx : ∀ a, a < tb.nC → tb.index (σ a) = π (tb'.index a))
    (hinj : ∀ a b, a < tb.nC → b < tb.nC → tb.index a = tb.index b → a = b)
    (x x' : Array ℝ) (hxx : ∀ j, vget x' j = vget x (π j)) (j : Nat) :
    gammaFS kind tb' inter' x' T j = gammaFS kind tb inter x T (π j) := by
  have hinj' : ∀ a b, a < tb.nC → b < tb.nC → tb'.index a = tb'.index b → a = b := by
    intro a b ha hb h
    have : tb.index (σ a) = tb.index (σ b) := by rw [hidx a ha, hidx b hb, h]
    exact σ.injective (hinj _ _ ((R.hσ a).mpr ha) ((R.hσ b).mpr hb) this)
  have hsub : ∀ a, a < tb.nC → xsubS tb' x' a = xsubS tb x (σ a) := by
    intro a ha; simp [xsubS, hxx, hidx a ha]
  have hsum : xsumS tb' x' = xsumS tb x := by
    unfold xsumS; rw [R.nC]; exact sumN_perm σ R.hσ hsub
  unfold gammaFS
  rw [R.nC, hsum]
  by_cases h1 : tb.nC > 1
  · simp only [h1, if_true]
    by_cases h2 : isZero (xsumS tb x) = true
    · simp [h2]
    · simp only [h2, Bool.false_eq_true, if_false]
      by_cases hj : ∃ a, a < tb.nC ∧ tb'.index a = j
      · obtain ⟨a, ha, rfl⟩ := hj
        rw [scatterAt_hit tb'.index _ tb.nC a ha hinj' (fun _ _ => rfl), ← hidx a ha,
          scatterAt_hit tb.index _ tb.nC (σ a) ((R.hσ a).mpr ha) hinj (fun _ _ => rfl)]
        exact gammaSubS_perm R kind T hinter (fun b hb => by rw [hsub b hb]) ha
      · have hmiss' : ∀ a, a < tb.nC → tb'.index a ≠ j := fun a ha h => hj ⟨a, ha, h⟩
        have hmiss : ∀ b, b < tb.nC → tb.index b ≠ π j := by
          intro b hb h
          have hb' : σ.symm b < tb.nC := by
            have := R.hσ (σ.symm b); simp only [Equiv.apply_symm_apply] at this; exact this.mp hb
          have := hidx (σ.symm b) hb'
          simp only [Equiv.apply_symm_apply] at this
          exact hmiss' _ hb' (π.injective (by rw [← this, h]))
        rw [scatterAt_miss _ _ _ _ hmiss', scatterAt_miss _ _ _ _ hmiss]
  · simp [h1]

end perm
theorem anyN_iff (n : Nat) (p : Nat → Bool) : anyN n p = true ↔ ∃ i, i < n ∧ p i = true := by
  induction n with
  | zero => simp [anyN]
  | succ n ih =>
    simp only [anyN, Bool.or_eq_true, ih]
    constructor
    · rintro (⟨i, hi, h⟩ | h)
      · exact ⟨i, Nat.lt_succ_of_lt hi, h⟩
      · exact ⟨n, Nat.lt_succ_self n, h⟩
    · rintro ⟨i, hi, h⟩
      rcases Nat.lt_succ_iff_lt_or_eq.mp hi with h' | h'
      · exact Or.inl ⟨i, h', h⟩
      · subst h'; exact Or.inr h

theorem anyN_perm {n : Nat} (σ : Equiv.Perm ℕ) (hσ : ∀ i, σ i < n ↔ i < n) (p : Nat → Bool) :
    anyN n (fun i => p (σ i)) = anyN n p := by
  rw [Bool.eq_iff_iff, anyN_iff, anyN_iff]
  constructor
  · rintro ⟨i, hi, h⟩; exact ⟨σ i, (hσ i).mpr hi, h⟩
  · rintro ⟨i, hi, h⟩
    refine ⟨σ.symm i, ?_, by simpa using h⟩
    have := hσ (σ.symm i); simp only [Equiv.apply_symm_apply] at this; exact this.mp hi

/-- The tables `__new__` builds for relabelled group data are the relabelled tables. -/
theorem build_permRel {nC nG : Nat} (index index' : Nat → Nat) (cg : Nat → Nat → ℝ) (Qs Rs : Nat → ℝ)
    (σ τ : Equiv.Perm ℕ) (hσ : ∀ i, σ i < nC ↔ i < nC) (hτ : ∀ k, τ k < nG ↔ k < nG) :
    PermRel (build nC nG index cg Qs Rs)
      (build nC nG index' (fun i k => cg (σ i) (τ k)) (fun k => Qs (τ k)) (fun k => Rs (τ k))) σ τ := by
  have hcQ : ∀ i k, (build nC nG index' (fun i k => cg (σ i) (τ k)) (fun k => Qs (τ k)) (fun k => Rs (τ k))).cQ i k
      = (build nC nG index cg Qs Rs).cQ (σ i) (τ k) := by
    intro i k
    simp only [build]
    rw [sumN_perm τ hτ (f := fun m => Qs m * cg (σ i) m) (fun m _ => rfl)]
  refine ⟨rfl, rfl, hσ, hτ, fun _ _ _ _ => rfl, fun _ _ => rfl, ?_, ?_, fun i k _ _ => hcQ i k, ?_⟩
  · intro i _
    exact sumN_perm τ hτ (fun k _ => rfl)
  · intro i _
    exact sumN_perm τ hτ (fun k _ => rfl)
  · intro k m _ _
    show anyN nC _ = anyN nC _
    refine Eq.trans ?_ (anyN_perm σ hσ _)
    congr 1
    funext i
    have h1 := hcQ i k
    have h2 := hcQ i m
    simp only [build] at h1 h2 ⊢
    rw [h1, h2]

theorem read_push_lt' {α : Type} (h : Array (Array α)) (a : Array α) {id : Nat} (hid : id < h.size) :
    (h.push a).getD id #[] = h.getD id #[] := by
  simp [Array.getD_eq_getD_getElem?, Array.getElem?_push, Nat.ne_of_lt hid]

theorem read_push_new' {α : Type} (h : Array (Array α)) (a : Array α) : (h.push a).getD h.size #[] = a := by
  simp [Array.getD_eq_getD_getElem?]

section world
variable {α : Type} [Zero α] [One α] [Add α] [Sub α] [Mul α] [Div α] [Neg α] [Transc α]

theorem fForm_heap (w : World α) (kind : Kind) (tb : Tables α) (inter : Nat → Nat → Nat → α) (xid : Nat) (T : α) :
    (w.fForm kind tb inter xid T).1.heap = w.heap.push (gammaF kind tb inter (w.read xid) T).gamma
    ∧ (w.fForm kind tb inter xid T).2 = w.heap.size := by
  simp only [World.fForm, World.alloc]
  split <;> simp

/-- the argument a call actually evaluates -/
def World.argContents (w : World α) : Arg α → Array α
  | .nd id => w.read id
  | .seq v => v
  | .ndOther id => w.read id

/-- ids an argument refers to are ids of existing arrays -/
def World.argOk (w : World α) : Arg α → Prop
  | .nd id => id < w.heap.size
  | .seq _ => True
  | .ndOther id => id < w.heap.size

theorem call_spec_seq (w : World α) (kind : Kind) (tb : Tables α) (inter : Nat → Nat → Nat → α) (v : Array α) (T : α) :
    let r := w.call kind tb inter (.seq v) T
    (∀ id, id < w.heap.size → r.1.read id = w.read id)
    ∧ w.heap.size ≤ r.2 ∧ r.2 < r.1.heap.size ∧ w.heap.size < r.1.heap.size
    ∧ r.1.read r.2 = (gammaF kind tb inter v T).gamma := by
  obtain ⟨hh, hid⟩ := fForm_heap (w.alloc v).1 kind tb inter (w.alloc v).2 T
  have hr : (w.alloc v).1.read (w.alloc v).2 = v := by
    simp only [World.read, World.alloc]; exact read_push_new' _ _
  rw [hr] at hh
  simp only [World.alloc] at hh hid
  simp only [World.call, World.alloc]
  refine ⟨fun id h => ?_, ?_, ?_, ?_, ?_⟩
  · simp only [World.read, hh]
    rw [read_push_lt' _ _ (by simp; omega), read_push_lt' _ _ h]
  · rw [hid]; simp
  · rw [hid, hh]; simp
  · rw [hh]; simp
  · simp only [World.read, hh, hid]; exact read_push_new' _ _

theorem call_spec (w : World α) (kind : Kind) (tb : Tables α) (inter : Nat → Nat → Nat → α) (arg : Arg α) (T : α)
    (hok : w.argOk arg) :
    let r := w.call kind tb inter arg T
    (∀ id, id < w.heap.size → r.1.read id = w.read id)
    ∧ w.heap.size ≤ r.2 ∧ r.2 < r.1.heap.size ∧ w.heap.size < r.1.heap.size
    ∧ r.1.read r.2 = (gammaF kind tb inter (w.argContents arg) T).gamma := by
  cases arg with
  | nd xid =>
    obtain ⟨hh, hid⟩ := fForm_heap w kind tb inter xid T
    simp only [World.call, World.argContents]
    refine ⟨fun id h => ?_, ?_, ?_, ?_, ?_⟩
    · simp only [World.read, hh]; exact read_push_lt' _ _ h
    · rw [hid]
    · rw [hid, hh]; simp
    · rw [hh]; simp
    · simp only [World.read, hh, hid]; exact read_push_new' _ _
  | seq v => exact call_spec_seq w kind tb inter v T
  | ndOther xid => exact call_spec_seq w kind tb inter (w.read xid) T

/-- a history of calls on one model object; returns the final world and the results -/
def World.runCalls (w : World α) (kind : Kind) (tb : Tables α) (inter : Nat → Nat → Nat → α) :
    List (Arg α × α) → World α × List (Array α)
  | [] => (w, [])
  | (arg, T) :: cs =>
    let r := w.call kind tb inter arg T
    let rest := r.1.runCalls kind tb inter cs
    (rest.1, r.1.read r.2 :: rest.2)

theorem runCalls_spec (kind : Kind) (tb : Tables α) (inter : Nat → Nat → Nat → α) (cs : List (Arg α × α)) :
    ∀ (w : World α), (∀ c, c ∈ cs → w.argOk c.1) →
      (∀ id, id < w.heap.size → ((w.runCalls kind tb inter cs).1.read id = w.read id))
      ∧ (w.runCalls kind tb inter cs).2
          = cs.map fun c => (gammaF kind tb inter (w.argContents c.1) c.2).gamma := by
  induction cs with
  | nil => intro w _; exact ⟨fun _ _ => rfl, rfl⟩
  | cons c cs ih =>
    intro w hok
    obtain ⟨arg, T⟩ := c
    obtain ⟨hframe, _, _, hgrow, hres⟩ := call_spec w kind tb inter arg T (hok (arg, T) (by simp))
    have hok' : ∀ c, c ∈ cs → (w.call kind tb inter arg T).1.argOk c.1 := by
      intro c hc
      have := hok c (by simp [hc])
      cases hc1 : c.1 with
      | nd id => rw [hc1] at this; exact Nat.lt_trans this hgrow
      | seq v => trivial
      | ndOther id => rw [hc1] at this; exact Nat.lt_trans this hgrow
    obtain ⟨ihf, ihr⟩ := ih (w.call kind tb inter arg T).1 hok'
    refine ⟨fun id h => ?_, ?_⟩
    · simp only [World.runCalls]
      rw [ihf id (Nat.lt_trans h hgrow), hframe id h]
    · simp only [World.runCalls, List.map_cons, hres, ihr]
      congr 1
      apply List.map_congr_left
      intro c hc
      have := hok c (by simp [hc])
      cases hc1 : c.1 with
      | nd id => rw [hc1] at this; simp only [World.argContents]; rw [hframe id this]
      | seq v => rfl
      | ndOther id => rw [hc1] at this; simp only [World.argContents]; rw [hframe id this]

end world
theorem continuousAt_sumN {n : Nat} {f : (ℕ → ℝ) → ℕ → ℝ} {p : ℕ → ℝ}
    (h : ∀ j, j < n → ContinuousAt (fun xs => f xs j) p) : ContinuousAt (fun xs => sumN n (f xs)) p := by
  induction n with
  | zero => exact continuousAt_const
  | succ n ih =>
    simp only [sumN]
    exact (ih (fun j hj => h j (Nat.lt_succ_of_lt hj))).add (h n (Nat.lt_succ_self n))

theorem continuousAt_coord (j : ℕ) (p : ℕ → ℝ) : ContinuousAt (fun xs : ℕ → ℝ => xs j) p :=
  (continuous_apply j).continuousAt

theorem exists_pos_of_sumN_pos {n : Nat} {f : Nat → ℝ} (h : 0 < sumN n f) : ∃ k, k < n ∧ 0 < f k := by
  by_contra hc
  simp only [not_exists, not_and, not_lt] at hc
  have : sumN n f ≤ 0 := by
    rw [sumN_eq_sum]; exact Finset.sum_nonpos (fun i hi => hc i (Finset.mem_range.mp hi))
  linarith

theorem lgcS_continuousAt (kind : Kind) {nC i : Nat} (hi : i < nC) (qs rs : Nat → ℝ)
    (hq : 0 < qs i) (hr : 0 < rs i) :
    ContinuousAt (fun xs : ℕ → ℝ => lgcS kind nC qs rs xs i) (e i) := by
  have hp : 0 < rs i ^ ((3:ℝ)/4) := Real.rpow_pos_of_pos hr _
  have hrn : ContinuousAt (fun xs : ℕ → ℝ => sumN nC fun j => xs j * rs j) (e i) :=
    continuousAt_sumN (fun j _ => (continuousAt_coord j _).mul continuousAt_const)
  have hqn : ContinuousAt (fun xs : ℕ → ℝ => sumN nC fun j => xs j * qs j) (e i) :=
    continuousAt_sumN (fun j _ => (continuousAt_coord j _).mul continuousAt_const)
  have hpn : ContinuousAt (fun xs : ℕ → ℝ => sumN nC fun j => rs j ^ ((3:ℝ)/4) * xs j) (e i) :=
    continuousAt_sumN (fun j _ => continuousAt_const.mul (continuousAt_coord j _))
  have vr : (sumN nC fun j => e i j * rs j) = rs i := by simp [e, sumN_ite hi]
  have vq : (sumN nC fun j => e i j * qs j) = qs i := by simp [e, sumN_ite hi]
  have vp : (sumN nC fun j => rs j ^ ((3:ℝ)/4) * e i j) = rs i ^ ((3:ℝ)/4) := by simp [e, sumN_ite hi]
  have hV : ContinuousAt (fun xs : ℕ → ℝ => rs i / sumN nC fun j => xs j * rs j) (e i) :=
    continuousAt_const.div hrn (by rw [vr]; exact hr.ne')
  have hF : ContinuousAt (fun xs : ℕ → ℝ => qs i / sumN nC fun j => xs j * qs j) (e i) :=
    continuousAt_const.div hqn (by rw [vq]; exact hq.ne')
  have hVF : ContinuousAt (fun xs : ℕ → ℝ => (rs i / sumN nC fun j => xs j * rs j) / (qs i / sumN nC fun j => xs j * qs j)) (e i) :=
    hV.div hF (by rw [vq, div_self hq.ne']; exact one_ne_zero)
  have hlogV : ContinuousAt (fun xs : ℕ → ℝ => Real.log (rs i / sumN nC fun j => xs j * rs j)) (e i) :=
    hV.log (by rw [vr, div_self hr.ne']; exact one_ne_zero)
  have hlogVF : ContinuousAt (fun xs : ℕ → ℝ => Real.log ((rs i / sumN nC fun j => xs j * rs j) / (qs i / sumN nC fun j => xs j * qs j))) (e i) :=
    hVF.log (by rw [vr, vq, div_self hr.ne', div_self hq.ne', div_self one_ne_zero]; exact one_ne_zero)
  have hVp : ContinuousAt (fun xs : ℕ → ℝ => rs i ^ ((3:ℝ)/4) / sumN nC fun j => rs j ^ ((3:ℝ)/4) * xs j) (e i) :=
    continuousAt_const.div hpn (by rw [vp]; exact hp.ne')
  have hlogVp : ContinuousAt (fun xs : ℕ → ℝ => Real.log (rs i ^ ((3:ℝ)/4) / sumN nC fun j => rs j ^ ((3:ℝ)/4) * xs j)) (e i) :=
    hVp.log (by rw [vp, div_self hp.ne']; exact one_ne_zero)
  cases kind
  · simp only [lgcS, log_real, ofNat_real]
    exact (((continuousAt_const.sub hV).add hlogV).sub
      (continuousAt_const.mul ((continuousAt_const.sub hVF).add hlogVF)))
  · simp only [lgcS, log_real, ofNat_real, rpow_real]
    norm_num
    exact (((continuousAt_const.sub hVp).add hlogVp).sub
      (continuousAt_const.mul ((continuousAt_const.sub hVF).add hlogVF)))

section limit
variable {nC nG : Nat} {cg : Nat → Nat → ℝ} {Qs Rs : Nat → ℝ} (index : Nat → Nat)
  (wf : WF nC nG cg Qs Rs)
include wf

omit index in
theorem thetaS_continuousAt {i : Nat} (hi : i < nC) (k : Nat) :
    ContinuousAt (fun xs : ℕ → ℝ => thetaS nC nG cg Qs xs k) (e i) := by
  have hwc : ∀ m, ContinuousAt (fun xs : ℕ → ℝ => sumN nC fun a => cg a m * xs a) (e i) :=
    fun m => continuousAt_sumN (fun a _ => continuousAt_const.mul (continuousAt_coord a _))
  have htot : ContinuousAt (fun xs : ℕ → ℝ => sumN nG fun m => Qs m * sumN nC fun a => cg a m * xs a) (e i) :=
    continuousAt_sumN (fun m _ => continuousAt_const.mul (hwc m))
  have hv : (sumN nG fun m => Qs m * sumN nC fun a => cg a m * e i a) = sumN nG fun m => Qs m * cg i m := by
    apply sumN_congr; intro m _; simp [e, sumN_ite hi]
  unfold thetaS
  exact (continuousAt_const.mul (hwc k)).div htot (by rw [hv]; exact (denom_pos wf hi).ne')

theorem sum1S_vertex_pos {psis : Nat → Nat → ℝ} (hpsi : ∀ k m, 0 < psis k m) {i : Nat} (hi : i < nC) (k : Nat) :
    0 < sum1S nG psis ((build nC nG index cg Qs Rs).cQ i) k := by
  obtain ⟨m, hm, hpos⟩ := exists_pos_of_sumN_pos (denom_pos wf hi)
  have hc : 0 < (build nC nG index cg Qs Rs).cQ i m := by
    simp only [build]; exact div_pos hpos (denom_pos wf hi)
  unfold sum1S
  exact sumN_pos_of (k := m) (fun a ha => mul_nonneg (hpsi k a).le (cQ_nonneg index wf hi ha)) hm
    (mul_pos (hpsi k m) hc)

/-- **pure_limit, as a limit.**  The coefficient of chemical `i` computed by the kernels tends to
one as the (sub-)composition tends to the vertex `e_i`, from any direction (no sign or
normalisation assumed on the approaching compositions). -/
theorem gammaSubS_tendsto (kind : Kind) (inter : Nat → Nat → Nat → ℝ) (T : ℝ) {i : Nat} (hi : i < nC) :
    Tendsto (fun xs : ℕ → ℝ => gammaSubS kind (build nC nG index cg Qs Rs) inter T xs i) (𝓝 (e i)) (𝓝 1) := by
  have hpsi := psi_pos kind T inter
  have hθ := fun k => thetaS_continuousAt wf hi k
  have hθv : thetaS nC nG cg Qs (e i) = (build nC nG index cg Qs Rs).cQ i := thetaS_vertex index hi
  have hs1 : ∀ k, ContinuousAt
      (fun xs : ℕ → ℝ => sum1S nG (psi kind T inter) (thetaS nC nG cg Qs xs) k) (e i) := by
    intro k; unfold sum1S
    exact continuousAt_sumN (fun m _ => continuousAt_const.mul (hθ m))
  have hs1v : ∀ k, sum1S nG (psi kind T inter) (thetaS nC nG cg Qs (e i)) k ≠ 0 := by
    intro k; rw [hθv]; exact (sum1S_vertex_pos index wf hpsi hi k).ne'
  have hlgg : ∀ m, ContinuousAt
      (fun xs : ℕ → ℝ => lggS nG Qs (psi kind T inter) (thetaS nC nG cg Qs xs) m) (e i) := by
    intro m; unfold lggS
    refine continuousAt_const.mul (((continuousAt_const.sub ((hs1 m).log (hs1v m))).add ?_))
    exact (continuousAt_sumN (fun k _ => ((continuousAt_const.div (hs1 k) (hs1v k)).mul (hθ k)))).neg
  have hc : ContinuousAt
      (fun xs : ℕ → ℝ => gammaSubS kind (build nC nG index cg Qs Rs) inter T xs i) (e i) := by
    unfold gammaSubS groupGammaS
    refine Real.continuous_exp.continuousAt.comp ?_
    refine (lgcS_continuousAt kind hi _ _ (wf.q_pos i hi) (wf.r_pos i hi)).add ?_
    exact continuousAt_sumN (fun m _ => ((hlgg m).sub continuousAt_const).mul continuousAt_const)
  have := hc.tendsto
  rwa [gammaSubS_vertex index wf kind inter T hi] at this

end limit

/-! ### Facts that hold by construction of the model

The model defines the ideal models as the constant one and its wrappers allocate their result with one entry
per entry of `x`; the statements below unfold those definitions.  On the real code the corresponding clauses
("the ideal fugacity and Poynting models return one", result shape) are decided by the correspondence lines
and the oracle on the real objects, not by these lemmas. -/

section definitional
variable {α : Type} [Zero α] [One α] [Add α] [Sub α] [Mul α] [Div α] [Neg α] [Transc α]

/-- the result has one entry per entry of `x` -/
theorem result_size (kind : Kind) (tb : Tables α) (inter : Nat → Nat → Nat → α) (x : Array α) (T : α) :
    (gammaF kind tb inter x T).gamma.size = x.size := size_gammaF kind tb inter x T

/-- **ideal_one.**  The `f` every `@ideal` class gets, `IdealActivityCoefficients.__call__`,
`IdealFugacityCoefficients.__call__` and `MockPoyintingCorrectionFactors.__call__` return one(s),
whatever the arguments. -/
theorem ideal_one (z : Option (Array α)) (T P : Option α) (xs : Array α) (T' P' : α) :
    idealF z T P = 1
    ∧ (idealGammaCall xs T').size = xs.size ∧ (∀ j, j < xs.size → vget (idealGammaCall xs T') j = 1)
    ∧ idealPhiCall xs T' P' = 1 ∧ mockPcfCall T' P' = (1 : α) :=
  ⟨rfl, by simp [idealGammaCall], fun j hj => by simp [idealGammaCall, vget_tabA _ hj], rfl, rfl⟩

/-- `IdealActivityCoefficients(...)(x, T)` allocates its result and writes nothing. -/
theorem ideal_call_pure (w : World α) (arg : Arg α) (T : α) :
    (∀ id, id < w.heap.size → (w.callIdeal arg T).1.read id = w.read id)
    ∧ (w.callIdeal arg T).2 = w.heap.size := by
  cases arg <;> exact ⟨fun id h => by simp only [World.callIdeal, World.alloc, World.read]; exact read_push_lt' _ _ h, rfl⟩

end definitional

/-! ### example data for the non-vacuity examples of Props/C16.lean -/

/-- two chemicals, two subgroups: chemical 0 = {g0}, chemical 1 = {g0, 2 g1} -/
def cgEx : Nat → Nat → ℝ := fun i k => if i = 0 then (if k = 0 then 1 else 0) else (if k = 0 then 1 else 2)
def QsEx : Nat → ℝ := fun k => if k = 0 then 1 else 2
def RsEx : Nat → ℝ := fun _ => 1

theorem wfEx : WF 2 2 cgEx QsEx RsEx := by
  refine ⟨?_, ?_, ?_, ?_⟩
  · intro i k _ _; unfold cgEx; split_ifs <;> norm_num
  · intro k _; unfold QsEx; split_ifs <;> norm_num
  · intro i hi; interval_cases i <;> norm_num [sumN, cgEx, QsEx]
  · intro i hi; interval_cases i <;> norm_num [sumN, cgEx, RsEx]

theorem swap01_range (i : ℕ) : (Equiv.swap 0 1 : Equiv.Perm ℕ) i < 2 ↔ i < 2 := by
  rcases i with _ | _ | i
  · simp
  · simp
  · rw [Equiv.swap_apply_of_ne_of_ne (by omega) (by omega)]

/-! ### histories in which the caller rewrites its own arrays -/

section steps
variable {α : Type} [Zero α] [One α] [Add α] [Sub α] [Mul α] [Div α] [Neg α] [Transc α]

theorem read_write (w : World α) (id id' : Nat) (v : Array α) (h : id < w.heap.size) :
    (w.write id v).read id' = if id' = id then v else w.read id' := by
  unfold World.write World.read
  by_cases e : id' = id
  · subst e; simp [Array.getD_eq_getD_getElem?, h]
  · have e' : id ≠ id' := fun x => e x.symm
    simp [Array.getD_eq_getD_getElem?, Array.getElem?_setIfInBounds, e, e']

theorem size_write (w : World α) (id : Nat) (v : Array α) : (w.write id v).heap.size = w.heap.size := by
  simp [World.write]

/-- what the caller knows about its arrays: contents by id -/
def stepsPure (kind : Kind) (tb : Tables α) (inter : Nat → Nat → Nat → α) :
    (Nat → Array α) → List (Step α) → List (Array α)
  | _, [] => []
  | h, .call arg T :: rest =>
    (gammaF kind tb inter (match arg with | .nd id => h id | .seq v => v | .ndOther id => h id) T).gamma
      :: stepsPure kind tb inter h rest
  | h, .set id v :: rest => stepsPure kind tb inter (fun j => if j = id then v else h j) rest

/-- final contents of the caller's arrays: only its own writes count -/
def stepsHeap : (Nat → Array α) → List (Step α) → (Nat → Array α)
  | h, [] => h
  | h, .call _ _ :: rest => stepsHeap h rest
  | h, .set id v :: rest => stepsHeap (fun j => if j = id then v else h j) rest

def Step.ok (N : Nat) : Step α → Prop
  | .call (.nd id) _ => id < N
  | .call (.seq _) _ => True
  | .call (.ndOther id) _ => id < N
  | .set id _ => id < N

theorem runSteps_spec (kind : Kind) (tb : Tables α) (inter : Nat → Nat → Nat → α) (N : Nat) (steps : List (Step α)) :
    ∀ (w : World α) (h : Nat → Array α), N ≤ w.heap.size → (∀ id, id < N → w.read id = h id) →
      (∀ s, s ∈ steps → s.ok N) →
      (w.runSteps kind tb inter steps).2 = stepsPure kind tb inter h steps
      ∧ ∀ id, id < N → (w.runSteps kind tb inter steps).1.read id = stepsHeap h steps id := by
  induction steps with
  | nil => intro w h _ hh _; exact ⟨rfl, fun id hid => hh id hid⟩
  | cons s steps ih =>
    intro w h hN hh hok
    have hok' : ∀ s', s' ∈ steps → s'.ok N := fun s' hs => hok s' (by simp [hs])
    cases s with
    | call arg T =>
      have hs := hok (.call arg T) (by simp)
      have hargok : w.argOk arg := by
        cases arg with
        | nd id => exact Nat.lt_of_lt_of_le hs hN
        | seq v => trivial
        | ndOther id => exact Nat.lt_of_lt_of_le hs hN
      obtain ⟨hframe, _, _, hgrow, hres⟩ := call_spec w kind tb inter arg T hargok
      have hN' : N ≤ (w.call kind tb inter arg T).1.heap.size := Nat.le_of_lt (Nat.lt_of_le_of_lt hN hgrow)
      have hh' : ∀ id, id < N → (w.call kind tb inter arg T).1.read id = h id :=
        fun id hid => by rw [hframe id (Nat.lt_of_lt_of_le hid hN), hh id hid]
      obtain ⟨ih1, ih2⟩ := ih _ h hN' hh' hok'
      refine ⟨?_, ih2⟩
      simp only [World.runSteps, stepsPure, ih1, hres]
      congr 2
      cases arg with
      | nd id => simp only [World.argContents]; rw [hh id hs]
      | seq v => rfl
      | ndOther id => simp only [World.argContents]; rw [hh id hs]
    | set id v =>
      have hs : id < N := hok (.set id v) (by simp)
      have hlt := Nat.lt_of_lt_of_le hs hN
      have hh' : ∀ j, j < N → (w.write id v).read j = (fun j => if j = id then v else h j) j := by
        intro j hj
        rw [read_write w id j v hlt]
        by_cases e : j = id <;> simp [e, hh j hj]
      obtain ⟨ih1, ih2⟩ := ih (w.write id v) _ (by rw [size_write]; exact hN) hh' hok'
      exact ⟨by simpa [World.runSteps, stepsPure] using ih1, by simpa [World.runSteps, stepsHeap] using ih2⟩

end steps

/-! ### the code as found before repairs a890dff / e6dd388 (documentation; not property clauses) -/

section asFound
variable {α : Type} [Zero α] [One α] [Add α] [Sub α] [Mul α] [Div α] [Neg α] [Transc α]

/-- `gamma_UNIFAC` as found ignores the composition: two calls with arrays of the same length
return the same coefficients. -/
theorem as_found_ignores_composition (tb : Tables α) (inter : Nat → Nat → Nat → α) (x x' : Array α) (T : α)
    (h : x.size = x'.size) :
    (gammaFAsFound tb inter x T).gamma = (gammaFAsFound tb inter x' T).gamma := by
  unfold gammaFAsFound
  rw [h]
  split <;> rfl

end asFound


/-- `gamma_UNIFAC` as found writes the caller's array: with two chemicals with groups at
positions 0 and 1 and the caller's `x = [1/2, 1/2]`, the array holds `[1, 1]` afterwards.
(The repaired model never writes it: `args_pure`.) -/
theorem as_found_writes_caller_array (tb : Tables ℝ) (inter : Nat → Nat → Nat → ℝ) (T : ℝ)
    (hn : tb.nC = 2) (h0 : tb.index 0 = 0) :
    ∃ x', (gammaFAsFound tb inter #[1/2, 1/2] T).xWritten = some x' ∧ vget x' 0 = 1
      ∧ vget (#[1/2, 1/2] : Array ℝ) 0 ≠ 1 := by
  refine ⟨tabA 2 fun j => if anyN tb.nC (fun i => tb.index i == j) then 1 else vget (#[1/2, 1/2] : Array ℝ) j,
    ?_, ?_, ?_⟩
  · unfold gammaFAsFound
    simp [hn]
  · rw [vget_tabA _ (by norm_num)]
    simp [anyN, hn, h0]
  · simp [vget]

/-- `loggammacs_UNIFAC` as found differs from the UNIFAC combinatorial term by `2 ln V_i`. -/
theorem as_found_combinatorial_differs (nC : Nat) (qs rs x : Nat → ℝ) {i : Nat} (hi : i < nC) :
    vget (lgcUnifacAsFound nC qs rs x) i
      = vget (lgcUnifac nC qs rs x) i - 2 * Real.log (rs i / sumN nC fun j => x j * rs j) := by
  simp only [lgcUnifacAsFound, lgcUnifac, vget_tabA _ hi, log_real]
  ring


end ThermoVerif.Unifac
