import ThermoVerif.Model.Chemicals
/-
Lemmas on the name table built by `compile` / `setAlias` (C10 `alias_unique`).
-/
namespace ThermoVerif.Chemicals

def keys {κ β : Type} (l : List (κ × β)) : List κ := l.map Prod.fst

theorem alookup_none_iff {κ β : Type} [DecidableEq κ] (k : κ) :
    ∀ (l : List (κ × β)), alookup k l = none ↔ k ∉ keys l
  | [] => by simp [alookup, keys]
  | (k', v) :: t => by
    unfold alookup
    by_cases h : k' = k
    · simp [h, keys]
    · have := alookup_none_iff k t
      simp only [keys] at this
      simp [h, keys, this, Ne.symm h]

theorem alookup_append_left {κ β : Type} [DecidableEq κ] {k : κ} {e : β} :
    ∀ {l : List (κ × β)} (l' : List (κ × β)), alookup k l = some e → alookup k (l ++ l') = some e
  | [], _, h => by simp [alookup] at h
  | (k', v) :: t, l', h => by
    unfold alookup at h
    simp only [List.cons_append, alookup]
    split
    · rename_i hk; simp [hk] at h; simp [h]
    · rename_i hk; simp [hk] at h; exact alookup_append_left l' h

theorem alookup_append_new {κ β : Type} [DecidableEq κ] {k : κ} (e : β) :
    ∀ {l : List (κ × β)}, alookup k l = none → alookup k (l ++ [(k, e)]) = some e
  | [], _ => by simp [alookup]
  | (k', v) :: t, h => by
    unfold alookup at h
    simp only [List.cons_append, alookup]
    split
    · rename_i hk; simp [hk] at h
    · rename_i hk; simp [hk] at h; exact alookup_append_new e h

theorem alookup_append_inv {κ β : Type} [DecidableEq κ] {k k0 : κ} {e e0 : β} :
    ∀ {l : List (κ × β)}, alookup k (l ++ [(k0, e0)]) = some e → alookup k l = some e ∨ (k = k0 ∧ e = e0)
  | [], h => by
    simp only [List.nil_append, alookup] at h
    split at h
    · rename_i hk; cases h; exact Or.inr ⟨hk.symm, rfl⟩
    · cases h
  | (k', v) :: t, h => by
    simp only [List.cons_append, alookup] at h ⊢
    split
    · rename_i hk; simp [hk] at h; exact Or.inl (by simp [h])
    · rename_i hk; simp [hk] at h; exact alookup_append_inv h

theorem keys_ainsert_nodup {κ β : Type} [DecidableEq κ] (k : κ) (v : β) :
    ∀ (l : List (κ × β)), (keys l).Nodup → (keys (ainsert k v l)).Nodup ∧
      (∀ x, x ∈ keys (ainsert k v l) ↔ x = k ∨ x ∈ keys l)
  | [], _ => by simp [ainsert, keys]
  | (k', v') :: t, h => by
    simp only [keys, List.map_cons, List.nodup_cons] at h
    unfold ainsert
    by_cases hk : k' = k
    · subst hk
      simp only [if_true, keys, List.map_cons, List.nodup_cons, List.mem_cons]
      refine ⟨h, ?_⟩
      intro x
      constructor
      · rintro (hx | hx)
        · exact Or.inl hx
        · exact Or.inr (Or.inr hx)
      · rintro (hx | hx | hx)
        · exact Or.inl hx
        · exact Or.inl hx
        · exact Or.inr hx
    · simp only [hk, if_false, keys, List.map_cons, List.nodup_cons, List.mem_cons]
      obtain ⟨ih1, ih2⟩ := keys_ainsert_nodup k v t h.2
      simp only [keys] at ih1 ih2
      refine ⟨⟨?_, ih1⟩, ?_⟩
      · intro hm
        rcases (ih2 k').mp hm with hm | hm
        · exact hk hm
        · exact h.1 hm
      · intro x
        rw [ih2 x]
        constructor
        · rintro (hx | hx | hx)
          · exact Or.inr (Or.inl hx)
          · exact Or.inl hx
          · exact Or.inr (Or.inr hx)
        · rintro (hx | hx | hx)
          · exact Or.inr (Or.inl hx)
          · exact Or.inl hx
          · exact Or.inr (Or.inr hx)

/-- Every entry is the position of a chemical, below `n`. -/
def AllPos (n : Nat) (l : List (String × Ent)) : Prop := ∀ k e, (k, e) ∈ l → ∃ i, e = .pos i ∧ i < n

theorem mem_ainsert' {κ β : Type} [DecidableEq κ] {k : κ} {v : β} {x : κ × β} :
    ∀ {l : List (κ × β)}, x ∈ ainsert k v l → x = (k, v) ∨ x ∈ l
  | [], h => by simp [ainsert] at h; exact Or.inl h
  | (k', v') :: t, h => by
    unfold ainsert at h
    split at h
    · rcases List.mem_cons.mp h with h | h
      · exact Or.inl h
      · exact Or.inr (List.mem_cons_of_mem _ h)
    · rcases List.mem_cons.mp h with h | h
      · exact Or.inr (h ▸ List.mem_cons_self)
      · rcases mem_ainsert' h with h | h
        · exact Or.inl h
        · exact Or.inr (List.mem_cons_of_mem _ h)

theorem mem_of_alookup {κ β : Type} [DecidableEq κ] {k : κ} {v : β} :
    ∀ {l : List (κ × β)}, alookup k l = some v → (k, v) ∈ l
  | [], h => by simp [alookup] at h
  | (k', v') :: t, h => by
    unfold alookup at h
    split at h
    · rename_i hk; cases h; subst hk; exact List.mem_cons_self
    · exact List.mem_cons_of_mem _ (mem_of_alookup h)

theorem insertAll_inv (n : Nat) : ∀ (src d : List (String × Ent)),
    (keys d).Nodup → AllPos n d → AllPos n src →
    (keys (insertAll src d)).Nodup ∧ AllPos n (insertAll src d)
  | [], d, h1, h2, _ => ⟨h1, h2⟩
  | (k, v) :: t, d, h1, h2, h3 => by
    simp only [insertAll]
    apply insertAll_inv n t
    · exact (keys_ainsert_nodup k v d h1).1
    · intro k' e he
      rcases mem_ainsert' he with he | he
      · cases he; exact h3 k v List.mem_cons_self
      · exact h2 k' e he
    · intro k' e he; exact h3 k' e (List.mem_cons_of_mem _ he)

theorem positionsFrom_allPos : ∀ (names : List String) (k n : Nat), k + names.length ≤ n →
    AllPos n (positionsFrom k names)
  | [], _, _, _ => by intro k e h; cases h
  | a :: t, k, n, h => by
    intro k' e he
    simp only [positionsFrom, List.mem_cons] at he
    rcases he with he | he
    · cases he; exact ⟨k, rfl, by simp at h; omega⟩
    · exact positionsFrom_allPos t (k + 1) n (by simp at h; omega) k' e he

/-- What one successful `set_alias` does to the table. -/
theorem setAlias_spec {c c' : Chem} {res : List String} {id a : String}
    (h : c.setAlias res id a = .ok c') :
    c'.size = c.size ∧ c'.comps = c.comps ∧
    (∃ i, alookup id c.index = some (.pos i) ∧ alookup a c'.index = some (.pos i) ∧
      (c'.index = c.index ∨ (alookup a c.index = none ∧ c'.index = c.index ++ [(a, .pos i)]))) := by
  unfold Chem.setAlias at h
  split at h
  · split at h
    · split at h
      · cases h
      · split at h <;> cases h
    · cases h
  · split at h
    · cases h
    · split at h <;> cases h
  · rename_i i hi
    split at h
    · cases h
    · split at h
      · rename_i hn
        cases h
        exact ⟨rfl, rfl, i, hi, alookup_append_new _ hn, Or.inr ⟨hn, rfl⟩⟩
      · rename_i j hj
        split at h
        · rename_i hji; cases h; subst hji
          exact ⟨rfl, rfl, j, hi, hj, Or.inl rfl⟩
        · cases h
      · cases h

/-- Names never move: `set_alias` keeps every existing entry. -/
theorem setAlias_mono {c c' : Chem} {res : List String} {id a : String}
    (h : c.setAlias res id a = .ok c') {k : String} {e : Ent} (hk : alookup k c.index = some e) :
    alookup k c'.index = some e := by
  obtain ⟨_, _, i, _, _, hc | ⟨_, hc⟩⟩ := setAlias_spec h
  · rw [hc]; exact hk
  · rw [hc]; exact alookup_append_left _ hk

theorem setAlias_inv {c c' : Chem} {res : List String} {id a : String}
    (h : c.setAlias res id a = .ok c') (h1 : (keys c.index).Nodup) (h2 : AllPos c.size c.index) :
    (keys c'.index).Nodup ∧ AllPos c'.size c'.index := by
  obtain ⟨hs, _, i, hi, _, hc | ⟨hn, hc⟩⟩ := setAlias_spec h
  · rw [hc, hs]; exact ⟨h1, h2⟩
  · rw [hc, hs]
    refine ⟨?_, ?_⟩
    · simp only [keys, List.map_append, List.map_cons, List.map_nil]
      rw [List.nodup_append]
      refine ⟨h1, by simp, ?_⟩
      intro x hx y hy
      simp only [List.mem_singleton] at hy
      subst hy
      intro hxy; subst hxy
      exact (alookup_none_iff x c.index).mp hn hx
    · intro k e he
      rcases List.mem_append.mp he with he | he
      · exact h2 k e he
      · simp only [List.mem_singleton] at he
        cases he
        obtain ⟨j, hj, hlt⟩ := h2 id (.pos i) (mem_of_alookup hi)
        cases hj
        exact ⟨i, rfl, hlt⟩

theorem aliasLoop_spec (res : List String) : ∀ (todo : List (String × String)) (c c' : Chem),
    aliasLoop res todo c = .ok c' →
    c'.size = c.size ∧ c'.comps = c.comps ∧
    (∀ k e, alookup k c.index = some e → alookup k c'.index = some e) ∧
    (∀ p, p ∈ todo → ∃ i, alookup p.1 c'.index = some (.pos i) ∧ alookup p.2 c'.index = some (.pos i)) ∧
    (∀ k e, alookup k c'.index = some e → alookup k c.index = some e ∨ k ∈ todo.map Prod.snd) ∧
    ((keys c.index).Nodup → AllPos c.size c.index → (keys c'.index).Nodup ∧ AllPos c'.size c'.index)
  | [], c, c', h => by
    simp only [aliasLoop] at h; cases h
    exact ⟨rfl, rfl, fun _ _ h => h, (by intro p hp; cases hp), fun _ _ h => Or.inl h, fun a b => ⟨a, b⟩⟩
  | (id, a) :: t, c, c', h => by
    simp only [aliasLoop, bind, Except.bind] at h
    split at h
    · cases h
    · rename_i c1 h1
      obtain ⟨r1, r2, r3, r4, r5, r6⟩ := aliasLoop_spec res t c1 c' h
      obtain ⟨s1, s2, i, hi, ha, hc⟩ := setAlias_spec h1
      refine ⟨r1.trans s1, r2.trans s2, ?_, ?_, ?_, ?_⟩
      · intro k e hk; exact r3 k e (setAlias_mono h1 hk)
      · intro p hp
        rcases List.mem_cons.mp hp with hp | hp
        · subst hp
          exact ⟨i, r3 _ _ (setAlias_mono h1 hi), r3 _ _ ha⟩
        · exact r4 p hp
      · intro k e hk
        rcases r5 k e hk with hk | hk
        · rcases hc with hc | ⟨_, hc⟩
          · rw [hc] at hk; exact Or.inl hk
          · rw [hc] at hk
            rcases alookup_append_inv hk with hk | ⟨hk, _⟩
            · exact Or.inl hk
            · exact Or.inr (by simp [hk])
        · exact Or.inr (by simp only [List.map_cons, List.mem_cons]; exact Or.inr hk)
      · intro n1 n2
        obtain ⟨m1, m2⟩ := setAlias_inv h1 n1 n2
        exact r6 m1 m2

/-! ### the table before the aliases -/

theorem alookup_ainsert_self {κ β : Type} [DecidableEq κ] (k : κ) (v : β) :
    ∀ (l : List (κ × β)), alookup k (ainsert k v l) = some v
  | [] => by simp [ainsert, alookup]
  | (k', v') :: t => by
    unfold ainsert
    by_cases h : k' = k
    · simp [h, alookup]
    · simp [h, alookup, alookup_ainsert_self k v t]

theorem alookup_ainsert_ne {κ β : Type} [DecidableEq κ] {k k0 : κ} (v : β) (h : k0 ≠ k) :
    ∀ (l : List (κ × β)), alookup k (ainsert k0 v l) = alookup k l
  | [] => by simp [ainsert, alookup, h]
  | (k', v') :: t => by
    unfold ainsert
    by_cases h' : k' = k0
    · subst h'; simp [alookup, h]
    · simp only [h', if_false, alookup]
      rw [alookup_ainsert_ne v h t]

theorem insertAll_keep {k : String} {v : Ent} : ∀ (b d : List (String × Ent)),
    k ∉ keys b → alookup k d = some v → alookup k (insertAll b d) = some v
  | [], _, _, h => h
  | (k', v') :: t, d, hk, h => by
    simp only [keys, List.map_cons, List.mem_cons, not_or] at hk
    simp only [insertAll]
    apply insertAll_keep t
    · exact hk.2
    · rw [alookup_ainsert_ne v' (Ne.symm hk.1)]; exact h

theorem insertAll_append : ∀ (a b d : List (String × Ent)),
    insertAll (a ++ b) d = insertAll b (insertAll a d)
  | [], _, _ => rfl
  | (k, v) :: t, b, d => by simp only [List.cons_append, insertAll]; exact insertAll_append t b _

theorem keys_positionsFrom : ∀ (l : List String) (k : Nat), keys (positionsFrom k l) = l
  | [], _ => rfl
  | x :: t, k => by
    have := keys_positionsFrom t (k + 1)
    simp only [keys] at this
    simp [positionsFrom, keys, this]

theorem positionsFrom_lookup : ∀ (ids : List String) (k i : Nat) (x : String) (d : List (String × Ent)),
    ids.Nodup → ids[i]? = some x → alookup x (insertAll (positionsFrom k ids) d) = some (.pos (k + i))
  | [], _, _, _, _, _, h => by simp at h
  | x0 :: t, k, 0, x, d, hn, h => by
    simp only [List.getElem?_cons_zero, Option.some.injEq] at h
    subst h
    simp only [List.nodup_cons] at hn
    simp only [positionsFrom, insertAll, Nat.add_zero]
    apply insertAll_keep
    · rw [keys_positionsFrom]; exact hn.1
    · exact alookup_ainsert_self _ _ _
  | x0 :: t, k, j + 1, x, d, hn, h => by
    simp only [List.getElem?_cons_succ] at h
    simp only [List.nodup_cons] at hn
    simp only [positionsFrom, insertAll]
    have := positionsFrom_lookup t (k + 1) j x (ainsert x0 (.pos k) d) hn.2 h
    rw [this]
    have : k + 1 + j = k + (j + 1) := by omega
    rw [this]

/-- With distinct IDs, the ID of the `i`-th chemical has position `i` in the base table. -/
theorem baseIndex_id (specs : List Spec) (hn : (specs.map (·.id)).Nodup) (i : Nat) (s : Spec)
    (hi : specs[i]? = some s) : alookup s.id (baseIndex specs) = some (.pos i) := by
  unfold baseIndex
  rw [insertAll_append]
  have := positionsFrom_lookup (specs.map (·.id)) 0 i s.id
    (insertAll (positionsFrom 0 (specs.map (·.cas))) []) hn (by simp [hi])
  simpa using this

theorem mem_dedup : ∀ (l : List String) (x : String), x ∈ dedup l ↔ x ∈ l
  | [], _ => by simp [dedup]
  | a :: t, x => by
    unfold dedup
    split
    · rename_i h
      rw [mem_dedup t x]
      constructor
      · exact fun hx => List.mem_cons_of_mem _ hx
      · intro hx
        rcases List.mem_cons.mp hx with hx | hx
        · subst hx; exact h
        · exact hx
    · simp [mem_dedup t x]

/-! ### names of chemicals never move -/

theorem setAliasFail_mono (c : Chem) (res : List String) (id a : String) {k : String} {e : Ent}
    (hk : alookup k c.index = some e) : alookup k (c.setAliasFail res id a).index = some e := by
  unfold Chem.setAliasFail
  split
  · split
    · exact hk
    · exact alookup_append_left _ hk
  · exact hk

theorem defineGroup_keeps_pos {c c' : Chem} {res : List String} {name : String} {ids : List String}
    {comp : Option (List Rat)} {wt : Bool} (h : c.defineGroup res name ids comp wt = .ok c')
    {k : String} {i : Nat} (hk : alookup k c.index = some (.pos i)) :
    alookup k c'.index = some (.pos i) := by
  unfold Chem.defineGroup at h
  split at h
  · cases h
  · split at h
    · cases h
    · cases h
    · rename_i hne _ _ hnp _
      have hkn : name ≠ k := by
        intro heq
        subst heq
        exact hnp i hk
      simp only at h
      split at h
      · cases h
      · split at h
        · cases h
        · split at h
          · cases h
          · split at h
            · cases h
            · cases h
              simp only
              rw [alookup_ainsert_ne _ hkn]
              exact hk

/-! ### what `define_group` stores -/

theorem entsToPos_spec : ∀ (es : List Ent) (index : List Nat), entsToPos es = .ok index → es = index.map Ent.pos
  | [], index, h => by simp [entsToPos] at h; subst h; rfl
  | .pos i :: t, index, h => by
    simp only [entsToPos, bind, Except.bind] at h
    split at h
    · cases h
    · rename_i r hr
      simp only [pure, Except.pure] at h
      cases h
      simp [entsToPos_spec t r hr]
  | .grp _ :: _, _, h => by simp [entsToPos] at h

theorem indices_length (c : Chem) : ∀ (ids : List String) (es : List Ent), c.indices ids = .ok es → es.length = ids.length
  | [], es, h => by simp [Chem.indices] at h; subst h; rfl
  | n :: t, es, h => by
    simp only [Chem.indices, bind, Except.bind] at h
    split at h
    · cases h
    · split at h
      · cases h
      · rename_i es' hes
        simp only [pure, Except.pure] at h
        cases h
        simp [indices_length c t es' hes]

theorem sumRat_map_mul_right (t : Rat) : ∀ (l : List Rat), sumRat (l.map (· * t)) = sumRat l * t
  | [] => by simp [sumRat]
  | a :: r => by simp only [List.map_cons, sumRat]; rw [sumRat_map_mul_right t r, Rat.add_mul]

/-- a composition with a non-zero total is stored with total 1 -/
theorem sumRat_normalise (l : List Rat) (h : sumRat l ≠ 0) : sumRat (normalise l) = 1 := by
  unfold normalise
  have : (l.map (· / sumRat l)) = l.map (· * (sumRat l)⁻¹) := by
    apply List.map_congr_left; intro a _; exact Rat.div_def a (sumRat l)
  rw [this, sumRat_map_mul_right, Rat.mul_inv_cancel _ h]

theorem length_normalise (l : List Rat) : (normalise l).length = l.length := by simp [normalise]

/-- **What `define_group` (molar composition) stores.**  The group's index lists the positions of the
IDs in the order given; the stored composition is the given one divided by its total, element `j`
belonging to ID `j` (same length, same order), and it sums to 1 whenever the total is not zero. -/
theorem defineGroup_spec {c c' : Chem} {res : List String} {name : String} {ids : List String}
    {comp : List Rat} (h : c.defineGroup res name ids (some comp) false = .ok c') :
    ∃ index, c.indices ids = .ok (index.map Ent.pos) ∧
      alookup name c'.index = some (.grp index) ∧ alookup name c'.comps = some (normalise comp) ∧
      index.length = ids.length ∧ (normalise comp).length = index.length ∧
      (sumRat comp ≠ 0 → sumRat (normalise comp) = 1) := by
  unfold Chem.defineGroup at h
  split at h
  · cases h
  · split at h
    · cases h
    · cases h
    · simp only [Option.getD_some] at h
      split at h
      · cases h
      · rename_i hlen
        split at h
        · cases h
        · split at h
          · cases h
          · rename_i es hes
            split at h
            · cases h
            · rename_i index hidx
              cases h
              have hes' := entsToPos_spec es index hidx
              have hl := indices_length c ids es hes
              subst hes'
              simp only [List.length_map] at hl
              refine ⟨index, hes, alookup_ainsert_self _ _ _, ?_, hl, ?_, sumRat_normalise comp⟩
              · simp only [Bool.false_eq_true, if_false]
                exact alookup_ainsert_self _ _ _
              · rw [length_normalise, hl]
                simpa using hlen

end ThermoVerif.Chemicals
