import ThermoVerif.Lemmas.Network
/-
Lifting of the per-side lemmas to the whole flowsheet (`World`).
-/
namespace ThermoVerif.Network

@[simp] theorem get_next (w : World) (k : Which) : (w.get k).next = w.nS := by cases k <;> rfl
@[simp] theorem get_pre (w : World) (k : Which) : (w.get k).pre = w.pre := by cases k <;> rfl
@[simp] theorem get_sd (w : World) (k : Which) : (w.get k).sd = w.side k := by cases k <;> rfl

/-- Both sides satisfy the per-side invariant for every object (streams and placeholders), and
ids that are not allocated yet are not streams. -/
structure GoodS (w : World) : Prop where
  ins : SInv w.nU All (w.get .i)
  outs : SInv w.nU All (w.get .o)
  nreal : ∀ s, w.nS ≤ s → w.real s = false

theorem GoodS.side {w : World} (h : GoodS w) (k : Which) : SInv w.nU All (w.get k) := by
  cases k; exact h.ins; exact h.outs

structure WExt (w w' : World) : Prop where
  pre : w'.pre = true → w.pre = true
  nS : w.nS ≤ w'.nS
  nU : w.nU ≤ w'.nU
  /-- an object never changes its kind: a placeholder stays a placeholder, a stream a stream -/
  real_old : ∀ s, s < w.nS → w'.real s = w.real s
  /-- whether a port list of an existing unit is of fixed size, and that size, never change -/
  fx_old : ∀ k u, u < w.nU → (w'.side k).fixed u = (w.side k).fixed u ∧
    (w'.side k).size u = (w.side k).size u

theorem WExt.refl (w : World) : WExt w w :=
  ⟨id, Nat.le_refl _, Nat.le_refl _, fun _ _ => rfl, fun _ _ _ => ⟨rfl, rfl⟩⟩

theorem WExt.trans {a b c : World} (h1 : WExt a b) (h2 : WExt b c) : WExt a c :=
  ⟨fun h => h1.pre (h2.pre h), Nat.le_trans h1.nS h2.nS, Nat.le_trans h1.nU h2.nU,
   fun s hs => (h2.real_old s (Nat.lt_of_lt_of_le hs h1.nS)).trans (h1.real_old s hs),
   fun k u hu => ⟨((h2.fx_old k u (Nat.lt_of_lt_of_le hu h1.nU)).1).trans (h1.fx_old k u hu).1,
     ((h2.fx_old k u (Nat.lt_of_lt_of_le hu h1.nU)).2).trans (h1.fx_old k u hu).2⟩⟩

structure WStep (A : Prop) (w w' : World) : Prop where
  ext : WExt w w'
  inv : w'.pre = true → GoodS w → A → GoodS w'

theorem WStep.refl (w : World) : WStep True w w := ⟨WExt.refl w, fun _ h _ => h⟩

theorem WStep.weaken {A B : Prop} {a b : World} (h1 : WStep A a b) (h : B → GoodS a → A) :
    WStep B a b := ⟨h1.ext, fun hp hi hb => h1.inv hp hi (h hb hi)⟩

theorem WStep.trans {A B C : Prop} {a b c : World} (h1 : WStep A a b) (h2 : WStep B b c)
    (hA : C → GoodS a → A) (hB : C → GoodS a → GoodS b → B) : WStep C a c :=
  ⟨h1.ext.trans h2.ext, fun hp hi hc =>
    have hb := h1.inv (h2.ext.pre hp) hi (hA hc hi)
    h2.inv hp hb (hB hc hi hb)⟩

/-- The allocation counter (and the number of units) may grow without disturbing a side. -/
theorem SInv.grow {nU nU' : Nat} {sd : Side} {n n' : Nat} {p p' : Bool}
    (h : SInv nU All ⟨sd, n, p⟩) (hn : n ≤ n') (hU : nU ≤ nU') :
    SInv nU' All ⟨sd, n', p'⟩ := by
  refine ⟨fun u t ht => h.cnt u t ht, h.fx, ?_⟩
  constructor
  · intro u s hs; exact Nat.lt_of_lt_of_le (h.sc.lst_lt u s hs) hn
  · intro s hs; exact h.sc.loc_none s (Nat.le_trans hn hs)
  · intro u hu; exact h.sc.lst_nil u (Nat.le_trans hU hu)
  · intro u hu; exact h.sc.fixed_false u (Nat.le_trans hU hu)
  · intro s u hs; exact Nat.lt_of_lt_of_le (h.sc.loc_lt s u hs) hU

theorem put_good {A : Prop} {w : World} {k : Which} {sw' : SW} (h : Step w.nU A (w.get k) sw') :
    WStep A w (w.put k sw') := by
  have hnext : w.nS ≤ sw'.next := by have := h.ext.next; cases k <;> exact this
  refine ⟨⟨fun hp => ?_, ?_, ?_, ?_, ?_⟩, fun hp hG hA => ?_⟩
  · have := h.ext.pre (by cases k <;> exact hp)
    cases k <;> exact this
  · cases k <;> exact hnext
  · cases k <;> exact Nat.le_refl _
  · intro s _; cases k <;> rfl
  · intro k' u _
    have hf := h.ext.fixed
    have hs := h.ext.size
    cases k <;> cases k' <;> simp only [World.put, World.side, World.get] at hf hs ⊢ <;>
      first | exact ⟨rfl, rfl⟩ | exact ⟨by rw [hf], by rw [hs]⟩ | simp [hf, hs]
  · have hI := h.inv (by cases k <;> exact hp) (hG.side k) hA
    cases k
    · exact ⟨hI.of_eq rfl rfl, hG.outs.grow hnext (Nat.le_refl _),
        fun s hs => hG.nreal s (Nat.le_trans hnext hs)⟩
    · exact ⟨hG.ins.grow hnext (Nat.le_refl _), hI.of_eq rfl rfl,
        fun s hs => hG.nreal s (Nat.le_trans hnext hs)⟩

theorem on_wstep {A : Prop} {w w' : World} {k : Which} {f : SW → Except Err SW}
    (hf : ∀ sw', f (w.get k) = .ok sw' → Step w.nU A (w.get k) sw') (h : w.on k f = .ok w') :
    WStep A w w' := by
  unfold World.on at h
  obtain ⟨sw', h1, h2⟩ := bind_ok.mp h
  cases h2
  exact put_good (hf sw' h1)

/-- A step of an operation that creates no stream: additionally, which objects are streams does
not change at all (new objects are placeholders). -/
structure WStepR (A : Prop) (w w' : World) : Prop extends WStep A w w' where
  real : w'.real = w.real

theorem WStepR.refl (w : World) : WStepR True w w := ⟨WStep.refl w, rfl⟩

theorem WStepR.weaken {A B : Prop} {a b : World} (h1 : WStepR A a b) (h : B → GoodS a → A) :
    WStepR B a b := ⟨h1.toWStep.weaken h, h1.real⟩

theorem WStepR.trans {A B C : Prop} {a b c : World} (h1 : WStepR A a b) (h2 : WStepR B b c)
    (hA : C → GoodS a → A) (hB : C → GoodS a → GoodS b → B) : WStepR C a c :=
  ⟨h1.toWStep.trans h2.toWStep hA hB, h2.real.trans h1.real⟩

theorem put_goodR {A : Prop} {w : World} {k : Which} {sw' : SW} (h : Step w.nU A (w.get k) sw') :
    WStepR A w (w.put k sw') := ⟨put_good h, by cases k <;> rfl⟩

theorem on_wstepR {A : Prop} {w w' : World} {k : Which} {f : SW → Except Err SW}
    (hf : ∀ sw', f (w.get k) = .ok sw' → Step w.nU A (w.get k) sw') (h : w.on k f = .ok w') :
    WStepR A w w' := by
  unfold World.on at h
  obtain ⟨sw', h1, h2⟩ := bind_ok.mp h
  cases h2
  exact put_goodR (hf sw' h1)

/-! ## Small composite list operations -/

theorem replaceNone_step {nU : Nat} {w w' : SW} {u s : Nat}
    (h : (match (w.sd.lst u).idxOf? s with
      | none => Except.error Err.valueError
      | some i => let (sw1, m) := w.newMissing u; sw1.setStream u i m) = Except.ok w') :
    Step nU (u < nU) w w' := by
  split at h
  · cases h
  · exact setNone_step h

theorem setNones_step {nU : Nat} {real : Nat → Bool} {w w' : SW} {u : Nat} {rs : List PortRef}
    (h : SW.setNones real w u rs = .ok w') : Step nU (u < nU) w w' := by
  induction rs generalizing w with
  | nil => cases h; exact ⟨Ext.refl _, fun _ hI _ => hI⟩
  | cons r rs ih =>
    simp only [SW.setNones] at h
    obtain ⟨i, _, h⟩ := bind_ok.mp h
    obtain ⟨w2, h2, h⟩ := bind_ok.mp h
    exact ((setNone_step h2).trans (ih h)).weaken (fun hu => ⟨hu, hu⟩)

/-! ## Scope facts read off `GoodS` -/

theorem GoodS.ins_lt {w : World} (h : GoodS w) {u s : Nat} (hs : s ∈ w.ins.lst u) : s < w.nS :=
  h.ins.sc.lst_lt u s hs

theorem GoodS.outs_lt {w : World} (h : GoodS w) {u s : Nat} (hs : s ∈ w.outs.lst u) : s < w.nS :=
  h.outs.sc.lst_lt u s hs

theorem GoodS.side_lt {w : World} (h : GoodS w) {k : Which} {u s : Nat}
    (hs : s ∈ (w.side k).lst u) : s < w.nS := by
  cases k
  · exact h.ins_lt hs
  · exact h.outs_lt hs

theorem GoodS.ins_loc_lt {w : World} (h : GoodS w) {s v : Nat} (hs : w.ins.loc s = some v) :
    v < w.nU := h.ins.sc.loc_lt s v hs

theorem GoodS.outs_loc_lt {w : World} (h : GoodS w) {s v : Nat} (hs : w.outs.loc s = some v) :
    v < w.nU := h.outs.sc.loc_lt s v hs

theorem items_map_some {l : List Nat} {n : Nat} (h : ∀ s ∈ l, s < n) :
    ∀ s, some s ∈ l.map some → s < n := by
  intro s hs
  simp only [List.mem_map, Option.some.injEq] at hs
  obtain ⟨a, ha, rfl⟩ := hs
  exact h a ha

/-! ## World-level operations -/

theorem newStream_wstep (w : World) : WStep True w w.newStream.1 := by
  refine ⟨⟨id, Nat.le_succ _, Nat.le_refl _, fun s hs => by
    have : s ≠ w.nS := by omega
    simp [World.newStream, this], fun k _ _ => by cases k <;> exact ⟨rfl, rfl⟩⟩, fun _ hG _ => ?_⟩
  refine ⟨hG.ins.grow (Nat.le_succ _) (Nat.le_refl _), hG.outs.grow (Nat.le_succ _) (Nat.le_refl _), ?_⟩
  intro s hs
  have h1 : w.nS + 1 ≤ s := hs
  have := hG.nreal s (by omega)
  have h2 : s ≠ w.nS := by omega
  simp only [World.newStream, h2, if_false]; exact this

theorem disconnectStream_wstep {w w' : World} {s : Nat} (h : w.disconnectStream s = .ok w') :
    WStepR True w w' := by
  unfold World.disconnectStream at h
  obtain ⟨w1, h1, h⟩ := bind_ok.mp h
  exact (on_wstepR (fun _ => disconnect_step) h1).trans (on_wstepR (fun _ => disconnect_step) h)
    (fun _ _ => trivial) (fun _ _ _ => trivial)

theorem takePlaceOf_wstep {w w' : World} {u o : Nat} (h : w.takePlaceOf u o = .ok w') :
    WStepR (u < w.nU) w w' := by
  unfold World.takePlaceOf at h
  obtain ⟨w1, h1, h⟩ := bind_ok.mp h
  have s1 := on_wstepR (fun _ => setStreams_step) h1
  have s2 := on_wstepR (fun _ => setStreams_step) h
  exact s1.trans s2
    (fun hu hG => ⟨items_map_some (fun s hs => hG.ins_lt hs), hu⟩)
    (fun hu _ hG1 => ⟨items_map_some (fun s hs => hG1.outs_lt hs), Nat.lt_of_lt_of_le hu s1.ext.nU⟩)

theorem reconnect_half {w w' : World} {k : Which} {p : Option (Nat × Nat)} {b : Bool} {s : Nat}
    (h : w.reconHalf k p b s = .ok w') :
    WStepR (s < w.nS ∧ (∀ q, p = some q → q.1 < w.nU)) w w' := by
  unfold World.reconHalf at h
  cases p with
  | none => exact (on_wstepR (fun _ => disconnect_step) h).weaken (fun _ _ => trivial)
  | some q =>
    obtain ⟨u, i⟩ := q
    simp only at h
    split at h
    · cases h; exact (WStepR.refl _).weaken (fun _ _ => trivial)
    · exact (on_wstepR (fun _ => setStream_step) h).weaken (fun hc _ => ⟨by simpa using hc.1, hc.2 _ rfl⟩)

theorem reconnect_wstep {w w' : World} {src snk : Option (Nat × Nat)} {s : Nat}
    (h : w.reconnect src s snk = .ok w') :
    WStepR (s < w.nS ∧ (∀ p, src = some p → p.1 < w.nU) ∧ (∀ p, snk = some p → p.1 < w.nU)) w w' := by
  unfold World.reconnect at h
  obtain ⟨w1, h1, h⟩ := bind_ok.mp h
  have s1 := reconnect_half h1
  exact s1.trans (reconnect_half h) (fun hc _ => ⟨hc.1, hc.2.1⟩)
    (fun hc _ _ => ⟨Nat.lt_of_lt_of_le hc.1 s1.ext.nS,
      fun p hp => Nat.lt_of_lt_of_le (hc.2.2 p hp) s1.ext.nU⟩)

theorem getElem?_mem' {l : List Nat} {i a : Nat} (h : l[i]? = some a) : a ∈ l :=
  List.mem_of_getElem? h

theorem on_replace_wstep {w w' : World} {k : Which} {v a b : Nat}
    (h : w.on k (·.replace v a b) = .ok w') : WStepR (b < w.nS ∧ v < w.nU) w w' :=
  (on_wstepR (fun _ => replace_step) h).weaken (fun hc _ => ⟨by simpa using hc.1, hc.2⟩)

theorem insertUnit_wstep {w w' : World} {u s : Nat} {i o : Option PortRef}
    (h : w.insertUnit u s i o = .ok w') :
    WStepR (s < w.nS ∧ u < w.nU ∧ (∀ a, i = some (.strm a) → a < w.nS) ∧
      (∀ a, o = some (.strm a) → a < w.nS)) w w' := by
  unfold World.insertUnit at h
  extract_lets source sink replaceIn jp at h
  have hrep : ∀ (w : World) k v a b w', replaceIn w k v a b = .ok w' →
      WStepR (b < w.nS ∧ ∀ x, v = some x → x < w.nU) w w' := by
    intro w k v a b w' hx
    dsimp only [replaceIn] at hx
    split at hx
    · exact (on_replace_wstep hx).weaken (fun hc _ => ⟨hc.1, hc.2 _ rfl⟩)
    · cases hx
  have htail : ∀ (w2 : World) (b : Bool) w', (if b = true then w2.on .o (·.append u s)
      else Except.ok w2) = .ok w' → WStepR (s < w2.nS ∧ u < w2.nU) w2 w' := by
    intro w2 b w' hx
    split at hx
    · exact (on_wstepR (fun _ => append_step) hx).weaken (fun hc _ => ⟨by simpa using hc.1, hc.2⟩)
    · cases hx; exact (WStepR.refl _).weaken (fun _ _ => trivial)
  have comb : ∀ (x : World × Bool) (w2 w' : World),
      WStepR (s < x.1.nS ∧ u < x.1.nU ∧ (∀ v, source = some v → v < x.1.nU) ∧
        (∀ a, i = some (.strm a) → a < x.1.nS)) x.1 w2 →
      (if x.2 = true then w2.on .o (·.append u s) else Except.ok w2) = .ok w' →
      WStepR (s < x.1.nS ∧ u < x.1.nU ∧ (∀ v, source = some v → v < x.1.nU) ∧
        (∀ a, i = some (.strm a) → a < x.1.nS)) x.1 w' := by
    intro x w2 w' F ht
    exact F.trans (htail w2 x.2 w' ht) (fun hc _ => hc)
      (fun hc _ _ => ⟨Nat.lt_of_lt_of_le hc.1 F.ext.nS, Nat.lt_of_lt_of_le hc.2.1 F.ext.nU⟩)
  have hjp : ∀ x w', jp x = .ok w' →
      WStepR (s < x.1.nS ∧ u < x.1.nU ∧ (∀ v, source = some v → v < x.1.nU) ∧
        (∀ a, i = some (.strm a) → a < x.1.nS)) x.1 w' := by
    intro x w' hx
    dsimp only [jp] at hx
    split at hx
    · split at hx
      · split at hx
        · split at hx
          · rename_i a ha
            obtain ⟨w2, hx, ht⟩ := bind_ok.mp hx
            exact comb x w2 w' ((hrep _ _ _ _ _ _ hx).weaken
              (fun hc hG => ⟨hG.ins_lt (getElem?_mem' ha), hc.2.2.1⟩)) ht
          · obtain ⟨w2, hx, ht⟩ := bind_ok.mp hx; cases hx
        · obtain ⟨w2, hx, ht⟩ := bind_ok.mp hx; cases hx
      · obtain ⟨w2, hx, ht⟩ := bind_ok.mp hx
        exact comb x w2 w' ((on_wstepR (fun _ => append_step) hx).weaken
          (fun hc _ => ⟨by simpa using hc.1, hc.2.1⟩)) ht
    · split at hx
      · obtain ⟨w2, hx, ht⟩ := bind_ok.mp hx; cases hx
      · split at hx
        · obtain ⟨w2, hx, ht⟩ := bind_ok.mp hx; cases hx
        · obtain ⟨w2, hx, ht⟩ := bind_ok.mp hx
          exact comb x w2 w' ((hrep _ _ _ _ _ _ hx).weaken
            (fun hc hG => ⟨hc.2.2.2 _ rfl, hc.2.2.1⟩)) ht
    · split at hx
      · rename_i a ha
        obtain ⟨w2, hx, ht⟩ := bind_ok.mp hx
        exact comb x w2 w' ((hrep _ _ _ _ _ _ hx).weaken
          (fun hc hG => ⟨hG.outs_lt (getElem?_mem' ha), hc.2.2.1⟩)) ht
      · obtain ⟨w2, hx, ht⟩ := bind_ok.mp hx; cases hx
  clear_value jp replaceIn
  -- common continuation
  have fin : ∀ (w1 : World) (added : Bool) (A : Prop), WStepR A w w1 →
      ((s < w.nS ∧ u < w.nU ∧ (∀ a, i = some (.strm a) → a < w.nS) ∧
        (∀ a, o = some (.strm a) → a < w.nS)) → GoodS w → A) →
      jp (w1, added) = .ok w' →
      WStepR (s < w.nS ∧ u < w.nU ∧ (∀ a, i = some (.strm a) → a < w.nS) ∧
        (∀ a, o = some (.strm a) → a < w.nS)) w w' := by
    intro w1 added A s1 hA h2
    exact s1.trans (hjp _ _ h2) hA (fun hc hG _ =>
      ⟨Nat.lt_of_lt_of_le hc.1 s1.ext.nS, Nat.lt_of_lt_of_le hc.2.1 s1.ext.nU,
       fun v hv => Nat.lt_of_lt_of_le (hG.outs_loc_lt hv) s1.ext.nU,
       fun a ha => Nat.lt_of_lt_of_le (hc.2.2.1 a ha) s1.ext.nS⟩)
  split at h
  · split at h
    · split at h
      · split at h
        · rename_i o1 ho1
          obtain ⟨w1, h1, h⟩ := bind_ok.mp h
          exact fin w1 false _ (hrep _ _ _ _ _ _ h1)
            (fun hc hG => ⟨hG.outs_lt (getElem?_mem' ho1), fun x hx => hG.ins_loc_lt hx⟩) h
        · cases h
      · cases h
    · exact fin w true _ (WStepR.refl w) (fun _ _ => trivial) h
  · split at h
    · cases h
    · split at h
      · cases h
      · obtain ⟨w1, h1, h⟩ := bind_ok.mp h
        exact fin w1 false _ (hrep _ _ _ _ _ _ h1)
          (fun hc hG => ⟨hc.2.2.2 _ rfl, fun x hx => hG.ins_loc_lt hx⟩) h
  · split at h
    · rename_i o1 ho1
      obtain ⟨w1, h1, h⟩ := bind_ok.mp h
      exact fin w1 false _ (hrep _ _ _ _ _ _ h1)
        (fun hc hG => ⟨hG.outs_lt (getElem?_mem' ho1), fun x hx => hG.ins_loc_lt hx⟩) h
    · cases h

theorem replaceWithNone_go_wstep {w w' : World} {ps : List (Nat × Nat)}
    (h : World.replaceWithNone.go w ps = .ok w') :
    WStepR (∀ p ∈ ps, p.1 < w.nS ∧ p.2 < w.nS) w w' := by
  induction ps generalizing w with
  | nil => simp only [World.replaceWithNone.go] at h; cases h; exact (WStepR.refl _).weaken (fun _ _ => trivial)
  | cons p ps ih =>
    obtain ⟨a, b⟩ := p
    simp only [World.replaceWithNone.go] at h
    have rest : ∀ w1, WExt w w1 → (∀ p ∈ (a, b) :: ps, p.1 < w.nS ∧ p.2 < w.nS) →
        ∀ p ∈ ps, p.1 < w1.nS ∧ p.2 < w1.nS := by
      intro w1 e hc p hp
      have := hc p (by simp [hp])
      exact ⟨Nat.lt_of_lt_of_le this.1 e.nS, Nat.lt_of_lt_of_le this.2 e.nS⟩
    split at h
    · rename_i src hsrc
      obtain ⟨w1, h1, h⟩ := bind_ok.mp h
      have s1 := on_replace_wstep h1
      exact s1.trans (ih h) (fun hc hG => ⟨(hc (a, b) (by simp)).2, hG.outs_loc_lt hsrc⟩)
        (fun hc _ _ => rest w1 s1.ext hc)
    · split at h
      · rename_i snk hsnk
        obtain ⟨w1, h1, h⟩ := bind_ok.mp h
        have s1 := on_replace_wstep h1
        exact s1.trans (ih h) (fun hc hG => ⟨(hc (a, b) (by simp)).1, hG.ins_loc_lt hsnk⟩)
          (fun hc _ _ => rest w1 s1.ext hc)
      · exact (ih h).weaken (fun hc _ => rest w (WExt.refl w) hc)

theorem replaceWithNone_wstep {w w' : World} {u : Nat} (h : w.replaceWithNone u = .ok w') :
    WStepR (u < w.nU) w w' := by
  unfold World.replaceWithNone at h
  obtain ⟨w1, h1, h⟩ := bind_ok.mp h
  cases h
  have s1 := replaceWithNone_go_wstep h1
  have s2 : WStepR (u < w1.nU) w1 (w1.put .i ((w1.get .i).empty u)) := put_goodR (empty_step _ u)
  have s3 : WStepR (u < (w1.put .i ((w1.get .i).empty u)).nU) (w1.put .i ((w1.get .i).empty u))
      ((w1.put .i ((w1.get .i).empty u)).put .o (((w1.put .i ((w1.get .i).empty u)).get .o).empty u)) :=
    put_goodR (empty_step _ u)
  have s23 := s2.trans s3 (C := u < w1.nU) (fun hc _ => hc) (fun hc _ _ => hc)
  refine s1.trans s23 (fun _ hG p hp => ?_) (fun hu _ _ => Nat.lt_of_lt_of_le hu s1.ext.nU)
  have h1 := (List.of_mem_zip hp)
  exact ⟨hG.ins_lt h1.1, hG.outs_lt h1.2⟩

theorem setNonesOut_wstep {w w' : World} {u : Nat} {rs : List PortRef}
    (h : w.setNonesOut u rs = .ok w') : WStepR (u < w.nU) w w' := by
  induction rs generalizing w with
  | nil => simp only [World.setNonesOut] at h; cases h; exact (WStepR.refl _).weaken (fun _ _ => trivial)
  | cons r rs ih =>
    simp only [World.setNonesOut] at h
    obtain ⟨i, _, h⟩ := bind_ok.mp h
    obtain ⟨w1, h1, h⟩ := bind_ok.mp h
    have s1 : WStepR (u < w.nU) w w1 := on_wstepR (fun _ hx => setNone_step hx) h1
    exact s1.trans (ih h) (fun hu _ => hu) (fun hu _ _ => Nat.lt_of_lt_of_le hu s1.ext.nU)

theorem disconnectUnit_go_wstep {w w' : World} {ps : List (Option Nat × Option Nat)}
    (h : World.disconnectUnit.go w ps = .ok w') :
    WStepR (∀ p ∈ ps, (∀ a, p.1 = some a → a < w.nS) ∧ (∀ b, p.2 = some b → b < w.nS)) w w' := by
  induction ps generalizing w with
  | nil => simp only [World.disconnectUnit.go] at h; cases h; exact (WStepR.refl _).weaken (fun _ _ => trivial)
  | cons p ps ih =>
    obtain ⟨a, b⟩ := p
    have rest : ∀ w1, WExt w w1 →
        (∀ p ∈ (a, b) :: ps, (∀ a, p.1 = some a → a < w.nS) ∧ (∀ b, p.2 = some b → b < w.nS)) →
        ∀ p ∈ ps, (∀ a, p.1 = some a → a < w1.nS) ∧ (∀ b, p.2 = some b → b < w1.nS) := by
      intro w1 e hc p hp
      have := hc p (by simp [hp])
      exact ⟨fun a ha => Nat.lt_of_lt_of_le (this.1 a ha) e.nS,
        fun b hb => Nat.lt_of_lt_of_le (this.2 b hb) e.nS⟩
    cases b with
    | none => simp only [World.disconnectUnit.go] at h; cases h
    | some b =>
      simp only [World.disconnectUnit.go] at h
      split at h
      · rename_i v hv
        split at h
        · rename_i a
          obtain ⟨w1, h1, h⟩ := bind_ok.mp h
          have s1 := on_replace_wstep h1
          exact s1.trans (ih h)
            (fun hc hG => ⟨(hc (some a, some b) (by simp)).1 a rfl, hG.ins_loc_lt hv⟩)
            (fun hc _ _ => rest w1 s1.ext hc)
        · split at h <;> cases h
      · exact (ih h).weaken (fun hc _ => rest w (WExt.refl w) hc)

theorem strm_map_bound {l : List PortRef} {n : Nat} (h : ∀ s, PortRef.strm s ∈ l → s < n) :
    ∀ a, some a ∈ l.map (fun x => match x with | PortRef.strm s => some s | PortRef.idx _ => none) →
      a < n := by
  intro a ha
  simp only [List.mem_map] at ha
  obtain ⟨x, hx, hxa⟩ := ha
  cases x with
  | idx i => cases hxa
  | strm s => cases hxa; exact h a hx

theorem disconnectUnit_tail {j : Bool} {inS : List (Option Nat)} {y : World × List (Option Nat)}
    {w' : World}
    (hy : (if j = true then
        if inS.length ≠ y.snd.length then Except.error Err.valueError
        else World.disconnectUnit.go y.fst (inS.zip y.snd)
      else Except.ok y.fst) = Except.ok w') :
    WStepR ((∀ a, some a ∈ inS → a < y.1.nS) ∧ (∀ b, some b ∈ y.2 → b < y.1.nS)) y.1 w' := by
  split at hy
  · split at hy
    · cases hy
    · refine (disconnectUnit_go_wstep hy).weaken (fun hc _ p hp => ?_)
      have := List.of_mem_zip hp
      exact ⟨fun a ha => hc.1 a (ha ▸ this.1), fun b hb => hc.2 b (hb ▸ this.2)⟩
  · cases hy; exact (WStepR.refl _).weaken (fun _ _ => trivial)

theorem reals_lt {w : World} {l : List Nat} {n : Nat} (h : ∀ s ∈ l, s < n) :
    ∀ a, some a ∈ List.map some (w.reals l) → a < n :=
  items_map_some (fun s hs => h s (List.mem_filter.mp hs).1)

theorem disconnectUnit_wstep {w w' : World} {u : Nat} {inl outl : Option (List PortRef)} {j : Bool}
    (h : w.disconnectUnit u inl outl j = .ok w') :
    WStepR (u < w.nU ∧ (∀ l, inl = some l → ∀ s, PortRef.strm s ∈ l → s < w.nS) ∧
      (∀ l, outl = some l → ∀ s, PortRef.strm s ∈ l → s < w.nS)) w w' := by
  unfold World.disconnectUnit at h
  extract_lets jp1 at h
  have hjp1 : ∀ x w', jp1 x = .ok w' →
      WStepR (u < x.1.nU ∧ (∀ a, some a ∈ x.2 → a < x.1.nS) ∧
        (∀ l, outl = some l → ∀ s, PortRef.strm s ∈ l → s < x.1.nS)) x.1 w' := by
    intro x w' hx
    obtain ⟨w1, inS⟩ := x
    dsimp only [jp1] at hx
    split at hx
    · obtain ⟨w2, h2, hx⟩ := bind_ok.mp hx
      obtain ⟨y, hy, hx⟩ := bind_ok.mp hx
      cases hy
      have s2 := on_wstepR (fun _ => setStreams_step) h2
      refine s2.trans (disconnectUnit_tail hx) (fun hc _ => ⟨by simp, hc.1⟩) (fun hc hG _ => ⟨?_, ?_⟩)
      · intro a ha; exact Nat.lt_of_lt_of_le (hc.2.1 a ha) s2.ext.nS
      · intro b hb
        exact Nat.lt_of_lt_of_le (reals_lt (fun s hs => hG.outs_lt hs) b hb) s2.ext.nS
    · rename_i l
      obtain ⟨w2, h2, hx⟩ := bind_ok.mp hx
      obtain ⟨y, hy, hx⟩ := bind_ok.mp hx
      cases hy
      have s2 := setNonesOut_wstep h2
      refine s2.trans (disconnectUnit_tail hx) (fun hc _ => hc.1) (fun hc hG _ => ⟨?_, ?_⟩)
      · intro a ha; exact Nat.lt_of_lt_of_le (hc.2.1 a ha) s2.ext.nS
      · intro b hb
        refine Nat.lt_of_lt_of_le ?_ s2.ext.nS
        exact strm_map_bound (hc.2.2 l rfl) b hb
  clear_value jp1
  split at h
  · obtain ⟨w1, h1, h⟩ := bind_ok.mp h
    obtain ⟨y, hy, h⟩ := bind_ok.mp h
    cases hy
    have s1 := on_wstepR (fun _ => setStreams_step) h1
    refine s1.trans (hjp1 _ _ h) (fun hc _ => ⟨by simp, hc.1⟩) (fun hc hG _ => ⟨?_, ?_, ?_⟩)
    · exact Nat.lt_of_lt_of_le hc.1 s1.ext.nU
    · intro a ha
      exact Nat.lt_of_lt_of_le (reals_lt (fun s hs => hG.ins_lt hs) a ha) s1.ext.nS
    · intro l hl s hs; exact Nat.lt_of_lt_of_le (hc.2.2 l hl s hs) s1.ext.nS
  · rename_i l
    obtain ⟨w1, h1, h⟩ := bind_ok.mp h
    obtain ⟨y, hy, h⟩ := bind_ok.mp h
    cases hy
    have s1 : WStepR (u < w.nU) w w1 := on_wstepR (fun _ => setNones_step) h1
    refine s1.trans (hjp1 _ _ h) (fun hc _ => hc.1) (fun hc hG _ => ⟨?_, ?_, ?_⟩)
    · exact Nat.lt_of_lt_of_le hc.1 s1.ext.nU
    · intro a ha
      refine Nat.lt_of_lt_of_le ?_ s1.ext.nS
      exact strm_map_bound (hc.2.1 l rfl) a ha
    · intro l hl s hs; exact Nat.lt_of_lt_of_le (hc.2.2 l hl s hs) s1.ext.nS

/-! ## Ports (`InletPort`, `OutletPort`, `StreamPorts`), `_owner` -/

theorem GoodS.side_loc_lt {w : World} (h : GoodS w) {k : Which} {s v : Nat}
    (hs : (w.side k).loc s = some v) : v < w.nU := by
  cases k
  · exact h.ins_loc_lt hs
  · exact h.outs_loc_lt hs

theorem portFrom_wstep {w w' : World} {k : Which} {x s : Nat} (h : w.portFrom k x s = .ok w') :
    WStepR (s < w.nS) w w' := by
  unfold World.portFrom at h
  split at h
  · cases h
  · rename_i v hv
    exact (on_replace_wstep h).weaken (fun hc hG => ⟨hc, hG.side_loc_lt hv⟩)

theorem resolvePorts_lt {w : World} {k : Which} {xs : List Nat} {ps : List (Nat × Nat)}
    (hG : GoodS w) (h : w.resolvePorts k xs = .ok ps) : ∀ p ∈ ps, p.1 < w.nU := by
  induction xs generalizing ps with
  | nil => simp only [World.resolvePorts] at h; cases h; simp
  | cons x xs ih =>
    simp only [World.resolvePorts] at h
    split at h
    · cases h
    · rename_i v hv
      split at h
      · cases h
      · obtain ⟨r, hr, h⟩ := bind_ok.mp h
        cases h
        intro p hp
        simp only [List.mem_cons] at hp
        rcases hp with rfl | hp
        · exact hG.side_loc_lt hv
        · exact ih hr p hp

theorem setPorts_wstep {w w' : World} {k : Which} {l : List ((Nat × Nat) × Nat)}
    (h : w.setPorts k l = .ok w') : WStepR (∀ p ∈ l, p.2 < w.nS ∧ p.1.1 < w.nU) w w' := by
  induction l generalizing w with
  | nil => simp only [World.setPorts] at h; cases h; exact (WStepR.refl _).weaken (fun _ _ => trivial)
  | cons p l ih =>
    obtain ⟨⟨v, i⟩, s⟩ := p
    simp only [World.setPorts] at h
    obtain ⟨w1, h1, h⟩ := bind_ok.mp h
    have s1 : WStepR (s < w.nS ∧ v < w.nU) w w1 :=
      (on_wstepR (fun _ => setStream_step) h1).weaken (fun hc _ => ⟨by simpa using hc.1, hc.2⟩)
    exact s1.trans (ih h) (fun hc _ => hc ((v, i), s) (by simp))
      (fun hc _ _ q hq => ⟨Nat.lt_of_lt_of_le (hc q (by simp [hq])).1 s1.ext.nS,
        Nat.lt_of_lt_of_le (hc q (by simp [hq])).2 s1.ext.nU⟩)

theorem streamPorts_wstep {w w' : World} {k : Which} {xs ss : List Nat}
    (h : w.streamPorts k xs ss = .ok w') : WStepR (∀ s ∈ ss, s < w.nS) w w' := by
  unfold World.streamPorts at h
  obtain ⟨ps, hps, h⟩ := bind_ok.mp h
  split at h
  · cases h
  · refine (setPorts_wstep h).weaken (fun hc hG p hp => ?_)
    have := List.of_mem_zip hp
    exact ⟨hc _ this.2, resolvePorts_lt hG hps _ this.1⟩

theorem resolvePorts_get {w : World} {k : Which} {xs : List Nat} {ps : List (Nat × Nat)}
    (hG : GoodS w) (h : w.resolvePorts k xs = .ok ps) {i : Nat} {p : Nat × Nat} (hp : ps[i]? = some p) :
    p.1 < w.nU := resolvePorts_lt hG h p (List.mem_of_getElem? hp)

theorem streamPort_wstep {w w' : World} {k : Which} {xs : List Nat} {i s : Nat}
    (h : w.streamPort k xs i s = .ok w') : WStepR (s < w.nS) w w' := by
  unfold World.streamPort at h
  obtain ⟨ps, hps, h⟩ := bind_ok.mp h
  split at h
  · cases h
  · rename_i v j hp
    exact (on_wstepR (fun _ => setStream_step) h).weaken
      (fun hc hG => ⟨by simpa using hc, resolvePorts_get hG hps hp⟩)

theorem setOwner_wstep (w : World) (f : Nat → Option Nat) : WStepR True w { w with owner := f } :=
  ⟨⟨⟨id, Nat.le_refl _, Nat.le_refl _, fun _ _ => rfl, fun k _ _ => by cases k <;> exact ⟨rfl, rfl⟩⟩,
    fun _ hG _ => ⟨hG.ins.of_eq rfl rfl, hG.outs.of_eq rfl rfl, hG.nreal⟩⟩, rfl⟩

end ThermoVerif.Network
