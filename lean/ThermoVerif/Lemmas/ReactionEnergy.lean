import ThermoVerif.Model.ReactionEnergy
import Mathlib.Tactic.Ring
import Mathlib.Tactic.Linarith
import Mathlib.Algebra.Order.Field.Basic
import Mathlib.Algebra.Order.Ring.Abs
import Mathlib.Tactic.FieldSimp
/-
Helper lemmas for C06: finite sums over tabulated vectors, linear functionals tracked through the
reaction updates (single / parallel / series / system), linearity of the heat accounting in its
per-reaction coefficient, and the `collect` loop.
-/
namespace ThermoVerif.ReactionEnergy

section Basic
variable {α : Type}

theorem get_tab [Zero α] {n : Nat} (f : Nat → α) {i : Nat} (h : i < n) : get (tab n f) i = f i := by
  simp [get, tab, List.getD, h]

theorem get_tab_ge [Zero α] {n : Nat} (f : Nat → α) {i : Nat} (h : n ≤ i) : get (tab n f) i = 0 := by
  have hn : (List.range n)[i]? = none := List.getElem?_eq_none (by simpa using h)
  simp [get, tab, List.getD, hn]

theorem get_nil [Zero α] (i : Nat) : get ([] : List α) i = 0 := by simp [get]

theorem tab_length (n : Nat) (f : Nat → α) : (tab n f).length = n := by simp [tab]

theorem sumN_congr [Zero α] [Add α] {f g : Nat → α} {n : Nat} (h : ∀ i, i < n → f i = g i) :
    sumN f n = sumN g n := by
  induction n with
  | zero => rfl
  | succ k ih =>
    simp only [sumN]
    rw [ih (fun i hi => h i (Nat.lt_succ_of_lt hi)), h k (Nat.lt_succ_self k)]

end Basic

section Ring
variable {α : Type} [Field α]

theorem sumN_zero (n : Nat) : sumN (fun _ => (0 : α)) n = 0 := by
  induction n with
  | zero => rfl
  | succ k ih => simp [sumN, ih]

theorem sumN_add (f g : Nat → α) (n : Nat) : sumN (fun i => f i + g i) n = sumN f n + sumN g n := by
  induction n with
  | zero => simp [sumN]
  | succ k ih => simp only [sumN, ih]; ring

theorem sumN_sub (f g : Nat → α) (n : Nat) : sumN (fun i => f i - g i) n = sumN f n - sumN g n := by
  induction n with
  | zero => simp [sumN]
  | succ k ih => simp only [sumN, ih]; ring

theorem sumN_mul_left (c : α) (f : Nat → α) (n : Nat) : sumN (fun i => c * f i) n = c * sumN f n := by
  induction n with
  | zero => simp [sumN]
  | succ k ih => simp only [sumN, ih]; ring

theorem dotN_axpy (n : Nat) (c x y : List α) (s : α) :
    dotN n c (axpy n s x y) = dotN n c y + s * dotN n c x := by
  unfold dotN axpy
  rw [← sumN_mul_left, ← sumN_add]
  apply sumN_congr
  intro i hi
  rw [get_tab _ hi]; ring

theorem dotN_tab (n : Nat) (c : List α) (f : Nat → α) :
    dotN n c (tab n f) = sumN (fun i => get c i * f i) n := by
  unfold dotN
  apply sumN_congr
  intro i hi
  rw [get_tab _ hi]

/-! ### a linear functional `m ↦ Σ c_s m_s` through the reaction updates -/

/-- the per-reaction coefficient that a linear functional with coefficients `c` sees: `X · Σ c_s ν_s` -/
def lin (S : Nat) (c : List α) (r : Rxn α) : α := r.X * dotN S c r.nu

theorem dotN_applyOne (S : Nat) (c : List α) (r : Rxn α) (m : List α) :
    dotN S c (applyOne S r m) = dotN S c m + lin S c r * get m r.r := by
  unfold applyOne lin
  rw [dotN_axpy]; ring

theorem dotN_applyPar (S : Nat) (c m0 : List α) (rs : List (Rxn α)) (acc : List α) :
    dotN S c (applyPar S m0 rs acc) = dotN S c acc + heatPar (lin S c) m0 rs := by
  induction rs generalizing acc with
  | nil => simp [applyPar, heatPar]
  | cons r t ih =>
    simp only [applyPar, heatPar]
    rw [ih, dotN_axpy]; unfold lin; ring

theorem dotN_applySer (S : Nat) (c : List α) (rs : List (Rxn α)) (m : List α) :
    dotN S c (applySer S rs m) = dotN S c m + heatSer (lin S c) S rs m := by
  induction rs generalizing m with
  | nil => simp [applySer, heatSer]
  | cons r t ih =>
    simp only [applySer, heatSer]
    rw [ih, dotN_applyOne]; ring

theorem dotN_applyBlock (S : Nat) (c : List α) (b : Block α) (m : List α) :
    dotN S c (applyBlock S b m) = dotN S c m + heatBlock (lin S c) S b m := by
  cases b with
  | single r => simp only [applyBlock, heatBlock]; exact dotN_applyOne S c r m
  | par rs => simp only [applyBlock, heatBlock]; exact dotN_applyPar S c m rs m
  | ser rs => simp only [applyBlock, heatBlock]; exact dotN_applySer S c rs m

theorem dotN_applySys (S : Nat) (c : List α) (bs : List (Block α)) (m : List α) :
    dotN S c (applySys S bs m) = dotN S c m + heatSys (lin S c) S bs m := by
  induction bs generalizing m with
  | nil => simp [applySys, heatSys]
  | cons b t ih =>
    simp only [applySys, heatSys]
    rw [ih, dotN_applyBlock]; ring

/-! ### the heat accounting is linear in the per-reaction coefficient, and only looks at the reactions present -/

def blockRxns : Block α → List (Rxn α)
  | .single r => [r]
  | .par rs => rs
  | .ser rs => rs

def sysRxns (bs : List (Block α)) : List (Rxn α) := bs.flatMap blockRxns

theorem heatPar_add (d e : Rxn α → α) (m0 : List α) (rs : List (Rxn α)) :
    heatPar (fun r => d r + e r) m0 rs = heatPar d m0 rs + heatPar e m0 rs := by
  induction rs with
  | nil => simp [heatPar]
  | cons r t ih => simp only [heatPar, ih]; ring

theorem heatSer_add (d e : Rxn α → α) (S : Nat) (rs : List (Rxn α)) (m : List α) :
    heatSer (fun r => d r + e r) S rs m = heatSer d S rs m + heatSer e S rs m := by
  induction rs generalizing m with
  | nil => simp [heatSer]
  | cons r t ih => simp only [heatSer, ih]; ring

theorem heatBlock_add (d e : Rxn α → α) (S : Nat) (b : Block α) (m : List α) :
    heatBlock (fun r => d r + e r) S b m = heatBlock d S b m + heatBlock e S b m := by
  cases b with
  | single r => simp only [heatBlock]; ring
  | par rs => simp only [heatBlock]; exact heatPar_add d e m rs
  | ser rs => simp only [heatBlock]; exact heatSer_add d e S rs m

theorem heatSys_add (d e : Rxn α → α) (S : Nat) (bs : List (Block α)) (m : List α) :
    heatSys (fun r => d r + e r) S bs m = heatSys d S bs m + heatSys e S bs m := by
  induction bs generalizing m with
  | nil => simp [heatSys]
  | cons b t ih => simp only [heatSys, ih, heatBlock_add]; ring

theorem heatPar_congr {d e : Rxn α → α} (m0 : List α) {rs : List (Rxn α)} (h : ∀ r ∈ rs, d r = e r) :
    heatPar d m0 rs = heatPar e m0 rs := by
  induction rs with
  | nil => rfl
  | cons r t ih =>
    simp only [heatPar]
    rw [h r (by simp), ih (fun x hx => h x (by simp [hx]))]

theorem heatSer_congr {d e : Rxn α → α} (S : Nat) {rs : List (Rxn α)} (m : List α) (h : ∀ r ∈ rs, d r = e r) :
    heatSer d S rs m = heatSer e S rs m := by
  induction rs generalizing m with
  | nil => rfl
  | cons r t ih =>
    simp only [heatSer]
    rw [h r (by simp), ih _ (fun x hx => h x (by simp [hx]))]

theorem heatBlock_congr {d e : Rxn α → α} (S : Nat) (b : Block α) (m : List α) (h : ∀ r ∈ blockRxns b, d r = e r) :
    heatBlock d S b m = heatBlock e S b m := by
  cases b with
  | single r => simp only [heatBlock]; rw [h r (by simp [blockRxns])]
  | par rs => simp only [heatBlock]; exact heatPar_congr m h
  | ser rs => simp only [heatBlock]; exact heatSer_congr S m h

theorem heatSys_congr {d e : Rxn α → α} (S : Nat) {bs : List (Block α)} (m : List α)
    (h : ∀ r ∈ sysRxns bs, d r = e r) : heatSys d S bs m = heatSys e S bs m := by
  induction bs generalizing m with
  | nil => rfl
  | cons b t ih =>
    simp only [heatSys]
    rw [heatBlock_congr S b m (fun r hr => h r (by simp [sysRxns, hr])),
        ih _ (fun r hr => h r (by
          simp only [sysRxns, List.flatMap_cons, List.mem_append]
          exact Or.inr hr))]

theorem heatSys_zero (S : Nat) (bs : List (Block α)) (m : List α) : heatSys (fun _ => (0 : α)) S bs m = 0 := by
  have h := heatSys_add (fun _ => (0 : α)) (fun _ => (0 : α)) S bs m
  simp only [add_zero] at h
  exact left_eq_add.mp h

/-- two coefficient vectors that agree wherever the stoichiometry is non-zero give the same `lin` -/
theorem lin_congr_support [DecidableEq α] (S : Nat) (c c' : List α) (r : Rxn α)
    (h : ∀ s, s < S → get r.nu s ≠ 0 → get c s = get c' s) : lin S c r = lin S c' r := by
  unfold lin dotN
  congr 1
  apply sumN_congr
  intro i hi
  by_cases h0 : get r.nu i = 0
  · simp [h0]
  · rw [h i hi h0]

end Ring

/-! ### the `collect` loop -/

theorem collect_ok {α : Type} [Zero α] (f : Nat → Except Err α) (n : Nat) (L : List α)
    (h : collect f n = .ok L) : L.length = n ∧ ∀ i, i < n → f i = .ok (get L i) := by
  induction n generalizing L with
  | zero =>
    simp only [collect, Except.ok.injEq] at h
    subst h
    exact ⟨rfl, fun i hi => absurd hi (Nat.not_lt_zero i)⟩
  | succ k ih =>
    simp only [collect] at h
    cases hc : collect f k with
    | error e => rw [hc] at h; cases h
    | ok l =>
      rw [hc] at h
      cases hf : f k with
      | error e => rw [hf] at h; cases h
      | ok v =>
        rw [hf] at h
        simp only [Except.ok.injEq] at h
        subst h
        obtain ⟨hl, hi⟩ := ih l hc
        refine ⟨by simp [hl], ?_⟩
        intro i hik
        by_cases hlt : i < k
        · rw [hi i hlt]
          simp [get, List.getD, List.getElem?_append_left, hl, hlt]
        · have : i = k := by omega
          subst this
          rw [hf]
          simp [get, List.getD, ← hl]

/-- conversely, when every entry is defined the loop returns them all -/
theorem collect_of_ok {α : Type} (f : Nat → Except Err α) (g : Nat → α) (n : Nat)
    (h : ∀ i, i < n → f i = .ok (g i)) : collect f n = .ok (tab n g) := by
  induction n with
  | zero => simp [collect, tab]
  | succ k ih =>
    simp only [collect]
    rw [ih (fun i hi => h i (Nat.lt_succ_of_lt hi)), h k (Nat.lt_succ_self k)]
    simp [tab, List.range_succ]

end ThermoVerif.ReactionEnergy

/-! ### Definitions and helper lemmas used by `Props/C06.lean` (kept here so that the obligations counted there are
property statements only) -/
namespace ThermoVerif.Props.C06
open ThermoVerif.ReactionEnergy

set_option linter.unusedSectionVars false
set_option linter.unusedVariables false

variable {α : Type} [Field α] [LinearOrder α] [IsStrictOrderedRing α]

/-- enthalpy level of a phase at 298.15 K relative to the solid -/
def level (hvap hfus : α) : Phase → α
  | .s => 0
  | .l => hfus
  | .g => hfus + hvap
  | _ => 0

/-- the phases the table knows -/
def Std (p : Phase) : Prop := p = .s ∨ p = .l ∨ p = .g

instance (p : Phase) : Decidable (Std p) := by unfold Std; infer_instance

theorem latent_level_of_std (hvap hfus : α) (ref ph : Phase) (hr : Std ref) (hp : Std ph) :
    latent hvap hfus ref ph = .ok (level hvap hfus ph - level hvap hfus ref) := by
  rcases hr with rfl | rfl | rfl <;> rcases hp with rfl | rfl | rfl <;> simp [latent, level]
  all_goals ring

theorem latent_level_of_ok (hvap hfus : α) (ref ph : Phase) (v : α) (h : latent hvap hfus ref ph = .ok v) :
    v = level hvap hfus ph - level hvap hfus ref := by
  cases ref <;> cases ph <;> simp [latent, level] at h ⊢ <;> (subst h; ring)

/-- latent heat of species `s` relative to its chemical's reference phase (0 for an untagged reaction) -/
def Lam (pkg : Pkg α) (phases : List Phase) (s : Nat) : α :=
  match phases[s / pkg.N]? with
  | none => 0
  | some ph => level (get pkg.hvap (s % pkg.N)) (get pkg.hfus (s % pkg.N)) ph
               - level (get pkg.hvap (s % pkg.N)) (get pkg.hfus (s % pkg.N)) (refOf pkg (s % pkg.N))

/-- 1 on the molar basis, MW on the weight basis -/
def wOf (pkg : Pkg α) (basis : Basis) (s : Nat) : α :=
  match basis with
  | .mol => 1
  | .wt => get pkg.mw (s % pkg.N)

theorem latS_ok_eq (pkg : Pkg α) (phases : List Phase) (nu : List α) (s : Nat) (v : α)
    (h : latS pkg phases nu s = .ok v) (hnu : get nu s ≠ 0) : v = Lam pkg phases s := by
  unfold latS at h
  unfold Lam
  cases hp : phases[s / pkg.N]? with
  | none => rw [hp] at h; simp at h; simp [h]
  | some ph =>
    rw [hp] at h
    simp only [hnu, if_false] at h
    exact latent_level_of_ok _ _ _ _ _ h

/-- species `s` is usable by `dH`: untouched, untagged, in its reference phase, or a change between s / l / g -/
def ValidAt (pkg : Pkg α) (phases : List Phase) (nu : List α) (s : Nat) : Prop :=
  get nu s = 0 ∨ ∀ ph, phases[s / pkg.N]? = some ph →
    (refOf pkg (s % pkg.N) = ph ∨ (Std (refOf pkg (s % pkg.N)) ∧ Std ph))

theorem latS_defined (pkg : Pkg α) (phases : List Phase) (nu : List α) (s : Nat) (h : ValidAt pkg phases nu s) :
    ∃ v, latS pkg phases nu s = .ok v := by
  unfold latS
  cases hp : phases[s / pkg.N]? with
  | none => exact ⟨0, rfl⟩
  | some ph =>
    by_cases h0 : get nu s = 0
    · exact ⟨0, by simp [h0]⟩
    · rcases h with h | h
      · exact absurd h h0
      · simp only [h0, if_false]
        rcases h ph hp with heq | ⟨hr, hq⟩
        · exact ⟨0, by simp [latent, heq]⟩
        · exact ⟨_, latent_level_of_std _ _ _ _ hr hq⟩

/-- heats of formation per basis unit (`Hf`, or `Hf/MW` on the weight basis) over the species -/
def hfB (pkg : Pkg α) (basis : Basis) (S : Nat) : List α := tab S (fun s => coef pkg basis [] s)

/-- latent heats per basis unit -/
def latB (pkg : Pkg α) (basis : Basis) (S : Nat) (lat : List α) : List α :=
  tab S (fun s => coef pkg basis lat s - coef pkg basis [] s)

/-- `dH` = formation part + latent part -/
theorem dHcore_split (pkg : Pkg α) (basis : Basis) (S : Nat) (lat : List α) (r : Rxn α) :
    dHcore pkg basis S lat r = lin S (hfB pkg basis S) r + lin S (latB pkg basis S lat) r := by
  unfold dHcore lin dotN
  rw [← mul_add, ← sumN_add]
  congr 1
  apply sumN_congr
  intro s hs
  unfold hfB latB
  rw [get_tab _ hs, get_tab _ hs]; ring

theorem hfStream_fromBasis (pkg : Pkg α) (basis : Basis) (S : Nat) (m : List α) :
    hfStream pkg S (fromBasis pkg basis S m) = dotN S (hfB pkg basis S) m := by
  unfold hfStream dotN hfB
  apply sumN_congr
  intro s hs
  rw [get_tab _ hs]
  cases basis
  · simp only [fromBasis, get_tab _ hs, coef, get_nil]; ring
  · simp only [fromBasis, get_tab _ hs, coef, get_nil, weight]; ring

theorem hfStream_toBasis (pkg : Pkg α) (basis : Basis) (S : Nat) (n : List α)
    (hw : basis = .wt → ∀ s, s < S → weight pkg s ≠ 0) :
    dotN S (hfB pkg basis S) (toBasis pkg basis S n) = hfStream pkg S n := by
  unfold hfStream dotN hfB
  apply sumN_congr
  intro s hs
  rw [get_tab _ hs]
  cases basis
  · simp only [toBasis, get_tab _ hs, coef, get_nil]; ring
  · have := hw rfl s hs
    simp only [toBasis, get_tab _ hs, coef, get_nil, weight, add_zero] at this ⊢
    field_simp

theorem dotN_clamp_of_nonneg (S : Nat) (c m : List α) (h : ∀ s, s < S → ¬ get m s < 0) :
    dotN S c (clamp S m) = dotN S c m := by
  unfold dotN clamp
  apply sumN_congr
  intro s hs
  rw [get_tab _ hs]
  simp [h s hs]

/-- `adiabatic_reaction` reacts exactly like the isothermal call … -/
theorem adiabatic_flows (tol : α) (pkg : Pkg α) (basis : Basis) (S : Nat) (bs : List (Block α)) (H0 Q : α)
    (n n' : List α) (target : α) (h : adiabatic tol pkg basis S bs H0 Q n = .ok (n', target)) :
    reactStream tol pkg basis S bs n = .ok n' ∧ target = (hnet pkg S H0 n + Q) - hfStream pkg S n' := by
  unfold adiabatic at h
  cases hr : reactStream tol pkg basis S bs n with
  | error e => rw [hr] at h; cases h
  | ok x =>
    rw [hr] at h
    simp only [Except.ok.injEq, Prod.mk.injEq] at h
    obtain ⟨h1, h2⟩ := h
    subst h1
    exact ⟨rfl, h2.symm⟩

theorem toOption_some {ε β : Type} {x : Except ε β} {v : β} (h : x.toOption = some v) : x = .ok v := by
  cases x <;> simp [Except.toOption] at h ⊢; exact h

end ThermoVerif.Props.C06
