import ThermoVerif.Model.NetSort
/-
Helper lemmas for C19 (model: ThermoVerif/Model/NetSort.lean).  Core Lean only.
-/
namespace ThermoVerif.NetSort
open List

/-! ## Reachability -/

/-- one stream from `u` to `v` that is not in `ends` -/
def Edge (g : Graph) (ends : List Nat) (u v : Nat) : Prop :=
  ∃ s, s ∈ g.outsOf u ∧ s ∉ ends ∧ g.sinkOf s = some v

/-- `v` is downstream of `u`: at least one stream away, never crossing a stream of `ends` -/
def Reach (g : Graph) (ends : List Nat) : Nat → Nat → Prop := Relation.TransGen (Edge g ends)

theorem mem_succs {g : Graph} {ends : List Nat} {u v : Nat} : v ∈ succs g ends u ↔ Edge g ends u v := by
  unfold succs Edge
  rw [List.mem_filterMap]
  constructor
  · rintro ⟨s, hs, h⟩
    by_cases he : s ∈ ends
    · simp [he] at h
    · simp [he] at h
      exact ⟨s, hs, he, h⟩
  · rintro ⟨s, hs, hne, hk⟩
    refine ⟨s, hs, ?_⟩
    simp [hne, hk]

theorem mem_addNew {acc xs : List Nat} {y : Nat} : y ∈ addNew acc xs ↔ y ∈ acc ∨ y ∈ xs := by
  unfold addNew
  induction xs generalizing acc with
  | nil => simp
  | cons x xs ih =>
    simp only [List.foldl_cons]
    rw [ih]
    by_cases hx : x ∈ acc
    · simp only [List.contains_iff_mem, hx, if_true, List.mem_cons]
      constructor
      · rintro (h | h)
        · exact .inl h
        · exact .inr (.inr h)
      · rintro (h | rfl | h)
        · exact .inl h
        · exact .inl hx
        · exact .inr h
    · simp only [List.contains_iff_mem, hx, if_false, List.mem_append, List.mem_cons, List.mem_singleton,
        List.not_mem_nil, or_false]
      constructor
      · rintro ((h | rfl) | h)
        · exact .inl h
        · exact .inr (.inl rfl)
        · exact .inr (.inr h)
      · rintro (h | rfl | h)
        · exact .inl (.inl h)
        · exact .inl (.inr rfl)
        · exact .inr h

theorem subset_closeN (g : Graph) (ends : List Nat) (k : Nat) (S : List Nat) {x : Nat} (h : x ∈ S) :
    x ∈ closeN g ends k S := by
  induction k generalizing S with
  | zero => exact h
  | succ k ih => exact ih _ (mem_addNew.mpr (.inl h))

theorem closeN_sound (g : Graph) (ends : List Nat) (P : Nat → Prop)
    (hP : ∀ v w, P v → Edge g ends v w → P w) (k : Nat) (S : List Nat) (hS : ∀ x ∈ S, P x) :
    ∀ x ∈ closeN g ends k S, P x := by
  induction k generalizing S with
  | zero => exact hS
  | succ k ih =>
    apply ih
    intro x hx
    rcases mem_addNew.mp hx with h | h
    · exact hS x h
    · obtain ⟨v, hv, hxv⟩ := List.mem_flatMap.mp h
      exact hP v x (hS v hv) (mem_succs.mp hxv)

theorem isClosed_spec {g : Graph} {ends : List Nat} {S : List Nat} (h : isClosed g ends S = true)
    {v w : Nat} (hv : v ∈ S) (e : Edge g ends v w) : w ∈ S := by
  unfold isClosed at h
  have := List.all_eq_true.mp h v hv
  have := List.all_eq_true.mp this w (mem_succs.mpr e)
  exact List.contains_iff_mem.mp this

/-- `downstreamOf` computes exactly the units downstream of `us`. -/
theorem downstreamOf_spec {g : Graph} {ends us S : List Nat} (h : downstreamOf g ends us = .ok S) (v : Nat) :
    v ∈ S ↔ ∃ u, u ∈ us ∧ Reach g ends u v := by
  unfold downstreamOf at h
  simp only at h
  split at h
  · rename_i hc
    injection h with h
    subst h
    constructor
    · intro hv
      refine closeN_sound g ends (fun x => ∃ u, u ∈ us ∧ Reach g ends u x) ?_ g.n _ ?_ v hv
      · rintro a b ⟨u, hu, r⟩ e
        exact ⟨u, hu, Relation.TransGen.tail r e⟩
      · intro x hx
        rcases mem_addNew.mp hx with h | h
        · exact absurd h List.not_mem_nil
        · obtain ⟨u, hu, hxu⟩ := List.mem_flatMap.mp h
          exact ⟨u, hu, Relation.TransGen.single (mem_succs.mp hxu)⟩
    · rintro ⟨u, hu, r⟩
      induction r with
      | single e =>
        apply subset_closeN
        exact mem_addNew.mpr (.inr (List.mem_flatMap.mpr ⟨u, hu, mem_succs.mpr e⟩))
      | tail _ e ih => exact isClosed_spec hc ih e
  · exact absurd h (by simp)

/-! ## The bubble loop of `Network.sort` (generic in the item type) -/

section Bubble
variable {α : Type} (down : α → α → Bool) (recy : α → α → List Nat)

theorem findFrom_some {p : α → Bool} {l : List α} {start k j : Nat} (h : findFrom p l start k = some j) :
    k ≤ j ∧ start ≤ j ∧ (∃ x, l[j - k]? = some x ∧ p x = true) ∧
      ∀ i x, start ≤ k + i → k + i < j → l[i]? = some x → p x = false := by
  induction l generalizing k with
  | nil => simp [findFrom] at h
  | cons y ys ih =>
    unfold findFrom at h
    split at h
    · rename_i hc
      injection h with h
      subst h
      simp only [Bool.and_eq_true, decide_eq_true_eq] at hc
      refine ⟨Nat.le_refl _, hc.1, ⟨y, by simp, hc.2⟩, ?_⟩
      intro i x _ h2; omega
    · rename_i hc
      obtain ⟨h1, h2, ⟨x, hx, hpx⟩, h4⟩ := ih h
      refine ⟨by omega, h2, ⟨x, ?_, hpx⟩, ?_⟩
      · have : j - k = (j - (k + 1)) + 1 := by omega
        rw [this]; simpa using hx
      · intro i x hs hlt hix
        cases i with
        | zero =>
          simp at hix; subst hix
          simp only [Bool.and_eq_true, decide_eq_true_eq, not_and, Bool.not_eq_true] at hc
          exact hc (by omega)
        | succ i =>
          simp at hix
          exact h4 i x (by omega) (by omega) hix

theorem findFrom_none {p : α → Bool} {l : List α} {start k : Nat} (h : findFrom p l start k = none) :
    ∀ i x, start ≤ k + i → l[i]? = some x → p x = false := by
  induction l generalizing k with
  | nil => intro i x _ hx; simp at hx
  | cons y ys ih =>
    unfold findFrom at h
    split at h
    · exact absurd h (by simp)
    · rename_i hc
      intro i x hs hix
      cases i with
      | zero =>
        simp at hix; subst hix
        simp only [Bool.and_eq_true, decide_eq_true_eq, not_and, Bool.not_eq_true] at hc
        exact hc (by omega)
      | succ i =>
        simp at hix
        exact ih h i x (by omega) hix

theorem cons_eraseIdx_perm {l : List α} {j : Nat} {x : α} (h : l[j]? = some x) : (x :: l.eraseIdx j).Perm l := by
  induction l generalizing j with
  | nil => simp at h
  | cons y ys ih =>
    cases j with
    | zero => simp at h; subst h; simp
    | succ j =>
      simp at h
      simp only [List.eraseIdx_cons_succ]
      exact (List.Perm.swap y x _).trans ((ih h).cons y)

theorem move_perm {l : List α} {i j : Nat} {x : α} (h : l[j]? = some x) (hij : i ≤ j) :
    ((l.eraseIdx j).insertIdx i x).Perm l := by
  have hj : j < l.length := by
    rcases Nat.lt_or_ge j l.length with h' | h'
    · exact h'
    · rw [List.getElem?_eq_none h'] at h; exact absurd h (by simp)
  have hlen : i ≤ (l.eraseIdx j).length := by
    rw [List.length_eraseIdx]; simp [hj]; omega
  exact (List.perm_insertIdx x _ hlen).trans (cons_eraseIdx_perm h)

/-- A step of the inner loop either leaves the state alone, or adds recycles for a mutually
reachable pair (clearing `stop`), or moves one item forward (clearing `stop`). -/
theorem passStep_cases (st : BState α) (i : Nat) :
    passStep down recy st i = st ∨
    (∃ up dn, up ∈ st.items ∧ dn ∈ st.items ∧ down up dn = true ∧ down dn up = true ∧
        passStep down recy st i = { st with recycle := addRecycles st.recycle (recy up dn), stop := false }) ∨
    (∃ j dn, st.items[j]? = some dn ∧ i ≤ j ∧
        passStep down recy st i = { st with items := (st.items.eraseIdx j).insertIdx i dn, stop := false }) := by
  unfold passStep
  split
  · exact .inl rfl
  · rename_i up hup
    split
    · exact .inl rfl
    · rename_i j hj
      split
      · exact .inl rfl
      · rename_i dn hdn
        obtain ⟨_, hs, ⟨x, hx, hpx⟩, _⟩ := findFrom_some hj
        simp only [Nat.sub_zero] at hx
        rw [hdn] at hx; injection hx with hx; subst hx
        split
        · rename_i hmut
          simp only
          split
          · exact .inl rfl
          · exact .inr (.inl ⟨up, dn, List.mem_of_getElem? hup, List.mem_of_getElem? hdn, hpx, hmut, rfl⟩)
        · exact .inr (.inr ⟨j, dn, hdn, by omega, rfl⟩)

/-- Invariant of every step: the items stay a permutation. -/
theorem passStep_perm (st : BState α) (i : Nat) : (passStep down recy st i).items.Perm st.items := by
  rcases passStep_cases down recy st i with h | ⟨_, _, _, _, _, _, h⟩ | ⟨j, dn, hj, hij, h⟩
  · rw [h]
  · rw [h]
  · rw [h]; exact move_perm hj hij

theorem foldl_passStep_perm (st : BState α) (is : List Nat) :
    (is.foldl (passStep down recy) st).items.Perm st.items := by
  induction is generalizing st with
  | nil => exact List.Perm.refl _
  | cons i is ih => exact (ih _).trans (passStep_perm down recy st i)

theorem onePass_perm (items : List α) (r : List Nat) : (onePass down recy items r).items.Perm items :=
  foldl_passStep_perm down recy _ _

theorem passes_perm (k : Nat) (st : BState α) : (passes down recy k st).items.Perm st.items := by
  induction k generalizing st with
  | zero => exact List.Perm.refl _
  | succ k ih =>
    unfold passes
    simp only
    split
    · exact onePass_perm down recy _ _
    · exact (ih _).trans (onePass_perm down recy _ _)

theorem bubble_perm (items : List α) (r : List Nat) : (bubble down recy items r).items.Perm items :=
  passes_perm down recy _ _

/-! ### no mutually reachable pair ⇒ no recycle is added -/

def NoMutual (l : List α) : Prop := ∀ a b, a ∈ l → b ∈ l → ¬ (down a b = true ∧ down b a = true)

theorem NoMutual.perm {l l' : List α} (h : NoMutual down l) (p : l'.Perm l) : NoMutual down l' :=
  fun a b ha hb => h a b (p.mem_iff.mp ha) (p.mem_iff.mp hb)

theorem passStep_recycle (st : BState α) (i : Nat) (h : NoMutual down st.items) :
    (passStep down recy st i).recycle = st.recycle := by
  rcases passStep_cases down recy st i with e | ⟨up, dn, hu, hd, h1, h2, _⟩ | ⟨j, dn, _, _, e⟩
  · rw [e]
  · exact absurd ⟨h1, h2⟩ (h up dn hu hd)
  · rw [e]

theorem foldl_passStep_recycle (st : BState α) (is : List Nat) (h : NoMutual down st.items) :
    (is.foldl (passStep down recy) st).recycle = st.recycle := by
  induction is generalizing st with
  | nil => rfl
  | cons i is ih =>
    simp only [List.foldl_cons]
    rw [ih _ (h.perm down (passStep_perm down recy st i)), passStep_recycle down recy st i h]

theorem passes_recycle (k : Nat) (st : BState α) (h : NoMutual down st.items) :
    (passes down recy k st).recycle = st.recycle := by
  induction k generalizing st with
  | zero => rfl
  | succ k ih =>
    unfold passes
    simp only
    have h1 : (onePass down recy st.items st.recycle).recycle = st.recycle :=
      foldl_passStep_recycle down recy _ _ h
    split
    · exact h1
    · rw [ih _ (h.perm down (onePass_perm down recy _ _)), h1]

theorem bubble_recycle (items : List α) (r : List Nat) (h : NoMutual down items) :
    (bubble down recy items r).recycle = r :=
  passes_recycle down recy _ _ h

/-! ### a clean exit (`stop = true`) -/

/-- position `i` gave the pass nothing to do: the first later item that `l[i]` is downstream of
(if any) is itself downstream of `l[i]` (mutual reachability for which no recycle was found) -/
def Quiet (l : List α) (i : Nat) : Prop :=
  ∀ up, l[i]? = some up →
    match findFrom (fun d => down up d) l (i + 1) 0 with
    | none => True
    | some j => ∃ dn, l[j]? = some dn ∧ down dn up = true

theorem passStep_stop (st : BState α) (i : Nat) (h : (passStep down recy st i).stop = true) :
    passStep down recy st i = st ∧ Quiet down st.items i := by
  unfold passStep at h ⊢
  unfold Quiet
  split at h
  · rename_i hn
    refine ⟨by simp [hn], ?_⟩
    intro up hup; rw [hn] at hup; exact absurd hup (by simp)
  · rename_i up hup
    simp only [hup]
    split at h
    · rename_i hf
      refine ⟨by simp [hf], ?_⟩
      intro up' hup'; injection hup' with e; subst e; simp [hf]
    · rename_i j hj
      try simp only [hj]
      split at h
      · rename_i hn
        obtain ⟨_, _, ⟨x, hx, _⟩, _⟩ := findFrom_some hj
        simp only [Nat.sub_zero] at hx
        rw [hn] at hx; exact absurd hx (by simp)
      · rename_i dn hdn
        try simp only [hdn]
        split at h
        · rename_i hmut
          simp only at h
          split at h
          · rename_i he
            refine ⟨by simp [hmut, he], ?_⟩
            intro up' hup'; injection hup' with e; subst e
            simp only [hj]
            exact ⟨dn, hdn, hmut⟩
          · simp at h
        · simp at h

theorem passStep_stop_mono (st : BState α) (i : Nat) (h : (passStep down recy st i).stop = true) : st.stop = true := by
  rw [(passStep_stop down recy st i h).1] at h; exact h

theorem foldl_passStep_stop (st : BState α) (is : List Nat) (h : (is.foldl (passStep down recy) st).stop = true) :
    is.foldl (passStep down recy) st = st ∧ ∀ i ∈ is, Quiet down st.items i := by
  induction is generalizing st with
  | nil => exact ⟨rfl, fun _ hi => absurd hi List.not_mem_nil⟩
  | cons i is ih =>
    simp only [List.foldl_cons] at h ⊢
    obtain ⟨e1, q1⟩ := ih _ h
    have hs : (passStep down recy st i).stop = true := by rw [e1] at h; exact h
    obtain ⟨e2, q2⟩ := passStep_stop down recy st i hs
    refine ⟨by rw [e1, e2], ?_⟩
    intro k hk
    rcases List.mem_cons.mp hk with rfl | hk
    · exact q2
    · have := q1 k hk; rw [e2] at this; exact this

/-- In `l`, whenever an item is downstream of a later one, some later item at or before it is
mutually reachable with it. -/
def SortedUpToMutual (l : List α) : Prop :=
  ∀ (i j : Nat) (a b : α), i < j → l[i]? = some a → l[j]? = some b → down a b = true →
    ∃ (j' : Nat) (c : α), i < j' ∧ j' ≤ j ∧ l[j']? = some c ∧ down a c = true ∧ down c a = true

theorem sorted_of_quiet {l : List α} (h : ∀ i, i < l.length - 1 → Quiet down l i) : SortedUpToMutual down l := by
  intro i j a b hij ha hb hd
  have hj : j < l.length := by
    rcases Nat.lt_or_ge j l.length with h' | h'
    · exact h'
    · rw [List.getElem?_eq_none h'] at hb; exact absurd hb (by simp)
  have q := h i (by omega) a ha
  split at q
  · rename_i hf
    have := findFrom_none hf j b (by omega) hb
    rw [hd] at this; exact absurd this (by simp)
  · rename_i j' hf
    obtain ⟨dn, hdn, hmut⟩ := q
    obtain ⟨_, hs, ⟨x, hx, hpx⟩, hfirst⟩ := findFrom_some hf
    simp only [Nat.sub_zero] at hx
    rw [hdn] at hx; injection hx with hx; subst hx
    refine ⟨j', dn, by omega, ?_, hdn, hpx, hmut⟩
    rcases Nat.lt_or_ge j j' with hlt | hge
    · have := hfirst j b (by omega) (by omega) hb
      rw [hd] at this; exact absurd this (by simp)
    · exact hge

theorem onePass_stop (items : List α) (r : List Nat) (h : (onePass down recy items r).stop = true) :
    (onePass down recy items r).items = items ∧ (onePass down recy items r).recycle = r ∧
      SortedUpToMutual down items := by
  unfold onePass at h ⊢
  obtain ⟨e, q⟩ := foldl_passStep_stop down recy _ _ h
  rw [e]
  refine ⟨rfl, rfl, sorted_of_quiet down ?_⟩
  intro i hi
  exact q i (List.mem_range.mpr hi)

theorem passes_stop (k : Nat) (st : BState α) (hk : 0 < k) (h : (passes down recy k st).stop = true) :
    SortedUpToMutual down (passes down recy k st).items := by
  induction k generalizing st with
  | zero => exact absurd hk (Nat.lt_irrefl 0)
  | succ k ih =>
    unfold passes at h ⊢
    simp only at h ⊢
    split
    · rename_i hs
      obtain ⟨e, _, s⟩ := onePass_stop down recy _ _ hs
      rw [e]; exact s
    · rename_i hs
      simp only [hs] at h
      cases k with
      | zero => unfold passes at h; exact absurd h hs
      | succ k => exact ih _ (Nat.succ_pos k) h

/-- `Network.sort` left without the warning: the path is sorted up to mutual reachability. -/
theorem bubble_stop (items : List α) (r : List Nat) (h : (bubble down recy items r).stop = true) :
    SortedUpToMutual down (bubble down recy items r).items := by
  unfold bubble at h ⊢
  simp only at h ⊢
  cases items with
  | nil =>
    simp only [List.length_nil, Nat.mul_zero, passes]
    intro i j a b _ ha; simp at ha
  | cons x xs =>
    apply passes_stop down recy _ _ _ h
    simp

end Bubble

/-! ## Convergence of the bubble loop on a strict partial order -/

section Converge
variable {α : Type} (down : α → α → Bool) (recy : α → α → List Nat)

/-- number of later items that the item at position `k` is downstream of -/
def laterCount (l : List α) (k : Nat) : Nat :=
  match l[k]? with
  | some x => (l.drop (k + 1)).countP (down x)
  | none => 0

/-- positions `< k` are final: no later item has to come before them -/
def Settled (l : List α) (k : Nat) : Prop := ∀ m, m < k → laterCount down l m = 0

/-- `l'` agrees with `l` at positions `≤ k` and is a permutation of it -/
def SameUpTo (k : Nat) (l l' : List α) : Prop := l'.take (k + 1) = l.take (k + 1) ∧ l'.Perm l

theorem SameUpTo.mono {k m : Nat} {l l' : List α} (h : SameUpTo k l l') (hm : m ≤ k) : SameUpTo m l l' := by
  refine ⟨?_, h.2⟩
  have := congrArg (List.take (m + 1)) h.1
  rw [List.take_take, List.take_take, Nat.min_eq_left (by omega)] at this
  exact this

theorem perm_drop_of_take_eq {l l' : List α} {k : Nat} (hp : l'.Perm l) (ht : l'.take k = l.take k) :
    (l'.drop k).Perm (l.drop k) := by
  have h1 : (l'.take k ++ l'.drop k).Perm (l.take k ++ l.drop k) := by
    rw [List.take_append_drop, List.take_append_drop]; exact hp
  rw [ht] at h1
  exact (List.perm_append_left_iff _).mp h1

theorem SameUpTo.laterCount_eq {k : Nat} {l l' : List α} (h : SameUpTo k l l') :
    laterCount down l' k = laterCount down l k := by
  have hk : l'[k]? = l[k]? := by
    have h1 : (l'.take (k + 1))[k]? = l'[k]? := List.getElem?_take_of_lt (Nat.lt_succ_self k)
    have h2 : (l.take (k + 1))[k]? = l[k]? := List.getElem?_take_of_lt (Nat.lt_succ_self k)
    rw [← h1, ← h2, h.1]
  have hd : (l'.drop (k + 1)).Perm (l.drop (k + 1)) := perm_drop_of_take_eq h.2 h.1
  unfold laterCount
  rw [hk]
  cases l[k]? with
  | none => rfl
  | some x => exact hd.countP_eq _

theorem SameUpTo.trans {k : Nat} {l l' l'' : List α} (h1 : SameUpTo k l l') (h2 : SameUpTo k l' l'') : SameUpTo k l l'' :=
  ⟨h2.1.trans h1.1, h2.2.trans h1.2⟩

theorem SameUpTo.settled {k : Nat} {l l' : List α} (h : SameUpTo k l l') (hs : Settled down l (k + 1)) :
    Settled down l' (k + 1) := by
  intro m hm
  rw [(h.mono (by omega : m ≤ k)).laterCount_eq down]
  exact hs m hm

/-- moving `l[j]` to position `i ≤ j` leaves the positions before `i` alone -/
theorem move_sameUpTo {l : List α} {i j m : Nat} {p : α} (hj : l[j]? = some p) (hm : m < i) (hij : i ≤ j) :
    SameUpTo m l ((l.eraseIdx j).insertIdx i p) := by
  refine ⟨?_, move_perm hj hij⟩
  apply List.ext_getElem?
  intro n
  rw [List.getElem?_take, List.getElem?_take]
  split
  · rw [List.getElem?_insertIdx_of_lt (by omega), List.getElem?_eraseIdx_of_lt (by omega)]
  · rfl

theorem mem_drop_iff {l : List α} {n : Nat} {d : α} : d ∈ l.drop n ↔ ∃ i, n ≤ i ∧ l[i]? = some d := by
  rw [List.mem_iff_getElem?]
  constructor
  · rintro ⟨i, hi⟩
    rw [List.getElem?_drop] at hi
    exact ⟨n + i, by omega, hi⟩
  · rintro ⟨i, hni, hi⟩
    refine ⟨i - n, ?_⟩
    rw [List.getElem?_drop]
    have : n + (i - n) = i := by omega
    rw [this]; exact hi

theorem laterCount_zero_iff {l : List α} {k : Nat} {x : α} (hx : l[k]? = some x) :
    laterCount down l k = 0 ↔ findFrom (fun d => down x d) l (k + 1) 0 = none := by
  unfold laterCount
  rw [hx]
  simp only
  rw [List.countP_eq_zero]
  constructor
  · intro h
    cases hf : findFrom (fun d => down x d) l (k + 1) 0 with
    | none => rfl
    | some j =>
      obtain ⟨_, hs, ⟨d, hd, hp⟩, _⟩ := findFrom_some hf
      simp only [Nat.sub_zero] at hd
      exact absurd hp (h d (mem_drop_iff.mpr ⟨j, hs, hd⟩))
  · intro hf d hd
    obtain ⟨i, hi, hid⟩ := mem_drop_iff.mp hd
    have := findFrom_none hf i d (by omega) hid
    rw [this]; simp

theorem passStep_none {st : BState α} {i : Nat} {up : α} (hup : st.items[i]? = some up)
    (hf : findFrom (fun d => down up d) st.items (i + 1) 0 = none) : passStep down recy st i = st := by
  unfold passStep
  simp only [hup, hf]

theorem passStep_move {st : BState α} {i j : Nat} {up dn : α} (hup : st.items[i]? = some up)
    (hf : findFrom (fun d => down up d) st.items (i + 1) 0 = some j) (hdn : st.items[j]? = some dn)
    (hnm : down dn up = false) :
    passStep down recy st i = { st with items := (st.items.eraseIdx j).insertIdx i dn, stop := false } := by
  unfold passStep
  simp only [hup, hf, hdn, hnm, Bool.false_eq_true, if_false]

theorem passStep_oob {st : BState α} {i : Nat} (h : st.items[i]? = none) : passStep down recy st i = st := by
  unfold passStep
  simp only [h]

/-- `down` is a strict partial order on the items of `l` -/
structure StrictOn (l : List α) : Prop where
  irrefl : ∀ a, a ∈ l → down a a = false
  trans : ∀ a b c, a ∈ l → b ∈ l → c ∈ l → down a b = true → down b c = true → down a c = true

theorem StrictOn.perm {l l' : List α} (h : StrictOn down l) (p : l'.Perm l) : StrictOn down l' :=
  ⟨fun a ha => h.irrefl a (p.mem_iff.mp ha),
   fun a b c ha hb hc => h.trans a b c (p.mem_iff.mp ha) (p.mem_iff.mp hb) (p.mem_iff.mp hc)⟩

theorem StrictOn.asymm {l : List α} (h : StrictOn down l) {a b : α} (ha : a ∈ l) (hb : b ∈ l)
    (hab : down a b = true) : down b a = false := by
  cases hba : down b a with
  | false => rfl
  | true =>
    have := h.trans a b a ha hb ha hab hba
    rw [h.irrefl a ha] at this; exact absurd this (by simp)

theorem StrictOn.noMutual {l : List α} (h : StrictOn down l) : NoMutual down l := by
  intro a b ha hb ⟨h1, h2⟩
  rw [h.asymm down ha hb h1] at h2; exact absurd h2 (by simp)

theorem countP_lt_of_imp {p q : α → Bool} {L : List α} (himp : ∀ x, x ∈ L → p x = true → q x = true)
    {w : α} (hw : w ∈ L) (hq : q w = true) (hp : p w = false) : L.countP p < L.countP q := by
  induction L with
  | nil => exact absurd hw List.not_mem_nil
  | cons y ys ih =>
    rw [List.countP_cons, List.countP_cons]
    have hle : ys.countP p ≤ ys.countP q := List.countP_mono_left (fun x hx => himp x (List.mem_cons_of_mem _ hx))
    rcases List.mem_cons.mp hw with rfl | hw'
    · simp only [hq, hp, if_true, Bool.false_eq_true, if_false]; omega
    · have hlt := ih (fun x hx => himp x (List.mem_cons_of_mem _ hx)) hw'
      by_cases hpy : p y = true
      · have hqy := himp y (List.mem_cons_self ..) hpy
        simp only [hpy, hqy, if_true]; omega
      · by_cases hqy : q y = true
        · simp only [hpy, hqy, if_true, Bool.false_eq_true, if_false]; omega
        · simp only [hpy, hqy, Bool.false_eq_true, if_false]; omega

/-- the step at the first unsettled position `k` moves an item there and lowers `laterCount · k` -/
theorem passStep_at_unsettled {st : BState α} {k : Nat} (hso : StrictOn down st.items)
    (hset : Settled down st.items k) (hpos : 0 < laterCount down st.items k) :
    ∃ l', passStep down recy st k = { st with items := l', stop := false } ∧ l'.Perm st.items ∧
      Settled down l' k ∧ laterCount down l' k < laterCount down st.items k := by
  cases hx : st.items[k]? with
  | none => unfold laterCount at hpos; rw [hx] at hpos; exact absurd hpos (by simp)
  | some x =>
    cases hf : findFrom (fun d => down x d) st.items (k + 1) 0 with
    | none => rw [(laterCount_zero_iff down hx).mpr hf] at hpos; exact absurd hpos (by simp)
    | some j =>
      obtain ⟨_, hjk, ⟨p, hp, hxp⟩, _⟩ := findFrom_some hf
      simp only [Nat.sub_zero] at hp
      have hxm : x ∈ st.items := List.mem_of_getElem? hx
      have hpm : p ∈ st.items := List.mem_of_getElem? hp
      have hpx : down p x = false := hso.asymm down hxm hpm hxp
      have hkj : k ≤ j := by omega
      refine ⟨(st.items.eraseIdx j).insertIdx k p, passStep_move down recy hx hf hp hpx, move_perm hp hkj, ?_, ?_⟩
      · intro m hm
        rw [(move_sameUpTo hp hm hkj).laterCount_eq down]
        exact hset m hm
      · -- the new item at `k` is `p`; what follows it is, up to order, what followed `x`, with `p` replaced by `x`
        have hperm := move_perm (i := k) hp hkj
        have hjl : j < st.items.length := by
          rcases Nat.lt_or_ge j st.items.length with h | h
          · exact h
          · rw [List.getElem?_eq_none h] at hp; exact absurd hp (by simp)
        have hlen : k ≤ (st.items.eraseIdx j).length := by
          rw [List.length_eraseIdx]; simp [hjl]; omega
        have hnew : ((st.items.eraseIdx j).insertIdx k p)[k]? = some p := by
          rw [List.getElem?_insertIdx_self]; simp [hlen]
        have htake : ((st.items.eraseIdx j).insertIdx k p).take k = st.items.take k := by
          apply List.ext_getElem?
          intro n
          rw [List.getElem?_take, List.getElem?_take]
          split
          · rw [List.getElem?_insertIdx_of_lt (by omega), List.getElem?_eraseIdx_of_lt (by omega)]
          · rfl
        have hdrop : (((st.items.eraseIdx j).insertIdx k p).drop k).Perm (st.items.drop k) :=
          perm_drop_of_take_eq hperm htake
        rw [List.drop_eq_getElem?_toList_append, List.drop_eq_getElem?_toList_append (l := st.items), hnew, hx] at hdrop
        simp only [Option.toList_some, List.singleton_append] at hdrop
        have hc := hdrop.countP_eq (down p)
        rw [List.countP_cons, List.countP_cons, hso.irrefl p hpm, hpx] at hc
        simp only [Bool.false_eq_true, if_false, Nat.add_zero] at hc
        unfold laterCount
        rw [hnew, hx]
        simp only
        rw [hc]
        have hpl : p ∈ st.items.drop (k + 1) := mem_drop_iff.mpr ⟨j, hjk, hp⟩
        apply countP_lt_of_imp (w := p) _ hpl hxp (hso.irrefl p hpm)
        intro d hd hpd
        exact hso.trans x p d hxm hpm (List.mem_of_mem_drop hd) hxp hpd

/-- a later step (`i > k`) leaves positions `≤ k` alone -/
theorem passStep_later {st : BState α} {i k : Nat} (hki : k < i) (hso : StrictOn down st.items) :
    SameUpTo k st.items (passStep down recy st i).items ∧
      ((passStep down recy st i).stop = st.stop ∨ (passStep down recy st i).stop = false) := by
  rcases passStep_cases down recy st i with e | ⟨up, dn, hu, hd, h1, h2, _⟩ | ⟨j, dn, hj, hij, e⟩
  · rw [e]; exact ⟨⟨rfl, List.Perm.refl _⟩, .inl rfl⟩
  · exact absurd ⟨h1, h2⟩ (hso.noMutual down up dn hu hd)
  · rw [e]; exact ⟨move_sameUpTo hj hki hij, .inr rfl⟩

/-- state of the pass before step `n`, when `k` is the first unsettled position of `l` -/
def PassInv (l : List α) (r : List Nat) (k n : Nat) (st : BState α) : Prop :=
  if n ≤ k then st = { items := l, recycle := r, stop := true }
  else st.stop = false ∧ st.items.Perm l ∧ Settled down st.items k ∧ laterCount down st.items k < laterCount down l k

theorem pass_inv (l : List α) (r : List Nat) (k : Nat) (hso : StrictOn down l) (hset : Settled down l k)
    (hpos : 0 < laterCount down l k) (n : Nat) :
    PassInv down l r k n ((List.range n).foldl (passStep down recy) { items := l, recycle := r, stop := true }) := by
  induction n with
  | zero => simp [PassInv]
  | succ n ih =>
    rw [List.range_succ, List.foldl_append]
    simp only [List.foldl_cons, List.foldl_nil]
    generalize (List.range n).foldl (passStep down recy) { items := l, recycle := r, stop := true } = st at ih
    unfold PassInv at ih ⊢
    by_cases hn : n + 1 ≤ k
    · -- still in the settled prefix: the step does nothing
      simp only [hn, if_true]
      have : n ≤ k := by omega
      simp only [this, if_true] at ih
      subst ih
      cases hx : l[n]? with
      | none => exact passStep_oob down recy hx
      | some x =>
        exact passStep_none down recy hx ((laterCount_zero_iff down hx).mp (hset n (by omega)))
    · simp only [hn, if_false]
      by_cases hnk : n ≤ k
      · -- n = k: the move
        simp only [hnk, if_true] at ih
        subst ih
        have : n = k := by omega
        subst this
        obtain ⟨l', e, hp, hs, hlt⟩ := passStep_at_unsettled down recy (st := { items := l, recycle := r, stop := true }) hso hset hpos
        rw [e]
        exact ⟨rfl, hp, hs, hlt⟩
      · simp only [hnk, if_false] at ih
        obtain ⟨hstop, hperm, hs, hlt⟩ := ih
        have hso' := hso.perm down hperm
        obtain ⟨same, hst⟩ := passStep_later down recy (st := st) (i := n) (k := k) (by omega) hso'
        refine ⟨?_, same.2.trans hperm, ?_, ?_⟩
        · rcases hst with h | h
          · rw [h]; exact hstop
          · exact h
        · intro m hm
          rw [(same.mono (by omega : m ≤ k)).laterCount_eq down]
          exact hs m hm
        · rw [same.laterCount_eq down]; exact hlt

theorem laterCount_le (l : List α) (k : Nat) : laterCount down l k ≤ l.length - (k + 1) := by
  unfold laterCount
  cases l[k]? with
  | none => exact Nat.zero_le _
  | some x =>
    simp only
    exact Nat.le_trans List.countP_le_length (by rw [List.length_drop]; exact Nat.le_refl _)

/-- a pass over a completely settled list is clean -/
theorem onePass_settled (l : List α) (r : List Nat) (hset : Settled down l (l.length - 1)) :
    onePass down recy l r = { items := l, recycle := r, stop := true } := by
  unfold onePass
  have : ∀ n, n ≤ l.length - 1 →
      (List.range n).foldl (passStep down recy) { items := l, recycle := r, stop := true } = { items := l, recycle := r, stop := true } := by
    intro n hn
    induction n with
    | zero => rfl
    | succ n ih =>
      rw [List.range_succ, List.foldl_append, ih (by omega)]
      simp only [List.foldl_cons, List.foldl_nil]
      cases hx : l[n]? with
      | none => exact passStep_oob down recy hx
      | some x => exact passStep_none down recy hx ((laterCount_zero_iff down hx).mp (hset n (by omega)))
  exact this _ (Nat.le_refl _)

/-- an unsettled pass: not clean, same items up to order, recycle untouched, progress at `k` -/
theorem onePass_unsettled (l : List α) (r : List Nat) (k : Nat) (hso : StrictOn down l) (hset : Settled down l k)
    (hpos : 0 < laterCount down l k) :
    (onePass down recy l r).stop = false ∧ (onePass down recy l r).items.Perm l ∧
      Settled down (onePass down recy l r).items k ∧
      laterCount down (onePass down recy l r).items k < laterCount down l k := by
  have hk : k < l.length - 1 := by
    have := laterCount_le down l k
    omega
  have := pass_inv down recy l r k hso hset hpos (l.length - 1)
  unfold PassInv at this
  have hn : ¬ (l.length - 1 ≤ k) := by omega
  simp only [hn, if_false] at this
  exact this

/-- convergence: with `m` positions still open beyond `k` and at most `b` more moves needed at `k`,
`b + m·N + 1` passes are enough -/
theorem passes_converge (N : Nat) :
    ∀ (m k b fuel : Nat) (st : BState α), st.items.length = N → k + m + 1 = N → StrictOn down st.items →
      Settled down st.items k → laterCount down st.items k ≤ b → b + m * N + 1 ≤ fuel →
      (passes down recy fuel st).stop = true := by
  intro m
  induction m with
  | zero =>
    intro k b fuel st hN hk hso hset hb hfuel
    -- k = N - 1 : the last position never has a later item
    have hlast : laterCount down st.items k = 0 := by
      have := laterCount_le down st.items k; omega
    have hall : Settled down st.items (st.items.length - 1) := by
      intro i hi; exact hset i (by omega)
    cases fuel with
    | zero => omega
    | succ fuel =>
      unfold passes
      simp only
      rw [onePass_settled down recy _ _ hall]
      simp
  | succ m ihm =>
    intro k b
    induction b with
    | zero =>
      intro fuel st hN hk hso hset hb hfuel
      have hz : laterCount down st.items k = 0 := by omega
      have hset' : Settled down st.items (k + 1) := by
        intro i hi
        rcases Nat.lt_or_ge i k with h | h
        · exact hset i h
        · have : i = k := by omega
          subst this; exact hz
      have hb' : laterCount down st.items (k + 1) ≤ N - 1 := by
        have := laterCount_le down st.items (k + 1); omega
      apply ihm (k + 1) (N - 1) fuel st hN (by omega) hso hset' hb'
      have : (m + 1) * N = m * N + N := Nat.succ_mul m N
      omega
    | succ b ihb =>
      intro fuel st hN hk hso hset hb hfuel
      by_cases hz : laterCount down st.items k = 0
      · exact ihb fuel st hN hk hso hset (by omega) (by omega)
      · cases fuel with
        | zero => omega
        | succ fuel =>
          obtain ⟨hstop, hperm, hs, hlt⟩ := onePass_unsettled down recy st.items st.recycle k hso hset (by omega)
          unfold passes
          simp only [hstop, Bool.false_eq_true, if_false]
          apply ihb fuel _ (by rw [hperm.length_eq]; exact hN) hk (hso.perm down hperm) hs (by omega) (by omega)

/-- **Convergence of `Network.sort`'s loop.**  If "is downstream of" is a strict partial order on the
path items (no item reaches itself, reachability is transitive), the `N·N` passes are enough: the
loop leaves with `stop = true` (no warning). -/
theorem bubble_converges (items : List α) (r : List Nat) (hso : StrictOn down items) :
    (bubble down recy items r).stop = true := by
  unfold bubble
  simp only
  cases hN : items.length with
  | zero => simp [passes]
  | succ n =>
    apply passes_converge down recy (n + 1) n 0 n _ _ hN (by omega) hso (fun m hm => absurd hm (Nat.not_lt_zero m))
    · have := laterCount_le down items 0; simp only at this ⊢; omega
    · have : (n + 1) * (n + 1) = n * (n + 1) + (n + 1) := Nat.succ_mul n (n + 1)
      omega

end Converge

/-! ## Path sources -/

/-- item `a` is downstream of item `b`: some unit of `a` is reachable from some unit of `b`
(`PathSource(a).downstream_from(PathSource(b))`) -/
def ItemDown (g : Graph) (ends : List Nat) (a b : Item) : Prop :=
  ∃ m, m ∈ a.flat ∧ ∃ u, u ∈ b.flat ∧ Reach g ends u m

/-- what `PathSource.__init__` establishes -/
def PSGood (g : Graph) (ends : List Nat) (p : PS) : Prop :=
  p.members = p.item.flat ∧ ∀ v, v ∈ p.reach ↔ ∃ u, u ∈ p.members ∧ Reach g ends u v

theorem mkPS_spec {g : Graph} {ends : List Nat} {it : Item} {p : PS} (h : mkPS g ends it = .ok p) :
    p.item = it ∧ PSGood g ends p := by
  unfold mkPS at h
  split at h
  · exact absurd h (by simp)
  · rename_i r hr
    injection h with h; subst h
    exact ⟨rfl, rfl, fun v => downstreamOf_spec hr v⟩

theorem mkPSs_spec {g : Graph} {ends : List Nat} {path : List Item} {ps : List PS} (h : mkPSs g ends path = .ok ps) :
    ps.map (·.item) = path ∧ ∀ p ∈ ps, PSGood g ends p := by
  induction path generalizing ps with
  | nil => unfold mkPSs at h; injection h with h; subst h; simp
  | cons i is ih =>
    unfold mkPSs at h
    split at h
    · exact absurd h (by simp)
    · rename_i p hp
      split at h
      · exact absurd h (by simp)
      · rename_i ps' hps
        injection h with h; subst h
        obtain ⟨e1, g1⟩ := mkPS_spec hp
        obtain ⟨e2, g2⟩ := ih hps
        refine ⟨by simp [e1, e2], ?_⟩
        intro q hq
        rcases List.mem_cons.mp hq with rfl | hq
        · exact g1
        · exact g2 q hq

theorem downFrom_iff {g : Graph} {ends : List Nat} {p q : PS} (hp : PSGood g ends p) (hq : PSGood g ends q) :
    p.downFrom q = true ↔ ItemDown g ends p.item q.item := by
  unfold PS.downFrom ItemDown
  rw [List.any_eq_true, ← hp.1, ← hq.1]
  constructor
  · rintro ⟨m, hm, hc⟩
    exact ⟨m, hm, (hq.2 m).mp (List.contains_iff_mem.mp hc)⟩
  · rintro ⟨m, hm, hu⟩
    exact ⟨m, hm, List.contains_iff_mem.mpr ((hq.2 m).mpr hu)⟩

theorem getElem?_map_item {l : List PS} {i : Nat} {a : Item} (h : (l.map (·.item))[i]? = some a) :
    ∃ p, l[i]? = some p ∧ p.item = a := by
  rw [List.getElem?_map] at h
  cases hl : l[i]? with
  | none => rw [hl] at h; exact absurd h (by simp)
  | some p => rw [hl] at h; exact ⟨p, rfl, by simpa using h⟩

theorem flatList_perm {l₁ l₂ : List Item} (h : l₁.Perm l₂) : (flatList l₁).Perm (flatList l₂) := by
  induction h with
  | nil => exact List.Perm.refl _
  | cons x _ ih => simp only [flatList]; exact ih.append_left _
  | swap x y l =>
    simp only [flatList]
    rw [← List.append_assoc, ← List.append_assoc]
    exact List.perm_append_comm.append_right _
  | trans _ _ ih1 ih2 => exact ih1.trans ih2

theorem mem_flatList {l : List Item} {u : Nat} : u ∈ flatList l ↔ ∃ it, it ∈ l ∧ u ∈ it.flat := by
  induction l with
  | nil => simp [flatList]
  | cons i is ih =>
    simp only [flatList, List.mem_append, ih, List.mem_cons]
    constructor
    · rintro (h | ⟨it, hit, hu⟩)
      · exact ⟨i, .inl rfl, h⟩
      · exact ⟨it, .inr hit, hu⟩
    · rintro ⟨it, rfl | hit, hu⟩
      · exact .inl hu
      · exact .inr ⟨it, hit, hu⟩

theorem sortList_units {g : Graph} {ends : List Nat} {p : List Item} (h : ∀ it ∈ p, ∃ u, it = .unit u) :
    sortList g ends p = .ok (p, 0) := by
  induction p with
  | nil => rfl
  | cons i is ih =>
    obtain ⟨u, rfl⟩ := h _ (List.mem_cons_self ..)
    unfold sortList
    simp only [sortItem]
    rw [ih (fun it hit => h it (List.mem_cons_of_mem _ hit))]

/-! ## Acyclicity, decidably -/

theorem Reach.first_edge {g : Graph} {ends : List Nat} {u w : Nat} (h : Reach g ends u w) : ∃ v, Edge g ends u v := by
  induction h with
  | single e => exact ⟨_, e⟩
  | tail _ _ ih => exact ih

theorem acyclic_of_acyclicB {g : Graph} {ends : List Nat} (h : acyclicB g ends = true) : ∀ u, ¬ Reach g ends u u := by
  intro u hr
  by_cases hu : u < g.outs.length
  · have := List.all_eq_true.mp h u (List.mem_range.mpr hu)
    split at this
    · rename_i S hS
      have hn : u ∉ S := by
        intro hm
        have := List.contains_iff_mem.mpr hm
        simp_all
      exact hn ((downstreamOf_spec hS u).mpr ⟨u, by simp, hr⟩)
    · exact absurd this (by simp)
  · obtain ⟨v, s, hs, _⟩ := hr.first_edge
    unfold Graph.outsOf at hs
    rw [List.getD_eq_getElem?_getD, List.getElem?_eq_none (by omega)] at hs
    simp at hs

/-! ## The depth-first walk `fill_path` -/

/-- `u` appears in some returned path -/
def DfsSt.cov (st : DfsSt) (u : Nat) : Prop :=
  (∃ p, p ∈ st.without ∧ u ∈ p) ∨ (∃ p r, (p, r) ∈ st.withR ∧ u ∈ p)

/-- the walk has dealt with stream `s`: it is an end, or leaves the unit set, or its sink is covered -/
def Target (g : Graph) (units : List Nat) (st : DfsSt) (s : Nat) : Prop :=
  s ∈ st.ends ∨ (∀ v, g.sinkOf s = some v → v ∉ units) ∨ (∃ v, g.sinkOf s = some v ∧ st.cov v)

/-- every outlet of `u` has been dealt with -/
def Good (g : Graph) (units : List Nat) (st : DfsSt) (u : Nat) : Prop :=
  ∀ o, o ∈ g.outsOf u → Target g units st o

theorem cov_addWithout {st : DfsSt} {p : List Nat} {u : Nat} : (st.addWithout p).cov u ↔ st.cov u ∨ u ∈ p := by
  unfold DfsSt.cov DfsSt.addWithout
  simp only [List.mem_append, List.mem_singleton]
  constructor
  · rintro (⟨q, hq | rfl, hu⟩ | h)
    · exact .inl (.inl ⟨q, hq, hu⟩)
    · exact .inr hu
    · exact .inl (.inr h)
  · rintro ((⟨q, hq, hu⟩ | h) | hu)
    · exact .inl ⟨q, .inl hq, hu⟩
    · exact .inr h
    · exact .inl ⟨p, .inr rfl, hu⟩

theorem cov_addRecycle {st : DfsSt} {p : List Nat} {f u : Nat} : (st.addRecycle p f).cov u ↔ st.cov u ∨ u ∈ p := by
  unfold DfsSt.cov DfsSt.addRecycle
  simp only [List.mem_append, List.mem_singleton]
  constructor
  · rintro (h | ⟨q, r, hq | hq, hu⟩)
    · exact .inl (.inl h)
    · exact .inl (.inr ⟨q, r, hq, hu⟩)
    · injection hq with h1 h2; subst h1; exact .inr hu
  · rintro ((h | ⟨q, r, hq, hu⟩) | hu)
    · exact .inl h
    · exact .inr ⟨q, r, .inl hq, hu⟩
    · exact .inr ⟨p, f, .inr rfl, hu⟩

/-- how a (sequence of) call(s) with current path `path` changes the walk's state -/
structure Step (g : Graph) (units : List Nat) (path : List Nat) (st st' : DfsSt) : Prop where
  monoC : ∀ u, st.cov u → st'.cov u
  monoE : ∀ s, s ∈ st.ends → s ∈ st'.ends
  newCov : ∀ u, st'.cov u → st.cov u ∨ u ∈ path ∨ Good g units st' u
  newEnds : ∀ s, s ∈ st'.ends → s ∈ st.ends ∨ ∃ v, g.sinkOf s = some v ∧ st'.cov v

theorem Target.mono {g : Graph} {units : List Nat} {st st' : DfsSt} {s : Nat} (h : Target g units st s)
    (hc : ∀ u, st.cov u → st'.cov u) (he : ∀ s, s ∈ st.ends → s ∈ st'.ends) : Target g units st' s := by
  rcases h with h | h | ⟨v, hv, hcv⟩
  · exact .inl (he s h)
  · exact .inr (.inl h)
  · exact .inr (.inr ⟨v, hv, hc v hcv⟩)

theorem Good.mono {g : Graph} {units : List Nat} {st st' : DfsSt} {u : Nat} (h : Good g units st u)
    (hc : ∀ u, st.cov u → st'.cov u) (he : ∀ s, s ∈ st.ends → s ∈ st'.ends) : Good g units st' u :=
  fun o ho => (h o ho).mono hc he

theorem Step.refl (g : Graph) (units path : List Nat) (st : DfsSt) : Step g units path st st :=
  ⟨fun _ h => h, fun _ h => h, fun _ h => .inl h, fun _ h => .inl h⟩

theorem Step.trans {g : Graph} {units path : List Nat} {st st1 st2 : DfsSt}
    (a : Step g units path st st1) (b : Step g units path st1 st2) : Step g units path st st2 := by
  refine ⟨fun u h => b.monoC u (a.monoC u h), fun s h => b.monoE s (a.monoE s h), ?_, ?_⟩
  · intro u h
    rcases b.newCov u h with h | h | h
    · rcases a.newCov u h with h | h | h
      · exact .inl h
      · exact .inr (.inl h)
      · exact .inr (.inr (h.mono b.monoC b.monoE))
    · exact .inr (.inl h)
    · exact .inr (.inr h)
  · intro s h
    rcases b.newEnds s h with h | h
    · rcases a.newEnds s h with h | ⟨v, hv, hc⟩
      · exact .inl h
      · exact .inr ⟨v, hv, b.monoC v hc⟩
    · exact .inr h

/-- appending the current path to `paths_without_recycle` -/
theorem Step.addWithout (g : Graph) (units path : List Nat) (st : DfsSt) :
    Step g units path st (st.addWithout path) := by
  refine ⟨fun u h => cov_addWithout.mpr (.inl h), fun _ h => h, ?_, fun _ h => .inl h⟩
  intro u h
  rcases cov_addWithout.mp h with h | h
  · exact .inl h
  · exact .inr (.inl h)

section Dfs
variable {g : Graph} {units : List Nat}

/-- the loop over the other outlets -/
theorem foldlM_spec (fuel : Nat) (path : List Nat)
    (ih : ∀ feed st st', fillPath g units fuel feed path st = .ok st' →
      Step g units path st st' ∧ (∀ u, u ∈ path → st'.cov u) ∧ Target g units st' feed)
    (os : List Nat) (st st' : DfsSt)
    (h : os.foldlM (fun st o => fillPath g units fuel o path st) st = .ok st') :
    Step g units path st st' ∧ ∀ o, o ∈ os → Target g units st' o := by
  induction os generalizing st with
  | nil =>
    simp only [List.foldlM_nil, pure, Except.pure] at h
    injection h with h; subst h
    exact ⟨Step.refl .., fun _ ho => absurd ho List.not_mem_nil⟩
  | cons o os ihos =>
    simp only [List.foldlM_cons, bind, Except.bind] at h
    split at h
    · exact absurd h (by simp)
    · rename_i st1 h1
      obtain ⟨s1, _, t1⟩ := ih o st st1 h1
      obtain ⟨s2, t2⟩ := ihos st1 h
      refine ⟨s1.trans s2, ?_⟩
      intro o' ho'
      rcases List.mem_cons.mp ho' with rfl | ho'
      · exact t1.mono s2.monoC s2.monoE
      · exact t2 o' ho'

theorem fillPath_spec (hout : ∀ u, u ∈ units → g.outsOf u ≠ []) (fuel : Nat) :
    ∀ (feed : Nat) (path : List Nat) (st st' : DfsSt), fillPath g units fuel feed path st = .ok st' →
      Step g units path st st' ∧ (∀ u, u ∈ path → st'.cov u) ∧ Target g units st' feed := by
  induction fuel with
  | zero => intro feed path st st' h; simp [fillPath] at h
  | succ fuel ih =>
    intro feed path st st' h
    have fin : ∀ (T : Target g units (st.addWithout path) feed), st' = st.addWithout path →
        Step g units path st st' ∧ (∀ u, u ∈ path → st'.cov u) ∧ Target g units st' feed := by
      intro T e; subst e
      exact ⟨Step.addWithout .., fun u hu => cov_addWithout.mpr (.inr hu), T⟩
    unfold fillPath at h
    split at h
    · rename_i hk
      injection h with h
      exact fin (.inr (.inl (fun v hv => by rw [hk] at hv; exact absurd hv (by simp)))) h.symm
    · rename_i unit hk
      split at h
      · rename_i hnu
        injection h with h
        refine fin (.inr (.inl (fun v hv => ?_))) h.symm
        rw [hk] at hv; injection hv with hv; subst hv
        intro hm
        have := List.contains_iff_mem.mpr hm
        simp_all
      · rename_i hin
        have hunit : unit ∈ units := by
          have : units.contains unit = true := by simpa using hin
          exact List.contains_iff_mem.mp this
        split at h
        · rename_i he
          injection h with h
          exact fin (.inl (List.contains_iff_mem.mp he)) h.symm
        · rename_i hne
          split at h
          · rename_i hip
            have hup : unit ∈ path := List.contains_iff_mem.mp hip
            have hrec : st' = st.addRecycle path feed →
                Step g units path st st' ∧ (∀ u, u ∈ path → st'.cov u) ∧ Target g units st' feed := by
              intro e; subst e
              refine ⟨⟨fun u h => cov_addRecycle.mpr (.inl h), fun s h => ?_, ?_, ?_⟩,
                fun u hu => cov_addRecycle.mpr (.inr hu), .inl ?_⟩
              · simp only [DfsSt.addRecycle, List.mem_append]; exact .inl h
              · intro u h
                rcases cov_addRecycle.mp h with h | h
                · exact .inl h
                · exact .inr (.inl h)
              · intro s h
                simp only [DfsSt.addRecycle, List.mem_append, List.mem_singleton] at h
                rcases h with h | rfl
                · exact .inl h
                · exact .inr ⟨unit, hk, cov_addRecycle.mpr (.inr hup)⟩
              · simp [DfsSt.addRecycle]
            split at h
            · split at h
              · injection h with h
                exact fin (.inr (.inr ⟨unit, hk, cov_addWithout.mpr (.inr hup)⟩)) h.symm
              · injection h with h; exact hrec h.symm
            · injection h with h; exact hrec h.symm
          · rename_i hnp
            simp only at h
            split at h
            · rename_i ho
              exact absurd ho (hout unit hunit)
            · rename_i first others ho
              split at h
              · exact absurd h (by simp)
              · rename_i st1 h1
                obtain ⟨s1, t1⟩ := foldlM_spec fuel (path ++ [unit]) (fun f a b => ih f (path ++ [unit]) a b) others st st1 h1
                obtain ⟨s2, c2, t2⟩ := ih first (path ++ [unit]) st1 st' h
                have s := s1.trans s2
                have gunit : Good g units st' unit := by
                  intro o hoo
                  rw [ho] at hoo
                  rcases List.mem_cons.mp hoo with rfl | hoo
                  · exact t2
                  · exact (t1 o hoo).mono s2.monoC s2.monoE
                refine ⟨⟨s.monoC, s.monoE, ?_, s.newEnds⟩, fun u hu => c2 u (List.mem_append_left _ hu),
                  .inr (.inr ⟨unit, hk, c2 unit (by simp)⟩)⟩
                intro u hu
                rcases s.newCov u hu with h | h | h
                · exact .inl h
                · rcases List.mem_append.mp h with h | h
                  · exact .inr (.inl h)
                  · simp only [List.mem_singleton] at h; subst h; exact .inr (.inr gunit)
                · exact .inr (.inr h)

/-- the walk's current path really is a path of the flowsheet: `feed` leaves its last unit, and
every unit of it reaches the last one without crossing the initial ends `E0` -/
def PathOK (g : Graph) (E0 : List Nat) (feed : Nat) (path : List Nat) : Prop :=
  ∀ a, path.getLast? = some a → feed ∈ g.outsOf a ∧ ∀ v, v ∈ path → v = a ∨ Reach g E0 v a

/-- the closing stream of `(p, r)` closes a real cycle -/
def RealCycle (g : Graph) (E0 : List Nat) (p : List Nat) (r : Nat) : Prop :=
  ∃ v, g.sinkOf r = some v ∧ v ∈ p ∧ Reach g E0 v v

theorem reach_via_feed {E0 : List Nat} {feed unit : Nat} {path : List Nat} {ends : List Nat}
    (hE : ∀ s, s ∈ E0 → s ∈ ends) (hne : feed ∉ ends) (hk : g.sinkOf feed = some unit)
    (hp : PathOK g E0 feed path) {v : Nat} (hv : v ∈ path) : Reach g E0 v unit := by
  have hnn : path ≠ [] := List.ne_nil_of_mem hv
  obtain ⟨a, ha⟩ : ∃ a, path.getLast? = some a := ⟨path.getLast hnn, List.getLast?_eq_some_getLast hnn⟩
  obtain ⟨hf, hr⟩ := hp a ha
  have e : Edge g E0 a unit := ⟨feed, hf, fun h => hne (hE _ h), hk⟩
  rcases hr v hv with rfl | h
  · exact Relation.TransGen.single e
  · exact Relation.TransGen.tail h e

theorem foldlM_cycles (E0 : List Nat) (fuel : Nat) (path : List Nat)
    (ih : ∀ feed st st', (∀ s, s ∈ E0 → s ∈ st.ends) → PathOK g E0 feed path →
      fillPath g units fuel feed path st = .ok st' →
      (∀ s, s ∈ E0 → s ∈ st'.ends) ∧ ∀ p r, (p, r) ∈ st'.withR → (p, r) ∈ st.withR ∨ RealCycle g E0 p r)
    (os : List Nat) (hos : ∀ o, o ∈ os → PathOK g E0 o path) (st st' : DfsSt) (hE : ∀ s, s ∈ E0 → s ∈ st.ends)
    (h : os.foldlM (fun st o => fillPath g units fuel o path st) st = .ok st') :
    (∀ s, s ∈ E0 → s ∈ st'.ends) ∧ ∀ p r, (p, r) ∈ st'.withR → (p, r) ∈ st.withR ∨ RealCycle g E0 p r := by
  induction os generalizing st with
  | nil =>
    simp only [List.foldlM_nil, pure, Except.pure] at h
    injection h with h; subst h
    exact ⟨hE, fun _ _ h => .inl h⟩
  | cons o os ihos =>
    simp only [List.foldlM_cons, bind, Except.bind] at h
    split at h
    · exact absurd h (by simp)
    · rename_i st1 h1
      obtain ⟨e1, c1⟩ := ih o st st1 hE (hos o (List.mem_cons_self ..)) h1
      obtain ⟨e2, c2⟩ := ihos (fun o' ho' => hos o' (List.mem_cons_of_mem _ ho')) st1 e1 h
      refine ⟨e2, fun p r hpr => ?_⟩
      rcases c2 p r hpr with h | h
      · exact c1 p r h
      · exact .inr h

theorem fillPath_cycles (E0 : List Nat) (fuel : Nat) :
    ∀ (feed : Nat) (path : List Nat) (st st' : DfsSt), (∀ s, s ∈ E0 → s ∈ st.ends) → PathOK g E0 feed path →
      fillPath g units fuel feed path st = .ok st' →
      (∀ s, s ∈ E0 → s ∈ st'.ends) ∧ ∀ p r, (p, r) ∈ st'.withR → (p, r) ∈ st.withR ∨ RealCycle g E0 p r := by
  induction fuel with
  | zero => intro feed path st st' _ _ h; simp [fillPath] at h
  | succ fuel ih =>
    intro feed path st st' hE hp h
    have fin : st' = st.addWithout path →
        (∀ s, s ∈ E0 → s ∈ st'.ends) ∧ ∀ p r, (p, r) ∈ st'.withR → (p, r) ∈ st.withR ∨ RealCycle g E0 p r := by
      intro e; subst e; exact ⟨hE, fun _ _ h => .inl h⟩
    unfold fillPath at h
    split at h
    · injection h with h; exact fin h.symm
    · rename_i unit hk
      split at h
      · injection h with h; exact fin h.symm
      · split at h
        · injection h with h; exact fin h.symm
        · rename_i hne
          have hne' : feed ∉ st.ends := fun hm => hne (List.contains_iff_mem.mpr hm)
          split at h
          · rename_i hip
            have hup : unit ∈ path := List.contains_iff_mem.mp hip
            have hrec : st' = st.addRecycle path feed →
                (∀ s, s ∈ E0 → s ∈ st'.ends) ∧ ∀ p r, (p, r) ∈ st'.withR → (p, r) ∈ st.withR ∨ RealCycle g E0 p r := by
              intro e; subst e
              refine ⟨fun s hs => ?_, fun p r hpr => ?_⟩
              · simp only [DfsSt.addRecycle, List.mem_append]; exact .inl (hE s hs)
              · simp only [DfsSt.addRecycle, List.mem_append, List.mem_singleton] at hpr
                rcases hpr with h | h
                · exact .inl h
                · injection h with h1 h2; subst h1 h2
                  exact .inr ⟨unit, hk, hup, reach_via_feed hE hne' hk hp hup⟩
            split at h
            · split at h
              · injection h with h; exact fin h.symm
              · injection h with h; exact hrec h.symm
            · injection h with h; exact hrec h.symm
          · simp only at h
            split at h
            · injection h with h; subst h; exact ⟨hE, fun _ _ h => .inl h⟩
            · rename_i first others ho
              have hp' : ∀ o, o ∈ g.outsOf unit → PathOK g E0 o (path ++ [unit]) := by
                intro o hoo a ha
                simp only [List.getLast?_append, List.getLast?_singleton, Option.some_or] at ha
                injection ha with ha; subst ha
                refine ⟨hoo, fun v hv => ?_⟩
                rcases List.mem_append.mp hv with hv | hv
                · exact .inr (reach_via_feed hE hne' hk hp hv)
                · exact .inl (by simpa using hv)
              split at h
              · exact absurd h (by simp)
              · rename_i st1 h1
                obtain ⟨e1, c1⟩ := foldlM_cycles E0 fuel (path ++ [unit]) (fun f a b => ih f (path ++ [unit]) a b)
                  others (fun o hoo => hp' o (by rw [ho]; exact List.mem_cons_of_mem _ hoo)) st st1 hE h1
                obtain ⟨e2, c2⟩ := ih first (path ++ [unit]) st1 st' e1 (hp' first (by rw [ho]; exact List.mem_cons_self ..)) h
                refine ⟨e2, fun p r hpr => ?_⟩
                rcases c2 p r hpr with h | h
                · exact c1 p r h
                · exact .inr h

end Dfs

/-! ## The checker -/

/-- `q` (with recycle set `r`) is the network itself or one of its nested sub-networks -/
inductive SubNet : Item → List Item → List Nat → Prop
  | self (p : List Item) (r : List Nat) : SubNet (.net p r) p r
  | inner {p : List Item} {r : List Nat} {it : Item} {q : List Item} {s : List Nat} :
      it ∈ p → SubNet it q s → SubNet (.net p r) q s

mutual
theorem mem_loops : ∀ (it : Item) (l : List Nat), l ∈ it.loops ↔ ∃ q r, SubNet it q r ∧ r ≠ [] ∧ l = flatList q
  | .unit u, l => by
    simp only [Item.loops, List.not_mem_nil, false_iff]
    rintro ⟨q, r, h, _⟩; cases h
  | .net p r, l => by
    simp only [Item.loops, List.mem_append]
    rw [mem_loopsList p l]
    constructor
    · rintro (h | ⟨it, hit, q, s, hs, hne, e⟩)
      · by_cases hr : r.isEmpty = true
        · simp [hr] at h
        · simp only [hr] at h
          simp only [Bool.false_eq_true, if_false, List.mem_singleton] at h
          exact ⟨p, r, SubNet.self p r, fun e => hr (by simp [e]), h⟩
      · exact ⟨q, s, SubNet.inner hit hs, hne, e⟩
    · rintro ⟨q, s, hs, hne, e⟩
      cases hs with
      | self =>
        left
        have : r.isEmpty = false := by cases r with | nil => exact absurd rfl hne | cons _ _ => rfl
        simp [this, e]
      | inner hit hs => exact .inr ⟨_, hit, q, s, hs, hne, e⟩
theorem mem_loopsList : ∀ (p : List Item) (l : List Nat), l ∈ loopsList p ↔ ∃ it, it ∈ p ∧ ∃ q r, SubNet it q r ∧ r ≠ [] ∧ l = flatList q
  | [], l => by simp [loopsList]
  | i :: is, l => by
    simp only [loopsList, List.mem_append, List.mem_cons]
    rw [mem_loops i l, mem_loopsList is l]
    constructor
    · rintro (h | ⟨it, hit, h⟩)
      · exact ⟨i, .inl rfl, h⟩
      · exact ⟨it, .inr hit, h⟩
    · rintro ⟨it, rfl | hit, h⟩
      · exact .inl h
      · exact .inr ⟨it, hit, h⟩
end

theorem nodupB_iff (l : List Nat) : nodupB l = true ↔ l.Nodup := by
  induction l with
  | nil => simp [nodupB]
  | cons x xs ih => simp [nodupB, ih]

theorem mem_edgesOf {g : Graph} {a b : Nat} (ha : a < g.n) (e : Edge g [] a b) : (a, b) ∈ edgesOf g := by
  obtain ⟨s, hs, _, hk⟩ := e
  unfold edgesOf
  refine List.mem_flatMap.mpr ⟨a, List.mem_range.mpr ha, List.mem_filterMap.mpr ⟨s, hs, ?_⟩⟩
  simp [hk]

theorem Edge.lt_outs_length {g : Graph} {ends : List Nat} {a b : Nat} (e : Edge g ends a b) : a < g.outs.length := by
  obtain ⟨s, hs, _⟩ := e
  rcases Nat.lt_or_ge a g.outs.length with h | h
  · exact h
  · unfold Graph.outsOf at hs
    rw [List.getD_eq_getElem?_getD, List.getElem?_eq_none h] at hs
    simp at hs

theorem hasCycle_sound {g : Graph} (h : hasCycle g = true) : ∃ u, Reach g [] u u := by
  unfold hasCycle at h
  obtain ⟨u, _, hu⟩ := List.any_eq_true.mp h
  refine ⟨u, closeN_sound g [] (fun x => Reach g [] u x) (fun _ _ r e => Relation.TransGen.tail r e) g.n _ ?_ u
    (List.contains_iff_mem.mp hu)⟩
  intro x hx
  rcases mem_addNew.mp hx with h | h
  · exact absurd h List.not_mem_nil
  · exact Relation.TransGen.single (mem_succs.mp h)

/-! ## The walk finds a recycle whenever it can run into a cycle -/

section Found
variable {g : Graph} {units : List Nat}

/-- `paths_with_recycle` only grows, and as long as it does not grow `ends` does not change -/
def Quiet2 (st st' : DfsSt) : Prop :=
  st.withR.length ≤ st'.withR.length ∧ (st'.withR.length = st.withR.length → st'.ends = st.ends)

theorem Quiet2.refl (st : DfsSt) : Quiet2 st st := ⟨Nat.le_refl _, fun _ => rfl⟩

theorem Quiet2.trans {a b c : DfsSt} (h1 : Quiet2 a b) (h2 : Quiet2 b c) : Quiet2 a c := by
  refine ⟨Nat.le_trans h1.1 h2.1, fun e => ?_⟩
  have e1 : b.withR.length = a.withR.length := by have := h1.1; have := h2.1; omega
  have e2 : c.withR.length = b.withR.length := by omega
  rw [h2.2 e2, h1.2 e1]

theorem Quiet2.addWithout (st : DfsSt) (p : List Nat) : Quiet2 st (st.addWithout p) := ⟨Nat.le_refl _, fun _ => rfl⟩

theorem Quiet2.addRecycle (st : DfsSt) (p : List Nat) (f : Nat) : Quiet2 st (st.addRecycle p f) := by
  refine ⟨by simp [DfsSt.addRecycle], fun e => ?_⟩
  simp [DfsSt.addRecycle] at e

theorem foldlM_quiet (fuel : Nat) (path : List Nat)
    (ih : ∀ feed st st', fillPath g units fuel feed path st = .ok st' → Quiet2 st st')
    (os : List Nat) (st st' : DfsSt)
    (h : os.foldlM (fun st o => fillPath g units fuel o path st) st = .ok st') : Quiet2 st st' := by
  induction os generalizing st with
  | nil =>
    simp only [List.foldlM_nil, pure, Except.pure] at h
    injection h with h; subst h; exact Quiet2.refl _
  | cons o os ihos =>
    simp only [List.foldlM_cons, bind, Except.bind] at h
    split at h
    · exact absurd h (by simp)
    · rename_i st1 h1
      exact (ih o st st1 h1).trans (ihos st1 h)

theorem fillPath_quiet (fuel : Nat) :
    ∀ (feed : Nat) (path : List Nat) (st st' : DfsSt), fillPath g units fuel feed path st = .ok st' → Quiet2 st st' := by
  induction fuel with
  | zero => intro feed path st st' h; simp [fillPath] at h
  | succ fuel ih =>
    intro feed path st st' h
    unfold fillPath at h
    split at h
    · injection h with h; subst h; exact Quiet2.addWithout ..
    · rename_i unit hk
      split at h
      · injection h with h; subst h; exact Quiet2.addWithout ..
      · split at h
        · injection h with h; subst h; exact Quiet2.addWithout ..
        · split at h
          · split at h
            · split at h
              · injection h with h; subst h; exact Quiet2.addWithout ..
              · injection h with h; subst h; exact Quiet2.addRecycle ..
            · injection h with h; subst h; exact Quiet2.addRecycle ..
          · simp only at h
            split at h
            · injection h with h; subst h; exact Quiet2.refl _
            · split at h
              · exact absurd h (by simp)
              · rename_i st1 h1
                exact (foldlM_quiet fuel _ (fun f a b => ih f _ a b) _ st st1 h1).trans (ih _ _ st1 st' h)

/-- Following streams from `f` — never crossing a stream of `E`, never leaving `units` — one comes
back to a unit that is already on the way (or on `path`), and that unit has an outlet outside `E`. -/
inductive WalkHits (g : Graph) (units E : List Nat) : Nat → List Nat → Prop
  | hit {f v : Nat} {path : List Nat} : g.sinkOf f = some v → f ∉ E → v ∈ units → v ∈ path →
      (∃ o, o ∈ g.outsOf v ∧ o ∉ E) → WalkHits g units E f path
  | step {f v f' : Nat} {path : List Nat} : g.sinkOf f = some v → f ∉ E → v ∈ units → f' ∈ g.outsOf v → f' ∉ E →
      WalkHits g units E f' (path ++ [v]) → WalkHits g units E f path

/-- when the sink of `feed` is already on the path and has a live outlet, a recycle is recorded -/
theorem fillPath_hit {fuel : Nat} {feed v : Nat} {path : List Nat} {st st' : DfsSt}
    (h : fillPath g units (fuel + 1) feed path st = .ok st')
    (hk : g.sinkOf feed = some v) (hne : feed ∉ st.ends) (hu : v ∈ units) (hp : v ∈ path)
    (hlive : ∃ o, o ∈ g.outsOf v ∧ o ∉ st.ends) : st.withR.length < st'.withR.length := by
  unfold fillPath at h
  simp only [hk] at h
  have h1 : units.contains v = true := List.contains_iff_mem.mpr hu
  have h2 : st.ends.contains feed = false := by
    cases hc : st.ends.contains feed with
    | false => rfl
    | true => exact absurd (List.contains_iff_mem.mp hc) hne
  have h3 : path.contains v = true := List.contains_iff_mem.mpr hp
  simp only [h1, h2, h3, Bool.not_true, Bool.false_eq_true, if_false, if_true] at h
  have hrec : st' = st.addRecycle path feed → st.withR.length < st'.withR.length := by
    intro e; subst e; simp [DfsSt.addRecycle]
  split at h
  · rename_i o ho
    split at h
    · rename_i hc
      obtain ⟨o', ho', hne'⟩ := hlive
      rw [ho] at ho'
      simp only [List.mem_singleton] at ho'
      subst ho'
      exact absurd (List.contains_iff_mem.mp hc) hne'
    · injection h with h; exact hrec h.symm
  · injection h with h; exact hrec h.symm

theorem foldlM_found (fuel : Nat) (path : List Nat) (E : List Nat) (f' : Nat)
    (ihq : ∀ feed st st', fillPath g units fuel feed path st = .ok st' → Quiet2 st st')
    (ih : ∀ st st', st.ends = E → fillPath g units fuel f' path st = .ok st' → st.withR.length < st'.withR.length)
    (os : List Nat) (hf : f' ∈ os) (st st' : DfsSt) (hE : st.ends = E)
    (h : os.foldlM (fun st o => fillPath g units fuel o path st) st = .ok st') :
    st.withR.length < st'.withR.length := by
  induction os generalizing st with
  | nil => exact absurd hf List.not_mem_nil
  | cons o os ihos =>
    simp only [List.foldlM_cons, bind, Except.bind] at h
    split at h
    · exact absurd h (by simp)
    · rename_i st1 h1
      have q1 := ihq o st st1 h1
      have q2 := foldlM_quiet fuel path ihq os st1 st' h
      rcases List.mem_cons.mp hf with rfl | hf'
      · have := ih st st1 hE h1
        have := q2.1; omega
      · by_cases e : st1.withR.length = st.withR.length
        · have := ihos hf' st1 (by rw [q1.2 e]; exact hE) h
          omega
        · have := q1.1; have := q2.1; omega

/-- if the walk from `feed` can run into a cycle, the call records at least one recycle -/
theorem fillPath_found (fuel : Nat) :
    ∀ (feed : Nat) (path : List Nat) (st st' : DfsSt), fillPath g units fuel feed path st = .ok st' →
      WalkHits g units st.ends feed path → st.withR.length < st'.withR.length := by
  induction fuel with
  | zero => intro feed path st st' h; simp [fillPath] at h
  | succ fuel ih =>
    intro feed path st st' h w
    generalize hE : st.ends = E at w
    induction w generalizing st st' with
    | hit hk hne hu hp hlive =>
      subst hE
      exact fillPath_hit h hk hne hu hp hlive
    | @step f v f' path hk hne hu hf' hne' w _ =>
      subst hE
      by_cases hp : v ∈ path
      · exact fillPath_hit h hk hne hu hp ⟨f', hf', hne'⟩
      · unfold fillPath at h
        simp only [hk] at h
        have h1 : units.contains v = true := List.contains_iff_mem.mpr hu
        have h2 : st.ends.contains f = false := by
          cases hc : st.ends.contains f with
          | false => rfl
          | true => exact absurd (List.contains_iff_mem.mp hc) hne
        have h3 : path.contains v = false := by
          cases hc : path.contains v with
          | false => rfl
          | true => exact absurd (List.contains_iff_mem.mp hc) hp
        simp only [h1, h2, h3, Bool.not_true, Bool.false_eq_true, if_false] at h
        split at h
        · rename_i ho; rw [ho] at hf'; exact absurd hf' List.not_mem_nil
        · rename_i first others ho
          split at h
          · exact absurd h (by simp)
          · rename_i st1 h1'
            have qf := fun f a b => fillPath_quiet (g := g) (units := units) fuel f (path ++ [v]) a b
            have q1 := foldlM_quiet fuel _ qf others st st1 h1'
            have q2 := fillPath_quiet fuel _ _ st1 st' h
            rw [ho] at hf'
            rcases List.mem_cons.mp hf' with rfl | hin
            · -- the cycle continues through the first outlet, explored last
              by_cases e : st1.withR.length = st.withR.length
              · have := ih f' (path ++ [v]) st1 st' h (by rw [q1.2 e]; exact w)
                omega
              · have := q1.1; have := q2.1; omega
            · have := foldlM_found fuel (path ++ [v]) st.ends f' qf
                (fun a b hab hcall => ih f' (path ++ [v]) a b hcall (by rw [hab]; exact w)) others hin st st1 rfl h1'
              have := q2.1; omega

end Found

/-! ## The bounded iterations never run out of fuel -/

/-- every stream's sink is one of the units `0 … n-1` -/
def Graph.SinksOK (g : Graph) : Prop := ∀ s v, g.sinkOf s = some v → v < g.n

def sinksOKB (g : Graph) : Bool :=
  g.snk.all fun o => match o with | some v => decide (v < g.n) | none => true

theorem sinksOK_of_B {g : Graph} (h : sinksOKB g = true) : g.SinksOK := by
  intro s v hk
  unfold Graph.sinkOf at hk
  rw [List.getD_eq_getElem?_getD] at hk
  cases hs : g.snk[s]? with
  | none => rw [hs] at hk; simp at hk
  | some o =>
    rw [hs] at hk
    simp only [Option.getD_some] at hk
    subst hk
    have := List.all_eq_true.mp h _ (List.mem_of_getElem? hs)
    simpa using this

theorem succs_lt {g : Graph} (hg : g.SinksOK) {ends : List Nat} {u v : Nat} (h : v ∈ succs g ends u) : v < g.n := by
  obtain ⟨s, _, _, hk⟩ := mem_succs.mp h
  exact hg s v hk

theorem addNew_nodup {acc xs : List Nat} (h : acc.Nodup) : (addNew acc xs).Nodup := by
  unfold addNew
  induction xs generalizing acc with
  | nil => exact h
  | cons x xs ih =>
    simp only [List.foldl_cons]
    apply ih
    split
    · exact h
    · rename_i hc
      have hx : x ∉ acc := fun hm => hc (List.contains_iff_mem.mpr hm)
      rw [List.nodup_append]
      refine ⟨h, by simp, ?_⟩
      intro a ha b hb
      simp only [List.mem_singleton] at hb
      subst hb
      intro e; subst e; exact hx ha

theorem addNew_length_le {acc xs : List Nat} : acc.length ≤ (addNew acc xs).length := by
  unfold addNew
  induction xs generalizing acc with
  | nil => exact Nat.le_refl _
  | cons x xs ih =>
    simp only [List.foldl_cons]
    refine Nat.le_trans ?_ ih
    split
    · exact Nat.le_refl _
    · simp

theorem addNew_eq_self {acc xs : List Nat} (h : ∀ x, x ∈ xs → x ∈ acc) : addNew acc xs = acc := by
  unfold addNew
  induction xs with
  | nil => rfl
  | cons x xs ih =>
    simp only [List.foldl_cons]
    have : acc.contains x = true := List.contains_iff_mem.mpr (h x (List.mem_cons_self ..))
    simp only [this, if_true]
    exact ih (fun y hy => h y (List.mem_cons_of_mem _ hy))

theorem addNew_length_lt {acc xs : List Nat} {x : Nat} (hx : x ∈ xs) (hn : x ∉ acc) :
    acc.length < (addNew acc xs).length := by
  induction xs generalizing acc with
  | nil => exact absurd hx List.not_mem_nil
  | cons y ys ih =>
    have step : addNew acc (y :: ys) = addNew (if acc.contains y then acc else acc ++ [y]) ys := by
      simp [addNew]
    rw [step]
    by_cases hy : y ∈ acc
    · have : acc.contains y = true := List.contains_iff_mem.mpr hy
      simp only [this, if_true]
      rcases List.mem_cons.mp hx with rfl | hx'
      · exact absurd hy hn
      · exact ih hx' hn
    · have hcf : acc.contains y = false := by
        cases hc : acc.contains y with
        | false => rfl
        | true => exact absurd (List.contains_iff_mem.mp hc) hy
      simp only [hcf, Bool.false_eq_true, if_false]
      have := addNew_length_le (acc := acc ++ [y]) (xs := ys)
      simp at this
      omega

theorem isClosed_iff {g : Graph} {ends S : List Nat} :
    isClosed g ends S = true ↔ ∀ x, x ∈ S.flatMap (succs g ends) → x ∈ S := by
  unfold isClosed
  rw [List.all_eq_true]
  constructor
  · intro h x hx
    obtain ⟨u, hu, hxu⟩ := List.mem_flatMap.mp hx
    exact List.contains_iff_mem.mp (List.all_eq_true.mp (h u hu) x hxu)
  · intro h u hu
    rw [List.all_eq_true]
    intro x hx
    exact List.contains_iff_mem.mpr (h x (List.mem_flatMap.mpr ⟨u, hu, hx⟩))

theorem closeN_of_closed {g : Graph} {ends S : List Nat} (h : isClosed g ends S = true) (k : Nat) :
    closeN g ends k S = S := by
  induction k with
  | zero => rfl
  | succ k ih =>
    unfold closeN
    rw [addNew_eq_self (isClosed_iff.mp h)]
    exact ih

/-- a duplicate-free list of numbers `< n` has at most `n` entries; with `n` entries it has them all -/
theorem length_le_of_bounded {S : List Nat} {n : Nat} (hd : S.Nodup) (hb : ∀ x, x ∈ S → x < n) : S.length ≤ n := by
  have := hd.length_le_of_subset (l₂ := List.range n) (fun x hx => List.mem_range.mpr (hb x hx))
  simpa using this

theorem full_of_length {S : List Nat} {n : Nat} (hd : S.Nodup) (hb : ∀ x, x ∈ S → x < n) (hl : n ≤ S.length)
    {x : Nat} (hx : x < n) : x ∈ S := by
  cases hm : decide (x ∈ S) with
  | true => exact of_decide_eq_true hm
  | false =>
    have hx' : x ∉ S := of_decide_eq_false hm
    have : (x :: S).length ≤ n := length_le_of_bounded (List.nodup_cons.mpr ⟨hx', hd⟩)
      (fun y hy => by rcases List.mem_cons.mp hy with rfl | hy; exact hx; exact hb y hy)
    simp at this; omega

theorem closeN_closed {g : Graph} (hg : g.SinksOK) (ends : List Nat) :
    ∀ (k : Nat) (S : List Nat), S.Nodup → (∀ x, x ∈ S → x < g.n) → g.n ≤ S.length + k →
      isClosed g ends (closeN g ends k S) = true := by
  intro k
  induction k with
  | zero =>
    intro S hd hb hl
    simp only [closeN]
    rw [isClosed_iff]
    intro x hx
    obtain ⟨u, _, hxu⟩ := List.mem_flatMap.mp hx
    exact full_of_length hd hb (by omega) (succs_lt hg hxu)
  | succ k ih =>
    intro S hd hb hl
    by_cases hc : isClosed g ends S = true
    · rw [closeN_of_closed hc]; exact hc
    · unfold closeN
      have hnew : ∃ x, x ∈ S.flatMap (succs g ends) ∧ x ∉ S := by
        apply Classical.byContradiction
        intro hno
        apply hc
        rw [isClosed_iff]
        intro x hx
        apply Classical.byContradiction
        intro hxs
        exact hno ⟨x, hx, hxs⟩
      obtain ⟨x, hx, hxs⟩ := hnew
      have hlt := addNew_length_lt hx hxs
      apply ih _ (addNew_nodup hd)
      · intro y hy
        rcases mem_addNew.mp hy with h | h
        · exact hb y h
        · obtain ⟨u, _, hyu⟩ := List.mem_flatMap.mp h
          exact succs_lt hg hyu
      · omega

/-- **`get_downstream_units` terminates within `n` rounds**: the model never reports `Err.fuel`. -/
theorem downstreamOf_total {g : Graph} (hg : g.SinksOK) (ends us : List Nat) :
    ∃ S, downstreamOf g ends us = .ok S := by
  unfold downstreamOf
  have : isClosed g ends (closeN g ends g.n (addNew [] (us.flatMap (succs g ends)))) = true := by
    apply closeN_closed hg ends g.n _ (addNew_nodup List.nodup_nil)
    · intro x hx
      rcases mem_addNew.mp hx with h | h
      · exact absurd h List.not_mem_nil
      · obtain ⟨u, _, hxu⟩ := List.mem_flatMap.mp h
        exact succs_lt hg hxu
    · omega
  simp only [this, if_true]
  exact ⟨_, rfl⟩

theorem mkPSs_total {g : Graph} (hg : g.SinksOK) (ends : List Nat) (path : List Item) :
    ∃ ps, mkPSs g ends path = .ok ps := by
  induction path with
  | nil => exact ⟨[], rfl⟩
  | cons i is ih =>
    obtain ⟨S, hS⟩ := downstreamOf_total hg ends i.flat
    obtain ⟨ps, hps⟩ := ih
    unfold mkPSs mkPS
    simp only [hS, hps]
    exact ⟨_, rfl⟩

theorem sortLevel_total {g : Graph} (hg : g.SinksOK) (ends : List Nat) (path : List Item) (r : List Nat) :
    ∃ o, sortLevel g ends path r = .ok o := by
  obtain ⟨ps, hps⟩ := mkPSs_total hg ends path
  unfold sortLevel
  simp only [hps]
  exact ⟨_, rfl⟩

mutual
theorem sortItem_total {g : Graph} (hg : g.SinksOK) (ends : List Nat) : ∀ (it : Item), ∃ r, sortItem g ends it = .ok r
  | .unit u => ⟨_, rfl⟩
  | .net p r => by
    obtain ⟨⟨p', w⟩, hp⟩ := sortList_total hg ends p
    obtain ⟨o, ho⟩ := sortLevel_total hg ends p' r
    unfold sortItem
    simp only [hp, ho]
    exact ⟨_, rfl⟩
theorem sortList_total {g : Graph} (hg : g.SinksOK) (ends : List Nat) : ∀ (p : List Item), ∃ r, sortList g ends p = .ok r
  | [] => ⟨_, rfl⟩
  | i :: is => by
    obtain ⟨⟨i', w⟩, hi⟩ := sortItem_total hg ends i
    obtain ⟨⟨is', w'⟩, his⟩ := sortList_total hg ends is
    unfold sortList
    simp only [hi, his]
    exact ⟨_, rfl⟩
end

section DfsTotal
variable {g : Graph} {units : List Nat}

theorem foldlM_total (fuel : Nat) (path : List Nat)
    (ih : ∀ feed st, ∃ st', fillPath g units fuel feed path st = .ok st') (os : List Nat) (st : DfsSt) :
    ∃ st', os.foldlM (fun st o => fillPath g units fuel o path st) st = .ok st' := by
  induction os generalizing st with
  | nil => exact ⟨st, rfl⟩
  | cons o os ihos =>
    obtain ⟨st1, h1⟩ := ih o st
    obtain ⟨st2, h2⟩ := ihos st1
    refine ⟨st2, ?_⟩
    simp only [List.foldlM_cons, bind, Except.bind, h1]
    exact h2

/-- the recursion depth of `fill_path` is bounded by the number of units -/
theorem fillPath_total (fuel : Nat) :
    ∀ (feed : Nat) (path : List Nat) (st : DfsSt), path.Nodup → (∀ x, x ∈ path → x ∈ units) →
      units.length + 1 ≤ fuel + path.length → ∃ st', fillPath g units fuel feed path st = .ok st' := by
  induction fuel with
  | zero =>
    intro feed path st hd hs hl
    have := hd.length_le_of_subset (l₂ := units) (fun x hx => hs x hx)
    omega
  | succ fuel ih =>
    intro feed path st hd hs hl
    unfold fillPath
    split
    · exact ⟨_, rfl⟩
    · rename_i unit hk
      split
      · exact ⟨_, rfl⟩
      · rename_i hin
        have hunit : unit ∈ units := by
          have : units.contains unit = true := by simpa using hin
          exact List.contains_iff_mem.mp this
        split
        · exact ⟨_, rfl⟩
        · split
          · split
            · split
              · exact ⟨_, rfl⟩
              · exact ⟨_, rfl⟩
            · exact ⟨_, rfl⟩
          · rename_i hnp
            have hnp' : unit ∉ path := fun hm => hnp (List.contains_iff_mem.mpr hm)
            have hd' : (path ++ [unit]).Nodup := by
              rw [List.nodup_append]
              refine ⟨hd, by simp, ?_⟩
              intro a ha b hb
              simp only [List.mem_singleton] at hb
              subst hb
              intro e; subst e; exact hnp' ha
            have hs' : ∀ x, x ∈ path ++ [unit] → x ∈ units := by
              intro x hx
              rcases List.mem_append.mp hx with h | h
              · exact hs x h
              · simp only [List.mem_singleton] at h; subst h; exact hunit
            have hl' : units.length + 1 ≤ fuel + (path ++ [unit]).length := by simp; omega
            simp only
            split
            · exact ⟨_, rfl⟩
            · rename_i first others ho
              obtain ⟨st1, h1⟩ := foldlM_total fuel (path ++ [unit]) (fun f a => ih f _ a hd' hs' hl') others st
              obtain ⟨st2, h2⟩ := ih first (path ++ [unit]) st1 hd' hs' hl'
              simp only [h1]
              exact ⟨st2, h2⟩

/-- **`find_paths_with_and_without_recycle` never exhausts the recursion bound.** -/
theorem findPaths_total (g : Graph) (units : List Nat) (feed : Nat) (ends : List Nat) :
    ∃ st, findPaths g units feed ends = .ok st := by
  unfold findPaths
  exact fillPath_total _ feed [] _ List.nodup_nil (fun x hx => absurd hx List.not_mem_nil) (by simp)

end DfsTotal

theorem flatList_units_getElem? {p : List Item} (h : ∀ it ∈ p, ∃ u, it = .unit u) (i a : Nat) :
    (flatList p)[i]? = some a ↔ p[i]? = some (.unit a) := by
  induction p generalizing i with
  | nil => simp [flatList]
  | cons x xs ih =>
    obtain ⟨u, rfl⟩ := h _ (List.mem_cons_self ..)
    have ih' := ih (fun it hit => h it (List.mem_cons_of_mem _ hit))
    simp only [flatList, Item.flat, List.singleton_append]
    cases i with
    | zero => simp
    | succ i => simpa using ih' i

theorem edge_ends_iff {g : Graph} {ends : List Nat} (hends : ∀ s, s ∈ ends → g.sinkOf s = none) (u v : Nat) :
    Edge g ends u v ↔ Edge g [] u v := by
  constructor
  · rintro ⟨s, hs, _, hk⟩; exact ⟨s, hs, List.not_mem_nil, hk⟩
  · rintro ⟨s, hs, _, hk⟩
    refine ⟨s, hs, fun hm => ?_, hk⟩
    rw [hends s hm] at hk; exact absurd hk (by simp)

theorem reach_ends_iff {g : Graph} {ends : List Nat} (hends : ∀ s, s ∈ ends → g.sinkOf s = none) (u v : Nat) :
    Reach g ends u v ↔ Reach g [] u v := by
  constructor
  · intro h
    induction h with
    | single e => exact Relation.TransGen.single ((edge_ends_iff hends _ _).mp e)
    | tail _ e ih => exact Relation.TransGen.tail ih ((edge_ends_iff hends _ _).mp e)
  · intro h
    induction h with
    | single e => exact Relation.TransGen.single ((edge_ends_iff hends _ _).mpr e)
    | tail _ e ih => exact Relation.TransGen.tail ih ((edge_ends_iff hends _ _).mpr e)

theorem reachesB_sound {g : Graph} {b a : Nat} (h : reachesB g b a = true) : Reach g [] b a := by
  unfold reachesB at h
  refine closeN_sound g [] (fun x => Reach g [] b x) (fun _ _ r e => Relation.TransGen.tail r e) g.n _ ?_ a
    (List.contains_iff_mem.mp h)
  intro x hx
  rcases mem_addNew.mp hx with h | h
  · exact absurd h List.not_mem_nil
  · exact Relation.TransGen.single (mem_succs.mp h)

theorem allRecyclesList_units {p : List Item} (h : ∀ it ∈ p, ∃ u, it = .unit u) : allRecyclesList p = [] := by
  induction p with
  | nil => rfl
  | cons x xs ih =>
    obtain ⟨u, rfl⟩ := h _ (List.mem_cons_self ..)
    simp [allRecyclesList, allRecycles, ih (fun it hit => h it (List.mem_cons_of_mem _ hit))]

theorem failingClauses_nil_iff (g : Graph) (p : Item) (R : List Nat) :
    failingClauses g p R = [] ↔ checkNetwork g p R = .valid := by
  unfold failingClauses checkNetwork
  simp only
  split
  · simp
  · split <;> split <;> split <;> (try split) <;> (try split) <;> (try split) <;> simp_all

/-! ## misc -/

/-- what `sortLevel` returns, in terms of the bubble loop over good path sources -/
theorem sortLevel_inv {g : Graph} {ends : List Nat} {path : List Item} {r : List Nat} {o : SortOut} (h : sortLevel g ends path r = .ok o) :
    ∃ ps : List PS, ps.map (·.item) = path ∧ (∀ p ∈ ps, PSGood g ends p) ∧
      o.path = (bubble PS.downFrom (recyclesBetween g ends) ps r).items.map (·.item) ∧
      o.recycle = (bubble PS.downFrom (recyclesBetween g ends) ps r).recycle ∧
      o.stop = (bubble PS.downFrom (recyclesBetween g ends) ps r).stop := by
  unfold sortLevel at h
  split at h
  · exact absurd h (by simp)
  · rename_i ps hps
    injection h with h; subst h
    exact ⟨ps, (mkPSs_spec hps).1, (mkPSs_spec hps).2, rfl, rfl, rfl⟩

theorem insertFeed_perm (fmass : List Nat) (x : Nat) (l : List Nat) : (insertFeed fmass x l).Perm (x :: l) := by
  induction l with
  | nil => exact List.Perm.refl _
  | cons y ys ih =>
    unfold insertFeed
    split
    · exact List.Perm.refl _
    · exact (ih.cons y).trans (List.Perm.swap x y ys)

theorem insertFeed_sorted (fmass : List Nat) (x : Nat) (l : List Nat)
    (h : l.Pairwise (fun a b => fmass.getD b 0 ≤ fmass.getD a 0)) :
    (insertFeed fmass x l).Pairwise (fun a b => fmass.getD b 0 ≤ fmass.getD a 0) := by
  induction l with
  | nil => simp [insertFeed]
  | cons y ys ih =>
    unfold insertFeed
    have hy := List.pairwise_cons.mp h
    split
    · rename_i hle
      refine List.pairwise_cons.mpr ⟨?_, h⟩
      intro b hb
      rcases List.mem_cons.mp hb with rfl | hb
      · exact hle
      · exact Nat.le_trans (hy.1 b hb) hle
    · rename_i hnle
      refine List.pairwise_cons.mpr ⟨?_, ih hy.2⟩
      intro b hb
      rcases List.mem_cons.mp ((insertFeed_perm fmass x ys).mem_iff.mp hb) with rfl | hb
      · omega
      · exact hy.1 b hb

theorem ok_of_match {α : Type} {e : Except Err α} {P : α → Bool}
    (h : (match e with | .ok a => P a | .error _ => false) = true) : ∃ a, e = .ok a ∧ P a = true := by
  cases e with
  | ok a => exact ⟨a, rfl, h⟩
  | error _ => exact absurd h (by simp)

/-! ## statements moved here from Props/C19 (helpers, general forms, vocabulary of `Holds`) -/

/-- (one level)  `Network.sort` only reorders the path: the items after sorting are a
permutation of the items before ("contains exactly the given units" is preserved by sorting). -/
theorem sortLevel_perm {g : Graph} {ends : List Nat} {path : List Item} {r : List Nat} {o : SortOut} (h : sortLevel g ends path r = .ok o) :
    o.path.Perm path := by
  unfold sortLevel at h
  split at h
  · exact absurd h (by simp)
  · rename_i ps hps
    injection h with h; subst h
    simp only
    rw [← (mkPSs_spec hps).1]
    exact (bubble_perm _ _ ps r).map _

mutual
/-- (whole nested network)  The units of the sorted network, flattened, are a
permutation of the units of the network handed to `sort`, at every nesting depth. -/
theorem sortItem_flat_perm_aux {g : Graph} {ends : List Nat} : ∀ (it : Item) {it' : Item} {w : Nat}, sortItem g ends it = .ok (it', w) → it'.flat.Perm it.flat
  | .unit u, it', w, h => by
    simp only [sortItem] at h
    injection h with h; injection h with h1 h2; subst h1; exact List.Perm.refl _
  | .net p r, it', w, h => by
    unfold sortItem at h
    split at h
    · exact absurd h (by simp)
    · rename_i p' w' hp
      split at h
      · exact absurd h (by simp)
      · rename_i o ho
        injection h with h; injection h with h1 h2; subst h1
        have h1 := sortList_flat_perm p hp
        have h2 := sortLevel_perm ho
        simp only [Item.flat]
        exact (flatList_perm h2).trans h1
theorem sortList_flat_perm {g : Graph} {ends : List Nat} : ∀ (p : List Item) {p' : List Item} {w : Nat}, sortList g ends p = .ok (p', w) → (flatList p').Perm (flatList p)
  | [], p', w, h => by
    simp only [sortList] at h
    injection h with h; injection h with h1 h2; subst h1; exact List.Perm.refl _
  | i :: is, p', w, h => by
    unfold sortList at h
    split at h
    · exact absurd h (by simp)
    · rename_i i' w1 hi
      split at h
      · exact absurd h (by simp)
      · rename_i is' w2 his
        injection h with h; injection h with h1 h2; subst h1
        simp only [flatList]
        exact (sortItem_flat_perm_aux i hi).append (sortList_flat_perm is his)
end

/-- (general form of `dag_no_recycle`)  If no two path items are mutually reachable, `sort` adds
no recycle. -/
theorem dag_no_recycle_items {g : Graph} {ends : List Nat} {path : List Item} {r : List Nat} {o : SortOut}
    (h : sortLevel g ends path r = .ok o)
    (hno : ∀ a b, a ∈ path → b ∈ path → ¬ (ItemDown g ends a b ∧ ItemDown g ends b a)) :
    o.recycle = r := by
  obtain ⟨ps, e0, hgood, _, e2, _⟩ := sortLevel_inv h
  rw [e2]
  apply bubble_recycle
  intro p q hp hq ⟨d1, d2⟩
  refine hno p.item q.item ?_ ?_ ⟨(downFrom_iff (hgood p hp) (hgood q hq)).mp d1, (downFrom_iff (hgood q hq) (hgood p hp)).mp d2⟩
  · rw [← e0]; exact List.mem_map_of_mem hp
  · rw [← e0]; exact List.mem_map_of_mem hq

/-- a stream runs from unit `a` to unit `b` -/
def FlowEdge (g : Graph) (a b : Nat) : Prop := Edge g [] a b

/-- the stream `s` lies on a cycle: it leaves a unit that is its own sink or downstream of its sink -/
def OnCycle (g : Graph) (s : Nat) : Prop :=
  ∃ a b, s ∈ g.outsOf a ∧ g.sinkOf s = some b ∧ (a = b ∨ Reach g [] b a)

theorem onCycleB_sound {g : Graph} {s : Nat} (h : onCycleB g s = true) : OnCycle g s := by
  unfold onCycleB at h
  obtain ⟨a, _, ha⟩ := List.any_eq_true.mp h
  simp only [Bool.and_eq_true] at ha
  obtain ⟨hc, hm⟩ := ha
  cases hk : g.sinkOf s with
  | none => rw [hk] at hm; simp at hm
  | some b =>
    rw [hk] at hm
    simp only [Bool.or_eq_true, beq_iff_eq] at hm
    refine ⟨a, b, List.contains_iff_mem.mp hc, hk, ?_⟩
    rcases hm with h | h
    · exact .inl h
    · exact .inr (reachesB_sound h)

/-- the flowsheet has a cycle -/
def Cyclic (g : Graph) : Prop := ∃ u, Reach g [] u u

/-- `a` and `b` lie inside a common recycle loop: a (sub-)network that carries a recycle contains both -/
def InCommonLoop (p : Item) (a b : Nat) : Prop :=
  ∃ q r, SubNet p q r ∧ r ≠ [] ∧ a ∈ flatList q ∧ b ∈ flatList q

/-- position in the flattened path (first occurrence) -/
def pos (p : Item) (u : Nat) : Nat := p.flat.idxOf u

theorem forward_acyclic {g : Graph} {p : Item} (h : ∀ a b, FlowEdge g a b → pos p a < pos p b) : ¬ Cyclic g := by
  rintro ⟨u, hu⟩
  have : ∀ a b, Reach g [] a b → pos p a < pos p b := by
    intro a b r
    induction r with
    | single e => exact h _ _ e
    | tail _ e ih => exact Nat.lt_trans ih (h _ _ e)
  exact Nat.lt_irrefl _ (this u u hu)

end ThermoVerif.NetSort
