import ThermoVerif.Model.NetSort
/-
Helper lemmas for C19 (model: ThermoVerif/Model/NetSort.lean).  Core Lean only.
-/
namespace ThermoVerif.NetSort
open List

/-! ## Reachability -/

/-- one stream from `u` to `v` that is not in `ends` -/
def Edge (g : Graph) (ends : List Nat) (u v : Nat) : Prop :=
  ∃ s, s ∈ g.outsOf u ∧ s ∉ ends ∧ g.sinkOf s = some v

/-- `v` is downstream of `u`: at least one stream away, never crossing a stream of `ends` -/
def Reach (g : Graph) (ends : List Nat) : Nat → Nat → Prop := Relation.TransGen (Edge g ends)

theorem mem_succs {g : Graph} {ends : List Nat} {u v : Nat} : v ∈ succs g ends u ↔ Edge g ends u v := by
  unfold succs Edge
  rw [List.mem_filterMap]
  constructor
  · rintro ⟨s, hs, h⟩
    by_cases he : s ∈ ends
    · simp [he] at h
    · simp [he] at h
      exact ⟨s, hs, he, h⟩
  · rintro ⟨s, hs, hne, hk⟩
    refine ⟨s, hs, ?_⟩
    simp [hne, hk]

theorem mem_addNew {acc xs : List Nat} {y : Nat} : y ∈ addNew acc xs ↔ y ∈ acc ∨ y ∈ xs := by
  unfold addNew
  induction xs generalizing acc with
  | nil => simp
  | cons x xs ih =>
    simp only [List.foldl_cons]
    rw [ih]
    by_cases hx : x ∈ acc
    · simp only [List.contains_iff_mem, hx, if_true, List.mem_cons]
      constructor
      · rintro (h | h)
        · exact .inl h
        · exact .inr (.inr h)
      · rintro (h | rfl | h)
        · exact .inl h
        · exact .inl hx
        · exact .inr h
    · simp only [List.contains_iff_mem, hx, if_false, List.mem_append, List.mem_cons, List.mem_singleton,
        List.not_mem_nil, or_false]
      constructor
      · rintro ((h | rfl) | h)
        · exact .inl h
        · exact .inr (.inl rfl)
        · exact .inr (.inr h)
      · rintro (h | rfl | h)
        · exact .inl (.inl h)
        · exact .inl (.inr rfl)
        · exact .inr h

theorem subset_closeN (g : Graph) (ends : List Nat) (k : Nat) (S : List Nat) {x : Nat} (h : x ∈ S) :
    x ∈ closeN g ends k S := by
  induction k generalizing S with
  | zero => exact h
  | succ k ih => exact ih _ (mem_addNew.mpr (.inl h))

theorem closeN_sound (g : Graph) (ends : List Nat) (P : Nat → Prop)
    (hP : ∀ v w, P v → Edge g ends v w → P w) (k : Nat) (S : List Nat) (hS : ∀ x ∈ S, P x) :
    ∀ x ∈ closeN g ends k S, P x := by
  induction k generalizing S with
  | zero => exact hS
  | succ k ih =>
    apply ih
    intro x hx
    rcases mem_addNew.mp hx with h | h
    · exact hS x h
    · obtain ⟨v, hv, hxv⟩ := List.mem_flatMap.mp h
      exact hP v x (hS v hv) (mem_succs.mp hxv)

theorem isClosed_spec {g : Graph} {ends : List Nat} {S : List Nat} (h : isClosed g ends S = true)
    {v w : Nat} (hv : v ∈ S) (e : Edge g ends v w) : w ∈ S := by
  unfold isClosed at h
  have := List.all_eq_true.mp h v hv
  have := List.all_eq_true.mp this w (mem_succs.mpr e)
  exact List.contains_iff_mem.mp this

/-- `downstreamOf` computes exactly the units downstream of `us`. -/
theorem downstreamOf_spec {g : Graph} {ends us S : List Nat} (h : downstreamOf g ends us = .ok S) (v : Nat) :
    v ∈ S ↔ ∃ u, u ∈ us ∧ Reach g ends u v := by
  unfold downstreamOf at h
  simp only at h
  split at h
  · rename_i hc
    injection h with h
    subst h
    constructor
    · intro hv
      refine closeN_sound g ends (fun x => ∃ u, u ∈ us ∧ Reach g ends u x) ?_ g.n _ ?_ v hv
      · rintro a b ⟨u, hu, r⟩ e
        exact ⟨u, hu, Relation.TransGen.tail r e⟩
      · intro x hx
        rcases mem_addNew.mp hx with h | h
        · exact absurd h List.not_mem_nil
        · obtain ⟨u, hu, hxu⟩ := List.mem_flatMap.mp h
          exact ⟨u, hu, Relation.TransGen.single (mem_succs.mp hxu)⟩
    · rintro ⟨u, hu, r⟩
      induction r with
      | single e =>
        apply subset_closeN
        exact mem_addNew.mpr (.inr (List.mem_flatMap.mpr ⟨u, hu, mem_succs.mpr e⟩))
      | tail _ e ih => exact isClosed_spec hc ih e
  · exact absurd h (by simp)

/-! ## The bubble loop of `Network.sort` (generic in the item type) -/

section Bubble
variable {α : Type} (down : α → α → Bool) (recy : α → α → List Nat)

theorem findFrom_some {p : α → Bool} {l : List α} {start k j : Nat} (h : findFrom p l start k = some j) :
    k ≤ j ∧ start ≤ j ∧ (∃ x, l[j - k]? = some x ∧ p x = true) ∧
      ∀ i x, start ≤ k + i → k + i < j → l[i]? = some x → p x = false := by
  induction l generalizing k with
  | nil => simp [findFrom] at h
  | cons y ys ih =>
    unfold findFrom at h
    split at h
    · rename_i hc
      injection h with h
      subst h
      simp only [Bool.and_eq_true, decide_eq_true_eq] at hc
      refine ⟨Nat.le_refl _, hc.1, ⟨y, by simp, hc.2⟩, ?_⟩
      intro i x _ h2; omega
    · rename_i hc
      obtain ⟨h1, h2, ⟨x, hx, hpx⟩, h4⟩ := ih h
      refine ⟨by omega, h2, ⟨x, ?_, hpx⟩, ?_⟩
      · have : j - k = (j - (k + 1)) + 1 := by omega
        rw [this]; simpa using hx
      · intro i x hs hlt hix
        cases i with
        | zero =>
          simp at hix; subst hix
          simp only [Bool.and_eq_true, decide_eq_true_eq, not_and, Bool.not_eq_true] at hc
          exact hc (by omega)
        | succ i =>
          simp at hix
          exact h4 i x (by omega) (by omega) hix

theorem findFrom_none {p : α → Bool} {l : List α} {start k : Nat} (h : findFrom p l start k = none) :
    ∀ i x, start ≤ k + i → l[i]? = some x → p x = false := by
  induction l generalizing k with
  | nil => intro i x _ hx; simp at hx
  | cons y ys ih =>
    unfold findFrom at h
    split at h
    · exact absurd h (by simp)
    · rename_i hc
      intro i x hs hix
      cases i with
      | zero =>
        simp at hix; subst hix
        simp only [Bool.and_eq_true, decide_eq_true_eq, not_and, Bool.not_eq_true] at hc
        exact hc (by omega)
      | succ i =>
        simp at hix
        exact ih h i x (by omega) hix

theorem cons_eraseIdx_perm {l : List α} {j : Nat} {x : α} (h : l[j]? = some x) : (x :: l.eraseIdx j).Perm l := by
  induction l generalizing j with
  | nil => simp at h
  | cons y ys ih =>
    cases j with
    | zero => simp at h; subst h; simp
    | succ j =>
      simp at h
      simp only [List.eraseIdx_cons_succ]
      exact (List.Perm.swap y x _).trans ((ih h).cons y)

theorem move_perm {l : List α} {i j : Nat} {x : α} (h : l[j]? = some x) (hij : i ≤ j) :
    ((l.eraseIdx j).insertIdx i x).Perm l := by
  have hj : j < l.length := by
    rcases Nat.lt_or_ge j l.length with h' | h'
    · exact h'
    · rw [List.getElem?_eq_none h'] at h; exact absurd h (by simp)
  have hlen : i ≤ (l.eraseIdx j).length := by
    rw [List.length_eraseIdx]; simp [hj]; omega
  exact (List.perm_insertIdx x _ hlen).trans (cons_eraseIdx_perm h)

/-- A step of the inner loop either leaves the state alone, or adds recycles for a mutually
reachable pair (clearing `stop`), or moves one item forward (clearing `stop`). -/
theorem passStep_cases (st : BState α) (i : Nat) :
    passStep down recy st i = st ∨
    (∃ up dn, up ∈ st.items ∧ dn ∈ st.items ∧ down up dn = true ∧ down dn up = true ∧
        passStep down recy st i = { st with recycle := addRecycles st.recycle (recy up dn), stop := false }) ∨
    (∃ j dn, st.items[j]? = some dn ∧ i ≤ j ∧
        passStep down recy st i = { st with items := (st.items.eraseIdx j).insertIdx i dn, stop := false }) := by
  unfold passStep
  split
  · exact .inl rfl
  · rename_i up hup
    split
    · exact .inl rfl
    · rename_i j hj
      split
      · exact .inl rfl
      · rename_i dn hdn
        obtain ⟨_, hs, ⟨x, hx, hpx⟩, _⟩ := findFrom_some hj
        simp only [Nat.sub_zero] at hx
        rw [hdn] at hx; injection hx with hx; subst hx
        split
        · rename_i hmut
          simp only
          split
          · exact .inl rfl
          · exact .inr (.inl ⟨up, dn, List.mem_of_getElem? hup, List.mem_of_getElem? hdn, hpx, hmut, rfl⟩)
        · exact .inr (.inr ⟨j, dn, hdn, by omega, rfl⟩)

/-- Invariant of every step: the items stay a permutation. -/
theorem passStep_perm (st : BState α) (i : Nat) : (passStep down recy st i).items.Perm st.items := by
  rcases passStep_cases down recy st i with h | ⟨_, _, _, _, _, _, h⟩ | ⟨j, dn, hj, hij, h⟩
  · rw [h]
  · rw [h]
  · rw [h]; exact move_perm hj hij

theorem foldl_passStep_perm (st : BState α) (is : List Nat) :
    (is.foldl (passStep down recy) st).items.Perm st.items := by
  induction is generalizing st with
  | nil => exact List.Perm.refl _
  | cons i is ih => exact (ih _).trans (passStep_perm down recy st i)

theorem onePass_perm (items : List α) (r : List Nat) : (onePass down recy items r).items.Perm items :=
  foldl_passStep_perm down recy _ _

theorem passes_perm (k : Nat) (st : BState α) : (passes down recy k st).items.Perm st.items := by
  induction k generalizing st with
  | zero => exact List.Perm.refl _
  | succ k ih =>
    unfold passes
    simp only
    split
    · exact onePass_perm down recy _ _
    · exact (ih _).trans (onePass_perm down recy _ _)

theorem bubble_perm (items : List α) (r : List Nat) : (bubble down recy items r).items.Perm items :=
  passes_perm down recy _ _

/-! ### no mutually reachable pair ⇒ no recycle is added -/

def NoMutual (l : List α) : Prop := ∀ a b, a ∈ l → b ∈ l → ¬ (down a b = true ∧ down b a = true)

theorem NoMutual.perm {l l' : List α} (h : NoMutual down l) (p : l'.Perm l) : NoMutual down l' :=
  fun a b ha hb => h a b (p.mem_iff.mp ha) (p.mem_iff.mp hb)

theorem passStep_recycle (st : BState α) (i : Nat) (h : NoMutual down st.items) :
    (passStep down recy st i).recycle = st.recycle := by
  rcases passStep_cases down recy st i with e | ⟨up, dn, hu, hd, h1, h2, _⟩ | ⟨j, dn, _, _, e⟩
  · rw [e]
  · exact absurd ⟨h1, h2⟩ (h up dn hu hd)
  · rw [e]

theorem foldl_passStep_recycle (st : BState α) (is : List Nat) (h : NoMutual down st.items) :
    (is.foldl (passStep down recy) st).recycle = st.recycle := by
  induction is generalizing st with
  | nil => rfl
  | cons i is ih =>
    simp only [List.foldl_cons]
    rw [ih _ (h.perm down (passStep_perm down recy st i)), passStep_recycle down recy st i h]

theorem passes_recycle (k : Nat) (st : BState α) (h : NoMutual down st.items) :
    (passes down recy k st).recycle = st.recycle := by
  induction k generalizing st with
  | zero => rfl
  | succ k ih =>
    unfold passes
    simp only
    have h1 : (onePass down recy st.items st.recycle).recycle = st.recycle :=
      foldl_passStep_recycle down recy _ _ h
    split
    · exact h1
    · rw [ih _ (h.perm down (onePass_perm down recy _ _)), h1]

theorem bubble_recycle (items : List α) (r : List Nat) (h : NoMutual down items) :
    (bubble down recy items r).recycle = r :=
  passes_recycle down recy _ _ h

/-! ### a clean exit (`stop = true`) -/

/-- position `i` gave the pass nothing to do: the first later item that `l[i]` is downstream of
(if any) is itself downstream of `l[i]` (mutual reachability for which no recycle was found) -/
def Quiet (l : List α) (i : Nat) : Prop :=
  ∀ up, l[i]? = some up →
    match findFrom (fun d => down up d) l (i + 1) 0 with
    | none => True
    | some j => ∃ dn, l[j]? = some dn ∧ down dn up = true

theorem passStep_stop (st : BState α) (i : Nat) (h : (passStep down recy st i).stop = true) :
    passStep down recy st i = st ∧ Quiet down st.items i := by
  unfold passStep at h ⊢
  unfold Quiet
  split at h
  · rename_i hn
    refine ⟨by simp [hn], ?_⟩
    intro up hup; rw [hn] at hup; exact absurd hup (by simp)
  · rename_i up hup
    simp only [hup]
    split at h
    · rename_i hf
      refine ⟨by simp [hf], ?_⟩
      intro up' hup'; injection hup' with e; subst e; simp [hf]
    · rename_i j hj
      try simp only [hj]
      split at h
      · rename_i hn
        obtain ⟨_, _, ⟨x, hx, _⟩, _⟩ := findFrom_some hj
        simp only [Nat.sub_zero] at hx
        rw [hn] at hx; exact absurd hx (by simp)
      · rename_i dn hdn
        try simp only [hdn]
        split at h
        · rename_i hmut
          simp only at h
          split at h
          · rename_i he
            refine ⟨by simp [hmut, he], ?_⟩
            intro up' hup'; injection hup' with e; subst e
            simp only [hj]
            exact ⟨dn, hdn, hmut⟩
          · simp at h
        · simp at h

theorem passStep_stop_mono (st : BState α) (i : Nat) (h : (passStep down recy st i).stop = true) : st.stop = true := by
  rw [(passStep_stop down recy st i h).1] at h; exact h

theorem foldl_passStep_stop (st : BState α) (is : List Nat) (h : (is.foldl (passStep down recy) st).stop = true) :
    is.foldl (passStep down recy) st = st ∧ ∀ i ∈ is, Quiet down st.items i := by
  induction is generalizing st with
  | nil => exact ⟨rfl, fun _ hi => absurd hi List.not_mem_nil⟩
  | cons i is ih =>
    simp only [List.foldl_cons] at h ⊢
    obtain ⟨e1, q1⟩ := ih _ h
    have hs : (passStep down recy st i).stop = true := by rw [e1] at h; exact h
    obtain ⟨e2, q2⟩ := passStep_stop down recy st i hs
    refine ⟨by rw [e1, e2], ?_⟩
    intro k hk
    rcases List.mem_cons.mp hk with rfl | hk
    · exact q2
    · have := q1 k hk; rw [e2] at this; exact this

/-- In `l`, whenever an item is downstream of a later one, some later item at or before it is
mutually reachable with it. -/
def SortedUpToMutual (l : List α) : Prop :=
  ∀ (i j : Nat) (a b : α), i < j → l[i]? = some a → l[j]? = some b → down a b = true →
    ∃ (j' : Nat) (c : α), i < j' ∧ j' ≤ j ∧ l[j']? = some c ∧ down a c = true ∧ down c a = true

theorem sorted_of_quiet {l : List α} (h : ∀ i, i < l.length - 1 → Quiet down l i) : SortedUpToMutual down l := by
  intro i j a b hij ha hb hd
  have hj : j < l.length := by
    rcases Nat.lt_or_ge j l.length with h' | h'
    · exact h'
    · rw [List.getElem?_eq_none h'] at hb; exact absurd hb (by simp)
  have q := h i (by omega) a ha
  split at q
  · rename_i hf
    have := findFrom_none hf j b (by omega) hb
    rw [hd] at this; exact absurd this (by simp)
  · rename_i j' hf
    obtain ⟨dn, hdn, hmut⟩ := q
    obtain ⟨_, hs, ⟨x, hx, hpx⟩, hfirst⟩ := findFrom_some hf
    simp only [Nat.sub_zero] at hx
    rw [hdn] at hx; injection hx with hx; subst hx
    refine ⟨j', dn, by omega, ?_, hdn, hpx, hmut⟩
    rcases Nat.lt_or_ge j j' with hlt | hge
    · have := hfirst j b (by omega) (by omega) hb
      rw [hd] at this; exact absurd this (by simp)
    · exact hge

theorem onePass_stop (items : List α) (r : List Nat) (h : (onePass down recy items r).stop = true) :
    (onePass down recy items r).items = items ∧ (onePass down recy items r).recycle = r ∧
      SortedUpToMutual down items := by
  unfold onePass at h ⊢
  obtain ⟨e, q⟩ := foldl_passStep_stop down recy _ _ h
  rw [e]
  refine ⟨rfl, rfl, sorted_of_quiet down ?_⟩
  intro i hi
  exact q i (List.mem_range.mpr hi)

theorem passes_stop (k : Nat) (st : BState α) (hk : 0 < k) (h : (passes down recy k st).stop = true) :
    SortedUpToMutual down (passes down recy k st).items := by
  induction k generalizing st with
  | zero => exact absurd hk (Nat.lt_irrefl 0)
  | succ k ih =>
    unfold passes at h ⊢
    simp only at h ⊢
    split
    · rename_i hs
      obtain ⟨e, _, s⟩ := onePass_stop down recy _ _ hs
      rw [e]; exact s
    · rename_i hs
      simp only [hs] at h
      cases k with
      | zero => unfold passes at h; exact absurd h hs
      | succ k => exact ih _ (Nat.succ_pos k) h

/-- `Network.sort` left without the warning: the path is sorted up to mutual reachability. -/
theorem bubble_stop (items : List α) (r : List Nat) (h : (bubble down recy items r).stop = true) :
    SortedUpToMutual down (bubble down recy items r).items := by
  unfold bubble at h ⊢
  simp only at h ⊢
  cases items with
  | nil =>
    simp only [List.length_nil, Nat.mul_zero, passes]
    intro i j a b _ ha; simp at ha
  | cons x xs =>
    apply passes_stop down recy _ _ _ h
    simp

end Bubble

/-! ## Path sources -/

/-- item `a` is downstream of item `b`: some unit of `a` is reachable from some unit of `b`
(`PathSource(a).downstream_from(PathSource(b))`) -/
def ItemDown (g : Graph) (ends : List Nat) (a b : Item) : Prop :=
  ∃ m, m ∈ a.flat ∧ ∃ u, u ∈ b.flat ∧ Reach g ends u m

/-- what `PathSource.__init__` establishes -/
def PSGood (g : Graph) (ends : List Nat) (p : PS) : Prop :=
  p.members = p.item.flat ∧ ∀ v, v ∈ p.reach ↔ ∃ u, u ∈ p.members ∧ Reach g ends u v

theorem mkPS_spec {g : Graph} {ends : List Nat} {it : Item} {p : PS} (h : mkPS g ends it = .ok p) :
    p.item = it ∧ PSGood g ends p := by
  unfold mkPS at h
  split at h
  · exact absurd h (by simp)
  · rename_i r hr
    injection h with h; subst h
    exact ⟨rfl, rfl, fun v => downstreamOf_spec hr v⟩

theorem mkPSs_spec {g : Graph} {ends : List Nat} {path : List Item} {ps : List PS} (h : mkPSs g ends path = .ok ps) :
    ps.map (·.item) = path ∧ ∀ p ∈ ps, PSGood g ends p := by
  induction path generalizing ps with
  | nil => unfold mkPSs at h; injection h with h; subst h; simp
  | cons i is ih =>
    unfold mkPSs at h
    split at h
    · exact absurd h (by simp)
    · rename_i p hp
      split at h
      · exact absurd h (by simp)
      · rename_i ps' hps
        injection h with h; subst h
        obtain ⟨e1, g1⟩ := mkPS_spec hp
        obtain ⟨e2, g2⟩ := ih hps
        refine ⟨by simp [e1, e2], ?_⟩
        intro q hq
        rcases List.mem_cons.mp hq with rfl | hq
        · exact g1
        · exact g2 q hq

theorem downFrom_iff {g : Graph} {ends : List Nat} {p q : PS} (hp : PSGood g ends p) (hq : PSGood g ends q) :
    p.downFrom q = true ↔ ItemDown g ends p.item q.item := by
  unfold PS.downFrom ItemDown
  rw [List.any_eq_true, ← hp.1, ← hq.1]
  constructor
  · rintro ⟨m, hm, hc⟩
    exact ⟨m, hm, (hq.2 m).mp (List.contains_iff_mem.mp hc)⟩
  · rintro ⟨m, hm, hu⟩
    exact ⟨m, hm, List.contains_iff_mem.mpr ((hq.2 m).mpr hu)⟩

theorem getElem?_map_item {l : List PS} {i : Nat} {a : Item} (h : (l.map (·.item))[i]? = some a) :
    ∃ p, l[i]? = some p ∧ p.item = a := by
  rw [List.getElem?_map] at h
  cases hl : l[i]? with
  | none => rw [hl] at h; exact absurd h (by simp)
  | some p => rw [hl] at h; exact ⟨p, rfl, by simpa using h⟩

theorem flatList_perm {l₁ l₂ : List Item} (h : l₁.Perm l₂) : (flatList l₁).Perm (flatList l₂) := by
  induction h with
  | nil => exact List.Perm.refl _
  | cons x _ ih => simp only [flatList]; exact ih.append_left _
  | swap x y l =>
    simp only [flatList]
    rw [← List.append_assoc, ← List.append_assoc]
    exact List.perm_append_comm.append_right _
  | trans _ _ ih1 ih2 => exact ih1.trans ih2

theorem mem_flatList {l : List Item} {u : Nat} : u ∈ flatList l ↔ ∃ it, it ∈ l ∧ u ∈ it.flat := by
  induction l with
  | nil => simp [flatList]
  | cons i is ih =>
    simp only [flatList, List.mem_append, ih, List.mem_cons]
    constructor
    · rintro (h | ⟨it, hit, hu⟩)
      · exact ⟨i, .inl rfl, h⟩
      · exact ⟨it, .inr hit, hu⟩
    · rintro ⟨it, rfl | hit, hu⟩
      · exact .inl hu
      · exact .inr ⟨it, hit, hu⟩

theorem sortList_units {g : Graph} {ends : List Nat} {p : List Item} (h : ∀ it ∈ p, ∃ u, it = .unit u) :
    sortList g ends p = .ok (p, 0) := by
  induction p with
  | nil => rfl
  | cons i is ih =>
    obtain ⟨u, rfl⟩ := h _ (List.mem_cons_self ..)
    unfold sortList
    simp only [sortItem]
    rw [ih (fun it hit => h it (List.mem_cons_of_mem _ hit))]

/-! ## Acyclicity, decidably -/

/-- no unit is in its own (exactly computed) downstream set -/
def acyclicB (g : Graph) (ends : List Nat) : Bool :=
  (List.range g.outs.length).all fun u =>
    match downstreamOf g ends [u] with
    | .ok S => !S.contains u
    | .error _ => false

theorem Reach.first_edge {g : Graph} {ends : List Nat} {u w : Nat} (h : Reach g ends u w) : ∃ v, Edge g ends u v := by
  induction h with
  | single e => exact ⟨_, e⟩
  | tail _ _ ih => exact ih

theorem acyclic_of_acyclicB {g : Graph} {ends : List Nat} (h : acyclicB g ends = true) : ∀ u, ¬ Reach g ends u u := by
  intro u hr
  by_cases hu : u < g.outs.length
  · have := List.all_eq_true.mp h u (List.mem_range.mpr hu)
    split at this
    · rename_i S hS
      have hn : u ∉ S := by
        intro hm
        have := List.contains_iff_mem.mpr hm
        simp_all
      exact hn ((downstreamOf_spec hS u).mpr ⟨u, by simp, hr⟩)
    · exact absurd this (by simp)
  · obtain ⟨v, s, hs, _⟩ := hr.first_edge
    unfold Graph.outsOf at hs
    rw [List.getD_eq_getElem?_getD, List.getElem?_eq_none (by omega)] at hs
    simp at hs

/-! ## The depth-first walk `fill_path` -/

/-- `u` appears in some returned path -/
def DfsSt.cov (st : DfsSt) (u : Nat) : Prop :=
  (∃ p, p ∈ st.without ∧ u ∈ p) ∨ (∃ p r, (p, r) ∈ st.withR ∧ u ∈ p)

/-- the walk has dealt with stream `s`: it is an end, or leaves the unit set, or its sink is covered -/
def Target (g : Graph) (units : List Nat) (st : DfsSt) (s : Nat) : Prop :=
  s ∈ st.ends ∨ (∀ v, g.sinkOf s = some v → v ∉ units) ∨ (∃ v, g.sinkOf s = some v ∧ st.cov v)

/-- every outlet of `u` has been dealt with -/
def Good (g : Graph) (units : List Nat) (st : DfsSt) (u : Nat) : Prop :=
  ∀ o, o ∈ g.outsOf u → Target g units st o

theorem cov_addWithout {st : DfsSt} {p : List Nat} {u : Nat} : (st.addWithout p).cov u ↔ st.cov u ∨ u ∈ p := by
  unfold DfsSt.cov DfsSt.addWithout
  simp only [List.mem_append, List.mem_singleton]
  constructor
  · rintro (⟨q, hq | rfl, hu⟩ | h)
    · exact .inl (.inl ⟨q, hq, hu⟩)
    · exact .inr hu
    · exact .inl (.inr h)
  · rintro ((⟨q, hq, hu⟩ | h) | hu)
    · exact .inl ⟨q, .inl hq, hu⟩
    · exact .inr h
    · exact .inl ⟨p, .inr rfl, hu⟩

theorem cov_addRecycle {st : DfsSt} {p : List Nat} {f u : Nat} : (st.addRecycle p f).cov u ↔ st.cov u ∨ u ∈ p := by
  unfold DfsSt.cov DfsSt.addRecycle
  simp only [List.mem_append, List.mem_singleton]
  constructor
  · rintro (h | ⟨q, r, hq | hq, hu⟩)
    · exact .inl (.inl h)
    · exact .inl (.inr ⟨q, r, hq, hu⟩)
    · injection hq with h1 h2; subst h1; exact .inr hu
  · rintro ((h | ⟨q, r, hq, hu⟩) | hu)
    · exact .inl h
    · exact .inr ⟨q, r, .inl hq, hu⟩
    · exact .inr ⟨p, f, .inr rfl, hu⟩

/-- how a (sequence of) call(s) with current path `path` changes the walk's state -/
structure Step (g : Graph) (units : List Nat) (path : List Nat) (st st' : DfsSt) : Prop where
  monoC : ∀ u, st.cov u → st'.cov u
  monoE : ∀ s, s ∈ st.ends → s ∈ st'.ends
  newCov : ∀ u, st'.cov u → st.cov u ∨ u ∈ path ∨ Good g units st' u
  newEnds : ∀ s, s ∈ st'.ends → s ∈ st.ends ∨ ∃ v, g.sinkOf s = some v ∧ st'.cov v

theorem Target.mono {g : Graph} {units : List Nat} {st st' : DfsSt} {s : Nat} (h : Target g units st s)
    (hc : ∀ u, st.cov u → st'.cov u) (he : ∀ s, s ∈ st.ends → s ∈ st'.ends) : Target g units st' s := by
  rcases h with h | h | ⟨v, hv, hcv⟩
  · exact .inl (he s h)
  · exact .inr (.inl h)
  · exact .inr (.inr ⟨v, hv, hc v hcv⟩)

theorem Good.mono {g : Graph} {units : List Nat} {st st' : DfsSt} {u : Nat} (h : Good g units st u)
    (hc : ∀ u, st.cov u → st'.cov u) (he : ∀ s, s ∈ st.ends → s ∈ st'.ends) : Good g units st' u :=
  fun o ho => (h o ho).mono hc he

theorem Step.refl (g : Graph) (units path : List Nat) (st : DfsSt) : Step g units path st st :=
  ⟨fun _ h => h, fun _ h => h, fun _ h => .inl h, fun _ h => .inl h⟩

theorem Step.trans {g : Graph} {units path : List Nat} {st st1 st2 : DfsSt}
    (a : Step g units path st st1) (b : Step g units path st1 st2) : Step g units path st st2 := by
  refine ⟨fun u h => b.monoC u (a.monoC u h), fun s h => b.monoE s (a.monoE s h), ?_, ?_⟩
  · intro u h
    rcases b.newCov u h with h | h | h
    · rcases a.newCov u h with h | h | h
      · exact .inl h
      · exact .inr (.inl h)
      · exact .inr (.inr (h.mono b.monoC b.monoE))
    · exact .inr (.inl h)
    · exact .inr (.inr h)
  · intro s h
    rcases b.newEnds s h with h | h
    · rcases a.newEnds s h with h | ⟨v, hv, hc⟩
      · exact .inl h
      · exact .inr ⟨v, hv, b.monoC v hc⟩
    · exact .inr h

/-- appending the current path to `paths_without_recycle` -/
theorem Step.addWithout (g : Graph) (units path : List Nat) (st : DfsSt) :
    Step g units path st (st.addWithout path) := by
  refine ⟨fun u h => cov_addWithout.mpr (.inl h), fun _ h => h, ?_, fun _ h => .inl h⟩
  intro u h
  rcases cov_addWithout.mp h with h | h
  · exact .inl h
  · exact .inr (.inl h)

section Dfs
variable {g : Graph} {units : List Nat}

/-- the loop over the other outlets -/
theorem foldlM_spec (fuel : Nat) (path : List Nat)
    (ih : ∀ feed st st', fillPath g units fuel feed path st = .ok st' →
      Step g units path st st' ∧ (∀ u, u ∈ path → st'.cov u) ∧ Target g units st' feed)
    (os : List Nat) (st st' : DfsSt)
    (h : os.foldlM (fun st o => fillPath g units fuel o path st) st = .ok st') :
    Step g units path st st' ∧ ∀ o, o ∈ os → Target g units st' o := by
  induction os generalizing st with
  | nil =>
    simp only [List.foldlM_nil, pure, Except.pure] at h
    injection h with h; subst h
    exact ⟨Step.refl .., fun _ ho => absurd ho List.not_mem_nil⟩
  | cons o os ihos =>
    simp only [List.foldlM_cons, bind, Except.bind] at h
    split at h
    · exact absurd h (by simp)
    · rename_i st1 h1
      obtain ⟨s1, _, t1⟩ := ih o st st1 h1
      obtain ⟨s2, t2⟩ := ihos st1 h
      refine ⟨s1.trans s2, ?_⟩
      intro o' ho'
      rcases List.mem_cons.mp ho' with rfl | ho'
      · exact t1.mono s2.monoC s2.monoE
      · exact t2 o' ho'

theorem fillPath_spec (hout : ∀ u, u ∈ units → g.outsOf u ≠ []) (fuel : Nat) :
    ∀ (feed : Nat) (path : List Nat) (st st' : DfsSt), fillPath g units fuel feed path st = .ok st' →
      Step g units path st st' ∧ (∀ u, u ∈ path → st'.cov u) ∧ Target g units st' feed := by
  induction fuel with
  | zero => intro feed path st st' h; simp [fillPath] at h
  | succ fuel ih =>
    intro feed path st st' h
    have fin : ∀ (T : Target g units (st.addWithout path) feed), st' = st.addWithout path →
        Step g units path st st' ∧ (∀ u, u ∈ path → st'.cov u) ∧ Target g units st' feed := by
      intro T e; subst e
      exact ⟨Step.addWithout .., fun u hu => cov_addWithout.mpr (.inr hu), T⟩
    unfold fillPath at h
    split at h
    · rename_i hk
      injection h with h
      exact fin (.inr (.inl (fun v hv => by rw [hk] at hv; exact absurd hv (by simp)))) h.symm
    · rename_i unit hk
      split at h
      · rename_i hnu
        injection h with h
        refine fin (.inr (.inl (fun v hv => ?_))) h.symm
        rw [hk] at hv; injection hv with hv; subst hv
        intro hm
        have := List.contains_iff_mem.mpr hm
        simp_all
      · rename_i hin
        have hunit : unit ∈ units := by
          have : units.contains unit = true := by simpa using hin
          exact List.contains_iff_mem.mp this
        split at h
        · rename_i he
          injection h with h
          exact fin (.inl (List.contains_iff_mem.mp he)) h.symm
        · rename_i hne
          split at h
          · rename_i hip
            have hup : unit ∈ path := List.contains_iff_mem.mp hip
            have hrec : st' = st.addRecycle path feed →
                Step g units path st st' ∧ (∀ u, u ∈ path → st'.cov u) ∧ Target g units st' feed := by
              intro e; subst e
              refine ⟨⟨fun u h => cov_addRecycle.mpr (.inl h), fun s h => ?_, ?_, ?_⟩,
                fun u hu => cov_addRecycle.mpr (.inr hu), .inl ?_⟩
              · simp only [DfsSt.addRecycle, List.mem_append]; exact .inl h
              · intro u h
                rcases cov_addRecycle.mp h with h | h
                · exact .inl h
                · exact .inr (.inl h)
              · intro s h
                simp only [DfsSt.addRecycle, List.mem_append, List.mem_singleton] at h
                rcases h with h | rfl
                · exact .inl h
                · exact .inr ⟨unit, hk, cov_addRecycle.mpr (.inr hup)⟩
              · simp [DfsSt.addRecycle]
            split at h
            · split at h
              · injection h with h
                exact fin (.inr (.inr ⟨unit, hk, cov_addWithout.mpr (.inr hup)⟩)) h.symm
              · injection h with h; exact hrec h.symm
            · injection h with h; exact hrec h.symm
          · rename_i hnp
            simp only at h
            split at h
            · rename_i ho
              exact absurd ho (hout unit hunit)
            · rename_i first others ho
              split at h
              · exact absurd h (by simp)
              · rename_i st1 h1
                obtain ⟨s1, t1⟩ := foldlM_spec fuel (path ++ [unit]) (fun f a b => ih f (path ++ [unit]) a b) others st st1 h1
                obtain ⟨s2, c2, t2⟩ := ih first (path ++ [unit]) st1 st' h
                have s := s1.trans s2
                have gunit : Good g units st' unit := by
                  intro o hoo
                  rw [ho] at hoo
                  rcases List.mem_cons.mp hoo with rfl | hoo
                  · exact t2
                  · exact (t1 o hoo).mono s2.monoC s2.monoE
                refine ⟨⟨s.monoC, s.monoE, ?_, s.newEnds⟩, fun u hu => c2 u (List.mem_append_left _ hu),
                  .inr (.inr ⟨unit, hk, c2 unit (by simp)⟩)⟩
                intro u hu
                rcases s.newCov u hu with h | h | h
                · exact .inl h
                · rcases List.mem_append.mp h with h | h
                  · exact .inr (.inl h)
                  · simp only [List.mem_singleton] at h; subst h; exact .inr (.inr gunit)
                · exact .inr (.inr h)

/-- the walk's current path really is a path of the flowsheet: `feed` leaves its last unit, and
every unit of it reaches the last one without crossing the initial ends `E0` -/
def PathOK (g : Graph) (E0 : List Nat) (feed : Nat) (path : List Nat) : Prop :=
  ∀ a, path.getLast? = some a → feed ∈ g.outsOf a ∧ ∀ v, v ∈ path → v = a ∨ Reach g E0 v a

/-- the closing stream of `(p, r)` closes a real cycle -/
def RealCycle (g : Graph) (E0 : List Nat) (p : List Nat) (r : Nat) : Prop :=
  ∃ v, g.sinkOf r = some v ∧ v ∈ p ∧ Reach g E0 v v

theorem reach_via_feed {E0 : List Nat} {feed unit : Nat} {path : List Nat} {ends : List Nat}
    (hE : ∀ s, s ∈ E0 → s ∈ ends) (hne : feed ∉ ends) (hk : g.sinkOf feed = some unit)
    (hp : PathOK g E0 feed path) {v : Nat} (hv : v ∈ path) : Reach g E0 v unit := by
  have hnn : path ≠ [] := List.ne_nil_of_mem hv
  obtain ⟨a, ha⟩ : ∃ a, path.getLast? = some a := ⟨path.getLast hnn, List.getLast?_eq_some_getLast hnn⟩
  obtain ⟨hf, hr⟩ := hp a ha
  have e : Edge g E0 a unit := ⟨feed, hf, fun h => hne (hE _ h), hk⟩
  rcases hr v hv with rfl | h
  · exact Relation.TransGen.single e
  · exact Relation.TransGen.tail h e

theorem foldlM_cycles (E0 : List Nat) (fuel : Nat) (path : List Nat)
    (ih : ∀ feed st st', (∀ s, s ∈ E0 → s ∈ st.ends) → PathOK g E0 feed path →
      fillPath g units fuel feed path st = .ok st' →
      (∀ s, s ∈ E0 → s ∈ st'.ends) ∧ ∀ p r, (p, r) ∈ st'.withR → (p, r) ∈ st.withR ∨ RealCycle g E0 p r)
    (os : List Nat) (hos : ∀ o, o ∈ os → PathOK g E0 o path) (st st' : DfsSt) (hE : ∀ s, s ∈ E0 → s ∈ st.ends)
    (h : os.foldlM (fun st o => fillPath g units fuel o path st) st = .ok st') :
    (∀ s, s ∈ E0 → s ∈ st'.ends) ∧ ∀ p r, (p, r) ∈ st'.withR → (p, r) ∈ st.withR ∨ RealCycle g E0 p r := by
  induction os generalizing st with
  | nil =>
    simp only [List.foldlM_nil, pure, Except.pure] at h
    injection h with h; subst h
    exact ⟨hE, fun _ _ h => .inl h⟩
  | cons o os ihos =>
    simp only [List.foldlM_cons, bind, Except.bind] at h
    split at h
    · exact absurd h (by simp)
    · rename_i st1 h1
      obtain ⟨e1, c1⟩ := ih o st st1 hE (hos o (List.mem_cons_self ..)) h1
      obtain ⟨e2, c2⟩ := ihos (fun o' ho' => hos o' (List.mem_cons_of_mem _ ho')) st1 e1 h
      refine ⟨e2, fun p r hpr => ?_⟩
      rcases c2 p r hpr with h | h
      · exact c1 p r h
      · exact .inr h

theorem fillPath_cycles (E0 : List Nat) (fuel : Nat) :
    ∀ (feed : Nat) (path : List Nat) (st st' : DfsSt), (∀ s, s ∈ E0 → s ∈ st.ends) → PathOK g E0 feed path →
      fillPath g units fuel feed path st = .ok st' →
      (∀ s, s ∈ E0 → s ∈ st'.ends) ∧ ∀ p r, (p, r) ∈ st'.withR → (p, r) ∈ st.withR ∨ RealCycle g E0 p r := by
  induction fuel with
  | zero => intro feed path st st' _ _ h; simp [fillPath] at h
  | succ fuel ih =>
    intro feed path st st' hE hp h
    have fin : st' = st.addWithout path →
        (∀ s, s ∈ E0 → s ∈ st'.ends) ∧ ∀ p r, (p, r) ∈ st'.withR → (p, r) ∈ st.withR ∨ RealCycle g E0 p r := by
      intro e; subst e; exact ⟨hE, fun _ _ h => .inl h⟩
    unfold fillPath at h
    split at h
    · injection h with h; exact fin h.symm
    · rename_i unit hk
      split at h
      · injection h with h; exact fin h.symm
      · split at h
        · injection h with h; exact fin h.symm
        · rename_i hne
          have hne' : feed ∉ st.ends := fun hm => hne (List.contains_iff_mem.mpr hm)
          split at h
          · rename_i hip
            have hup : unit ∈ path := List.contains_iff_mem.mp hip
            have hrec : st' = st.addRecycle path feed →
                (∀ s, s ∈ E0 → s ∈ st'.ends) ∧ ∀ p r, (p, r) ∈ st'.withR → (p, r) ∈ st.withR ∨ RealCycle g E0 p r := by
              intro e; subst e
              refine ⟨fun s hs => ?_, fun p r hpr => ?_⟩
              · simp only [DfsSt.addRecycle, List.mem_append]; exact .inl (hE s hs)
              · simp only [DfsSt.addRecycle, List.mem_append, List.mem_singleton] at hpr
                rcases hpr with h | h
                · exact .inl h
                · injection h with h1 h2; subst h1 h2
                  exact .inr ⟨unit, hk, hup, reach_via_feed hE hne' hk hp hup⟩
            split at h
            · split at h
              · injection h with h; exact fin h.symm
              · injection h with h; exact hrec h.symm
            · injection h with h; exact hrec h.symm
          · simp only at h
            split at h
            · injection h with h; subst h; exact ⟨hE, fun _ _ h => .inl h⟩
            · rename_i first others ho
              have hp' : ∀ o, o ∈ g.outsOf unit → PathOK g E0 o (path ++ [unit]) := by
                intro o hoo a ha
                simp only [List.getLast?_append, List.getLast?_singleton, Option.some_or] at ha
                injection ha with ha; subst ha
                refine ⟨hoo, fun v hv => ?_⟩
                rcases List.mem_append.mp hv with hv | hv
                · exact .inr (reach_via_feed hE hne' hk hp hv)
                · exact .inl (by simpa using hv)
              split at h
              · exact absurd h (by simp)
              · rename_i st1 h1
                obtain ⟨e1, c1⟩ := foldlM_cycles E0 fuel (path ++ [unit]) (fun f a b => ih f (path ++ [unit]) a b)
                  others (fun o hoo => hp' o (by rw [ho]; exact List.mem_cons_of_mem _ hoo)) st st1 hE h1
                obtain ⟨e2, c2⟩ := ih first (path ++ [unit]) st1 st' e1 (hp' first (by rw [ho]; exact List.mem_cons_self ..)) h
                refine ⟨e2, fun p r hpr => ?_⟩
                rcases c2 p r hpr with h | h
                · exact c1 p r h
                · exact .inr h

end Dfs

/-! ## The checker -/

/-- `q` (with recycle set `r`) is the network itself or one of its nested sub-networks -/
inductive SubNet : Item → List Item → List Nat → Prop
  | self (p : List Item) (r : List Nat) : SubNet (.net p r) p r
  | inner {p : List Item} {r : List Nat} {it : Item} {q : List Item} {s : List Nat} :
      it ∈ p → SubNet it q s → SubNet (.net p r) q s

mutual
theorem mem_loops : ∀ (it : Item) (l : List Nat), l ∈ it.loops ↔ ∃ q r, SubNet it q r ∧ r ≠ [] ∧ l = flatList q
  | .unit u, l => by
    simp only [Item.loops, List.not_mem_nil, false_iff]
    rintro ⟨q, r, h, _⟩; cases h
  | .net p r, l => by
    simp only [Item.loops, List.mem_append]
    rw [mem_loopsList p l]
    constructor
    · rintro (h | ⟨it, hit, q, s, hs, hne, e⟩)
      · by_cases hr : r.isEmpty = true
        · simp [hr] at h
        · simp only [hr] at h
          simp only [Bool.false_eq_true, if_false, List.mem_singleton] at h
          exact ⟨p, r, SubNet.self p r, fun e => hr (by simp [e]), h⟩
      · exact ⟨q, s, SubNet.inner hit hs, hne, e⟩
    · rintro ⟨q, s, hs, hne, e⟩
      cases hs with
      | self =>
        left
        have : r.isEmpty = false := by cases r with | nil => exact absurd rfl hne | cons _ _ => rfl
        simp [this, e]
      | inner hit hs => exact .inr ⟨_, hit, q, s, hs, hne, e⟩
theorem mem_loopsList : ∀ (p : List Item) (l : List Nat), l ∈ loopsList p ↔ ∃ it, it ∈ p ∧ ∃ q r, SubNet it q r ∧ r ≠ [] ∧ l = flatList q
  | [], l => by simp [loopsList]
  | i :: is, l => by
    simp only [loopsList, List.mem_append, List.mem_cons]
    rw [mem_loops i l, mem_loopsList is l]
    constructor
    · rintro (h | ⟨it, hit, h⟩)
      · exact ⟨i, .inl rfl, h⟩
      · exact ⟨it, .inr hit, h⟩
    · rintro ⟨it, rfl | hit, h⟩
      · exact .inl h
      · exact .inr ⟨it, hit, h⟩
end

theorem nodupB_iff (l : List Nat) : nodupB l = true ↔ l.Nodup := by
  induction l with
  | nil => simp [nodupB]
  | cons x xs ih => simp [nodupB, ih]

theorem mem_edgesOf {g : Graph} {a b : Nat} (ha : a < g.n) (e : Edge g [] a b) : (a, b) ∈ edgesOf g := by
  obtain ⟨s, hs, _, hk⟩ := e
  unfold edgesOf
  refine List.mem_flatMap.mpr ⟨a, List.mem_range.mpr ha, List.mem_filterMap.mpr ⟨s, hs, ?_⟩⟩
  simp [hk]

theorem Edge.lt_outs_length {g : Graph} {ends : List Nat} {a b : Nat} (e : Edge g ends a b) : a < g.outs.length := by
  obtain ⟨s, hs, _⟩ := e
  rcases Nat.lt_or_ge a g.outs.length with h | h
  · exact h
  · unfold Graph.outsOf at hs
    rw [List.getD_eq_getElem?_getD, List.getElem?_eq_none h] at hs
    simp at hs

theorem hasCycle_sound {g : Graph} (h : hasCycle g = true) : ∃ u, Reach g [] u u := by
  unfold hasCycle at h
  obtain ⟨u, _, hu⟩ := List.any_eq_true.mp h
  refine ⟨u, closeN_sound g [] (fun x => Reach g [] u x) (fun _ _ r e => Relation.TransGen.tail r e) g.n _ ?_ u
    (List.contains_iff_mem.mp hu)⟩
  intro x hx
  rcases mem_addNew.mp hx with h | h
  · exact absurd h List.not_mem_nil
  · exact Relation.TransGen.single (mem_succs.mp h)

/-! ## misc -/

/-- what `sortLevel` returns, in terms of the bubble loop over good path sources -/
theorem sortLevel_inv {g : Graph} {ends : List Nat} {path : List Item} {r : List Nat} {o : SortOut} (h : sortLevel g ends path r = .ok o) :
    ∃ ps : List PS, ps.map (·.item) = path ∧ (∀ p ∈ ps, PSGood g ends p) ∧
      o.path = (bubble PS.downFrom (recyclesBetween g ends) ps r).items.map (·.item) ∧
      o.recycle = (bubble PS.downFrom (recyclesBetween g ends) ps r).recycle ∧
      o.stop = (bubble PS.downFrom (recyclesBetween g ends) ps r).stop := by
  unfold sortLevel at h
  split at h
  · exact absurd h (by simp)
  · rename_i ps hps
    injection h with h; subst h
    exact ⟨ps, (mkPSs_spec hps).1, (mkPSs_spec hps).2, rfl, rfl, rfl⟩

theorem insertFeed_perm (fmass : List Nat) (x : Nat) (l : List Nat) : (insertFeed fmass x l).Perm (x :: l) := by
  induction l with
  | nil => exact List.Perm.refl _
  | cons y ys ih =>
    unfold insertFeed
    split
    · exact List.Perm.refl _
    · exact (ih.cons y).trans (List.Perm.swap x y ys)

theorem insertFeed_sorted (fmass : List Nat) (x : Nat) (l : List Nat)
    (h : l.Pairwise (fun a b => fmass.getD b 0 ≤ fmass.getD a 0)) :
    (insertFeed fmass x l).Pairwise (fun a b => fmass.getD b 0 ≤ fmass.getD a 0) := by
  induction l with
  | nil => simp [insertFeed]
  | cons y ys ih =>
    unfold insertFeed
    have hy := List.pairwise_cons.mp h
    split
    · rename_i hle
      refine List.pairwise_cons.mpr ⟨?_, h⟩
      intro b hb
      rcases List.mem_cons.mp hb with rfl | hb
      · exact hle
      · exact Nat.le_trans (hy.1 b hb) hle
    · rename_i hnle
      refine List.pairwise_cons.mpr ⟨?_, ih hy.2⟩
      intro b hb
      rcases List.mem_cons.mp ((insertFeed_perm fmass x ys).mem_iff.mp hb) with rfl | hb
      · omega
      · exact hy.1 b hb

theorem ok_of_match {α : Type} {e : Except Err α} {P : α → Bool}
    (h : (match e with | .ok a => P a | .error _ => false) = true) : ∃ a, e = .ok a ∧ P a = true := by
  cases e with
  | ok a => exact ⟨a, rfl, h⟩
  | error _ => exact absurd h (by simp)

end ThermoVerif.NetSort
