import ThermoVerif.Model.LLESLE
import Mathlib.Tactic.Ring
import Mathlib.Tactic.FieldSimp
import Mathlib.Tactic.Linarith
import Mathlib.Algebra.Order.Field.Basic
import Mathlib.Algebra.Order.Ring.Abs
import Mathlib.Algebra.BigOperators.Ring.List
import Mathlib.Tactic.NormNum
import Mathlib.Tactic.SplitIfs
/-
Helper lemmas for C15: the order-only `absv`/`nz` agree with `|·|`/`≠ 0` in a linearly ordered
field, the left-fold sum is `List.sum`, and sums of `zipWith`s.
-/
set_option linter.unusedSectionVars false
namespace ThermoVerif.LLESLE
variable {α : Type} [Field α] [LinearOrder α] [IsStrictOrderedRing α]

theorem absv_eq_abs (x : α) : absv x = |x| := by
  unfold absv
  split
  · next h => exact (abs_of_neg h).symm
  · next h => exact (abs_of_nonneg (not_lt.mp h)).symm

theorem nz_iff (x : α) : nz x = true ↔ x ≠ 0 := by
  unfold nz
  simp only [Bool.or_eq_true, decide_eq_true_eq]
  constructor
  · rintro (h | h)
    · exact ne_of_lt h
    · exact (ne_of_lt h).symm
  · intro h
    exact lt_or_gt_of_ne h

theorem nz_false_iff (x : α) : nz x = false ↔ x = 0 := by
  rw [← Bool.not_eq_true, nz_iff]; exact not_not

theorem foldl_add_eq (a : α) (l : List α) : l.foldl (· + ·) a = a + l.sum := by
  induction l generalizing a with
  | nil => simp
  | cons x xs ih => simp [List.foldl_cons, ih, add_assoc]

theorem vsum_eq_sum (l : List α) : vsum l = l.sum := by
  unfold vsum; rw [foldl_add_eq]; simp

/-! ## helper lemmas of Props/C15 (list algebra, sums, bookkeeping of the call and of the solver caches) -/

theorem all_zipWith_lt {f : α → α → α} {t : α} :
    ∀ (a b : List α), (List.zipWith (fun x y => decide (f x y < t)) a b).all id = true →
      ∀ (i : Nat) x y, a[i]? = some x → b[i]? = some y → f x y < t
  | [], _, _, i, x, y, hx, _ => by simp at hx
  | _ :: _, [], _, i, x, y, _, hy => by simp at hy
  | p :: a, q :: b, h, i, x, y, hx, hy => by
    simp only [List.zipWith_cons_cons, List.all_cons, id, Bool.and_eq_true, decide_eq_true_eq] at h
    cases i with
    | zero =>
      simp only [List.getElem?_cons_zero, Option.some.injEq] at hx hy
      subst hx; subst hy; exact h.1
    | succ j =>
      simp only [List.getElem?_cons_succ] at hx hy
      exact all_zipWith_lt a b h.2 j x y hx hy

theorem diffs_sum_le (t : α) : ∀ (a b : List α), a.length = b.length →
    (∀ (i : Nat) x y, a[i]? = some x → b[i]? = some y → x - y < t) →
    a.sum - b.sum ≤ a.length * t
  | [], [], _, _ => by simp
  | [], _ :: _, h, _ => by simp at h
  | _ :: _, [], h, _ => by simp at h
  | p :: a, q :: b, h, hd => by
    have ih := diffs_sum_le t a b (by simpa using h) (fun i x y hx hy => hd (i + 1) x y (by simpa using hx) (by simpa using hy))
    have h0 := hd 0 p q (by simp) (by simp)
    simp only [List.sum_cons, List.length_cons, Nat.cast_add, Nat.cast_one]
    linarith

theorem others_sum_le (t : α) : ∀ (a b : List α), a.length = b.length →
    (∀ (i : Nat) x y, a[i]? = some x → b[i]? = some y → x - y < t) →
    ∀ (i : Nat) x y, a[i]? = some x → b[i]? = some y →
      (a.sum - b.sum) - (x - y) + t ≤ a.length * t
  | [], _, _, _, i, x, y, hx, _ => by simp at hx
  | _ :: _, [], h, _, _, _, _, _, _ => by simp at h
  | p :: a, q :: b, h, hd, i, x, y, hx, hy => by
    have hd' : ∀ (i : Nat) x y, a[i]? = some x → b[i]? = some y → x - y < t :=
      fun i x y hx hy => hd (i + 1) x y (by simpa using hx) (by simpa using hy)
    have hlen : a.length = b.length := by simpa using h
    cases i with
    | zero =>
      simp only [List.getElem?_cons_zero, Option.some.injEq] at hx hy
      subst hx; subst hy
      have := diffs_sum_le t a b hlen hd'
      simp only [List.sum_cons, List.length_cons, Nat.cast_add, Nat.cast_one]
      linarith
    | succ j =>
      simp only [List.getElem?_cons_succ] at hx hy
      have ih := others_sum_le t a b hlen hd' j x y hx hy
      have h0 := hd 0 p q (by simp) (by simp)
      simp only [List.sum_cons, List.length_cons, Nat.cast_add, Nat.cast_one]
      linarith

theorem yEntry_mul_phi (phi zi Ki : α) (hd : 1 + phi * (Ki - 1) ≠ 0) :
    yEntry phi zi Ki * phi = zi - xEntry phi zi Ki := by
  unfold yEntry xEntry
  have e : phi * Ki + (1 - phi) = 1 + phi * (Ki - 1) := by ring
  rw [e]; field_simp; ring

theorem vsub_vsub_cancel : ∀ (z s : List α), z.length = s.length → vsub z (vsub z s) = s
  | [], [], _ => rfl
  | [], _ :: _, h => by simp at h
  | _ :: _, [], h => by simp at h
  | a :: z, b :: s, h => by
    have ih := vsub_vsub_cancel z s (by simpa using h)
    unfold vsub at ih ⊢
    simp only [List.zipWith_cons_cons, List.cons.injEq]
    exact ⟨by ring, ih⟩

theorem cached_l_eq : ∀ (z K : List α) (phi : α), z.length = K.length →
    (∀ Ki ∈ K, 1 + phi * (Ki - 1) ≠ 0) →
    (List.zipWith (yEntry phi) z K).map (· * phi) = vsub z (solverOut z K phi)
  | [], [], _, _, _ => rfl
  | [], _ :: _, _, h, _ => by simp at h
  | _ :: _, [], _, h, _ => by simp at h
  | zi :: z, Ki :: K, phi, h, hd => by
    have ih := cached_l_eq z K phi (by simpa using h) (fun k hk => hd k (List.mem_cons_of_mem _ hk))
    unfold vsub solverOut at ih ⊢
    simp only [List.zipWith_cons_cons, List.map_cons, List.cons.injEq]
    exact ⟨yEntry_mul_phi phi zi Ki (hd Ki List.mem_cons_self), ih⟩

theorem reproduce_entry (A B ai bi : α) (hAB : A + B = 1) (hA : A ≠ 0) (hB : B ≠ 0) (ha : ai ≠ 0)
    (hz : ai + bi ≠ 0) :
    yEntry (B / (B + A)) (ai + bi) ((bi / B) / (ai / A)) * (B / (B + A)) = bi := by
  have hBA : B + A = 1 := by rw [add_comm]; exact hAB
  rw [hBA, div_one]
  unfold yEntry
  have h1 : (1 : α) - B = A := by rw [← hAB]; ring
  have e : B * (bi / B / (ai / A)) + (1 - B) = A * (ai + bi) / ai := by
    rw [h1]; field_simp; ring
  rw [e]
  have hne : A * (ai + bi) / ai ≠ 0 := div_ne_zero (mul_ne_zero hA hz) ha
  field_simp

theorem reproduce_lists (A B : α) (hAB : A + B = 1) (hA : A ≠ 0) (hB : B ≠ 0) :
    ∀ (a b : List α), a.length = b.length → (∀ v ∈ a, v ≠ 0) →
      (∀ p ∈ List.zip a b, p.1 + p.2 ≠ 0) →
      (List.zipWith (yEntry (B / (B + A))) (List.zipWith (· + ·) a b)
        (List.zipWith (fun bi ai => (bi / B) / (ai / A)) b a)).map (· * (B / (B + A))) = b
  | [], [], _, _, _ => rfl
  | [], _ :: _, h, _, _ => by simp at h
  | _ :: _, [], h, _, _ => by simp at h
  | ai :: a, bi :: b, h, ha, hz => by
    have ih := reproduce_lists A B hAB hA hB a b (by simpa using h)
      (fun v hv => ha v (List.mem_cons_of_mem _ hv))
      (fun p hp => hz p (by simp only [List.zip_cons_cons]; exact List.mem_cons_of_mem _ hp))
    simp only [List.zipWith_cons_cons, List.map_cons, List.cons.injEq]
    refine ⟨reproduce_entry A B ai bi hAB hA hB (ha ai List.mem_cons_self) ?_, ih⟩
    exact hz (ai, bi) (by simp)

theorem vsub_add_cancel_left : ∀ (a b : List α), a.length = b.length →
    vsub (List.zipWith (· + ·) a b) b = a
  | [], [], _ => rfl
  | [], _ :: _, h => by simp at h
  | _ :: _, [], h => by simp at h
  | x :: a, y :: b, h => by
    have ih := vsub_add_cancel_left a b (by simpa using h)
    unfold vsub at ih ⊢
    simp only [List.zipWith_cons_cons, List.cons.injEq]
    exact ⟨by ring, ih⟩

theorem vsum_map_mul (k : α) (l : List α) : vsum (l.map (k * ·)) = k * vsum l := by
  rw [vsum_eq_sum, vsum_eq_sum, List.sum_map_mul_left]; simp

theorem normalize_scale (k : α) (hk : k ≠ 0) (mol : List α) :
    normalize (mol.map (k * ·)) = normalize mol := by
  unfold normalize
  rw [vsum_map_mul, List.map_map]
  apply List.map_congr_left
  intro v _
  simp only [Function.comp]
  by_cases h : vsum mol = 0
  · simp [h]
  · field_simp

theorem nz_scale (k : α) (hk : k ≠ 0) (F : α) : nz (k * F) = nz F := by
  by_cases h : F = 0
  · rw [(nz_false_iff F).mpr h, (nz_false_iff _).mpr (by rw [h, mul_zero])]
  · rw [(nz_iff F).mpr h, (nz_iff _).mpr (mul_ne_zero hk h)]

theorem activity_lists : ∀ (x gx gy : List α), gx.length = x.length → gy.length = x.length →
    (∀ g ∈ gy, g ≠ 0) → vmul (vmul (List.zipWith (· / ·) gx gy) x) gy = vmul x gx
  | [], [], [], _, _, _ => rfl
  | [], _ :: _, _, h, _, _ => by simp at h
  | [], [], _ :: _, _, h, _ => by simp at h
  | _ :: _, [], _, h, _, _ => by simp at h
  | _ :: _, _ :: _, [], _, h, _ => by simp at h
  | xi :: x, a :: gx, b :: gy, h1, h2, hg => by
    have ih := activity_lists x gx gy (by simpa using h1) (by simpa using h2)
      (fun g hg' => hg g (List.mem_cons_of_mem _ hg'))
    unfold vmul at ih ⊢
    simp only [List.zipWith_cons_cons, List.cons.injEq]
    refine ⟨?_, ih⟩
    have hb : b ≠ 0 := hg b List.mem_cons_self
    field_simp

theorem rr_sums (phi : α) : ∀ (z K : List α), z.length = K.length →
    (∀ Ki ∈ K, 1 + phi * (Ki - 1) ≠ 0) →
    z.sum = (List.zipWith (fun zi Ki => zi / (1 + phi * (Ki - 1))) z K).sum
        + phi * (List.zipWith (fun zi Ki => zi * (Ki - 1) / (1 + phi * (Ki - 1))) z K).sum ∧
    (vmul K (List.zipWith (fun zi Ki => zi / (1 + phi * (Ki - 1))) z K)).sum =
      (List.zipWith (fun zi Ki => zi / (1 + phi * (Ki - 1))) z K).sum
        + (List.zipWith (fun zi Ki => zi * (Ki - 1) / (1 + phi * (Ki - 1))) z K).sum
  | [], [], _, _ => by simp [vmul]
  | [], _ :: _, h, _ => by simp at h
  | _ :: _, [], h, _ => by simp at h
  | zi :: z, Ki :: K, h, hd => by
    have ih := rr_sums phi z K (by simpa using h) (fun k hk => hd k (List.mem_cons_of_mem _ hk))
    have hne : 1 + phi * (Ki - 1) ≠ 0 := hd Ki List.mem_cons_self
    unfold vmul at ih ⊢
    simp only [List.zipWith_cons_cons, List.sum_cons]
    constructor
    · rw [ih.1]; field_simp; ring
    · rw [ih.2]; field_simp; ring

/-- a call that changes anything: non-empty feed and at least two chemicals -/
def effective (c : CallIn α) : Bool := nz (vsum c.mol) && decide (1 < c.chems.length)

/-- the remembered state after a history of calls -/
def runState (p : Params α) (rr : List α → List α → α → Option α)
    (solve : Option (Stored α) → Query α → List α)
    (st : Option (Stored α)) (cs : List (CallIn α)) : Option (Stored α) :=
  cs.foldl (fun s c => (call p rr solve s c).1) st

theorem call_not_effective (p : Params α) (rr : List α → List α → α → Option α)
    (solve : Option (Stored α) → Query α → List α) (st : Option (Stored α)) (c : CallIn α)
    (h : effective c = false) :
    (call p rr solve st c).1 = st ∧ (call p rr solve st c).2.path = .none := by
  unfold effective at h
  unfold call
  simp [h]

/-- every cache would load with the current indexer, and a loaded solver is bound to it -/
def Bound (m : StreamM) : Prop :=
  ∀ k, (m.cache k).args = m.imol ∧ ((m.cache k).value = none ∨ (m.cache k).value = some m.imol)

theorem bound_init : Bound StreamM.init := by
  intro k; cases k <;> exact ⟨rfl, Or.inl rfl⟩

theorem bound_resetCache (m : StreamM) : Bound m.resetCache := by
  intro k; cases k <;> exact ⟨rfl, Or.inl rfl⟩

theorem bound_setPhases (m : StreamM) (c : Bool) (h : Bound m) : Bound (m.setPhases c) := by
  unfold StreamM.setPhases
  cases c with
  | false => simpa using h
  | true => simp only [if_true]; exact bound_resetCache _

theorem cache_retrieve (c : CacheM) (i : Nat) (h : c.args = i ∧ (c.value = none ∨ c.value = some i)) :
    c.retrieve.2 = i ∧ c.retrieve.1.args = i ∧ c.retrieve.1.value = some i := by
  obtain ⟨ha, hv | hv⟩ := h <;> simp [CacheM.retrieve, hv, ha]

/-- **sle_pure_solute.**  A pure solute goes entirely to the liquid above its melting point and
entirely to the solid at or below it; no other entry moves. -/
theorem sle_pure_solute (T Tm m : α) (liquid solid : List α) (s : Nat) :
    (Tm < T → pureSolute T Tm liquid solid s m = (liquid.set s m, solid.set s 0)) ∧
    (T ≤ Tm → pureSolute T Tm liquid solid s m = (liquid.set s 0, solid.set s m)) := by
  unfold pureSolute
  exact ⟨fun h => by simp [h], fun h => by simp [not_lt.mpr h]⟩

/-- `K`/`phi` bookkeeping of a two-phase result without clipping: `K_i = (L_i/F_L)/(l_i/F_l)`,
`phi = F_L/(F_L + F_l)` — the form `cached_path_reproduces` assumes. -/
theorem bookkeep_two_phase (eps big : α) (l L : List α) (hl : vsum l ≠ 0) (hL : vsum L ≠ 0)
    (hclip : ∀ v ∈ l, ¬ v / vsum l < eps) (hlen : l.length = L.length) :
    bookkeep eps big l L =
      (List.zipWith (fun bi ai => (bi / vsum L) / (ai / vsum l)) L l, vsum L / (vsum L + vsum l)) := by
  unfold bookkeep
  have h1 : nz (vsum L) = true := (nz_iff _).mpr hL
  have h2 : nz (vsum l) = true := (nz_iff _).mpr hl
  simp only [h1, h2, Bool.not_true, Bool.false_eq_true, if_false, Prod.mk.injEq, and_true]
  have : l.map (fun v => if v / vsum l < eps then eps else v / vsum l) = l.map (· / vsum l) := by
    apply List.map_congr_left
    intro v hv
    simp [hclip v hv]
  rw [this]
  clear this hclip h1 h2 hl hL
  generalize vsum l = A
  generalize vsum L = B
  induction l generalizing L with
  | nil => cases L <;> simp
  | cons a l ih =>
    cases L with
    | nil => simp at hlen
    | cons b L =>
      simp only [List.map_cons, List.zipWith_cons_cons, List.cons.injEq, true_and]
      exact ih L (by simpa using hlen)

theorem sleSetup_pure (st : SleState) (nonzero idx : List Nat) (hidx : idx.length = 1)
    (hst : st.nonzero ≠ some nonzero ∨ st.pure = true) : (sleSetup st nonzero idx).pure = true := by
  unfold sleSetup
  by_cases h : (st.nonzero == some nonzero) = true
  · rw [if_pos h]
    rcases hst with h' | h'
    · exact absurd (by simpa using h) h'
    · exact h'
  · rw [if_neg h]; simp [hidx]

end ThermoVerif.LLESLE
