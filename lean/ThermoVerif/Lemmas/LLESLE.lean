import ThermoVerif.Model.LLESLE
import Mathlib.Tactic.Ring
import Mathlib.Tactic.FieldSimp
import Mathlib.Tactic.Linarith
import Mathlib.Algebra.Order.Field.Basic
import Mathlib.Algebra.Order.Ring.Abs
import Mathlib.Algebra.BigOperators.Ring.List
/-
Helper lemmas for C15: the order-only `absv`/`nz` agree with `|·|`/`≠ 0` in a linearly ordered
field, the left-fold sum is `List.sum`, and sums of `zipWith`s.
-/
set_option linter.unusedSectionVars false
namespace ThermoVerif.LLESLE
variable {α : Type} [Field α] [LinearOrder α] [IsStrictOrderedRing α]

theorem absv_eq_abs (x : α) : absv x = |x| := by
  unfold absv
  split
  · next h => exact (abs_of_neg h).symm
  · next h => exact (abs_of_nonneg (not_lt.mp h)).symm

theorem nz_iff (x : α) : nz x = true ↔ x ≠ 0 := by
  unfold nz
  simp only [Bool.or_eq_true, decide_eq_true_eq]
  constructor
  · rintro (h | h)
    · exact ne_of_lt h
    · exact (ne_of_lt h).symm
  · intro h
    exact lt_or_gt_of_ne h

theorem nz_false_iff (x : α) : nz x = false ↔ x = 0 := by
  rw [← Bool.not_eq_true, nz_iff]; exact not_not

theorem foldl_add_eq (a : α) (l : List α) : l.foldl (· + ·) a = a + l.sum := by
  induction l generalizing a with
  | nil => simp
  | cons x xs ih => simp [List.foldl_cons, ih, add_assoc]

theorem vsum_eq_sum (l : List α) : vsum l = l.sum := by
  unfold vsum; rw [foldl_add_eq]; simp

end ThermoVerif.LLESLE
