import ThermoVerif.Lemmas.C10Steps
/-
C10, auxiliary facts: helper lemmas and statements that hold by definition of the model (its flow
data are dense rows, so "what a resolved key reads" for the ellipsis / phase forms and "lists are
tuples" unfold to `rfl`; the real sparse-dictionary read paths are tied to these definitions by
correspondence and the oracle, not by proof).
-/
namespace ThermoVerif.Props.C10
open ThermoVerif.Chemicals ThermoVerif.Indexer ThermoVerif.IndexCache

/-- Positions a resolved index addresses in a row of length `n`. -/
def positions : Ix → Nat → List Nat
  | .one i, _ => [i]
  | .grp is, _ => is
  | .nested es, _ => es.flatMap Ent.positions
  | .arr is, _ => is
  | .all, n => List.range n

theorem getEnt_entsPos : ∀ (es : List Ent) (row : Row), es.any Ent.isGrp = false →
    (entsPos es).map (getAt row) = es.map (getEnt row)
  | [], _, _ => rfl
  | .pos i :: t, row, h => by
    simp only [List.any_cons, Ent.isGrp, Bool.false_or] at h
    simp [entsPos, getEnt, getEnt_entsPos t row h]
  | .grp _ :: t, row, h => by simp [Ent.isGrp] at h

/-- **get_positional** (ellipsis): the whole row. -/
theorem get_positional_all (c : Chem) (row : Row) :
    (resolveC c (.leaf .ell)).map (getIx row) = .ok (.vec row) := rfl

/-- **get_positional** (multi-phase).  A chemical key reads the column sums; a phase label
its row; `(phase, IDs)` reads `IDs` in that row; `(..., IDs)` in every row. -/
theorem get_positional_phases (data : List Row) (p : Nat) (ix : Ix) :
    getM data (.sum ix) = getIx (colSums data) ix ∧
    getM data (.row p) = .vec (data.getD p []) ∧
    getM data .whole = .mat data ∧
    getM data (.sub (some p) ix) = getIx (data.getD p []) ix ∧
    getM data (.sub none ix) = stack (data.map fun r => getIx r ix) := ⟨rfl, rfl, rfl, rfl, rfl⟩

/-- Lists and tuples are the same key (so is any mix of them, one level down). -/
theorem list_eq_tuple (l : List Item) : normM (.lst l) = normM (.tup l) ∧ normC (.lst l) = normC (.tup l) :=
  ⟨rfl, rfl⟩

theorem getAt_ge (row : Row) (j : Nat) (h : row.length ≤ j) : getAt row j = 0 := by
  simp [getAt, List.getD_eq_getElem?_getD, List.getElem?_eq_none h]

/-- Side conditions for writing through a nested key (a tuple mixing chemicals and groups):
every group element of the key has a stored composition of the right length that sums to 1. -/
def NestedOK (c : Chem) (k : HKey) : Nat → List Ent → Prop
  | _, [] => True
  | n, .pos _ :: t => NestedOK c k (n + 1) t
  | n, .grp is :: t =>
    (∃ comp, compOf c (itemName (keyItem k n)) = .ok comp ∧ comp.length = is.length ∧ sumRat comp = 1) ∧
    NestedOK c k (n + 1) t

theorem drop_cons_of_get {xs : List Rat} {n : Nat} {x : Rat} (h : xs[n]? = some x) :
    xs.drop n = x :: xs.drop (n + 1) := by
  obtain ⟨hlt, hx⟩ := List.getElem?_eq_some_iff.mp h
  rw [List.drop_eq_getElem_cons hlt, hx]

theorem writeNestedVec_read (c : Chem) (k : HKey) (xs : List Rat) :
    ∀ (es : List Ent) (row : Row) (n : Nat) (row' : Row),
    writeNestedVec c k xs row n es = .ok row' →
    (es.flatMap Ent.positions).Nodup → (∀ i, i ∈ es.flatMap Ent.positions → i < row.length) →
    NestedOK c k n es → es.map (getEnt row') = (xs.drop n).take es.length
  | [], _, _, _, _, _, _, _ => by simp
  | .pos i :: t, row, n, row', h, hn, hb, hok => by
    simp only [writeNestedVec] at h
    split at h
    · cases h
    · rename_i x hx
      simp only [List.flatMap_cons, Ent.positions, List.singleton_append, List.nodup_cons] at hn
      have hbi : i < row.length := hb i (by simp [Ent.positions])
      have ih := writeNestedVec_read c k xs t (setAt row i x) (n + 1) row' h hn.2
        (by intro j hj; rw [length_setAt]; exact hb j (by simp [hj])) hok
      have hfr := (writeNestedVec_frame c k xs t _ _ row' i h).1 hn.1
      simp only [List.map_cons, List.length_cons, getEnt]
      rw [drop_cons_of_get hx, List.take_succ_cons, ih, hfr, getAt_setAt_eq _ _ hbi]
  | .grp is :: t, row, n, row', h, hn, hb, hok => by
    simp only [writeNestedVec] at h
    split at h
    · cases h
    · rename_i x hx
      obtain ⟨⟨comp, hc, hl, hs⟩, hok'⟩ := hok
      simp only [hc, bind, Except.bind] at h
      simp only [List.flatMap_cons, Ent.positions] at hn hb
      rw [List.nodup_append] at hn
      obtain ⟨hn1, hn2, hdis⟩ := hn
      have hb1 : ∀ j, j ∈ is → j < row.length := fun j hj => hb j (List.mem_append_left _ hj)
      have ih := writeNestedVec_read c k xs t _ (n + 1) row' h hn2
        (by intro j hj; rw [length_writeZip]; exact hb j (List.mem_append_right _ hj)) hok'
      have hmem : is.map (getAt row') = is.map (getAt (writeZip row is (comp.map (x * ·)))) := by
        apply List.map_congr_left
        intro j hj
        exact (writeNestedVec_frame c k xs t _ _ row' j h).1 (fun hjt => hdis j hj j hjt rfl)
      simp only [List.map_cons, List.length_cons, getEnt]
      rw [drop_cons_of_get hx, List.take_succ_cons, ih, hmem,
        writeZip_read is _ row hn1 (by simp [hl]) hb1, sumRat_map_mul, hs, Rat.mul_one]

theorem baseIndex_inv (specs : List Spec) :
    (keys (baseIndex specs)).Nodup ∧ AllPos specs.length (baseIndex specs) := by
  unfold baseIndex
  apply insertAll_inv
  · simp [keys]
  · intro k e h; cases h
  · intro k e h
    rcases List.mem_append.mp h with h | h
    · exact positionsFrom_allPos _ 0 _ (by simp) k e h
    · exact positionsFrom_allPos _ 0 _ (by simp) k e h

/-- The tables of chemicals object `c` after one more operation. -/
theorem step_chems (p : PWorld) (op : Op) (c : Nat) (chem : Chem) (cas : List String)
    (h : p.chems[c]? = some (chem, cas)) :
    ∃ chem', (p.step op).1.chems[c]? = some (chem', cas) ∧
      ∀ k i, alookup k chem.index = some (.pos i) → alookup k chem'.index = some (.pos i) := by
  have keep : ∀ q : PWorld, q.chems = p.chems →
      ∃ chem', q.chems[c]? = some (chem', cas) ∧
        ∀ k i, alookup k chem.index = some (.pos i) → alookup k chem'.index = some (.pos i) :=
    fun q hq => ⟨chem, by rw [hq]; exact h, fun _ _ hk => hk⟩
  have hlt : c < p.chems.length := (List.getElem?_eq_some_iff.mp h).1
  cases op with
  | compile specs =>
    simp only [PWorld.step]
    split
    · refine ⟨chem, ?_, fun _ _ hk => hk⟩
      simp only
      rw [List.getElem?_append_left hlt]; exact h
    · exact keep _ rfl
  | alias c' id a =>
    simp only [PWorld.step]
    split
    · exact keep _ rfl
    · rename_i chem0 cas0 h0
      by_cases hc : c' = c
      · subst hc
        rw [h] at h0; cases h0
        split
        · exact ⟨chem.setAliasFail reservedAll id a, by simp [hlt], fun k i hk => setAliasFail_mono chem _ _ _ hk⟩
        · rename_i chem' ha
          exact ⟨_, by simp [hlt], fun k i hk => setAlias_mono ha hk⟩
      · split <;> exact ⟨chem, by simp [hc, h], fun _ _ hk => hk⟩
  | group c' name ids comp wt =>
    simp only [PWorld.step]
    split
    · exact keep _ rfl
    · rename_i chem0 cas0 h0
      by_cases hc : c' = c
      · subst hc
        rw [h] at h0; cases h0
        split
        · exact keep _ rfl
        · rename_i chem' ha
          exact ⟨_, by simp [hlt], fun k i hk => defineGroup_keeps_pos ha hk⟩
      · split
        · exact keep _ rfl
        · exact ⟨chem, by simp [hc, h], fun _ _ hk => hk⟩
  | newChemIx c' ph =>
    simp only [PWorld.step]; split <;> exact keep _ rfl
  | newMatIx c' ps =>
    simp only [PWorld.step]; split <;> exact keep _ rfl
  | newSplitIx c' =>
    simp only [PWorld.step]; split <;> exact keep _ rfl
  | array c' sp key d =>
    simp only [PWorld.step]
    split
    · exact keep _ rfl
    · split <;> exact keep _ rfl
  | get i key =>
    simp only [PWorld.step]
    split
    · exact keep _ rfl
    · split
      · exact keep _ rfl
      · split <;> exact keep _ rfl
  | getMass i key =>
    simp only [PWorld.step]
    split
    · exact keep _ rfl
    · split
      · exact keep _ rfl
      · split <;> exact keep _ rfl
  | set i key d =>
    simp only [PWorld.step]
    split
    · exact keep _ rfl
    · split
      · exact keep _ rfl
      · split <;> exact keep _ rfl
  | setMass i key d =>
    simp only [PWorld.step]
    split
    · exact keep _ rfl
    · split
      · exact keep _ rfl
      · split <;> exact keep _ rfl
  | resetChem i c' =>
    simp only [PWorld.step]
    repeat' split
    all_goals exact keep _ rfl
  | copyIx i =>
    simp only [PWorld.step]; split <;> exact keep _ rfl
  | getIndex c' key =>
    simp only [PWorld.step]; split <;> exact keep _ rfl
  | copyLike l r =>
    simp only [PWorld.step, PWorld.transfer]
    repeat' split
    all_goals exact keep _ rfl
  | mixFrom l r =>
    simp only [PWorld.step, PWorld.transfer]
    repeat' split
    all_goals exact keep _ rfl

theorem lookupItems_deep (c : Chem) : ∀ (l : List HItem) (h : Bool), HItem.leaf (.deep h) ∈ l →
    lookupItems c l = .error .undefinedAlias
  | [], _, hm => by cases hm
  | it :: t, h, hm => by
    simp only [lookupItems]
    rcases List.mem_cons.mp hm with hm | hm
    · subst hm; simp [lookupItem, bind, Except.bind]
    · cases hi : lookupItem c it with
      | error e =>
        cases it with
        | leaf a => cases a <;> simp_all [lookupItem, Chem.lookup, bind, Except.bind] <;> (split at hi <;> simp_all)
        | tup l => simp_all [lookupItem, bind, Except.bind]
      | ok e => simp [bind, Except.bind, lookupItems_deep c t h hm]

theorem idxOf_some : ∀ (l : List Char) (c : Char) (i : Nat), idxOf c l = some i → l[i]? = some c
  | [], _, _, h => by simp [idxOf] at h
  | x :: t, c, i, h => by
    unfold idxOf at h
    split at h
    · rename_i hx; cases h; simp [hx]
    · cases hr : idxOf c t with
      | none => simp [hr] at h
      | some j =>
        simp [hr] at h; subst h
        simp [idxOf_some t c j hr]

theorem idxOf_none : ∀ (l : List Char) (c : Char), idxOf c l = none ↔ c ∉ l
  | [], _ => by simp [idxOf]
  | x :: t, c => by
    unfold idxOf
    by_cases hx : x = c
    · simp [hx]
    · simp [hx, idxOf_none t c, Ne.symm hx]

end ThermoVerif.Props.C10
