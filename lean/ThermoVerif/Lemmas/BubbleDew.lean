import ThermoVerif.Model.BubbleDew
import Mathlib.Tactic.Ring
import Mathlib.Tactic.Linarith
import Mathlib.Tactic.FieldSimp
import Mathlib.Tactic.Positivity
import Mathlib.Algebra.Order.Field.Basic
/-
Helper lemmas for C08: sums over lists in an ordered field, the weighted
harmonic ≤ arithmetic mean inequality (Cauchy–Schwarz form), strict monotonicity
of weighted sums, permutation invariance.
-/
namespace ThermoVerif.BubbleDew
set_option linter.unusedSectionVars false
variable {α : Type} [Field α] [LinearOrder α] [IsStrictOrderedRing α]

theorem sum_map_mul_left' (k : α) (l : List α) : (l.map (k * ·)).sum = k * l.sum := by
  induction l with
  | nil => simp
  | cons a t ih => simp [ih, mul_add]

theorem sum_map_div' (s : α) (l : List α) : (l.map (· / s)).sum = l.sum / s := by
  induction l with
  | nil => simp
  | cons a t ih => simp [ih, add_div]

theorem perm_sum {l₁ l₂ : List α} (h : l₁.Perm l₂) : l₁.sum = l₂.sum := by
  induction h with
  | nil => rfl
  | cons a _ ih => simp [ih]
  | swap a b l => simp only [List.sum_cons]; ring
  | trans _ _ ih₁ ih₂ => exact ih₁.trans ih₂

theorem sum_replicate' (n : Nat) (a : α) : (List.replicate n a).sum = n * a := by
  induction n with
  | zero => simp
  | succ n ih => simp [List.replicate_succ, ih]; ring

/-! ### weights: pairs `(z, k)` with `z ≥ 0`, `k > 0` -/

/-- all weights non-negative, all K-values positive -/
def Admissible (zk : List (α × α)) : Prop := ∀ p ∈ zk, 0 ≤ p.1 ∧ 0 < p.2

def weightSum (zk : List (α × α)) : α := (zk.map (·.1)).sum

theorem admissible_cons {p : α × α} {t : List (α × α)} :
    Admissible (p :: t) ↔ (0 ≤ p.1 ∧ 0 < p.2) ∧ Admissible t := by
  simp [Admissible]

theorem weightSum_nonneg {zk : List (α × α)} (h : Admissible zk) : 0 ≤ weightSum zk := by
  induction zk with
  | nil => simp [weightSum]
  | cons p t ih =>
    obtain ⟨⟨hz, _⟩, ht⟩ := admissible_cons.mp h
    have := ih ht
    simp only [weightSum, List.map_cons, List.sum_cons] at this ⊢
    linarith

theorem bubbleSum_cons (p : α × α) (t : List (α × α)) :
    bubbleSum (p :: t) = p.1 * p.2 + bubbleSum t := by
  simp [bubbleSum, bubbleVec]

theorem dewSum_cons (p : α × α) (t : List (α × α)) :
    dewSum (p :: t) = p.1 / p.2 + dewSum t := by
  simp [dewSum, dewVec]

theorem weightSum_cons (p : α × α) (t : List (α × α)) :
    weightSum (p :: t) = p.1 + weightSum t := by
  simp [weightSum]

theorem bubbleSum_nonneg {zk : List (α × α)} (h : Admissible zk) : 0 ≤ bubbleSum zk := by
  induction zk with
  | nil => simp [bubbleSum, bubbleVec]
  | cons p t ih =>
    obtain ⟨⟨hz, hk⟩, ht⟩ := admissible_cons.mp h
    rw [bubbleSum_cons]
    have := ih ht
    have := mul_nonneg hz hk.le
    linarith

theorem dewSum_nonneg {zk : List (α × α)} (h : Admissible zk) : 0 ≤ dewSum zk := by
  induction zk with
  | nil => simp [dewSum, dewVec]
  | cons p t ih =>
    obtain ⟨⟨hz, hk⟩, ht⟩ := admissible_cons.mp h
    rw [dewSum_cons]
    have := ih ht
    have := div_nonneg hz hk.le
    linarith

/-- `a/k + k/a ≥ 2` in the form used below: `z·a/k + k·(z/a) ≥ 2z`. -/
theorem two_le_ratio (z a k : α) (hz : 0 ≤ z) (ha : 0 < a) (hk : 0 < k) :
    2 * z ≤ z * a / k + k * (z / a) := by
  have h1 : z * a / k + k * (z / a) - 2 * z = z * (a - k) ^ 2 / (a * k) := by
    field_simp
    ring
  have h2 : 0 ≤ z * (a - k) ^ 2 / (a * k) := by positivity
  linarith

/-- For every `k > 0`: `A/k + k·B ≥ 2·S`. -/
theorem cross_ge (zk : List (α × α)) (h : Admissible zk) (k : α) (hk : 0 < k) :
    2 * weightSum zk ≤ bubbleSum zk / k + k * dewSum zk := by
  induction zk with
  | nil => simp [weightSum, bubbleSum, bubbleVec, dewSum, dewVec]
  | cons p t ih =>
    obtain ⟨⟨hz, ha⟩, ht⟩ := admissible_cons.mp h
    have := ih ht
    have h2 := two_le_ratio p.1 p.2 k hz ha hk
    rw [bubbleSum_cons, dewSum_cons, weightSum_cons, add_div, mul_add]
    linarith

/-- Cauchy–Schwarz for the weights: `(Σ z)² ≤ (Σ z·k)(Σ z/k)`; with `Σ z = 1` this is
"weighted harmonic mean ≤ weighted arithmetic mean". -/
theorem weightSum_sq_le (zk : List (α × α)) (h : Admissible zk) :
    weightSum zk ^ 2 ≤ bubbleSum zk * dewSum zk := by
  induction zk with
  | nil => simp [weightSum, bubbleSum, bubbleVec, dewSum, dewVec]
  | cons p t ih =>
    obtain ⟨⟨hz, ha⟩, ht⟩ := admissible_cons.mp h
    have ih' := ih ht
    have hc := cross_ge t ht p.2 ha
    rw [bubbleSum_cons, dewSum_cons, weightSum_cons]
    have e : (p.1 * p.2 + bubbleSum t) * (p.1 / p.2 + dewSum t)
        = p.1 ^ 2 + p.1 * (bubbleSum t / p.2 + p.2 * dewSum t) + bubbleSum t * dewSum t := by
      field_simp
      ring
    rw [e]
    have : p.1 * (2 * weightSum t) ≤ p.1 * (bubbleSum t / p.2 + p.2 * dewSum t) :=
      mul_le_mul_of_nonneg_left hc hz
    nlinarith [this, ih']

/-! ### strict monotonicity of weighted sums -/

/-- Two K-vectors over the same weights, the second strictly larger componentwise. -/
def StrictlyBelow (l₁ l₂ : List (α × α)) : Prop :=
  List.Forall₂ (fun p q => p.1 = q.1 ∧ p.2 < q.2) l₁ l₂

theorem bubbleSum_le {l₁ l₂ : List (α × α)} (h : StrictlyBelow l₁ l₂) (ha : Admissible l₁) :
    bubbleSum l₁ ≤ bubbleSum l₂ := by
  induction h with
  | nil => simp
  | @cons p q t₁ t₂ hpq _ ih =>
    obtain ⟨⟨hz, _⟩, hat⟩ := admissible_cons.mp ha
    rw [bubbleSum_cons, bubbleSum_cons, ← hpq.1]
    have := ih hat
    have : p.1 * p.2 ≤ p.1 * q.2 := mul_le_mul_of_nonneg_left hpq.2.le hz
    linarith

theorem dewSum_le {l₁ l₂ : List (α × α)} (h : StrictlyBelow l₁ l₂) (ha : Admissible l₁) :
    dewSum l₂ ≤ dewSum l₁ := by
  induction h with
  | nil => simp
  | @cons p q t₁ t₂ hpq _ ih =>
    obtain ⟨⟨hz, hk⟩, hat⟩ := admissible_cons.mp ha
    rw [dewSum_cons, dewSum_cons, ← hpq.1]
    have := ih hat
    have : p.1 / q.2 ≤ p.1 / p.2 := div_le_div_of_nonneg_left hz hk hpq.2.le
    linarith

theorem bubbleSum_lt {l₁ l₂ : List (α × α)} (h : StrictlyBelow l₁ l₂) (ha : Admissible l₁)
    (hs : 0 < weightSum l₁) : bubbleSum l₁ < bubbleSum l₂ := by
  induction h with
  | nil => simp [weightSum] at hs
  | @cons p q t₁ t₂ hpq ht ih =>
    obtain ⟨⟨hz, hk⟩, hat⟩ := admissible_cons.mp ha
    rw [bubbleSum_cons, bubbleSum_cons]
    rw [weightSum_cons] at hs
    obtain ⟨hzq, hlt⟩ := hpq
    rw [← hzq]
    have htail : bubbleSum t₁ ≤ bubbleSum t₂ := bubbleSum_le ht hat
    rcases (lt_or_eq_of_le hz) with hzpos | hz0
    · have : p.1 * p.2 < p.1 * q.2 := mul_lt_mul_of_pos_left hlt hzpos
      linarith
    · have hpos : 0 < weightSum t₁ := by linarith
      have := ih hat hpos
      rw [← hz0]
      linarith

theorem dewSum_lt {l₁ l₂ : List (α × α)} (h : StrictlyBelow l₁ l₂) (ha : Admissible l₁)
    (hs : 0 < weightSum l₁) : dewSum l₂ < dewSum l₁ := by
  induction h with
  | nil => simp [weightSum] at hs
  | @cons p q t₁ t₂ hpq ht ih =>
    obtain ⟨⟨hz, hk⟩, hat⟩ := admissible_cons.mp ha
    rw [dewSum_cons, dewSum_cons]
    rw [weightSum_cons] at hs
    obtain ⟨hzq, hlt⟩ := hpq
    rw [← hzq]
    have htail : dewSum t₂ ≤ dewSum t₁ := dewSum_le ht hat
    rcases (lt_or_eq_of_le hz) with hzpos | hz0
    · have : p.1 / q.2 < p.1 / p.2 := div_lt_div_of_pos_left hzpos hk hlt
      linarith
    · have hpos : 0 < weightSum t₁ := by linarith
      have := ih hat hpos
      rw [← hz0]
      simp only [zero_div, zero_add]
      exact this


/-! ## facts about the model's own definitions and auxiliary lemmas for Props/C08
(definitional unfoldings such as `solve_multi` / `solve_single` live here so that the obligation count of
Props/C08 reflects statements of the property only) -/

/-- What `solve` returns when at least two components are present. -/
theorem solve_multi (v : Variant) (m : Method) (i : Input α) (n : Nat)
    (h : countPos (i.comps.map (·.z)) = n + 2) :
    solve v m i = .ok { value := i.ret,
                        fracs := fnNormalize i.minimum (vec m (pairs v m i.comps i.P)),
                        residual := residual m (pairs v m i.comps i.P), single := false } := by
  simp [solve, h]

/-- `fn.normalize` always returns fractions that sum to one (both of its branches). -/
theorem fnNormalize_sum (minimum : α) (l : List α) (hmin : 0 < minimum) (hl : l ≠ []) :
    (fnNormalize minimum l).sum = 1 := by
  unfold fnNormalize
  split
  · rw [sum_replicate']
    have : (l.length : α) ≠ 0 := by
      have : l.length ≠ 0 := by simpa using hl
      exact_mod_cast this
    field_simp
  · rename_i hge
    have hpos : 0 < l.sum := lt_of_lt_of_le hmin (not_lt.mp hge)
    rw [sum_map_div']
    exact div_self hpos.ne'

theorem entryZ_fixed (m : Method) (z : List α) : entryZ .fixed m z = normalizeZ z := by
  cases m <;> rfl

theorem normalizeZ_scale (k : α) (hk : k ≠ 0) (z : List α) :
    normalizeZ (z.map (k * ·)) = normalizeZ z := by
  unfold normalizeZ
  rw [sum_map_mul_left', List.map_map]
  apply List.map_congr_left
  intro a _
  simp only [Function.comp]
  rw [mul_div_mul_left _ _ hk]

theorem countPos_scale (k : α) (hk : 0 < k) (z : List α) :
    countPos (z.map (k * ·)) = countPos z := by
  unfold countPos
  rw [List.filter_map, List.length_map]
  congr 1
  apply List.filter_congr
  intro a _
  simp [Function.comp, mul_pos_iff_of_pos_left hk]

theorem pairs_fixed_eq_map (m : Method) (comps : List (Comp α)) (P : α) :
    pairs .fixed m comps P = comps.map (fun c => (c.z / (comps.map (·.z)).sum, c.K P)) := by
  unfold pairs
  rw [entryZ_fixed]
  unfold normalizeZ
  rw [List.map_map, List.zip_map']
  rfl

theorem vec_fixed_eq_map (m : Method) (comps : List (Comp α)) (P : α) :
    vec m (pairs .fixed m comps P) =
      comps.map (fun c => if m.isBubble then c.z / (comps.map (·.z)).sum * c.K P
                          else c.z / (comps.map (·.z)).sum / c.K P) := by
  rw [pairs_fixed_eq_map]
  cases m <;> simp [vec, Method.isBubble, bubbleVec, dewVec, List.map_map, Function.comp]

/-- What `solve` returns when exactly one component is present (definitional: unfolds `solve`). -/
theorem solve_single (v : Variant) (m : Method) (i : Input α)
    (h : countPos (i.comps.map (·.z)) = 1) :
    solve v m i = .ok { value := if i.critSpec < i.spec then i.critRet else i.sat,
                        fracs := fnNormalize i.minimum (i.comps.map (·.z)),
                        residual := if i.critSpec < i.spec then 0 else residual m (pairs .fixed m i.comps i.P),
                        single := true } := by
  simp [solve, h]

theorem sum_zero_of_all_zero (l : List (Comp α)) (f : Comp α → α) (h : ∀ c ∈ l, f c = 0) :
    (l.map f).sum = 0 := by
  induction l with
  | nil => simp
  | cons c t ih =>
    simp only [List.map_cons, List.sum_cons]
    rw [h c (by simp), ih (fun c hc => h c (by simp [hc]))]
    simp

/-- K-values at pressure `P` from P-independent `κ`: `K_i = κ_i / P`. -/
def atP (zk : List (α × α)) (P : α) : List (α × α) := zk.map (fun p => (p.1, p.2 / P))

theorem bubbleSum_atP (zk : List (α × α)) (P : α) : bubbleSum (atP zk P) = bubbleSum zk / P := by
  induction zk with
  | nil => simp [atP, bubbleSum, bubbleVec]
  | cons p t ih =>
    have : atP (p :: t) P = (p.1, p.2 / P) :: atP t P := rfl
    rw [this, bubbleSum_cons, bubbleSum_cons, ih]; ring

theorem dewSum_atP (zk : List (α × α)) (P : α) : dewSum (atP zk P) = dewSum zk * P := by
  induction zk with
  | nil => simp [atP, dewSum, dewVec]
  | cons p t ih =>
    have : atP (p :: t) P = (p.1, p.2 / P) :: atP t P := rfl
    rw [this, dewSum_cons, dewSum_cons, ih]
    simp only [div_div_eq_mul_div]; ring

/-- A system: amounts `z_i` and K-values as functions of temperature (at the given
pressure), `K_i(T) = γ_i·pcf_i·Psat_i(T) / (φ_i·P)`. -/
def atT (sys : List (α × (α → α))) (T : α) : List (α × α) := sys.map (fun p => (p.1, p.2 T))

/-- non-negative amounts; every `K_i` positive and strictly increasing in `T` -/
def Regular (sys : List (α × (α → α))) : Prop :=
  ∀ p ∈ sys, 0 ≤ p.1 ∧ (∀ T, 0 < p.2 T) ∧ StrictMono p.2

theorem regular_admissible (sys : List (α × (α → α))) (h : Regular sys) (T : α) :
    Admissible (atT sys T) := by
  intro q hq
  simp only [atT, List.mem_map] at hq
  obtain ⟨p, hp, rfl⟩ := hq
  exact ⟨(h p hp).1, (h p hp).2.1 T⟩

theorem weightSum_atT (sys : List (α × (α → α))) (T : α) :
    weightSum (atT sys T) = (sys.map (·.1)).sum := by
  unfold weightSum atT
  rw [List.map_map]
  rfl

theorem strictlyBelow_atT (sys : List (α × (α → α))) (h : Regular sys) {T₁ T₂ : α} (hT : T₁ < T₂) :
    StrictlyBelow (atT sys T₁) (atT sys T₂) := by
  induction sys with
  | nil => exact List.Forall₂.nil
  | cons p t ih =>
    refine List.Forall₂.cons ⟨rfl, (h p (by simp)).2.2 hT⟩ (ih ?_)
    intro q hq; exact h q (by simp [hq])

/-- entries form a one-to-one relation between keys and ids, ids below the size -/
def CacheGood (c : Cache) : Prop :=
  (∀ e₁ ∈ c.entries, ∀ e₂ ∈ c.entries, (e₁.1 = e₂.1 ↔ e₁.2 = e₂.2)) ∧
  (∀ e ∈ c.entries, e.2 < c.entries.length)

theorem find_some_mem (c : Cache) (k : Key) (id : Nat) (h : c.find k = some id) :
    (k, id) ∈ c.entries := by
  unfold Cache.find at h
  cases hf : c.entries.find? (fun e => e.1 == k) with
  | none => simp [hf] at h
  | some e =>
    simp [hf] at h
    have hm := List.mem_of_find?_eq_some hf
    have hk := List.find?_some hf
    simp at hk
    rw [← h, ← hk]; exact hm

theorem find_none_not_mem (c : Cache) (k : Key) (h : c.find k = none) :
    ∀ e ∈ c.entries, e.1 ≠ k := by
  unfold Cache.find at h
  simp at h
  intro e he hk
  exact h e.1 e.2 he hk

theorem get_spec (c : Cache) (k : Key) (hg : CacheGood c) :
    CacheGood (c.get k).1 ∧ (∀ e ∈ c.entries, e ∈ (c.get k).1.entries) ∧
    (k, (c.get k).2) ∈ (c.get k).1.entries := by
  unfold Cache.get
  cases hf : c.find k with
  | some id => exact ⟨hg, fun e he => he, find_some_mem c k id hf⟩
  | none =>
    have hn := find_none_not_mem c k hf
    obtain ⟨h1, h2⟩ := hg
    refine ⟨⟨?_, ?_⟩, ?_, ?_⟩
    · intro e₁ he₁ e₂ he₂
      simp only [List.mem_append, List.mem_singleton] at he₁ he₂
      rcases he₁ with he₁ | rfl <;> rcases he₂ with he₂ | rfl
      · exact h1 e₁ he₁ e₂ he₂
      · constructor
        · intro hk; exact absurd hk (hn e₁ he₁)
        · intro hi; have := h2 e₁ he₁; simp at hi; omega
      · constructor
        · intro hk; exact absurd hk.symm (hn e₂ he₂)
        · intro hi; have := h2 e₂ he₂; simp at hi; omega
      · simp
    · intro e he
      simp only [List.mem_append, List.mem_singleton, List.length_append, List.length_singleton] at he ⊢
      rcases he with he | rfl
      · have := h2 e he; omega
      · simp
    · intro e he; simp [he]
    · simp

theorem run_spec (ks : List Key) : ∀ (c : Cache), CacheGood c →
    CacheGood (c.run ks).1 ∧ (∀ e ∈ c.entries, e ∈ (c.run ks).1.entries) ∧
    (c.run ks).2.length = ks.length ∧
    ∀ j (hj : j < ks.length) (hj' : j < (c.run ks).2.length),
      (ks[j], (c.run ks).2[j]) ∈ (c.run ks).1.entries := by
  induction ks with
  | nil => intro c hg; simp [Cache.run, hg]
  | cons k t ih =>
    intro c hg
    obtain ⟨g1, s1, m1⟩ := get_spec c k hg
    obtain ⟨g2, s2, l2, m2⟩ := ih (c.get k).1 g1
    simp only [Cache.run]
    refine ⟨g2, fun e he => s2 e (s1 e he), by simp [l2], ?_⟩
    intro j hj hj'
    cases j with
    | zero => simpa using s2 _ m1
    | succ j =>
      simp only [List.getElem_cons_succ]
      exact m2 j (by simpa using hj) (by simpa using hj')

/-- `Regular` (hypothesis of `bubble_le_dew_T`, `TP_inverse_*`) is satisfiable: a positive,
strictly increasing function on the whole of an ordered field is
`T ↦ c·(if T < 0 then 1/(1 − T) else 1 + T)`. -/
def kfun (c : ℚ) (T : ℚ) : ℚ := c * (if T < 0 then 1 / (1 - T) else 1 + T)

theorem kfun_pos (c : ℚ) (hc : 0 < c) (T : ℚ) : 0 < kfun c T := by
  unfold kfun
  split
  · rename_i h; have : 0 < 1 - T := by linarith
    positivity
  · rename_i h; have : 0 ≤ T := not_lt.mp h
    positivity

theorem kfun_strictMono (c : ℚ) (hc : 0 < c) : StrictMono (kfun c) := by
  intro a b hab
  unfold kfun
  apply mul_lt_mul_of_pos_left _ hc
  by_cases ha : a < 0 <;> by_cases hb : b < 0
  · simp only [ha, hb, if_true]
    have h1 : 0 < 1 - a := by linarith
    have h2 : 0 < 1 - b := by linarith
    exact one_div_lt_one_div_of_lt h2 (by linarith)
  · simp only [ha, hb, if_true, if_false]
    have h1 : 1 < 1 - a := by linarith
    have hb' : 0 ≤ b := not_lt.mp hb
    have : 1 / (1 - a) < 1 := by rw [div_lt_one (by linarith)]; exact h1
    linarith
  · exact absurd (lt_trans hab hb) ha
  · simp only [ha, hb, if_false]; linarith

theorem countPos_single (pre post : List (Comp α)) (c : Comp α) (hz : 0 < c.z)
    (hpre : ∀ d ∈ pre, d.z = 0) (hpost : ∀ d ∈ post, d.z = 0) :
    countPos ((pre ++ c :: post).map (·.z)) = 1 := by
  unfold countPos
  have h1 : (pre.map (·.z)).filter (fun x => decide (0 < x)) = [] := by
    rw [List.filter_eq_nil_iff]
    intro x hx
    simp only [List.mem_map] at hx
    obtain ⟨d, hd, rfl⟩ := hx
    simp [hpre d hd]
  have h2 : (post.map (·.z)).filter (fun x => decide (0 < x)) = [] := by
    rw [List.filter_eq_nil_iff]
    intro x hx
    simp only [List.mem_map] at hx
    obtain ⟨d, hd, rfl⟩ := hx
    simp [hpost d hd]
  simp [List.filter_append, h1, h2, hz]

/-- the composition that enters the residual, at system level: weights divided by their total -/
def normSys (sys : List (α × (α → α))) : List (α × (α → α)) :=
  sys.map (fun p => (p.1 / (sys.map (·.1)).sum, p.2))

/-- `z ↦ k·z` at system level -/
def scaleSys (k : α) (sys : List (α × (α → α))) : List (α × (α → α)) :=
  sys.map (fun p => (k * p.1, p.2))

theorem weights_scaleSys (k : α) (sys : List (α × (α → α))) :
    ((scaleSys k sys).map (·.1)).sum = k * (sys.map (·.1)).sum := by
  have := sum_map_mul_left' k (sys.map (·.1))
  rw [List.map_map] at this
  rw [← this]
  simp only [scaleSys, List.map_map]
  rfl

theorem normSys_scale (k : α) (hk : k ≠ 0) (sys : List (α × (α → α))) :
    normSys (scaleSys k sys) = normSys sys := by
  unfold normSys
  rw [weights_scaleSys]
  simp only [scaleSys, List.map_map]
  apply List.map_congr_left
  intro p _
  simp only [Function.comp]
  rw [mul_div_mul_left _ _ hk]

theorem weights_normSys (sys : List (α × (α → α))) (hs : (sys.map (·.1)).sum ≠ 0) :
    ((normSys sys).map (·.1)).sum = 1 := by
  have := sum_map_div' (sys.map (·.1)).sum (sys.map (·.1))
  rw [List.map_map] at this
  simp only [normSys, List.map_map]
  rw [show ((fun x : α × (α → α) => x.1) ∘ fun p : α × (α → α) => (p.1 / (sys.map (·.1)).sum, p.2))
        = ((fun x => x / (sys.map (·.1)).sum) ∘ fun x : α × (α → α) => x.1) from rfl, this]
  exact div_self hs

theorem regular_normSys (sys : List (α × (α → α))) (h : Regular sys) (hs : 0 < (sys.map (·.1)).sum) :
    Regular (normSys sys) := by
  intro q hq
  simp only [normSys, List.mem_map] at hq
  obtain ⟨p, hp, rfl⟩ := hq
  exact ⟨div_nonneg (h p hp).1 hs.le, (h p hp).2.1, (h p hp).2.2⟩

theorem atT_normSys_perm {sys sys' : List (α × (α → α))} (hp : sys.Perm sys') (T : α) :
    (atT (normSys sys) T).Perm (atT (normSys sys') T) := by
  have hs : (sys'.map (·.1)).sum = (sys.map (·.1)).sum := (perm_sum (hp.map _)).symm
  unfold atT normSys
  rw [hs]
  exact (hp.map _).map _

theorem bubbleSum_perm {l₁ l₂ : List (α × α)} (h : l₁.Perm l₂) : bubbleSum l₁ = bubbleSum l₂ :=
  perm_sum (h.map _)

theorem dewSum_perm {l₁ l₂ : List (α × α)} (h : l₁.Perm l₂) : dewSum l₁ = dewSum l₂ :=
  perm_sum (h.map _)

end ThermoVerif.BubbleDew
