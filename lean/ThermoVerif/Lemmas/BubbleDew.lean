import ThermoVerif.Model.BubbleDew
import Mathlib.Tactic.Ring
import Mathlib.Tactic.Linarith
import Mathlib.Tactic.FieldSimp
import Mathlib.Tactic.Positivity
import Mathlib.Algebra.Order.Field.Basic
/-
Helper lemmas for C08: sums over lists in an ordered field, the weighted
harmonic ≤ arithmetic mean inequality (Cauchy–Schwarz form), strict monotonicity
of weighted sums, permutation invariance.
-/
namespace ThermoVerif.BubbleDew
set_option linter.unusedSectionVars false
variable {α : Type} [Field α] [LinearOrder α] [IsStrictOrderedRing α]

theorem sum_map_mul_left' (k : α) (l : List α) : (l.map (k * ·)).sum = k * l.sum := by
  induction l with
  | nil => simp
  | cons a t ih => simp [ih, mul_add]

theorem sum_map_div' (s : α) (l : List α) : (l.map (· / s)).sum = l.sum / s := by
  induction l with
  | nil => simp
  | cons a t ih => simp [ih, add_div]

theorem perm_sum {l₁ l₂ : List α} (h : l₁.Perm l₂) : l₁.sum = l₂.sum := by
  induction h with
  | nil => rfl
  | cons a _ ih => simp [ih]
  | swap a b l => simp only [List.sum_cons]; ring
  | trans _ _ ih₁ ih₂ => exact ih₁.trans ih₂

theorem sum_replicate' (n : Nat) (a : α) : (List.replicate n a).sum = n * a := by
  induction n with
  | zero => simp
  | succ n ih => simp [List.replicate_succ, ih]; ring

/-! ### weights: pairs `(z, k)` with `z ≥ 0`, `k > 0` -/

/-- all weights non-negative, all K-values positive -/
def Admissible (zk : List (α × α)) : Prop := ∀ p ∈ zk, 0 ≤ p.1 ∧ 0 < p.2

def weightSum (zk : List (α × α)) : α := (zk.map (·.1)).sum

theorem admissible_cons {p : α × α} {t : List (α × α)} :
    Admissible (p :: t) ↔ (0 ≤ p.1 ∧ 0 < p.2) ∧ Admissible t := by
  simp [Admissible]

theorem weightSum_nonneg {zk : List (α × α)} (h : Admissible zk) : 0 ≤ weightSum zk := by
  induction zk with
  | nil => simp [weightSum]
  | cons p t ih =>
    obtain ⟨⟨hz, _⟩, ht⟩ := admissible_cons.mp h
    have := ih ht
    simp only [weightSum, List.map_cons, List.sum_cons] at this ⊢
    linarith

theorem bubbleSum_cons (p : α × α) (t : List (α × α)) :
    bubbleSum (p :: t) = p.1 * p.2 + bubbleSum t := by
  simp [bubbleSum, bubbleVec]

theorem dewSum_cons (p : α × α) (t : List (α × α)) :
    dewSum (p :: t) = p.1 / p.2 + dewSum t := by
  simp [dewSum, dewVec]

theorem weightSum_cons (p : α × α) (t : List (α × α)) :
    weightSum (p :: t) = p.1 + weightSum t := by
  simp [weightSum]

theorem bubbleSum_nonneg {zk : List (α × α)} (h : Admissible zk) : 0 ≤ bubbleSum zk := by
  induction zk with
  | nil => simp [bubbleSum, bubbleVec]
  | cons p t ih =>
    obtain ⟨⟨hz, hk⟩, ht⟩ := admissible_cons.mp h
    rw [bubbleSum_cons]
    have := ih ht
    have := mul_nonneg hz hk.le
    linarith

theorem dewSum_nonneg {zk : List (α × α)} (h : Admissible zk) : 0 ≤ dewSum zk := by
  induction zk with
  | nil => simp [dewSum, dewVec]
  | cons p t ih =>
    obtain ⟨⟨hz, hk⟩, ht⟩ := admissible_cons.mp h
    rw [dewSum_cons]
    have := ih ht
    have := div_nonneg hz hk.le
    linarith

/-- `a/k + k/a ≥ 2` in the form used below: `z·a/k + k·(z/a) ≥ 2z`. -/
theorem two_le_ratio (z a k : α) (hz : 0 ≤ z) (ha : 0 < a) (hk : 0 < k) :
    2 * z ≤ z * a / k + k * (z / a) := by
  have h1 : z * a / k + k * (z / a) - 2 * z = z * (a - k) ^ 2 / (a * k) := by
    field_simp
    ring
  have h2 : 0 ≤ z * (a - k) ^ 2 / (a * k) := by positivity
  linarith

/-- For every `k > 0`: `A/k + k·B ≥ 2·S`. -/
theorem cross_ge (zk : List (α × α)) (h : Admissible zk) (k : α) (hk : 0 < k) :
    2 * weightSum zk ≤ bubbleSum zk / k + k * dewSum zk := by
  induction zk with
  | nil => simp [weightSum, bubbleSum, bubbleVec, dewSum, dewVec]
  | cons p t ih =>
    obtain ⟨⟨hz, ha⟩, ht⟩ := admissible_cons.mp h
    have := ih ht
    have h2 := two_le_ratio p.1 p.2 k hz ha hk
    rw [bubbleSum_cons, dewSum_cons, weightSum_cons, add_div, mul_add]
    linarith

/-- Cauchy–Schwarz for the weights: `(Σ z)² ≤ (Σ z·k)(Σ z/k)`; with `Σ z = 1` this is
"weighted harmonic mean ≤ weighted arithmetic mean". -/
theorem weightSum_sq_le (zk : List (α × α)) (h : Admissible zk) :
    weightSum zk ^ 2 ≤ bubbleSum zk * dewSum zk := by
  induction zk with
  | nil => simp [weightSum, bubbleSum, bubbleVec, dewSum, dewVec]
  | cons p t ih =>
    obtain ⟨⟨hz, ha⟩, ht⟩ := admissible_cons.mp h
    have ih' := ih ht
    have hc := cross_ge t ht p.2 ha
    rw [bubbleSum_cons, dewSum_cons, weightSum_cons]
    have e : (p.1 * p.2 + bubbleSum t) * (p.1 / p.2 + dewSum t)
        = p.1 ^ 2 + p.1 * (bubbleSum t / p.2 + p.2 * dewSum t) + bubbleSum t * dewSum t := by
      field_simp
      ring
    rw [e]
    have : p.1 * (2 * weightSum t) ≤ p.1 * (bubbleSum t / p.2 + p.2 * dewSum t) :=
      mul_le_mul_of_nonneg_left hc hz
    nlinarith [this, ih']

/-! ### strict monotonicity of weighted sums -/

/-- Two K-vectors over the same weights, the second strictly larger componentwise. -/
def StrictlyBelow (l₁ l₂ : List (α × α)) : Prop :=
  List.Forall₂ (fun p q => p.1 = q.1 ∧ p.2 < q.2) l₁ l₂

theorem bubbleSum_le {l₁ l₂ : List (α × α)} (h : StrictlyBelow l₁ l₂) (ha : Admissible l₁) :
    bubbleSum l₁ ≤ bubbleSum l₂ := by
  induction h with
  | nil => simp
  | @cons p q t₁ t₂ hpq _ ih =>
    obtain ⟨⟨hz, _⟩, hat⟩ := admissible_cons.mp ha
    rw [bubbleSum_cons, bubbleSum_cons, ← hpq.1]
    have := ih hat
    have : p.1 * p.2 ≤ p.1 * q.2 := mul_le_mul_of_nonneg_left hpq.2.le hz
    linarith

theorem dewSum_le {l₁ l₂ : List (α × α)} (h : StrictlyBelow l₁ l₂) (ha : Admissible l₁) :
    dewSum l₂ ≤ dewSum l₁ := by
  induction h with
  | nil => simp
  | @cons p q t₁ t₂ hpq _ ih =>
    obtain ⟨⟨hz, hk⟩, hat⟩ := admissible_cons.mp ha
    rw [dewSum_cons, dewSum_cons, ← hpq.1]
    have := ih hat
    have : p.1 / q.2 ≤ p.1 / p.2 := div_le_div_of_nonneg_left hz hk hpq.2.le
    linarith

theorem bubbleSum_lt {l₁ l₂ : List (α × α)} (h : StrictlyBelow l₁ l₂) (ha : Admissible l₁)
    (hs : 0 < weightSum l₁) : bubbleSum l₁ < bubbleSum l₂ := by
  induction h with
  | nil => simp [weightSum] at hs
  | @cons p q t₁ t₂ hpq ht ih =>
    obtain ⟨⟨hz, hk⟩, hat⟩ := admissible_cons.mp ha
    rw [bubbleSum_cons, bubbleSum_cons]
    rw [weightSum_cons] at hs
    obtain ⟨hzq, hlt⟩ := hpq
    rw [← hzq]
    have htail : bubbleSum t₁ ≤ bubbleSum t₂ := bubbleSum_le ht hat
    rcases (lt_or_eq_of_le hz) with hzpos | hz0
    · have : p.1 * p.2 < p.1 * q.2 := mul_lt_mul_of_pos_left hlt hzpos
      linarith
    · have hpos : 0 < weightSum t₁ := by linarith
      have := ih hat hpos
      rw [← hz0]
      linarith

theorem dewSum_lt {l₁ l₂ : List (α × α)} (h : StrictlyBelow l₁ l₂) (ha : Admissible l₁)
    (hs : 0 < weightSum l₁) : dewSum l₂ < dewSum l₁ := by
  induction h with
  | nil => simp [weightSum] at hs
  | @cons p q t₁ t₂ hpq ht ih =>
    obtain ⟨⟨hz, hk⟩, hat⟩ := admissible_cons.mp ha
    rw [dewSum_cons, dewSum_cons]
    rw [weightSum_cons] at hs
    obtain ⟨hzq, hlt⟩ := hpq
    rw [← hzq]
    have htail : dewSum t₂ ≤ dewSum t₁ := dewSum_le ht hat
    rcases (lt_or_eq_of_le hz) with hzpos | hz0
    · have : p.1 / q.2 < p.1 / p.2 := div_lt_div_of_pos_left hzpos hk hlt
      linarith
    · have hpos : 0 < weightSum t₁ := by linarith
      have := ih hat hpos
      rw [← hz0]
      simp only [zero_div, zero_add]
      exact this

end ThermoVerif.BubbleDew
