import ThermoVerif.Props.C09
/-
Helper lemmas and auxiliary definitions for Props/C09Store.lean (property C09): plumbing about lists, options, the
store and the NumPy reference that the property theorems use.  Nothing here is a clause of the property.
-/
namespace ThermoVerif.Props.C09
open ThermoVerif.Sparse ThermoVerif.Dense

theorem except_mapM_mem {α β ε : Type} (f : α → Except ε β) :
    ∀ (l : List α) (r : List β), l.mapM f = .ok r → ∀ y ∈ r, ∃ x ∈ l, f x = .ok y := by
  intro l
  induction l with
  | nil => intro r h y hy; simp [List.mapM_nil, pure, Except.pure] at h; subst h; cases hy
  | cons a l ih =>
    intro r h y hy
    rw [List.mapM_cons] at h
    cases hfa : f a with
    | error e => rw [hfa] at h; cases h
    | ok b =>
      rw [hfa] at h
      cases hl : l.mapM f with
      | error e => rw [hl] at h; cases h
      | ok bs =>
        rw [hl] at h
        simp only [bind, Except.bind, pure, Except.pure, Except.ok.injEq] at h
        subst h
        rcases List.mem_cons.mp hy with e | e
        · subst e; exact ⟨a, List.mem_cons_self, hfa⟩
        · obtain ⟨x, hx, hfx⟩ := ih bs hl y e
          exact ⟨x, List.mem_cons_of_mem _ hx, hfx⟩

theorem option_mapM_mem {α β : Type} (f : α → Option β) :
    ∀ (l : List α) (r : List β), l.mapM f = some r → ∀ y ∈ r, ∃ x ∈ l, f x = some y := by
  intro l
  induction l with
  | nil => intro r h y hy; simp [List.mapM_nil, pure] at h; subst h; cases hy
  | cons a l ih =>
    intro r h y hy
    rw [List.mapM_cons] at h
    cases hfa : f a with
    | none => rw [hfa] at h; cases h
    | some b =>
      rw [hfa] at h
      cases hl : l.mapM f with
      | none => rw [hl] at h; cases h
      | some bs =>
        rw [hl] at h
        simp only [bind, Option.bind, pure, Option.some.injEq] at h
        subst h
        rcases List.mem_cons.mp hy with e | e
        · subst e; exact ⟨a, List.mem_cons_self, hfa⟩
        · obtain ⟨x, hx, hfx⟩ := ih bs hl y e
          exact ⟨x, List.mem_cons_of_mem _ hx, hfx⟩

def VecWF : VecObj → Prop
  | .sv v => v.WF
  | .slv v => SLVWF v

/-- an array lists ids of vector objects of the store -/
def ObjWF (s : Store) : Obj → Prop
  | .sv v => v.WF
  | .slv v => SLVWF v
  | .sa rows => ∀ r ∈ rows, (s.getVec r).isSome

/-- every object of the store satisfies the representation invariant -/
def StoreWF (s : Store) : Prop := ∀ (i : Nat) (o : Obj), s[i]? = some o → ObjWF s o

theorem vec_toSV_wf {v : VecObj} (h : VecWF v) : v.toSV.WF := by
  cases v with
  | sv x => exact h
  | slv x => exact slv_toSV_wf h

theorem vec_toSet_wf {v : VecObj} (h : VecWF v) : SLVWF v.toSet := by
  cases v with
  | sv x => exact slv_ofSV_wf h
  | slv x => exact h

theorem getVec_wf {s : Store} (hs : StoreWF s) {i : Nat} {v : VecObj} (h : s.getVec i = some v) : VecWF v := by
  unfold Store.getVec at h
  split at h
  · rename_i x hx; simp only [Option.some.injEq] at h; subst h; exact hs i _ hx
  · rename_i x hx; simp only [Option.some.injEq] at h; subst h; exact hs i _ hx
  · cases h

theorem rowsVec_wf {s : Store} (hs : StoreWF s) {rows : List Nat} {rs : List VecObj} (h : s.rowsVec rows = some rs) :
    ∀ r ∈ rs, VecWF r := by
  intro r hr
  obtain ⟨i, _, hi⟩ := option_mapM_mem _ rows rs h r hr
  exact getVec_wf hs hi

theorem coerce_wf (sb ob : Bool) (v : VecObj) (me : Bool) (hv : VecWF v) : VecWF (coerce sb ob v me) := by
  unfold coerce
  split
  · split
    · exact vec_toSV_wf hv
    · exact hv
  · split
    · exact vec_toSV_wf hv
    · exact hv

/-- results of the binary templates -/
def VResWF : VRes → Prop
  | .vec v => VecWF v
  | .rows l => ∀ v ∈ l, VecWF v

theorem objWF_vec {s : Store} (hs : StoreWF s) {j : Nat} {o : Obj} (h : s[j]? = some o) :
    match o with | .sv v => v.WF | .slv v => SLVWF v | .sa _ => True := by
  have := hs j o h
  cases o <;> simp [ObjWF] at this ⊢ <;> exact this

theorem subOverride_wf (self : VecObj) (op : BinOp) (h : VecWF self) : VecWF (subOverride self op) := by
  unfold subOverride
  split
  · exact slv_toSV_wf h
  · exact h

theorem vec_toObj_wf {s : Store} {v : VecObj} (h : VecWF v) : ObjWF s v.toObj := by
  cases v <;> exact h

theorem getVec_toObj (v : VecObj) (s : Store) (i : Nat) (h : s[i]? = some v.toObj) : s.getVec i = some v := by
  unfold Store.getVec
  cases v <;> simp [VecObj.toObj] at h ⊢ <;> rw [h]

theorem getVec_append {s : Store} (t : Store) {i : Nat} (h : (s.getVec i).isSome) : ((s ++ t).getVec i).isSome := by
  unfold Store.getVec at h ⊢
  have hi : i < s.length := by
    by_contra hc
    have : s[i]? = none := List.getElem?_eq_none (by omega)
    simp [this] at h
  rw [List.getElem?_append_left hi]
  exact h

theorem objWF_append {s : Store} (t : Store) {o : Obj} (h : ObjWF s o) : ObjWF (s ++ t) o := by
  cases o with
  | sv v => exact h
  | slv v => exact h
  | sa rows => intro r hr; exact getVec_append t (h r hr)

theorem storeWF_append {s : Store} (hs : StoreWF s) (t : Store) (ht : ∀ o ∈ t, ObjWF (s ++ t) o) : StoreWF (s ++ t) := by
  intro i o hi
  by_cases h : i < s.length
  · rw [List.getElem?_append_left h] at hi
    exact objWF_append t (hs i o hi)
  · rw [List.getElem?_append_right (by omega)] at hi
    exact ht o (List.mem_of_getElem? hi)

theorem storeWF_alloc {s : Store} (hs : StoreWF s) (o : Obj) (ho : ObjWF (s ++ [o]) o) : StoreWF (s.alloc o).1 := by
  unfold Store.alloc
  exact storeWF_append hs [o] (by intro o' ho'; simp at ho'; subst ho'; exact ho)

theorem storeWF_alloc_vec {s : Store} (hs : StoreWF s) (v : VecObj) (hv : VecWF v) : StoreWF (s.alloc v.toObj).1 :=
  storeWF_alloc hs _ (vec_toObj_wf hv)

theorem storeWF_alloc_sv {s : Store} (hs : StoreWF s) (v : SV) (hv : v.WF) : StoreWF (s.alloc (.sv v)).1 :=
  storeWF_alloc_vec hs (.sv v) hv

theorem storeWF_alloc_slv {s : Store} (hs : StoreWF s) (v : SLV) (hv : SLVWF v) : StoreWF (s.alloc (.slv v)).1 :=
  storeWF_alloc_vec hs (.slv v) hv

theorem getVec_set {s : Store} (a : Nat) (v : VecObj) (r : Nat) (h : (s.getVec r).isSome) :
    (Store.getVec (s.set a v.toObj) r).isSome := by
  unfold Store.getVec at h ⊢
  rw [List.getElem?_set]
  by_cases e : a = r
  · subst e
    have hi : a < s.length := by
      by_contra hc
      have : s[a]? = none := List.getElem?_eq_none (by omega)
      simp [this] at h
    simp only [hi, ↓reduceIte]
    cases v <;> simp [VecObj.toObj]
  · simp only [e, ↓reduceIte]; exact h

/-- replacing a vector object by a well-formed vector keeps the invariant of the whole store -/
theorem storeWF_set_vec {s : Store} (hs : StoreWF s) (a : Nat) (v : VecObj) (hv : VecWF v) :
    StoreWF (s.set a v.toObj) := by
  intro i o hi
  rw [List.getElem?_set] at hi
  by_cases e : a = i
  · subst e
    simp only [↓reduceIte] at hi
    split at hi
    · simp only [Option.some.injEq] at hi; subst hi; exact vec_toObj_wf hv
    · cases hi
  · simp only [e, ↓reduceIte] at hi
    have := hs i o hi
    cases o with
    | sv x => exact this
    | slv x => exact this
    | sa rows => intro r hr; exact getVec_set a v r (this r hr)

theorem allocRows_spec (s : Store) (l : List VecObj) :
    allocRows s l = (s ++ l.map VecObj.toObj, List.range' s.length l.length) := by
  induction l generalizing s with
  | nil => simp [allocRows]
  | cons v rest ih =>
    unfold allocRows
    simp only [Store.alloc]
    rw [ih]
    simp [List.range'_succ, List.append_assoc]

theorem allocRes_wf {s : Store} (hs : StoreWF s) (r : VRes) (hr : VResWF r) : StoreWF (allocRes s r).1 := by
  cases r with
  | vec v => exact storeWF_alloc_vec hs v hr
  | rows l =>
    simp only [allocRes, allocRows_spec, Store.alloc]
    rw [List.append_assoc]
    apply storeWF_append hs
    intro o ho
    rcases List.mem_append.mp ho with h | h
    · obtain ⟨v, hv, e⟩ := List.mem_map.mp h
      subst e; exact vec_toObj_wf (hr v hv)
    · simp only [List.mem_singleton] at h
      subst h
      intro rid hrid
      obtain ⟨k, hk, e⟩ := List.mem_range'.mp hrid
      simp only [one_mul] at e
      subst e
      have hlen : k < l.length := hk
      have : (s ++ (l.map VecObj.toObj ++ [Obj.sa (List.range' s.length l.length)]))[s.length + k]? = some (l[k].toObj) := by
        rw [List.getElem?_append_right (by omega)]
        simp only [Nat.add_sub_cancel_left]
        rw [List.getElem?_append_left (by simpa using hlen)]
        simp [hlen]
      rw [getVec_toObj _ _ _ this]; rfl

theorem asSV_wf {s : Store} (hs : StoreWF s) {j : Nat} {w : SV} (h : s.asSV j = some w) : w.WF := by
  unfold Store.asSV at h
  split at h
  · rename_i v hj; simp only [Option.some.injEq] at h; subst h; exact hs j _ hj
  · rename_i v hj; simp only [Option.some.injEq] at h; subst h; exact slv_toSV_wf (hs j _ hj)
  · cases h

theorem getSV_wf {s : Store} (hs : StoreWF s) {j : Nat} {w : SV} (h : s.getSV j = some w) : w.WF := by
  unfold Store.getSV at h
  split at h
  · rename_i v hj; simp only [Option.some.injEq] at h; subst h; exact hs j _ hj
  · cases h

theorem okObj_wf {s' : Store} {r : Res} {p : Store × Nat} (h : okObj p = .ok (s', r)) (hp : StoreWF p.1) : StoreWF s' := by
  unfold okObj at h
  simp only [Except.ok.injEq, Prod.mk.injEq] at h
  rw [← h.1]; exact hp

theorem setVal_sv_wf {s : Store} (hs : StoreWF s) {val : Operand} {b : SV} (h : setVal s val = some (.sv b)) : b.WF := by
  unfold setVal at h
  split at h
  · split at h <;> simp at h
  · rename_i j
    split at h
    · rename_i w hj
      split at h
      · simp at h
      · simp only [Option.some.injEq, SV.Val.sv.injEq] at h; subst h; exact hs j _ hj
    · split at h <;> simp at h
    · cases h

theorem getVec_size_of_setVal {s : Store} (hs : StoreWF s) {val : Operand} {x : SV.Val} (h : setVal s val = some x) :
    ∀ j, val = .ref j → ∀ o, s.getVec j = some o → o.size ≠ 1 → (o.toSet.set.Nodup ∧ ∀ i ∈ o.toSet.set, i < x.len) := by
  intro j hj o ho hne
  subst hj
  have hwf := vec_toSet_wf (getVec_wf hs ho)
  unfold setVal at h
  simp only at h
  unfold Store.getVec at ho
  split at ho
  · rename_i b hb
    simp only [Option.some.injEq] at ho; subst ho
    rw [hb] at h
    simp only [VecObj.size] at hne
    simp only [hne, ↓reduceIte, Option.some.injEq] at h
    subst h
    exact ⟨hwf.1, hwf.2⟩
  · rename_i b hb
    simp only [Option.some.injEq] at ho; subst ho
    rw [hb] at h
    simp only [VecObj.size] at hne
    simp only [hne, ↓reduceIte, Option.some.injEq] at h
    subst h
    refine ⟨hwf.1, ?_⟩
    intro i hi
    have := hwf.2 i hi
    simpa [SV.Val.len, SLV.toDense, VecObj.toSet] using this
  · cases ho

theorem pairRows_mem (rs os : List VecObj) (p : VecObj × VecObj) (h : p ∈ pairRows rs os) : p.1 ∈ rs ∧ p.2 ∈ os := by
  unfold pairRows at h
  split at h
  · obtain ⟨o, ho, e⟩ := List.mem_map.mp h; subst e; exact ⟨List.mem_singleton.mpr rfl, ho⟩
  · obtain ⟨r, hr, e⟩ := List.mem_map.mp h; subst e; exact ⟨hr, List.mem_singleton.mpr rfl⟩
  · unfold zipTrunc at h; exact ⟨(List.of_mem_zip h).1, (List.of_mem_zip h).2⟩

theorem except_mapM_length {α β ε : Type} (f : α → Except ε β) :
    ∀ (l : List α) (r : List β), l.mapM f = .ok r → r.length = l.length := by
  intro l
  induction l with
  | nil => intro r h; simp [List.mapM_nil, pure, Except.pure] at h; subst h; rfl
  | cons a l ih =>
    intro r h
    rw [List.mapM_cons] at h
    cases hfa : f a with
    | error e => rw [hfa] at h; cases h
    | ok b =>
      rw [hfa] at h
      cases hl : l.mapM f with
      | error e => rw [hl] at h; cases h
      | ok bs =>
        rw [hl] at h
        simp only [bind, Except.bind, pure, Except.pure, Except.ok.injEq] at h
        subst h
        simp [ih bs hl]

theorem keepN_wf (x : Rat) : VecWF (keepN x) := sv_keep_wf x

theorem keepB_wf (b : Bool) : VecWF (keepB b) := slv_keep_wf b

theorem unionKeys_wf (n : Nat) (rows : List VecObj) : SLVWF ⟨n, unionKeys n rows⟩ := by
  unfold unionKeys SLVWF
  exact ⟨List.Nodup.sublist List.filter_sublist List.nodup_range,
    fun i hi => List.mem_range.mp (List.mem_filter.mp hi).1⟩

theorem sv_tab_wf (n : Nat) (f : Nat → Rat) : VecWF (.sv ⟨n, Dct.tabulate n f, false⟩) := Dct.wf_tabulate n f

theorem sv_ofList_len_wf (n : Nat) (l : Vec) (h : l.length = n) : VecWF (.sv ⟨n, Dct.ofList l, false⟩) := by
  subst h; exact Dct.wf_ofList l

theorem singleton_wf {v : VecObj} (h : VecWF v) : ∀ w ∈ [v], VecWF w := by
  intro w hw; rw [List.mem_singleton.mp hw]; exact h

theorem map_keep_wf {α : Type} (l : List α) (f : α → VecObj) (hf : ∀ x, VecWF (f x)) : ∀ w ∈ l.map f, VecWF w := by
  intro w hw; obtain ⟨x, _, e⟩ := List.mem_map.mp hw; subst e; exact hf x

theorem filterMap_get_sub (rowIds : List Nat) (sel : List Nat) : ∀ r ∈ sel.filterMap (rowIds[·]?), r ∈ rowIds := by
  intro r hr
  obtain ⟨k, _, hk⟩ := List.mem_filterMap.mp hr
  exact List.mem_of_getElem? hk

/-- the pieces of the value are well-formed vectors (they are read from the store) -/
def piecesWF : SAVal → Prop
  | .obj o => VecWF o
  | .rowsOf l => ∀ o ∈ l, VecWF o
  | _ => True

theorem saVal_piecesWF {s : Store} (hs : StoreWF s) {val : Operand} {v : SAVal} (h : saVal s val = some v) : piecesWF v := by
  unfold saVal at h
  split at h
  · simp only [Option.some.injEq] at h; subst h
    split <;> trivial
  · rename_i j
    split at h
    · rename_i b hb
      simp only [Option.some.injEq] at h; subst h
      split
      · trivial
      · exact hs j _ hb
    · rename_i b hb
      simp only [Option.some.injEq] at h; subst h
      split
      · trivial
      · exact hs j _ hb
    · rename_i r hr
      split at h
      · rename_i w hw
        simp only [Option.some.injEq] at h; subst h
        split
        · trivial
        · exact getVec_wf hs hw
      · cases h
    · rename_i rows hr _
      obtain ⟨l, hl, e⟩ : ∃ l, s.rowsVec rows = some l ∧ v = .rowsOf l := by
        cases hrv : s.rowsVec rows with
        | none => rw [hrv] at h; cases h
        | some l => rw [hrv] at h; simp only [Option.map, Option.some.injEq] at h; exact ⟨l, rfl, h.symm⟩
      subst e
      exact rowsVec_wf hs hl
    · cases h

/-- what `rowVal` hands to the row's `__setitem__` is no longer than the longest piece, its vector
value is well formed and its key set lies inside the piece -/
theorem rowVal_fits (v : SAVal) (n : Nat) (hw : piecesWF v) (hlen : v.maxLen ≤ n) :
    v.rowVal.1.len ≤ n ∧ (∀ b, v.rowVal.1 = .sv b → b.WF) ∧
    (∀ k, v.rowVal.2 = some k → k.Nodup ∧ ∀ j ∈ k, j < n) := by
  cases v with
  | scalar x => simp [SAVal.rowVal, SV.Val.len]
  | vec l => simpa [SAVal.rowVal, SV.Val.len, SAVal.maxLen] using hlen
  | obj o =>
    cases o with
    | sv b =>
      refine ⟨hlen, ?_, ?_⟩
      · intro b' hb'; simp only [SAVal.rowVal, SV.Val.sv.injEq] at hb'; subst hb'; exact hw
      · intro k hk
        simp only [SAVal.rowVal, Option.some.injEq] at hk; subst hk
        have := slv_ofSV_wf (show b.WF from hw)
        exact ⟨this.1, fun j hj => lt_of_lt_of_le (this.2 j hj) hlen⟩
    | slv b =>
      have hlen' : b.size ≤ n := hlen
      refine ⟨by simpa [SAVal.rowVal, SV.Val.len, SLV.toDense] using hlen', ?_, ?_⟩
      · intro b' hb'; simp [SAVal.rowVal] at hb'
      intro k hk
      simp only [SAVal.rowVal, Option.some.injEq] at hk; subst hk
      have : SLVWF b := hw
      exact ⟨this.1, fun j hj => lt_of_lt_of_le (this.2 j hj) hlen⟩
  | mat m => simp [SAVal.rowVal, SV.Val.len]
  | rowsOf l => simp [SAVal.rowVal, SV.Val.len]
  | deep => simp [SAVal.rowVal, SV.Val.len]

theorem nth_fits (v w : SAVal) (k n : Nat) (hw : piecesWF v) (hlen : v.maxLen ≤ n) (h : v.nth k = some w) :
    piecesWF w ∧ w.maxLen ≤ n := by
  cases v with
  | scalar x => cases h
  | vec l =>
    simp only [SAVal.nth, Option.map_eq_some_iff] at h
    obtain ⟨x, _, e⟩ := h; subst e; exact ⟨trivial, Nat.zero_le _⟩
  | obj o =>
    simp only [SAVal.nth] at h
    split at h
    · simp only [Option.some.injEq] at h; subst h; exact ⟨trivial, Nat.zero_le _⟩
    · cases h
  | mat m =>
    simp only [SAVal.nth, Option.map_eq_some_iff] at h
    obtain ⟨r, hr, e⟩ := h; subst e
    refine ⟨trivial, le_trans (le_listMax (List.mem_map.mpr ⟨r, List.mem_of_getElem? hr, rfl⟩)) hlen⟩
  | rowsOf l =>
    simp only [SAVal.nth, Option.map_eq_some_iff] at h
    obtain ⟨o, ho, e⟩ := h; subst e
    have hmem := List.mem_of_getElem? ho
    exact ⟨hw o hmem, le_trans (le_listMax (List.mem_map.mpr ⟨o, hmem, rfl⟩)) hlen⟩
  | deep => cases h

/-- the sizes of all vector objects are the same in two stores -/
def SameSizes (s t : Store) : Prop := ∀ j, (t.getVec j).map VecObj.size = (s.getVec j).map VecObj.size

theorem sameSizes_refl (s : Store) : SameSizes s s := fun _ => rfl

theorem sameSizes_trans {s t u : Store} (h1 : SameSizes s t) (h2 : SameSizes t u) : SameSizes s u :=
  fun j => (h2 j).trans (h1 j)

theorem getVec_set_self {t : Store} (rid : Nat) (w : VecObj) (h : (t.getVec rid).isSome) :
    Store.getVec (t.set rid w.toObj) rid = some w := by
  have hi : rid < t.length := by
    unfold Store.getVec at h
    by_contra hc
    have : t[rid]? = none := List.getElem?_eq_none (by omega)
    simp [this] at h
  apply getVec_toObj
  rw [List.getElem?_set]; simp [hi]

theorem getVec_set_other {t : Store} (rid j : Nat) (o : Obj) (h : j ≠ rid) : Store.getVec (t.set rid o) j = t.getVec j := by
  unfold Store.getVec; rw [List.getElem?_set]; simp [Ne.symm h]

/-- the row `rid` may be assigned at index `i` with pieces of `v` (sizes taken in the store `s`) -/
def RowOK (s : Store) (i : Idx) (v : SAVal) (rid : Nat) : Prop :=
  ∀ r, s.getVec rid = some r → idxInRange r.size i ∧ v.maxLen ≤ r.size

theorem rowOK_open {s : Store} {i : Idx} {v : SAVal} {rid : Nat} (h : RowOK s i v rid) :
    RowOK s (.slice none none none) v rid :=
  fun r hr => ⟨idxInRange_open _, (h r hr).2⟩

theorem rowOK_int_of_fancy {s : Store} {ns : List Nat} {v : SAVal} {rid j : Nat}
    (h : RowOK s (.fancy ns) v rid) (hj : j ∈ ns) : RowOK s (.int j) v rid :=
  fun r hr => ⟨(h r hr).1 j hj, (h r hr).2⟩

theorem foldl_set_inv (P : Store → Prop) (f : Store → Nat → Store) (l : List Nat)
    (hf : ∀ s r, P s → P (f s r)) : ∀ s, P s → P (l.foldl f s) := by
  induction l with
  | nil => intro s hs; exact hs
  | cons a rest ih => intro s hs; simp only [List.foldl_cons]; exact ih _ (hf s a hs)

theorem storeWF_set_vec' {s : Store} (hs : StoreWF s) (rid : Nat) (f : VecObj → VecObj) (hf : ∀ v, VecWF v → VecWF (f v)) :
    StoreWF (match s.getVec rid with | some v => s.set rid (f v).toObj | none => s) := by
  split
  · rename_i v hv; exact storeWF_set_vec hs rid _ (hf v (getVec_wf hs hv))
  · exact hs

theorem sa_rows_valid {s : Store} (hs : StoreWF s) {a : Nat} {rowIds : List Nat} (h : s[a]? = some (.sa rowIds)) :
    ∀ r ∈ rowIds, (s.getVec r).isSome := hs a _ h

theorem slv_ofList_wf (l : Vec) : SLVWF (SLV.ofList l) := by
  unfold SLV.ofList SLVWF
  exact ⟨List.Nodup.sublist List.filter_sublist List.nodup_range,
    fun i hi => by simpa using List.mem_range.mp (List.mem_filter.mp hi).1⟩

theorem newDict_wf (items : List (Nat × Rat)) (size : Nat) (h : ∀ p ∈ items, p.1 < size) :
    ∀ d, Dct.WF size d → Dct.WF size (items.foldl (fun d p => if p.2 = 0 then d else d.put p.1 p.2) d) := by
  induction items with
  | nil => intro d hd; exact hd
  | cons p rest ih =>
    intro d hd
    simp only [List.foldl_cons]
    apply ih (fun q hq => h q (List.mem_cons_of_mem _ hq))
    split
    · exact hd
    · rename_i hne; exact Dct.wf_put hd _ _ (h p List.mem_cons_self) hne

theorem getElem?_set_ne {s : Store} {a i : Nat} (o : Obj) (h : i ≠ a) : (s.set a o)[i]? = s[i]? := by
  rw [List.getElem?_set]; simp [Ne.symm h]

/-- the part of a store outside a set of ids -/
def SameOutside (ids : List Nat) (s s' : Store) : Prop :=
  s'.length = s.length ∧ ∀ i, i ∉ ids → s'[i]? = s[i]?

theorem sameOutside_refl (ids : List Nat) (s : Store) : SameOutside ids s s := ⟨rfl, fun _ _ => rfl⟩

theorem sameOutside_trans {ids : List Nat} {s t u : Store} (h1 : SameOutside ids s t) (h2 : SameOutside ids t u) :
    SameOutside ids s u :=
  ⟨h2.1.trans h1.1, fun i hi => (h2.2 i hi).trans (h1.2 i hi)⟩

theorem nodupb_of_nodup : ∀ (l : List Nat), l.Nodup → nodupb l = true := by
  intro l
  induction l with
  | nil => intro _; rfl
  | cons a l ih =>
    intro h
    have := List.nodup_cons.mp h
    simp only [nodupb, Bool.and_eq_true, Bool.not_eq_true', ih this.2, and_true]
    simpa using this.1

theorem wfb_of_WF (a : SV) (h : a.WF) : a.wfb = true := by
  unfold SV.wfb
  simp only [Bool.and_eq_true, List.all_eq_true, decide_eq_true_eq, bne_iff_ne, ne_eq]
  exact ⟨nodupb_of_nodup _ h.1, fun p hp => h.2 p hp⟩

theorem arithOf_fn (op : BinOp) (ar : Arith) (h : arithOf op = some ar) : op.fn = ar.fn := by
  cases op <;> simp [arithOf] at h <;> subst h <;> rfl

end ThermoVerif.Props.C09
