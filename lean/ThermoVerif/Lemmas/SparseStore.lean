import ThermoVerif.Lemmas.Sparse
import ThermoVerif.Model.SparseArray
/-
Helper lemmas for C09, object layer: the representation invariant of every kind of object and
its preservation by the vector-level operations that the store-level theorems compose.
-/
namespace ThermoVerif.Sparse
open ThermoVerif.Dense

theorem except_map_ok' {ε α β : Type} {x : Except ε α} {f : α → β} {r : β} (h : x.map f = .ok r) :
    ∃ v, x = .ok v ∧ r = f v := by
  cases x with
  | error e => cases h
  | ok v => simp only [Except.map, Except.ok.injEq] at h; exact ⟨v, rfl, h.symm⟩

/-! ### SparseLogicalVector -/

/-- invariant of a SparseLogicalVector: indices distinct and inside the size -/
def SLVWF (a : SLV) : Prop := a.set.Nodup ∧ ∀ i ∈ a.set, i < a.size

instance (a : SLV) : Decidable (SLVWF a) := by unfold SLVWF; infer_instance

theorem ofPred_wf (n : Nat) (p : Nat → Bool) : SLVWF (SLV.ofPred n p) := by
  unfold SLV.ofPred SLVWF
  refine ⟨List.Nodup.sublist List.filter_sublist List.nodup_range, ?_⟩
  intro i hi
  exact List.mem_range.mp (List.mem_filter.mp hi).1

theorem slv_nil_wf (n : Nat) : SLVWF ⟨n, []⟩ := ⟨List.nodup_nil, by simp⟩

theorem slv_keep_wf (b : Bool) : SLVWF (SLV.keep b) := by
  unfold SLV.keep; cases b <;> simp [SLVWF]

theorem slv_copy_wf {a : SLV} (h : SLVWF a) : SLVWF a.copy := h

theorem nodup_map_pair (l : List Nat) (x : Rat) (h : l.Nodup) : ((l.map (fun i => (i, x))).map Prod.fst).Nodup := by
  have : (l.map (fun i => (i, x))).map Prod.fst = l := by simp [List.map_map, Function.comp_def]
  rw [this]; exact h

theorem slv_toSV_wf {a : SLV} (h : SLVWF a) : a.toSV.WF := by
  unfold SLV.toSV SV.WF Dct.WF
  refine ⟨nodup_map_pair _ _ h.1, ?_⟩
  intro p hp
  obtain ⟨i, hi, e⟩ := List.mem_map.mp hp
  subst e
  exact ⟨h.2 i hi, by norm_num⟩

theorem slv_neg_wf {a : SLV} (h : SLVWF a) : a.neg.WF := by
  unfold SLV.neg SV.WF Dct.WF
  refine ⟨nodup_map_pair _ _ h.1, ?_⟩
  intro p hp
  obtain ⟨i, hi, e⟩ := List.mem_map.mp hp
  subst e
  exact ⟨h.2 i hi, by norm_num⟩

theorem slv_ofSV_wf {b : SV} (h : b.WF) : SLVWF (SLV.ofSV b) := by
  unfold SLV.ofSV SLVWF Dct.keys
  refine ⟨h.1, ?_⟩
  intro i hi
  obtain ⟨p, hp, e⟩ := List.mem_map.mp hi
  subst e
  exact (h.2 p hp).1

theorem setOne_wf {n : Nat} {s : List Nat} (hs : s.Nodup ∧ ∀ i ∈ s, i < n) (i : Nat) (x : Rat) (hi : x = 0 ∨ i < n) :
    (SLV.setOne s i x).Nodup ∧ ∀ j ∈ SLV.setOne s i x, j < n := by
  unfold SLV.setOne
  split
  · exact ⟨List.Nodup.sublist List.filter_sublist hs.1, fun j hj => hs.2 j (List.mem_filter.mp hj).1⟩
  · rename_i hx
    split
    · exact hs
    · rename_i hc
      have hin : i < n := hi.resolve_left hx
      refine ⟨List.nodup_cons.mpr ⟨by simpa using hc, hs.1⟩, ?_⟩
      intro j hj
      rcases List.mem_cons.mp hj with h | h
      · subst h; exact hin
      · exact hs.2 j h

/-! ### SparseVector, remaining operations -/

theorem sv_keep_wf (x : Rat) : (SV.keep x).WF := by
  unfold SV.keep SV.WF Dct.WF
  by_cases h : x = 0
  · simp [h]
  · simp [h]

theorem sv_ofList_wf (l : Vec) (size : Option Nat) (h : ∀ n, size = some n → l.length ≤ n) : (SV.ofList l size).WF := by
  unfold SV.ofList SV.WF
  dsimp only
  cases size with
  | none => exact Dct.wf_ofList l
  | some n => exact Dct.wf_mono (Dct.wf_ofList l) (h n rfl)

theorem sv_copy_wf {a : SV} (h : a.WF) : a.copy.WF := h
theorem sv_clear_wf (a : SV) : a.clear.WF := Dct.wf_nil _
theorem sv_removeNegatives_wf {a : SV} (h : a.WF) : a.removeNegatives.WF := by
  unfold SV.removeNegatives SV.WF; exact Dct.wf_filterVals h (fun x => !decide (x < 0))

theorem sv_rdivScalar_wf {a c : SV} (x : Rat) (ha : a.WF) (h : a.rdivScalar x = .ok c) : c.WF := by
  unfold SV.rdivScalar at h
  split at h
  · simp only [Except.ok.injEq] at h; subst h; exact Dct.wf_nil _
  · rename_i hx
    split at h
    · cases h
    · simp only [Except.ok.injEq] at h; subst h
      exact Dct.wf_mapVals ha _ (fun y hy => div_ne_zero hx hy)

/-- `mix_from` keeps the invariant when no inlet is larger than the receiver (the code does not
compare sizes) -/
theorem sv_mixFrom_wf {a : SV} (ha : a.WF) (others : List SV) (rep : Nat)
    (ho : ∀ o ∈ others, o.WF ∧ o.size ≤ a.size) : (a.mixFrom others rep).WF := by
  unfold SV.mixFrom SV.WF
  dsimp only
  have hstart : Dct.WF a.size (if rep = 0 then [] else a.dct.mapVals (· * (rep : Rat))) := by
    split
    · exact Dct.wf_nil _
    · rename_i hr
      exact Dct.wf_mapVals ha _ (fun y hy => mul_ne_zero hy (by exact_mod_cast hr))
  generalize (if rep = 0 then ([] : Dct) else a.dct.mapVals (· * (rep : Rat))) = start at hstart
  induction others generalizing start with
  | nil => simpa using hstart
  | cons o rest ih =>
    simp only [List.foldl_cons]
    apply ih
    · intro o' ho'; exact ho o' (List.mem_cons_of_mem _ ho')
    · apply Dct.wf_mergeWith _ hstart
      intro p hp
      have := ho o List.mem_cons_self
      exact lt_of_lt_of_le (this.1.2 p hp).1 this.2

/-! ### `__setitem__` of a SparseVector -/

/-- length of the value of an assignment (0 for a number) -/
def SV.Val.len : SV.Val → Nat
  | .scalar _ => 0 | .seq l => l.length | .sv b => b.size | .deep => 0

/-- every position an index touches is inside the size -/
def idxInRange (n : Nat) : Idx → Prop
  | .int i => i < n
  | .slice s e st => ∀ i ∈ defaultRange n s e st, i < n
  | .fancy l => ∀ i ∈ l, i < n
  | .mask m => ∀ i ∈ maskIdx m, i < n

theorem foldl_setNZ_wf {n : Nat} (d : Dct) (hd : Dct.WF n d) (l : List (Nat × Rat)) (hl : ∀ p ∈ l, p.1 < n) :
    Dct.WF n (l.foldl (fun acc p => Dct.setNZ acc p.1 p.2) d) := by
  induction l generalizing d with
  | nil => simpa using hd
  | cons p rest ih =>
    simp only [List.foldl_cons]
    apply ih
    · exact Dct.wf_setNZ hd _ _ (hl p List.mem_cons_self)
    · intro q hq; exact hl q (List.mem_cons_of_mem _ hq)

theorem sv_setMany_wf {n : Nat} {d d' : Dct} (hd : Dct.WF n d) (idx : List Nat) (hidx : ∀ i ∈ idx, i < n)
    (v : SV.Val) (h : SV.setMany d idx v = .ok d') : Dct.WF n d' := by
  unfold SV.setMany at h
  split at h
  · rename_i x
    simp only [Except.ok.injEq] at h; subst h
    have := foldl_setNZ_wf d hd (idx.map (fun i => (i, x))) (by
      intro p hp; obtain ⟨i, hi, e⟩ := List.mem_map.mp hp; subst e; exact hidx i hi)
    rwa [List.foldl_map] at this
  · cases h
  · simp only [Except.ok.injEq] at h; subst h
    apply foldl_setNZ_wf d hd
    intro p hp
    exact hidx p.1 (List.of_mem_zip hp).1

/-- `x[idx] = v` keeps the invariant when the index stays inside the size and, for `x[:] = …`, the
value is not longer than `x` (the code checks neither: known findings `index-out-of-range-accepted`,
`setitem-length-mismatch-accepted`) -/
theorem sv_setItem_wf {a c : SV} (ha : a.WF) (idx : Idx) (v : SV.Val) (same : Bool)
    (hidx : idxInRange a.size idx)
    (hval : idx.isOpen = true → v.len ≤ a.size) (hb : ∀ b, v = .sv b → b.WF)
    (h : a.setItem idx v same = .ok c) : c.WF := by
  unfold SV.setItem at h
  split at h
  · cases h
  · split at h
    · -- int
      rename_i i
      split at h
      · simp only [Except.ok.injEq] at h; subst h
        exact Dct.wf_setNZ ha _ _ hidx
      · cases h
    · rename_i l
      cases hm : SV.setMany a.dct l v with
      | error e => rw [hm] at h; cases h
      | ok d =>
        rw [hm] at h
        simp only [Except.map, Except.ok.injEq] at h; subst h
        exact sv_setMany_wf ha l hidx v hm
    · rename_i m
      cases hm : SV.setMany a.dct (maskIdx m) v with
      | error e => rw [hm] at h; cases h
      | ok d =>
        rw [hm] at h
        simp only [Except.map, Except.ok.injEq] at h; subst h
        exact sv_setMany_wf ha _ hidx v hm
    · rename_i s e st
      split at h
      · rename_i hopen
        have hv := hval hopen
        split at h
        · simp only [Except.ok.injEq] at h; subst h; exact ha
        · split at h
          · rename_i b
            simp only [Except.ok.injEq] at h; subst h
            exact Dct.wf_mono (hb b rfl) hv
          · rename_i l
            simp only [Except.ok.injEq] at h; subst h
            exact Dct.wf_mono (Dct.wf_ofList l) hv
          · simp only [Except.ok.injEq] at h; subst h
            exact Dct.wf_tabulate _ _
          · cases h
      · cases hm : SV.setMany a.dct (defaultRange a.size s e st) v with
        | error e => rw [hm] at h; cases h
        | ok d =>
          rw [hm] at h
          simp only [Except.map, Except.ok.injEq] at h; subst h
          exact sv_setMany_wf ha _ hidx v hm

end ThermoVerif.Sparse

namespace ThermoVerif.Sparse
open ThermoVerif.Dense

/-! ### kernels of a SparseLogicalVector keep the invariant -/

/-- closes `SLVWF` goals about the shapes the logical kernels return -/
macro "slv_close" : tactic =>
  `(tactic| first | assumption | exact ofPred_wf _ _ | exact slv_nil_wf _ | exact slv_copy_wf (by assumption))

/-- case-split a kernel equation `h : (if … then … else …) = .ok c` down to its leaves and substitute -/
macro "kernel_cases" h:ident : tactic =>
  `(tactic| ((repeat' split at $h:ident) <;> (try cases $h:ident) <;>
      (try (simp only [Except.ok.injEq] at $h:ident; subst $h:ident)) <;> (try split)))

theorem slv_iopScalar_wf {a c : SLV} (op : LOp) (x : Rat) (ha : SLVWF a) (h : SLV.iopScalar op a x = .ok c) : SLVWF c := by
  unfold SLV.iopScalar at h
  kernel_cases h <;> slv_close

theorem slv_iopSparse_wf {a b c : SLV} (op : LOp) (ha : SLVWF a) (h : SLV.iopSparse op a b = .ok c) : SLVWF c := by
  unfold SLV.iopSparse at h
  kernel_cases h <;> slv_close

theorem slv_iopArray_wf {a c : SLV} (op : LOp) (l : Vec) (ha : SLVWF a) (h : SLV.iopArray op a l = .ok c) : SLVWF c := by
  unfold SLV.iopArray at h
  dsimp only at h
  kernel_cases h <;> slv_close

theorem slv_cmpSparse_wf {a b c : SLV} (op : Cmp) (h : SLV.cmpSparse op a b = .ok c) : SLVWF c := by
  unfold SLV.cmpSparse at h
  dsimp only at h
  kernel_cases h <;> slv_close

theorem slv_cmpArray_wf {a c : SLV} (op : Cmp) (l : Vec) (h : SLV.cmpArray op a l = .ok c) : SLVWF c := by
  unfold SLV.cmpArray at h
  kernel_cases h <;> slv_close

theorem slv_cmpScalar_wf (a : SLV) (op : Cmp) (x : Rat) : SLVWF (SLV.cmpScalar op a x) := ofPred_wf _ _

theorem slv_invert_wf (a : SLV) : SLVWF a.invert := ofPred_wf _ _

end ThermoVerif.Sparse

namespace ThermoVerif.Sparse
open ThermoVerif.Dense

/-! ### `__setitem__` of a SparseLogicalVector -/

theorem foldl_setOne_wf {n : Nat} (s : List Nat) (hs : s.Nodup ∧ ∀ i ∈ s, i < n) (l : List (Nat × Rat))
    (hl : ∀ p ∈ l, p.1 < n) :
    (l.foldl (fun acc p => SLV.setOne acc p.1 p.2) s).Nodup ∧ ∀ i ∈ l.foldl (fun acc p => SLV.setOne acc p.1 p.2) s, i < n := by
  induction l generalizing s with
  | nil => simpa using hs
  | cons p rest ih =>
    simp only [List.foldl_cons]
    apply ih
    · exact setOne_wf hs _ _ (Or.inr (hl p List.mem_cons_self))
    · intro q hq; exact hl q (List.mem_cons_of_mem _ hq)

theorem slv_setMany_wf {n : Nat} {s s' : List Nat} (hs : s.Nodup ∧ ∀ i ∈ s, i < n) (idx : List Nat)
    (hidx : ∀ i ∈ idx, i < n) (v : SV.Val) (h : SLV.setMany s idx v = .ok s') : s'.Nodup ∧ ∀ i ∈ s', i < n := by
  unfold SLV.setMany at h
  split at h
  · rename_i x
    simp only [Except.ok.injEq] at h; subst h
    have := foldl_setOne_wf s hs (idx.map (fun i => (i, x))) (by
      intro p hp; obtain ⟨i, hi, e⟩ := List.mem_map.mp hp; subst e; exact hidx i hi)
    rwa [List.foldl_map] at this
  · cases h
  · simp only [Except.ok.injEq] at h; subst h
    apply foldl_setOne_wf s hs
    intro p hp
    exact hidx p.1 (List.of_mem_zip hp).1

theorem slv_setItem_wf {a c : SLV} (ha : SLVWF a) (idx : Idx) (v : SV.Val) (same : Bool) (keys : Option (List Nat))
    (hidx : idxInRange a.size idx)
    (hval : idx.isOpen = true → (∀ ks, keys = some ks → ks.Nodup ∧ ∀ i ∈ ks, i < a.size) ∧ v.len ≤ a.size)
    (h : a.setItem idx v same keys = .ok c) : SLVWF c := by
  unfold SLV.setItem at h
  split at h
  · rename_i i
    split at h
    · simp only [Except.ok.injEq] at h; subst h
      exact setOne_wf ha _ _ (Or.inr hidx)
    · cases h
  · rename_i l
    obtain ⟨d, hd, e⟩ := except_map_ok' h
    subst e
    exact slv_setMany_wf ha l hidx v hd
  · rename_i m
    obtain ⟨d, hd, e⟩ := except_map_ok' h
    subst e
    exact slv_setMany_wf ha _ hidx v hd
  · rename_i s e st
    split at h
    · rename_i hopen
      have hv := hval hopen
      split at h
      · simp only [Except.ok.injEq] at h; subst h; exact ha
      · split at h
        · simp only [Except.ok.injEq] at h; subst h
          split
          · exact slv_nil_wf _
          · exact ⟨List.nodup_range, fun i hi => List.mem_range.mp hi⟩
        · cases h
        · rename_i _ _ ks _ _
          simp only [Except.ok.injEq] at h; subst h
          exact hv.1 ks rfl
        · rename_i _ _ w hkn hns hnd
          simp only [Except.ok.injEq] at h; subst h
          refine ⟨List.Nodup.sublist List.filter_sublist List.nodup_range, ?_⟩
          intro i hi
          have := List.mem_range.mp (List.mem_filter.mp hi).1
          have hlen : v.dense.length = v.len := by
            cases v with
            | scalar x => exact absurd rfl (hns x)
            | seq l => rfl
            | sv b => simp [SV.Val.dense, SV.Val.len, SV.toDense]
            | deep => exact absurd rfl hnd
          rw [hlen] at this
          exact lt_of_lt_of_le this hv.2
    · obtain ⟨d, hd, e'⟩ := except_map_ok' h
      subst e'
      exact slv_setMany_wf ha _ hidx v hd

end ThermoVerif.Sparse

namespace ThermoVerif.Sparse
open ThermoVerif.Dense

/-! ### `sa[...] = value`: sizes of the pieces of the value, sizes kept by `__setitem__` -/

def listMax (l : List Nat) : Nat := l.foldl max 0

theorem le_foldl_max (l : List Nat) (a : Nat) : a ≤ l.foldl max a ∧ ∀ x ∈ l, x ≤ l.foldl max a := by
  induction l generalizing a with
  | nil => simp
  | cons y l ih =>
    simp only [List.foldl_cons]
    have := ih (max a y)
    refine ⟨le_trans (le_max_left a y) this.1, ?_⟩
    intro x hx
    rcases List.mem_cons.mp hx with e | e
    · subst e; exact le_trans (le_max_right a x) this.1
    · exact this.2 x e

theorem le_listMax {l : List Nat} {x : Nat} (h : x ∈ l) : x ≤ listMax l := (le_foldl_max l 0).2 x h

/-- the longest piece of the value of `sa[...] = value` (0 for a number) -/
def SAVal.maxLen : SAVal → Nat
  | .scalar _ => 0
  | .vec l => l.length
  | .obj o => o.size
  | .mat m => listMax (m.map List.length)
  | .rowsOf l => listMax (l.map VecObj.size)
  | .deep => 0

theorem sv_setItem_size {a c : SV} (idx : Idx) (v : SV.Val) (same : Bool) (h : a.setItem idx v same = .ok c) :
    c.size = a.size ∧ c.readOnly = a.readOnly := by
  unfold SV.setItem at h
  split at h
  · cases h
  · repeat' split at h
    all_goals first
      | (cases h <;> done)
      | (simp only [Except.ok.injEq] at h; subst h; exact ⟨rfl, rfl⟩)
      | (obtain ⟨d, _, e⟩ := except_map_ok' h; subst e; exact ⟨rfl, rfl⟩)

theorem slv_setItem_size {a c : SLV} (idx : Idx) (v : SV.Val) (same : Bool) (keys : Option (List Nat))
    (h : a.setItem idx v same keys = .ok c) : c.size = a.size := by
  unfold SLV.setItem at h
  repeat' split at h
  all_goals first
    | (cases h <;> done)
    | (simp only [Except.ok.injEq] at h; subst h; rfl)
    | (obtain ⟨d, _, e⟩ := except_map_ok' h; subst e; rfl)

theorem pyRange_lt (start stop step : Nat) : ∀ i ∈ pyRange start stop step, i < stop := by
  intro i hi
  unfold pyRange at hi
  split at hi
  · cases hi
  · rename_i hs
    obtain ⟨k, hk, e⟩ := List.mem_map.mp hi
    subst e
    have hk' := List.mem_range.mp hk
    have hpos : 0 < step := Nat.pos_of_ne_zero hs
    have h2 := Nat.div_mul_le_self (stop - start + step - 1) step
    have h3 : (k + 1) * step ≤ (stop - start + step - 1) / step * step := Nat.mul_le_mul_right step hk'
    rw [Nat.succ_mul] at h3
    have h4 : k * step + step ≤ stop - start + step - 1 := le_trans h3 h2
    omega

theorem idxInRange_open (n : Nat) : idxInRange n (.slice none none none) := by
  intro i hi
  unfold defaultRange at hi
  simpa using pyRange_lt _ _ _ i hi

end ThermoVerif.Sparse
