import ThermoVerif.Model.ReactionAlgebra
import Mathlib.Tactic.Ring
import Mathlib.Tactic.FieldSimp
import Mathlib.Tactic.Linarith
import Mathlib.Tactic.LinearCombination
import Mathlib.Algebra.Order.Field.Basic

set_option linter.unusedSectionVars false

namespace ThermoVerif.ReactionAlgebra

variable {α : Type} [Field α] [LinearOrder α]

theorem getD_of_lt (l : List α) (i : Nat) (h : i < l.length) : l.getD i 0 = l[i] := by
  simp [List.getD, h]

theorem getD_of_lt' {β : Type} (l : List β) (i : Nat) (d : β) (h : i < l.length) : l.getD i d = l[i] := by
  simp [List.getD, h]

theorem lt_of_getD_ne (l : List α) (i : Nat) (h : l.getD i 0 ≠ 0) : i < l.length := by
  by_contra hc
  apply h
  simp [List.getD, Nat.not_lt.mp hc]

theorem lt_of_getD_neg_one (l : List α) (i : Nat) (h : l.getD i 0 = -1) : i < l.length :=
  lt_of_getD_ne l i (by rw [h]; simp)

theorem react_length (v : List α) (r : Nat) (x : α) (n : List α) (h : v.length = n.length) :
    (react v r x n).length = n.length := by
  simp [react, h]

theorem react_getElem (v : List α) (r : Nat) (x : α) (n : List α) (i : Nat)
    (h : i < (react v r x n).length) (hn : i < n.length) (hv : i < v.length) :
    (react v r x n)[i] = n[i] + n.getD r 0 * x * v[i] := by
  simp [react]

/-- the signed combination `ν_a·X_a ± ν_b·X_b` -/
def comb (sub : Bool) (va : List α) (xa : α) (vb : List α) (xb : α) : List α :=
  List.zipWith (fun p q => if sub then p * xa - q * xb else p * xa + q * xb) va vb

def sgn (sub : Bool) (xa xb : α) : α := if sub then xa - xb else xa + xb

theorem comb_getD (sub : Bool) (va vb : List α) (xa xb : α) (r : Nat)
    (ha : r < va.length) (hb : r < vb.length) :
    (comb sub va xa vb xb).getD r 0 = if sub then va[r] * xa - vb[r] * xb else va[r] * xa + vb[r] * xb := by
  have : r < (comb sub va xa vb xb).length := by simp [comb, ha, hb]
  rw [getD_of_lt _ _ this]
  simp [comb]

theorem allZero_false_of_getD_ne (s : List α) (r : Nat) (h : s.getD r 0 ≠ 0) : allZero s = false := by
  have hr := lt_of_getD_ne s r h
  rw [getD_of_lt s r hr] at h
  simp only [allZero, Bool.eq_false_iff, ne_eq, List.all_eq_true, decide_eq_true_eq, not_forall]
  exact ⟨s[r], List.getElem_mem hr, h⟩

theorem combineV_def (sub : Bool) (va vb : List α) (xa xb : α) (r : Nat) :
    combineV sub va xa vb xb r =
      (if allZero (comb sub va xa vb xb) = true then .ok (comb sub va xa vb xb)
       else if -((comb sub va xa vb xb).getD r 0) = 0 then .error .zeroDiv
       else .ok ((comb sub va xa vb xb).map (· / -((comb sub va xa vb xb).getD r 0)))) := rfl

/-- Under normalised operands (`ν[r] = -1`) and a nonzero resulting conversion, the combination rule
divides by exactly that conversion. -/
theorem combineV_ok (sub : Bool) (va vb : List α) (xa xb : α) (r : Nat)
    (ha : va.getD r 0 = -1) (hb : vb.getD r 0 = -1) (hx : sgn sub xa xb ≠ 0) :
    combineV sub va xa vb xb r = .ok ((comb sub va xa vb xb).map (· / sgn sub xa xb)) := by
  have hra := lt_of_getD_neg_one va r ha
  have hrb := lt_of_getD_neg_one vb r hb
  rw [getD_of_lt va r hra] at ha
  rw [getD_of_lt vb r hrb] at hb
  have hs : (comb sub va xa vb xb).getD r 0 = -(sgn sub xa xb) := by
    rw [comb_getD sub va vb xa xb r hra hrb, ha, hb]
    cases sub <;> simp [sgn] <;> ring
  have hnz : allZero (comb sub va xa vb xb) = false :=
    allZero_false_of_getD_ne _ r (by rw [hs]; simpa using hx)
  rw [combineV_def, hnz, hs]
  simp [hx]

/-! ### `addSub` on compatible operands -/

theorem copyB_same (mw : List α) (a b : RVal α) (h : b.basis = a.basis) :
    b.copyB mw (BArg.ofBasis a.basis) = .ok b := by
  cases hb : a.basis <;> simp [RVal.copyB, BArg.ofBasis, h, hb]

theorem compat_same (mw : List α) (a b : RVal α) (hbasis : b.basis = a.basis) (hph : a.ph = b.ph)
    (hr : a.ridx = b.ridx) : a.compat mw b = .ok b := by
  simp [RVal.compat, copyB_same mw a b hbasis, hph, hr]

theorem addSub_noReaction (mw : List α) (sub : Bool) (a b : RVal α) (h : b.hasReaction = false) :
    a.addSub mw sub (some b) = .ok a := by
  simp [RVal.addSub, h]

/-- the value of `a ± b` for compatible, normalised operands with nonzero resulting conversion -/
theorem addSub_ok (mw : List α) (sub : Bool) (a b : RVal α) (hreact : b.hasReaction = true)
    (hbasis : b.basis = a.basis) (hph : a.ph = b.ph) (hr : a.ridx = b.ridx)
    (ha : a.v.getD a.ridx 0 = -1) (hb : b.v.getD b.ridx 0 = -1) (hx : sgn sub a.x b.x ≠ 0) :
    a.addSub mw sub (some b) =
      .ok { a with v := (comb sub a.v a.x b.v b.x).map (· / sgn sub a.x b.x), x := sgn sub a.x b.x } := by
  have hc := combineV_ok sub a.v b.v a.x b.x b.ridx (hr ▸ ha) hb hx
  simp [RVal.addSub, hreact, compat_same mw a b hbasis hph hr, hc, sgn]

theorem comb_length (sub : Bool) (va vb : List α) (xa xb : α) (h : va.length = vb.length) :
    (comb sub va xa vb xb).length = va.length := by simp [comb, h]

/-- the result of the combination rule is again normalised on the reactant -/
theorem comb_map_normalised (sub : Bool) (va vb : List α) (xa xb : α) (r : Nat)
    (ha : va.getD r 0 = -1) (hb : vb.getD r 0 = -1) (hx : sgn sub xa xb ≠ 0) :
    ((comb sub va xa vb xb).map (· / sgn sub xa xb)).getD r 0 = -1 := by
  have hra := lt_of_getD_neg_one va r ha
  have hrb := lt_of_getD_neg_one vb r hb
  rw [getD_of_lt va r hra] at ha
  rw [getD_of_lt vb r hrb] at hb
  have hl : r < ((comb sub va xa vb xb).map (· / sgn sub xa xb)).length := by simp [comb, hra, hrb]
  rw [getD_of_lt _ _ hl]
  simp only [List.getElem_map, comb, List.getElem_zipWith, ha, hb]
  cases sub <;> simp only [sgn, Bool.false_eq_true, if_false, if_true] at hx ⊢ <;> field_simp <;> ring

/-! ### The store: extension, well-formedness -/

/-- `s'` keeps everything of `s`: arrays, X arrays and objects are only extended at the end -/
structure Store.Extends (s s' : Store α) : Prop where
  arrs : s.arrs <+: s'.arrs
  xarrs : s.xarrs <+: s'.xarrs
  objs : s.objs <+: s'.objs
  nchem : s'.nchem = s.nchem
  mw : s'.mw = s.mw

theorem Store.Extends.refl (s : Store α) : s.Extends s :=
  ⟨List.prefix_refl _, List.prefix_refl _, List.prefix_refl _, rfl, rfl⟩

theorem newRxn_extends (s : Store α) (p : Nat) (a : RVal α) : s.Extends (s.newRxn p a).1 :=
  ⟨List.prefix_append _ _, List.prefix_refl _, List.prefix_append _ _, rfl, rfl⟩

theorem step_pure (s : Store α) (op : Op α) (r : Except Err (RVal α)) (hp : s.pureOp op = some r) :
    s.step op = r.bind (fun a => .ok (s.newRxn (s.opPkg op) a)) := by
  cases r <;> simp [Store.step, hp, Except.bind]

theorem step_pure_ok (s s' : Store α) (op : Op α) (k : Nat) (r : Except Err (RVal α))
    (hp : s.pureOp op = some r) (h : s.step op = .ok (s', k)) :
    ∃ a, r = .ok a ∧ s' = (s.newRxn (s.opPkg op) a).1 ∧ k = (s.newRxn (s.opPkg op) a).2 := by
  rw [step_pure s op r hp] at h
  cases r with
  | error e => simp [Except.bind] at h
  | ok a =>
    simp only [Except.bind, Except.ok.injEq] at h
    exact ⟨a, rfl, by rw [h], by rw [h]⟩

/-! ### Well-formed stores: every id held by an object points into the store -/

def XRef.WF (s : Store α) : XRef α → Prop
  | .own _ => True
  | .shared xa i => xa < s.xarrs.length ∧ i < (s.xarrs.getD xa []).length

def Obj.WF (s : Store α) : Obj α → Prop
  | .rxn r => r.nu < s.arrs.length ∧ r.x.WF s
  | .set t => (∀ id ∈ t.rows, id < s.arrs.length) ∧ t.xa < s.xarrs.length ∧
              t.xoff + t.rows.length ≤ (s.xarrs.getD t.xa []).length ∧ t.ridxs.length = t.rows.length

def Store.WF (s : Store α) : Prop := ∀ o ∈ s.objs, o.WF s

/-- the shape of the store only grows: no array disappears, no X array changes its length -/
structure Store.Grows (s s' : Store α) : Prop where
  arrs : s.arrs.length ≤ s'.arrs.length
  xarrs : s.xarrs.length ≤ s'.xarrs.length
  inner : ∀ xa, xa < s.xarrs.length → (s'.xarrs.getD xa []).length = (s.xarrs.getD xa []).length

theorem XRef.WF_mono {s s' : Store α} (g : s.Grows s') (x : XRef α) (h : x.WF s) : x.WF s' := by
  cases x with
  | own _ => trivial
  | shared xa i =>
    obtain ⟨h1, h2⟩ := h
    exact ⟨lt_of_lt_of_le h1 g.xarrs, by rw [g.inner xa h1]; exact h2⟩

theorem Obj.WF_mono {s s' : Store α} (g : s.Grows s') (o : Obj α) (h : o.WF s) : o.WF s' := by
  cases o with
  | rxn r => exact ⟨lt_of_lt_of_le h.1 g.arrs, XRef.WF_mono g r.x h.2⟩
  | set t =>
    obtain ⟨h1, h2, h3, h4⟩ := h
    exact ⟨fun id hid => lt_of_lt_of_le (h1 id hid) g.arrs, lt_of_lt_of_le h2 g.xarrs,
           by rw [g.inner t.xa h2]; exact h3, h4⟩

theorem getD_prefix {β : Type} (l l' : List β) (d : β) (h : l <+: l') (i : Nat) (hi : i < l.length) :
    l'.getD i d = l.getD i d := by
  obtain ⟨t, rfl⟩ := h
  simp [List.getD, List.getElem?_append_left hi]

theorem Store.Extends.grows {s s' : Store α} (e : s.Extends s') : s.Grows s' :=
  ⟨e.arrs.length_le, e.xarrs.length_le, fun xa h => by rw [getD_prefix _ _ _ e.xarrs xa h]⟩

theorem rxn?_ok {s : Store α} {a : Nat} {r : Rxn α} (h : s.rxn? a = .ok r) :
    s.objs[a]? = some (.rxn r) := by
  unfold Store.rxn? at h
  split at h
  · rename_i r' heq; simp at h; rw [heq, h]
  · simp at h

theorem set?_ok {s : Store α} {a : Nat} {t : RSet} (h : s.set? a = .ok t) :
    s.objs[a]? = some (.set t) := by
  unfold Store.set? at h
  split at h
  · rename_i r' heq; simp at h; rw [heq, h]
  · simp at h

theorem rxns?_mem {s : Store α} : ∀ {ms : List Nat} {rs : List (Rxn α)}, s.rxns? ms = .ok rs →
    ∀ r ∈ rs, Obj.rxn r ∈ s.objs
  | [], rs, h => by simp [Store.rxns?] at h; subst h; simp
  | m :: ms, rs, h => by
    simp only [Store.rxns?] at h
    split at h
    · simp at h
    · rename_i r hr
      split at h
      · simp at h
      · rename_i rs' hrs
        simp at h; subst h
        intro q hq
        rcases List.mem_cons.mp hq with rfl | hq
        · exact List.mem_of_getElem? (rxn?_ok hr)
        · exact rxns?_mem hrs q hq

theorem rxns?_length {s : Store α} : ∀ {ms : List Nat} {rs : List (Rxn α)}, s.rxns? ms = .ok rs →
    rs.length = ms.length
  | [], rs, h => by simp [Store.rxns?] at h; subst h; rfl
  | m :: ms, rs, h => by
    simp only [Store.rxns?] at h
    split at h
    · simp at h
    · split at h
      · simp at h
      · rename_i rs' hrs
        simp at h; subst h
        simp [rxns?_length hrs]

theorem wf_append (s s' : Store α) (hwf : s.WF) (g : s.Grows s') (o : Obj α)
    (hobjs : s'.objs = s.objs ++ [o]) (ho : o.WF s') : s'.WF := by
  intro q hq
  rw [hobjs] at hq
  rcases List.mem_append.mp hq with hq | hq
  · exact Obj.WF_mono g q (hwf q hq)
  · simp at hq; subst hq; exact ho

theorem wf_set (s s' : Store α) (hwf : s.WF) (g : s.Grows s') (a : Nat) (o : Obj α)
    (hobjs : s'.objs = s.objs.set a o) (ho : o.WF s') : s'.WF := by
  intro q hq
  rw [hobjs] at hq
  rcases List.mem_or_eq_of_mem_set hq with hq | hq
  · exact Obj.WF_mono g q (hwf q hq)
  · subst hq; exact ho

theorem wf_same (s s' : Store α) (hwf : s.WF) (g : s.Grows s') (hobjs : s'.objs = s.objs) : s'.WF := by
  intro q hq
  rw [hobjs] at hq
  exact Obj.WF_mono g q (hwf q hq)

theorem newRxn_wf (s : Store α) (hwf : s.WF) (p : Nat) (a : RVal α) : (s.newRxn p a).1.WF := by
  apply wf_append s _ hwf (newRxn_extends s p a).grows _ rfl
  simp [Obj.WF, XRef.WF, Store.newRxn]

theorem getD_set_length {β : Type} (l : List (List β)) (xa i : Nat) (x : β) (k : Nat) :
    ((l.set xa ((l.getD xa []).set i x)).getD k []).length = (l.getD k []).length := by
  by_cases hk : k = xa
  · subst hk
    by_cases hl : k < l.length
    · simp [List.getD, hl]
    · simp [List.getD, Nat.not_lt.mp hl]
  · simp [List.getD, List.getElem?_set, Ne.symm hk]

theorem writeX_grows (s : Store α) (a : Nat) (r : Rxn α) (x : α) : s.Grows (s.writeX a r x) := by
  unfold Store.writeX
  split
  · exact ⟨le_refl _, le_refl _, fun _ _ => rfl⟩
  · exact ⟨le_refl _, by simp, fun k _ => getD_set_length _ _ _ _ _⟩

theorem writeX_wf (s : Store α) (hwf : s.WF) (a : Nat) (r : Rxn α) (x : α)
    (hr : (Obj.rxn r).WF s) : (s.writeX a r x).WF := by
  have g := writeX_grows s a r x
  cases hx : r.x with
  | own x0 =>
    apply wf_set s _ hwf g a (.rxn { r with x := .own x }) (by simp [Store.writeX, hx])
    exact ⟨lt_of_lt_of_le hr.1 g.arrs, trivial⟩
  | shared xa i =>
    apply wf_set s _ hwf g a (.rxn r) (by simp [Store.writeX, hx])
    exact Obj.WF_mono g _ hr

theorem rxn_wf_of_ok {s : Store α} (hwf : s.WF) {a : Nat} {r : Rxn α} (h : s.rxn? a = .ok r) :
    (Obj.rxn r).WF s := hwf _ (List.mem_of_getElem? (rxn?_ok h))

theorem set_wf_of_ok {s : Store α} (hwf : s.WF) {a : Nat} {t : RSet} (h : s.set? a = .ok t) :
    (Obj.set t).WF s := hwf _ (List.mem_of_getElem? (set?_ok h))

theorem rebind_wf (s : Store α) (hwf : s.WF) (a : Nat) (r : Rxn α) (v : List α) (x : α)
    (hr : (Obj.rxn r).WF s) : (s.rebind a r v x).WF := by
  unfold Store.rebind
  have g1 : s.Grows { s with arrs := s.arrs ++ [v] } := ⟨by simp, le_refl _, fun _ _ => rfl⟩
  have hwf1 : Store.WF { s with arrs := s.arrs ++ [v] } := wf_same s _ hwf g1 rfl
  apply writeX_wf _ hwf1
  exact ⟨by simp, XRef.WF_mono g1 r.x hr.2⟩

theorem assign_wf (s : Store α) (hwf : s.WF) (a : Nat) (r : Rxn α) (v : List α) (x : α)
    (hr : (Obj.rxn r).WF s) : (s.assign a r v x).WF := by
  unfold Store.assign
  split
  · exact rebind_wf s hwf a r v x hr
  · have g1 : s.Grows { s with arrs := s.arrs.set r.nu v } := ⟨by simp, le_refl _, fun _ _ => rfl⟩
    have hwf1 : Store.WF { s with arrs := s.arrs.set r.nu v } := wf_same s _ hwf g1 rfl
    exact writeX_wf _ hwf1 a r x (Obj.WF_mono g1 _ hr)

theorem iaddSubOp_wf (s s' : Store α) (sub : Bool) (a : Nat) (b : Option Nat) (k : Nat) (hwf : s.WF)
    (h : s.iaddSubOp sub a b = .ok (s', k)) : s'.WF := by
  unfold Store.iaddSubOp at h
  split at h; · simp at h
  rename_i ra hra
  split at h
  · simp at h
  · simp at h; rw [← h.1]; exact hwf
  · split at h
    · simp at h; rw [← h.1]; exact hwf
    · split at h; · simp at h
      simp at h; rw [← h.1]
      exact assign_wf s hwf a ra _ _ (rxn_wf_of_ok hwf hra)

theorem imulOp_wf (s s' : Store α) (a : Nat) (c : α) (k : Nat) (hwf : s.WF)
    (h : s.imulOp a c = .ok (s', k)) : s'.WF := by
  unfold Store.imulOp at h
  split at h; · simp at h
  rename_i ra hra
  simp at h; rw [← h.1]
  exact writeX_wf s hwf a ra _ (rxn_wf_of_ok hwf hra)

theorem idivOp_wf (s s' : Store α) (a : Nat) (c : α) (k : Nat) (hwf : s.WF)
    (h : s.idivOp a c = .ok (s', k)) : s'.WF := by
  unfold Store.idivOp at h
  split at h; · simp at h
  rename_i ra hra
  split at h; · simp at h
  simp at h; rw [← h.1]
  exact writeX_wf s hwf a ra _ (rxn_wf_of_ok hwf hra)

theorem setXOp_wf (s s' : Store α) (a : Nat) (c : α) (k : Nat) (hwf : s.WF)
    (h : s.setXOp a c = .ok (s', k)) : s'.WF := by
  unfold Store.setXOp at h
  split at h; · simp at h
  rename_i ra hra
  simp at h; rw [← h.1]
  exact writeX_wf s hwf a ra _ (rxn_wf_of_ok hwf hra)

theorem setYieldOp_wf (s s' : Store α) (a c : Nat) (y : α) (b : BArg) (k : Nat) (hwf : s.WF)
    (h : s.setYieldOp a c y b = .ok (s', k)) : s'.WF := by
  unfold Store.setYieldOp at h
  split at h; · simp at h
  rename_i ra hra
  split at h; · simp at h
  simp at h; rw [← h.1]
  exact writeX_wf s hwf a ra _ (rxn_wf_of_ok hwf hra)

theorem setBasisOp_wf (s s' : Store α) (a : Nat) (b : BArg) (k : Nat) (hwf : s.WF)
    (h : s.setBasisOp a b = .ok (s', k)) : s'.WF := by
  unfold Store.setBasisOp at h
  split at h
  · simp at h
  · simp at h
  · rename_i ra hra
    split at h; · simp at h
    split at h; · simp at h
    rename_i r hr
    simp at h; rw [← h.1]
    have hra' : (Obj.rxn ra).WF s := hwf _ (List.mem_of_getElem? hra)
    exact wf_set s _ hwf ⟨by simp, le_refl _, fun _ _ => rfl⟩ a _ rfl
      ⟨by simpa using hra'.1, XRef.WF_mono (s' := { s with arrs := s.arrs.set ra.nu r.v }) ⟨by simp, le_refl _, fun _ _ => rfl⟩ _ hra'.2⟩

theorem mkSetOp_wf (s s' : Store α) (ser : Bool) (ms : List Nat) (k : Nat) (hwf : s.WF)
    (h : s.mkSetOp ser ms = .ok (s', k)) : s'.WF := by
  unfold Store.mkSetOp at h
  split at h; · simp at h
  rename_i rs hrs
  split at h; · simp at h
  split at h; · simp at h
  split at h; · simp at h
  simp at h; rw [← h.1]
  refine wf_append s _ hwf ⟨by simp, by simp, fun xa hxa => by simp [List.getD, List.getElem?_append_left hxa]⟩ _ rfl ?_
  refine ⟨?_, by simp, by simp [List.getD], by simp⟩
  intro id hid
  simp only [List.mem_map, List.mem_range] at hid
  obtain ⟨j, hj, rfl⟩ := hid
  simp; omega

theorem itemOp_wf (s s' : Store α) (sid i : Nat) (k : Nat) (hwf : s.WF)
    (h : s.itemOp sid i = .ok (s', k)) : s'.WF := by
  unfold Store.itemOp at h
  split at h; · simp at h
  rename_i t ht
  split at h
  · rename_i hi
    simp at h; rw [← h.1]
    obtain ⟨h1, h2, h3, h4⟩ := set_wf_of_ok hwf ht
    refine wf_append s _ hwf ⟨le_refl _, le_refl _, fun _ _ => rfl⟩ _ rfl ?_
    refine ⟨?_, h2, by simp only; omega⟩
    simp only [List.getElem?_eq_getElem hi, Option.getD_some]
    exact h1 _ (List.getElem_mem hi)
  · simp at h

theorem setSetXOp_wf (s s' : Store α) (sid i : Nat) (x : α) (k : Nat) (hwf : s.WF)
    (h : s.setSetXOp sid i x = .ok (s', k)) : s'.WF := by
  unfold Store.setSetXOp at h
  split at h; · simp at h
  rename_i t ht
  split at h
  · simp at h; rw [← h.1]
    exact wf_same s _ hwf ⟨le_refl _, by simp, fun k _ => getD_set_length _ _ _ _ _⟩ rfl
  · simp at h

theorem writeWindow_length (arr : List α) (off : Nat) (xs : List α) :
    (writeWindow arr off xs).length = arr.length := by simp [writeWindow]

theorem getD_set_length' {β : Type} (l : List (List β)) (xa : Nat) (v : List β) (k : Nat)
    (hv : v.length = (l.getD xa []).length) :
    ((l.set xa v).getD k []).length = (l.getD k []).length := by
  by_cases hk : k = xa
  · subst hk
    by_cases hl : k < l.length
    · simp [List.getD, hl] at hv ⊢; exact hv
    · simp [List.getD, Nat.not_lt.mp hl]
  · simp [List.getD, Ne.symm hk]

theorem writeWindow_getD (arr : List α) (off : Nat) (xs : List α) (j : Nat) (hj : j < arr.length) :
    (writeWindow arr off xs).getD j 0 =
      if off ≤ j ∧ j < off + xs.length then xs.getD (j - off) 0 else arr.getD j 0 := by
  rw [getD_of_lt _ _ (by rw [writeWindow_length]; exact hj)]
  simp only [writeWindow, List.getElem_map, List.getElem_zipIdx, Nat.zero_add]
  split
  · rfl
  · exact (getD_of_lt arr j hj).symm

theorem setSetXAllOp_wf (s s' : Store α) (sid : Nat) (xs : List α) (k : Nat) (hwf : s.WF)
    (h : s.setSetXAllOp sid xs = .ok (s', k)) : s'.WF := by
  unfold Store.setSetXAllOp at h
  split at h; · simp at h
  rename_i t ht
  split at h
  · simp at h; rw [← h.1]
    exact wf_same s _ hwf ⟨le_refl _, by simp, fun k _ => getD_set_length' _ _ _ _ (writeWindow_length _ _ _)⟩ rfl
  · split at h
    · simp at h; rw [← h.1]
      exact wf_same s _ hwf ⟨le_refl _, by simp, fun k _ => getD_set_length' _ _ _ _ (writeWindow_length _ _ _)⟩ rfl
    · simp at h

theorem reduceOp_wf (s s' : Store α) (sid : Nat) (order : List Nat) (k : Nat) (hwf : s.WF)
    (h : s.reduceOp sid order = .ok (s', k)) : s'.WF := by
  unfold Store.reduceOp at h
  split at h; · simp at h
  rename_i t ht
  split at h; · simp at h
  split at h; · simp at h
  split at h; · simp at h
  rename_i vs hvs
  simp at h; rw [← h.1]
  refine wf_append s _ hwf ⟨by simp, by simp, fun xa hxa => by simp [List.getD, List.getElem?_append_left hxa]⟩ _ rfl ?_
  refine ⟨?_, by simp, by simp [List.getD], by simp⟩
  intro id hid
  simp only [List.mem_map, List.mem_range] at hid
  obtain ⟨j, hj, rfl⟩ := hid
  simp; omega

theorem setCopyOp_wf (s s' : Store α) (sid : Nat) (b : BArg) (k : Nat) (hwf : s.WF)
    (h : s.setCopyOp sid b = .ok (s', k)) : s'.WF := by
  unfold Store.setCopyOp at h
  split at h; · simp at h
  rename_i t ht
  split at h; · simp at h
  split at h; · simp at h
  rename_i vs hvs
  simp at h; rw [← h.1]
  refine wf_append s _ hwf ⟨by simp, by simp, fun xa hxa => by simp [List.getD, List.getElem?_append_left hxa]⟩ _ rfl ?_
  refine ⟨?_, by simp, by simp [List.getD], by simp⟩
  intro id hid
  simp only [List.mem_map, List.mem_range] at hid
  obtain ⟨j, hj, rfl⟩ := hid
  simp; omega

theorem sliceOp_wf (s s' : Store α) (sid i j : Nat) (k : Nat) (hwf : s.WF)
    (h : s.sliceOp sid i j = .ok (s', k)) : s'.WF := by
  unfold Store.sliceOp at h
  split at h; · simp at h
  rename_i t ht
  simp at h; rw [← h.1]
  obtain ⟨h1, h2, h3, h4⟩ := set_wf_of_ok hwf ht
  refine wf_append s _ hwf ⟨le_refl _, le_refl _, fun _ _ => rfl⟩ _ rfl ?_
  refine ⟨fun id hid => h1 id (List.mem_of_mem_take (List.mem_of_mem_drop hid)), h2, ?_, ?_⟩
  · simp only [List.length_drop, List.length_take]; omega
  · simp only [List.length_drop, List.length_take]; omega

/-! ### Reading values back -/

theorem addSub_fields (mw : List α) (sub : Bool) (a : RVal α) (b : Option (RVal α)) (r : RVal α)
    (h : a.addSub mw sub b = .ok r) : r.ridx = a.ridx ∧ r.basis = a.basis ∧ r.ph = a.ph := by
  unfold RVal.addSub at h
  split at h
  · simp at h; subst h; simp
  · split at h
    · simp at h; subst h; simp
    · split at h; · simp at h
      split at h; · simp at h
      simp at h; subst h; simp

theorem valOf_of_rxn? {s : Store α} {a : Nat} {r : Rxn α} (h : s.rxn? a = .ok r) :
    s.valOf a = .ok (s.val r) := by
  simp [Store.valOf, h, bind, Except.bind, pure, Except.pure]

theorem valOf_error {s : Store α} {a : Nat} {e : Err} (h : s.rxn? a = .error e) :
    s.valOf a = .error e := by
  simp [Store.valOf, h, bind, Except.bind]

theorem rxn?_of_getElem? {s : Store α} {a : Nat} {r : Rxn α} (h : s.objs[a]? = some (.rxn r)) :
    s.rxn? a = .ok r := by
  simp [Store.rxn?, h]

theorem newRxn_valOf (s : Store α) (p : Nat) (a : RVal α) : (s.newRxn p a).1.valOf (s.newRxn p a).2 = .ok a := by
  have h : (s.newRxn p a).1.rxn? (s.newRxn p a).2 =
      .ok { nu := s.arrs.length, ridx := a.ridx, x := .own a.x, basis := a.basis, ph := a.ph, pkg := p } := by
    apply rxn?_of_getElem?; simp [Store.newRxn]
  rw [valOf_of_rxn? h]
  simp [Store.val, Store.newRxn, Store.arr, Store.getX, List.getD]

theorem writeX_valOf (s : Store α) (a : Nat) (r : Rxn α) (x : α) (ha : a < s.objs.length)
    (hr : r.x.WF s) :
    (s.writeX a r x).valOf a = .ok { v := s.arr r.nu, ridx := r.ridx, x := x, basis := r.basis, ph := r.ph } := by
  cases hx : r.x with
  | own x0 =>
    have h : (s.writeX a r x).rxn? a = .ok { r with x := .own x } := by
      apply rxn?_of_getElem?; simp [Store.writeX, hx, ha]
    rw [valOf_of_rxn? h]
    simp [Store.val, Store.writeX, hx, Store.arr, Store.getX]
  | shared xa i =>
    have h : (s.writeX a r x).rxn? a = .ok r := by
      apply rxn?_of_getElem?; simp [Store.writeX, hx, ha]
    rw [valOf_of_rxn? h]
    rw [hx] at hr
    obtain ⟨h1, h2⟩ := hr
    have h2' : i < (s.xarrs[xa]).length := by simpa [List.getD, h1] using h2
    simp [Store.val, Store.writeX, hx, Store.arr, Store.getX, List.getD, h1, h2']

theorem rebind_valOf (s : Store α) (a : Nat) (r : Rxn α) (v : List α) (x : α) (ha : a < s.objs.length)
    (hr : r.x.WF s) :
    (s.rebind a r v x).valOf a = .ok { v := v, ridx := r.ridx, x := x, basis := r.basis, ph := r.ph } := by
  unfold Store.rebind
  have hr' : XRef.WF { s with arrs := s.arrs ++ [v] } ({ r with nu := s.arrs.length } : Rxn α).x := by
    cases hx : r.x with
    | own x0 => simp [XRef.WF, hx]
    | shared xa i => rw [hx] at hr; simpa [XRef.WF, hx] using hr
  rw [writeX_valOf _ a _ x (by simpa using ha) hr']
  simp [Store.arr, List.getD]

/-! ### Normalised values -/

/-- a reaction value is *normal* when its stoichiometry is normalised on its reactant (`ν[r] = -1`) or empty -/
def RVal.Normal (a : RVal α) : Prop := a.v.getD a.ridx 0 = -1 ∨ allZero a.v = true

theorem getD_map_div (s : List α) (c : α) (r : Nat) : (s.map (· / c)).getD r 0 = s.getD r 0 / c := by
  by_cases hr : r < s.length
  · simp [List.getD, hr]
  · simp [List.getD, Nat.not_lt.mp hr]

theorem map_div_neg_getD (s : List α) (r : Nat) (h : s.getD r 0 ≠ 0) :
    (s.map (· / -(s.getD r 0))).getD r 0 = -1 := by
  rw [getD_map_div]
  field_simp

theorem rescale_def (v : List α) (r : Nat) :
    rescale v r = if -(v.getD r 0) = 0 then .error .runtimeError else .ok (v.map (· / -(v.getD r 0))) := rfl

theorem rescale_normal (v v' : List α) (r : Nat) (h : rescale v r = .ok v') : v'.getD r 0 = -1 := by
  rw [rescale_def] at h
  split at h
  · exact absurd h (by simp)
  · rename_i hsc
    have := Except.ok.inj h; subst this
    exact map_div_neg_getD v r (fun e => hsc (by rw [e]; simp))

theorem copyB_normal (mw : List α) (a c : RVal α) (b : BArg) (ha : a.Normal) (h : a.copyB mw b = .ok c) :
    c.Normal ∧ c.ridx = a.ridx ∧ c.ph = a.ph := by
  unfold RVal.copyB at h
  split at h
  · simp at h; subst h; exact ⟨ha, rfl, rfl⟩
  · simp at h
  · split at h
    · simp at h; subst h; exact ⟨ha, rfl, rfl⟩
    · split at h; · simp at h
      rename_i v' hv
      simp at h; subst h
      exact ⟨Or.inl (rescale_normal _ _ _ hv), rfl, rfl⟩
  · split at h
    · simp at h; subst h; exact ⟨ha, rfl, rfl⟩
    · split at h; · simp at h
      rename_i v' hv
      simp at h; subst h
      exact ⟨Or.inl (rescale_normal _ _ _ hv), rfl, rfl⟩

theorem combineV_normal (sub : Bool) (va vb : List α) (xa xb : α) (r : Nat) (v : List α)
    (h : combineV sub va xa vb xb r = .ok v) : v.getD r 0 = -1 ∨ allZero v = true := by
  rw [combineV_def] at h
  split at h
  · rename_i hz; have := Except.ok.inj h; subst this; exact Or.inr hz
  · split at h
    · exact absurd h (by simp)
    · rename_i hd
      have := Except.ok.inj h; subst this
      exact Or.inl (map_div_neg_getD _ r (fun e => hd (by rw [e]; simp)))

theorem compat_ridx (mw : List α) (a b b' : RVal α) (h : a.compat mw b = .ok b') : b'.ridx = a.ridx := by
  unfold RVal.compat at h
  split at h; · simp at h
  split at h; · simp at h
  split at h; · simp at h
  rename_i hr
  simp at h; subst h
  simp only [ne_eq, not_not] at hr
  exact hr.symm

theorem addSub_normal (mw : List α) (sub : Bool) (a : RVal α) (b : Option (RVal α)) (c : RVal α)
    (ha : a.Normal) (h : a.addSub mw sub b = .ok c) : c.Normal := by
  unfold RVal.addSub at h
  split at h
  · simp at h; subst h; exact ha
  · split at h
    · simp at h; subst h; exact ha
    · split at h; · simp at h
      rename_i b' hb'
      split at h; · simp at h
      rename_i v hv
      simp at h; subst h
      have := combineV_normal _ _ _ _ _ _ _ hv
      rw [compat_ridx mw a _ b' hb'] at this
      exact this

theorem backwards_normal (nchem : Nat) (a c : RVal α) (r : Option Nat) (x : Option α)
    (h : a.backwards nchem r x = .ok c) : c.Normal := by
  unfold RVal.backwards at h
  split at h; · simp at h
  split at h; · simp at h
  rename_i v' hv
  simp at h; subst h
  exact Or.inl (rescale_normal _ _ _ hv)

theorem resetOp_wf (s s' : Store α) (a p : Nat) (k : Nat) (hwf : s.WF)
    (h : s.resetOp a p = .ok (s', k)) : s'.WF := by
  unfold Store.resetOp at h
  split at h
  · rename_i ra hra
    split at h; · simp at h
    split at h
    · simp at h; rw [← h.1]; exact hwf
    · split at h; · simp at h
      split at h; · simp at h
      rename_i r hr
      simp at h; rw [← h.1]
      have hra' : (Obj.rxn ra).WF s := hwf _ (List.mem_of_getElem? hra)
      refine wf_set s _ hwf ⟨by simp, le_refl _, fun _ _ => rfl⟩ a _ rfl ⟨by simp, ?_⟩
      exact XRef.WF_mono (s' := { s with arrs := s.arrs ++ [r.v] }) ⟨by simp, le_refl _, fun _ _ => rfl⟩ _ hra'.2
  · simp at h

theorem assign_valOf (s : Store α) (a : Nat) (r : Rxn α) (v : List α) (x : α) (ha : a < s.objs.length)
    (hr : (Obj.rxn r).WF s) :
    (s.assign a r v x).valOf a = .ok { v := v, ridx := r.ridx, x := x, basis := r.basis, ph := r.ph } := by
  unfold Store.assign
  split
  · exact rebind_valOf s a r v x ha hr.2
  · rename_i xa i hx
    have hx' : XRef.WF { s with arrs := s.arrs.set r.nu v } r.x := by
      have := hr.2; rw [hx] at this ⊢; exact this
    rw [writeX_valOf _ a r x (by simpa using ha) hx']
    simp [Store.arr, List.getD, hr.1]

/-- ids of the stoichiometry arrays an object holds -/
def Obj.arrIds : Obj α → List Nat
  | .rxn r => [r.nu]
  | .set t => t.rows

/-- ids of the shared X arrays an object reads (a plain reaction owns its conversion) -/
def Obj.xIds : Obj α → List Nat
  | .rxn r => match r.x with
    | .own _ => []
    | .shared xa _ => [xa]
  | .set t => [t.xa]

theorem wf_arrIds {s : Store α} {o : Obj α} (h : o.WF s) : ∀ id ∈ o.arrIds, id < s.arrs.length := by
  cases o with
  | rxn r => intro id hid; simp [Obj.arrIds] at hid; subst hid; exact h.1
  | set t => exact h.1

theorem wf_xIds {s : Store α} {o : Obj α} (h : o.WF s) : ∀ id ∈ o.xIds, id < s.xarrs.length := by
  cases o with
  | rxn r =>
    intro id hid
    cases hx : r.x with
    | own x => simp [Obj.xIds, hx] at hid
    | shared xa i =>
      simp [Obj.xIds, hx] at hid; subst hid
      have := h.2; rw [hx] at this; exact this.1
  | set t => intro id hid; simp [Obj.xIds] at hid; subst hid; exact h.2.1

/-- every operation preserves well-formedness -/
theorem step_wf (s s' : Store α) (op : Op α) (k : Nat) (hwf : s.WF) (h : s.step op = .ok (s', k)) :
    s'.WF := by
  cases hp : s.pureOp op with
  | some r =>
    obtain ⟨a, _, hs, _⟩ := step_pure_ok s s' op k r hp h
    rw [hs]; exact newRxn_wf s hwf _ a
  | none =>
    cases op <;> simp [Store.pureOp] at hp <;> simp only [Store.step, Store.pureOp] at h
    case iadd a b => exact iaddSubOp_wf s s' false a b k hwf h
    case isub a b => exact iaddSubOp_wf s s' true a b k hwf h
    case imul a c => exact imulOp_wf s s' a c k hwf h
    case idiv a c => exact idivOp_wf s s' a c k hwf h
    case setX a c => exact setXOp_wf s s' a c k hwf h
    case setYield a c y b => exact setYieldOp_wf s s' a c y b k hwf h
    case setBasis a b => exact setBasisOp_wf s s' a b k hwf h
    case mkSet ser ms => exact mkSetOp_wf s s' ser ms k hwf h
    case setCopy sid b => exact setCopyOp_wf s s' sid b k hwf h
    case slice sid i j => exact sliceOp_wf s s' sid i j k hwf h
    case reset a p => exact resetOp_wf s s' a p k hwf h
    case item sid i => exact itemOp_wf s s' sid i k hwf h
    case setSetX sid i x => exact setSetXOp_wf s s' sid i x k hwf h
    case setSetXAll sid xs => exact setSetXAllOp_wf s s' sid xs k hwf h
    case reduce sid order => exact reduceOp_wf s s' sid order k hwf h

/-- the store reached from `s` by a list of operations (failed operations change nothing) -/
def Store.run (s : Store α) : List (Op α) → Store α
  | [] => s
  | op :: ops =>
    match s.step op with
    | .ok (s', _) => s'.run ops
    | .error _ => s.run ops

theorem run_wf (ops : List (Op α)) : ∀ (s : Store α), s.WF → (s.run ops).WF := by
  induction ops with
  | nil => intro s h; exact h
  | cons op ops ih =>
    intro s h
    simp only [Store.run]
    split
    · rename_i s' k hs; exact ih s' (step_wf s s' op k h hs)
    · exact ih s h

/-! ### Helpers for the property statements -/

theorem hasReaction_false_x (b : RVal α) (r : Nat) (hb : b.v.getD r 0 = -1) (h : b.hasReaction = false) :
    b.x = 0 := by
  have hz : allZero b.v = false := allZero_false_of_getD_ne b.v r (by rw [hb]; simp)
  simpa [RVal.hasReaction, hz] using h


/-- what an operation leaves behind, as a value: the fields of the object it returns (or the error) -/
def outcome (s : Store α) (op : Op α) : Except Err (RVal α) :=
  match s.step op with
  | .error e => .error e
  | .ok (s', k) => s'.valOf k

theorem lt_of_rxn? {s : Store α} {a : Nat} {r : Rxn α} (h : s.rxn? a = .ok r) : a < s.objs.length := by
  have := rxn?_ok h
  exact (List.getElem?_eq_some_iff.mp this).1

theorem outcome_pure (s : Store α) (op : Op α) (r : Except Err (RVal α)) (hp : s.pureOp op = some r) :
    outcome s op = r := by
  unfold outcome
  rw [step_pure s op r hp]
  cases r with
  | error e => rfl
  | ok a => simp [Except.bind, newRxn_valOf]

theorem iaddSub_eq_binary (s : Store α) (hwf : s.WF) (sub : Bool) (a : Nat) (b : Option Nat) :
    outcome s (if sub then .isub a b else .iadd a b) = outcome s (if sub then .sub a b else .add a b) := by
  have hR : outcome s (if sub then .sub a b else .add a b)
      = (do (← s.valOf a).addSub (s.mwOf (s.pkgOf a)) sub (← s.optValFor a b)) := by
    cases sub <;> exact outcome_pure s _ _ rfl
  have hL : outcome s (if sub then .isub a b else .iadd a b)
      = (match s.iaddSubOp sub a b with | .error e => .error e | .ok (s', k) => s'.valOf k) := by
    cases sub <;> rfl
  rw [hR, hL]
  unfold Store.iaddSubOp
  cases hra : s.rxn? a with
  | error e => simp [valOf_error hra, bind, Except.bind]
  | ok ra =>
    rw [valOf_of_rxn? hra]
    have ha := lt_of_rxn? hra
    have hx := (rxn_wf_of_ok hwf hra).2
    cases hb : s.optValFor a b with
    | error e => simp [bind, Except.bind]
    | ok ob =>
      cases ob with
      | none => simp [bind, Except.bind, RVal.addSub, valOf_of_rxn? hra]
      | some vb =>
        cases hre : vb.hasReaction
        · simp [bind, Except.bind, addSub_noReaction _ _ _ _ hre, hre, valOf_of_rxn? hra]
        · simp only [bind, Except.bind, hre, Bool.not_true, Bool.false_eq_true, if_false]
          cases hr : (s.val ra).addSub (s.mwOf (s.pkgOf a)) sub (some vb) with
          | error e => rfl
          | ok r =>
            obtain ⟨h1, h2, h3⟩ := addSub_fields _ _ _ _ _ hr
            simp only []
            rw [assign_valOf s a ra r.v r.x ha (rxn_wf_of_ok hwf hra)]
            congr 1
            apply RVal.ext <;> simp [Store.val] at * <;> simp [*]


/-- cell `i` of X array `xa` -/
def cell (s : Store α) (xa i : Nat) : α := (s.xarrs.getD xa []).getD i 0


theorem valOf_normal (s : Store α) (hin : ∀ id r, s.rxn? id = .ok r → (s.val r).Normal) (a : Nat) (v : RVal α)
    (h : s.valOf a = .ok v) : v.Normal := by
  cases hr : s.rxn? a with
  | error e => rw [valOf_error hr] at h; simp at h
  | ok r => rw [valOf_of_rxn? hr] at h; cases h; exact hin a r hr


/-- the operations whose result must not share anything with what exists: the arithmetic, `copy`,
`backwards`, the constructors (everything `pureOp` covers) and `reduce` -/
def makesFresh (s : Store α) (op : Op α) : Prop :=
  (s.pureOp op).isSome ∨ (∃ sid order, op = .reduce sid order) ∨ (∃ sid b, op = .setCopy sid b)
    ∨ (∃ ser ms, op = .mkSet ser ms)


/-! ### `ParallelReaction.reduce`: pointwise sums -/

/-- total change of entry `i` caused by a list of reactions applied in parallel to the feed `n` -/
def dAt (rs : List (RVal α)) (n : List α) (i : Nat) : α :=
  (rs.map (fun a => a.x * n.getD a.ridx 0 * a.v.getD i 0)).sum

def triples (rs : List (RVal α)) : List (List α × Nat × α) := rs.map (fun a => (a.v, a.ridx, a.x))

theorem getD_of_ge (l : List α) (i : Nat) (h : l.length ≤ i) : l.getD i 0 = 0 := by
  simp [List.getD, h]

theorem ext_getD (l1 l2 : List α) (hl : l1.length = l2.length) (h : ∀ i, l1.getD i 0 = l2.getD i 0) :
    l1 = l2 := by
  apply List.ext_getElem hl
  intro i h1 h2
  have := h i
  rwa [getD_of_lt l1 i h1, getD_of_lt l2 i h2] at this

theorem zipWith_getD (f : α → α → α) (hf : f 0 0 = 0) (l1 l2 : List α) (hl : l1.length = l2.length) (i : Nat) :
    (List.zipWith f l1 l2).getD i 0 = f (l1.getD i 0) (l2.getD i 0) := by
  by_cases hi : i < l1.length
  · have hi2 : i < l2.length := hl ▸ hi
    rw [getD_of_lt _ i (by simp [hi, hi2]), getD_of_lt l1 i hi, getD_of_lt l2 i hi2]; simp
  · have hi' := Nat.not_lt.mp hi
    rw [getD_of_ge _ i (by simp [← hl, hi']), getD_of_ge l1 i hi', getD_of_ge l2 i (hl ▸ hi'), hf]

theorem foldl_parallel (rs : List (RVal α)) (n : List α) (hlen : ∀ a ∈ rs, a.v.length = n.length) :
    ∀ acc : List α, acc.length = n.length →
      ((triples rs).foldl (fun acc (q : List α × Nat × α) =>
          List.zipWith (fun ai vi => ai + q.2.2 * n.getD q.2.1 0 * vi) acc q.1) acc).length = n.length ∧
      ∀ i, ((triples rs).foldl (fun acc (q : List α × Nat × α) =>
          List.zipWith (fun ai vi => ai + q.2.2 * n.getD q.2.1 0 * vi) acc q.1) acc).getD i 0
        = acc.getD i 0 + dAt rs n i := by
  induction rs with
  | nil => intro acc h; exact ⟨by simpa [triples] using h, fun i => by simp [triples, dAt]⟩
  | cons a rs ih =>
    intro acc hacc
    have ha := hlen a (List.mem_cons_self)
    have ih' := ih (fun b hb => hlen b (List.mem_cons_of_mem _ hb))
      (List.zipWith (fun ai vi => ai + a.x * n.getD a.ridx 0 * vi) acc a.v) (by simp [hacc, ha])
    simp only [triples, List.map_cons, List.foldl_cons] at ih' ⊢
    refine ⟨ih'.1, fun i => ?_⟩
    rw [ih'.2 i, zipWith_getD _ (by simp) acc a.v (by rw [hacc, ha]) i]
    simp only [dAt, List.map_cons, List.sum_cons]
    ring

theorem parallel_getD (rs : List (RVal α)) (n : List α) (hlen : ∀ a ∈ rs, a.v.length = n.length) :
    (parallel (triples rs) n).length = n.length ∧
    ∀ i, (parallel (triples rs) n).getD i 0 = n.getD i 0 + dAt rs n i :=
  foldl_parallel rs n hlen n rfl

theorem allZero_getD (v : List α) (h : allZero v = true) (i : Nat) : v.getD i 0 = 0 := by
  by_cases hi : i < v.length
  · rw [getD_of_lt v i hi]
    simp only [allZero, List.all_eq_true, decide_eq_true_eq] at h
    exact h _ (List.getElem_mem hi)
  · exact getD_of_ge v i (Nat.not_lt.mp hi)

theorem comb_getD_all (va vb : List α) (xa xb : α) (hl : va.length = vb.length) (i : Nat) :
    (comb false va xa vb xb).getD i 0 = va.getD i 0 * xa + vb.getD i 0 * xb := by
  unfold comb
  rw [zipWith_getD _ (by simp) va vb hl i]
  simp

/-- state of the running sum inside one group of `reduce` -/
def Good (r L : Nat) (acc : RVal α) : Prop :=
  acc.ridx = r ∧ acc.v.length = L ∧ (acc.v.getD r 0 = -1 ∨ (allZero acc.v = true ∧ acc.x = 0))

theorem addSub_step (mw : List α) (acc b acc' : RVal α) (r L : Nat) (hg : Good r L acc)
    (hb : b.v.getD b.ridx 0 = -1) (hbr : b.ridx = r) (hbl : b.v.length = L)
    (hbasis : b.basis = acc.basis) (hph : acc.ph = b.ph)
    (h : acc.addSub mw false (some b) = .ok acc') :
    Good r L acc' ∧ acc'.basis = acc.basis ∧ acc'.ph = acc.ph ∧
      ∀ i, acc'.x * acc'.v.getD i 0 = acc.x * acc.v.getD i 0 + b.x * b.v.getD i 0 := by
  obtain ⟨hr, hL, hgood⟩ := hg
  cases hre : b.hasReaction
  · rw [addSub_noReaction mw false acc b hre] at h
    have := Except.ok.inj h; subst this
    have hbx := hasReaction_false_x b b.ridx hb hre
    exact ⟨⟨hr, hL, hgood⟩, rfl, rfl, fun i => by rw [hbx]; ring⟩
  · have hbx : b.x ≠ 0 := by
      intro e; simp [RVal.hasReaction, e] at hre
    have hl : acc.v.length = b.v.length := by rw [hL, hbl]
    have hsr : (comb false acc.v acc.x b.v b.x).getD r 0 = acc.v.getD r 0 * acc.x - b.x := by
      rw [comb_getD_all _ _ _ _ hl r, ← hbr, hb]; ring
    unfold RVal.addSub at h
    simp only [hre, Bool.not_true, Bool.false_eq_true, if_false,
      compat_same mw acc b hbasis hph (by rw [hr, hbr])] at h
    cases hc : combineV false acc.v acc.x b.v b.x b.ridx with
    | error e => rw [hc] at h; exact absurd h (by simp)
    | ok v =>
      rw [hc] at h
      have := Except.ok.inj h; subst this
      rw [combineV_def] at hc
      split at hc
      · -- everything cancels
        rename_i hz
        have := Except.ok.inj hc; subst this
        have hz0 := allZero_getD _ hz
        have hx0 : acc.x + b.x = 0 := by
          have h0 := hz0 r
          rw [hsr] at h0
          rcases hgood with hn | ⟨hzz, hx⟩
          · rw [hn] at h0; linear_combination -h0
          · rw [allZero_getD _ hzz r, hx] at h0; exfalso; apply hbx; linear_combination -h0
        refine ⟨⟨hr, by simp [comb, hL, hbl], Or.inr ⟨hz, by simpa using hx0⟩⟩, rfl, rfl, fun i => ?_⟩
        have h0 := hz0 i
        rw [comb_getD_all _ _ _ _ hl i] at h0
        simp only []
        rw [hz0 i]; linear_combination -h0
      · rw [hbr, hsr] at hc
        split at hc; · exact absurd hc (by simp)
        rename_i hd
        have := Except.ok.inj hc; subst this
        have hd' : acc.x + b.x = -(acc.v.getD r 0 * acc.x - b.x) ∧ acc.x + b.x ≠ 0 := by
          rcases hgood with hn | ⟨hzz, hx⟩
          · rw [hn] at hd ⊢
            exact ⟨by ring, fun e => hd (by linear_combination e)⟩
          · rw [allZero_getD _ hzz r, hx] at hd ⊢
            exact ⟨by ring, by simpa using hbx⟩
        refine ⟨⟨hr, by simp [comb, hL, hbl], Or.inl ?_⟩, rfl, rfl, fun i => ?_⟩
        · simp only []
          rw [getD_map_div, hsr]
          have : acc.v.getD r 0 * acc.x - b.x ≠ 0 := fun e => hd (by rw [e]; simp)
          field_simp
        · simp only []
          rw [getD_map_div, comb_getD_all _ _ _ _ hl i, ← hd'.1]
          have := hd'.2
          field_simp

/-- one group of `reduce`: the conversion-weighted stoichiometry of the merged reaction is the sum of
the members' -/
theorem reduceGroup_sum (mw : List α) (r L : Nat) (basis : Basis) (ph : Nat) :
    ∀ (rest : List (RVal α)) (acc g : RVal α), Good r L acc → acc.basis = basis → acc.ph = ph →
      (∀ b ∈ rest, b.v.getD b.ridx 0 = -1 ∧ b.ridx = r ∧ b.v.length = L ∧ b.basis = basis ∧ b.ph = ph) →
      reduceGroup mw acc rest = .ok g →
      Good r L g ∧ ∀ i, g.x * g.v.getD i 0 = acc.x * acc.v.getD i 0 + (rest.map (fun b => b.x * b.v.getD i 0)).sum := by
  intro rest
  induction rest with
  | nil =>
    intro acc g hg _ _ _ h
    simp only [reduceGroup] at h
    have := Except.ok.inj h; subst this
    exact ⟨hg, fun i => by simp⟩
  | cons b rest ih =>
    intro acc g hg hbasis hph hall h
    simp only [reduceGroup] at h
    split at h; · exact absurd h (by simp)
    rename_i acc' hacc'
    obtain ⟨hb1, hb2, hb3, hb4, hb5⟩ := hall b List.mem_cons_self
    obtain ⟨hg', hbs', hph', hsum⟩ := addSub_step mw acc b acc' r L hg hb1 hb2 hb3 (by rw [hb4, hbasis])
      (by rw [hph, hb5]) hacc'
    obtain ⟨hgg, hs⟩ := ih acc' g hg' (by rw [hbs', hbasis]) (by rw [hph', hph])
      (fun c hc => hall c (List.mem_cons_of_mem _ hc)) h
    refine ⟨hgg, fun i => ?_⟩
    rw [hs i, hsum i]
    simp only [List.map_cons, List.sum_cons]
    ring

theorem sum_ite_single (f : α) (k0 : Nat) : ∀ (order : List Nat), order.Nodup → k0 ∈ order →
    (order.map (fun k => if k0 = k then f else 0)).sum = f := by
  intro order
  induction order with
  | nil => intro _ h; simp at h
  | cons k ks ih =>
    intro hn hm
    rw [List.nodup_cons] at hn
    simp only [List.map_cons, List.sum_cons]
    by_cases hk : k0 = k
    · subst hk
      have : (ks.map (fun k => if k0 = k then f else 0)).sum = 0 := by
        apply List.sum_eq_zero
        intro x hx
        simp only [List.mem_map] at hx
        obtain ⟨k, hk, rfl⟩ := hx
        have : k0 ≠ k := fun e => hn.1 (e ▸ hk)
        simp [this]
      simp [this]
    · have hm' : k0 ∈ ks := by
        rcases List.mem_cons.mp hm with e | e
        · exact absurd e hk
        · exact e
      simp [hk, ih hn.2 hm']

/-- summing group by group (keys without repetition, every member's key listed) is summing everything -/
theorem sum_partition (f : RVal α → α) (order : List Nat) (hn : order.Nodup) :
    ∀ (ms : List (RVal α)), (∀ a ∈ ms, a.ridx ∈ order) →
      (order.map (fun k => ((ms.filter (fun m => decide (m.ridx = k))).map f).sum)).sum = (ms.map f).sum := by
  intro ms
  induction ms with
  | nil => intro _; simp
  | cons a ms ih =>
    intro hall
    have ha := hall a List.mem_cons_self
    have ih' := ih (fun b hb => hall b (List.mem_cons_of_mem _ hb))
    have hsplit : ∀ k, (((a :: ms).filter (fun m => decide (m.ridx = k))).map f).sum
        = (if a.ridx = k then f a else 0) + ((ms.filter (fun m => decide (m.ridx = k))).map f).sum := by
      intro k
      by_cases hk : a.ridx = k <;> simp [List.filter_cons, hk]
    simp only [hsplit]
    rw [List.sum_map_add, sum_ite_single (f a) a.ridx order hn ha, ih']
    simp

theorem sum_same_key (n : List α) (k i : Nat) : ∀ (l : List (RVal α)), (∀ a ∈ l, a.ridx = k) →
    (l.map (fun a => a.x * n.getD a.ridx 0 * a.v.getD i 0)).sum
      = n.getD k 0 * (l.map (fun a => a.x * a.v.getD i 0)).sum := by
  intro l
  induction l with
  | nil => intro _; simp
  | cons a l ih =>
    intro h
    simp only [List.map_cons, List.sum_cons]
    rw [ih (fun b hb => h b (List.mem_cons_of_mem _ hb)), h a List.mem_cons_self]
    ring

theorem reduceVals_dAt (mw : List α) (ms : List (RVal α)) (n : List α) (basis : Basis) (ph : Nat)
    (hall : ∀ a ∈ ms, a.v.getD a.ridx 0 = -1 ∧ a.v.length = n.length ∧ a.basis = basis ∧ a.ph = ph) :
    ∀ (order : List Nat) (vs : List (RVal α)), reduceVals mw ms order = .ok vs →
      (∀ g ∈ vs, g.v.length = n.length) ∧
      ∀ i, dAt vs n i = (order.map (fun k => ((ms.filter (fun m => decide (m.ridx = k))).map
                          (fun a => a.x * n.getD a.ridx 0 * a.v.getD i 0)).sum)).sum := by
  intro order
  induction order with
  | nil =>
    intro vs h
    simp only [reduceVals] at h
    have := Except.ok.inj h; subst this
    exact ⟨by simp, fun i => by simp [dAt]⟩
  | cons k ks ih =>
    intro vs h
    simp only [reduceVals] at h
    split at h
    · exact absurd h (by simp)
    · rename_i m rest hf
      split at h; · exact absurd h (by simp)
      rename_i g hg
      split at h; · exact absurd h (by simp)
      rename_i rs hrs
      have := Except.ok.inj h; subst this
      have hmem : ∀ a ∈ m :: rest, a ∈ ms ∧ a.ridx = k := by
        intro a ha
        rw [← hf] at ha
        simpa using List.mem_filter.mp ha
      obtain ⟨hm1, hm2, hm3, hm4⟩ := hall m (hmem m List.mem_cons_self).1
      have hmk := (hmem m List.mem_cons_self).2
      have hgood : Good k n.length m := ⟨hmk, hm2, Or.inl (hmk ▸ hm1)⟩
      obtain ⟨hgg, hs⟩ := reduceGroup_sum mw k n.length basis ph rest m g hgood hm3 hm4
        (fun b hb => by
          obtain ⟨hb0, hbk⟩ := hmem b (List.mem_cons_of_mem _ hb)
          obtain ⟨h1, h2, h3, h4⟩ := hall b hb0
          exact ⟨h1, hbk, h2, h3, h4⟩) hg
      obtain ⟨ihl, ihs⟩ := ih rs hrs
      refine ⟨fun q hq => ?_, fun i => ?_⟩
      · rcases List.mem_cons.mp hq with rfl | hq
        · exact hgg.2.1
        · exact ihl q hq
      · simp only [dAt, List.map_cons, List.sum_cons] at ihs ⊢
        rw [ihs i, hf, sum_same_key n k i (m :: rest) (fun a ha => (hmem a ha).2)]
        simp only [List.map_cons, List.sum_cons]
        rw [hgg.1, ← hs i]
        ring

theorem combineV_length (sub : Bool) (va vb : List α) (xa xb : α) (r : Nat) (v : List α)
    (h : combineV sub va xa vb xb r = .ok v) : v.length = min va.length vb.length := by
  rw [combineV_def] at h
  split at h
  · have := Except.ok.inj h; subst this; simp [comb]
  · split at h
    · exact absurd h (by simp)
    · have := Except.ok.inj h; subst this; simp [comb]

theorem react_zero_x (v : List α) (r : Nat) (n : List α) (h : n.length ≤ v.length) : react v r 0 n = n := by
  apply List.ext_getElem
  · simp [react]; omega
  · intro i h1 h2; simp [react]

/-! ### Operands on different bases -/

theorem addSub_some_inv (mw : List α) (sub : Bool) (a b c : RVal α) (hre : b.hasReaction = true)
    (h : a.addSub mw sub (some b) = .ok c) :
    ∃ b', b.copyB mw (BArg.ofBasis a.basis) = .ok b' ∧ a.ph = b'.ph ∧ a.ridx = b'.ridx ∧
      ∃ v, combineV sub a.v a.x b'.v b'.x b'.ridx = .ok v ∧
        c = { a with v := v, x := if sub then a.x - b'.x else a.x + b'.x } := by
  unfold RVal.addSub at h
  simp only [hre, Bool.not_true, Bool.false_eq_true, if_false] at h
  split at h; · exact absurd h (by simp)
  rename_i b' hb'
  split at h; · exact absurd h (by simp)
  rename_i v hv
  have hc := (Except.ok.inj h).symm
  unfold RVal.compat at hb'
  split at hb'; · exact absurd hb' (by simp)
  rename_i b'' hb''
  split at hb'; · exact absurd hb' (by simp)
  rename_i hph
  split at hb'; · exact absurd hb' (by simp)
  rename_i hr
  have := Except.ok.inj hb'; subst this
  simp only [ne_eq, not_not] at hph hr
  exact ⟨b'', hb'', hph, hr, v, hv, hc⟩

/-- what `copy(basis)` keeps: conversion, reactant, phases, length; the result carries the requested basis and is
normalised on the reactant if the original is -/
theorem copyB_ofBasis (mw : List α) (b b' : RVal α) (tgt : Basis) (hb : b.v.getD b.ridx 0 = -1)
    (hl : b.v.length = (mwFlat mw b.ph).length)
    (h : b.copyB mw (BArg.ofBasis tgt) = .ok b') :
    b'.x = b.x ∧ b'.ridx = b.ridx ∧ b'.ph = b.ph ∧ b'.basis = tgt ∧ b'.v.length = b.v.length ∧
      b'.v.getD b'.ridx 0 = -1 := by
  cases tgt <;> simp only [BArg.ofBasis, RVal.copyB] at h
  all_goals
    split at h
    · rename_i hbas
      have := Except.ok.inj h; subst this
      exact ⟨rfl, rfl, rfl, hbas, rfl, hb⟩
    · split at h; · exact absurd h (by simp)
      rename_i v' hv'
      have := Except.ok.inj h; subst this
      refine ⟨rfl, rfl, rfl, rfl, ?_, rescale_normal _ _ _ hv'⟩
      simp only [rebaseV, rescale_def] at hv'
      split at hv'; · exact absurd hv' (by simp)
      have := Except.ok.inj hv'; subst this
      simp [hl]

/-! ### Re-indexing onto another package -/

theorem gatherV_length (τ : Nat → Option Nat) (len : Nat) (v : List α) : (gatherV τ len v).length = len := by
  simp [gatherV]

theorem gatherV_getD (τ : Nat → Option Nat) (len : Nat) (v : List α) (t : Nat) :
    (gatherV τ len v).getD t 0 =
      if t < len then (match τ t with | some j => v.getD j 0 | none => 0) else 0 := by
  by_cases h : t < len
  · rw [getD_of_lt _ _ (by simp [gatherV, h])]
    simp only [gatherV, List.getElem_map, List.getElem_range, h, if_true]
    cases τ t <;> rfl
  · rw [getD_of_ge _ _ (by simp [gatherV]; omega)]
    simp [h]

theorem missing_false (σ : Nat → Option Nat) (v : List α) (h : missing σ v = false) (j : Nat)
    (hj : v.getD j 0 ≠ 0) : ∃ k, σ j = some k := by
  have hlt := lt_of_getD_ne v j hj
  simp only [missing, List.any_eq_false, List.mem_range, Bool.and_eq_true, decide_eq_true_eq,
    Option.isNone_iff_eq_none, not_and] at h
  have := h j hlt hj
  cases hσ : σ j with
  | none => exact absurd hσ this
  | some k => exact ⟨k, rfl⟩

theorem react_getD (v : List α) (r : Nat) (x : α) (n : List α) (hl : v.length = n.length) (i : Nat) :
    (react v r x n).getD i 0 = n.getD i 0 + n.getD r 0 * x * v.getD i 0 := by
  unfold react
  rw [zipWith_getD _ (by simp) n v hl.symm i]

/-! ### Packages -/

theorem pkgOf_rxn {s : Store α} {a : Nat} {r : Rxn α} (h : s.rxn? a = .ok r) : s.pkgOf a = r.pkg := by
  simp [Store.pkgOf, rxn?_ok h]

theorem optValFor_same {s : Store α} {a b : Nat} {rb : Rxn α} (hrb : s.rxn? b = .ok rb)
    (hpk : s.pkgOf a = s.pkgOf b) : s.optValFor a (some b) = .ok (some (s.val rb)) := by
  simp [Store.optValFor, valOf_of_rxn? hrb, hpk]

/-! ### Definitional facts about the model and helpers of the property theorems (not property clauses) -/

/-- `a / k` is `a` with its conversion divided by `k` (`k ≠ 0`); `a / 0` raises `ZeroDivisionError`. -/
theorem sdiv_scales_X (a : RVal α) (k : α) (hk : k ≠ 0) : a.sdiv k = .ok { a with x := a.x / k } := by
  simp [RVal.sdiv, RVal.smul, hk, div_eq_mul_inv]

theorem sdiv_zero (a : RVal α) : a.sdiv 0 = .error .zeroDiv := by
  simp [RVal.sdiv]

/-- `-a` is `a` with the conversion negated -/
theorem neg_scales_X (a : RVal α) : a.neg = { a with x := -a.x } := by
  simp [RVal.neg]

/-- applying two same-basis reactions in parallel to a stream is adding their separate effects on that stream -/
theorem applyStream_parallel_two (mwf : List α) (β : Basis) (a b : RVal α) (n : List α)
    (hmw : ∀ m ∈ mwf, m ≠ 0) (hlm : mwf.length = n.length)
    (hla : a.v.length = n.length) (hlb : b.v.length = n.length) :
    applyStream mwf β (parallel [(a.v, a.ridx, a.x), (b.v, b.ridx, b.x)]) n =
      List.zipWith (· + ·) (applyStream mwf β (react a.v a.ridx a.x) n)
        (List.zipWith (· - ·) (applyStream mwf β (react b.v b.ridx b.x) n) n) := by
  cases β
  · simp only [applyStream]
    apply List.ext_getElem
    · simp [react, parallel, hla, hlb]
    · intro i h1 h2
      simp only [react, parallel, List.foldl_cons, List.foldl_nil, List.getElem_zipWith]
      ring
  · simp only [applyStream]
    apply List.ext_getElem
    · simp [react, parallel, hla, hlb, hlm]
    · intro i h1 h2
      have him : i < mwf.length := by simp [react, parallel, hla, hlb, hlm] at h1; omega
      have hmi : mwf[i] ≠ 0 := hmw _ (List.getElem_mem him)
      simp only [react, parallel, List.foldl_cons, List.foldl_nil, List.getElem_zipWith]
      field_simp
      ring

theorem applyArr_of_valOf (s : Store α) (k : Nat) (c : RVal α) (n : List α) (h : s.valOf k = .ok c) :
    s.applyArr k n = .ok (react c.v c.ridx c.x n) := by
  cases hr : s.rxn? k with
  | error e => rw [valOf_error hr] at h; exact absurd h (by simp)
  | ok r =>
    rw [valOf_of_rxn? hr] at h
    have := Except.ok.inj h; subst this
    simp [Store.applyArr, rxn?_ok hr]

theorem applyStr_of_valOf (s : Store α) (k : Nat) (c : RVal α) (n : List α) (h : s.valOf k = .ok c) :
    s.applyStr k n = .ok (applyStream (mwFlat (s.mwOf (s.pkgOf k)) c.ph) c.basis (react c.v c.ridx c.x) n) := by
  cases hr : s.rxn? k with
  | error e => rw [valOf_error hr] at h; exact absurd h (by simp)
  | ok r =>
    rw [valOf_of_rxn? hr] at h
    have := Except.ok.inj h; subst this
    simp [Store.applyStr, rxn?_ok hr, pkgOf_rxn hr]

/-- reading back a set whose rows and X array were just allocated from a list of values -/
theorem fresh_set_triples (s : Store α) (vs : List (RVal α)) (t' : RSet) (s' : Store α)
    (hrows : t'.rows = (List.range vs.length).map (· + s.arrs.length)) (hxa : t'.xa = s.xarrs.length)
    (hoff : t'.xoff = 0) (hri : t'.ridxs = vs.map (·.ridx))
    (harr : s'.arrs = s.arrs ++ vs.map (·.v)) (hx : s'.xarrs = s.xarrs ++ [vs.map (·.x)]) :
    (s'.setVals t').map (fun a => (a.v, a.ridx, a.x)) = vs.map (fun a => (a.v, a.ridx, a.x)) := by
  simp only [Store.setVals, List.map_map, hrows, hxa, hoff, hri, harr, hx, List.length_map, List.length_range,
    Nat.zero_add]
  apply List.ext_getElem
  · simp
  · intro j h1 h2
    have hj : j < vs.length := by simpa using h2
    simp [Store.arr, List.getD, hj, harr, List.getElem?_append_right]

/-- calling a `SeriesReaction` is the left fold of its members over the running material; calling a
`ParallelReaction` takes every extent from the feed -/
theorem set_apply_def (s : Store α) (sid : Nat) (t : RSet) (n : List α) (ht : s.set? sid = .ok t) :
    s.applyArr sid n = .ok (if t.series
      then ((s.setVals t).map fun a => (a.v, a.ridx, a.x)).foldl (fun acc q => react q.1 q.2.1 q.2.2 acc) n
      else parallel ((s.setVals t).map fun a => (a.v, a.ridx, a.x)) n) := by
  simp [Store.applyArr, set?_ok ht, setAct, series]

/-! ### The code as found before repair C17-7 (kept for the record) -/

/-- `a += b` / `a -= b` as the code was before C17-7: the new array is bound to the object even when it is a
`ReactionItem`, while the conversion is written into the set's X cell — the set's row goes stale -/
def Store.iaddSubOpAsFound (s : Store α) (sub : Bool) (a : Nat) (b : Option Nat) : Except Err (Store α × Nat) :=
  match s.rxn? a with
  | .error e => .error e
  | .ok ra =>
    match s.optValFor a b with
    | .error e => .error e
    | .ok none => .ok (s, a)
    | .ok (some vb) =>
      if !vb.hasReaction then .ok (s, a)
      else match (s.val ra).addSub (s.mwOf (s.pkgOf a)) sub (some vb) with
        | .error e => .error e
        | .ok r => .ok (s.rebind a ra r.v r.x, a)

end ThermoVerif.ReactionAlgebra
