import ThermoVerif.Lemmas.IndexCacheWorld
import ThermoVerif.Lemmas.IndexerData
import ThermoVerif.Lemmas.Chemicals
/-
C10, proof steps of `cache_transparent`: one simulation lemma per operation kind (helper lemmas;
the property statements are in `Props/C10.lean`).
-/
namespace ThermoVerif.Props.C10
open ThermoVerif.Chemicals ThermoVerif.Indexer ThermoVerif.IndexCache

theorem setAlias_existing {c c' : Chem} {res : List String} {id a : String}
    (h : c.setAlias res id a = .ok c') (ha : (alookup a c.index).isNone = false) : c' = c := by
  unfold Chem.setAlias at h
  split at h
  · split at h
    · split at h
      · cases h
      · split at h <;> cases h
    · cases h
  · split at h
    · cases h
    · split at h <;> cases h
  · split at h
    · cases h
    · split at h
      · rename_i hn; simp [hn] at ha
      · split at h
        · cases h; rfl
        · cases h
      · cases h

theorem step_compile (w : World) (h : Inv w) (specs : List Spec) :
    (w.step (.compile specs)).2 = (w.obs.step (.compile specs)).2 ∧
    (w.step (.compile specs)).1.obs = (w.obs.step (.compile specs)).1 ∧
    Inv (w.step (.compile specs)).1 := by
  simp only [World.step, PWorld.step]
  cases compile specs with
  | error e => exact ⟨rfl, rfl, h⟩
  | ok c =>
    refine ⟨rfl, by simp [World.obs], ?_, ?_, ?_⟩
    · intro s hs
      simp only [List.mem_append, List.mem_singleton] at hs
      rcases hs with hs | hs
      · exact h.chem s hs
      · subst hs; exact cacheOK_nil _
    · intro e he s hs
      have hb := h.bound e he
      simp only at hs
      rw [List.getElem?_append_left hb] at hs
      exact h.mat e he s hs
    · intro e he
      have hb := h.bound e he
      simp only [List.length_append, List.length_singleton]
      omega

theorem step_alias (w : World) (h : Inv w) (c : Nat) (id a : String) :
    (w.step (.alias c id a)).2 = (w.obs.step (.alias c id a)).2 ∧
    (w.step (.alias c id a)).1.obs = (w.obs.step (.alias c id a)).1 ∧
    Inv (w.step (.alias c id a)).1 := by
  simp only [World.step, PWorld.step, obs_chems_get]
  cases hs : w.chems[c]? with
  | none => exact ⟨rfl, rfl, h⟩
  | some s =>
    simp only [Option.map_some]
    cases ha : s.chem.setAlias reservedAll id a with
    | error e =>
      refine ⟨rfl, obs_redefine w hs _ _, inv_redefine h hs _ _ ?_⟩
      intro hd
      split at hd
      · rename_i heq; exact heq
      · cases hd
    | ok chem' =>
      refine ⟨rfl, obs_redefine w hs chem' _, inv_redefine h hs chem' _ ?_⟩
      intro hd
      exact setAlias_existing ha hd

theorem step_group (w : World) (h : Inv w) (c : Nat) (name : String) (ids : List String)
    (comp : Option (List Rat)) (wt : Bool) :
    (w.step (.group c name ids comp wt)).2 = (w.obs.step (.group c name ids comp wt)).2 ∧
    (w.step (.group c name ids comp wt)).1.obs = (w.obs.step (.group c name ids comp wt)).1 ∧
    Inv (w.step (.group c name ids comp wt)).1 := by
  simp only [World.step, PWorld.step, obs_chems_get]
  cases hs : w.chems[c]? with
  | none => exact ⟨rfl, rfl, h⟩
  | some s =>
    simp only [Option.map_some]
    cases ha : s.chem.defineGroup reservedAll name ids comp wt with
    | error e => exact ⟨rfl, rfl, h⟩
    | ok chem' =>
      exact ⟨rfl, obs_redefine w hs chem' _, inv_redefine h hs chem' _ (by intro hd; cases hd)⟩

theorem step_newChemIx (w : World) (h : Inv w) (c : Nat) (ph : Char) :
    (w.step (.newChemIx c ph)).2 = (w.obs.step (.newChemIx c ph)).2 ∧
    (w.step (.newChemIx c ph)).1.obs = (w.obs.step (.newChemIx c ph)).1 ∧
    Inv (w.step (.newChemIx c ph)).1 := by
  simp only [World.step, PWorld.step, obs_chems_get]
  cases hs : w.chems[c]? with
  | none => exact ⟨rfl, rfl, h⟩
  | some s => exact ⟨rfl, rfl, ⟨h.chem, h.mat, h.bound⟩⟩

theorem step_newSplitIx (w : World) (h : Inv w) (c : Nat) :
    (w.step (.newSplitIx c)).2 = (w.obs.step (.newSplitIx c)).2 ∧
    (w.step (.newSplitIx c)).1.obs = (w.obs.step (.newSplitIx c)).1 ∧
    Inv (w.step (.newSplitIx c)).1 := by
  simp only [World.step, PWorld.step, obs_chems_get]
  cases hs : w.chems[c]? with
  | none => exact ⟨rfl, rfl, h⟩
  | some s => exact ⟨rfl, rfl, ⟨h.chem, h.mat, h.bound⟩⟩

theorem step_newMatIx (w : World) (h : Inv w) (c : Nat) (ps : List Char) :
    (w.step (.newMatIx c ps)).2 = (w.obs.step (.newMatIx c ps)).2 ∧
    (w.step (.newMatIx c ps)).1.obs = (w.obs.step (.newMatIx c ps)).1 ∧
    Inv (w.step (.newMatIx c ps)).1 := by
  simp only [World.step, PWorld.step, obs_chems_get]
  cases hs : w.chems[c]? with
  | none => cases phaseTuple ps <;> exact ⟨rfl, rfl, h⟩
  | some s =>
    cases phaseTuple ps with
    | none => exact ⟨rfl, rfl, h⟩
    | some pt => exact ⟨rfl, rfl, ⟨h.chem, h.mat, h.bound⟩⟩

theorem step_get (w : World) (h : Inv w) (i : Nat) (key : PyKey) :
    (w.step (.get i key)).2 = (w.obs.step (.get i key)).2 ∧
    (w.step (.get i key)).1.obs = (w.obs.step (.get i key)).1 ∧
    Inv (w.step (.get i key)).1 := by
  simp only [World.step, PWorld.step, obs_chems_get]
  have hix : w.obs.ixs = w.ixs := rfl
  rw [hix]
  cases hi : w.ixs[i]? with
  | none => exact ⟨rfl, rfl, h⟩
  | some ix =>
    simp only
    cases hs : w.chems[ix.chem]? with
    | none => exact ⟨rfl, rfl, h⟩
    | some s =>
      simp only [Option.map_some]
      obtain ⟨h1, h2, h3, h4, h5⟩ :=
        resolveIx_spec s (w.mcacheOf ix) ix.phases key (h.chem s (List.mem_of_getElem? hs)) (mcacheOf_ok h ix hs)
      rw [← h1]
      generalize resolveIx s (w.mcacheOf ix) ix.phases key = R at h1 h2 h3 h4 h5
      obtain ⟨r, s', mc'⟩ := R
      simp only at h1 h2 h3 h4 h5 ⊢
      cases r with
      | error e => exact ⟨rfl, obs_putCaches w ix mc' hs h2 h3, inv_putCaches h ix hs h2 h4 h5⟩
      | ok v => exact ⟨rfl, obs_putCaches w ix mc' hs h2 h3, inv_putCaches h ix hs h2 h4 h5⟩

theorem step_set (w : World) (h : Inv w) (i : Nat) (key : PyKey) (d : Data) :
    (w.step (.set i key d)).2 = (w.obs.step (.set i key d)).2 ∧
    (w.step (.set i key d)).1.obs = (w.obs.step (.set i key d)).1 ∧
    Inv (w.step (.set i key d)).1 := by
  simp only [World.step, PWorld.step, obs_chems_get]
  have hix : w.obs.ixs = w.ixs := rfl
  rw [hix]
  cases hi : w.ixs[i]? with
  | none => exact ⟨rfl, rfl, h⟩
  | some ix =>
    simp only
    cases hs : w.chems[ix.chem]? with
    | none => exact ⟨rfl, rfl, h⟩
    | some s =>
      simp only [Option.map_some]
      obtain ⟨h1, h2, h3, h4, h5⟩ :=
        resolveIx_spec s (w.mcacheOf ix) ix.phases key (h.chem s (List.mem_of_getElem? hs)) (mcacheOf_ok h ix hs)
      rw [← h1]
      generalize resolveIx s (w.mcacheOf ix) ix.phases key = R at h1 h2 h3 h4 h5
      obtain ⟨r, s', mc'⟩ := R
      simp only at h1 h2 h3 h4 h5 ⊢
      have ho := obs_putCaches w ix mc' hs h2 h3
      have hv := inv_putCaches h ix hs h2 h4 h5
      cases r with
      | error e => exact ⟨rfl, ho, hv⟩
      | ok v =>
        obtain ⟨v, ids⟩ := v
        exact ⟨rfl, by rw [obs_setData, ho], inv_setData hv _ _ _⟩

theorem step_array (w : World) (h : Inv w) (c : Nat) (split : BuildKind) (key : PyKey) (d : Data) :
    (w.step (.array c split key d)).2 = (w.obs.step (.array c split key d)).2 ∧
    (w.step (.array c split key d)).1.obs = (w.obs.step (.array c split key d)).1 ∧
    Inv (w.step (.array c split key d)).1 := by
  simp only [World.step, PWorld.step, obs_chems_get]
  cases hs : w.chems[c]? with
  | none => exact ⟨rfl, rfl, h⟩
  | some s =>
    simp only [Option.map_some]
    cases normC (tupleKey key) with
    | error e => exact ⟨rfl, rfl, h⟩
    | ok k =>
      simp only
      obtain ⟨h1, h2, h3, h4⟩ := lookup_spec s (h.chem s (List.mem_of_getElem? hs)) k
      rw [← h1]
      exact ⟨rfl, obs_setChem w hs h2 h3, inv_setChem h hs h2 h4⟩

theorem step_getMass (w : World) (h : Inv w) (i : Nat) (key : PyKey) :
    (w.step (.getMass i key)).2 = (w.obs.step (.getMass i key)).2 ∧
    (w.step (.getMass i key)).1.obs = (w.obs.step (.getMass i key)).1 ∧
    Inv (w.step (.getMass i key)).1 := by
  simp only [World.step, PWorld.step, obs_chems_get]
  have hix : w.obs.ixs = w.ixs := rfl
  rw [hix]
  cases hi : w.ixs[i]? with
  | none => exact ⟨rfl, rfl, h⟩
  | some ix =>
    simp only
    cases hs : w.chems[ix.chem]? with
    | none => exact ⟨rfl, rfl, h⟩
    | some s =>
      simp only [Option.map_some]
      obtain ⟨h1, h2, h3, h4, h5⟩ :=
        resolveIx_spec s (w.mcacheOf ix) ix.phases key (h.chem s (List.mem_of_getElem? hs)) (mcacheOf_ok h ix hs)
      rw [← h1]
      generalize resolveIx s (w.mcacheOf ix) ix.phases key = R at h1 h2 h3 h4 h5
      obtain ⟨r, s', mc'⟩ := R
      simp only at h1 h2 h3 h4 h5 ⊢
      cases r with
      | error e => exact ⟨rfl, obs_putCaches w ix mc' hs h2 h3, inv_putCaches h ix hs h2 h4 h5⟩
      | ok v => exact ⟨rfl, obs_putCaches w ix mc' hs h2 h3, inv_putCaches h ix hs h2 h4 h5⟩

theorem step_setMass (w : World) (h : Inv w) (i : Nat) (key : PyKey) (d : Data) :
    (w.step (.setMass i key d)).2 = (w.obs.step (.setMass i key d)).2 ∧
    (w.step (.setMass i key d)).1.obs = (w.obs.step (.setMass i key d)).1 ∧
    Inv (w.step (.setMass i key d)).1 := by
  simp only [World.step, PWorld.step, obs_chems_get]
  have hix : w.obs.ixs = w.ixs := rfl
  rw [hix]
  cases hi : w.ixs[i]? with
  | none => exact ⟨rfl, rfl, h⟩
  | some ix =>
    simp only
    cases hs : w.chems[ix.chem]? with
    | none => exact ⟨rfl, rfl, h⟩
    | some s =>
      simp only [Option.map_some]
      obtain ⟨h1, h2, h3, h4, h5⟩ :=
        resolveIx_spec s (w.mcacheOf ix) ix.phases key (h.chem s (List.mem_of_getElem? hs)) (mcacheOf_ok h ix hs)
      rw [← h1]
      generalize resolveIx s (w.mcacheOf ix) ix.phases key = R at h1 h2 h3 h4 h5
      obtain ⟨r, s', mc'⟩ := R
      simp only at h1 h2 h3 h4 h5 ⊢
      have ho := obs_putCaches w ix mc' hs h2 h3
      have hv := inv_putCaches h ix hs h2 h4 h5
      cases r with
      | error e => exact ⟨rfl, ho, hv⟩
      | ok v =>
        obtain ⟨v, ids⟩ := v
        exact ⟨rfl, by rw [obs_setData, ho], inv_setData hv _ _ _⟩

theorem step_transfer (w : World) (h : Inv w) (l r : Nat) (add : Bool) :
    (w.transfer l r add).2 = (w.obs.transfer l r add).2 ∧
    (w.transfer l r add).1.obs = (w.obs.transfer l r add).1 ∧
    Inv (w.transfer l r add).1 := by
  simp only [World.transfer, PWorld.transfer, obs_chems_get]
  have hix : w.obs.ixs = w.ixs := rfl
  rw [hix]
  cases hl : w.ixs[l]? with
  | none => exact ⟨rfl, rfl, h⟩
  | some il =>
    cases hr : w.ixs[r]? with
    | none => exact ⟨rfl, rfl, h⟩
    | some ir0 =>
      simp only
      cases hsl : w.chems[il.chem]? with
      | none => exact ⟨rfl, rfl, h⟩
      | some sl =>
        cases hsr : w.chems[ir0.chem]? with
        | none => exact ⟨rfl, rfl, h⟩
        | some sr =>
          simp only [Option.map_some]
          cases flatSource il ir0 add with
          | none => exact ⟨rfl, rfl, h⟩
          | some ir =>
          simp only
          have hinv : ∀ (w' : World) (ix' : Indexer), Inv w' → Inv (w'.putIx l ix') :=
            fun w' ix' hv => ⟨hv.chem, hv.mat, hv.bound⟩
          have hobs : ∀ (w' : World) (ix' : Indexer), w'.obs = w.obs → (w'.putIx l ix').obs = w.obs.putIx l ix' := by
            intro w' ix' ho
            simp only [World.putIx, PWorld.putIx, World.obs] at ho ⊢
            rw [PWorld.mk.injEq] at ho ⊢
            exact ⟨ho.1, by rw [ho.2]⟩
          split
          · -- same chemicals object: no memo is touched, the receiver may grow in place
            split
            · exact ⟨rfl, rfl, hinv w _ h⟩
            · exact ⟨rfl, rfl, h⟩
          · split
            · -- single-phase receiver
              split
              · rename_i rowL rowR _ _ _
                obtain ⟨o1, o2, o3, o4⟩ := overlap_spec sl (h.chem sl (List.mem_of_getElem? hsl))
                  ((nonzeroPositions rowR).map fun i => sr.cas.getD i "")
                rw [← o1]
                generalize sl.overlap ((nonzeroPositions rowR).map fun i => sr.cas.getD i "") = R at o1 o2 o3 o4
                obtain ⟨res, sl'⟩ := R
                simp only at o1 o2 o3 o4 ⊢
                have ho := obs_setChem w hsl o2 o3
                have hv := inv_setChem h hsl o2 o4
                generalize transferRow rowL rowR add (nonzeroPositions rowR) res = T
                obtain ⟨row', oe⟩ := T
                cases oe with
                | some e => exact ⟨rfl, hobs _ _ ho, hinv _ _ hv⟩
                | none => exact ⟨rfl, hobs _ _ ho, hinv _ _ hv⟩
              · exact ⟨rfl, rfl, h⟩
            · -- multi-phase receiver: `index_overlap`, then the phase logic on the carried-over rows
              obtain ⟨o1, o2, o3, o4⟩ := overlap_spec sl (h.chem sl (List.mem_of_getElem? hsl))
                ((unionNonzero ir.data).map fun i => sr.cas.getD i "")
              rw [← o1]
              generalize sl.overlap ((unionNonzero ir.data).map fun i => sr.cas.getD i "") = R at o1 o2 o3 o4
              obtain ⟨res, sl'⟩ := R
              simp only at o1 o2 o3 o4 ⊢
              have ho := obs_setChem w hsl o2 o3
              have hv := inv_setChem h hsl o2 o4
              cases res with
              | error e =>
                simp only
                cases growOnly sl.chem.size il ir add with
                | some il' => exact ⟨rfl, hobs _ _ ho, hinv _ _ hv⟩
                | none => exact ⟨rfl, ho, hv⟩
              | ok lix =>
                simp only
                cases transferSame sl.chem.size il (mapIndexer sl.chem.size lix (unionNonzero ir.data) ir) add false with
                | some il' => exact ⟨rfl, hobs _ _ ho, hinv _ _ hv⟩
                | none => exact ⟨rfl, ho, hv⟩

theorem step_resetChem (w : World) (h : Inv w) (i c' : Nat) :
    (w.step (.resetChem i c')).2 = (w.obs.step (.resetChem i c')).2 ∧
    (w.step (.resetChem i c')).1.obs = (w.obs.step (.resetChem i c')).1 ∧
    Inv (w.step (.resetChem i c')).1 := by
  simp only [World.step, PWorld.step, obs_chems_get]
  have hix : w.obs.ixs = w.ixs := rfl
  rw [hix]
  cases hi : w.ixs[i]? with
  | none => exact ⟨rfl, rfl, h⟩
  | some ix =>
    simp only
    cases hs : w.chems[ix.chem]? with
    | none => exact ⟨rfl, rfl, h⟩
    | some s =>
      cases hs' : w.chems[c']? with
      | none => exact ⟨rfl, rfl, h⟩
      | some s' =>
        simp only [Option.map_some]
        generalize resetOut ix s.cas c' s'.chem = R
        obtain ⟨o, out⟩ := R
        cases o with
        | none => exact ⟨rfl, rfl, h⟩
        | some ix' => exact ⟨rfl, rfl, ⟨h.chem, h.mat, h.bound⟩⟩

theorem step_copyIx (w : World) (h : Inv w) (i : Nat) :
    (w.step (.copyIx i)).2 = (w.obs.step (.copyIx i)).2 ∧
    (w.step (.copyIx i)).1.obs = (w.obs.step (.copyIx i)).1 ∧
    Inv (w.step (.copyIx i)).1 := by
  simp only [World.step, PWorld.step]
  have hix : w.obs.ixs = w.ixs := rfl
  rw [hix]
  cases hi : w.ixs[i]? with
  | none => exact ⟨rfl, rfl, h⟩
  | some ix => exact ⟨rfl, rfl, ⟨h.chem, h.mat, h.bound⟩⟩

theorem step_getIndex (w : World) (h : Inv w) (c : Nat) (key : PyKey) :
    (w.step (.getIndex c key)).2 = (w.obs.step (.getIndex c key)).2 ∧
    (w.step (.getIndex c key)).1.obs = (w.obs.step (.getIndex c key)).1 ∧
    Inv (w.step (.getIndex c key)).1 := by
  simp only [World.step, PWorld.step, obs_chems_get]
  cases hs : w.chems[c]? with
  | none => exact ⟨rfl, rfl, h⟩
  | some s => exact ⟨rfl, rfl, h⟩

end ThermoVerif.Props.C10
