import ThermoVerif.Model.Links
/-
Helper lemmas for C13: the store primitives of `ThermoVerif.Links`
(function update, allocation, footprints).
-/
namespace ThermoVerif.Links

@[simp] theorem upd_same {α : Type} (f : Nat → α) (i : Nat) (v : α) : upd f i v i = v := by
  simp [upd]

theorem upd_ne {α : Type} (f : Nat → α) (i : Nat) (v : α) (x : Nat) (h : x ≠ i) : upd f i v x = f x := by
  simp [upd, h]

@[simp] theorem upd_lt {α : Type} (f : Nat → α) (i : Nat) (v : α) (x : Nat) (h : x < i) : upd f i v x = f x := by
  apply upd_ne; omega

/-! ### projections of the primitives (all by `rfl`; generated) -/

@[simp] theorem newRow_snd (w : World) (r : Row) : (w.newRow r).2 = w.next := rfl
@[simp] theorem newRow_next (w : World) (r : Row) : (w.newRow r).1.next = w.next + 1 := rfl
@[simp] theorem newRow_nS (w : World) (r : Row) : (w.newRow r).1.nS = w.nS := rfl
@[simp] theorem newRow_strs (w : World) (r : Row) : (w.newRow r).1.strs = w.strs := rfl
@[simp] theorem newRow_rows (w : World) (r : Row) : (w.newRow r).1.rows = upd w.rows w.next r := rfl
@[simp] theorem newRow_phs (w : World) (r : Row) : (w.newRow r).1.phs = w.phs := rfl
@[simp] theorem newRow_tcs (w : World) (r : Row) : (w.newRow r).1.tcs = w.tcs := rfl
@[simp] theorem newRow_cfs (w : World) (r : Row) : (w.newRow r).1.cfs = w.cfs := rfl
@[simp] theorem newRow_arrs (w : World) (r : Row) : (w.newRow r).1.arrs = w.arrs := rfl
@[simp] theorem newRow_imols (w : World) (r : Row) : (w.newRow r).1.imols = w.imols := rfl
@[simp] theorem newPh_snd (w : World) (p : Ph) : (w.newPh p).2 = w.next := rfl
@[simp] theorem newPh_next (w : World) (p : Ph) : (w.newPh p).1.next = w.next + 1 := rfl
@[simp] theorem newPh_nS (w : World) (p : Ph) : (w.newPh p).1.nS = w.nS := rfl
@[simp] theorem newPh_strs (w : World) (p : Ph) : (w.newPh p).1.strs = w.strs := rfl
@[simp] theorem newPh_rows (w : World) (p : Ph) : (w.newPh p).1.rows = w.rows := rfl
@[simp] theorem newPh_phs (w : World) (p : Ph) : (w.newPh p).1.phs = upd w.phs w.next p := rfl
@[simp] theorem newPh_tcs (w : World) (p : Ph) : (w.newPh p).1.tcs = w.tcs := rfl
@[simp] theorem newPh_cfs (w : World) (p : Ph) : (w.newPh p).1.cfs = w.cfs := rfl
@[simp] theorem newPh_arrs (w : World) (p : Ph) : (w.newPh p).1.arrs = w.arrs := rfl
@[simp] theorem newPh_imols (w : World) (p : Ph) : (w.newPh p).1.imols = w.imols := rfl
@[simp] theorem newTc_snd (w : World) (v : Rat × Rat) : (w.newTc v).2 = w.next := rfl
@[simp] theorem newTc_next (w : World) (v : Rat × Rat) : (w.newTc v).1.next = w.next + 1 := rfl
@[simp] theorem newTc_nS (w : World) (v : Rat × Rat) : (w.newTc v).1.nS = w.nS := rfl
@[simp] theorem newTc_strs (w : World) (v : Rat × Rat) : (w.newTc v).1.strs = w.strs := rfl
@[simp] theorem newTc_rows (w : World) (v : Rat × Rat) : (w.newTc v).1.rows = w.rows := rfl
@[simp] theorem newTc_phs (w : World) (v : Rat × Rat) : (w.newTc v).1.phs = w.phs := rfl
@[simp] theorem newTc_tcs (w : World) (v : Rat × Rat) : (w.newTc v).1.tcs = upd w.tcs w.next v := rfl
@[simp] theorem newTc_cfs (w : World) (v : Rat × Rat) : (w.newTc v).1.cfs = w.cfs := rfl
@[simp] theorem newTc_arrs (w : World) (v : Rat × Rat) : (w.newTc v).1.arrs = w.arrs := rfl
@[simp] theorem newTc_imols (w : World) (v : Rat × Rat) : (w.newTc v).1.imols = w.imols := rfl
@[simp] theorem newCf_snd (w : World) (d : List (Nat × Rat)) : (w.newCf d).2 = w.next := rfl
@[simp] theorem newCf_next (w : World) (d : List (Nat × Rat)) : (w.newCf d).1.next = w.next + 1 := rfl
@[simp] theorem newCf_nS (w : World) (d : List (Nat × Rat)) : (w.newCf d).1.nS = w.nS := rfl
@[simp] theorem newCf_strs (w : World) (d : List (Nat × Rat)) : (w.newCf d).1.strs = w.strs := rfl
@[simp] theorem newCf_rows (w : World) (d : List (Nat × Rat)) : (w.newCf d).1.rows = w.rows := rfl
@[simp] theorem newCf_phs (w : World) (d : List (Nat × Rat)) : (w.newCf d).1.phs = w.phs := rfl
@[simp] theorem newCf_tcs (w : World) (d : List (Nat × Rat)) : (w.newCf d).1.tcs = w.tcs := rfl
@[simp] theorem newCf_cfs (w : World) (d : List (Nat × Rat)) : (w.newCf d).1.cfs = upd w.cfs w.next d := rfl
@[simp] theorem newCf_arrs (w : World) (d : List (Nat × Rat)) : (w.newCf d).1.arrs = w.arrs := rfl
@[simp] theorem newCf_imols (w : World) (d : List (Nat × Rat)) : (w.newCf d).1.imols = w.imols := rfl
@[simp] theorem newArr_snd (w : World) (l : List Nat) : (w.newArr l).2 = w.next := rfl
@[simp] theorem newArr_next (w : World) (l : List Nat) : (w.newArr l).1.next = w.next + 1 := rfl
@[simp] theorem newArr_nS (w : World) (l : List Nat) : (w.newArr l).1.nS = w.nS := rfl
@[simp] theorem newArr_strs (w : World) (l : List Nat) : (w.newArr l).1.strs = w.strs := rfl
@[simp] theorem newArr_rows (w : World) (l : List Nat) : (w.newArr l).1.rows = w.rows := rfl
@[simp] theorem newArr_phs (w : World) (l : List Nat) : (w.newArr l).1.phs = w.phs := rfl
@[simp] theorem newArr_tcs (w : World) (l : List Nat) : (w.newArr l).1.tcs = w.tcs := rfl
@[simp] theorem newArr_cfs (w : World) (l : List Nat) : (w.newArr l).1.cfs = w.cfs := rfl
@[simp] theorem newArr_arrs (w : World) (l : List Nat) : (w.newArr l).1.arrs = upd w.arrs w.next l := rfl
@[simp] theorem newArr_imols (w : World) (l : List Nat) : (w.newArr l).1.imols = w.imols := rfl
@[simp] theorem newImol_snd (w : World) (m : Imol) : (w.newImol m).2 = w.next := rfl
@[simp] theorem newImol_next (w : World) (m : Imol) : (w.newImol m).1.next = w.next + 1 := rfl
@[simp] theorem newImol_nS (w : World) (m : Imol) : (w.newImol m).1.nS = w.nS := rfl
@[simp] theorem newImol_strs (w : World) (m : Imol) : (w.newImol m).1.strs = w.strs := rfl
@[simp] theorem newImol_rows (w : World) (m : Imol) : (w.newImol m).1.rows = w.rows := rfl
@[simp] theorem newImol_phs (w : World) (m : Imol) : (w.newImol m).1.phs = w.phs := rfl
@[simp] theorem newImol_tcs (w : World) (m : Imol) : (w.newImol m).1.tcs = w.tcs := rfl
@[simp] theorem newImol_cfs (w : World) (m : Imol) : (w.newImol m).1.cfs = w.cfs := rfl
@[simp] theorem newImol_arrs (w : World) (m : Imol) : (w.newImol m).1.arrs = w.arrs := rfl
@[simp] theorem newImol_imols (w : World) (m : Imol) : (w.newImol m).1.imols = upd w.imols w.next m := rfl
@[simp] theorem setRow_next (w : World) (i : Nat) (r : Row) : (w.setRow i r).next = w.next := rfl
@[simp] theorem setRow_nS (w : World) (i : Nat) (r : Row) : (w.setRow i r).nS = w.nS := rfl
@[simp] theorem setRow_strs (w : World) (i : Nat) (r : Row) : (w.setRow i r).strs = w.strs := rfl
@[simp] theorem setRow_rows (w : World) (i : Nat) (r : Row) : (w.setRow i r).rows = upd w.rows i r := rfl
@[simp] theorem setRow_phs (w : World) (i : Nat) (r : Row) : (w.setRow i r).phs = w.phs := rfl
@[simp] theorem setRow_tcs (w : World) (i : Nat) (r : Row) : (w.setRow i r).tcs = w.tcs := rfl
@[simp] theorem setRow_cfs (w : World) (i : Nat) (r : Row) : (w.setRow i r).cfs = w.cfs := rfl
@[simp] theorem setRow_arrs (w : World) (i : Nat) (r : Row) : (w.setRow i r).arrs = w.arrs := rfl
@[simp] theorem setRow_imols (w : World) (i : Nat) (r : Row) : (w.setRow i r).imols = w.imols := rfl
@[simp] theorem setPh_next (w : World) (i : Nat) (p : Ph) : (w.setPh i p).next = w.next := rfl
@[simp] theorem setPh_nS (w : World) (i : Nat) (p : Ph) : (w.setPh i p).nS = w.nS := rfl
@[simp] theorem setPh_strs (w : World) (i : Nat) (p : Ph) : (w.setPh i p).strs = w.strs := rfl
@[simp] theorem setPh_rows (w : World) (i : Nat) (p : Ph) : (w.setPh i p).rows = w.rows := rfl
@[simp] theorem setPh_phs (w : World) (i : Nat) (p : Ph) : (w.setPh i p).phs = upd w.phs i p := rfl
@[simp] theorem setPh_tcs (w : World) (i : Nat) (p : Ph) : (w.setPh i p).tcs = w.tcs := rfl
@[simp] theorem setPh_cfs (w : World) (i : Nat) (p : Ph) : (w.setPh i p).cfs = w.cfs := rfl
@[simp] theorem setPh_arrs (w : World) (i : Nat) (p : Ph) : (w.setPh i p).arrs = w.arrs := rfl
@[simp] theorem setPh_imols (w : World) (i : Nat) (p : Ph) : (w.setPh i p).imols = w.imols := rfl
@[simp] theorem setTc_next (w : World) (i : Nat) (v : Rat × Rat) : (w.setTc i v).next = w.next := rfl
@[simp] theorem setTc_nS (w : World) (i : Nat) (v : Rat × Rat) : (w.setTc i v).nS = w.nS := rfl
@[simp] theorem setTc_strs (w : World) (i : Nat) (v : Rat × Rat) : (w.setTc i v).strs = w.strs := rfl
@[simp] theorem setTc_rows (w : World) (i : Nat) (v : Rat × Rat) : (w.setTc i v).rows = w.rows := rfl
@[simp] theorem setTc_phs (w : World) (i : Nat) (v : Rat × Rat) : (w.setTc i v).phs = w.phs := rfl
@[simp] theorem setTc_tcs (w : World) (i : Nat) (v : Rat × Rat) : (w.setTc i v).tcs = upd w.tcs i v := rfl
@[simp] theorem setTc_cfs (w : World) (i : Nat) (v : Rat × Rat) : (w.setTc i v).cfs = w.cfs := rfl
@[simp] theorem setTc_arrs (w : World) (i : Nat) (v : Rat × Rat) : (w.setTc i v).arrs = w.arrs := rfl
@[simp] theorem setTc_imols (w : World) (i : Nat) (v : Rat × Rat) : (w.setTc i v).imols = w.imols := rfl
@[simp] theorem setCf_next (w : World) (i : Nat) (d : List (Nat × Rat)) : (w.setCf i d).next = w.next := rfl
@[simp] theorem setCf_nS (w : World) (i : Nat) (d : List (Nat × Rat)) : (w.setCf i d).nS = w.nS := rfl
@[simp] theorem setCf_strs (w : World) (i : Nat) (d : List (Nat × Rat)) : (w.setCf i d).strs = w.strs := rfl
@[simp] theorem setCf_rows (w : World) (i : Nat) (d : List (Nat × Rat)) : (w.setCf i d).rows = w.rows := rfl
@[simp] theorem setCf_phs (w : World) (i : Nat) (d : List (Nat × Rat)) : (w.setCf i d).phs = w.phs := rfl
@[simp] theorem setCf_tcs (w : World) (i : Nat) (d : List (Nat × Rat)) : (w.setCf i d).tcs = w.tcs := rfl
@[simp] theorem setCf_cfs (w : World) (i : Nat) (d : List (Nat × Rat)) : (w.setCf i d).cfs = upd w.cfs i d := rfl
@[simp] theorem setCf_arrs (w : World) (i : Nat) (d : List (Nat × Rat)) : (w.setCf i d).arrs = w.arrs := rfl
@[simp] theorem setCf_imols (w : World) (i : Nat) (d : List (Nat × Rat)) : (w.setCf i d).imols = w.imols := rfl
@[simp] theorem setArr_next (w : World) (i : Nat) (l : List Nat) : (w.setArr i l).next = w.next := rfl
@[simp] theorem setArr_nS (w : World) (i : Nat) (l : List Nat) : (w.setArr i l).nS = w.nS := rfl
@[simp] theorem setArr_strs (w : World) (i : Nat) (l : List Nat) : (w.setArr i l).strs = w.strs := rfl
@[simp] theorem setArr_rows (w : World) (i : Nat) (l : List Nat) : (w.setArr i l).rows = w.rows := rfl
@[simp] theorem setArr_phs (w : World) (i : Nat) (l : List Nat) : (w.setArr i l).phs = w.phs := rfl
@[simp] theorem setArr_tcs (w : World) (i : Nat) (l : List Nat) : (w.setArr i l).tcs = w.tcs := rfl
@[simp] theorem setArr_cfs (w : World) (i : Nat) (l : List Nat) : (w.setArr i l).cfs = w.cfs := rfl
@[simp] theorem setArr_arrs (w : World) (i : Nat) (l : List Nat) : (w.setArr i l).arrs = upd w.arrs i l := rfl
@[simp] theorem setArr_imols (w : World) (i : Nat) (l : List Nat) : (w.setArr i l).imols = w.imols := rfl
@[simp] theorem setImol_next (w : World) (i : Nat) (m : Imol) : (w.setImol i m).next = w.next := rfl
@[simp] theorem setImol_nS (w : World) (i : Nat) (m : Imol) : (w.setImol i m).nS = w.nS := rfl
@[simp] theorem setImol_strs (w : World) (i : Nat) (m : Imol) : (w.setImol i m).strs = w.strs := rfl
@[simp] theorem setImol_rows (w : World) (i : Nat) (m : Imol) : (w.setImol i m).rows = w.rows := rfl
@[simp] theorem setImol_phs (w : World) (i : Nat) (m : Imol) : (w.setImol i m).phs = w.phs := rfl
@[simp] theorem setImol_tcs (w : World) (i : Nat) (m : Imol) : (w.setImol i m).tcs = w.tcs := rfl
@[simp] theorem setImol_cfs (w : World) (i : Nat) (m : Imol) : (w.setImol i m).cfs = w.cfs := rfl
@[simp] theorem setImol_arrs (w : World) (i : Nat) (m : Imol) : (w.setImol i m).arrs = w.arrs := rfl
@[simp] theorem setImol_imols (w : World) (i : Nat) (m : Imol) : (w.setImol i m).imols = upd w.imols i m := rfl
@[simp] theorem setStr_next (w : World) (i : Nat) (s : Stream) : (w.setStr i s).next = w.next := rfl
@[simp] theorem setStr_nS (w : World) (i : Nat) (s : Stream) : (w.setStr i s).nS = w.nS := rfl
@[simp] theorem setStr_strs (w : World) (i : Nat) (s : Stream) : (w.setStr i s).strs = upd w.strs i s := rfl
@[simp] theorem setStr_rows (w : World) (i : Nat) (s : Stream) : (w.setStr i s).rows = w.rows := rfl
@[simp] theorem setStr_phs (w : World) (i : Nat) (s : Stream) : (w.setStr i s).phs = w.phs := rfl
@[simp] theorem setStr_tcs (w : World) (i : Nat) (s : Stream) : (w.setStr i s).tcs = w.tcs := rfl
@[simp] theorem setStr_cfs (w : World) (i : Nat) (s : Stream) : (w.setStr i s).cfs = w.cfs := rfl
@[simp] theorem setStr_arrs (w : World) (i : Nat) (s : Stream) : (w.setStr i s).arrs = w.arrs := rfl
@[simp] theorem setStr_imols (w : World) (i : Nat) (s : Stream) : (w.setStr i s).imols = w.imols := rfl
@[simp] theorem pushStr_snd (w : World) (s : Stream) : (w.pushStr s).2 = w.nS := rfl
@[simp] theorem pushStr_next (w : World) (s : Stream) : (w.pushStr s).1.next = w.next := rfl
@[simp] theorem pushStr_nS (w : World) (s : Stream) : (w.pushStr s).1.nS = w.nS + 1 := rfl
@[simp] theorem pushStr_strs (w : World) (s : Stream) : (w.pushStr s).1.strs = upd w.strs w.nS s := rfl
@[simp] theorem pushStr_rows (w : World) (s : Stream) : (w.pushStr s).1.rows = w.rows := rfl
@[simp] theorem pushStr_phs (w : World) (s : Stream) : (w.pushStr s).1.phs = w.phs := rfl
@[simp] theorem pushStr_tcs (w : World) (s : Stream) : (w.pushStr s).1.tcs = w.tcs := rfl
@[simp] theorem pushStr_cfs (w : World) (s : Stream) : (w.pushStr s).1.cfs = w.cfs := rfl
@[simp] theorem pushStr_arrs (w : World) (s : Stream) : (w.pushStr s).1.arrs = w.arrs := rfl
@[simp] theorem pushStr_imols (w : World) (s : Stream) : (w.pushStr s).1.imols = w.imols := rfl

/-! ### allocation of several rows -/

/-- What differs between a world and a later one in which only *new* row objects were created. -/
structure RowsExt (w w' : World) (n : Nat) : Prop where
  next : w'.next = w.next + n
  phs : w'.phs = w.phs
  tcs : w'.tcs = w.tcs
  cfs : w'.cfs = w.cfs
  arrs : w'.arrs = w.arrs
  imols : w'.imols = w.imols
  strs : w'.strs = w.strs
  nS : w'.nS = w.nS
  old : ∀ x, x < w.next → w'.rows x = w.rows x

theorem newRows_ext (vals : List Row) : ∀ w : World, RowsExt w (w.newRows vals).1 vals.length := by
  induction vals with
  | nil => intro w; exact ⟨rfl, rfl, rfl, rfl, rfl, rfl, rfl, rfl, fun _ _ => rfl⟩
  | cons r rs ih =>
    intro w
    have h := ih (w.newRow r).1
    simp only [World.newRows]
    constructor
    · rw [h.next]; simp [World.newRow]; omega
    · rw [h.phs]; rfl
    · rw [h.tcs]; rfl
    · rw [h.cfs]; rfl
    · rw [h.arrs]; rfl
    · rw [h.imols]; rfl
    · rw [h.strs]; rfl
    · rw [h.nS]; rfl
    · intro x hx
      rw [h.old x (by simp [World.newRow]; omega)]
      simp [World.newRow, upd_ne _ _ _ _ (Nat.ne_of_lt hx)]

theorem newRows_ids (vals : List Row) : ∀ w : World, (w.newRows vals).2 = List.range' w.next vals.length := by
  induction vals with
  | nil => intro w; rfl
  | cons r rs ih =>
    intro w
    simp only [World.newRows, List.length_cons, List.range'_succ]
    rw [ih]; rfl

/-- reading the new rows back gives the contents they were created with -/
theorem newRows_read (vals : List Row) : ∀ w : World,
    (w.newRows vals).2.map (w.newRows vals).1.rows = vals := by
  induction vals with
  | nil => intro w; rfl
  | cons r rs ih =>
    intro w
    simp only [World.newRows, List.map_cons]
    rw [ih]
    congr 1
    have h := newRows_ext rs (w.newRow r).1
    have h2 : (w.newRow r).2 = w.next := rfl
    rw [h2, h.old w.next (by simp [World.newRow])]
    simp [World.newRow]

attribute [simp] newRows_read

@[simp] theorem newRows_next (w : World) (v : List Row) : (w.newRows v).1.next = w.next + v.length :=
  (newRows_ext v w).next
@[simp] theorem newRows_phs (w : World) (v : List Row) : (w.newRows v).1.phs = w.phs := (newRows_ext v w).phs
@[simp] theorem newRows_tcs (w : World) (v : List Row) : (w.newRows v).1.tcs = w.tcs := (newRows_ext v w).tcs
@[simp] theorem newRows_cfs (w : World) (v : List Row) : (w.newRows v).1.cfs = w.cfs := (newRows_ext v w).cfs
@[simp] theorem newRows_arrs (w : World) (v : List Row) : (w.newRows v).1.arrs = w.arrs := (newRows_ext v w).arrs
@[simp] theorem newRows_imols (w : World) (v : List Row) : (w.newRows v).1.imols = w.imols :=
  (newRows_ext v w).imols
@[simp] theorem newRows_strs (w : World) (v : List Row) : (w.newRows v).1.strs = w.strs := (newRows_ext v w).strs
@[simp] theorem newRows_nS (w : World) (v : List Row) : (w.newRows v).1.nS = w.nS := (newRows_ext v w).nS
theorem newRows_old (w : World) (v : List Row) (x : Nat) (h : x < w.next) : (w.newRows v).1.rows x = w.rows x :=
  (newRows_ext v w).old x h

theorem List.getD_mem_or_eq {α : Type} (l : List α) (k : Nat) (d : α) : l.getD k d ∈ l ∨ l.getD k d = d := by
  rw [List.getD_eq_getElem?_getD]
  cases h : l[k]? with
  | none => right; rfl
  | some v => left; simp; exact List.mem_of_getElem? h

theorem mem_range'_lt {a n x : Nat} (h : x ∈ List.range' a n) : a ≤ x ∧ x < a + n := by
  simp [List.mem_range'_1] at h; omega

/-! ### footprints -/

/-- every object id a stream refers to -/
def World.fpImol (w : World) (im : Nat) : List Nat :=
  im :: (match w.imols im with
    | .chem ph r => [ph, r]
    | .mat _ a => a :: w.arrs a)

def World.fp (w : World) (i : Nat) : List Nat :=
  (w.strs i).tc :: (w.strs i).cf :: w.fpImol (w.strs i).imol

/-- every stream refers to allocated objects only -/
def Scoped (w : World) : Prop := ∀ i, i < w.nS → ∀ x ∈ w.fp i, x < w.next


/-! ### which objects an operation may write -/

/-- the six maps agree at id `x` -/
def AgreeAt (w w' : World) (x : Nat) : Prop :=
  w'.rows x = w.rows x ∧ w'.phs x = w.phs x ∧ w'.tcs x = w.tcs x ∧ w'.cfs x = w.cfs x ∧
  w'.arrs x = w.arrs x ∧ w'.imols x = w.imols x

theorem AgreeAt.rfl' (w : World) (x : Nat) : AgreeAt w w x := ⟨rfl, rfl, rfl, rfl, rfl, rfl⟩

theorem AgreeAt.trans {w w1 w2 : World} {x : Nat} (h1 : AgreeAt w w1 x) (h2 : AgreeAt w1 w2 x) :
    AgreeAt w w2 x :=
  ⟨h2.1.trans h1.1, h2.2.1.trans h1.2.1, h2.2.2.1.trans h1.2.2.1, h2.2.2.2.1.trans h1.2.2.2.1,
   h2.2.2.2.2.1.trans h1.2.2.2.2.1, h2.2.2.2.2.2.trans h1.2.2.2.2.2⟩

/-- `w'` is `w` after an operation that wrote, among the objects that existed (`< w.next`),
only those in `W`, and, among the stream objects that existed, only the slots of those in `Ws`. -/
structure Writes (w w' : World) (W : Nat → Prop) (Ws : Nat → Prop) : Prop where
  next : w.next ≤ w'.next
  agree : ∀ x, x < w.next → ¬ W x → AgreeAt w w' x
  nS : w.nS ≤ w'.nS
  strs : ∀ i, i < w.nS → ¬ Ws i → w'.strs i = w.strs i

theorem Writes.refl (w : World) (W Ws : Nat → Prop) : Writes w w W Ws :=
  ⟨Nat.le_refl _, fun x _ _ => AgreeAt.rfl' w x, Nat.le_refl _, fun _ _ _ => rfl⟩

theorem Writes.trans {w w1 w2 : World} {W W2 Ws Ws2 : Nat → Prop} (h1 : Writes w w1 W Ws)
    (h2 : Writes w1 w2 W2 Ws2) (hsub : ∀ x, x < w.next → W2 x → W x)
    (hsubs : ∀ i, i < w.nS → Ws2 i → Ws i) : Writes w w2 W Ws := by
  refine ⟨Nat.le_trans h1.next h2.next, ?_, Nat.le_trans h1.nS h2.nS, ?_⟩
  · intro x hx hW
    exact (h1.agree x hx hW).trans (h2.agree x (Nat.lt_of_lt_of_le hx h1.next) (fun h => hW (hsub x hx h)))
  · intro i hi hW
    rw [h2.strs i (Nat.lt_of_lt_of_le hi h1.nS) (fun h => hW (hsubs i hi h)), h1.strs i hi hW]

theorem Writes.mono {w w' : World} {W W' Ws Ws' : Nat → Prop} (h : Writes w w' W Ws)
    (hsub : ∀ x, x < w.next → W x → W' x) (hsubs : ∀ i, i < w.nS → Ws i → Ws' i) : Writes w w' W' Ws' :=
  ⟨h.next, fun x hx hW => h.agree x hx (fun h' => hW (hsub x hx h')), h.nS,
   fun i hi hW => h.strs i hi (fun h' => hW (hsubs i hi h'))⟩

def none' : Nat → Prop := fun _ => False

/-- sequencing: the second step may write new objects (`≥ w.next`) freely -/
theorem Writes.seq {w w1 w2 : World} {W Ws : Nat → Prop} (h1 : Writes w w1 W Ws)
    (h2 : Writes w1 w2 (fun x => x < w.next → W x) (fun i => i < w.nS → Ws i)) : Writes w w2 W Ws :=
  h1.trans h2 (fun x hx h => h hx) (fun i hi h => h hi)

theorem Writes.of_none {w w' : World} {W Ws : Nat → Prop} (h : Writes w w' none' none') : Writes w w' W Ws :=
  h.mono (fun _ _ h => h.elim) (fun _ _ h => h.elim)

section prim
variable (w : World)

theorem writes_setRow (i : Nat) (r : Row) : Writes w (w.setRow i r) (· = i) none' :=
  ⟨Nat.le_refl _, fun x _ hx => ⟨by simp [World.setRow, upd_ne _ _ _ _ hx], rfl, rfl, rfl, rfl, rfl⟩,
   Nat.le_refl _, fun _ _ _ => rfl⟩
theorem writes_setPh (i : Nat) (p : Ph) : Writes w (w.setPh i p) (· = i) none' :=
  ⟨Nat.le_refl _, fun x _ hx => ⟨rfl, by simp [World.setPh, upd_ne _ _ _ _ hx], rfl, rfl, rfl, rfl⟩,
   Nat.le_refl _, fun _ _ _ => rfl⟩
theorem writes_setTc (i : Nat) (v : Rat × Rat) : Writes w (w.setTc i v) (· = i) none' :=
  ⟨Nat.le_refl _, fun x _ hx => ⟨rfl, rfl, by simp [World.setTc, upd_ne _ _ _ _ hx], rfl, rfl, rfl⟩,
   Nat.le_refl _, fun _ _ _ => rfl⟩
theorem writes_setCf (i : Nat) (d : List (Nat × Rat)) : Writes w (w.setCf i d) (· = i) none' :=
  ⟨Nat.le_refl _, fun x _ hx => ⟨rfl, rfl, rfl, by simp [World.setCf, upd_ne _ _ _ _ hx], rfl, rfl⟩,
   Nat.le_refl _, fun _ _ _ => rfl⟩
theorem writes_setArr (i : Nat) (l : List Nat) : Writes w (w.setArr i l) (· = i) none' :=
  ⟨Nat.le_refl _, fun x _ hx => ⟨rfl, rfl, rfl, rfl, by simp [World.setArr, upd_ne _ _ _ _ hx], rfl⟩,
   Nat.le_refl _, fun _ _ _ => rfl⟩
theorem writes_setImol (i : Nat) (m : Imol) : Writes w (w.setImol i m) (· = i) none' :=
  ⟨Nat.le_refl _, fun x _ hx => ⟨rfl, rfl, rfl, rfl, rfl, by simp [World.setImol, upd_ne _ _ _ _ hx]⟩,
   Nat.le_refl _, fun _ _ _ => rfl⟩
theorem writes_setStr (i : Nat) (s : Stream) : Writes w (w.setStr i s) none' (· = i) :=
  ⟨Nat.le_refl _, fun x _ _ => AgreeAt.rfl' _ _, Nat.le_refl _,
   fun j _ hj => by simp [World.setStr, upd_ne _ _ _ _ hj]⟩

theorem writes_newRow (r : Row) : Writes w (w.newRow r).1 none' none' :=
  ⟨Nat.le_succ _, fun x hx _ => ⟨by simp [World.newRow, upd_lt _ _ _ _ hx], rfl, rfl, rfl, rfl, rfl⟩,
   Nat.le_refl _, fun _ _ _ => rfl⟩
theorem writes_newPh (p : Ph) : Writes w (w.newPh p).1 none' none' :=
  ⟨Nat.le_succ _, fun x hx _ => ⟨rfl, by simp [World.newPh, upd_lt _ _ _ _ hx], rfl, rfl, rfl, rfl⟩,
   Nat.le_refl _, fun _ _ _ => rfl⟩
theorem writes_newTc (v : Rat × Rat) : Writes w (w.newTc v).1 none' none' :=
  ⟨Nat.le_succ _, fun x hx _ => ⟨rfl, rfl, by simp [World.newTc, upd_lt _ _ _ _ hx], rfl, rfl, rfl⟩,
   Nat.le_refl _, fun _ _ _ => rfl⟩
theorem writes_newCf (d : List (Nat × Rat)) : Writes w (w.newCf d).1 none' none' :=
  ⟨Nat.le_succ _, fun x hx _ => ⟨rfl, rfl, rfl, by simp [World.newCf, upd_lt _ _ _ _ hx], rfl, rfl⟩,
   Nat.le_refl _, fun _ _ _ => rfl⟩
theorem writes_newArr (l : List Nat) : Writes w (w.newArr l).1 none' none' :=
  ⟨Nat.le_succ _, fun x hx _ => ⟨rfl, rfl, rfl, rfl, by simp [World.newArr, upd_lt _ _ _ _ hx], rfl⟩,
   Nat.le_refl _, fun _ _ _ => rfl⟩
theorem writes_newImol (m : Imol) : Writes w (w.newImol m).1 none' none' :=
  ⟨Nat.le_succ _, fun x hx _ => ⟨rfl, rfl, rfl, rfl, rfl, by simp [World.newImol, upd_lt _ _ _ _ hx]⟩,
   Nat.le_refl _, fun _ _ _ => rfl⟩
theorem writes_pushStr (s : Stream) : Writes w (w.pushStr s).1 none' none' :=
  ⟨Nat.le_refl _, fun x _ _ => AgreeAt.rfl' _ _, Nat.le_succ _,
   fun j hj _ => by simp [World.pushStr, upd_lt _ _ _ _ hj]⟩

theorem writes_newRows (v : List Row) : Writes w (w.newRows v).1 none' none' :=
  ⟨by simp, fun x hx _ => ⟨newRows_old w v x hx, by simp, by simp, by simp, by simp, by simp⟩,
   by simp, fun _ _ _ => by simp⟩

end prim

theorem writes_clearRows (l : List Nat) : ∀ w : World, Writes w (w.clearRows l) (· ∈ l) none' := by
  induction l with
  | nil => intro w; exact Writes.refl _ _ _
  | cons i is ih =>
    intro w
    refine Writes.trans (W := (· ∈ i :: is)) ((writes_setRow w i Row.zero).mono ?_ (fun _ _ h => h))
      (ih _) ?_ (fun _ _ h => h)
    · intro x _ h; simp [h]
    · intro x _ h; simp [h]

theorem writes_copyRowsSeq (l : List (Nat × Nat)) :
    ∀ w : World, Writes w (w.copyRowsSeq l) (· ∈ l.map Prod.fst) none' := by
  induction l with
  | nil => intro w; exact Writes.refl _ _ _
  | cons p ps ih =>
    intro w
    obtain ⟨t, s⟩ := p
    refine Writes.trans (W := (· ∈ ((t, s) :: ps).map Prod.fst))
      ((writes_setRow w t (w.rows s)).mono ?_ (fun _ _ h => h)) (ih _) ?_ (fun _ _ h => h)
    · intro x _ h; simp [h]
    · intro x _ h; simp at h ⊢; exact Or.inr h


/-! ### footprints are determined by the structure maps -/

theorem fpImol_congr {w w' : World} {im : Nat} (hi : w'.imols im = w.imols im)
    (ha : ∀ ps a, w.imols im = .mat ps a → w'.arrs a = w.arrs a) : w'.fpImol im = w.fpImol im := by
  unfold World.fpImol
  rw [hi]
  cases h : w.imols im with
  | chem ph r => rfl
  | mat ps a => simp [ha ps a h]

theorem fp_congr {w w' : World} {i : Nat} (hs : w'.strs i = w.strs i)
    (hi : w'.imols (w.strs i).imol = w.imols (w.strs i).imol)
    (ha : ∀ ps a, w.imols (w.strs i).imol = .mat ps a → w'.arrs a = w.arrs a) : w'.fp i = w.fp i := by
  unfold World.fp
  rw [hs, fpImol_congr hi ha]

theorem mem_fp_imol (w : World) (i : Nat) : (w.strs i).imol ∈ w.fp i := by simp [World.fp, World.fpImol]
theorem mem_fp_tc (w : World) (i : Nat) : (w.strs i).tc ∈ w.fp i := by simp [World.fp]
theorem mem_fp_cf (w : World) (i : Nat) : (w.strs i).cf ∈ w.fp i := by simp [World.fp]
theorem mem_fp_chem {w : World} {i ph r : Nat} (h : w.imols (w.strs i).imol = .chem ph r) :
    ph ∈ w.fp i ∧ r ∈ w.fp i := by simp [World.fp, World.fpImol, h]
theorem mem_fp_mat {w : World} {i a : Nat} {ps : List Ph} (h : w.imols (w.strs i).imol = .mat ps a) :
    a ∈ w.fp i ∧ ∀ r ∈ w.arrs a, r ∈ w.fp i := by
  simp [World.fp, World.fpImol, h]; intro r hr; simp [hr]
theorem mem_fp_rowIds {w : World} {i r : Nat} (h : r ∈ w.rowIdsOf (w.strs i).imol) : r ∈ w.fp i := by
  unfold World.rowIdsOf at h
  cases hm : w.imols (w.strs i).imol with
  | chem ph r' => simp [hm] at h; subst h; exact (mem_fp_chem hm).2
  | mat ps a => simp [hm] at h; exact (mem_fp_mat hm).2 r h

/-- agreement on the footprint of stream `i` (and on its slots) gives the same footprint and observation -/
theorem observe_congr {w w' : World} {i : Nat} (hs : w'.strs i = w.strs i)
    (h : ∀ x ∈ w.fp i, AgreeAt w w' x) : w'.fp i = w.fp i ∧ w'.observe i = w.observe i := by
  have him := h _ (mem_fp_imol w i)
  have hfp : w'.fp i = w.fp i := by
    apply fp_congr hs him.2.2.2.2.2
    intro ps a hm
    exact (h a (mem_fp_mat hm).1).2.2.2.2.1
  refine ⟨hfp, ?_⟩
  unfold World.observe
  rw [hs]
  have htc := (h _ (mem_fp_tc w i)).2.2.1
  have hcf := (h _ (mem_fp_cf w i)).2.2.2.1
  have hph : w'.phasesOf (w.strs i).imol = w.phasesOf (w.strs i).imol := by
    unfold World.phasesOf
    rw [him.2.2.2.2.2]
    cases hm : w.imols (w.strs i).imol with
    | chem ph r => simp [(h ph (mem_fp_chem hm).1).2.1]
    | mat ps a => rfl
  have hri : w'.rowIdsOf (w.strs i).imol = w.rowIdsOf (w.strs i).imol := by
    unfold World.rowIdsOf
    rw [him.2.2.2.2.2]
    cases hm : w.imols (w.strs i).imol with
    | chem ph r => rfl
    | mat ps a => simp [(h a (mem_fp_mat hm).1).2.2.2.2.1]
  have hfl : (w'.rowIdsOf (w.strs i).imol).map w'.rows = (w.rowIdsOf (w.strs i).imol).map w.rows := by
    rw [hri]
    apply List.map_congr_left
    intro r hr
    exact (h r (mem_fp_rowIds hr)).1
  simp only [htc, hcf, hph, hfl]

/-- the footprints of the streams an operation mentions -/
def World.M (w : World) (ids : List Nat) : Nat → Prop := fun x => ∃ j ∈ ids, x ∈ w.fp j

/-- One operation, seen from outside: it writes only objects of the streams it mentions (and new
ones); afterwards the streams it mentions, and the streams it created, refer only to objects that
the mentioned streams referred to before, or to new ones. -/
structure OpSpec (w : World) (ids : List Nat) (w' : World) : Prop where
  writes : Writes w w' (w.M ids) (· ∈ ids)
  closure : ∀ j, j < w'.nS → ∀ x ∈ w'.fp j,
    ((j < w.nS ∧ x ∈ w.fp j) ∨ w.M ids x ∨ w.next ≤ x) ∧ x < w'.next

/-- closure for an operation that leaves the pointer structure alone -/
theorem closure_of_struct {w w' : World} {ids : List Nat} (hsc : Scoped w) (_hids : ∀ j ∈ ids, j < w.nS)
    (hn : w.next ≤ w'.next) (hnS : w'.nS = w.nS)
    (hfp : ∀ j, j < w.nS → w'.fp j = w.fp j) :
    ∀ j, j < w'.nS → ∀ x ∈ w'.fp j, ((j < w.nS ∧ x ∈ w.fp j) ∨ w.M ids x ∨ w.next ≤ x) ∧ x < w'.next := by
  intro j hlt x hx
  rw [hnS] at hlt
  rw [hfp j hlt] at hx
  exact ⟨Or.inl ⟨hlt, hx⟩, Nat.lt_of_lt_of_le (hsc j hlt x hx) hn⟩


/-! ### loops over rows leave everything but the row contents alone -/

theorem clearRows_fields (l : List Nat) : ∀ w : World,
    (w.clearRows l).phs = w.phs ∧ (w.clearRows l).tcs = w.tcs ∧ (w.clearRows l).cfs = w.cfs ∧
    (w.clearRows l).arrs = w.arrs ∧ (w.clearRows l).imols = w.imols ∧ (w.clearRows l).strs = w.strs ∧
    (w.clearRows l).nS = w.nS ∧ (w.clearRows l).next = w.next := by
  induction l with
  | nil => intro w; simp [World.clearRows]
  | cons i is ih => intro w; simpa [World.clearRows, World.setRow] using ih (w.setRow i Row.zero)

@[simp] theorem clearRows_phs (w : World) (l : List Nat) : (w.clearRows l).phs = w.phs := (clearRows_fields l w).1
@[simp] theorem clearRows_tcs (w : World) (l : List Nat) : (w.clearRows l).tcs = w.tcs := (clearRows_fields l w).2.1
@[simp] theorem clearRows_cfs (w : World) (l : List Nat) : (w.clearRows l).cfs = w.cfs := (clearRows_fields l w).2.2.1
@[simp] theorem clearRows_arrs (w : World) (l : List Nat) : (w.clearRows l).arrs = w.arrs := (clearRows_fields l w).2.2.2.1
@[simp] theorem clearRows_imols (w : World) (l : List Nat) : (w.clearRows l).imols = w.imols :=
  (clearRows_fields l w).2.2.2.2.1
@[simp] theorem clearRows_strs (w : World) (l : List Nat) : (w.clearRows l).strs = w.strs :=
  (clearRows_fields l w).2.2.2.2.2.1
@[simp] theorem clearRows_nS (w : World) (l : List Nat) : (w.clearRows l).nS = w.nS :=
  (clearRows_fields l w).2.2.2.2.2.2.1
@[simp] theorem clearRows_next (w : World) (l : List Nat) : (w.clearRows l).next = w.next :=
  (clearRows_fields l w).2.2.2.2.2.2.2

theorem copyRowsSeq_fields (l : List (Nat × Nat)) : ∀ w : World,
    (w.copyRowsSeq l).phs = w.phs ∧ (w.copyRowsSeq l).tcs = w.tcs ∧ (w.copyRowsSeq l).cfs = w.cfs ∧
    (w.copyRowsSeq l).arrs = w.arrs ∧ (w.copyRowsSeq l).imols = w.imols ∧ (w.copyRowsSeq l).strs = w.strs ∧
    (w.copyRowsSeq l).nS = w.nS ∧ (w.copyRowsSeq l).next = w.next := by
  induction l with
  | nil => intro w; simp [World.copyRowsSeq]
  | cons p ps ih =>
    intro w; obtain ⟨t, s⟩ := p
    simpa [World.copyRowsSeq, World.setRow] using ih (w.setRow t (w.rows s))

@[simp] theorem copyRowsSeq_phs (w : World) (l) : (w.copyRowsSeq l).phs = w.phs := (copyRowsSeq_fields l w).1
@[simp] theorem copyRowsSeq_tcs (w : World) (l) : (w.copyRowsSeq l).tcs = w.tcs := (copyRowsSeq_fields l w).2.1
@[simp] theorem copyRowsSeq_cfs (w : World) (l) : (w.copyRowsSeq l).cfs = w.cfs := (copyRowsSeq_fields l w).2.2.1
@[simp] theorem copyRowsSeq_arrs (w : World) (l) : (w.copyRowsSeq l).arrs = w.arrs := (copyRowsSeq_fields l w).2.2.2.1
@[simp] theorem copyRowsSeq_imols (w : World) (l) : (w.copyRowsSeq l).imols = w.imols :=
  (copyRowsSeq_fields l w).2.2.2.2.1
@[simp] theorem copyRowsSeq_strs (w : World) (l) : (w.copyRowsSeq l).strs = w.strs :=
  (copyRowsSeq_fields l w).2.2.2.2.2.1
@[simp] theorem copyRowsSeq_nS (w : World) (l) : (w.copyRowsSeq l).nS = w.nS := (copyRowsSeq_fields l w).2.2.2.2.2.2.1
@[simp] theorem copyRowsSeq_next (w : World) (l) : (w.copyRowsSeq l).next = w.next :=
  (copyRowsSeq_fields l w).2.2.2.2.2.2.2

/-! ### specifications of the operations that leave the pointer structure alone -/

theorem M_single {w : World} {s x : Nat} (h : x ∈ w.fp s) : w.M [s] x := ⟨s, by simp, h⟩

theorem spec_setT (w : World) (s : Nat) (v : Rat) (hsc : Scoped w) (hs : s < w.nS) :
    OpSpec w [s] (w.setT s v) := by
  refine ⟨(writes_setTc w _ _).mono ?_ ?_, closure_of_struct hsc (by simpa using hs) (Nat.le_refl _) rfl ?_⟩
  · intro x _ hx; subst hx; exact M_single (mem_fp_tc w s)
  · intro i _ h; exact h.elim
  · intro j _; rfl

theorem spec_setP (w : World) (s : Nat) (v : Rat) (hsc : Scoped w) (hs : s < w.nS) :
    OpSpec w [s] (w.setP s v) := by
  refine ⟨(writes_setTc w _ _).mono ?_ ?_, closure_of_struct hsc (by simpa using hs) (Nat.le_refl _) rfl ?_⟩
  · intro x _ hx; subst hx; exact M_single (mem_fp_tc w s)
  · intro i _ h; exact h.elim
  · intro j _; rfl

theorem spec_setCF (w : World) (s k : Nat) (v : Rat) (hsc : Scoped w) (hs : s < w.nS) :
    OpSpec w [s] (w.setCF s k v) := by
  refine ⟨(writes_setCf w _ _).mono ?_ ?_, closure_of_struct hsc (by simpa using hs) (Nat.le_refl _) rfl ?_⟩
  · intro x _ hx; subst hx; exact M_single (mem_fp_cf w s)
  · intro i _ h; exact h.elim
  · intro j _; rfl

theorem spec_copyTC (w : World) (t s : Nat) (hsc : Scoped w) (ht : t < w.nS) (hs : s < w.nS) :
    OpSpec w [t, s] (w.copyTC t s) := by
  refine ⟨(writes_setTc w _ _).mono ?_ ?_, closure_of_struct hsc ?_ (Nat.le_refl _) rfl ?_⟩
  · intro x _ hx; subst hx; exact ⟨t, by simp, mem_fp_tc w t⟩
  · intro i _ h; exact h.elim
  · intro j hj; simp at hj; rcases hj with rfl | rfl <;> assumption
  · intro j _; rfl

theorem spec_empty (w : World) (s : Nat) (hsc : Scoped w) (hs : s < w.nS) : OpSpec w [s] (w.empty s) := by
  refine ⟨(writes_clearRows _ w).mono ?_ ?_, closure_of_struct hsc (by simpa using hs) (by simp [World.empty])
    (by simp [World.empty]) ?_⟩
  · intro x _ hx; exact M_single (mem_fp_rowIds hx)
  · intro i _ h; exact h.elim
  · intro j _; apply fp_congr <;> simp [World.empty]

theorem spec_setPrice (w : World) (s : Nat) (v : Rat) (hsc : Scoped w) (hs : s < w.nS) :
    OpSpec w [s] (w.setPrice s v) := by
  refine ⟨(writes_setStr w _ _).mono ?_ ?_, closure_of_struct hsc (by simpa using hs) (Nat.le_refl _) rfl ?_⟩
  · intro x _ h; exact h.elim
  · intro i _ h; simp [h]
  · intro j _
    by_cases hj : j = s
    · subst hj; simp [World.fp, World.fpImol, World.setPrice, World.setStr]
    · simp [World.fp, World.fpImol, World.setPrice, World.setStr, upd_ne _ _ _ _ hj]

theorem spec_setFlow (w : World) (s : Nat) (p : Ph) (c : Nat) (v : Rat) (w' : World) (hsc : Scoped w)
    (hs : s < w.nS) (h : w.setFlow s p c v = .ok w') : OpSpec w [s] w' := by
  unfold World.setFlow at h
  cases hm : w.imols (w.strs s).imol with
  | chem ph r =>
    simp only [hm] at h
    split at h
    · cases h
    · cases h
      refine ⟨(writes_setRow w _ _).mono ?_ ?_, closure_of_struct hsc (by simpa using hs) (Nat.le_refl _) rfl ?_⟩
      · intro x _ hx; subst hx; exact M_single (mem_fp_chem hm).2
      · intro i _ h; exact h.elim
      · intro j _; rfl
  | mat ps a =>
    simp only [hm] at h
    split at h
    · cases h
    · split at h
      · cases h
      · cases h
        refine ⟨(writes_setRow w _ _).mono ?_ ?_, closure_of_struct hsc (by simpa using hs) (Nat.le_refl _) rfl ?_⟩
        · intro x _ hx; subst hx
          rcases List.getD_mem_or_eq (w.arrs a) _ a with hmem | heq
          · exact M_single ((mem_fp_mat hm).2 _ hmem)
          · rw [heq]; exact M_single (mem_fp_mat hm).1
        · intro i _ h; exact h.elim
        · intro j _; rfl


/-! ### specifications of the operations that allocate -/

structure CopyImolSpec (w : World) (im : Nat) (w' : World) (im' : Nat) : Prop where
  writes : Writes w w' none' none'
  strs : w'.strs = w.strs
  nS : w'.nS = w.nS
  tcs : w'.tcs = w.tcs
  cfs : w'.cfs = w.cfs
  fresh : ∀ x ∈ w'.fpImol im', w.next ≤ x ∧ x < w'.next
  phases : w'.phasesOf im' = w.phasesOf im
  flows : (w'.rowIdsOf im').map w'.rows = (w.rowIdsOf im).map w.rows
  isMat : w'.isMat im' = w.isMat im

theorem copyImol_spec (w : World) (im : Nat) : CopyImolSpec w im (w.copyImol im).1 (w.copyImol im).2 := by
  unfold World.copyImol
  cases hm : w.imols im with
  | chem ph r =>
    simp only
    refine ⟨(writes_newPh w _).of_none.seq ((writes_newRow _ _).of_none.seq (writes_newImol _ _).of_none),
      rfl, rfl, rfl, rfl, ?_, ?_, ?_, ?_⟩
    · intro x hx
      simp [World.fpImol] at hx ⊢
      omega
    · simp [World.phasesOf, hm]
    · simp [World.rowIdsOf, hm]
    · simp [World.isMat, hm]
  | mat ps a =>
    simp only
    refine ⟨(writes_newRows w _).of_none.seq ((writes_newArr _ _).of_none.seq (writes_newImol _ _).of_none),
      by simp, by simp, by simp, by simp, ?_, ?_, ?_, ?_⟩
    · intro x hx
      simp [World.fpImol, newRows_ids] at hx ⊢
      omega
    · simp [World.phasesOf, hm]
    · simp [World.rowIdsOf, hm]
    · simp [World.isMat, hm]

@[simp] theorem copyImol_strs (w : World) (im : Nat) : (w.copyImol im).1.strs = w.strs := (copyImol_spec w im).strs
@[simp] theorem copyImol_nS (w : World) (im : Nat) : (w.copyImol im).1.nS = w.nS := (copyImol_spec w im).nS
@[simp] theorem copyImol_tcs (w : World) (im : Nat) : (w.copyImol im).1.tcs = w.tcs := (copyImol_spec w im).tcs
@[simp] theorem copyImol_cfs (w : World) (im : Nat) : (w.copyImol im).1.cfs = w.cfs := (copyImol_spec w im).cfs

theorem fpImol_of_agree {w w' : World} {im : Nat} (hi : w'.imols = w.imols) (ha : w'.arrs = w.arrs) :
    w'.fpImol im = w.fpImol im := by
  simp [World.fpImol, hi, ha]

theorem writes_copy (w : World) (s : Nat) : Writes w (w.copy s).1 none' none' := by
  simp only [World.copy]
  exact (writes_newCf w _).of_none.seq ((copyImol_spec _ _).writes.of_none.seq ((writes_newTc _ _).of_none.seq
    (writes_pushStr _ _).of_none))

/-- the copy: a new stream all of whose objects are new -/
theorem copy_fresh (w : World) (s : Nat) :
    (w.copy s).2 = w.nS ∧ (w.copy s).1.nS = w.nS + 1 ∧
    ∀ x ∈ (w.copy s).1.fp w.nS, w.next ≤ x ∧ x < (w.copy s).1.next := by
  refine ⟨?_, ?_, ?_⟩
  · simp [World.copy]
  · simp [World.copy]
  · intro x hx
    have h := copyImol_spec (w.newCf []).1 (w.strs s).imol
    have hn := h.writes.next
    simp only [World.copy, World.fp] at hx ⊢
    simp at hx hn ⊢
    rcases hx with rfl | rfl | hx
    · omega
    · omega
    · rw [fpImol_of_agree (w := ((w.newCf []).1.copyImol (w.strs s).imol).1) (by simp) (by simp)] at hx
      have := h.fresh x hx
      simp at this
      omega


/-- the frame lemma: a stream whose slots and objects were not written keeps footprint and observation -/
theorem frame_of_writes {w w' : World} {W Ws : Nat → Prop} (hsc : Scoped w) (hw : Writes w w' W Ws)
    (j : Nat) (hj : j < w.nS) (hjW : ¬ Ws j) (hfpW : ∀ x ∈ w.fp j, ¬ W x) :
    w'.fp j = w.fp j ∧ w'.observe j = w.observe j :=
  observe_congr (hw.strs j hj hjW) (fun x hx => hw.agree x (hsc j hj x hx) (hfpW x hx))

/-- closure for an operation that only creates objects and one new stream whose objects are all new -/
theorem spec_of_fresh {w w' : World} {ids : List Nat} (hsc : Scoped w) (hids : ∀ j ∈ ids, j < w.nS)
    (hw : Writes w w' none' none') (hnS : w'.nS = w.nS + 1)
    (hf : ∀ x ∈ w'.fp w.nS, (w.M ids x ∨ w.next ≤ x) ∧ x < w'.next) : OpSpec w ids w' := by
  have _ := hids
  refine ⟨hw.of_none, ?_⟩
  intro j hlt x hx
  by_cases hj : j < w.nS
  · have hc := frame_of_writes hsc hw j hj (fun h => h) (fun _ _ h => h)
    rw [hc.1] at hx
    exact ⟨Or.inl ⟨hj, hx⟩, Nat.lt_of_lt_of_le (hsc j hj x hx) hw.next⟩
  · have : j = w.nS := by omega
    subst this
    exact ⟨Or.inr (hf x hx).1, (hf x hx).2⟩

theorem spec_copy (w : World) (s : Nat) (hsc : Scoped w) (hs : s < w.nS) : OpSpec w [s] (w.copy s).1 :=
  spec_of_fresh hsc (by simpa using hs) (writes_copy w s) (copy_fresh w s).2.1
    (fun x hx => ⟨Or.inr ((copy_fresh w s).2.2 x hx).1, ((copy_fresh w s).2.2 x hx).2⟩)

/-! proxies -/

theorem writes_proxy (w : World) (s : Nat) : Writes w (w.proxy s).1 none' none' := by
  simp only [World.proxy]; exact (writes_pushStr _ _)

theorem spec_proxy (w : World) (s : Nat) (hsc : Scoped w) (hs : s < w.nS) : OpSpec w [s] (w.proxy s).1 := by
  refine spec_of_fresh hsc (by simpa using hs) (writes_proxy w s) (by simp [World.proxy]) ?_
  intro x hx
  have hfp : (w.proxy s).1.fp w.nS = w.fp s := by
    simp [World.proxy, World.fp, World.fpImol]
  rw [hfp] at hx
  exact ⟨Or.inl (M_single hx), by simpa [World.proxy] using hsc s hs x hx⟩

theorem writes_flowProxy (w : World) (s : Nat) : Writes w (w.flowProxy s).1 none' none' := by
  simp only [World.flowProxy]
  cases hm : w.imols (w.strs s).imol with
  | chem ph r =>
    exact (writes_newPh w _).of_none.seq ((writes_newImol _ _).of_none.seq ((writes_newTc _ _).of_none.seq
      ((writes_newCf _ _).of_none.seq (writes_pushStr _ _).of_none)))
  | mat ps a =>
    exact (writes_newImol _ _).of_none.seq ((writes_newTc _ _).of_none.seq
      ((writes_newCf _ _).of_none.seq (writes_pushStr _ _).of_none))

theorem spec_flowProxy (w : World) (s : Nat) (hsc : Scoped w) (hs : s < w.nS) :
    OpSpec w [s] (w.flowProxy s).1 := by
  refine spec_of_fresh hsc (by simpa using hs) (writes_flowProxy w s) ?_ ?_
  · simp only [World.flowProxy]; cases hm : w.imols (w.strs s).imol <;> simp
  · intro x hx
    simp only [World.flowProxy] at hx ⊢
    cases hm : w.imols (w.strs s).imol with
    | chem ph r =>
      simp [hm, World.fp, World.fpImol] at hx ⊢
      have := hsc s hs r (mem_fp_chem hm).2
      rcases hx with rfl | rfl | rfl | rfl | rfl
      · omega
      · omega
      · omega
      · omega
      · exact ⟨Or.inl (M_single (mem_fp_chem hm).2), by omega⟩
    | mat ps a =>
      simp [hm, World.fp, World.fpImol] at hx ⊢
      have ha := hsc s hs a (mem_fp_mat hm).1
      rcases hx with rfl | rfl | rfl | rfl | hx
      · omega
      · omega
      · omega
      · exact ⟨Or.inl (M_single (mem_fp_mat hm).1), by omega⟩
      · have := hsc s hs x ((mem_fp_mat hm).2 x hx)
        exact ⟨Or.inl (M_single ((mem_fp_mat hm).2 x hx)), by omega⟩



theorem spec_setPhase (w : World) (s : Nat) (p : Ph) (hsc : Scoped w) (hs : s < w.nS) :
    OpSpec w [s] (w.setPhase s p) := by
  cases hm : w.imols (w.strs s).imol with
  | chem ph r =>
    simp only [World.setPhase, hm]
    refine ⟨(writes_setPh w _ _).mono ?_ ?_, closure_of_struct hsc (by simpa using hs) (Nat.le_refl _) rfl ?_⟩
    · intro x _ hx; subst hx; exact M_single (mem_fp_chem hm).1
    · intro i _ h; exact h.elim
    · intro j _; rfl
  | mat ps a =>
    simp only [World.setPhase, hm]
    constructor
    · exact (writes_newPh w p).of_none.seq ((writes_newRow _ _).of_none.seq ((writes_newImol _ _).of_none.seq
        ((writes_setStr _ s _).mono (fun x _ h => h.elim) (fun i _ h _ => by simp [h]))))
    · intro j hlt x hx
      have hlt' : j < w.nS := by simpa using hlt
      by_cases hj'' : j ≠ s
      · have hj' := hj''
        have hw : Writes w ((((w.newPh p).1.newRow fun c =>
            List.foldl (fun x1 x2 => x1 + x2) 0 (List.map (fun r => w.rows r c) (w.arrs a))).1.newImol
            (Imol.chem (w.newPh p).2 ((w.newPh p).1.newRow fun c =>
            List.foldl (fun x1 x2 => x1 + x2) 0 (List.map (fun r => w.rows r c) (w.arrs a))).2)).1.setStr s
            { w.strs s with imol := (((w.newPh p).1.newRow fun c =>
            List.foldl (fun x1 x2 => x1 + x2) 0 (List.map (fun r => w.rows r c) (w.arrs a))).1.newImol
            (Imol.chem (w.newPh p).2 ((w.newPh p).1.newRow fun c =>
            List.foldl (fun x1 x2 => x1 + x2) 0 (List.map (fun r => w.rows r c) (w.arrs a))).2)).2 })
            none' (· = s) :=
          (writes_newPh w p).of_none.seq ((writes_newRow _ _).of_none.seq ((writes_newImol _ _).of_none.seq
            ((writes_setStr _ s _).mono (fun x _ h => h.elim) (fun i _ h => by intros; exact h))))
        have hc := frame_of_writes hsc hw j hlt' hj' (fun _ _ h => h)
        rw [hc.1] at hx
        exact ⟨Or.inl ⟨hlt', hx⟩, Nat.lt_of_lt_of_le (hsc j hlt' x hx) hw.next⟩
      have hj' : j = s := Decidable.not_not.mp hj''
      subst hj'
      have hs := hlt'
      simp [World.fp, World.fpImol, World.setStr, World.newImol, World.newRow, World.newPh] at hx ⊢
      have h1 := hsc j hs _ (mem_fp_tc w j)
      have h2 := hsc j hs _ (mem_fp_cf w j)
      rcases hx with rfl | rfl | rfl | rfl | rfl
      · exact ⟨Or.inr (Or.inl (M_single (mem_fp_tc w j))), by omega⟩
      · exact ⟨Or.inr (Or.inl (M_single (mem_fp_cf w j))), by omega⟩
      all_goals exact ⟨Or.inr (Or.inr (by omega)), by omega⟩


theorem writes_unlink (w : World) (s : Nat) : Writes w (w.unlink s) none' (· = s) := by
  simp only [World.unlink]
  exact (copyImol_spec _ _).writes.of_none.seq ((writes_newTc _ _).of_none.seq
    ((writes_setStr _ s _).mono (fun x _ h => h.elim) (fun i _ h => by intros; exact h)))

/-- after `unlink` every flow / phase / thermal object of the stream is new -/
theorem unlink_fresh (w : World) (s : Nat) :
    ∀ x ∈ (w.unlink s).fp s, x = (w.strs s).cf ∨ (w.next ≤ x ∧ x < (w.unlink s).next) := by
  intro x hx
  have h := copyImol_spec w (w.strs s).imol
  have hn := h.writes.next
  simp only [World.unlink, World.fp] at hx ⊢
  simp at hx ⊢
  rcases hx with rfl | rfl | hx
  · right; omega
  · left; rfl
  · rw [fpImol_of_agree (w := (w.copyImol (w.strs s).imol).1) (by simp) (by simp)] at hx
    have := h.fresh x hx
    right; omega

theorem spec_unlink (w : World) (s : Nat) (hsc : Scoped w) (hs : s < w.nS) : OpSpec w [s] (w.unlink s) := by
  refine ⟨(writes_unlink w s).mono (fun _ _ h => h.elim) (fun i _ h => by simp [h]), ?_⟩
  intro j hlt x hx
  have hnS : (w.unlink s).nS = w.nS := by simp [World.unlink]
  have hlt' : j < w.nS := by omega
  by_cases hj'' : j ≠ s
  · have hc := frame_of_writes hsc (writes_unlink w s) j hlt' hj'' (fun _ _ h => h)
    rw [hc.1] at hx
    exact ⟨Or.inl ⟨hlt', hx⟩, Nat.lt_of_lt_of_le (hsc j hlt' x hx) (writes_unlink w s).next⟩
  have hj' : j = s := Decidable.not_not.mp hj''
  subst hj'
  rcases unlink_fresh w j x hx with rfl | h
  · exact ⟨Or.inr (Or.inl (M_single (mem_fp_cf w j))),
      Nat.lt_of_lt_of_le (hsc j hs _ (mem_fp_cf w j)) (writes_unlink w j).next⟩
  · exact ⟨Or.inr (Or.inr h.1), h.2⟩


theorem M_pair_left {w : World} {t s x : Nat} (h : x ∈ w.fp t) : w.M [t, s] x := ⟨t, by simp, h⟩
theorem M_pair_right {w : World} {t s x : Nat} (h : x ∈ w.fp s) : w.M [t, s] x := ⟨s, by simp, h⟩

theorem fpImol_setImol_ne {w : World} {i im : Nat} {m : Imol} (h : im ≠ i) :
    (w.setImol i m).fpImol im = w.fpImol im := by
  simp [World.fpImol, upd_ne _ _ _ _ h]

theorem link_closure {w w1 : World} {t s : Nat} {m : Imol}
    (him : w1.imols = w.imols) (har : w1.arrs = w.arrs)
    (hstr : ∀ j, (w1.strs j).imol = (w.strs j).imol ∧ (w1.strs j).cf = (w.strs j).cf ∧
      ((w1.strs j).tc = (w.strs j).tc ∨ (w1.strs j).tc = (w.strs s).tc))
    (hm : ∀ x ∈ (w1.setImol (w.strs t).imol m).fpImol (w.strs t).imol, w.M [t, s] x) :
    ∀ j, ∀ x ∈ (w1.setImol (w.strs t).imol m).fp j, x ∈ w.fp j ∨ w.M [t, s] x := by
  intro j x hx
  have hjM : ∀ y ∈ w.fp j, y ∈ w.fp j ∨ w.M [t, s] y := fun y hy => Or.inl hy
  simp only [World.fp, setImol_strs, List.mem_cons] at hx
  obtain ⟨h1, h2, h3⟩ := hstr j
  rcases hx with rfl | rfl | hx
  · rcases h3 with h3 | h3
    · rw [h3]; exact hjM _ (mem_fp_tc w j)
    · rw [h3]; exact Or.inr (M_pair_right (mem_fp_tc w s))
  · rw [h2]; exact hjM _ (mem_fp_cf w j)
  · rw [h1] at hx
    by_cases he : (w.strs j).imol = (w.strs t).imol
    · rw [he] at hx; exact Or.inr (hm x hx)
    · rw [fpImol_setImol_ne he, fpImol_of_agree him har] at hx
      apply hjM
      simp [World.fp, hx]

theorem spec_link (w : World) (t s : Nat) (f p tp : Bool) (w' : World) (hsc : Scoped w) (ht : t < w.nS)
    (hs : s < w.nS) (h : w.link t s f p tp = .ok w') : OpSpec w [t, s] w' := by
  have hlt' : ∀ y, w.M [t, s] y → y < w.next := by
    rintro y ⟨k, hk, hy⟩
    simp at hk
    rcases hk with rfl | rfl
    · exact hsc _ ht y hy
    · exact hsc _ hs y hy
  have him := mem_fp_imol w t
  -- the world after the optional rebinding of the thermal condition
  let w1 := if tp then w.setStr t { w.strs t with tc := (w.strs s).tc } else w
  have hw1 : Writes w w1 (w.M [t, s]) (· ∈ [t, s]) := by
    show Writes w (if tp then _ else _) _ _
    cases tp
    · exact Writes.refl _ _ _
    · exact (writes_setStr w t _).mono (fun _ _ h => h.elim) (fun i _ h => by simp [h])
  have h1i : w1.imols = w.imols := by show (if tp then _ else _ : World).imols = _; cases tp <;> rfl
  have h1a : w1.arrs = w.arrs := by show (if tp then _ else _ : World).arrs = _; cases tp <;> rfl
  have h1n : w1.next = w.next := by show (if tp then _ else _ : World).next = _; cases tp <;> rfl
  have h1S : w1.nS = w.nS := by show (if tp then _ else _ : World).nS = _; cases tp <;> rfl
  have h1s : ∀ j, (w1.strs j).imol = (w.strs j).imol ∧ (w1.strs j).cf = (w.strs j).cf ∧
      ((w1.strs j).tc = (w.strs j).tc ∨ (w1.strs j).tc = (w.strs s).tc) := by
    intro j
    show ((if tp then _ else _ : World).strs j).imol = _ ∧ ((if tp then _ else _ : World).strs j).cf = _ ∧
      (((if tp then _ else _ : World).strs j).tc = _ ∨ ((if tp then _ else _ : World).strs j).tc = _)
    cases tp
    · simp
    · by_cases hj : j = t
      · subst hj; simp
      · simp [upd_ne _ _ _ _ hj]
  -- both kinds end with one write to the indexer object of the target
  have key : ∀ m : Imol, (∀ x ∈ (w1.setImol (w.strs t).imol m).fpImol (w.strs t).imol, w.M [t, s] x) →
      OpSpec w [t, s] (w1.setImol (w.strs t).imol m) := by
    intro m hm
    refine ⟨hw1.seq ((writes_setImol _ _ _).mono ?_ (fun _ _ h => h.elim)), ?_⟩
    · intro x _ hx _; subst hx; exact M_pair_left him
    · intro j hlt x hx
      have hlt2 : j < w.nS := by simpa [h1S] using hlt
      rcases link_closure h1i h1a h1s hm j x hx with hM | hM
      · exact ⟨Or.inl ⟨hlt2, hM⟩, by simpa [h1n] using hsc j hlt2 x hM⟩
      · exact ⟨Or.inr (Or.inl hM), by simpa [h1n] using hlt' x hM⟩
  unfold World.link at h
  cases hmt : w.imols (w.strs t).imol with
  | chem tph trow =>
    cases hms : w.imols (w.strs s).imol with
    | mat qs sa => simp [hmt, hms] at h
    | chem sph srow =>
      simp only [hmt, hms] at h
      split at h
      · cases h
      · cases h
        apply key
        intro x hx
        have hc := mem_fp_chem hmt; have hcs := mem_fp_chem hms
        simp [World.fpImol] at hx
        rcases hx with rfl | rfl | rfl
        · exact M_pair_left him
        · cases p
          · exact M_pair_left hc.1
          · exact M_pair_right hcs.1
        · cases f
          · exact M_pair_left hc.2
          · exact M_pair_right hcs.2
  | mat ps ta =>
    cases hms : w.imols (w.strs s).imol with
    | chem sph srow => simp [hmt, hms] at h
    | mat qs sa =>
      simp only [hmt, hms] at h
      split at h
      · cases h
      · cases h
        apply key
        intro x hx
        have hc := mem_fp_mat hmt; have hcs := mem_fp_mat hms
        simp [World.fpImol, h1a] at hx
        cases f
        · simp at hx
          rcases hx with rfl | rfl | hx
          · exact M_pair_left him
          · exact M_pair_left hc.1
          · exact M_pair_left (hc.2 x hx)
        · simp at hx
          rcases hx with rfl | rfl | hx
          · exact M_pair_left him
          · exact M_pair_right hcs.1
          · exact M_pair_right (hcs.2 x hx)



/-! constructor -/

theorem writes_ctor (w : World) (a : Args) (w' : World) (i : Nat) (h : w.ctor a = .ok (w', i)) :
    Writes w w' none' none' ∧ i = w.nS ∧ w'.nS = w.nS + 1 ∧ ∀ x ∈ w'.fp w.nS, w.next ≤ x ∧ x < w'.next := by
  have hf : a.flowsOk = true := by
    cases hf : a.flowsOk with
    | true => rfl
    | false => simp [World.ctor, hf] at h
  cases hm : a.multi with
  | true =>
    simp only [World.ctor, hf, hm, Bool.not_true, Bool.false_eq_true, if_false, if_true, Except.ok.injEq,
      Prod.mk.injEq] at h
    obtain ⟨rfl, rfl⟩ := h
    refine ⟨(writes_newCf w _).of_none.seq ((writes_newTc _ _).of_none.seq ((writes_newRows _ _).of_none.seq
      ((writes_newArr _ _).of_none.seq ((writes_newImol _ _).of_none.seq (writes_pushStr _ _).of_none)))),
      by simp, by simp, ?_⟩
    intro x hx
    simp [World.fp, World.fpImol, newRows_ids] at hx ⊢
    omega
  | false =>
    simp only [World.ctor, hf, hm, Bool.not_true, Bool.false_eq_true, if_false, Except.ok.injEq,
      Prod.mk.injEq] at h
    obtain ⟨rfl, rfl⟩ := h
    refine ⟨(writes_newCf w _).of_none.seq ((writes_newTc _ _).of_none.seq ((writes_newPh _ _).of_none.seq
      ((writes_newRow _ _).of_none.seq ((writes_newImol _ _).of_none.seq (writes_pushStr _ _).of_none)))),
      by simp, by simp, ?_⟩
    intro x hx
    simp [World.fp, World.fpImol] at hx ⊢
    omega

theorem spec_ctor (w : World) (a : Args) (w' : World) (i : Nat) (hsc : Scoped w)
    (h : w.ctor a = .ok (w', i)) : OpSpec w [] w' := by
  obtain ⟨hw, _, hn, hf⟩ := writes_ctor w a w' i h
  exact spec_of_fresh hsc (by simp) hw hn (fun x hx => ⟨Or.inr (hf x hx).1, (hf x hx).2⟩)


/-! blank indexers -/

structure BlankSpec (w : World) (w' : World) (im : Nat) (ps : List Ph) : Prop where
  writes : Writes w w' none' none'
  strs : w'.strs = w.strs
  nS : w'.nS = w.nS
  tcs : w'.tcs = w.tcs
  cfs : w'.cfs = w.cfs
  fresh : ∀ x ∈ w'.fpImol im, w.next ≤ x ∧ x < w'.next
  phases : w'.phasesOf im = ps
  rowIds : ∃ n, w.next ≤ n ∧ w'.rowIdsOf im = List.range' n ps.length
  flows : (w'.rowIdsOf im).map w'.rows = ps.map fun _ => Row.zero

theorem blankChem_spec (w : World) (p : Ph) : BlankSpec w (w.blankChem p).1 (w.blankChem p).2 [p] := by
  unfold World.blankChem
  refine ⟨(writes_newPh w _).of_none.seq ((writes_newRow _ _).of_none.seq (writes_newImol _ _).of_none),
    rfl, rfl, rfl, rfl, ?_, ?_, ?_, ?_⟩
  · intro x hx; simp [World.fpImol] at hx ⊢; omega
  · simp [World.phasesOf]
  · exact ⟨w.next + 1, by omega, by simp [World.rowIdsOf]⟩
  · simp [World.rowIdsOf]

theorem blankMat_spec (w : World) (ps : List Ph) : BlankSpec w (w.blankMat ps).1 (w.blankMat ps).2 ps := by
  unfold World.blankMat
  refine ⟨(writes_newRows w _).of_none.seq ((writes_newArr _ _).of_none.seq (writes_newImol _ _).of_none),
    by simp, by simp, by simp, by simp, ?_, ?_, ?_, ?_⟩
  · intro x hx; simp [World.fpImol, newRows_ids] at hx ⊢; omega
  · simp [World.phasesOf]
  · exact ⟨w.next, by omega, by simp [World.rowIdsOf, newRows_ids]⟩
  · simp [World.rowIdsOf]



theorem setRowsSeq_fields (l : List (Nat × Row)) : ∀ w : World,
    (w.setRowsSeq l).phs = w.phs ∧ (w.setRowsSeq l).tcs = w.tcs ∧ (w.setRowsSeq l).cfs = w.cfs ∧
    (w.setRowsSeq l).arrs = w.arrs ∧ (w.setRowsSeq l).imols = w.imols ∧ (w.setRowsSeq l).strs = w.strs ∧
    (w.setRowsSeq l).nS = w.nS ∧ (w.setRowsSeq l).next = w.next := by
  induction l with
  | nil => intro w; simp [World.setRowsSeq]
  | cons p ps ih =>
    intro w; obtain ⟨t, f⟩ := p
    simpa [World.setRowsSeq] using ih (w.setRow t f)

@[simp] theorem setRowsSeq_phs (w : World) (l) : (w.setRowsSeq l).phs = w.phs := (setRowsSeq_fields l w).1
@[simp] theorem setRowsSeq_tcs (w : World) (l) : (w.setRowsSeq l).tcs = w.tcs := (setRowsSeq_fields l w).2.1
@[simp] theorem setRowsSeq_cfs (w : World) (l) : (w.setRowsSeq l).cfs = w.cfs := (setRowsSeq_fields l w).2.2.1
@[simp] theorem setRowsSeq_arrs (w : World) (l) : (w.setRowsSeq l).arrs = w.arrs := (setRowsSeq_fields l w).2.2.2.1
@[simp] theorem setRowsSeq_imols (w : World) (l) : (w.setRowsSeq l).imols = w.imols :=
  (setRowsSeq_fields l w).2.2.2.2.1
@[simp] theorem setRowsSeq_strs (w : World) (l) : (w.setRowsSeq l).strs = w.strs :=
  (setRowsSeq_fields l w).2.2.2.2.2.1
@[simp] theorem setRowsSeq_nS (w : World) (l) : (w.setRowsSeq l).nS = w.nS := (setRowsSeq_fields l w).2.2.2.2.2.2.1
@[simp] theorem setRowsSeq_next (w : World) (l) : (w.setRowsSeq l).next = w.next :=
  (setRowsSeq_fields l w).2.2.2.2.2.2.2

theorem writes_setRowsSeq (l : List (Nat × Row)) :
    ∀ w : World, Writes w (w.setRowsSeq l) (· ∈ l.map Prod.fst) none' := by
  induction l with
  | nil => intro w; exact Writes.refl _ _ _
  | cons p ps ih =>
    intro w
    obtain ⟨t, f⟩ := p
    refine Writes.trans (W := (· ∈ ((t, f) :: ps).map Prod.fst))
      ((writes_setRow w t f).mono ?_ (fun _ _ h => h)) (ih _) ?_ (fun _ _ h => h)
    · intro x _ h; simp [h]
    · intro x _ h; simp at h ⊢; exact Or.inr h

/-- rows not among the targets keep their content -/
theorem setRowsSeq_other (l : List (Nat × Row)) : ∀ (w : World) (x : Nat), x ∉ l.map Prod.fst →
    (w.setRowsSeq l).rows x = w.rows x := by
  induction l with
  | nil => intro w x _; rfl
  | cons p ps ih =>
    intro w x hx
    obtain ⟨t, f⟩ := p
    simp at hx
    simp only [World.setRowsSeq]
    rw [ih _ x (by simpa using hx.2)]
    simp [upd_ne _ _ _ _ hx.1]

/-- reading back distinct rows after writing them -/
theorem setRowsSeq_read (ids : List Nat) : ∀ (fs : List Row) (w : World), ids.Nodup → ids.length = fs.length →
    ids.map (w.setRowsSeq (ids.zip fs)).rows = fs := by
  induction ids with
  | nil => intro fs w _ hl; cases fs <;> simp_all
  | cons i is ih =>
    intro fs w hnd hl
    cases fs with
    | nil => simp at hl
    | cons f fs =>
      simp at hl hnd
      simp only [List.zip_cons_cons, World.setRowsSeq, List.map_cons]
      rw [ih fs _ hnd.2 hl]
      congr 1
      rw [setRowsSeq_other]
      · simp
      · intro hmem
        simp at hmem
        obtain ⟨f', hm⟩ := hmem
        exact hnd.1 (List.of_mem_zip hm).1


/-- the phases of a pickled stream are a single label or a sorted duplicate-free tuple -/
def PArgs.wf (p : PArgs) : Prop :=
  p.data.flows.length = p.data.phases.length ∧ (p.data.phases.length = 1 ∨ normPh p.data.phases = p.data.phases)

/-- the phase tuple `self.phases = phases` produces -/
def canonPh : List Ph → List Ph
  | [q] => [q]
  | qs => normPh qs

theorem canonPh_of_wf (phases : List Ph) (h : phases.length = 1 ∨ normPh phases = phases) :
    canonPh phases = phases := by
  match phases, h with
  | [q], _ => rfl
  | [], h => rcases h with h | h; simp at h; simpa [canonPh] using h
  | q1 :: q2 :: r, h =>
    rcases h with h | h
    · simp at h
    · simpa [canonPh] using h

theorem rebuild_blank (w2 : World) (phases : List Ph) :
    BlankSpec w2 (w2.blankFor phases).1 (w2.blankFor phases).2 (canonPh phases) := by
  unfold World.blankFor canonPh
  match phases with
  | [q] => exact blankChem_spec w2 q
  | [] => exact blankMat_spec w2 _
  | q1 :: q2 :: r => exact blankMat_spec w2 _

theorem rebuildTail_spec (w w3 : World) (p : PArgs) (cf tc im pid : Nat) (ps : List Ph)
    (hW : Writes w w3 none' none') (hnS : w3.nS = w.nS) (hcfv : w3.cfs cf = p.cf)
    (hcf : w.next ≤ cf ∧ cf < w3.next) (htc : w.next ≤ tc ∧ tc < w3.next)
    (hfresh : ∀ x ∈ w3.fpImol im, w.next ≤ x ∧ x < w3.next)
    (hph : w3.phasesOf im = ps)
    (hrows : ∃ n, w.next ≤ n ∧ w3.rowIdsOf im = List.range' n ps.length) :
    Writes w (w3.rebuildTail p cf tc im pid).1 none' none' ∧ (w3.rebuildTail p cf tc im pid).2 = w.nS ∧
    (w3.rebuildTail p cf tc im pid).1.nS = w.nS + 1 ∧
    (∀ x ∈ (w3.rebuildTail p cf tc im pid).1.fp w.nS, w.next ≤ x ∧ x < (w3.rebuildTail p cf tc im pid).1.next) ∧
    (p.data.flows.length = ps.length →
     (w3.rebuildTail p cf tc im pid).1.observe w.nS =
      { phases := ps, flows := p.data.flows, T := p.data.T, P := p.data.P, price := p.price,
        cf := p.cf, sid := p.sid, pkg := p.pkg }) := by
  obtain ⟨n, hn, hrows⟩ := hrows
  have hnd : (w3.rowIdsOf im).Nodup := by rw [hrows]; exact List.nodup_range'
  refine ⟨?_, ?_, ?_, ?_, ?_⟩
  · unfold World.rebuildTail
    refine hW.seq (((writes_setRowsSeq _ _).mono ?_ (fun _ _ h => h.elim)).seq
      (((writes_setTc _ _ _).mono ?_ (fun _ _ h => h.elim)).seq (writes_pushStr _ _).of_none))
    · intro x _ hx h1
      simp at hx
      obtain ⟨f, hm⟩ := hx
      have := (List.of_mem_zip hm).1
      rw [hrows] at this
      have := mem_range'_lt this
      omega
    · intro x _ hx h1 h2
      subst hx; omega
  · simp [World.rebuildTail, hnS]
  · simp [World.rebuildTail, hnS]
  · intro x hx
    simp only [World.rebuildTail, World.fp] at hx ⊢
    simp [hnS] at hx ⊢
    rcases hx with rfl | rfl | hx
    · omega
    · omega
    · rw [fpImol_of_agree (w := w3) (by simp) (by simp)] at hx
      exact hfresh x hx
  · intro hl
    have hlen : (w3.rowIdsOf im).length = p.data.flows.length := by rw [hrows]; simp [hl]
    simp only [World.rebuildTail, World.observe]
    have h1 : ((w3.setRowsSeq ((w3.rowIdsOf im).zip p.data.flows)).setTc tc (p.data.T, p.data.P)).phasesOf im
        = w3.phasesOf im := by simp [World.phasesOf]
    have h2 : ((w3.setRowsSeq ((w3.rowIdsOf im).zip p.data.flows)).setTc tc (p.data.T, p.data.P)).rowIdsOf im
        = w3.rowIdsOf im := by simp [World.rowIdsOf]
    simp [hnS, World.phasesOf, World.rowIdsOf] at h1 h2 ⊢
    simp [World.phasesOf, World.rowIdsOf] at hph hnd hlen
    refine ⟨hph, ?_, hcfv⟩
    exact setRowsSeq_read _ _ _ hnd hlen

theorem rebuild_spec (w : World) (p : PArgs) :
    Writes w (w.rebuild p).1 none' none' ∧ (w.rebuild p).2 = w.nS ∧ (w.rebuild p).1.nS = w.nS + 1 ∧
    (∀ x ∈ (w.rebuild p).1.fp w.nS, w.next ≤ x ∧ x < (w.rebuild p).1.next) ∧
    (p.wf → (w.rebuild p).1.observe w.nS =
      { phases := p.data.phases, flows := p.data.flows, T := p.data.T, P := p.data.P, price := p.price,
        cf := p.cf, sid := p.sid, pkg := p.pkg }) := by
  have hB := rebuild_blank ((w.newCf p.cf).1.newTc (defaultT, defaultP)).1 p.data.phases
  have hn := hB.writes.next
  simp at hn
  obtain ⟨n, hn', hrows⟩ := hB.rowIds
  simp at hn'
  have key := rebuildTail_spec w (((w.newCf p.cf).1.newTc (defaultT, defaultP)).1.blankFor p.data.phases).1 p
    w.next (w.next + 1) (((w.newCf p.cf).1.newTc (defaultT, defaultP)).1.blankFor p.data.phases).2
    (2 * w.next + 1) (canonPh p.data.phases)
    ((writes_newCf w _).of_none.seq ((writes_newTc _ _).of_none.seq hB.writes.of_none))
    (by rw [hB.nS]; simp) (by rw [hB.cfs]; simp) (by omega) (by omega)
    (by intro x hx; have := hB.fresh x hx; simp at this; omega) hB.phases ⟨n, by omega, hrows⟩
  unfold World.rebuild
  refine ⟨key.1, key.2.1, key.2.2.1, key.2.2.2.1, ?_⟩
  intro hp
  have hc := canonPh_of_wf _ hp.2
  have := key.2.2.2.2 (by rw [hc]; exact hp.1)
  rw [hc] at this
  exact this

/-- What an in-place change of the indexer object `tim` (its rows' contents, possibly its phase list
and the row list of its array) looks like from outside. -/
structure ImolUpd (w w1 : World) (tim : Nat) : Prop where
  writes : Writes w w1 (· ∈ w.fpImol tim) none'
  strs : w1.strs = w.strs
  nS : w1.nS = w.nS
  tcs : w1.tcs = w.tcs
  cfs : w1.cfs = w.cfs
  imols_ne : ∀ y, y ≠ tim → w1.imols y = w.imols y
  chem : ∀ ph r, w.imols tim = .chem ph r → w1.imols tim = .chem ph r ∧ w1.arrs = w.arrs
  mat : ∀ ps a, w.imols tim = .mat ps a → (∃ ps', w1.imols tim = .mat ps' a) ∧ (∀ y, y ≠ a → w1.arrs y = w.arrs y) ∧
    (∀ x ∈ w1.arrs a, x ∈ w.fpImol tim ∨ (w.next ≤ x ∧ x < w1.next))

theorem ImolUpd.refl (w : World) (tim : Nat) : ImolUpd w w tim :=
  ⟨Writes.refl _ _ _, rfl, rfl, rfl, rfl, fun _ _ => rfl, fun _ _ h => ⟨h, rfl⟩,
   fun ps a h => ⟨⟨ps, h⟩, fun _ _ => rfl, fun x hx => Or.inl (by simp [World.fpImol, h, hx])⟩⟩

/-- changing only row contents of rows of `tim` -/
theorem ImolUpd.of_rows {w w1 : World} {tim : Nat} (hw : Writes w w1 (· ∈ w.rowIdsOf tim) none')
    (_hphs : w1.phs = w.phs) (htcs : w1.tcs = w.tcs) (hcfs : w1.cfs = w.cfs) (harrs : w1.arrs = w.arrs)
    (himols : w1.imols = w.imols) (hstrs : w1.strs = w.strs) (hnS : w1.nS = w.nS) : ImolUpd w w1 tim := by
  refine ⟨hw.mono ?_ (fun _ _ h => h), hstrs, hnS, htcs, hcfs, fun _ _ => by rw [himols],
    fun _ _ h => ⟨by rw [himols]; exact h, harrs⟩,
    fun ps a h => ⟨⟨ps, by rw [himols]; exact h⟩, fun _ _ => by rw [harrs],
      fun x hx => Or.inl (by rw [harrs] at hx; simp [World.fpImol, h, hx])⟩⟩
  intro x _ hx
  unfold World.rowIdsOf at hx
  unfold World.fpImol
  cases hm : w.imols tim with
  | chem ph r => simp [hm] at hx ⊢; simp [hx]
  | mat ps a => simp [hm] at hx ⊢; simp [hx]

theorem ImolUpd.next_le {w w1 : World} {tim : Nat} (h : ImolUpd w w1 tim) : w.next ≤ w1.next := h.writes.next

/-- footprints of indexers after such a change -/
theorem ImolUpd.fpImol_sub {w w1 : World} {tim : Nat} (h : ImolUpd w w1 tim) (im : Nat) :
    ∀ x ∈ w1.fpImol im, x ∈ w.fpImol im ∨ x ∈ w.fpImol tim ∨ (w.next ≤ x ∧ x < w1.next) := by
  intro x hx
  by_cases him : im = tim
  · subst him
    cases hm : w.imols im with
    | chem ph r =>
      obtain ⟨h1, h2⟩ := h.chem ph r hm
      left
      simpa [World.fpImol, h1, hm] using hx
    | mat ps a =>
      obtain ⟨⟨ps', h1⟩, h2, h3⟩ := h.mat ps a hm
      simp [World.fpImol, h1] at hx
      rcases hx with rfl | rfl | hx
      · left; simp [World.fpImol]
      · left; simp [World.fpImol, hm]
      · rcases h3 x hx with h | h
        · left; exact h
        · right; right; exact h
  · have h1 := h.imols_ne im him
    cases hm : w.imols im with
    | chem ph r => left; simpa [World.fpImol, h1, hm] using hx
    | mat ps b =>
      simp [World.fpImol, h1, hm] at hx
      rcases hx with rfl | rfl | hx
      · left; simp [World.fpImol]
      · left; simp [World.fpImol, hm]
      · cases hmt : w.imols tim with
        | chem ph r =>
          left
          rw [(h.chem ph r hmt).2] at hx
          simp [World.fpImol, hm, hx]
        | mat ps' a =>
          obtain ⟨_, h2, h3⟩ := h.mat ps' a hmt
          by_cases hb : b = a
          · subst hb
            rcases h3 x hx with h | h
            · right; left; exact h
            · right; right; exact h
          · left
            rw [h2 b hb] at hx
            simp [World.fpImol, hm, hx]


theorem ImolUpd.trans {w w1 w2 : World} {tim : Nat} (h1 : ImolUpd w w1 tim) (h2 : ImolUpd w1 w2 tim) :
    ImolUpd w w2 tim := by
  have hsub : ∀ x, x ∈ w1.fpImol tim → x ∈ w.fpImol tim ∨ (w.next ≤ x ∧ x < w1.next) := by
    intro x hx
    rcases h1.fpImol_sub tim x hx with h | h | h
    · exact Or.inl h
    · exact Or.inl h
    · exact Or.inr h
  have hn1 := h1.next_le
  have hn2 := h2.next_le
  refine ⟨h1.writes.trans h2.writes ?_ (fun _ _ h => h), h2.strs.trans h1.strs, h2.nS.trans h1.nS,
    h2.tcs.trans h1.tcs, h2.cfs.trans h1.cfs, fun y hy => (h2.imols_ne y hy).trans (h1.imols_ne y hy), ?_, ?_⟩
  · intro x hx hx2
    rcases hsub x hx2 with h | h
    · exact h
    · omega
  · intro ph r hm
    obtain ⟨a1, a2⟩ := h1.chem ph r hm
    obtain ⟨b1, b2⟩ := h2.chem ph r a1
    exact ⟨b1, b2.trans a2⟩
  · intro ps a hm
    obtain ⟨⟨ps1, a1⟩, a2, a3⟩ := h1.mat ps a hm
    obtain ⟨⟨ps2, b1⟩, b2, b3⟩ := h2.mat ps1 a a1
    refine ⟨⟨ps2, b1⟩, fun y hy => (b2 y hy).trans (a2 y hy), ?_⟩
    intro x hx
    rcases b3 x hx with h | h
    · rcases hsub x h with h | h
      · exact Or.inl h
      · exact Or.inr ⟨h.1, by omega⟩
    · exact Or.inr ⟨by omega, h.2⟩

theorem imolUpd_setRow {w : World} {tim r : Nat} (f : Row) (hr : r ∈ w.rowIdsOf tim ∨ r = tim) :
    ImolUpd w (w.setRow r f) tim := by
  refine ⟨(writes_setRow w r f).mono ?_ (fun _ _ h => h), rfl, rfl, rfl, rfl, fun _ _ => rfl,
    fun _ _ h => ⟨h, rfl⟩, fun ps a h => ⟨⟨ps, h⟩, fun _ _ => rfl, fun x hx => Or.inl (by
      simp at hx; simp [World.fpImol, h, hx])⟩⟩
  intro x _ hx
  subst hx
  rcases hr with hr | hr
  · unfold World.rowIdsOf at hr
    unfold World.fpImol
    cases hm : w.imols tim with
    | chem ph r => simp [hm] at hr ⊢; simp [hr]
    | mat ps a => simp [hm] at hr ⊢; simp [hr]
  · subst hr; simp [World.fpImol]

theorem imolUpd_clearRows (w : World) (tim : Nat) : ImolUpd w (w.clearRows (w.rowIdsOf tim)) tim :=
  ImolUpd.of_rows (writes_clearRows _ w) (by simp) (by simp) (by simp) (by simp) (by simp) (by simp) (by simp)

theorem imolUpd_copyRowsSeq (w : World) (tim : Nat) (l : List (Nat × Nat)) (hl : ∀ p ∈ l, p.1 ∈ w.rowIdsOf tim) :
    ImolUpd w (w.copyRowsSeq l) tim := by
  refine ImolUpd.of_rows ((writes_copyRowsSeq l w).mono ?_ (fun _ _ h => h)) (by simp) (by simp) (by simp)
    (by simp) (by simp) (by simp) (by simp)
  intro x _ hx
  simp at hx
  obtain ⟨b, hb⟩ := hx
  exact hl _ hb

/-- `_expand_phases` -/
theorem imolUpd_expand (w : World) (tim : Nat) (other : List Ph) : ImolUpd w (w.expand tim other) tim := by
  unfold World.expand
  cases hm : w.imols tim with
  | chem ph r => exact ImolUpd.refl w tim
  | mat ps a =>
    simp only
    split
    · exact ImolUpd.refl w tim
    · refine ⟨?_, by simp, by simp, by simp, by simp, ?_, ?_, ?_⟩
      · refine (writes_newRows w _).of_none.seq (((writes_setArr _ _ _).mono ?_ (fun _ _ h => h.elim)).seq
          ((writes_setImol _ _ _).mono ?_ (fun _ _ h => h.elim)))
        · intro x _ hx _; subst hx; simp [World.fpImol, hm]
        · intro x _ hx _ _; subst hx; simp [World.fpImol]
      · intro y hy; simp [upd_ne _ _ _ _ hy]
      · intro ph r h; rw [hm] at h; cases h
      · intro ps' a' h
        rw [hm] at h
        cases h
        refine ⟨⟨normPh (ps ++ other), by simp⟩, fun y hy => by simp [upd_ne _ _ _ _ hy], ?_⟩
        intro x hx
        simp only [setImol_arrs, setArr_arrs, upd_same, List.mem_map] at hx
        obtain ⟨p, _, hx⟩ := hx
        subst hx
        have hfp : ∀ y, y = a ∨ y ∈ w.arrs a → y ∈ w.fpImol tim := by
          intro y hy; simp only [World.fpImol, hm]
          rcases hy with rfl | hy
          · simp
          · simp [hy]
        split
        · next i _ =>
          rcases List.getD_mem_or_eq (w.arrs a) i a with h | h
          · exact Or.inl (hfp _ (Or.inr h))
          · exact Or.inl (hfp _ (Or.inl h))
        · rcases List.getD_mem_or_eq (w.newRows (List.map (fun _ => Row.zero)
              (List.filter (fun p => !ps.contains p) (normPh other)))).2 ((List.idxOf?  p
              (List.filter (fun p => !ps.contains p) (normPh other))).getD 0) a with h | h
          · right
            have h' := h
            rw [newRows_ids] at h'
            have := mem_range'_lt h'
            simp only [newRows_next, setImol_next, setArr_next]
            rw [newRows_ids]
            exact this
          · exact Or.inl (hfp _ (Or.inl h))


theorem rowIdsOf_congr {w w1 : World} {im : Nat} (hi : w1.imols = w.imols) (ha : w1.arrs = w.arrs) :
    w1.rowIdsOf im = w.rowIdsOf im := by simp [World.rowIdsOf, hi, ha]

theorem imolUpd_assignByPhase (tim : Nat) (tps : List Ph) (trows : List Nat) (l : List (Ph × Nat)) :
    ∀ (w w' : World), (∀ r ∈ trows, r ∈ w.rowIdsOf tim) → w.assignByPhase tps trows tim l = .ok w' →
      ImolUpd w w' tim := by
  induction l with
  | nil => intro w w' _ h; cases h; exact ImolUpd.refl w tim
  | cons p l ih =>
    intro w w' htr h
    obtain ⟨q, sr⟩ := p
    simp only [World.assignByPhase] at h
    split at h
    · cases h
    · next k _ =>
      have h1 : ImolUpd w (w.setRow (trows.getD k tim) (w.rows sr)) tim := by
        apply imolUpd_setRow
        rcases List.getD_mem_or_eq trows k tim with h | h
        · exact Or.inl (htr _ h)
        · exact Or.inr h
      refine h1.trans (ih _ w' ?_ h)
      intro r hr
      rw [rowIdsOf_congr (w := w) (by simp) (by simp)]
      exact htr r hr

/-- `ChemicalIndexer.copy_like` writes the row and the phase container of the target only -/
theorem chemCopyLike_spec (w : World) (same : Bool) (tph trow : Nat) (tpkg : List Nat) (sr : Nat) (sp : Ph)
    (spkg : List Nat) (w' : World) (h : w.chemCopyLike same tph trow tpkg sr sp spkg = .ok w') :
    Writes w w' (fun x => x = trow ∨ x = tph) none' ∧ w'.imols = w.imols ∧ w'.arrs = w.arrs ∧
    w'.strs = w.strs ∧ w'.nS = w.nS ∧ w'.next = w.next ∧ w'.tcs = w.tcs ∧ w'.cfs = w.cfs := by
  unfold World.chemCopyLike at h
  split at h
  · cases h
    refine ⟨((writes_setRow w _ _).mono (fun _ _ h => Or.inl h) (fun _ _ h => h)).seq
      ((writes_setPh _ _ _).mono (fun _ _ h _ => Or.inr h) (fun _ _ h => h.elim)), ?_⟩
    simp
  · simp only at h
    split at h
    · cases h
      refine ⟨((writes_setRow w _ _).mono (fun _ _ h => Or.inl h) (fun _ _ h => h)).seq
        (((writes_setRow _ _ _).mono (fun _ _ h _ => Or.inl h) (fun _ _ h => h.elim)).seq
        ((writes_setPh _ _ _).mono (fun _ _ h _ _ => Or.inr h) (fun _ _ h => h.elim))), ?_⟩
      simp
    · cases h

theorem matCopyFromChem_spec (w : World) (same : Bool) (tim : Nat) (tpkg : List Nat) (sr : Nat) (sp : Ph)
    (spkg : List Nat) (w' : World) (h : w.matCopyFromChem same tim tpkg sr sp spkg = .ok w') :
    ImolUpd w w' tim := by
  unfold World.matCopyFromChem at h
  simp only at h
  have h1 := imolUpd_clearRows w tim
  generalize w.clearRows (w.rowIdsOf tim) = w1 at h h1
  have h2 : ImolUpd w1 (if (phIdx (w1.phasesOf tim) sp).isNone then w1.expand tim [sp] else w1) tim := by
    split
    · exact imolUpd_expand w1 tim [sp]
    · exact ImolUpd.refl w1 tim
  generalize (if (phIdx (w1.phasesOf tim) sp).isNone then w1.expand tim [sp] else w1) = w2 at h h2
  split at h
  · cases h
  · next k _ =>
    split at h
    · cases h
      refine h1.trans (h2.trans (imolUpd_setRow _ ?_))
      rcases List.getD_mem_or_eq (w2.rowIdsOf tim) k tim with h | h
      · exact Or.inl h
      · exact Or.inr h
    · cases h

theorem matCopyFromMat_spec (w : World) (same : Bool) (tim : Nat) (tpkg : List Nat) (sim : Nat)
    (spkg : List Nat) (w' : World) (h : w.matCopyFromMat same tim tpkg sim spkg = .ok w') :
    ImolUpd w w' tim := by
  unfold World.matCopyFromMat at h
  split at h
  · cases h; exact ImolUpd.refl w tim
  · simp only at h
    split at h
    · split at h
      · cases h
        apply imolUpd_copyRowsSeq
        intro p hp
        exact (List.of_mem_zip hp).1
      · have h1 := imolUpd_clearRows w tim
        generalize w.clearRows (w.rowIdsOf tim) = w1 at h h1
        split at h
        · cases h
          refine h1.trans (imolUpd_copyRowsSeq _ _ _ ?_)
          intro p hp
          exact (List.of_mem_zip hp).1
        · cases h
    · have h0 : ImolUpd w (if compatPh (w.phasesOf tim) (w.phasesOf sim) then w else w.expand tim (w.phasesOf sim)) tim := by
        split
        · exact ImolUpd.refl w tim
        · exact imolUpd_expand w tim _
      generalize (if compatPh (w.phasesOf tim) (w.phasesOf sim) then w else w.expand tim (w.phasesOf sim)) = w1 at h h0
      have h1 := imolUpd_clearRows w1 tim
      generalize hw2 : w1.clearRows (w1.rowIdsOf tim) = w2 at h h1
      split at h
      · refine h0.trans (h1.trans (imolUpd_assignByPhase tim _ _ _ w2 w' (fun r hr => hr) h))
      · cases h



theorem ofExcept_bind_ok (x : Except Err World) (f : World → World) (w' : World)
    (h : Res.ofExcept (do let w1 ← x; pure (f w1)) = Res.ok w') : ∃ w1, x = .ok w1 ∧ w' = f w1 := by
  cases x with
  | error e => simp [Res.ofExcept, bind, Except.bind] at h
  | ok w1 =>
    simp [Res.ofExcept, bind, Except.bind, pure, Except.pure] at h
    exact ⟨w1, rfl, h.symm⟩

/-- the final `ThermalCondition.copy_like` -/
theorem writes_tcCopyLike (w : World) (t s : Nat) : Writes w (w.tcCopyLike t s) (· = (w.strs t).tc) none' :=
  writes_setTc w _ _

/-- closure for the target and the source after an in-place change of the target's indexer -/
theorem closure_imolUpd {w w1 : World} {t s : Nat} (hsc : Scoped w) (ht : t < w.nS) (hs : s < w.nS)
    (h : ImolUpd w w1 (w.strs t).imol) :
    OpSpec w [t, s] (w1.tcCopyLike t s) := by
  have hMlt : ∀ y, w.M [t, s] y → y < w.next := by
    rintro y ⟨k, hk, hy⟩
    simp at hk
    rcases hk with rfl | rfl
    · exact hsc _ ht y hy
    · exact hsc _ hs y hy
  constructor
  · refine (h.writes.mono ?_ (fun _ _ h => h.elim)).seq ((writes_tcCopyLike w1 t s).mono ?_ (fun _ _ h => h.elim))
    · intro x _ hx; exact M_pair_left (by simp [World.fp, hx])
    · intro x _ hx _; subst hx; rw [h.strs]; exact M_pair_left (mem_fp_tc w t)
  · intro j hlt x hx
    have hnS : (w1.tcCopyLike t s).nS = w.nS := by simp [World.tcCopyLike, h.nS]
    have hlt2 : j < w.nS := by omega
    have hnext : (w1.tcCopyLike t s).next = w1.next := by simp [World.tcCopyLike]
    simp only [World.fp, World.tcCopyLike, setTc_strs, h.strs, List.mem_cons] at hx
    have key : x ∈ w.fp j ∨ w.M [t, s] x ∨ (w.next ≤ x ∧ x < w1.next) := by
      rcases hx with rfl | rfl | hx
      · exact Or.inl (mem_fp_tc w j)
      · exact Or.inl (mem_fp_cf w j)
      · rw [fpImol_of_agree (w := w1) (by simp) (by simp)] at hx
        rcases h.fpImol_sub _ x hx with h | h | h
        · exact Or.inl (by simp [World.fp, h])
        · exact Or.inr (Or.inl (M_pair_left (by simp [World.fp, h])))
        · exact Or.inr (Or.inr h)
    rcases key with hM | hM | hf
    · exact ⟨Or.inl ⟨hlt2, hM⟩, by rw [hnext]; exact Nat.lt_of_lt_of_le (hsc j hlt2 x hM) h.next_le⟩
    · exact ⟨Or.inr (Or.inl hM), by rw [hnext]; exact Nat.lt_of_lt_of_le (hMlt x hM) h.next_le⟩
    · exact ⟨Or.inr (Or.inr hf.1), by rw [hnext]; exact hf.2⟩


theorem ImolUpd.of_struct {w w1 : World} {tim : Nat} (hw : Writes w w1 (· ∈ w.fpImol tim) none')
    (himols : w1.imols = w.imols) (harrs : w1.arrs = w.arrs) (hstrs : w1.strs = w.strs) (hnS : w1.nS = w.nS)
    (htcs : w1.tcs = w.tcs) (hcfs : w1.cfs = w.cfs) : ImolUpd w w1 tim :=
  ⟨hw, hstrs, hnS, htcs, hcfs, fun _ _ => by rw [himols], fun _ _ h => ⟨by rw [himols]; exact h, harrs⟩,
   fun ps a h => ⟨⟨ps, by rw [himols]; exact h⟩, fun _ _ => by rw [harrs],
     fun x hx => Or.inl (by rw [harrs] at hx; simp [World.fpImol, h, hx])⟩⟩

theorem imolUpd_chemCopyLike {w : World} {tim tph trow : Nat} (hm : w.imols tim = .chem tph trow)
    (same : Bool) (tpkg : List Nat) (sr : Nat) (sp : Ph) (spkg : List Nat) (w' : World)
    (h : w.chemCopyLike same tph trow tpkg sr sp spkg = .ok w') : ImolUpd w w' tim := by
  obtain ⟨hw, h1, h2, h3, h4, _, h6, h7⟩ := chemCopyLike_spec w same tph trow tpkg sr sp spkg w' h
  refine ImolUpd.of_struct (hw.mono ?_ (fun _ _ h => h)) h1 h2 h3 h4 h6 h7
  intro x _ hx
  simp only [World.fpImol, hm]
  rcases hx with rfl | rfl <;> simp

theorem spec_copyLike (w : World) (t s : Nat) (w' : World) (hsc : Scoped w) (ht : t < w.nS) (hs : s < w.nS)
    (h : w.copyLike t s = .ok w') : OpSpec w [t, s] w' := by
  unfold World.copyLike at h
  simp only at h
  split at h
  · cases h
  · cases hmt : w.imols (w.strs t).imol with
    | chem tph trow =>
      cases hms : w.imols (w.strs s).imol with
      | chem sph srow =>
        simp only [hmt, hms] at h
        split at h
        · cases h
          exact closure_imolUpd hsc ht hs (ImolUpd.refl _ _)
        · obtain ⟨w1, h1, rfl⟩ := ofExcept_bind_ok _ _ _ h
          exact closure_imolUpd hsc ht hs (imolUpd_chemCopyLike hmt _ _ _ _ _ _ h1)
      | mat qs sa =>
        simp only [hmt, hms] at h
        split at h
        · next q =>
          -- one-phase MultiStream source
          obtain ⟨w1, h1, rfl⟩ := ofExcept_bind_ok _ _ _ h
          have h0 : ImolUpd w (w.setPh tph q) (w.strs t).imol :=
            ImolUpd.of_struct ((writes_setPh w tph q).mono (by
              intro x _ hx; subst hx; simp [World.fpImol, hmt]) (fun _ _ h => h)) rfl rfl rfl rfl rfl rfl
          have hmt' : (w.setPh tph q).imols (w.strs t).imol = .chem tph trow := by simpa using hmt
          exact closure_imolUpd hsc ht hs (h0.trans (imolUpd_chemCopyLike hmt' _ _ _ _ _ _ h1))
        · -- the target becomes a MultiStream
          obtain ⟨w3, h3, rfl⟩ := ofExcept_bind_ok _ _ _ h
          have hB := blankMat_spec w (normPh qs)
          generalize hb : w.blankMat (normPh qs) = b at h3 hB
          obtain ⟨w1, im⟩ := b
          simp only at h3 hB
          have hU := matCopyFromMat_spec _ _ _ _ _ _ _ h3
          have hts : t ≠ s := by intro h; subst h; rw [hmt] at hms; cases hms
          have hnext1 := hB.writes.next
          have hfresh2 : ∀ x ∈ (w1.setStr t { w.strs t with imol := im }).fpImol im, w.next ≤ x ∧ x < w1.next := by
            intro x hx
            rw [fpImol_of_agree (w := w1) (by simp) (by simp)] at hx
            exact hB.fresh x hx
          have hstr3 : w3.strs = upd w.strs t { w.strs t with imol := im } := by rw [hU.strs]; simp [hB.strs]
          constructor
          · refine hB.writes.of_none.seq (((writes_setStr _ t _).mono (fun _ _ h => h.elim)
              (fun i _ h => by intros; simp [h])).seq ((hU.writes.mono ?_ (fun _ _ h => h.elim)).seq
              ((writes_tcCopyLike w3 t s).mono ?_ (fun _ _ h => h.elim))))
            · intro x _ hx _ h2
              have := (hfresh2 x hx).1
              omega
            · intro x _ hx _ _ _
              subst hx
              rw [hstr3]; simp
              exact M_pair_left (mem_fp_tc w t)
          · intro j hlt x hx
            have hnS : (w3.tcCopyLike t s).nS = w.nS := by simp [World.tcCopyLike, hU.nS, hB.nS]
            have hnext : (w3.tcCopyLike t s).next = w3.next := by simp [World.tcCopyLike]
            have hn3 : w1.next ≤ w3.next := by simpa using hU.next_le
            have hlt2 : j < w.nS := by omega
            rw [hnext]
            simp only [World.fp, World.tcCopyLike, setTc_strs, hstr3, List.mem_cons] at hx
            by_cases hjt : j = t
            · -- the target: its indexer is new
              subst hjt
              simp only [upd_same] at hx
              rcases hx with rfl | rfl | hx
              · exact ⟨Or.inr (Or.inl (M_pair_left (mem_fp_tc w j))), by have := hsc j ht _ (mem_fp_tc w j); omega⟩
              · exact ⟨Or.inr (Or.inl (M_pair_left (mem_fp_cf w j))), by have := hsc j ht _ (mem_fp_cf w j); omega⟩
              · rw [fpImol_of_agree (w := w3) (by simp) (by simp)] at hx
                rcases hU.fpImol_sub im x hx with h | h | h
                · have := hfresh2 x h; exact ⟨Or.inr (Or.inr this.1), by omega⟩
                · have := hfresh2 x h; exact ⟨Or.inr (Or.inr this.1), by omega⟩
                · simp at h; exact ⟨Or.inr (Or.inr (by omega)), h.2⟩
            · -- any other stream: untouched
              simp only [upd_ne _ _ _ _ hjt] at hx
              have hold : ∀ y ∈ w.fp j, (j < w.nS ∧ y ∈ w.fp j) ∧ y < w3.next := by
                intro y hy
                exact ⟨⟨hlt2, hy⟩, by have := hsc j hlt2 y hy; omega⟩
              have hs := hlt2
              rcases hx with rfl | rfl | hx
              · exact ⟨Or.inl (hold _ (mem_fp_tc w j)).1, (hold _ (mem_fp_tc w j)).2⟩
              · exact ⟨Or.inl (hold _ (mem_fp_cf w j)).1, (hold _ (mem_fp_cf w j)).2⟩
              · rw [fpImol_of_agree (w := w3) (by simp) (by simp)] at hx
                rcases hU.fpImol_sub (w.strs j).imol x hx with h | h | h
                · -- objects of the source in the world with the blank indexer: the same as before
                  have hsame : (w1.setStr t { w.strs t with imol := im }).fpImol (w.strs j).imol
                      = w.fpImol (w.strs j).imol := by
                    rw [fpImol_of_agree (w := w1) (by simp) (by simp)]
                    have hi := hsc j hs _ (mem_fp_imol w j)
                    apply fpImol_congr
                    · exact (hB.writes.agree _ hi (fun h => h)).2.2.2.2.2
                    · intro ps a hm
                      exact (hB.writes.agree _ (hsc j hs a (mem_fp_mat hm).1) (fun h => h)).2.2.2.2.1
                  rw [hsame] at h
                  have := hold x (by simp [World.fp, h])
                  exact ⟨Or.inl this.1, this.2⟩
                · have := hfresh2 x h; exact ⟨Or.inr (Or.inr this.1), by omega⟩
                · simp at h; exact ⟨Or.inr (Or.inr (by omega)), h.2⟩
    | mat ps ta =>
      cases hms : w.imols (w.strs s).imol with
      | chem sph srow =>
        simp only [hmt, hms] at h
        obtain ⟨w1, h1, rfl⟩ := ofExcept_bind_ok _ _ _ h
        exact closure_imolUpd hsc ht hs (matCopyFromChem_spec _ _ _ _ _ _ _ _ h1)
      | mat qs sa =>
        simp only [hmt, hms] at h
        obtain ⟨w1, h1, rfl⟩ := ofExcept_bind_ok _ _ _ h
        exact closure_imolUpd hsc ht hs (matCopyFromMat_spec _ _ _ _ _ _ _ h1)



/-! ### every operation; histories -/

theorem spec_pickle (w : World) (s : Nat) (hsc : Scoped w) (hs : s < w.nS) : OpSpec w [s] (w.pickle s).1 := by
  obtain ⟨h1, _, h3, h4, _⟩ := rebuild_spec w (w.pickleArgs s)
  exact spec_of_fresh hsc (by simpa using hs) h1 h3 (fun x hx => ⟨Or.inr (h4 x hx).1, (h4 x hx).2⟩)

/-- Every operation writes only objects of the streams it mentions and keeps footprints closed. -/
theorem exec_spec (w : World) (op : Op) (w' : World) (hsc : Scoped w) (hids : ∀ i ∈ op.ids, i < w.nS)
    (h : w.exec op = .ok w') : OpSpec w op.ids w' := by
  cases op with
  | new a =>
    simp only [World.exec] at h
    cases hc : w.ctor a with
    | error e => simp [hc, Res.ofExcept] at h
    | ok p =>
      simp [hc, Res.ofExcept] at h
      subst h
      exact spec_ctor w a p.1 p.2 hsc hc
  | setFlow s p c v =>
    simp only [World.exec] at h
    cases hc : w.setFlow s p c v with
    | error e => simp [hc, Res.ofExcept] at h
    | ok w1 =>
      simp [hc, Res.ofExcept] at h
      subst h
      exact spec_setFlow w s p c v w1 hsc (hids s (by simp [Op.ids])) hc
  | setT s v => simp only [World.exec] at h; cases h; exact spec_setT w s v hsc (hids s (by simp [Op.ids]))
  | setP s v => simp only [World.exec] at h; cases h; exact spec_setP w s v hsc (hids s (by simp [Op.ids]))
  | setPhase s p => simp only [World.exec] at h; cases h; exact spec_setPhase w s p hsc (hids s (by simp [Op.ids]))
  | empty s => simp only [World.exec] at h; cases h; exact spec_empty w s hsc (hids s (by simp [Op.ids]))
  | setPrice s v => simp only [World.exec] at h; cases h; exact spec_setPrice w s v hsc (hids s (by simp [Op.ids]))
  | setCF s k v => simp only [World.exec] at h; cases h; exact spec_setCF w s k v hsc (hids s (by simp [Op.ids]))
  | copy s => simp only [World.exec] at h; cases h; exact spec_copy w s hsc (hids s (by simp [Op.ids]))
  | copyLike t s =>
    simp only [World.exec] at h
    exact spec_copyLike w t s w' hsc (hids t (by simp [Op.ids])) (hids s (by simp [Op.ids])) h
  | copyTC t s =>
    simp only [World.exec] at h; cases h
    exact spec_copyTC w t s hsc (hids t (by simp [Op.ids])) (hids s (by simp [Op.ids]))
  | link t s f p tp =>
    simp only [World.exec] at h
    exact spec_link w t s f p tp w' hsc (hids t (by simp [Op.ids])) (hids s (by simp [Op.ids])) h
  | unlink s => simp only [World.exec] at h; cases h; exact spec_unlink w s hsc (hids s (by simp [Op.ids]))
  | proxy s => simp only [World.exec] at h; cases h; exact spec_proxy w s hsc (hids s (by simp [Op.ids]))
  | flowProxy s => simp only [World.exec] at h; cases h; exact spec_flowProxy w s hsc (hids s (by simp [Op.ids]))
  | pickle s => simp only [World.exec] at h; cases h; exact spec_pickle w s hsc (hids s (by simp [Op.ids]))

theorem step_spec (w : World) (op : Op) (w' : World) (hsc : Scoped w) (h : w.step op = .ok w') :
    OpSpec w op.ids w' ∧ ∀ i ∈ op.ids, i < w.nS := by
  unfold World.step at h
  split at h
  · rename_i hall
    have hids : ∀ i ∈ op.ids, i < w.nS := by simpa using hall
    exact ⟨exec_spec w op w' hsc hids h, hids⟩
  · cases h


theorem scoped_init : Scoped World.init := by
  intro i hi; simp [World.init] at hi

theorem scoped_step (w : World) (op : Op) (w' : World) (hsc : Scoped w) (h : w.step op = .ok w') :
    Scoped w' := by
  obtain ⟨hs, _⟩ := step_spec w op w' hsc h
  intro j hj x hx
  exact (hs.closure j hj x hx).2

theorem scoped_run (ops : List Op) : ∀ w : World, Scoped w → Scoped (w.run ops) := by
  induction ops with
  | nil => intro w h; exact h
  | cons op ops ih =>
    intro w h
    simp only [World.run]
    cases hst : w.step op with
    | ok w' => exact ih w' (scoped_step w op w' h hst)
    | skip => exact ih w h
    | err e => exact h

/-- Frame: an operation does not change a stream that it does not mention and that shares no
object with the streams it mentions. -/
theorem frame_step (w : World) (op : Op) (w' : World) (hsc : Scoped w) (h : w.step op = .ok w')
    (j : Nat) (hj : j < w.nS) (hni : j ∉ op.ids) (hd : ∀ i ∈ op.ids, ∀ x ∈ w.fp j, x ∉ w.fp i) :
    w'.fp j = w.fp j ∧ w'.observe j = w.observe j := by
  obtain ⟨hs, _⟩ := step_spec w op w' hsc h
  apply frame_of_writes hsc hs.writes j hj hni
  rintro x hx ⟨i, hi, hxi⟩
  exact hd i hi x hx hxi

/-- two groups of streams (sides `true` / `false`) that share no object -/
def Sep (w : World) (σ : Nat → Bool) : Prop :=
  ∀ i j, i < w.nS → j < w.nS → σ i ≠ σ j → ∀ x ∈ w.fp i, x ∉ w.fp j

/-- the sides after an operation acting on side `X`: streams it creates join that side -/
def sideStep (w : World) (σ : Nat → Bool) (X : Bool) : Nat → Bool := fun i => if i < w.nS then σ i else X

/-- An operation that mentions streams of one side only keeps the two sides separate and is
invisible on the other side. -/
theorem sep_step (w : World) (σ : Nat → Bool) (op : Op) (X : Bool) (w' : World) (hsc : Scoped w)
    (hsep : Sep w σ) (hside : ∀ i ∈ op.ids, σ i = X) (h : w.step op = .ok w') :
    Sep w' (sideStep w σ X) ∧ ∀ j, j < w.nS → σ j ≠ X → w'.fp j = w.fp j ∧ w'.observe j = w.observe j := by
  obtain ⟨hs, hids⟩ := step_spec w op w' hsc h
  have hframe : ∀ j, j < w.nS → σ j ≠ X → w'.fp j = w.fp j ∧ w'.observe j = w.observe j := by
    intro j hj hσ
    apply frame_step w op w' hsc h j hj
    · intro hmem; exact hσ (hside j hmem)
    · intro i hi x hx
      exact hsep j i hj (hids i hi) (by rw [hside i hi]; exact hσ) x hx
  refine ⟨?_, hframe⟩
  -- one direction, then symmetry
  have key : ∀ i j, i < w'.nS → j < w'.nS → sideStep w σ X i = X → sideStep w σ X j ≠ X →
      ∀ x ∈ w'.fp i, x ∉ w'.fp j := by
    intro i j hi hj hσi hσj x hxi hxj
    have hjold : j < w.nS := by
      by_cases hlt : j < w.nS
      · exact hlt
      · simp [sideStep, hlt] at hσj
    have hσj' : σ j ≠ X := by simpa [sideStep, hjold] using hσj
    rw [(hframe j hjold hσj').1] at hxj
    have hxlt := hsc j hjold x hxj
    rcases (hs.closure i hi x hxi).1 with ⟨hiold, hx⟩ | ⟨k, hk, hx⟩ | hfresh
    · have hσi' : σ i = X := by simpa [sideStep, hiold] using hσi
      exact hsep i j hiold hjold (by rw [hσi']; exact fun h => hσj' h.symm) x hx hxj
    · exact hsep k j (hids k hk) hjold (by rw [hside k hk]; exact fun h => hσj' h.symm) x hx hxj
    · omega
  intro i j hi hj hne x hxi hxj
  by_cases hσi : sideStep w σ X i = X
  · exact key i j hi hj hσi (fun h => hne (hσi.trans h.symm)) x hxi hxj
  · have hσj : sideStep w σ X j = X := by
      cases hX : X <;> cases h1 : sideStep w σ X i <;> cases h2 : sideStep w σ X j <;> simp_all
    exact key j i hj hi hσj hσi x hxj hxi

/-- A history whose operations are labelled with the side they act on. -/
def runSided (w : World) (σ : Nat → Bool) : List (Op × Bool) → World × (Nat → Bool)
  | [] => (w, σ)
  | (op, X) :: rest =>
    match w.step op with
    | .ok w' => runSided w' (sideStep w σ X) rest
    | .skip => runSided w σ rest
    | .err _ => (w, σ)

/-- every operation of the history mentions streams of its own side only (sides as they are when it runs) -/
def OneSided (w : World) (σ : Nat → Bool) : List (Op × Bool) → Prop
  | [] => True
  | (op, X) :: rest =>
    (∀ i ∈ op.ids, σ i = X) ∧
    match w.step op with
    | .ok w' => OneSided w' (sideStep w σ X) rest
    | .skip => OneSided w σ rest
    | .err _ => True

theorem runSided_world (l : List (Op × Bool)) : ∀ (w : World) (σ : Nat → Bool),
    (runSided w σ l).1 = w.run (l.map Prod.fst) := by
  induction l with
  | nil => intro w σ; rfl
  | cons p l ih =>
    intro w σ
    obtain ⟨op, X⟩ := p
    simp only [runSided, List.map_cons, World.run]
    cases w.step op with
    | ok w' => exact ih w' _
    | skip => exact ih w σ
    | err e => rfl

/-- Separation is kept along every one-sided history, and a stream never sees the operations
of the other side: if every operation of the history acts on the side opposite to stream `j`,
its observation (and footprint) at the end is what it was at the start. -/
theorem sep_run (l : List (Op × Bool)) : ∀ (w : World) (σ : Nat → Bool), Scoped w → Sep w σ → OneSided w σ l →
    Scoped (runSided w σ l).1 ∧ Sep (runSided w σ l).1 (runSided w σ l).2 ∧
    ∀ j, j < w.nS → (∀ p ∈ l, p.2 ≠ σ j) →
      (runSided w σ l).1.fp j = w.fp j ∧ (runSided w σ l).1.observe j = w.observe j := by
  induction l with
  | nil => intro w σ hsc hsep _; exact ⟨hsc, hsep, fun _ _ _ => ⟨rfl, rfl⟩⟩
  | cons p l ih =>
    intro w σ hsc hsep hone
    obtain ⟨op, X⟩ := p
    simp only [OneSided] at hone
    obtain ⟨hside, hrest⟩ := hone
    simp only [runSided]
    cases hst : w.step op with
    | ok w' =>
      rw [hst] at hrest
      simp only at hrest ⊢
      obtain ⟨hsep', hframe⟩ := sep_step w σ op X w' hsc hsep hside hst
      have hsc' := scoped_step w op w' hsc hst
      obtain ⟨a, b, c⟩ := ih w' (sideStep w σ X) hsc' hsep' hrest
      refine ⟨a, b, ?_⟩
      intro j hj hall
      have hX : σ j ≠ X := fun h => hall (op, X) (by simp) h.symm
      obtain ⟨f1, f2⟩ := hframe j hj hX
      have hnS : w.nS ≤ w'.nS := (step_spec w op w' hsc hst).1.writes.nS
      obtain ⟨g1, g2⟩ := c j (by omega) (by
        intro q hq
        have := hall q (by simp [hq])
        simpa [sideStep, hj] using this)
      exact ⟨g1.trans f1, g2.trans f2⟩
    | skip =>
      rw [hst] at hrest
      simp only at hrest ⊢
      obtain ⟨a, b, c⟩ := ih w σ hsc hsep hrest
      exact ⟨a, b, fun j hj hall => c j hj (fun q hq => hall q (by simp [hq]))⟩
    | err e =>
      exact ⟨hsc, hsep, fun _ _ _ => ⟨rfl, rfl⟩⟩


end ThermoVerif.Links
