import ThermoVerif.Model.Links
/-
Helper lemmas for C13: the store primitives of `ThermoVerif.Links`
(function update, allocation, footprints).
-/
namespace ThermoVerif.Links

@[simp] theorem upd_same {α : Type} (f : Nat → α) (i : Nat) (v : α) : upd f i v i = v := by
  simp [upd]

theorem upd_ne {α : Type} (f : Nat → α) (i : Nat) (v : α) (x : Nat) (h : x ≠ i) : upd f i v x = f x := by
  simp [upd, h]

@[simp] theorem upd_lt {α : Type} (f : Nat → α) (i : Nat) (v : α) (x : Nat) (h : x < i) : upd f i v x = f x := by
  apply upd_ne; omega

/-! ### projections of the primitives (all by `rfl`; generated) -/

@[simp] theorem newRow_snd (w : World) (r : Row) : (w.newRow r).2 = w.next := rfl
@[simp] theorem newRow_next (w : World) (r : Row) : (w.newRow r).1.next = w.next + 1 := rfl
@[simp] theorem newRow_nS (w : World) (r : Row) : (w.newRow r).1.nS = w.nS := rfl
@[simp] theorem newRow_strs (w : World) (r : Row) : (w.newRow r).1.strs = w.strs := rfl
@[simp] theorem newRow_rows (w : World) (r : Row) : (w.newRow r).1.rows = upd w.rows w.next r := rfl
@[simp] theorem newRow_phs (w : World) (r : Row) : (w.newRow r).1.phs = w.phs := rfl
@[simp] theorem newRow_tcs (w : World) (r : Row) : (w.newRow r).1.tcs = w.tcs := rfl
@[simp] theorem newRow_cfs (w : World) (r : Row) : (w.newRow r).1.cfs = w.cfs := rfl
@[simp] theorem newRow_arrs (w : World) (r : Row) : (w.newRow r).1.arrs = w.arrs := rfl
@[simp] theorem newRow_imols (w : World) (r : Row) : (w.newRow r).1.imols = w.imols := rfl
@[simp] theorem newPh_snd (w : World) (p : Ph) : (w.newPh p).2 = w.next := rfl
@[simp] theorem newPh_next (w : World) (p : Ph) : (w.newPh p).1.next = w.next + 1 := rfl
@[simp] theorem newPh_nS (w : World) (p : Ph) : (w.newPh p).1.nS = w.nS := rfl
@[simp] theorem newPh_strs (w : World) (p : Ph) : (w.newPh p).1.strs = w.strs := rfl
@[simp] theorem newPh_rows (w : World) (p : Ph) : (w.newPh p).1.rows = w.rows := rfl
@[simp] theorem newPh_phs (w : World) (p : Ph) : (w.newPh p).1.phs = upd w.phs w.next p := rfl
@[simp] theorem newPh_tcs (w : World) (p : Ph) : (w.newPh p).1.tcs = w.tcs := rfl
@[simp] theorem newPh_cfs (w : World) (p : Ph) : (w.newPh p).1.cfs = w.cfs := rfl
@[simp] theorem newPh_arrs (w : World) (p : Ph) : (w.newPh p).1.arrs = w.arrs := rfl
@[simp] theorem newPh_imols (w : World) (p : Ph) : (w.newPh p).1.imols = w.imols := rfl
@[simp] theorem newTc_snd (w : World) (v : Rat × Rat) : (w.newTc v).2 = w.next := rfl
@[simp] theorem newTc_next (w : World) (v : Rat × Rat) : (w.newTc v).1.next = w.next + 1 := rfl
@[simp] theorem newTc_nS (w : World) (v : Rat × Rat) : (w.newTc v).1.nS = w.nS := rfl
@[simp] theorem newTc_strs (w : World) (v : Rat × Rat) : (w.newTc v).1.strs = w.strs := rfl
@[simp] theorem newTc_rows (w : World) (v : Rat × Rat) : (w.newTc v).1.rows = w.rows := rfl
@[simp] theorem newTc_phs (w : World) (v : Rat × Rat) : (w.newTc v).1.phs = w.phs := rfl
@[simp] theorem newTc_tcs (w : World) (v : Rat × Rat) : (w.newTc v).1.tcs = upd w.tcs w.next v := rfl
@[simp] theorem newTc_cfs (w : World) (v : Rat × Rat) : (w.newTc v).1.cfs = w.cfs := rfl
@[simp] theorem newTc_arrs (w : World) (v : Rat × Rat) : (w.newTc v).1.arrs = w.arrs := rfl
@[simp] theorem newTc_imols (w : World) (v : Rat × Rat) : (w.newTc v).1.imols = w.imols := rfl
@[simp] theorem newCf_snd (w : World) (d : List (Nat × Rat)) : (w.newCf d).2 = w.next := rfl
@[simp] theorem newCf_next (w : World) (d : List (Nat × Rat)) : (w.newCf d).1.next = w.next + 1 := rfl
@[simp] theorem newCf_nS (w : World) (d : List (Nat × Rat)) : (w.newCf d).1.nS = w.nS := rfl
@[simp] theorem newCf_strs (w : World) (d : List (Nat × Rat)) : (w.newCf d).1.strs = w.strs := rfl
@[simp] theorem newCf_rows (w : World) (d : List (Nat × Rat)) : (w.newCf d).1.rows = w.rows := rfl
@[simp] theorem newCf_phs (w : World) (d : List (Nat × Rat)) : (w.newCf d).1.phs = w.phs := rfl
@[simp] theorem newCf_tcs (w : World) (d : List (Nat × Rat)) : (w.newCf d).1.tcs = w.tcs := rfl
@[simp] theorem newCf_cfs (w : World) (d : List (Nat × Rat)) : (w.newCf d).1.cfs = upd w.cfs w.next d := rfl
@[simp] theorem newCf_arrs (w : World) (d : List (Nat × Rat)) : (w.newCf d).1.arrs = w.arrs := rfl
@[simp] theorem newCf_imols (w : World) (d : List (Nat × Rat)) : (w.newCf d).1.imols = w.imols := rfl
@[simp] theorem newArr_snd (w : World) (l : List Nat) : (w.newArr l).2 = w.next := rfl
@[simp] theorem newArr_next (w : World) (l : List Nat) : (w.newArr l).1.next = w.next + 1 := rfl
@[simp] theorem newArr_nS (w : World) (l : List Nat) : (w.newArr l).1.nS = w.nS := rfl
@[simp] theorem newArr_strs (w : World) (l : List Nat) : (w.newArr l).1.strs = w.strs := rfl
@[simp] theorem newArr_rows (w : World) (l : List Nat) : (w.newArr l).1.rows = w.rows := rfl
@[simp] theorem newArr_phs (w : World) (l : List Nat) : (w.newArr l).1.phs = w.phs := rfl
@[simp] theorem newArr_tcs (w : World) (l : List Nat) : (w.newArr l).1.tcs = w.tcs := rfl
@[simp] theorem newArr_cfs (w : World) (l : List Nat) : (w.newArr l).1.cfs = w.cfs := rfl
@[simp] theorem newArr_arrs (w : World) (l : List Nat) : (w.newArr l).1.arrs = upd w.arrs w.next l := rfl
@[simp] theorem newArr_imols (w : World) (l : List Nat) : (w.newArr l).1.imols = w.imols := rfl
@[simp] theorem newImol_snd (w : World) (m : Imol) : (w.newImol m).2 = w.next := rfl
@[simp] theorem newImol_next (w : World) (m : Imol) : (w.newImol m).1.next = w.next + 1 := rfl
@[simp] theorem newImol_nS (w : World) (m : Imol) : (w.newImol m).1.nS = w.nS := rfl
@[simp] theorem newImol_strs (w : World) (m : Imol) : (w.newImol m).1.strs = w.strs := rfl
@[simp] theorem newImol_rows (w : World) (m : Imol) : (w.newImol m).1.rows = w.rows := rfl
@[simp] theorem newImol_phs (w : World) (m : Imol) : (w.newImol m).1.phs = w.phs := rfl
@[simp] theorem newImol_tcs (w : World) (m : Imol) : (w.newImol m).1.tcs = w.tcs := rfl
@[simp] theorem newImol_cfs (w : World) (m : Imol) : (w.newImol m).1.cfs = w.cfs := rfl
@[simp] theorem newImol_arrs (w : World) (m : Imol) : (w.newImol m).1.arrs = w.arrs := rfl
@[simp] theorem newImol_imols (w : World) (m : Imol) : (w.newImol m).1.imols = upd w.imols w.next m := rfl
@[simp] theorem setRow_next (w : World) (i : Nat) (r : Row) : (w.setRow i r).next = w.next := rfl
@[simp] theorem setRow_nS (w : World) (i : Nat) (r : Row) : (w.setRow i r).nS = w.nS := rfl
@[simp] theorem setRow_strs (w : World) (i : Nat) (r : Row) : (w.setRow i r).strs = w.strs := rfl
@[simp] theorem setRow_rows (w : World) (i : Nat) (r : Row) : (w.setRow i r).rows = upd w.rows i r := rfl
@[simp] theorem setRow_phs (w : World) (i : Nat) (r : Row) : (w.setRow i r).phs = w.phs := rfl
@[simp] theorem setRow_tcs (w : World) (i : Nat) (r : Row) : (w.setRow i r).tcs = w.tcs := rfl
@[simp] theorem setRow_cfs (w : World) (i : Nat) (r : Row) : (w.setRow i r).cfs = w.cfs := rfl
@[simp] theorem setRow_arrs (w : World) (i : Nat) (r : Row) : (w.setRow i r).arrs = w.arrs := rfl
@[simp] theorem setRow_imols (w : World) (i : Nat) (r : Row) : (w.setRow i r).imols = w.imols := rfl
@[simp] theorem setPh_next (w : World) (i : Nat) (p : Ph) : (w.setPh i p).next = w.next := rfl
@[simp] theorem setPh_nS (w : World) (i : Nat) (p : Ph) : (w.setPh i p).nS = w.nS := rfl
@[simp] theorem setPh_strs (w : World) (i : Nat) (p : Ph) : (w.setPh i p).strs = w.strs := rfl
@[simp] theorem setPh_rows (w : World) (i : Nat) (p : Ph) : (w.setPh i p).rows = w.rows := rfl
@[simp] theorem setPh_phs (w : World) (i : Nat) (p : Ph) : (w.setPh i p).phs = upd w.phs i p := rfl
@[simp] theorem setPh_tcs (w : World) (i : Nat) (p : Ph) : (w.setPh i p).tcs = w.tcs := rfl
@[simp] theorem setPh_cfs (w : World) (i : Nat) (p : Ph) : (w.setPh i p).cfs = w.cfs := rfl
@[simp] theorem setPh_arrs (w : World) (i : Nat) (p : Ph) : (w.setPh i p).arrs = w.arrs := rfl
@[simp] theorem setPh_imols (w : World) (i : Nat) (p : Ph) : (w.setPh i p).imols = w.imols := rfl
@[simp] theorem setTc_next (w : World) (i : Nat) (v : Rat × Rat) : (w.setTc i v).next = w.next := rfl
@[simp] theorem setTc_nS (w : World) (i : Nat) (v : Rat × Rat) : (w.setTc i v).nS = w.nS := rfl
@[simp] theorem setTc_strs (w : World) (i : Nat) (v : Rat × Rat) : (w.setTc i v).strs = w.strs := rfl
@[simp] theorem setTc_rows (w : World) (i : Nat) (v : Rat × Rat) : (w.setTc i v).rows = w.rows := rfl
@[simp] theorem setTc_phs (w : World) (i : Nat) (v : Rat × Rat) : (w.setTc i v).phs = w.phs := rfl
@[simp] theorem setTc_tcs (w : World) (i : Nat) (v : Rat × Rat) : (w.setTc i v).tcs = upd w.tcs i v := rfl
@[simp] theorem setTc_cfs (w : World) (i : Nat) (v : Rat × Rat) : (w.setTc i v).cfs = w.cfs := rfl
@[simp] theorem setTc_arrs (w : World) (i : Nat) (v : Rat × Rat) : (w.setTc i v).arrs = w.arrs := rfl
@[simp] theorem setTc_imols (w : World) (i : Nat) (v : Rat × Rat) : (w.setTc i v).imols = w.imols := rfl
@[simp] theorem setCf_next (w : World) (i : Nat) (d : List (Nat × Rat)) : (w.setCf i d).next = w.next := rfl
@[simp] theorem setCf_nS (w : World) (i : Nat) (d : List (Nat × Rat)) : (w.setCf i d).nS = w.nS := rfl
@[simp] theorem setCf_strs (w : World) (i : Nat) (d : List (Nat × Rat)) : (w.setCf i d).strs = w.strs := rfl
@[simp] theorem setCf_rows (w : World) (i : Nat) (d : List (Nat × Rat)) : (w.setCf i d).rows = w.rows := rfl
@[simp] theorem setCf_phs (w : World) (i : Nat) (d : List (Nat × Rat)) : (w.setCf i d).phs = w.phs := rfl
@[simp] theorem setCf_tcs (w : World) (i : Nat) (d : List (Nat × Rat)) : (w.setCf i d).tcs = w.tcs := rfl
@[simp] theorem setCf_cfs (w : World) (i : Nat) (d : List (Nat × Rat)) : (w.setCf i d).cfs = upd w.cfs i d := rfl
@[simp] theorem setCf_arrs (w : World) (i : Nat) (d : List (Nat × Rat)) : (w.setCf i d).arrs = w.arrs := rfl
@[simp] theorem setCf_imols (w : World) (i : Nat) (d : List (Nat × Rat)) : (w.setCf i d).imols = w.imols := rfl
@[simp] theorem setArr_next (w : World) (i : Nat) (l : List Nat) : (w.setArr i l).next = w.next := rfl
@[simp] theorem setArr_nS (w : World) (i : Nat) (l : List Nat) : (w.setArr i l).nS = w.nS := rfl
@[simp] theorem setArr_strs (w : World) (i : Nat) (l : List Nat) : (w.setArr i l).strs = w.strs := rfl
@[simp] theorem setArr_rows (w : World) (i : Nat) (l : List Nat) : (w.setArr i l).rows = w.rows := rfl
@[simp] theorem setArr_phs (w : World) (i : Nat) (l : List Nat) : (w.setArr i l).phs = w.phs := rfl
@[simp] theorem setArr_tcs (w : World) (i : Nat) (l : List Nat) : (w.setArr i l).tcs = w.tcs := rfl
@[simp] theorem setArr_cfs (w : World) (i : Nat) (l : List Nat) : (w.setArr i l).cfs = w.cfs := rfl
@[simp] theorem setArr_arrs (w : World) (i : Nat) (l : List Nat) : (w.setArr i l).arrs = upd w.arrs i l := rfl
@[simp] theorem setArr_imols (w : World) (i : Nat) (l : List Nat) : (w.setArr i l).imols = w.imols := rfl
@[simp] theorem setImol_next (w : World) (i : Nat) (m : Imol) : (w.setImol i m).next = w.next := rfl
@[simp] theorem setImol_nS (w : World) (i : Nat) (m : Imol) : (w.setImol i m).nS = w.nS := rfl
@[simp] theorem setImol_strs (w : World) (i : Nat) (m : Imol) : (w.setImol i m).strs = w.strs := rfl
@[simp] theorem setImol_rows (w : World) (i : Nat) (m : Imol) : (w.setImol i m).rows = w.rows := rfl
@[simp] theorem setImol_phs (w : World) (i : Nat) (m : Imol) : (w.setImol i m).phs = w.phs := rfl
@[simp] theorem setImol_tcs (w : World) (i : Nat) (m : Imol) : (w.setImol i m).tcs = w.tcs := rfl
@[simp] theorem setImol_cfs (w : World) (i : Nat) (m : Imol) : (w.setImol i m).cfs = w.cfs := rfl
@[simp] theorem setImol_arrs (w : World) (i : Nat) (m : Imol) : (w.setImol i m).arrs = w.arrs := rfl
@[simp] theorem setImol_imols (w : World) (i : Nat) (m : Imol) : (w.setImol i m).imols = upd w.imols i m := rfl
@[simp] theorem setStr_next (w : World) (i : Nat) (s : Stream) : (w.setStr i s).next = w.next := rfl
@[simp] theorem setStr_nS (w : World) (i : Nat) (s : Stream) : (w.setStr i s).nS = w.nS := rfl
@[simp] theorem setStr_strs (w : World) (i : Nat) (s : Stream) : (w.setStr i s).strs = upd w.strs i s := rfl
@[simp] theorem setStr_rows (w : World) (i : Nat) (s : Stream) : (w.setStr i s).rows = w.rows := rfl
@[simp] theorem setStr_phs (w : World) (i : Nat) (s : Stream) : (w.setStr i s).phs = w.phs := rfl
@[simp] theorem setStr_tcs (w : World) (i : Nat) (s : Stream) : (w.setStr i s).tcs = w.tcs := rfl
@[simp] theorem setStr_cfs (w : World) (i : Nat) (s : Stream) : (w.setStr i s).cfs = w.cfs := rfl
@[simp] theorem setStr_arrs (w : World) (i : Nat) (s : Stream) : (w.setStr i s).arrs = w.arrs := rfl
@[simp] theorem setStr_imols (w : World) (i : Nat) (s : Stream) : (w.setStr i s).imols = w.imols := rfl
@[simp] theorem pushStr_snd (w : World) (s : Stream) : (w.pushStr s).2 = w.nS := rfl
@[simp] theorem pushStr_next (w : World) (s : Stream) : (w.pushStr s).1.next = w.next := rfl
@[simp] theorem pushStr_nS (w : World) (s : Stream) : (w.pushStr s).1.nS = w.nS + 1 := rfl
@[simp] theorem pushStr_strs (w : World) (s : Stream) : (w.pushStr s).1.strs = upd w.strs w.nS s := rfl
@[simp] theorem pushStr_rows (w : World) (s : Stream) : (w.pushStr s).1.rows = w.rows := rfl
@[simp] theorem pushStr_phs (w : World) (s : Stream) : (w.pushStr s).1.phs = w.phs := rfl
@[simp] theorem pushStr_tcs (w : World) (s : Stream) : (w.pushStr s).1.tcs = w.tcs := rfl
@[simp] theorem pushStr_cfs (w : World) (s : Stream) : (w.pushStr s).1.cfs = w.cfs := rfl
@[simp] theorem pushStr_arrs (w : World) (s : Stream) : (w.pushStr s).1.arrs = w.arrs := rfl
@[simp] theorem pushStr_imols (w : World) (s : Stream) : (w.pushStr s).1.imols = w.imols := rfl

/-! ### allocation of several rows -/

/-- What differs between a world and a later one in which only *new* row objects were created. -/
structure RowsExt (w w' : World) (n : Nat) : Prop where
  next : w'.next = w.next + n
  phs : w'.phs = w.phs
  tcs : w'.tcs = w.tcs
  cfs : w'.cfs = w.cfs
  arrs : w'.arrs = w.arrs
  imols : w'.imols = w.imols
  strs : w'.strs = w.strs
  nS : w'.nS = w.nS
  old : ∀ x, x < w.next → w'.rows x = w.rows x

theorem newRows_ext (vals : List Row) : ∀ w : World, RowsExt w (w.newRows vals).1 vals.length := by
  induction vals with
  | nil => intro w; exact ⟨rfl, rfl, rfl, rfl, rfl, rfl, rfl, rfl, fun _ _ => rfl⟩
  | cons r rs ih =>
    intro w
    have h := ih (w.newRow r).1
    simp only [World.newRows]
    constructor
    · rw [h.next]; simp [World.newRow]; omega
    · rw [h.phs]; rfl
    · rw [h.tcs]; rfl
    · rw [h.cfs]; rfl
    · rw [h.arrs]; rfl
    · rw [h.imols]; rfl
    · rw [h.strs]; rfl
    · rw [h.nS]; rfl
    · intro x hx
      rw [h.old x (by simp [World.newRow]; omega)]
      simp [World.newRow, upd_ne _ _ _ _ (Nat.ne_of_lt hx)]

theorem newRows_ids (vals : List Row) : ∀ w : World, (w.newRows vals).2 = List.range' w.next vals.length := by
  induction vals with
  | nil => intro w; rfl
  | cons r rs ih =>
    intro w
    simp only [World.newRows, List.length_cons, List.range'_succ]
    rw [ih]; rfl

/-- reading the new rows back gives the contents they were created with -/
theorem newRows_read (vals : List Row) : ∀ w : World,
    (w.newRows vals).2.map (w.newRows vals).1.rows = vals := by
  induction vals with
  | nil => intro w; rfl
  | cons r rs ih =>
    intro w
    simp only [World.newRows, List.map_cons]
    rw [ih]
    congr 1
    have h := newRows_ext rs (w.newRow r).1
    have h2 : (w.newRow r).2 = w.next := rfl
    rw [h2, h.old w.next (by simp [World.newRow])]
    simp [World.newRow]

attribute [simp] newRows_read

@[simp] theorem newRows_next (w : World) (v : List Row) : (w.newRows v).1.next = w.next + v.length :=
  (newRows_ext v w).next
@[simp] theorem newRows_phs (w : World) (v : List Row) : (w.newRows v).1.phs = w.phs := (newRows_ext v w).phs
@[simp] theorem newRows_tcs (w : World) (v : List Row) : (w.newRows v).1.tcs = w.tcs := (newRows_ext v w).tcs
@[simp] theorem newRows_cfs (w : World) (v : List Row) : (w.newRows v).1.cfs = w.cfs := (newRows_ext v w).cfs
@[simp] theorem newRows_arrs (w : World) (v : List Row) : (w.newRows v).1.arrs = w.arrs := (newRows_ext v w).arrs
@[simp] theorem newRows_imols (w : World) (v : List Row) : (w.newRows v).1.imols = w.imols :=
  (newRows_ext v w).imols
@[simp] theorem newRows_strs (w : World) (v : List Row) : (w.newRows v).1.strs = w.strs := (newRows_ext v w).strs
@[simp] theorem newRows_nS (w : World) (v : List Row) : (w.newRows v).1.nS = w.nS := (newRows_ext v w).nS
theorem newRows_old (w : World) (v : List Row) (x : Nat) (h : x < w.next) : (w.newRows v).1.rows x = w.rows x :=
  (newRows_ext v w).old x h

theorem List.getD_mem_or_eq {α : Type} (l : List α) (k : Nat) (d : α) : l.getD k d ∈ l ∨ l.getD k d = d := by
  rw [List.getD_eq_getElem?_getD]
  cases h : l[k]? with
  | none => right; rfl
  | some v => left; simp; exact List.mem_of_getElem? h

theorem mem_range'_lt {a n x : Nat} (h : x ∈ List.range' a n) : a ≤ x ∧ x < a + n := by
  simp [List.mem_range'_1] at h; omega

/-! ### footprints -/

/-- every object id a stream refers to -/
def World.fpImol (w : World) (im : Nat) : List Nat :=
  im :: (match w.imols im with
    | .chem ph r => [ph, r]
    | .mat _ a => a :: w.arrs a)

def World.fp (w : World) (i : Nat) : List Nat :=
  (w.strs i).tc :: (w.strs i).cf :: w.fpImol (w.strs i).imol

/-- every stream refers to allocated objects only -/
def Scoped (w : World) : Prop := ∀ i, i < w.nS → ∀ x ∈ w.fp i, x < w.next


/-! ### which objects an operation may write -/

/-- the six maps agree at id `x` -/
def AgreeAt (w w' : World) (x : Nat) : Prop :=
  w'.rows x = w.rows x ∧ w'.phs x = w.phs x ∧ w'.tcs x = w.tcs x ∧ w'.cfs x = w.cfs x ∧
  w'.arrs x = w.arrs x ∧ w'.imols x = w.imols x

theorem AgreeAt.rfl' (w : World) (x : Nat) : AgreeAt w w x := ⟨rfl, rfl, rfl, rfl, rfl, rfl⟩

theorem AgreeAt.trans {w w1 w2 : World} {x : Nat} (h1 : AgreeAt w w1 x) (h2 : AgreeAt w1 w2 x) :
    AgreeAt w w2 x :=
  ⟨h2.1.trans h1.1, h2.2.1.trans h1.2.1, h2.2.2.1.trans h1.2.2.1, h2.2.2.2.1.trans h1.2.2.2.1,
   h2.2.2.2.2.1.trans h1.2.2.2.2.1, h2.2.2.2.2.2.trans h1.2.2.2.2.2⟩

/-- `w'` is `w` after an operation that wrote, among the objects that existed (`< w.next`),
only those in `W`, and, among the stream objects that existed, only the slots of those in `Ws`. -/
structure Writes (w w' : World) (W : Nat → Prop) (Ws : Nat → Prop) : Prop where
  next : w.next ≤ w'.next
  agree : ∀ x, x < w.next → ¬ W x → AgreeAt w w' x
  nS : w.nS ≤ w'.nS
  strs : ∀ i, i < w.nS → ¬ Ws i → w'.strs i = w.strs i

theorem Writes.refl (w : World) (W Ws : Nat → Prop) : Writes w w W Ws :=
  ⟨Nat.le_refl _, fun x _ _ => AgreeAt.rfl' w x, Nat.le_refl _, fun _ _ _ => rfl⟩

theorem Writes.trans {w w1 w2 : World} {W W2 Ws Ws2 : Nat → Prop} (h1 : Writes w w1 W Ws)
    (h2 : Writes w1 w2 W2 Ws2) (hsub : ∀ x, x < w.next → W2 x → W x)
    (hsubs : ∀ i, i < w.nS → Ws2 i → Ws i) : Writes w w2 W Ws := by
  refine ⟨Nat.le_trans h1.next h2.next, ?_, Nat.le_trans h1.nS h2.nS, ?_⟩
  · intro x hx hW
    exact (h1.agree x hx hW).trans (h2.agree x (Nat.lt_of_lt_of_le hx h1.next) (fun h => hW (hsub x hx h)))
  · intro i hi hW
    rw [h2.strs i (Nat.lt_of_lt_of_le hi h1.nS) (fun h => hW (hsubs i hi h)), h1.strs i hi hW]

theorem Writes.mono {w w' : World} {W W' Ws Ws' : Nat → Prop} (h : Writes w w' W Ws)
    (hsub : ∀ x, x < w.next → W x → W' x) (hsubs : ∀ i, i < w.nS → Ws i → Ws' i) : Writes w w' W' Ws' :=
  ⟨h.next, fun x hx hW => h.agree x hx (fun h' => hW (hsub x hx h')), h.nS,
   fun i hi hW => h.strs i hi (fun h' => hW (hsubs i hi h'))⟩

def none' : Nat → Prop := fun _ => False

/-- sequencing: the second step may write new objects (`≥ w.next`) freely -/
theorem Writes.seq {w w1 w2 : World} {W Ws : Nat → Prop} (h1 : Writes w w1 W Ws)
    (h2 : Writes w1 w2 (fun x => x < w.next → W x) (fun i => i < w.nS → Ws i)) : Writes w w2 W Ws :=
  h1.trans h2 (fun x hx h => h hx) (fun i hi h => h hi)

theorem Writes.of_none {w w' : World} {W Ws : Nat → Prop} (h : Writes w w' none' none') : Writes w w' W Ws :=
  h.mono (fun _ _ h => h.elim) (fun _ _ h => h.elim)

section prim
variable (w : World)

theorem writes_setRow (i : Nat) (r : Row) : Writes w (w.setRow i r) (· = i) none' :=
  ⟨Nat.le_refl _, fun x _ hx => ⟨by simp [World.setRow, upd_ne _ _ _ _ hx], rfl, rfl, rfl, rfl, rfl⟩,
   Nat.le_refl _, fun _ _ _ => rfl⟩
theorem writes_setPh (i : Nat) (p : Ph) : Writes w (w.setPh i p) (· = i) none' :=
  ⟨Nat.le_refl _, fun x _ hx => ⟨rfl, by simp [World.setPh, upd_ne _ _ _ _ hx], rfl, rfl, rfl, rfl⟩,
   Nat.le_refl _, fun _ _ _ => rfl⟩
theorem writes_setTc (i : Nat) (v : Rat × Rat) : Writes w (w.setTc i v) (· = i) none' :=
  ⟨Nat.le_refl _, fun x _ hx => ⟨rfl, rfl, by simp [World.setTc, upd_ne _ _ _ _ hx], rfl, rfl, rfl⟩,
   Nat.le_refl _, fun _ _ _ => rfl⟩
theorem writes_setCf (i : Nat) (d : List (Nat × Rat)) : Writes w (w.setCf i d) (· = i) none' :=
  ⟨Nat.le_refl _, fun x _ hx => ⟨rfl, rfl, rfl, by simp [World.setCf, upd_ne _ _ _ _ hx], rfl, rfl⟩,
   Nat.le_refl _, fun _ _ _ => rfl⟩
theorem writes_setArr (i : Nat) (l : List Nat) : Writes w (w.setArr i l) (· = i) none' :=
  ⟨Nat.le_refl _, fun x _ hx => ⟨rfl, rfl, rfl, rfl, by simp [World.setArr, upd_ne _ _ _ _ hx], rfl⟩,
   Nat.le_refl _, fun _ _ _ => rfl⟩
theorem writes_setImol (i : Nat) (m : Imol) : Writes w (w.setImol i m) (· = i) none' :=
  ⟨Nat.le_refl _, fun x _ hx => ⟨rfl, rfl, rfl, rfl, rfl, by simp [World.setImol, upd_ne _ _ _ _ hx]⟩,
   Nat.le_refl _, fun _ _ _ => rfl⟩
theorem writes_setStr (i : Nat) (s : Stream) : Writes w (w.setStr i s) none' (· = i) :=
  ⟨Nat.le_refl _, fun x _ _ => AgreeAt.rfl' _ _, Nat.le_refl _,
   fun j _ hj => by simp [World.setStr, upd_ne _ _ _ _ hj]⟩

theorem writes_newRow (r : Row) : Writes w (w.newRow r).1 none' none' :=
  ⟨Nat.le_succ _, fun x hx _ => ⟨by simp [World.newRow, upd_lt _ _ _ _ hx], rfl, rfl, rfl, rfl, rfl⟩,
   Nat.le_refl _, fun _ _ _ => rfl⟩
theorem writes_newPh (p : Ph) : Writes w (w.newPh p).1 none' none' :=
  ⟨Nat.le_succ _, fun x hx _ => ⟨rfl, by simp [World.newPh, upd_lt _ _ _ _ hx], rfl, rfl, rfl, rfl⟩,
   Nat.le_refl _, fun _ _ _ => rfl⟩
theorem writes_newTc (v : Rat × Rat) : Writes w (w.newTc v).1 none' none' :=
  ⟨Nat.le_succ _, fun x hx _ => ⟨rfl, rfl, by simp [World.newTc, upd_lt _ _ _ _ hx], rfl, rfl, rfl⟩,
   Nat.le_refl _, fun _ _ _ => rfl⟩
theorem writes_newCf (d : List (Nat × Rat)) : Writes w (w.newCf d).1 none' none' :=
  ⟨Nat.le_succ _, fun x hx _ => ⟨rfl, rfl, rfl, by simp [World.newCf, upd_lt _ _ _ _ hx], rfl, rfl⟩,
   Nat.le_refl _, fun _ _ _ => rfl⟩
theorem writes_newArr (l : List Nat) : Writes w (w.newArr l).1 none' none' :=
  ⟨Nat.le_succ _, fun x hx _ => ⟨rfl, rfl, rfl, rfl, by simp [World.newArr, upd_lt _ _ _ _ hx], rfl⟩,
   Nat.le_refl _, fun _ _ _ => rfl⟩
theorem writes_newImol (m : Imol) : Writes w (w.newImol m).1 none' none' :=
  ⟨Nat.le_succ _, fun x hx _ => ⟨rfl, rfl, rfl, rfl, rfl, by simp [World.newImol, upd_lt _ _ _ _ hx]⟩,
   Nat.le_refl _, fun _ _ _ => rfl⟩
theorem writes_pushStr (s : Stream) : Writes w (w.pushStr s).1 none' none' :=
  ⟨Nat.le_refl _, fun x _ _ => AgreeAt.rfl' _ _, Nat.le_succ _,
   fun j hj _ => by simp [World.pushStr, upd_lt _ _ _ _ hj]⟩

theorem writes_newRows (v : List Row) : Writes w (w.newRows v).1 none' none' :=
  ⟨by simp, fun x hx _ => ⟨newRows_old w v x hx, by simp, by simp, by simp, by simp, by simp⟩,
   by simp, fun _ _ _ => by simp⟩

end prim

theorem writes_clearRows (l : List Nat) : ∀ w : World, Writes w (w.clearRows l) (· ∈ l) none' := by
  induction l with
  | nil => intro w; exact Writes.refl _ _ _
  | cons i is ih =>
    intro w
    refine Writes.trans (W := (· ∈ i :: is)) ((writes_setRow w i Row.zero).mono ?_ (fun _ _ h => h))
      (ih _) ?_ (fun _ _ h => h)
    · intro x _ h; simp [h]
    · intro x _ h; simp [h]

theorem writes_copyRowsSeq (l : List (Nat × Nat)) :
    ∀ w : World, Writes w (w.copyRowsSeq l) (· ∈ l.map Prod.fst) none' := by
  induction l with
  | nil => intro w; exact Writes.refl _ _ _
  | cons p ps ih =>
    intro w
    obtain ⟨t, s⟩ := p
    refine Writes.trans (W := (· ∈ ((t, s) :: ps).map Prod.fst))
      ((writes_setRow w t (w.rows s)).mono ?_ (fun _ _ h => h)) (ih _) ?_ (fun _ _ h => h)
    · intro x _ h; simp [h]
    · intro x _ h; simp at h ⊢; exact Or.inr h


/-! ### footprints are determined by the structure maps -/

theorem fpImol_congr {w w' : World} {im : Nat} (hi : w'.imols im = w.imols im)
    (ha : ∀ ps a, w.imols im = .mat ps a → w'.arrs a = w.arrs a) : w'.fpImol im = w.fpImol im := by
  unfold World.fpImol
  rw [hi]
  cases h : w.imols im with
  | chem ph r => rfl
  | mat ps a => simp [ha ps a h]

theorem fp_congr {w w' : World} {i : Nat} (hs : w'.strs i = w.strs i)
    (hi : w'.imols (w.strs i).imol = w.imols (w.strs i).imol)
    (ha : ∀ ps a, w.imols (w.strs i).imol = .mat ps a → w'.arrs a = w.arrs a) : w'.fp i = w.fp i := by
  unfold World.fp
  rw [hs, fpImol_congr hi ha]

theorem mem_fp_imol (w : World) (i : Nat) : (w.strs i).imol ∈ w.fp i := by simp [World.fp, World.fpImol]
theorem mem_fp_tc (w : World) (i : Nat) : (w.strs i).tc ∈ w.fp i := by simp [World.fp]
theorem mem_fp_cf (w : World) (i : Nat) : (w.strs i).cf ∈ w.fp i := by simp [World.fp]
theorem mem_fp_chem {w : World} {i ph r : Nat} (h : w.imols (w.strs i).imol = .chem ph r) :
    ph ∈ w.fp i ∧ r ∈ w.fp i := by simp [World.fp, World.fpImol, h]
theorem mem_fp_mat {w : World} {i a : Nat} {ps : List Ph} (h : w.imols (w.strs i).imol = .mat ps a) :
    a ∈ w.fp i ∧ ∀ r ∈ w.arrs a, r ∈ w.fp i := by
  simp [World.fp, World.fpImol, h]; intro r hr; simp [hr]
theorem mem_fp_rowIds {w : World} {i r : Nat} (h : r ∈ w.rowIdsOf (w.strs i).imol) : r ∈ w.fp i := by
  unfold World.rowIdsOf at h
  cases hm : w.imols (w.strs i).imol with
  | chem ph r' => simp [hm] at h; subst h; exact (mem_fp_chem hm).2
  | mat ps a => simp [hm] at h; exact (mem_fp_mat hm).2 r h

/-- agreement on the footprint of stream `i` (and on its slots) gives the same footprint and observation -/
theorem observe_congr {w w' : World} {i : Nat} (hs : w'.strs i = w.strs i)
    (h : ∀ x ∈ w.fp i, AgreeAt w w' x) : w'.fp i = w.fp i ∧ w'.observe i = w.observe i := by
  have him := h _ (mem_fp_imol w i)
  have hfp : w'.fp i = w.fp i := by
    apply fp_congr hs him.2.2.2.2.2
    intro ps a hm
    exact (h a (mem_fp_mat hm).1).2.2.2.2.1
  refine ⟨hfp, ?_⟩
  unfold World.observe
  rw [hs]
  have htc := (h _ (mem_fp_tc w i)).2.2.1
  have hcf := (h _ (mem_fp_cf w i)).2.2.2.1
  have hph : w'.phasesOf (w.strs i).imol = w.phasesOf (w.strs i).imol := by
    unfold World.phasesOf
    rw [him.2.2.2.2.2]
    cases hm : w.imols (w.strs i).imol with
    | chem ph r => simp [(h ph (mem_fp_chem hm).1).2.1]
    | mat ps a => rfl
  have hri : w'.rowIdsOf (w.strs i).imol = w.rowIdsOf (w.strs i).imol := by
    unfold World.rowIdsOf
    rw [him.2.2.2.2.2]
    cases hm : w.imols (w.strs i).imol with
    | chem ph r => rfl
    | mat ps a => simp [(h a (mem_fp_mat hm).1).2.2.2.2.1]
  have hfl : (w'.rowIdsOf (w.strs i).imol).map w'.rows = (w.rowIdsOf (w.strs i).imol).map w.rows := by
    rw [hri]
    apply List.map_congr_left
    intro r hr
    exact (h r (mem_fp_rowIds hr)).1
  simp only [htc, hcf, hph, hfl]

/-- the footprints of the streams an operation mentions -/
def World.M (w : World) (ids : List Nat) : Nat → Prop := fun x => ∃ j ∈ ids, x ∈ w.fp j

/-- One operation, seen from outside: it writes only objects of the streams it mentions (and new
ones); afterwards the streams it mentions, and the streams it created, refer only to objects that
the mentioned streams referred to before, or to new ones. -/
structure OpSpec (w : World) (ids : List Nat) (w' : World) : Prop where
  writes : Writes w w' (w.M ids) (· ∈ ids)
  closure : ∀ j, j < w'.nS → ∀ x ∈ w'.fp j,
    ((j < w.nS ∧ x ∈ w.fp j) ∨ w.M ids x ∨ w.next ≤ x) ∧ x < w'.next

/-- closure for an operation that leaves the pointer structure alone -/
theorem closure_of_struct {w w' : World} {ids : List Nat} (hsc : Scoped w) (_hids : ∀ j ∈ ids, j < w.nS)
    (hn : w.next ≤ w'.next) (hnS : w'.nS = w.nS)
    (hfp : ∀ j, j < w.nS → w'.fp j = w.fp j) :
    ∀ j, j < w'.nS → ∀ x ∈ w'.fp j, ((j < w.nS ∧ x ∈ w.fp j) ∨ w.M ids x ∨ w.next ≤ x) ∧ x < w'.next := by
  intro j hlt x hx
  rw [hnS] at hlt
  rw [hfp j hlt] at hx
  exact ⟨Or.inl ⟨hlt, hx⟩, Nat.lt_of_lt_of_le (hsc j hlt x hx) hn⟩


/-! ### loops over rows leave everything but the row contents alone -/

theorem clearRows_fields (l : List Nat) : ∀ w : World,
    (w.clearRows l).phs = w.phs ∧ (w.clearRows l).tcs = w.tcs ∧ (w.clearRows l).cfs = w.cfs ∧
    (w.clearRows l).arrs = w.arrs ∧ (w.clearRows l).imols = w.imols ∧ (w.clearRows l).strs = w.strs ∧
    (w.clearRows l).nS = w.nS ∧ (w.clearRows l).next = w.next := by
  induction l with
  | nil => intro w; simp [World.clearRows]
  | cons i is ih => intro w; simpa [World.clearRows, World.setRow] using ih (w.setRow i Row.zero)

@[simp] theorem clearRows_phs (w : World) (l : List Nat) : (w.clearRows l).phs = w.phs := (clearRows_fields l w).1
@[simp] theorem clearRows_tcs (w : World) (l : List Nat) : (w.clearRows l).tcs = w.tcs := (clearRows_fields l w).2.1
@[simp] theorem clearRows_cfs (w : World) (l : List Nat) : (w.clearRows l).cfs = w.cfs := (clearRows_fields l w).2.2.1
@[simp] theorem clearRows_arrs (w : World) (l : List Nat) : (w.clearRows l).arrs = w.arrs := (clearRows_fields l w).2.2.2.1
@[simp] theorem clearRows_imols (w : World) (l : List Nat) : (w.clearRows l).imols = w.imols :=
  (clearRows_fields l w).2.2.2.2.1
@[simp] theorem clearRows_strs (w : World) (l : List Nat) : (w.clearRows l).strs = w.strs :=
  (clearRows_fields l w).2.2.2.2.2.1
@[simp] theorem clearRows_nS (w : World) (l : List Nat) : (w.clearRows l).nS = w.nS :=
  (clearRows_fields l w).2.2.2.2.2.2.1
@[simp] theorem clearRows_next (w : World) (l : List Nat) : (w.clearRows l).next = w.next :=
  (clearRows_fields l w).2.2.2.2.2.2.2

theorem copyRowsSeq_fields (l : List (Nat × Nat)) : ∀ w : World,
    (w.copyRowsSeq l).phs = w.phs ∧ (w.copyRowsSeq l).tcs = w.tcs ∧ (w.copyRowsSeq l).cfs = w.cfs ∧
    (w.copyRowsSeq l).arrs = w.arrs ∧ (w.copyRowsSeq l).imols = w.imols ∧ (w.copyRowsSeq l).strs = w.strs ∧
    (w.copyRowsSeq l).nS = w.nS ∧ (w.copyRowsSeq l).next = w.next := by
  induction l with
  | nil => intro w; simp [World.copyRowsSeq]
  | cons p ps ih =>
    intro w; obtain ⟨t, s⟩ := p
    simpa [World.copyRowsSeq, World.setRow] using ih (w.setRow t (w.rows s))

@[simp] theorem copyRowsSeq_phs (w : World) (l) : (w.copyRowsSeq l).phs = w.phs := (copyRowsSeq_fields l w).1
@[simp] theorem copyRowsSeq_tcs (w : World) (l) : (w.copyRowsSeq l).tcs = w.tcs := (copyRowsSeq_fields l w).2.1
@[simp] theorem copyRowsSeq_cfs (w : World) (l) : (w.copyRowsSeq l).cfs = w.cfs := (copyRowsSeq_fields l w).2.2.1
@[simp] theorem copyRowsSeq_arrs (w : World) (l) : (w.copyRowsSeq l).arrs = w.arrs := (copyRowsSeq_fields l w).2.2.2.1
@[simp] theorem copyRowsSeq_imols (w : World) (l) : (w.copyRowsSeq l).imols = w.imols :=
  (copyRowsSeq_fields l w).2.2.2.2.1
@[simp] theorem copyRowsSeq_strs (w : World) (l) : (w.copyRowsSeq l).strs = w.strs :=
  (copyRowsSeq_fields l w).2.2.2.2.2.1
@[simp] theorem copyRowsSeq_nS (w : World) (l) : (w.copyRowsSeq l).nS = w.nS := (copyRowsSeq_fields l w).2.2.2.2.2.2.1
@[simp] theorem copyRowsSeq_next (w : World) (l) : (w.copyRowsSeq l).next = w.next :=
  (copyRowsSeq_fields l w).2.2.2.2.2.2.2

/-! ### specifications of the operations that leave the pointer structure alone -/

theorem M_single {w : World} {s x : Nat} (h : x ∈ w.fp s) : w.M [s] x := ⟨s, by simp, h⟩

theorem spec_setT (w : World) (s : Nat) (v : Rat) (hsc : Scoped w) (hs : s < w.nS) :
    OpSpec w [s] (w.setT s v) := by
  refine ⟨(writes_setTc w _ _).mono ?_ ?_, closure_of_struct hsc (by simpa using hs) (Nat.le_refl _) rfl ?_⟩
  · intro x _ hx; subst hx; exact M_single (mem_fp_tc w s)
  · intro i _ h; exact h.elim
  · intro j _; rfl

theorem spec_setP (w : World) (s : Nat) (v : Rat) (hsc : Scoped w) (hs : s < w.nS) :
    OpSpec w [s] (w.setP s v) := by
  refine ⟨(writes_setTc w _ _).mono ?_ ?_, closure_of_struct hsc (by simpa using hs) (Nat.le_refl _) rfl ?_⟩
  · intro x _ hx; subst hx; exact M_single (mem_fp_tc w s)
  · intro i _ h; exact h.elim
  · intro j _; rfl

theorem spec_setCF (w : World) (s k : Nat) (v : Rat) (hsc : Scoped w) (hs : s < w.nS) :
    OpSpec w [s] (w.setCF s k v) := by
  refine ⟨(writes_setCf w _ _).mono ?_ ?_, closure_of_struct hsc (by simpa using hs) (Nat.le_refl _) rfl ?_⟩
  · intro x _ hx; subst hx; exact M_single (mem_fp_cf w s)
  · intro i _ h; exact h.elim
  · intro j _; rfl

theorem spec_copyTC (w : World) (t s : Nat) (hsc : Scoped w) (ht : t < w.nS) (hs : s < w.nS) :
    OpSpec w [t, s] (w.copyTC t s) := by
  refine ⟨(writes_setTc w _ _).mono ?_ ?_, closure_of_struct hsc ?_ (Nat.le_refl _) rfl ?_⟩
  · intro x _ hx; subst hx; exact ⟨t, by simp, mem_fp_tc w t⟩
  · intro i _ h; exact h.elim
  · intro j hj; simp at hj; rcases hj with rfl | rfl <;> assumption
  · intro j _; rfl

theorem spec_empty (w : World) (s : Nat) (hsc : Scoped w) (hs : s < w.nS) : OpSpec w [s] (w.empty s) := by
  refine ⟨(writes_clearRows _ w).mono ?_ ?_, closure_of_struct hsc (by simpa using hs) (by simp [World.empty])
    (by simp [World.empty]) ?_⟩
  · intro x _ hx; exact M_single (mem_fp_rowIds hx)
  · intro i _ h; exact h.elim
  · intro j _; apply fp_congr <;> simp [World.empty]

theorem spec_setPrice (w : World) (s : Nat) (v : Rat) (hsc : Scoped w) (hs : s < w.nS) :
    OpSpec w [s] (w.setPrice s v) := by
  refine ⟨(writes_setStr w _ _).mono ?_ ?_, closure_of_struct hsc (by simpa using hs) (Nat.le_refl _) rfl ?_⟩
  · intro x _ h; exact h.elim
  · intro i _ h; simp [h]
  · intro j _
    by_cases hj : j = s
    · subst hj; simp [World.fp, World.fpImol, World.setPrice, World.setStr]
    · simp [World.fp, World.fpImol, World.setPrice, World.setStr, upd_ne _ _ _ _ hj]

theorem spec_setFlow (w : World) (s : Nat) (p : Ph) (c : Nat) (v : Rat) (w' : World) (hsc : Scoped w)
    (hs : s < w.nS) (h : w.setFlow s p c v = .ok w') : OpSpec w [s] w' := by
  unfold World.setFlow at h
  cases hm : w.imols (w.strs s).imol with
  | chem ph r =>
    simp only [hm] at h
    split at h
    · cases h
    · cases h
      refine ⟨(writes_setRow w _ _).mono ?_ ?_, closure_of_struct hsc (by simpa using hs) (Nat.le_refl _) rfl ?_⟩
      · intro x _ hx; subst hx; exact M_single (mem_fp_chem hm).2
      · intro i _ h; exact h.elim
      · intro j _; rfl
  | mat ps a =>
    simp only [hm] at h
    split at h
    · cases h
    · split at h
      · cases h
      · cases h
        refine ⟨(writes_setRow w _ _).mono ?_ ?_, closure_of_struct hsc (by simpa using hs) (Nat.le_refl _) rfl ?_⟩
        · intro x _ hx; subst hx
          rcases List.getD_mem_or_eq (w.arrs a) _ a with hmem | heq
          · exact M_single ((mem_fp_mat hm).2 _ hmem)
          · rw [heq]; exact M_single (mem_fp_mat hm).1
        · intro i _ h; exact h.elim
        · intro j _; rfl


/-! ### specifications of the operations that allocate -/

structure CopyImolSpec (w : World) (im : Nat) (w' : World) (im' : Nat) : Prop where
  writes : Writes w w' none' none'
  strs : w'.strs = w.strs
  nS : w'.nS = w.nS
  tcs : w'.tcs = w.tcs
  cfs : w'.cfs = w.cfs
  fresh : ∀ x ∈ w'.fpImol im', w.next ≤ x ∧ x < w'.next
  phases : w'.phasesOf im' = w.phasesOf im
  flows : (w'.rowIdsOf im').map w'.rows = (w.rowIdsOf im).map w.rows
  isMat : w'.isMat im' = w.isMat im

theorem copyImol_spec (w : World) (im : Nat) : CopyImolSpec w im (w.copyImol im).1 (w.copyImol im).2 := by
  unfold World.copyImol
  cases hm : w.imols im with
  | chem ph r =>
    simp only
    refine ⟨(writes_newPh w _).of_none.seq ((writes_newRow _ _).of_none.seq (writes_newImol _ _).of_none),
      rfl, rfl, rfl, rfl, ?_, ?_, ?_, ?_⟩
    · intro x hx
      simp [World.fpImol] at hx ⊢
      omega
    · simp [World.phasesOf, hm]
    · simp [World.rowIdsOf, hm]
    · simp [World.isMat, hm]
  | mat ps a =>
    simp only
    refine ⟨(writes_newRows w _).of_none.seq ((writes_newArr _ _).of_none.seq (writes_newImol _ _).of_none),
      by simp, by simp, by simp, by simp, ?_, ?_, ?_, ?_⟩
    · intro x hx
      simp [World.fpImol, newRows_ids] at hx ⊢
      omega
    · simp [World.phasesOf, hm]
    · simp [World.rowIdsOf, hm]
    · simp [World.isMat, hm]

@[simp] theorem copyImol_strs (w : World) (im : Nat) : (w.copyImol im).1.strs = w.strs := (copyImol_spec w im).strs
@[simp] theorem copyImol_nS (w : World) (im : Nat) : (w.copyImol im).1.nS = w.nS := (copyImol_spec w im).nS
@[simp] theorem copyImol_tcs (w : World) (im : Nat) : (w.copyImol im).1.tcs = w.tcs := (copyImol_spec w im).tcs
@[simp] theorem copyImol_cfs (w : World) (im : Nat) : (w.copyImol im).1.cfs = w.cfs := (copyImol_spec w im).cfs

theorem fpImol_of_agree {w w' : World} {im : Nat} (hi : w'.imols = w.imols) (ha : w'.arrs = w.arrs) :
    w'.fpImol im = w.fpImol im := by
  simp [World.fpImol, hi, ha]

theorem writes_copy (w : World) (s : Nat) : Writes w (w.copy s).1 none' none' := by
  simp only [World.copy]
  exact (writes_newCf w _).of_none.seq ((copyImol_spec _ _).writes.of_none.seq ((writes_newTc _ _).of_none.seq
    (writes_pushStr _ _).of_none))

/-- the copy: a new stream all of whose objects are new -/
theorem copy_fresh (w : World) (s : Nat) :
    (w.copy s).2 = w.nS ∧ (w.copy s).1.nS = w.nS + 1 ∧
    ∀ x ∈ (w.copy s).1.fp w.nS, w.next ≤ x ∧ x < (w.copy s).1.next := by
  refine ⟨?_, ?_, ?_⟩
  · simp [World.copy]
  · simp [World.copy]
  · intro x hx
    have h := copyImol_spec (w.newCf []).1 (w.strs s).imol
    have hn := h.writes.next
    simp only [World.copy, World.fp] at hx ⊢
    simp at hx hn ⊢
    rcases hx with rfl | rfl | hx
    · omega
    · omega
    · rw [fpImol_of_agree (w := ((w.newCf []).1.copyImol (w.strs s).imol).1) (by simp) (by simp)] at hx
      have := h.fresh x hx
      simp at this
      omega


/-- the frame lemma: a stream whose slots and objects were not written keeps footprint and observation -/
theorem frame_of_writes {w w' : World} {W Ws : Nat → Prop} (hsc : Scoped w) (hw : Writes w w' W Ws)
    (j : Nat) (hj : j < w.nS) (hjW : ¬ Ws j) (hfpW : ∀ x ∈ w.fp j, ¬ W x) :
    w'.fp j = w.fp j ∧ w'.observe j = w.observe j :=
  observe_congr (hw.strs j hj hjW) (fun x hx => hw.agree x (hsc j hj x hx) (hfpW x hx))

/-- closure for an operation that only creates objects and one new stream whose objects are all new -/
theorem spec_of_fresh {w w' : World} {ids : List Nat} (hsc : Scoped w) (hids : ∀ j ∈ ids, j < w.nS)
    (hw : Writes w w' none' none') (hnS : w'.nS = w.nS + 1)
    (hf : ∀ x ∈ w'.fp w.nS, (w.M ids x ∨ w.next ≤ x) ∧ x < w'.next) : OpSpec w ids w' := by
  have _ := hids
  refine ⟨hw.of_none, ?_⟩
  intro j hlt x hx
  by_cases hj : j < w.nS
  · have hc := frame_of_writes hsc hw j hj (fun h => h) (fun _ _ h => h)
    rw [hc.1] at hx
    exact ⟨Or.inl ⟨hj, hx⟩, Nat.lt_of_lt_of_le (hsc j hj x hx) hw.next⟩
  · have : j = w.nS := by omega
    subst this
    exact ⟨Or.inr (hf x hx).1, (hf x hx).2⟩

theorem spec_copy (w : World) (s : Nat) (hsc : Scoped w) (hs : s < w.nS) : OpSpec w [s] (w.copy s).1 :=
  spec_of_fresh hsc (by simpa using hs) (writes_copy w s) (copy_fresh w s).2.1
    (fun x hx => ⟨Or.inr ((copy_fresh w s).2.2 x hx).1, ((copy_fresh w s).2.2 x hx).2⟩)

/-! proxies -/

theorem writes_proxy (w : World) (s : Nat) : Writes w (w.proxy s).1 none' none' := by
  simp only [World.proxy]; exact (writes_pushStr _ _)

theorem spec_proxy (w : World) (s : Nat) (hsc : Scoped w) (hs : s < w.nS) : OpSpec w [s] (w.proxy s).1 := by
  refine spec_of_fresh hsc (by simpa using hs) (writes_proxy w s) (by simp [World.proxy]) ?_
  intro x hx
  have hfp : (w.proxy s).1.fp w.nS = w.fp s := by
    simp [World.proxy, World.fp, World.fpImol]
  rw [hfp] at hx
  exact ⟨Or.inl (M_single hx), by simpa [World.proxy] using hsc s hs x hx⟩

theorem writes_flowProxy (w : World) (s : Nat) : Writes w (w.flowProxy s).1 none' none' := by
  simp only [World.flowProxy]
  cases hm : w.imols (w.strs s).imol with
  | chem ph r =>
    exact (writes_newPh w _).of_none.seq ((writes_newImol _ _).of_none.seq ((writes_newTc _ _).of_none.seq
      ((writes_newCf _ _).of_none.seq (writes_pushStr _ _).of_none)))
  | mat ps a =>
    exact (writes_newImol _ _).of_none.seq ((writes_newTc _ _).of_none.seq
      ((writes_newCf _ _).of_none.seq (writes_pushStr _ _).of_none))

theorem spec_flowProxy (w : World) (s : Nat) (hsc : Scoped w) (hs : s < w.nS) :
    OpSpec w [s] (w.flowProxy s).1 := by
  refine spec_of_fresh hsc (by simpa using hs) (writes_flowProxy w s) ?_ ?_
  · simp only [World.flowProxy]; cases hm : w.imols (w.strs s).imol <;> simp
  · intro x hx
    simp only [World.flowProxy] at hx ⊢
    cases hm : w.imols (w.strs s).imol with
    | chem ph r =>
      simp [hm, World.fp, World.fpImol] at hx ⊢
      have := hsc s hs r (mem_fp_chem hm).2
      rcases hx with rfl | rfl | rfl | rfl | rfl
      · omega
      · omega
      · omega
      · omega
      · exact ⟨Or.inl (M_single (mem_fp_chem hm).2), by omega⟩
    | mat ps a =>
      simp [hm, World.fp, World.fpImol] at hx ⊢
      have ha := hsc s hs a (mem_fp_mat hm).1
      rcases hx with rfl | rfl | rfl | rfl | hx
      · omega
      · omega
      · omega
      · exact ⟨Or.inl (M_single (mem_fp_mat hm).1), by omega⟩
      · have := hsc s hs x ((mem_fp_mat hm).2 x hx)
        exact ⟨Or.inl (M_single ((mem_fp_mat hm).2 x hx)), by omega⟩



theorem spec_setPhase (w : World) (s : Nat) (p : Ph) (hsc : Scoped w) (hs : s < w.nS) :
    OpSpec w [s] (w.setPhase s p) := by
  cases hm : w.imols (w.strs s).imol with
  | chem ph r =>
    simp only [World.setPhase, hm]
    refine ⟨(writes_setPh w _ _).mono ?_ ?_, closure_of_struct hsc (by simpa using hs) (Nat.le_refl _) rfl ?_⟩
    · intro x _ hx; subst hx; exact M_single (mem_fp_chem hm).1
    · intro i _ h; exact h.elim
    · intro j _; rfl
  | mat ps a =>
    simp only [World.setPhase, hm]
    constructor
    · exact (writes_newPh w p).of_none.seq ((writes_newRow _ _).of_none.seq ((writes_newImol _ _).of_none.seq
        ((writes_setStr _ s _).mono (fun x _ h => h.elim) (fun i _ h _ => by simp [h]))))
    · intro j hlt x hx
      have hlt' : j < w.nS := by simpa using hlt
      by_cases hj'' : j ≠ s
      · have hj' := hj''
        have hw : Writes w ((((w.newPh p).1.newRow fun c =>
            List.foldl (fun x1 x2 => x1 + x2) 0 (List.map (fun r => w.rows r c) (w.arrs a))).1.newImol
            (Imol.chem (w.newPh p).2 ((w.newPh p).1.newRow fun c =>
            List.foldl (fun x1 x2 => x1 + x2) 0 (List.map (fun r => w.rows r c) (w.arrs a))).2)).1.setStr s
            { w.strs s with imol := (((w.newPh p).1.newRow fun c =>
            List.foldl (fun x1 x2 => x1 + x2) 0 (List.map (fun r => w.rows r c) (w.arrs a))).1.newImol
            (Imol.chem (w.newPh p).2 ((w.newPh p).1.newRow fun c =>
            List.foldl (fun x1 x2 => x1 + x2) 0 (List.map (fun r => w.rows r c) (w.arrs a))).2)).2 })
            none' (· = s) :=
          (writes_newPh w p).of_none.seq ((writes_newRow _ _).of_none.seq ((writes_newImol _ _).of_none.seq
            ((writes_setStr _ s _).mono (fun x _ h => h.elim) (fun i _ h => by intros; exact h))))
        have hc := frame_of_writes hsc hw j hlt' hj' (fun _ _ h => h)
        rw [hc.1] at hx
        exact ⟨Or.inl ⟨hlt', hx⟩, Nat.lt_of_lt_of_le (hsc j hlt' x hx) hw.next⟩
      have hj' : j = s := Decidable.not_not.mp hj''
      subst hj'
      have hs := hlt'
      simp [World.fp, World.fpImol, World.setStr, World.newImol, World.newRow, World.newPh] at hx ⊢
      have h1 := hsc j hs _ (mem_fp_tc w j)
      have h2 := hsc j hs _ (mem_fp_cf w j)
      rcases hx with rfl | rfl | rfl | rfl | rfl
      · exact ⟨Or.inr (Or.inl (M_single (mem_fp_tc w j))), by omega⟩
      · exact ⟨Or.inr (Or.inl (M_single (mem_fp_cf w j))), by omega⟩
      all_goals exact ⟨Or.inr (Or.inr (by omega)), by omega⟩


theorem writes_unlink (w : World) (s : Nat) : Writes w (w.unlink s) none' (· = s) := by
  simp only [World.unlink]
  exact (copyImol_spec _ _).writes.of_none.seq ((writes_newTc _ _).of_none.seq ((writes_newCf _ _).of_none.seq
    ((writes_setStr _ s _).mono (fun x _ h => h.elim) (fun i _ h => by intros; exact h))))

/-- after `unlink` every object of the stream (flows, phase, thermal condition, characterization-factor
dict) is new -/
theorem unlink_fresh (w : World) (s : Nat) :
    ∀ x ∈ (w.unlink s).fp s, w.next ≤ x ∧ x < (w.unlink s).next := by
  intro x hx
  have h := copyImol_spec w (w.strs s).imol
  have hn := h.writes.next
  simp only [World.unlink, World.fp] at hx ⊢
  simp at hx ⊢
  rcases hx with rfl | rfl | hx
  · omega
  · omega
  · rw [fpImol_of_agree (w := (w.copyImol (w.strs s).imol).1) (by simp) (by simp)] at hx
    have := h.fresh x hx
    omega

theorem spec_unlink (w : World) (s : Nat) (hsc : Scoped w) (hs : s < w.nS) : OpSpec w [s] (w.unlink s) := by
  refine ⟨(writes_unlink w s).mono (fun _ _ h => h.elim) (fun i _ h => by simp [h]), ?_⟩
  intro j hlt x hx
  have hnS : (w.unlink s).nS = w.nS := by simp [World.unlink]
  have hlt' : j < w.nS := by omega
  by_cases hj'' : j ≠ s
  · have hc := frame_of_writes hsc (writes_unlink w s) j hlt' hj'' (fun _ _ h => h)
    rw [hc.1] at hx
    exact ⟨Or.inl ⟨hlt', hx⟩, Nat.lt_of_lt_of_le (hsc j hlt' x hx) (writes_unlink w s).next⟩
  have hj' : j = s := Decidable.not_not.mp hj''
  subst hj'
  have h := unlink_fresh w j x hx
  exact ⟨Or.inr (Or.inr h.1), h.2⟩


theorem M_pair_left {w : World} {t s x : Nat} (h : x ∈ w.fp t) : w.M [t, s] x := ⟨t, by simp, h⟩
theorem M_pair_right {w : World} {t s x : Nat} (h : x ∈ w.fp s) : w.M [t, s] x := ⟨s, by simp, h⟩

theorem fpImol_setImol_ne {w : World} {i im : Nat} {m : Imol} (h : im ≠ i) :
    (w.setImol i m).fpImol im = w.fpImol im := by
  simp [World.fpImol, upd_ne _ _ _ _ h]

theorem link_closure {w w1 : World} {t s : Nat} {m : Imol}
    (him : w1.imols = w.imols) (har : w1.arrs = w.arrs)
    (hstr : ∀ j, (w1.strs j).imol = (w.strs j).imol ∧ (w1.strs j).cf = (w.strs j).cf ∧
      ((w1.strs j).tc = (w.strs j).tc ∨ (w1.strs j).tc = (w.strs s).tc))
    (hm : ∀ x ∈ (w1.setImol (w.strs t).imol m).fpImol (w.strs t).imol, w.M [t, s] x) :
    ∀ j, ∀ x ∈ (w1.setImol (w.strs t).imol m).fp j, x ∈ w.fp j ∨ w.M [t, s] x := by
  intro j x hx
  have hjM : ∀ y ∈ w.fp j, y ∈ w.fp j ∨ w.M [t, s] y := fun y hy => Or.inl hy
  simp only [World.fp, setImol_strs, List.mem_cons] at hx
  obtain ⟨h1, h2, h3⟩ := hstr j
  rcases hx with rfl | rfl | hx
  · rcases h3 with h3 | h3
    · rw [h3]; exact hjM _ (mem_fp_tc w j)
    · rw [h3]; exact Or.inr (M_pair_right (mem_fp_tc w s))
  · rw [h2]; exact hjM _ (mem_fp_cf w j)
  · rw [h1] at hx
    by_cases he : (w.strs j).imol = (w.strs t).imol
    · rw [he] at hx; exact Or.inr (hm x hx)
    · rw [fpImol_setImol_ne he, fpImol_of_agree him har] at hx
      apply hjM
      simp [World.fp, hx]

theorem spec_link (w : World) (t s : Nat) (f p tp : Bool) (w' : World) (hsc : Scoped w) (ht : t < w.nS)
    (hs : s < w.nS) (h : w.link t s f p tp = .ok w') : OpSpec w [t, s] w' := by
  have hlt' : ∀ y, w.M [t, s] y → y < w.next := by
    rintro y ⟨k, hk, hy⟩
    simp at hk
    rcases hk with rfl | rfl
    · exact hsc _ ht y hy
    · exact hsc _ hs y hy
  have him := mem_fp_imol w t
  -- the world after the optional rebinding of the thermal condition
  let w1 := if tp then w.setStr t { w.strs t with tc := (w.strs s).tc } else w
  have hw1 : Writes w w1 (w.M [t, s]) (· ∈ [t, s]) := by
    show Writes w (if tp then _ else _) _ _
    cases tp
    · exact Writes.refl _ _ _
    · exact (writes_setStr w t _).mono (fun _ _ h => h.elim) (fun i _ h => by simp [h])
  have h1i : w1.imols = w.imols := by show (if tp then _ else _ : World).imols = _; cases tp <;> rfl
  have h1a : w1.arrs = w.arrs := by show (if tp then _ else _ : World).arrs = _; cases tp <;> rfl
  have h1n : w1.next = w.next := by show (if tp then _ else _ : World).next = _; cases tp <;> rfl
  have h1S : w1.nS = w.nS := by show (if tp then _ else _ : World).nS = _; cases tp <;> rfl
  have h1s : ∀ j, (w1.strs j).imol = (w.strs j).imol ∧ (w1.strs j).cf = (w.strs j).cf ∧
      ((w1.strs j).tc = (w.strs j).tc ∨ (w1.strs j).tc = (w.strs s).tc) := by
    intro j
    show ((if tp then _ else _ : World).strs j).imol = _ ∧ ((if tp then _ else _ : World).strs j).cf = _ ∧
      (((if tp then _ else _ : World).strs j).tc = _ ∨ ((if tp then _ else _ : World).strs j).tc = _)
    cases tp
    · simp
    · by_cases hj : j = t
      · subst hj; simp
      · simp [upd_ne _ _ _ _ hj]
  -- both kinds end with one write to the indexer object of the target
  have key : ∀ m : Imol, (∀ x ∈ (w1.setImol (w.strs t).imol m).fpImol (w.strs t).imol, w.M [t, s] x) →
      OpSpec w [t, s] (w1.setImol (w.strs t).imol m) := by
    intro m hm
    refine ⟨hw1.seq ((writes_setImol _ _ _).mono ?_ (fun _ _ h => h.elim)), ?_⟩
    · intro x _ hx _; subst hx; exact M_pair_left him
    · intro j hlt x hx
      have hlt2 : j < w.nS := by simpa [h1S] using hlt
      rcases link_closure h1i h1a h1s hm j x hx with hM | hM
      · exact ⟨Or.inl ⟨hlt2, hM⟩, by simpa [h1n] using hsc j hlt2 x hM⟩
      · exact ⟨Or.inr (Or.inl hM), by simpa [h1n] using hlt' x hM⟩
  unfold World.link at h
  cases hmt : w.imols (w.strs t).imol with
  | chem tph trow =>
    cases hms : w.imols (w.strs s).imol with
    | mat qs sa => simp [hmt, hms] at h
    | chem sph srow =>
      simp only [hmt, hms] at h
      split at h
      · cases h
      · cases h
        apply key
        intro x hx
        have hc := mem_fp_chem hmt; have hcs := mem_fp_chem hms
        simp [World.fpImol] at hx
        rcases hx with rfl | rfl | rfl
        · exact M_pair_left him
        · cases p
          · exact M_pair_left hc.1
          · exact M_pair_right hcs.1
        · cases f
          · exact M_pair_left hc.2
          · exact M_pair_right hcs.2
  | mat ps ta =>
    cases hms : w.imols (w.strs s).imol with
    | chem sph srow => simp [hmt, hms] at h
    | mat qs sa =>
      simp only [hmt, hms] at h
      split at h
      · cases h
      · cases h
        apply key
        intro x hx
        have hc := mem_fp_mat hmt; have hcs := mem_fp_mat hms
        simp [World.fpImol, h1a] at hx
        cases f
        · simp at hx
          rcases hx with rfl | rfl | hx
          · exact M_pair_left him
          · exact M_pair_left hc.1
          · exact M_pair_left (hc.2 x hx)
        · simp at hx
          rcases hx with rfl | rfl | hx
          · exact M_pair_left him
          · exact M_pair_right hcs.1
          · exact M_pair_right (hcs.2 x hx)



/-! constructor -/

theorem writes_ctor (w : World) (a : Args) (w' : World) (i : Nat) (h : w.ctor a = .ok (w', i)) :
    Writes w w' none' none' ∧ i = w.nS ∧ w'.nS = w.nS + 1 ∧ ∀ x ∈ w'.fp w.nS, w.next ≤ x ∧ x < w'.next := by
  have hf : a.flowsOk = true := by
    cases hf : a.flowsOk with
    | true => rfl
    | false => simp [World.ctor, hf] at h
  have hz : (a.rescales && a.given == 0) = false := by
    cases hz : (a.rescales && a.given == 0) with
    | false => rfl
    | true => simp [World.ctor, hf, hz] at h
  cases hm : a.multi with
  | true =>
    simp only [World.ctor, hf, hz, hm, Bool.not_true, Bool.false_eq_true, if_false, if_true, Except.ok.injEq,
      Prod.mk.injEq] at h
    obtain ⟨rfl, rfl⟩ := h
    refine ⟨(writes_newCf w _).of_none.seq ((writes_newTc _ _).of_none.seq ((writes_newRows _ _).of_none.seq
      ((writes_newArr _ _).of_none.seq ((writes_newImol _ _).of_none.seq (writes_pushStr _ _).of_none)))),
      by simp, by simp, ?_⟩
    intro x hx
    simp [World.fp, World.fpImol, newRows_ids] at hx ⊢
    omega
  | false =>
    simp only [World.ctor, hf, hz, hm, Bool.not_true, Bool.false_eq_true, if_false, Except.ok.injEq,
      Prod.mk.injEq] at h
    obtain ⟨rfl, rfl⟩ := h
    refine ⟨(writes_newCf w _).of_none.seq ((writes_newTc _ _).of_none.seq ((writes_newPh _ _).of_none.seq
      ((writes_newRow _ _).of_none.seq ((writes_newImol _ _).of_none.seq (writes_pushStr _ _).of_none)))),
      by simp, by simp, ?_⟩
    intro x hx
    simp [World.fp, World.fpImol] at hx ⊢
    omega

theorem spec_ctor (w : World) (a : Args) (w' : World) (i : Nat) (hsc : Scoped w)
    (h : w.ctor a = .ok (w', i)) : OpSpec w [] w' := by
  obtain ⟨hw, _, hn, hf⟩ := writes_ctor w a w' i h
  exact spec_of_fresh hsc (by simp) hw hn (fun x hx => ⟨Or.inr (hf x hx).1, (hf x hx).2⟩)


/-! blank indexers -/

structure BlankSpec (w : World) (w' : World) (im : Nat) (ps : List Ph) : Prop where
  writes : Writes w w' none' none'
  strs : w'.strs = w.strs
  nS : w'.nS = w.nS
  tcs : w'.tcs = w.tcs
  cfs : w'.cfs = w.cfs
  fresh : ∀ x ∈ w'.fpImol im, w.next ≤ x ∧ x < w'.next
  phases : w'.phasesOf im = ps
  rowIds : ∃ n, w.next ≤ n ∧ w'.rowIdsOf im = List.range' n ps.length
  flows : (w'.rowIdsOf im).map w'.rows = ps.map fun _ => Row.zero

theorem blankChem_spec (w : World) (p : Ph) : BlankSpec w (w.blankChem p).1 (w.blankChem p).2 [p] := by
  unfold World.blankChem
  refine ⟨(writes_newPh w _).of_none.seq ((writes_newRow _ _).of_none.seq (writes_newImol _ _).of_none),
    rfl, rfl, rfl, rfl, ?_, ?_, ?_, ?_⟩
  · intro x hx; simp [World.fpImol] at hx ⊢; omega
  · simp [World.phasesOf]
  · exact ⟨w.next + 1, by omega, by simp [World.rowIdsOf]⟩
  · simp [World.rowIdsOf]

theorem blankMat_spec (w : World) (ps : List Ph) : BlankSpec w (w.blankMat ps).1 (w.blankMat ps).2 ps := by
  unfold World.blankMat
  refine ⟨(writes_newRows w _).of_none.seq ((writes_newArr _ _).of_none.seq (writes_newImol _ _).of_none),
    by simp, by simp, by simp, by simp, ?_, ?_, ?_, ?_⟩
  · intro x hx; simp [World.fpImol, newRows_ids] at hx ⊢; omega
  · simp [World.phasesOf]
  · exact ⟨w.next, by omega, by simp [World.rowIdsOf, newRows_ids]⟩
  · simp [World.rowIdsOf]



theorem setRowsSeq_fields (l : List (Nat × Row)) : ∀ w : World,
    (w.setRowsSeq l).phs = w.phs ∧ (w.setRowsSeq l).tcs = w.tcs ∧ (w.setRowsSeq l).cfs = w.cfs ∧
    (w.setRowsSeq l).arrs = w.arrs ∧ (w.setRowsSeq l).imols = w.imols ∧ (w.setRowsSeq l).strs = w.strs ∧
    (w.setRowsSeq l).nS = w.nS ∧ (w.setRowsSeq l).next = w.next := by
  induction l with
  | nil => intro w; simp [World.setRowsSeq]
  | cons p ps ih =>
    intro w; obtain ⟨t, f⟩ := p
    simpa [World.setRowsSeq] using ih (w.setRow t f)

@[simp] theorem setRowsSeq_phs (w : World) (l) : (w.setRowsSeq l).phs = w.phs := (setRowsSeq_fields l w).1
@[simp] theorem setRowsSeq_tcs (w : World) (l) : (w.setRowsSeq l).tcs = w.tcs := (setRowsSeq_fields l w).2.1
@[simp] theorem setRowsSeq_cfs (w : World) (l) : (w.setRowsSeq l).cfs = w.cfs := (setRowsSeq_fields l w).2.2.1
@[simp] theorem setRowsSeq_arrs (w : World) (l) : (w.setRowsSeq l).arrs = w.arrs := (setRowsSeq_fields l w).2.2.2.1
@[simp] theorem setRowsSeq_imols (w : World) (l) : (w.setRowsSeq l).imols = w.imols :=
  (setRowsSeq_fields l w).2.2.2.2.1
@[simp] theorem setRowsSeq_strs (w : World) (l) : (w.setRowsSeq l).strs = w.strs :=
  (setRowsSeq_fields l w).2.2.2.2.2.1
@[simp] theorem setRowsSeq_nS (w : World) (l) : (w.setRowsSeq l).nS = w.nS := (setRowsSeq_fields l w).2.2.2.2.2.2.1
@[simp] theorem setRowsSeq_next (w : World) (l) : (w.setRowsSeq l).next = w.next :=
  (setRowsSeq_fields l w).2.2.2.2.2.2.2

theorem writes_setRowsSeq (l : List (Nat × Row)) :
    ∀ w : World, Writes w (w.setRowsSeq l) (· ∈ l.map Prod.fst) none' := by
  induction l with
  | nil => intro w; exact Writes.refl _ _ _
  | cons p ps ih =>
    intro w
    obtain ⟨t, f⟩ := p
    refine Writes.trans (W := (· ∈ ((t, f) :: ps).map Prod.fst))
      ((writes_setRow w t f).mono ?_ (fun _ _ h => h)) (ih _) ?_ (fun _ _ h => h)
    · intro x _ h; simp [h]
    · intro x _ h; simp at h ⊢; exact Or.inr h

/-- rows not among the targets keep their content -/
theorem setRowsSeq_other (l : List (Nat × Row)) : ∀ (w : World) (x : Nat), x ∉ l.map Prod.fst →
    (w.setRowsSeq l).rows x = w.rows x := by
  induction l with
  | nil => intro w x _; rfl
  | cons p ps ih =>
    intro w x hx
    obtain ⟨t, f⟩ := p
    simp at hx
    simp only [World.setRowsSeq]
    rw [ih _ x (by simpa using hx.2)]
    simp [upd_ne _ _ _ _ hx.1]

/-- reading back distinct rows after writing them -/
theorem setRowsSeq_read (ids : List Nat) : ∀ (fs : List Row) (w : World), ids.Nodup → ids.length = fs.length →
    ids.map (w.setRowsSeq (ids.zip fs)).rows = fs := by
  induction ids with
  | nil => intro fs w _ hl; cases fs <;> simp_all
  | cons i is ih =>
    intro fs w hnd hl
    cases fs with
    | nil => simp at hl
    | cons f fs =>
      simp at hl hnd
      simp only [List.zip_cons_cons, World.setRowsSeq, List.map_cons]
      rw [ih fs _ hnd.2 hl]
      congr 1
      rw [setRowsSeq_other]
      · simp
      · intro hmem
        simp at hmem
        obtain ⟨f', hm⟩ := hmem
        exact hnd.1 (List.of_mem_zip hm).1


/-- the phases of a pickled stream are a single label or a sorted duplicate-free tuple -/
def PArgs.wf (p : PArgs) : Prop :=
  p.data.flows.length = p.data.phases.length ∧ (p.data.phases.length = 1 ∨ normPh p.data.phases = p.data.phases)

/-- the phase tuple `self.phases = phases` produces -/
def canonPh : List Ph → List Ph
  | [q] => [q]
  | qs => normPh qs

theorem canonPh_of_wf (phases : List Ph) (h : phases.length = 1 ∨ normPh phases = phases) :
    canonPh phases = phases := by
  match phases, h with
  | [q], _ => rfl
  | [], h => rcases h with h | h; simp at h; simpa [canonPh] using h
  | q1 :: q2 :: r, h =>
    rcases h with h | h
    · simp at h
    · simpa [canonPh] using h

theorem rebuild_blank (w2 : World) (phases : List Ph) :
    BlankSpec w2 (w2.blankFor phases).1 (w2.blankFor phases).2 (canonPh phases) := by
  unfold World.blankFor canonPh
  match phases with
  | [q] => exact blankChem_spec w2 q
  | [] => exact blankMat_spec w2 _
  | q1 :: q2 :: r => exact blankMat_spec w2 _

theorem rebuildTail_spec (w w3 : World) (p : PArgs) (cf tc im pid : Nat) (ps : List Ph)
    (hW : Writes w w3 none' none') (hnS : w3.nS = w.nS) (hcfv : w3.cfs cf = p.cf)
    (hcf : w.next ≤ cf ∧ cf < w3.next) (htc : w.next ≤ tc ∧ tc < w3.next)
    (hfresh : ∀ x ∈ w3.fpImol im, w.next ≤ x ∧ x < w3.next)
    (hph : w3.phasesOf im = ps)
    (hrows : ∃ n, w.next ≤ n ∧ w3.rowIdsOf im = List.range' n ps.length) :
    Writes w (w3.rebuildTail p cf tc im pid).1 none' none' ∧ (w3.rebuildTail p cf tc im pid).2 = w.nS ∧
    (w3.rebuildTail p cf tc im pid).1.nS = w.nS + 1 ∧
    (∀ x ∈ (w3.rebuildTail p cf tc im pid).1.fp w.nS, w.next ≤ x ∧ x < (w3.rebuildTail p cf tc im pid).1.next) ∧
    (p.data.flows.length = ps.length →
     (w3.rebuildTail p cf tc im pid).1.observe w.nS =
      { phases := ps, flows := p.data.flows, T := p.data.T, P := p.data.P, price := p.price,
        cf := p.cf, sid := p.sid, pkg := p.pkg }) := by
  obtain ⟨n, hn, hrows⟩ := hrows
  have hnd : (w3.rowIdsOf im).Nodup := by rw [hrows]; exact List.nodup_range'
  refine ⟨?_, ?_, ?_, ?_, ?_⟩
  · unfold World.rebuildTail
    refine hW.seq (((writes_setRowsSeq _ _).mono ?_ (fun _ _ h => h.elim)).seq
      (((writes_setTc _ _ _).mono ?_ (fun _ _ h => h.elim)).seq (writes_pushStr _ _).of_none))
    · intro x _ hx h1
      simp at hx
      obtain ⟨f, hm⟩ := hx
      have := (List.of_mem_zip hm).1
      rw [hrows] at this
      have := mem_range'_lt this
      omega
    · intro x _ hx h1 h2
      subst hx; omega
  · simp [World.rebuildTail, hnS]
  · simp [World.rebuildTail, hnS]
  · intro x hx
    simp only [World.rebuildTail, World.fp] at hx ⊢
    simp [hnS] at hx ⊢
    rcases hx with rfl | rfl | hx
    · omega
    · omega
    · rw [fpImol_of_agree (w := w3) (by simp) (by simp)] at hx
      exact hfresh x hx
  · intro hl
    have hlen : (w3.rowIdsOf im).length = p.data.flows.length := by rw [hrows]; simp [hl]
    simp only [World.rebuildTail, World.observe]
    have h1 : ((w3.setRowsSeq ((w3.rowIdsOf im).zip p.data.flows)).setTc tc (p.data.T, p.data.P)).phasesOf im
        = w3.phasesOf im := by simp [World.phasesOf]
    have h2 : ((w3.setRowsSeq ((w3.rowIdsOf im).zip p.data.flows)).setTc tc (p.data.T, p.data.P)).rowIdsOf im
        = w3.rowIdsOf im := by simp [World.rowIdsOf]
    simp [hnS, World.phasesOf, World.rowIdsOf] at h1 h2 ⊢
    simp [World.phasesOf, World.rowIdsOf] at hph hnd hlen
    refine ⟨hph, ?_, hcfv⟩
    exact setRowsSeq_read _ _ _ hnd hlen

theorem rebuild_spec (w : World) (p : PArgs) :
    Writes w (w.rebuild p).1 none' none' ∧ (w.rebuild p).2 = w.nS ∧ (w.rebuild p).1.nS = w.nS + 1 ∧
    (∀ x ∈ (w.rebuild p).1.fp w.nS, w.next ≤ x ∧ x < (w.rebuild p).1.next) ∧
    (p.wf → (w.rebuild p).1.observe w.nS =
      { phases := p.data.phases, flows := p.data.flows, T := p.data.T, P := p.data.P, price := p.price,
        cf := p.cf, sid := p.sid, pkg := p.pkg }) := by
  have hB := rebuild_blank ((w.newCf p.cf).1.newTc (defaultT, defaultP)).1 p.data.phases
  have hn := hB.writes.next
  simp at hn
  obtain ⟨n, hn', hrows⟩ := hB.rowIds
  simp at hn'
  have key := rebuildTail_spec w (((w.newCf p.cf).1.newTc (defaultT, defaultP)).1.blankFor p.data.phases).1 p
    w.next (w.next + 1) (((w.newCf p.cf).1.newTc (defaultT, defaultP)).1.blankFor p.data.phases).2
    (2 * w.next + 1) (canonPh p.data.phases)
    ((writes_newCf w _).of_none.seq ((writes_newTc _ _).of_none.seq hB.writes.of_none))
    (by rw [hB.nS]; simp) (by rw [hB.cfs]; simp) (by omega) (by omega)
    (by intro x hx; have := hB.fresh x hx; simp at this; omega) hB.phases ⟨n, by omega, hrows⟩
  unfold World.rebuild
  refine ⟨key.1, key.2.1, key.2.2.1, key.2.2.2.1, ?_⟩
  intro hp
  have hc := canonPh_of_wf _ hp.2
  have := key.2.2.2.2 (by rw [hc]; exact hp.1)
  rw [hc] at this
  exact this

/-- What an in-place change of the indexer object `tim` (its rows' contents, possibly its phase list
and the row list of its array) looks like from outside. -/
structure ImolUpd (w w1 : World) (tim : Nat) : Prop where
  writes : Writes w w1 (· ∈ w.fpImol tim) none'
  strs : w1.strs = w.strs
  nS : w1.nS = w.nS
  tcs : w1.tcs = w.tcs
  cfs : w1.cfs = w.cfs
  imols_ne : ∀ y, y ≠ tim → w1.imols y = w.imols y
  chem : ∀ ph r, w.imols tim = .chem ph r → w1.imols tim = .chem ph r ∧ w1.arrs = w.arrs
  mat : ∀ ps a, w.imols tim = .mat ps a → (∃ ps', w1.imols tim = .mat ps' a) ∧ (∀ y, y ≠ a → w1.arrs y = w.arrs y) ∧
    (∀ x ∈ w1.arrs a, x ∈ w.fpImol tim ∨ (w.next ≤ x ∧ x < w1.next))

theorem ImolUpd.refl (w : World) (tim : Nat) : ImolUpd w w tim :=
  ⟨Writes.refl _ _ _, rfl, rfl, rfl, rfl, fun _ _ => rfl, fun _ _ h => ⟨h, rfl⟩,
   fun ps a h => ⟨⟨ps, h⟩, fun _ _ => rfl, fun x hx => Or.inl (by simp [World.fpImol, h, hx])⟩⟩

/-- changing only row contents of rows of `tim` -/
theorem ImolUpd.of_rows {w w1 : World} {tim : Nat} (hw : Writes w w1 (· ∈ w.rowIdsOf tim) none')
    (_hphs : w1.phs = w.phs) (htcs : w1.tcs = w.tcs) (hcfs : w1.cfs = w.cfs) (harrs : w1.arrs = w.arrs)
    (himols : w1.imols = w.imols) (hstrs : w1.strs = w.strs) (hnS : w1.nS = w.nS) : ImolUpd w w1 tim := by
  refine ⟨hw.mono ?_ (fun _ _ h => h), hstrs, hnS, htcs, hcfs, fun _ _ => by rw [himols],
    fun _ _ h => ⟨by rw [himols]; exact h, harrs⟩,
    fun ps a h => ⟨⟨ps, by rw [himols]; exact h⟩, fun _ _ => by rw [harrs],
      fun x hx => Or.inl (by rw [harrs] at hx; simp [World.fpImol, h, hx])⟩⟩
  intro x _ hx
  unfold World.rowIdsOf at hx
  unfold World.fpImol
  cases hm : w.imols tim with
  | chem ph r => simp [hm] at hx ⊢; simp [hx]
  | mat ps a => simp [hm] at hx ⊢; simp [hx]

theorem ImolUpd.next_le {w w1 : World} {tim : Nat} (h : ImolUpd w w1 tim) : w.next ≤ w1.next := h.writes.next

/-- footprints of indexers after such a change -/
theorem ImolUpd.fpImol_sub {w w1 : World} {tim : Nat} (h : ImolUpd w w1 tim) (im : Nat) :
    ∀ x ∈ w1.fpImol im, x ∈ w.fpImol im ∨ x ∈ w.fpImol tim ∨ (w.next ≤ x ∧ x < w1.next) := by
  intro x hx
  by_cases him : im = tim
  · subst him
    cases hm : w.imols im with
    | chem ph r =>
      obtain ⟨h1, h2⟩ := h.chem ph r hm
      left
      simpa [World.fpImol, h1, hm] using hx
    | mat ps a =>
      obtain ⟨⟨ps', h1⟩, h2, h3⟩ := h.mat ps a hm
      simp [World.fpImol, h1] at hx
      rcases hx with rfl | rfl | hx
      · left; simp [World.fpImol]
      · left; simp [World.fpImol, hm]
      · rcases h3 x hx with h | h
        · left; exact h
        · right; right; exact h
  · have h1 := h.imols_ne im him
    cases hm : w.imols im with
    | chem ph r => left; simpa [World.fpImol, h1, hm] using hx
    | mat ps b =>
      simp [World.fpImol, h1, hm] at hx
      rcases hx with rfl | rfl | hx
      · left; simp [World.fpImol]
      · left; simp [World.fpImol, hm]
      · cases hmt : w.imols tim with
        | chem ph r =>
          left
          rw [(h.chem ph r hmt).2] at hx
          simp [World.fpImol, hm, hx]
        | mat ps' a =>
          obtain ⟨_, h2, h3⟩ := h.mat ps' a hmt
          by_cases hb : b = a
          · subst hb
            rcases h3 x hx with h | h
            · right; left; exact h
            · right; right; exact h
          · left
            rw [h2 b hb] at hx
            simp [World.fpImol, hm, hx]


theorem ImolUpd.trans {w w1 w2 : World} {tim : Nat} (h1 : ImolUpd w w1 tim) (h2 : ImolUpd w1 w2 tim) :
    ImolUpd w w2 tim := by
  have hsub : ∀ x, x ∈ w1.fpImol tim → x ∈ w.fpImol tim ∨ (w.next ≤ x ∧ x < w1.next) := by
    intro x hx
    rcases h1.fpImol_sub tim x hx with h | h | h
    · exact Or.inl h
    · exact Or.inl h
    · exact Or.inr h
  have hn1 := h1.next_le
  have hn2 := h2.next_le
  refine ⟨h1.writes.trans h2.writes ?_ (fun _ _ h => h), h2.strs.trans h1.strs, h2.nS.trans h1.nS,
    h2.tcs.trans h1.tcs, h2.cfs.trans h1.cfs, fun y hy => (h2.imols_ne y hy).trans (h1.imols_ne y hy), ?_, ?_⟩
  · intro x hx hx2
    rcases hsub x hx2 with h | h
    · exact h
    · omega
  · intro ph r hm
    obtain ⟨a1, a2⟩ := h1.chem ph r hm
    obtain ⟨b1, b2⟩ := h2.chem ph r a1
    exact ⟨b1, b2.trans a2⟩
  · intro ps a hm
    obtain ⟨⟨ps1, a1⟩, a2, a3⟩ := h1.mat ps a hm
    obtain ⟨⟨ps2, b1⟩, b2, b3⟩ := h2.mat ps1 a a1
    refine ⟨⟨ps2, b1⟩, fun y hy => (b2 y hy).trans (a2 y hy), ?_⟩
    intro x hx
    rcases b3 x hx with h | h
    · rcases hsub x h with h | h
      · exact Or.inl h
      · exact Or.inr ⟨h.1, by omega⟩
    · exact Or.inr ⟨by omega, h.2⟩

theorem imolUpd_setRow {w : World} {tim r : Nat} (f : Row) (hr : r ∈ w.rowIdsOf tim ∨ r = tim) :
    ImolUpd w (w.setRow r f) tim := by
  refine ⟨(writes_setRow w r f).mono ?_ (fun _ _ h => h), rfl, rfl, rfl, rfl, fun _ _ => rfl,
    fun _ _ h => ⟨h, rfl⟩, fun ps a h => ⟨⟨ps, h⟩, fun _ _ => rfl, fun x hx => Or.inl (by
      simp at hx; simp [World.fpImol, h, hx])⟩⟩
  intro x _ hx
  subst hx
  rcases hr with hr | hr
  · unfold World.rowIdsOf at hr
    unfold World.fpImol
    cases hm : w.imols tim with
    | chem ph r => simp [hm] at hr ⊢; simp [hr]
    | mat ps a => simp [hm] at hr ⊢; simp [hr]
  · subst hr; simp [World.fpImol]

theorem imolUpd_clearRows (w : World) (tim : Nat) : ImolUpd w (w.clearRows (w.rowIdsOf tim)) tim :=
  ImolUpd.of_rows (writes_clearRows _ w) (by simp) (by simp) (by simp) (by simp) (by simp) (by simp) (by simp)

theorem imolUpd_copyRowsSeq (w : World) (tim : Nat) (l : List (Nat × Nat)) (hl : ∀ p ∈ l, p.1 ∈ w.rowIdsOf tim) :
    ImolUpd w (w.copyRowsSeq l) tim := by
  refine ImolUpd.of_rows ((writes_copyRowsSeq l w).mono ?_ (fun _ _ h => h)) (by simp) (by simp) (by simp)
    (by simp) (by simp) (by simp) (by simp)
  intro x _ hx
  simp at hx
  obtain ⟨b, hb⟩ := hx
  exact hl _ hb

/-- `_expand_phases` -/
theorem imolUpd_expand (w : World) (tim : Nat) (other : List Ph) : ImolUpd w (w.expand tim other) tim := by
  unfold World.expand
  cases hm : w.imols tim with
  | chem ph r => exact ImolUpd.refl w tim
  | mat ps a =>
    simp only
    split
    · exact ImolUpd.refl w tim
    · refine ⟨?_, by simp, by simp, by simp, by simp, ?_, ?_, ?_⟩
      · refine (writes_newRows w _).of_none.seq (((writes_setArr _ _ _).mono ?_ (fun _ _ h => h.elim)).seq
          ((writes_setImol _ _ _).mono ?_ (fun _ _ h => h.elim)))
        · intro x _ hx _; subst hx; simp [World.fpImol, hm]
        · intro x _ hx _ _; subst hx; simp [World.fpImol]
      · intro y hy; simp [upd_ne _ _ _ _ hy]
      · intro ph r h; rw [hm] at h; cases h
      · intro ps' a' h
        rw [hm] at h
        cases h
        refine ⟨⟨normPh (ps ++ other), by simp⟩, fun y hy => by simp [upd_ne _ _ _ _ hy], ?_⟩
        intro x hx
        simp only [setImol_arrs, setArr_arrs, upd_same, List.mem_map] at hx
        obtain ⟨p, _, hx⟩ := hx
        subst hx
        have hfp : ∀ y, y = a ∨ y ∈ w.arrs a → y ∈ w.fpImol tim := by
          intro y hy; simp only [World.fpImol, hm]
          rcases hy with rfl | hy
          · simp
          · simp [hy]
        split
        · next i _ =>
          rcases List.getD_mem_or_eq (w.arrs a) i a with h | h
          · exact Or.inl (hfp _ (Or.inr h))
          · exact Or.inl (hfp _ (Or.inl h))
        · rcases List.getD_mem_or_eq (w.newRows (List.map (fun _ => Row.zero)
              (List.filter (fun p => !ps.contains p) (normPh other)))).2 ((List.idxOf?  p
              (List.filter (fun p => !ps.contains p) (normPh other))).getD 0) a with h | h
          · right
            have h' := h
            rw [newRows_ids] at h'
            have := mem_range'_lt h'
            simp only [newRows_next, setImol_next, setArr_next]
            rw [newRows_ids]
            exact this
          · exact Or.inl (hfp _ (Or.inl h))


theorem rowIdsOf_congr {w w1 : World} {im : Nat} (hi : w1.imols = w.imols) (ha : w1.arrs = w.arrs) :
    w1.rowIdsOf im = w.rowIdsOf im := by simp [World.rowIdsOf, hi, ha]

theorem imolUpd_assignByPhase (tim : Nat) (tps : List Ph) (trows : List Nat) (l : List (Ph × Nat)) :
    ∀ (w w' : World), (∀ r ∈ trows, r ∈ w.rowIdsOf tim) → w.assignByPhase tps trows tim l = .ok w' →
      ImolUpd w w' tim := by
  induction l with
  | nil => intro w w' _ h; cases h; exact ImolUpd.refl w tim
  | cons p l ih =>
    intro w w' htr h
    obtain ⟨q, sr⟩ := p
    simp only [World.assignByPhase] at h
    split at h
    · cases h
    · next k _ =>
      have h1 : ImolUpd w (w.setRow (trows.getD k tim) (w.rows sr)) tim := by
        apply imolUpd_setRow
        rcases List.getD_mem_or_eq trows k tim with h | h
        · exact Or.inl (htr _ h)
        · exact Or.inr h
      refine h1.trans (ih _ w' ?_ h)
      intro r hr
      rw [rowIdsOf_congr (w := w) (by simp) (by simp)]
      exact htr r hr

/-- `ChemicalIndexer.copy_like` writes the row and the phase container of the target only -/
theorem chemCopyLike_spec (w : World) (same : Bool) (tph trow : Nat) (tpkg : List Nat) (sr : Nat) (sp : Ph)
    (spkg : List Nat) (w' : World) (h : w.chemCopyLike same tph trow tpkg sr sp spkg = .ok w') :
    Writes w w' (fun x => x = trow ∨ x = tph) none' ∧ w'.imols = w.imols ∧ w'.arrs = w.arrs ∧
    w'.strs = w.strs ∧ w'.nS = w.nS ∧ w'.next = w.next ∧ w'.tcs = w.tcs ∧ w'.cfs = w.cfs := by
  unfold World.chemCopyLike at h
  split at h
  · cases h
    refine ⟨((writes_setRow w _ _).mono (fun _ _ h => Or.inl h) (fun _ _ h => h)).seq
      ((writes_setPh _ _ _).mono (fun _ _ h _ => Or.inr h) (fun _ _ h => h.elim)), ?_⟩
    simp
  · simp only at h
    split at h
    · cases h
      refine ⟨((writes_setRow w _ _).mono (fun _ _ h => Or.inl h) (fun _ _ h => h)).seq
        (((writes_setRow _ _ _).mono (fun _ _ h _ => Or.inl h) (fun _ _ h => h.elim)).seq
        ((writes_setPh _ _ _).mono (fun _ _ h _ _ => Or.inr h) (fun _ _ h => h.elim))), ?_⟩
      simp
    · cases h

theorem matCopyFromChem_spec (w : World) (same : Bool) (tim : Nat) (tpkg : List Nat) (sr : Nat) (sp : Ph)
    (spkg : List Nat) (w' : World) (h : w.matCopyFromChem same tim tpkg sr sp spkg = .ok w') :
    ImolUpd w w' tim := by
  unfold World.matCopyFromChem at h
  simp only at h
  have h1 := imolUpd_clearRows w tim
  generalize w.clearRows (w.rowIdsOf tim) = w1 at h h1
  have h2 : ImolUpd w1 (if (phIdx (w1.phasesOf tim) sp).isNone then w1.expand tim [sp] else w1) tim := by
    split
    · exact imolUpd_expand w1 tim [sp]
    · exact ImolUpd.refl w1 tim
  generalize (if (phIdx (w1.phasesOf tim) sp).isNone then w1.expand tim [sp] else w1) = w2 at h h2
  split at h
  · cases h
  · next k _ =>
    split at h
    · cases h
      refine h1.trans (h2.trans (imolUpd_setRow _ ?_))
      rcases List.getD_mem_or_eq (w2.rowIdsOf tim) k tim with h | h
      · exact Or.inl h
      · exact Or.inr h
    · cases h

theorem matCopyFromMat_spec (w : World) (same : Bool) (tim : Nat) (tpkg : List Nat) (sim : Nat)
    (spkg : List Nat) (w' : World) (h : w.matCopyFromMat same tim tpkg sim spkg = .ok w') :
    ImolUpd w w' tim := by
  unfold World.matCopyFromMat at h
  split at h
  · cases h; exact ImolUpd.refl w tim
  · simp only at h
    split at h
    · split at h
      · cases h
        apply imolUpd_copyRowsSeq
        intro p hp
        exact (List.of_mem_zip hp).1
      · have h1 := imolUpd_clearRows w tim
        generalize w.clearRows (w.rowIdsOf tim) = w1 at h h1
        split at h
        · cases h
          refine h1.trans (imolUpd_copyRowsSeq _ _ _ ?_)
          intro p hp
          exact (List.of_mem_zip hp).1
        · cases h
    · have h0 : ImolUpd w (if compatPh (w.phasesOf tim) (w.phasesOf sim) then w else w.expand tim (w.phasesOf sim)) tim := by
        split
        · exact ImolUpd.refl w tim
        · exact imolUpd_expand w tim _
      generalize (if compatPh (w.phasesOf tim) (w.phasesOf sim) then w else w.expand tim (w.phasesOf sim)) = w1 at h h0
      have h1 := imolUpd_clearRows w1 tim
      generalize hw2 : w1.clearRows (w1.rowIdsOf tim) = w2 at h h1
      split at h
      · refine h0.trans (h1.trans (imolUpd_assignByPhase tim _ _ _ w2 w' (fun r hr => hr) h))
      · cases h



theorem ofExcept_bind_ok (x : Except Err World) (f : World → World) (w' : World)
    (h : Res.ofExcept (do let w1 ← x; pure (f w1)) = Res.ok w') : ∃ w1, x = .ok w1 ∧ w' = f w1 := by
  cases x with
  | error e => simp [Res.ofExcept, bind, Except.bind] at h
  | ok w1 =>
    simp [Res.ofExcept, bind, Except.bind, pure, Except.pure] at h
    exact ⟨w1, rfl, h.symm⟩

/-- the final `ThermalCondition.copy_like` -/
theorem writes_tcCopyLike (w : World) (t s : Nat) : Writes w (w.tcCopyLike t s) (· = (w.strs t).tc) none' :=
  writes_setTc w _ _

/-- closure for the target and the source after an in-place change of the target's indexer -/
theorem closure_imolUpd {w w1 : World} {t s : Nat} (hsc : Scoped w) (ht : t < w.nS) (hs : s < w.nS)
    (h : ImolUpd w w1 (w.strs t).imol) :
    OpSpec w [t, s] (w1.tcCopyLike t s) := by
  have hMlt : ∀ y, w.M [t, s] y → y < w.next := by
    rintro y ⟨k, hk, hy⟩
    simp at hk
    rcases hk with rfl | rfl
    · exact hsc _ ht y hy
    · exact hsc _ hs y hy
  constructor
  · refine (h.writes.mono ?_ (fun _ _ h => h.elim)).seq ((writes_tcCopyLike w1 t s).mono ?_ (fun _ _ h => h.elim))
    · intro x _ hx; exact M_pair_left (by simp [World.fp, hx])
    · intro x _ hx _; subst hx; rw [h.strs]; exact M_pair_left (mem_fp_tc w t)
  · intro j hlt x hx
    have hnS : (w1.tcCopyLike t s).nS = w.nS := by simp [World.tcCopyLike, h.nS]
    have hlt2 : j < w.nS := by omega
    have hnext : (w1.tcCopyLike t s).next = w1.next := by simp [World.tcCopyLike]
    simp only [World.fp, World.tcCopyLike, setTc_strs, h.strs, List.mem_cons] at hx
    have key : x ∈ w.fp j ∨ w.M [t, s] x ∨ (w.next ≤ x ∧ x < w1.next) := by
      rcases hx with rfl | rfl | hx
      · exact Or.inl (mem_fp_tc w j)
      · exact Or.inl (mem_fp_cf w j)
      · rw [fpImol_of_agree (w := w1) (by simp) (by simp)] at hx
        rcases h.fpImol_sub _ x hx with h | h | h
        · exact Or.inl (by simp [World.fp, h])
        · exact Or.inr (Or.inl (M_pair_left (by simp [World.fp, h])))
        · exact Or.inr (Or.inr h)
    rcases key with hM | hM | hf
    · exact ⟨Or.inl ⟨hlt2, hM⟩, by rw [hnext]; exact Nat.lt_of_lt_of_le (hsc j hlt2 x hM) h.next_le⟩
    · exact ⟨Or.inr (Or.inl hM), by rw [hnext]; exact Nat.lt_of_lt_of_le (hMlt x hM) h.next_le⟩
    · exact ⟨Or.inr (Or.inr hf.1), by rw [hnext]; exact hf.2⟩


theorem ImolUpd.of_struct {w w1 : World} {tim : Nat} (hw : Writes w w1 (· ∈ w.fpImol tim) none')
    (himols : w1.imols = w.imols) (harrs : w1.arrs = w.arrs) (hstrs : w1.strs = w.strs) (hnS : w1.nS = w.nS)
    (htcs : w1.tcs = w.tcs) (hcfs : w1.cfs = w.cfs) : ImolUpd w w1 tim :=
  ⟨hw, hstrs, hnS, htcs, hcfs, fun _ _ => by rw [himols], fun _ _ h => ⟨by rw [himols]; exact h, harrs⟩,
   fun ps a h => ⟨⟨ps, by rw [himols]; exact h⟩, fun _ _ => by rw [harrs],
     fun x hx => Or.inl (by rw [harrs] at hx; simp [World.fpImol, h, hx])⟩⟩

theorem imolUpd_chemCopyLike {w : World} {tim tph trow : Nat} (hm : w.imols tim = .chem tph trow)
    (same : Bool) (tpkg : List Nat) (sr : Nat) (sp : Ph) (spkg : List Nat) (w' : World)
    (h : w.chemCopyLike same tph trow tpkg sr sp spkg = .ok w') : ImolUpd w w' tim := by
  obtain ⟨hw, h1, h2, h3, h4, _, h6, h7⟩ := chemCopyLike_spec w same tph trow tpkg sr sp spkg w' h
  refine ImolUpd.of_struct (hw.mono ?_ (fun _ _ h => h)) h1 h2 h3 h4 h6 h7
  intro x _ hx
  simp only [World.fpImol, hm]
  rcases hx with rfl | rfl <;> simp

theorem spec_copyLike (w : World) (t s : Nat) (w' : World) (hsc : Scoped w) (ht : t < w.nS) (hs : s < w.nS)
    (h : w.copyLike t s = .ok w') : OpSpec w [t, s] w' := by
  unfold World.copyLike at h
  simp only at h
  split at h
  · cases h
  · cases hmt : w.imols (w.strs t).imol with
    | chem tph trow =>
      cases hms : w.imols (w.strs s).imol with
      | chem sph srow =>
        simp only [hmt, hms] at h
        split at h
        · cases h
          exact closure_imolUpd hsc ht hs (ImolUpd.refl _ _)
        · obtain ⟨w1, h1, rfl⟩ := ofExcept_bind_ok _ _ _ h
          exact closure_imolUpd hsc ht hs (imolUpd_chemCopyLike hmt _ _ _ _ _ _ h1)
      | mat qs sa =>
        simp only [hmt, hms] at h
        split at h
        · next q =>
          -- one-phase MultiStream source
          obtain ⟨w1, h1, rfl⟩ := ofExcept_bind_ok _ _ _ h
          have h0 : ImolUpd w (w.setPh tph q) (w.strs t).imol :=
            ImolUpd.of_struct ((writes_setPh w tph q).mono (by
              intro x _ hx; subst hx; simp [World.fpImol, hmt]) (fun _ _ h => h)) rfl rfl rfl rfl rfl rfl
          have hmt' : (w.setPh tph q).imols (w.strs t).imol = .chem tph trow := by simpa using hmt
          exact closure_imolUpd hsc ht hs (h0.trans (imolUpd_chemCopyLike hmt' _ _ _ _ _ _ h1))
        · -- the target becomes a MultiStream
          obtain ⟨w3, h3, rfl⟩ := ofExcept_bind_ok _ _ _ h
          have hB := blankMat_spec w (normPh qs)
          generalize hb : w.blankMat (normPh qs) = b at h3 hB
          obtain ⟨w1, im⟩ := b
          simp only at h3 hB
          have hU := matCopyFromMat_spec _ _ _ _ _ _ _ h3
          have hts : t ≠ s := by intro h; subst h; rw [hmt] at hms; cases hms
          have hnext1 := hB.writes.next
          have hfresh2 : ∀ x ∈ (w1.setStr t { w.strs t with imol := im }).fpImol im, w.next ≤ x ∧ x < w1.next := by
            intro x hx
            rw [fpImol_of_agree (w := w1) (by simp) (by simp)] at hx
            exact hB.fresh x hx
          have hstr3 : w3.strs = upd w.strs t { w.strs t with imol := im } := by rw [hU.strs]; simp [hB.strs]
          constructor
          · refine hB.writes.of_none.seq (((writes_setStr _ t _).mono (fun _ _ h => h.elim)
              (fun i _ h => by intros; simp [h])).seq ((hU.writes.mono ?_ (fun _ _ h => h.elim)).seq
              ((writes_tcCopyLike w3 t s).mono ?_ (fun _ _ h => h.elim))))
            · intro x _ hx _ h2
              have := (hfresh2 x hx).1
              omega
            · intro x _ hx _ _ _
              subst hx
              rw [hstr3]; simp
              exact M_pair_left (mem_fp_tc w t)
          · intro j hlt x hx
            have hnS : (w3.tcCopyLike t s).nS = w.nS := by simp [World.tcCopyLike, hU.nS, hB.nS]
            have hnext : (w3.tcCopyLike t s).next = w3.next := by simp [World.tcCopyLike]
            have hn3 : w1.next ≤ w3.next := by simpa using hU.next_le
            have hlt2 : j < w.nS := by omega
            rw [hnext]
            simp only [World.fp, World.tcCopyLike, setTc_strs, hstr3, List.mem_cons] at hx
            by_cases hjt : j = t
            · -- the target: its indexer is new
              subst hjt
              simp only [upd_same] at hx
              rcases hx with rfl | rfl | hx
              · exact ⟨Or.inr (Or.inl (M_pair_left (mem_fp_tc w j))), by have := hsc j ht _ (mem_fp_tc w j); omega⟩
              · exact ⟨Or.inr (Or.inl (M_pair_left (mem_fp_cf w j))), by have := hsc j ht _ (mem_fp_cf w j); omega⟩
              · rw [fpImol_of_agree (w := w3) (by simp) (by simp)] at hx
                rcases hU.fpImol_sub im x hx with h | h | h
                · have := hfresh2 x h; exact ⟨Or.inr (Or.inr this.1), by omega⟩
                · have := hfresh2 x h; exact ⟨Or.inr (Or.inr this.1), by omega⟩
                · simp at h; exact ⟨Or.inr (Or.inr (by omega)), h.2⟩
            · -- any other stream: untouched
              simp only [upd_ne _ _ _ _ hjt] at hx
              have hold : ∀ y ∈ w.fp j, (j < w.nS ∧ y ∈ w.fp j) ∧ y < w3.next := by
                intro y hy
                exact ⟨⟨hlt2, hy⟩, by have := hsc j hlt2 y hy; omega⟩
              have hs := hlt2
              rcases hx with rfl | rfl | hx
              · exact ⟨Or.inl (hold _ (mem_fp_tc w j)).1, (hold _ (mem_fp_tc w j)).2⟩
              · exact ⟨Or.inl (hold _ (mem_fp_cf w j)).1, (hold _ (mem_fp_cf w j)).2⟩
              · rw [fpImol_of_agree (w := w3) (by simp) (by simp)] at hx
                rcases hU.fpImol_sub (w.strs j).imol x hx with h | h | h
                · -- objects of the source in the world with the blank indexer: the same as before
                  have hsame : (w1.setStr t { w.strs t with imol := im }).fpImol (w.strs j).imol
                      = w.fpImol (w.strs j).imol := by
                    rw [fpImol_of_agree (w := w1) (by simp) (by simp)]
                    have hi := hsc j hs _ (mem_fp_imol w j)
                    apply fpImol_congr
                    · exact (hB.writes.agree _ hi (fun h => h)).2.2.2.2.2
                    · intro ps a hm
                      exact (hB.writes.agree _ (hsc j hs a (mem_fp_mat hm).1) (fun h => h)).2.2.2.2.1
                  rw [hsame] at h
                  have := hold x (by simp [World.fp, h])
                  exact ⟨Or.inl this.1, this.2⟩
                · have := hfresh2 x h; exact ⟨Or.inr (Or.inr this.1), by omega⟩
                · simp at h; exact ⟨Or.inr (Or.inr (by omega)), h.2⟩
    | mat ps ta =>
      cases hms : w.imols (w.strs s).imol with
      | chem sph srow =>
        simp only [hmt, hms] at h
        obtain ⟨w1, h1, rfl⟩ := ofExcept_bind_ok _ _ _ h
        exact closure_imolUpd hsc ht hs (matCopyFromChem_spec _ _ _ _ _ _ _ _ h1)
      | mat qs sa =>
        simp only [hmt, hms] at h
        obtain ⟨w1, h1, rfl⟩ := ofExcept_bind_ok _ _ _ h
        exact closure_imolUpd hsc ht hs (matCopyFromMat_spec _ _ _ _ _ _ _ h1)



/-! ### every operation; histories -/

/-- changing non-pointer slots (price, package, ID) of a stream keeps an operation's specification -/
theorem OpSpec.setStr_same {w w' : World} {ids : List Nat} (h : OpSpec w ids w') (i : Nat) (hi : w.nS ≤ i)
    (st : Stream) (h1 : st.imol = (w'.strs i).imol) (h2 : st.tc = (w'.strs i).tc) (h3 : st.cf = (w'.strs i).cf) :
    OpSpec w ids (w'.setStr i st) := by
  have hfp : ∀ j, (w'.setStr i st).fp j = w'.fp j := by
    intro j
    by_cases hj : j = i
    · subst hj; simp [World.fp, World.fpImol, h1, h2, h3]
    · simp [World.fp, World.fpImol, upd_ne _ _ _ _ hj]
  refine ⟨h.writes.seq ((writes_setStr w' i st).mono (fun _ _ h => h.elim) ?_), ?_⟩
  · intro j _ hj hlt; omega
  · intro j hj x hx
    rw [hfp j] at hx
    exact h.closure j (by simpa using hj) x hx

theorem spec_copyTo (w : World) (s pid : Nat) (pkg : List Nat) (w' : World) (i : Nat) (hsc : Scoped w)
    (hs : s < w.nS) (h : w.copyTo s pid pkg = .ok (w', i)) : OpSpec w [s] w' := by
  unfold World.copyTo at h
  simp only at h
  split at h
  · cases h; exact spec_copy w s hsc hs
  · split at h
    · cases h
      exact (spec_copy w s hsc hs).setStr_same _ (by rw [(copy_fresh w s).1]; omega) _ rfl rfl rfl
    · cases h

theorem spec_pickle (w : World) (s : Nat) (hsc : Scoped w) (hs : s < w.nS) : OpSpec w [s] (w.pickle s).1 := by
  obtain ⟨h1, _, h3, h4, _⟩ := rebuild_spec w (w.pickleArgs s)
  exact spec_of_fresh hsc (by simpa using hs) h1 h3 (fun x hx => ⟨Or.inr (h4 x hx).1, (h4 x hx).2⟩)

/-- Every operation writes only objects of the streams it mentions and keeps footprints closed. -/
theorem exec_spec (w : World) (op : Op) (w' : World) (hsc : Scoped w) (hids : ∀ i ∈ op.ids, i < w.nS)
    (h : w.exec op = .ok w') : OpSpec w op.ids w' := by
  cases op with
  | new a =>
    simp only [World.exec] at h
    cases hc : w.ctor a with
    | error e => simp [hc, Res.ofExcept] at h
    | ok p =>
      simp [hc, Res.ofExcept] at h
      subst h
      exact spec_ctor w a p.1 p.2 hsc hc
  | setFlow s p c v =>
    simp only [World.exec] at h
    cases hc : w.setFlow s p c v with
    | error e => simp [hc, Res.ofExcept] at h
    | ok w1 =>
      simp [hc, Res.ofExcept] at h
      subst h
      exact spec_setFlow w s p c v w1 hsc (hids s (by simp [Op.ids])) hc
  | setT s v => simp only [World.exec] at h; cases h; exact spec_setT w s v hsc (hids s (by simp [Op.ids]))
  | setP s v => simp only [World.exec] at h; cases h; exact spec_setP w s v hsc (hids s (by simp [Op.ids]))
  | setPhase s p => simp only [World.exec] at h; cases h; exact spec_setPhase w s p hsc (hids s (by simp [Op.ids]))
  | empty s => simp only [World.exec] at h; cases h; exact spec_empty w s hsc (hids s (by simp [Op.ids]))
  | setPrice s v => simp only [World.exec] at h; cases h; exact spec_setPrice w s v hsc (hids s (by simp [Op.ids]))
  | setCF s k v => simp only [World.exec] at h; cases h; exact spec_setCF w s k v hsc (hids s (by simp [Op.ids]))
  | copy s => simp only [World.exec] at h; cases h; exact spec_copy w s hsc (hids s (by simp [Op.ids]))
  | copyTo s pid pkg =>
    simp only [World.exec] at h
    cases hc : w.copyTo s pid pkg with
    | error e => simp [hc, Res.ofExcept] at h
    | ok p =>
      simp [hc, Res.ofExcept] at h
      subst h
      exact spec_copyTo w s pid pkg p.1 p.2 hsc (hids s (by simp [Op.ids])) hc
  | copyLike t s =>
    simp only [World.exec] at h
    exact spec_copyLike w t s w' hsc (hids t (by simp [Op.ids])) (hids s (by simp [Op.ids])) h
  | copyTC t s =>
    simp only [World.exec] at h; cases h
    exact spec_copyTC w t s hsc (hids t (by simp [Op.ids])) (hids s (by simp [Op.ids]))
  | link t s f p tp =>
    simp only [World.exec] at h
    exact spec_link w t s f p tp w' hsc (hids t (by simp [Op.ids])) (hids s (by simp [Op.ids])) h
  | unlink s => simp only [World.exec] at h; cases h; exact spec_unlink w s hsc (hids s (by simp [Op.ids]))
  | proxy s => simp only [World.exec] at h; cases h; exact spec_proxy w s hsc (hids s (by simp [Op.ids]))
  | flowProxy s => simp only [World.exec] at h; cases h; exact spec_flowProxy w s hsc (hids s (by simp [Op.ids]))
  | pickle s => simp only [World.exec] at h; cases h; exact spec_pickle w s hsc (hids s (by simp [Op.ids]))

theorem step_spec (w : World) (op : Op) (w' : World) (hsc : Scoped w) (h : w.step op = .ok w') :
    OpSpec w op.ids w' ∧ ∀ i ∈ op.ids, i < w.nS := by
  unfold World.step at h
  split at h
  · rename_i hall
    have hids : ∀ i ∈ op.ids, i < w.nS := by simpa using hall
    exact ⟨exec_spec w op w' hsc hids h, hids⟩
  · cases h


theorem scoped_init : Scoped World.init := by
  intro i hi; simp [World.init] at hi

theorem scoped_step (w : World) (op : Op) (w' : World) (hsc : Scoped w) (h : w.step op = .ok w') :
    Scoped w' := by
  obtain ⟨hs, _⟩ := step_spec w op w' hsc h
  intro j hj x hx
  exact (hs.closure j hj x hx).2

theorem scoped_run (ops : List Op) : ∀ w : World, Scoped w → Scoped (w.run ops) := by
  induction ops with
  | nil => intro w h; exact h
  | cons op ops ih =>
    intro w h
    simp only [World.run]
    cases hst : w.step op with
    | ok w' => exact ih w' (scoped_step w op w' h hst)
    | skip => exact ih w h
    | err e => exact h

/-- Frame: an operation does not change a stream that it does not mention and that shares no
object with the streams it mentions. -/
theorem frame_step (w : World) (op : Op) (w' : World) (hsc : Scoped w) (h : w.step op = .ok w')
    (j : Nat) (hj : j < w.nS) (hni : j ∉ op.ids) (hd : ∀ i ∈ op.ids, ∀ x ∈ w.fp j, x ∉ w.fp i) :
    w'.fp j = w.fp j ∧ w'.observe j = w.observe j := by
  obtain ⟨hs, _⟩ := step_spec w op w' hsc h
  apply frame_of_writes hsc hs.writes j hj hni
  rintro x hx ⟨i, hi, hxi⟩
  exact hd i hi x hx hxi

/-- two groups of streams (sides `true` / `false`) that share no object -/
def Sep (w : World) (σ : Nat → Bool) : Prop :=
  ∀ i j, i < w.nS → j < w.nS → σ i ≠ σ j → ∀ x ∈ w.fp i, x ∉ w.fp j

/-- the sides after an operation acting on side `X`: streams it creates join that side -/
def sideStep (w : World) (σ : Nat → Bool) (X : Bool) : Nat → Bool := fun i => if i < w.nS then σ i else X

/-- An operation that mentions streams of one side only keeps the two sides separate and is
invisible on the other side. -/
theorem sep_step (w : World) (σ : Nat → Bool) (op : Op) (X : Bool) (w' : World) (hsc : Scoped w)
    (hsep : Sep w σ) (hside : ∀ i ∈ op.ids, σ i = X) (h : w.step op = .ok w') :
    Sep w' (sideStep w σ X) ∧ ∀ j, j < w.nS → σ j ≠ X → w'.fp j = w.fp j ∧ w'.observe j = w.observe j := by
  obtain ⟨hs, hids⟩ := step_spec w op w' hsc h
  have hframe : ∀ j, j < w.nS → σ j ≠ X → w'.fp j = w.fp j ∧ w'.observe j = w.observe j := by
    intro j hj hσ
    apply frame_step w op w' hsc h j hj
    · intro hmem; exact hσ (hside j hmem)
    · intro i hi x hx
      exact hsep j i hj (hids i hi) (by rw [hside i hi]; exact hσ) x hx
  refine ⟨?_, hframe⟩
  -- one direction, then symmetry
  have key : ∀ i j, i < w'.nS → j < w'.nS → sideStep w σ X i = X → sideStep w σ X j ≠ X →
      ∀ x ∈ w'.fp i, x ∉ w'.fp j := by
    intro i j hi hj hσi hσj x hxi hxj
    have hjold : j < w.nS := by
      by_cases hlt : j < w.nS
      · exact hlt
      · simp [sideStep, hlt] at hσj
    have hσj' : σ j ≠ X := by simpa [sideStep, hjold] using hσj
    rw [(hframe j hjold hσj').1] at hxj
    have hxlt := hsc j hjold x hxj
    rcases (hs.closure i hi x hxi).1 with ⟨hiold, hx⟩ | ⟨k, hk, hx⟩ | hfresh
    · have hσi' : σ i = X := by simpa [sideStep, hiold] using hσi
      exact hsep i j hiold hjold (by rw [hσi']; exact fun h => hσj' h.symm) x hx hxj
    · exact hsep k j (hids k hk) hjold (by rw [hside k hk]; exact fun h => hσj' h.symm) x hx hxj
    · omega
  intro i j hi hj hne x hxi hxj
  by_cases hσi : sideStep w σ X i = X
  · exact key i j hi hj hσi (fun h => hne (hσi.trans h.symm)) x hxi hxj
  · have hσj : sideStep w σ X j = X := by
      cases hX : X <;> cases h1 : sideStep w σ X i <;> cases h2 : sideStep w σ X j <;> simp_all
    exact key j i hj hi hσj hσi x hxj hxi

/-- A history whose operations are labelled with the side they act on. -/
def runSided (w : World) (σ : Nat → Bool) : List (Op × Bool) → World × (Nat → Bool)
  | [] => (w, σ)
  | (op, X) :: rest =>
    match w.step op with
    | .ok w' => runSided w' (sideStep w σ X) rest
    | .skip => runSided w σ rest
    | .err _ => (w, σ)

/-- every operation of the history mentions streams of its own side only (sides as they are when it runs) -/
def OneSided (w : World) (σ : Nat → Bool) : List (Op × Bool) → Prop
  | [] => True
  | (op, X) :: rest =>
    (∀ i ∈ op.ids, σ i = X) ∧
    match w.step op with
    | .ok w' => OneSided w' (sideStep w σ X) rest
    | .skip => OneSided w σ rest
    | .err _ => True

theorem runSided_world (l : List (Op × Bool)) : ∀ (w : World) (σ : Nat → Bool),
    (runSided w σ l).1 = w.run (l.map Prod.fst) := by
  induction l with
  | nil => intro w σ; rfl
  | cons p l ih =>
    intro w σ
    obtain ⟨op, X⟩ := p
    simp only [runSided, List.map_cons, World.run]
    cases w.step op with
    | ok w' => exact ih w' _
    | skip => exact ih w σ
    | err e => rfl

/-- Separation is kept along every one-sided history, and a stream never sees the operations
of the other side: if every operation of the history acts on the side opposite to stream `j`,
its observation (and footprint) at the end is what it was at the start. -/
theorem sep_run (l : List (Op × Bool)) : ∀ (w : World) (σ : Nat → Bool), Scoped w → Sep w σ → OneSided w σ l →
    Scoped (runSided w σ l).1 ∧ Sep (runSided w σ l).1 (runSided w σ l).2 ∧
    ∀ j, j < w.nS → (∀ p ∈ l, p.2 ≠ σ j) →
      (runSided w σ l).1.fp j = w.fp j ∧ (runSided w σ l).1.observe j = w.observe j := by
  induction l with
  | nil => intro w σ hsc hsep _; exact ⟨hsc, hsep, fun _ _ _ => ⟨rfl, rfl⟩⟩
  | cons p l ih =>
    intro w σ hsc hsep hone
    obtain ⟨op, X⟩ := p
    simp only [OneSided] at hone
    obtain ⟨hside, hrest⟩ := hone
    simp only [runSided]
    cases hst : w.step op with
    | ok w' =>
      rw [hst] at hrest
      simp only at hrest ⊢
      obtain ⟨hsep', hframe⟩ := sep_step w σ op X w' hsc hsep hside hst
      have hsc' := scoped_step w op w' hsc hst
      obtain ⟨a, b, c⟩ := ih w' (sideStep w σ X) hsc' hsep' hrest
      refine ⟨a, b, ?_⟩
      intro j hj hall
      have hX : σ j ≠ X := fun h => hall (op, X) (by simp) h.symm
      obtain ⟨f1, f2⟩ := hframe j hj hX
      have hnS : w.nS ≤ w'.nS := (step_spec w op w' hsc hst).1.writes.nS
      obtain ⟨g1, g2⟩ := c j (by omega) (by
        intro q hq
        have := hall q (by simp [hq])
        simpa [sideStep, hj] using this)
      exact ⟨g1.trans f1, g2.trans f2⟩
    | skip =>
      rw [hst] at hrest
      simp only at hrest ⊢
      obtain ⟨a, b, c⟩ := ih w σ hsc hsep hrest
      exact ⟨a, b, fun j hj hall => c j hj (fun q hq => hall q (by simp [hq]))⟩
    | err e =>
      exact ⟨hsc, hsep, fun _ _ _ => ⟨rfl, rfl⟩⟩



/-! ### contents after the row loops -/

theorem clearRows_rows (l : List Nat) : ∀ (w : World) (x : Nat),
    (w.clearRows l).rows x = if x ∈ l then Row.zero else w.rows x := by
  induction l with
  | nil => intro w x; simp [World.clearRows]
  | cons i is ih =>
    intro w x
    simp only [World.clearRows, ih]
    by_cases hx : x ∈ is
    · simp [hx]
    · by_cases hxi : x = i
      · subst hxi; simp [hx]
      · simp [hx, hxi, upd_ne _ _ _ _ hxi]

theorem copyRowsSeq_other (l : List (Nat × Nat)) : ∀ (w : World) (x : Nat), x ∉ l.map Prod.fst →
    (w.copyRowsSeq l).rows x = w.rows x := by
  induction l with
  | nil => intro w x _; rfl
  | cons p ps ih =>
    intro w x hx
    obtain ⟨t, s⟩ := p
    simp at hx
    simp only [World.copyRowsSeq]
    rw [ih _ x (by simpa using hx.2)]
    simp [upd_ne _ _ _ _ hx.1]

/-- `SparseArray.copy_like` row by row: distinct targets, none of them a source -/
theorem copyRowsSeq_read (ts : List Nat) : ∀ (ss : List Nat) (w : World), ts.Nodup → (∀ t ∈ ts, t ∉ ss) →
    ts.length = ss.length → ts.map (w.copyRowsSeq (ts.zip ss)).rows = ss.map w.rows := by
  induction ts with
  | nil => intro ss w _ _ hl; cases ss <;> simp_all
  | cons t ts ih =>
    intro ss w hnd hdis hl
    cases ss with
    | nil => simp at hl
    | cons s ss =>
      simp at hl hnd
      simp only [List.zip_cons_cons, World.copyRowsSeq, List.map_cons]
      have hts : t ≠ s := fun h => hdis t (by simp) (by simp [h])
      rw [ih ss _ hnd.2 (fun x hx hxs => hdis x (by simp [hx]) (by simp [hxs])) hl]
      congr 1
      · rw [copyRowsSeq_other]
        · simp
        · intro hmem
          simp at hmem
          obtain ⟨b, hb⟩ := hmem
          exact hnd.1 (List.of_mem_zip hb).1
      · apply List.map_congr_left
        intro r hr
        have : r ≠ t := fun h => hdis t (by simp) (by simp [← h, hr])
        simp [upd_ne _ _ _ _ this]


theorem idxOf?_lt {α : Type} [BEq α] [LawfulBEq α] (l : List α) (a : α) (i : Nat) (h : l.idxOf? a = some i) :
    i < l.length ∧ l[i]? = some a := by
  induction l generalizing i with
  | nil => simp [List.idxOf?] at h
  | cons x xs ih =>
    simp only [List.idxOf?_cons] at h
    by_cases hx : x == a
    · simp [hx] at h; subst h; simp at hx; simp [hx]
    · simp [hx] at h
      obtain ⟨j, hj, rfl⟩ := h
      have := ih j hj
      refine ⟨by simp; omega, ?_⟩
      simpa using this.2

theorem phIdx_lt (tps : List Ph) (p : Ph) (m : Nat) (h : phIdx tps p = some m) : m < tps.length := by
  unfold phIdx at h
  split at h
  · next i hi => cases h; exact (idxOf?_lt _ _ _ hi).1
  · split at h
    · next q _ => exact (idxOf?_lt _ _ _ h).1
    · cases h

/-- the loop `for phase, row in other: rows[phase_indexer(phase)] := row` -/
theorem assignByPhase_spec (tps : List Ph) (trows : List Nat) (d : Nat) (l : List (Ph × Nat)) :
    ∀ (w w' : World), w.assignByPhase tps trows d l = .ok w' → l.Nodup →
      (∀ a ∈ l, ∀ b ∈ l, phIdx tps a.1 = phIdx tps b.1 → phIdx tps a.1 ≠ none → a = b) →
      (∀ m, m < tps.length → ∀ b ∈ l, trows.getD m d ≠ b.2) →
      (∀ m n, m < tps.length → n < tps.length → trows.getD m d = trows.getD n d → m = n) →
      (∀ a ∈ l, ∃ m, phIdx tps a.1 = some m ∧ w'.rows (trows.getD m d) = w.rows a.2) ∧
      (∀ x, (∀ a ∈ l, ∀ m, phIdx tps a.1 = some m → trows.getD m d ≠ x) → w'.rows x = w.rows x) := by
  induction l with
  | nil => intro w w' h _ _ _ _; cases h; simp
  | cons a l ih =>
    intro w w' h hnd hinj hdis hdist
    obtain ⟨q, sr⟩ := a
    simp only [World.assignByPhase] at h
    split at h
    · cases h
    · next k hk =>
      simp at hnd
      obtain ⟨ih1, ih2⟩ := ih _ w' h hnd.2
        (fun a ha b hb => hinj a (by simp [ha]) b (by simp [hb]))
        (fun m hm b hb => hdis m hm b (by simp [hb]))
        hdist
      constructor
      · intro a ha
        simp at ha
        rcases ha with rfl | ha
        · refine ⟨k, hk, ?_⟩
          rw [ih2]
          · simp
          · intro b hb m hm heq
            have hmk : m = k := hdist m k (phIdx_lt _ _ _ hm) (phIdx_lt _ _ _ hk) heq
            subst hmk
            have := hinj b (by simp [hb]) (q, sr) (by simp) (by simp [hm, hk]) (by simp [hm])
            subst this
            exact hnd.1 hb
        · obtain ⟨m, hm, hr⟩ := ih1 a ha
          refine ⟨m, hm, ?_⟩
          rw [hr]
          have := hdis k (phIdx_lt _ _ _ hk) a (by simp [ha])
          show upd w.rows (trows.getD k d) (w.rows sr) a.2 = w.rows a.2
          exact upd_ne _ _ _ _ (Ne.symm this)
      · intro x hx
        rw [ih2 x (fun a ha m hm => hx a (by simp [ha]) m hm)]
        have := hx (q, sr) (by simp) k hk
        show upd w.rows (trows.getD k d) (w.rows sr) x = w.rows x
        exact upd_ne _ _ _ _ (Ne.symm this)


theorem nodup_map_on' {α β : Type} (f : α → β) : ∀ (l : List α), (∀ x ∈ l, ∀ y ∈ l, f x = f y → x = y) → l.Nodup →
    (l.map f).Nodup := by
  intro l
  induction l with
  | nil => intro _ _; simp
  | cons a l ih =>
    intro h hnd
    rw [List.nodup_cons] at hnd
    simp only [List.map_cons, List.nodup_cons]
    refine ⟨?_, ih (fun x hx y hy => h x (by simp [hx]) y (by simp [hy])) hnd.2⟩
    intro hmem
    simp only [List.mem_map] at hmem
    obtain ⟨b, hb, hfb⟩ := hmem
    have := h b (by simp [hb]) a (by simp) hfb
    subst this
    exact hnd.1 hb

theorem nodup_getElem_inj' {α : Type} : ∀ (l : List α), l.Nodup → ∀ i j (hi : i < l.length) (hj : j < l.length),
    l[i] = l[j] → i = j := by
  intro l hnd i j hi hj h
  rw [List.nodup_iff_pairwise_ne, List.pairwise_iff_getElem] at hnd
  rcases Nat.lt_trichotomy i j with hlt | heq | hgt
  · exact absurd h (hnd i j hi hj hlt)
  · exact heq
  · exact absurd h.symm (hnd j i hj hi hgt)

/-! ### phase tuples -/

theorem Ph.all_nodup : Ph.all.Nodup := by decide

theorem mem_Ph_all (p : Ph) : p ∈ Ph.all := by cases p <;> decide

theorem normPh_nodup (l : List Ph) : (normPh l).Nodup := List.Nodup.sublist List.filter_sublist Ph.all_nodup

theorem mem_normPh (l : List Ph) (p : Ph) : p ∈ normPh l ↔ p ∈ l := by
  simp [normPh, mem_Ph_all]

theorem normPh_congr (l l' : List Ph) (h : ∀ p, p ∈ l ↔ p ∈ l') : normPh l = normPh l' := by
  unfold normPh
  apply List.filter_congr
  intro p _
  simp [h p]

theorem normPh_idem_append (ps other : List Ph) (hnp : normPh ps = ps) (hsub : ∀ p ∈ other, p ∈ ps) :
    normPh (ps ++ other) = ps := by
  rw [← hnp]
  apply normPh_congr
  intro p
  rw [hnp]
  simp
  exact hsub p

theorem idxOf?_some_of_mem {α : Type} [BEq α] [LawfulBEq α] (l : List α) (a : α) (h : a ∈ l) :
    ∃ i, l.idxOf? a = some i := by
  induction l with
  | nil => simp at h
  | cons x xs ih =>
    simp only [List.idxOf?_cons]
    by_cases hx : x == a
    · exact ⟨0, by simp [hx]⟩
    · have : a ∈ xs := by
        simp at h hx
        rcases h with h | h
        · exact absurd h.symm hx
        · exact h
      obtain ⟨i, hi⟩ := ih this
      exact ⟨i + 1, by simp [hx, hi]⟩

theorem idxOf?_none_of_not_mem {α : Type} [BEq α] [LawfulBEq α] (l : List α) (a : α) (h : a ∉ l) :
    l.idxOf? a = none := by
  induction l with
  | nil => simp [List.idxOf?]
  | cons x xs ih =>
    simp only [List.idxOf?_cons]
    simp at h
    have hx : (x == a) = false := by simp; exact fun h' => h.1 h'.symm
    simp [hx, ih h.2]

/-- `_expand_phases`, what matters when the rows are emptied afterwards -/
theorem expand_spec (w : World) (tim : Nat) (other ps : List Ph) (a : Nat) (hm : w.imols tim = .mat ps a)
    (hnp : normPh ps = ps) (hlen : (w.arrs a).length = ps.length) (hnd : (w.arrs a).Nodup)
    (hlt : ∀ r ∈ w.arrs a, r < w.next) :
    (w.expand tim other).imols tim = .mat (normPh (ps ++ other)) a ∧
    ((w.expand tim other).arrs a).length = (normPh (ps ++ other)).length ∧
    ((w.expand tim other).arrs a).Nodup ∧
    (∀ r ∈ (w.expand tim other).arrs a, r ∈ w.arrs a ∨ (w.next ≤ r ∧ r < (w.expand tim other).next)) ∧
    (∀ x, x < w.next → (w.expand tim other).rows x = w.rows x) ∧
    (∀ r ∈ (w.expand tim other).arrs a, w.next ≤ r → (w.expand tim other).rows r = Row.zero) ∧
    (w.expand tim other).phs = w.phs ∧ (w.expand tim other).tcs = w.tcs ∧ (w.expand tim other).strs = w.strs ∧
    (∀ y, y ≠ tim → (w.expand tim other).imols y = w.imols y) ∧
    (∀ y, y ≠ a → (w.expand tim other).arrs y = w.arrs y) ∧ w.next ≤ (w.expand tim other).next := by
  unfold World.expand
  simp only [hm]
  split
  · next hemp =>
    have hsub : ∀ p ∈ other, p ∈ ps := by
      intro p hp
      apply Decidable.byContradiction
      intro hnot
      have : p ∈ (normPh other).filter fun p => !ps.contains p := by
        simp [mem_normPh, hp, hnot]
      rw [List.isEmpty_iff] at hemp
      rw [hemp] at this
      simp at this
    rw [normPh_idem_append ps other hnp hsub]
    exact ⟨hm, hlen, hnd, fun r hr => Or.inl hr, fun _ _ => rfl,
      fun r hr hge => absurd (hlt r hr) (by omega), rfl, rfl, rfl, fun _ _ => rfl, fun _ _ => rfl,
      Nat.le_refl _⟩
  · generalize hnewp : ((normPh other).filter fun p => !ps.contains p) = newp
    have hfresh : (w.newRows (newp.map fun _ => Row.zero)).2 = List.range' w.next newp.length := by
      rw [newRows_ids]; simp
    have hnewp_nd : newp.Nodup := by rw [← hnewp]; exact List.Nodup.sublist List.filter_sublist (normPh_nodup _)
    have hnewp_mem : ∀ p, p ∈ newp ↔ (p ∈ other ∧ p ∉ ps) := by
      intro p; rw [← hnewp]; simp [mem_normPh]
    -- the row chosen for phase `p`
    let f : Ph → Nat := fun p =>
      match ps.idxOf? p with
      | some i => (w.arrs a).getD i a
      | none => (w.newRows (newp.map fun _ => Row.zero)).2.getD ((newp.idxOf? p).getD 0) a
    have hf_old : ∀ p ∈ ps, f p ∈ w.arrs a ∧ ∃ i, ps.idxOf? p = some i ∧ (w.arrs a)[i]? = some (f p) := by
      intro p hp
      obtain ⟨i, hi⟩ := idxOf?_some_of_mem ps p hp
      have hil := (idxOf?_lt ps p i hi).1
      have : f p = (w.arrs a).getD i a := by simp [f, hi]
      have hi' : i < (w.arrs a).length := by omega
      rw [this]
      simp [List.getD_eq_getElem?_getD, List.getElem?_eq_getElem hi']
      exact ⟨i, hi, List.getElem?_eq_getElem hi'⟩
    have hf_new : ∀ p, p ∉ ps → p ∈ newp → w.next ≤ f p ∧ f p < w.next + newp.length ∧
        ∃ j, newp.idxOf? p = some j ∧ f p = w.next + j := by
      intro p hp hpn
      obtain ⟨j, hj⟩ := idxOf?_some_of_mem newp p hpn
      have hjl := (idxOf?_lt newp p j hj).1
      have hnone := idxOf?_none_of_not_mem ps p hp
      have : f p = w.next + j := by
        simp only [f, hnone, hj, Option.getD_some, hfresh]
        simp [List.getD_eq_getElem?_getD, List.getElem?_range', hjl]
      exact ⟨by omega, by omega, j, hj, this⟩
    have hall_mem : ∀ p, p ∈ normPh (ps ++ other) → p ∈ ps ∨ (p ∉ ps ∧ p ∈ newp) := by
      intro p hp
      rw [mem_normPh] at hp
      by_cases h : p ∈ ps
      · exact Or.inl h
      · right
        simp at hp
        rcases hp with hp | hp
        · exact absurd hp h
        · exact ⟨h, (hnewp_mem p).2 ⟨hp, h⟩⟩
    refine ⟨by simp, by simp, ?_, ?_, ?_, ?_, by simp, by simp, by simp, ?_, ?_, by simp⟩
    · -- Nodup
      simp only [setImol_arrs, setArr_arrs, upd_same]
      show ((normPh (ps ++ other)).map f).Nodup
      refine nodup_map_on' f _ ?_ (normPh_nodup _)
      intro p1 hp1 p2 hp2 heq
      rcases hall_mem p1 hp1 with h1 | ⟨h1, h1n⟩ <;> rcases hall_mem p2 hp2 with h2 | ⟨h2, h2n⟩
      · obtain ⟨_, i1, hi1, hg1⟩ := hf_old p1 h1
        obtain ⟨_, i2, hi2, hg2⟩ := hf_old p2 h2
        rw [heq] at hg1
        have hl1 := (idxOf?_lt ps p1 i1 hi1)
        have hl2 := (idxOf?_lt ps p2 i2 hi2)
        have h1' : i1 < (w.arrs a).length := by omega
        have h2' : i2 < (w.arrs a).length := by omega
        have : i1 = i2 := by
          rw [List.getElem?_eq_getElem h1'] at hg1
          rw [List.getElem?_eq_getElem h2'] at hg2
          have e : (w.arrs a)[i1] = (w.arrs a)[i2] := by
            injection hg1 with e1; injection hg2 with e2; rw [e1, e2]
          exact nodup_getElem_inj' _ hnd i1 i2 h1' h2' e
        subst this
        have := hl1.2.symm.trans hl2.2
        injection this
      · have := hlt _ (hf_old p1 h1).1
        have := (hf_new p2 h2 h2n).1
        omega
      · have := hlt _ (hf_old p2 h2).1
        have := (hf_new p1 h1 h1n).1
        omega
      · obtain ⟨_, _, j1, hj1, e1⟩ := hf_new p1 h1 h1n
        obtain ⟨_, _, j2, hj2, e2⟩ := hf_new p2 h2 h2n
        have : j1 = j2 := by omega
        subst this
        have := (idxOf?_lt newp p1 j1 hj1).2.symm.trans (idxOf?_lt newp p2 j1 hj2).2
        injection this
    · intro r hr
      simp only [setImol_arrs, setArr_arrs, upd_same] at hr
      have hr' : r ∈ (normPh (ps ++ other)).map f := hr
      simp only [List.mem_map] at hr'
      obtain ⟨p, hp, rfl⟩ := hr'
      rcases hall_mem p hp with h | ⟨h, hn⟩
      · exact Or.inl (hf_old p h).1
      · right
        have := hf_new p h hn
        simp
        omega
    · intro x hx
      simp [newRows_old w _ x hx]
    · intro r hr hge
      simp only [setImol_arrs, setArr_arrs, upd_same] at hr
      have hr' : r ∈ (normPh (ps ++ other)).map f := hr
      simp only [List.mem_map] at hr'
      obtain ⟨p, hp, rfl⟩ := hr'
      rcases hall_mem p hp with h | ⟨h, hn⟩
      · exact absurd (hlt _ (hf_old p h).1) (by omega)
      · obtain ⟨_, _, j, hj, e⟩ := hf_new p h hn
        have hjl := (idxOf?_lt newp p j hj).1
        simp only [setImol_rows, setArr_rows]
        have hread := newRows_read (newp.map fun _ => Row.zero) w
        rw [hfresh] at hread
        have := congrArg (fun l => l[j]?) hread
        simp [hjl] at this
        rw [e]
        exact this
    · intro y hy; simp [upd_ne _ _ _ _ hy]
    · intro y hy; simp [upd_ne _ _ _ _ hy]



/-! ### `copy_like` makes the conditions equal -/

/-- a multi-phase indexer has a sorted duplicate-free phase tuple and one distinct row object per phase -/
def WFImol (w : World) (im : Nat) : Prop :=
  match w.imols im with
  | .chem .. => True
  | .mat ps a => normPh ps = ps ∧ (w.arrs a).length = ps.length ∧ (w.arrs a).Nodup

/-- The indexer `im` of world `w` holds exactly the material `(sps, svals)` (phases and row contents
of a source): each source phase has arrived in the row that the phase lookup of `im` gives for it
(the exact label if `im` has it, else the label of the other case), and every other row is empty. -/
structure HoldsExactly (w : World) (im : Nat) (sps : List Ph) (svals : List Row) : Prop where
  arrive : ∀ (k : Nat) (p : Ph) (r : Row), sps[k]? = some p → svals[k]? = some r →
    ∃ m tr, phIdx (w.phasesOf im) p = some m ∧ (w.rowIdsOf im)[m]? = some tr ∧ w.rows tr = r
  rest : ∀ (m tr : Nat), (w.rowIdsOf im)[m]? = some tr → (∀ p ∈ sps, phIdx (w.phasesOf im) p ≠ some m) →
    w.rows tr = Row.zero

theorem phIdx_of_idxOf {ps : List Ph} {p : Ph} {i : Nat} (h : ps.idxOf? p = some i) : phIdx ps p = some i := by
  simp [phIdx, h]

theorem idxOf?_getElem_nodup {α : Type} [BEq α] [LawfulBEq α] (l : List α) (hnd : l.Nodup) (k : Nat) (a : α)
    (h : l[k]? = some a) : l.idxOf? a = some k := by
  have hmem : a ∈ l := List.mem_of_getElem? h
  obtain ⟨i, hi⟩ := idxOf?_some_of_mem l a hmem
  have := idxOf?_lt l a i hi
  have hk : k < l.length := by
    rcases Nat.lt_or_ge k l.length with h' | h'
    · exact h'
    · simp [List.getElem?_eq_none h'] at h
  rw [List.getElem?_eq_getElem hk] at h
  rw [List.getElem?_eq_getElem this.1] at this
  have e : l[i] = l[k] := by
    have h1 := this.2; injection h1 with h1; injection h with h2; rw [h1, h2]
  rw [hi, nodup_getElem_inj' l hnd i k this.1 hk e]

theorem phIdx_single (p : Ph) : phIdx [p] p = some 0 := by
  simp [phIdx, List.idxOf?_cons]

/-- single-phase target: after `ChemicalIndexer.copy_like` -/
theorem holds_chem {w : World} {im ph r : Nat} (hm : w.imols im = .chem ph r) (sp : Ph) (v : Row)
    (hph : w.phs ph = sp) (hr : w.rows r = v) : HoldsExactly w im [sp] [v] := by
  constructor
  · intro k p r' hk hv
    cases k with
    | zero =>
      simp at hk hv
      subst hk hv
      exact ⟨0, r, by simp [World.phasesOf, hm, hph, phIdx_single], by simp [World.rowIdsOf, hm], hr⟩
    | succ k => simp at hk
  · intro m tr hm' hall
    simp [World.rowIdsOf, hm] at hm'
    have : m = 0 := by
      cases m with
      | zero => rfl
      | succ m => simp at hm'
    subst this
    exact absurd (by simp [World.phasesOf, hm, hph, phIdx_single]) (hall sp (by simp))

theorem chemCopyLike_value (w : World) (same : Bool) (tph trow : Nat) (tpkg : List Nat) (sr : Nat) (sp : Ph)
    (spkg : List Nat) (w' : World) (hne : trow ≠ sr)
    (h : w.chemCopyLike same tph trow tpkg sr sp spkg = .ok w') :
    w'.rows trow = w.rows sr ∧ w'.phs tph = sp ∧ (∀ x, x ≠ trow → w'.rows x = w.rows x) ∧
    (∀ x, x ≠ tph → w'.phs x = w.phs x) := by
  unfold World.chemCopyLike at h
  split at h
  · cases h
    simp
    exact ⟨fun x hx => upd_ne _ _ _ _ hx, fun x hx => upd_ne _ _ _ _ hx⟩
  · simp only at h
    split at h
    · cases h
      simp [upd_ne _ _ _ _ (Ne.symm hne)]
      exact ⟨fun x hx => by simp [upd_ne _ _ _ _ hx], fun x hx => upd_ne _ _ _ _ hx⟩
    · cases h


theorem getD_eq_of_getElem? {l : List Nat} {m x d : Nat} (h : l[m]? = some x) : l.getD m d = x := by
  simp [List.getD_eq_getElem?_getD, h]

theorem getElem?_of_lt_getD {l : List Nat} {m d : Nat} (h : m < l.length) : l[m]? = some (l.getD m d) := by
  simp [List.getD_eq_getElem?_getD, List.getElem?_eq_getElem h]

theorem holds_mat {w : World} {im a : Nat} {tps : List Ph} (hm : w.imols im = .mat tps a)
    (hlen : (w.arrs a).length = tps.length) (sps : List Ph) (svals : List Row)
    (harr : ∀ (k : Nat) (p : Ph) (r : Row), sps[k]? = some p → svals[k]? = some r →
      ∃ m, phIdx tps p = some m ∧ w.rows ((w.arrs a).getD m im) = r)
    (hrest : ∀ m, m < tps.length → (∀ p ∈ sps, phIdx tps p ≠ some m) →
      w.rows ((w.arrs a).getD m im) = Row.zero) : HoldsExactly w im sps svals := by
  constructor
  · intro k p r hk hv
    obtain ⟨m, hm1, hm2⟩ := harr k p r hk hv
    have hml := phIdx_lt _ _ _ hm1
    refine ⟨m, (w.arrs a).getD m im, by simpa [World.phasesOf, hm] using hm1, ?_, hm2⟩
    simp only [World.rowIdsOf, hm]
    exact getElem?_of_lt_getD (by omega)
  · intro m tr hmt hall
    simp only [World.rowIdsOf, hm] at hmt
    simp only [World.phasesOf, hm] at hall
    have hml : m < (w.arrs a).length := by
      rcases Nat.lt_or_ge m (w.arrs a).length with h | h
      · exact h
      · simp [List.getElem?_eq_none h] at hmt
    rw [← getD_eq_of_getElem? (d := im) hmt]
    exact hrest m (by omega) hall

/-- `MaterialIndexer.copy_like(ChemicalIndexer)` -/
theorem matCopyFromChem_value (w : World) (same : Bool) (tim : Nat) (tpkg : List Nat) (sr : Nat) (sp : Ph)
    (spkg : List Nat) (w' : World) (ps : List Ph) (a : Nat) (hm : w.imols tim = .mat ps a)
    (hnp : normPh ps = ps) (hlen : (w.arrs a).length = ps.length) (hnd : (w.arrs a).Nodup)
    (hlt : ∀ r ∈ w.arrs a, r < w.next) (hsr : sr ∉ w.arrs a) (hsrlt : sr < w.next)
    (h : w.matCopyFromChem same tim tpkg sr sp spkg = .ok w') :
    HoldsExactly w' tim [sp] [w.rows sr] ∧ WFImol w' tim ∧ w'.phs = w.phs ∧ w'.tcs = w.tcs ∧ w'.strs = w.strs ∧
    (∀ x, x < w.next → x ∉ w.arrs a → w'.rows x = w.rows x) ∧
    (∀ y, y ≠ tim → w'.imols y = w.imols y) ∧ (∀ y, y ≠ a → w'.arrs y = w.arrs y) := by
  unfold World.matCopyFromChem at h
  simp only at h
  have hrows0 : w.rowIdsOf tim = w.arrs a := by simp [World.rowIdsOf, hm]
  rw [hrows0] at h
  -- after emptying
  have hc := clearRows_rows (w.arrs a) w
  generalize hw1 : w.clearRows (w.arrs a) = w1 at h hc
  have hm1 : w1.imols tim = .mat ps a := by rw [← hw1]; simpa using hm
  have ha1 : w1.arrs = w.arrs := by rw [← hw1]; simp
  have hn1 : w1.next = w.next := by rw [← hw1]; simp
  have hph1 : w1.phasesOf tim = ps := by simp [World.phasesOf, hm1]
  rw [hph1] at h
  -- after the optional expansion
  have hE := expand_spec w1 tim [sp] ps a hm1 hnp (by rw [ha1]; exact hlen) (by rw [ha1]; exact hnd)
    (by rw [ha1, hn1]; exact hlt)
  have hkey : ∃ w2 ps2, (if (phIdx ps sp).isNone then w1.expand tim [sp] else w1) = w2 ∧
      w2.imols tim = .mat ps2 a ∧ normPh ps2 = ps2 ∧ (w2.arrs a).length = ps2.length ∧ (w2.arrs a).Nodup ∧
      (∀ r ∈ w2.arrs a, r ∈ w.arrs a ∨ w.next ≤ r) ∧ (∀ x, x < w.next → w2.rows x = w1.rows x) ∧
      (∀ r ∈ w2.arrs a, w.next ≤ r → w2.rows r = Row.zero) ∧ w2.phs = w1.phs ∧ w2.tcs = w1.tcs ∧
      w2.strs = w1.strs ∧ (∀ y, y ≠ tim → w2.imols y = w1.imols y) ∧ (∀ y, y ≠ a → w2.arrs y = w1.arrs y) := by
    split
    · obtain ⟨e1, e2, e3, e4, e5, e6, e7, e8, e9, e10, e11, _⟩ := hE
      refine ⟨_, _, rfl, e1, ?_, e2, e3, ?_, ?_, ?_, e7, e8, e9, e10, e11⟩
      · exact normPh_congr _ _ (mem_normPh _)
      · intro r hr; rcases e4 r hr with h | h
        · rw [ha1] at h; exact Or.inl h
        · rw [hn1] at h; exact Or.inr h.1
      · intro x hx; exact e5 x (by rw [hn1]; exact hx)
      · intro r hr hge; exact e6 r hr (by rw [hn1]; exact hge)
    · refine ⟨w1, ps, rfl, hm1, hnp, by rw [ha1]; exact hlen, by rw [ha1]; exact hnd, ?_, fun _ _ => rfl, ?_, rfl, rfl, rfl,
        fun _ _ => rfl, fun _ _ => rfl⟩
      · intro r hr; rw [ha1] at hr; exact Or.inl hr
      · intro r hr hge; rw [ha1] at hr; exact absurd (hlt r hr) (by omega)
  obtain ⟨w2, ps2, hw2, hm2, hnp2, hlen2, hnd2, hsub2, hold2, hzero2, hphs2, htcs2, hstrs2, himols2, harrs2⟩ := hkey
  rw [hw2] at h
  have hph2 : w2.phasesOf tim = ps2 := by simp [World.phasesOf, hm2]
  have hri2 : w2.rowIdsOf tim = w2.arrs a := by simp [World.rowIdsOf, hm2]
  rw [hph2, hri2] at h
  -- every row of the target is empty now
  have hallzero : ∀ r ∈ w2.arrs a, w2.rows r = Row.zero := by
    intro r hr
    rcases hsub2 r hr with h | h
    · rw [hold2 r (hlt r h), hc r]; simp [h]
    · exact hzero2 r hr h
  have hsr2 : w2.rows sr = w.rows sr := by
    rw [hold2 sr hsrlt, hc sr]; simp [hsr]
  split at h
  · cases h
  · next k hk =>
    have hkl := phIdx_lt _ _ _ hk
    have hout : w' = w2.setRow ((w2.arrs a).getD k tim) (w2.rows sr) := by
      split at h
      · cases h; rfl
      · cases h
    subst hout
    have hm' : (w2.setRow ((w2.arrs a).getD k tim) (w2.rows sr)).imols tim = .mat ps2 a := by simpa using hm2
    refine ⟨?_, ?_, by simp [hphs2, ← hw1], by simp [htcs2, ← hw1], by simp [hstrs2, ← hw1], ?_, ?_, ?_⟩
    · apply holds_mat hm' (by simpa using hlen2)
      · intro k' p r hk' hv
        cases k' with
        | zero =>
          simp at hk' hv; subst hk' hv
          exact ⟨k, hk, by simp [hsr2]⟩
        | succ k' => simp at hk'
      · intro m hml hall
        have hmk : m ≠ k := fun e => hall sp (by simp) (by rw [e]; exact hk)
        have hne : (w2.arrs a).getD m tim ≠ (w2.arrs a).getD k tim := by
          intro e
          have hm1' : m < (w2.arrs a).length := by omega
          have hk1' : k < (w2.arrs a).length := by omega
          simp [List.getD_eq_getElem?_getD, List.getElem?_eq_getElem hm1', List.getElem?_eq_getElem hk1'] at e
          exact hmk (nodup_getElem_inj' _ hnd2 m k hm1' hk1' e)
        simp only [setRow_rows, setRow_arrs, upd_ne _ _ _ _ hne]
        apply hallzero
        have hm1' : m < (w2.arrs a).length := by omega
        simp [List.getD_eq_getElem?_getD, List.getElem?_eq_getElem hm1']
    · simp only [WFImol, hm']
      exact ⟨hnp2, by simpa using hlen2, by simpa using hnd2⟩
    · intro x hx hxa
      have hne : x ≠ (w2.arrs a).getD k tim := by
        intro e
        have hk1' : k < (w2.arrs a).length := by omega
        have hmem : (w2.arrs a).getD k tim ∈ w2.arrs a := by
          simp [List.getD_eq_getElem?_getD, List.getElem?_eq_getElem hk1']
        rcases hsub2 _ hmem with h | h
        · exact hxa (e ▸ h)
        · omega
      simp only [setRow_rows, upd_ne _ _ _ _ hne]
      rw [hold2 x hx, hc x]; simp [hxa]
    · intro y hy; simp [himols2 y hy, ← hw1]
    · intro y hy; simp [harrs2 y hy, ← hw1]


def subsetsOf : List Ph → List (List Ph)
  | [] => [[]]
  | x :: xs => subsetsOf xs ++ (subsetsOf xs).map (x :: ·)

theorem filter_mem_subsetsOf (f : Ph → Bool) : ∀ xs : List Ph, xs.filter f ∈ subsetsOf xs := by
  intro xs
  induction xs with
  | nil => simp [subsetsOf]
  | cons x xs ih =>
    simp only [subsetsOf, List.filter_cons, List.mem_append, List.mem_map]
    split
    · right; exact ⟨_, ih, rfl⟩
    · left; exact ih

theorem normPh_mem_subsets (l : List Ph) : normPh l ∈ subsetsOf Ph.all := filter_mem_subsetsOf _ _

/-- complete table over the 32 × 32 pairs of phase tuples: with "compatible" tuples (equal up to
case) the phase lookup sends different source phases to different rows -/
theorem compat_inj_table : ∀ ps ∈ subsetsOf Ph.all, ∀ qs ∈ subsetsOf Ph.all, compatPh ps qs = true →
    ∀ q1 ∈ qs, ∀ q2 ∈ qs, phIdx ps q1 = phIdx ps q2 → phIdx ps q1 ≠ none → q1 = q2 := by
  decide +kernel

theorem zip_fst_inj {α β : Type} : ∀ (l1 : List α) (l2 : List β), l1.Nodup → ∀ a ∈ l1.zip l2, ∀ b ∈ l1.zip l2,
    a.1 = b.1 → a = b := by
  intro l1
  induction l1 with
  | nil => intro l2 _ a ha; simp at ha
  | cons x xs ih =>
    intro l2 hnd a ha b hb hab
    cases l2 with
    | nil => simp at ha
    | cons y ys =>
      rw [List.nodup_cons] at hnd
      simp only [List.zip_cons_cons, List.mem_cons] at ha hb
      rcases ha with rfl | ha <;> rcases hb with rfl | hb
      · rfl
      · exact absurd (by have := (List.of_mem_zip hb).1; simp at hab; rw [hab]; exact this) hnd.1
      · exact absurd (by have := (List.of_mem_zip ha).1; simp at hab; rw [← hab]; exact this) hnd.1
      · exact ih ys hnd.2 a ha b hb hab

theorem zip_nodup_of_fst {α β : Type} : ∀ (l1 : List α) (l2 : List β), l1.Nodup → (l1.zip l2).Nodup := by
  intro l1
  induction l1 with
  | nil => intro l2 _; simp
  | cons x xs ih =>
    intro l2 hnd
    cases l2 with
    | nil => simp
    | cons y ys =>
      rw [List.nodup_cons] at hnd
      simp only [List.zip_cons_cons, List.nodup_cons]
      exact ⟨fun hmem => hnd.1 (List.of_mem_zip hmem).1, ih ys hnd.2⟩

theorem getElem?_zip_mem {α β : Type} (l1 : List α) (l2 : List β) (k : Nat) (a : α) (b : β)
    (h1 : l1[k]? = some a) (h2 : l2[k]? = some b) : (a, b) ∈ l1.zip l2 := by
  apply List.mem_of_getElem? (i := k)
  simp [List.getElem?_zip_eq_some, h1, h2]

theorem assignByPhase_fields (tps : List Ph) (trows : List Nat) (d : Nat) (l : List (Ph × Nat)) :
    ∀ (w w' : World), w.assignByPhase tps trows d l = .ok w' →
      w'.imols = w.imols ∧ w'.arrs = w.arrs ∧ w'.phs = w.phs ∧ w'.tcs = w.tcs ∧ w'.strs = w.strs := by
  induction l with
  | nil => intro w w' h; cases h; simp
  | cons a l ih =>
    intro w w' h
    obtain ⟨q, sr⟩ := a
    simp only [World.assignByPhase] at h
    split at h
    · cases h
    · simpa using ih _ w' h

/-- `MaterialIndexer.copy_like(MaterialIndexer)` -/
theorem matCopyFromMat_value (w : World) (same : Bool) (tim : Nat) (tpkg : List Nat) (sim : Nat)
    (spkg : List Nat) (w' : World) (ps qs : List Ph) (a b : Nat)
    (hm : w.imols tim = .mat ps a) (hms : w.imols sim = .mat qs b) (hne : tim ≠ sim) (hab : a ≠ b)
    (hnp : normPh ps = ps) (hlen : (w.arrs a).length = ps.length) (hnd : (w.arrs a).Nodup)
    (hlt : ∀ r ∈ w.arrs a, r < w.next)
    (hnq : normPh qs = qs) (hlenq : (w.arrs b).length = qs.length) (hltq : ∀ r ∈ w.arrs b, r < w.next)
    (hap : ∀ x ∈ w.arrs a, x ∉ w.arrs b)
    (h : w.matCopyFromMat same tim tpkg sim spkg = .ok w') :
    HoldsExactly w' tim qs ((w.arrs b).map w.rows) ∧ WFImol w' tim ∧ w'.phs = w.phs ∧ w'.tcs = w.tcs ∧
    w'.strs = w.strs ∧ (∀ x, x < w.next → x ∉ w.arrs a → w'.rows x = w.rows x) ∧
    (∀ y, y ≠ tim → w'.imols y = w.imols y) ∧ (∀ y, y ≠ a → w'.arrs y = w.arrs y) ∧
    (ps = qs → w'.imols tim = .mat ps a) := by
  have hqnd : qs.Nodup := by rw [← hnq]; exact normPh_nodup _
  have hpnd : ps.Nodup := by rw [← hnp]; exact normPh_nodup _
  unfold World.matCopyFromMat at h
  simp only [hne, if_false] at h
  have hr0 : w.rowIdsOf tim = w.arrs a := by simp [World.rowIdsOf, hm]
  have hr0s : w.rowIdsOf sim = w.arrs b := by simp [World.rowIdsOf, hms]
  have hp0 : w.phasesOf tim = ps := by simp [World.phasesOf, hm]
  have hp0s : w.phasesOf sim = qs := by simp [World.phasesOf, hms]
  rw [hr0, hr0s, hp0, hp0s] at h
  have hapb : ∀ x ∈ w.arrs b, x ∉ w.arrs a := fun x hx hxa => hap x hxa hx
  -- a common ending: the rows of the target read like the rows of the source
  have finish_same : ∀ w1 : World, w1.imols = w.imols → w1.arrs = w.arrs → w1.phs = w.phs → w1.tcs = w.tcs →
      w1.strs = w.strs → (∀ x, x ∉ w.arrs a → w1.rows x = w.rows x) → ps = qs →
      (w.arrs a).map w1.rows = (w.arrs b).map w.rows →
      HoldsExactly w1 tim qs ((w.arrs b).map w.rows) ∧ WFImol w1 tim ∧ w1.phs = w.phs ∧ w1.tcs = w.tcs ∧
      w1.strs = w.strs ∧ (∀ x, x < w.next → x ∉ w.arrs a → w1.rows x = w.rows x) ∧
      (∀ y, y ≠ tim → w1.imols y = w.imols y) ∧ (∀ y, y ≠ a → w1.arrs y = w.arrs y) ∧
      (ps = qs → w1.imols tim = .mat ps a) := by
    intro w1 hi ha hp ht hs hrow hpq hread
    have hm1 : w1.imols tim = .mat ps a := by rw [hi]; exact hm
    refine ⟨?_, ?_, hp, ht, hs, fun x _ hx => hrow x hx, fun y _ => by rw [hi], fun y _ => by rw [ha], fun _ => hm1⟩
    · apply holds_mat hm1 (by rw [ha]; exact hlen)
      · intro k p r hk hv
        refine ⟨k, phIdx_of_idxOf (idxOf?_getElem_nodup ps hpnd k p (by rw [hpq]; exact hk)), ?_⟩
        have := congrArg (fun l => l[k]?) hread
        simp only [List.getElem?_map] at this hv
        rw [hv] at this
        have hkl : k < (w.arrs a).length := by
          have := (List.getElem?_eq_some_iff.mp hk).1
          rw [hlen, hpq]; exact this
        rw [ha]
        simp [List.getElem?_eq_getElem hkl] at this
        simp [List.getD_eq_getElem?_getD, List.getElem?_eq_getElem hkl, this]
      · intro m hml hall
        exfalso
        have hmem : ps[m] ∈ qs := by rw [← hpq]; exact List.getElem_mem hml
        exact hall ps[m] hmem
          (phIdx_of_idxOf (idxOf?_getElem_nodup ps hpnd m _ (by simp [List.getElem?_eq_getElem hml])))
    · simp only [WFImol, hm1]; rw [ha]; exact ⟨hnp, hlen, hnd⟩
  split at h
  · next hpq =>
    split at h
    · -- same package: row by row
      cases h
      apply finish_same _ (by simp) (by simp) (by simp) (by simp) (by simp) ?_ hpq
      · exact copyRowsSeq_read _ _ w hnd hap (by rw [hlen, hlenq, hpq])
      · intro x hx
        apply copyRowsSeq_other
        intro hmem
        simp at hmem
        obtain ⟨y, hy⟩ := hmem
        exact hx (List.of_mem_zip hy).1
    · -- other package: empty, check, row by row
      have hc := clearRows_rows (w.arrs a) w
      generalize hw1 : w.clearRows (w.arrs a) = w1 at h hc
      have e1 : w1.rowIdsOf tim = w.arrs a := by rw [← hw1]; simp [World.rowIdsOf, hm]
      have e2 : w1.rowIdsOf sim = w.arrs b := by rw [← hw1]; simp [World.rowIdsOf, hms]
      rw [e1, e2] at h
      split at h
      · cases h
        apply finish_same _ (by simp [← hw1]) (by simp [← hw1]) (by simp [← hw1]) (by simp [← hw1])
          (by simp [← hw1]) ?_ hpq
        · rw [copyRowsSeq_read _ _ w1 hnd hap (by rw [hlen, hlenq, hpq])]
          apply List.map_congr_left
          intro r hr
          rw [hc r]; simp [hapb r hr]
        · intro x hx
          rw [copyRowsSeq_other]
          · rw [hc x]; simp [hx]
          · intro hmem
            simp at hmem
            obtain ⟨y, hy⟩ := hmem
            exact hx (List.of_mem_zip hy).1
      · cases h
  · next hpq =>
    -- different phase tuples: expand unless compatible, empty, then row by row by phase
    have hE := expand_spec w tim qs ps a hm hnp hlen hnd hlt
    have hkey : ∃ w1 ps1, (if compatPh ps qs then w else w.expand tim qs) = w1 ∧
        w1.imols tim = .mat ps1 a ∧ normPh ps1 = ps1 ∧ (w1.arrs a).length = ps1.length ∧ (w1.arrs a).Nodup ∧
        (∀ r ∈ w1.arrs a, r ∈ w.arrs a ∨ w.next ≤ r) ∧ (∀ x, x < w.next → w1.rows x = w.rows x) ∧
        w1.phs = w.phs ∧ w1.tcs = w.tcs ∧ w1.strs = w.strs ∧ (∀ y, y ≠ tim → w1.imols y = w.imols y) ∧
        (∀ y, y ≠ a → w1.arrs y = w.arrs y) ∧
        (∀ a1 ∈ qs, ∀ a2 ∈ qs, phIdx ps1 a1 = phIdx ps1 a2 → phIdx ps1 a1 ≠ none → a1 = a2) := by
      split
      · next hcomp =>
        refine ⟨w, ps, rfl, hm, hnp, hlen, hnd, fun r hr => Or.inl hr, fun _ _ => rfl, rfl, rfl, rfl,
          fun _ _ => rfl, fun _ _ => rfl, ?_⟩
        have h1 := normPh_mem_subsets ps; rw [hnp] at h1
        have h2 := normPh_mem_subsets qs; rw [hnq] at h2
        exact compat_inj_table ps h1 qs h2 hcomp
      · obtain ⟨e1, e2, e3, e4, e5, _, e7, e8, e9, e10, e11, _⟩ := hE
        refine ⟨_, _, rfl, e1, normPh_congr _ _ (mem_normPh _), e2, e3, ?_, e5, e7, e8, e9, e10, e11, ?_⟩
        · intro r hr; rcases e4 r hr with h | h
          · exact Or.inl h
          · exact Or.inr h.1
        · intro q1 hq1 q2 hq2 heq _
          have hm1 : q1 ∈ normPh (ps ++ qs) := by rw [mem_normPh]; simp [hq1]
          have hm2 : q2 ∈ normPh (ps ++ qs) := by rw [mem_normPh]; simp [hq2]
          obtain ⟨i1, hi1⟩ := idxOf?_some_of_mem _ _ hm1
          obtain ⟨i2, hi2⟩ := idxOf?_some_of_mem _ _ hm2
          rw [phIdx_of_idxOf hi1, phIdx_of_idxOf hi2] at heq
          injection heq with heq
          subst heq
          have := (idxOf?_lt _ _ _ hi1).2.symm.trans (idxOf?_lt _ _ _ hi2).2
          injection this
    obtain ⟨w1, ps1, hw1, hm1, hnp1, hlen1, hnd1, hsub1, hold1, hphs1, htcs1, hstrs1, himols1, harrs1, hinj1⟩ := hkey
    rw [hw1] at h
    have hc := clearRows_rows (w1.arrs a) w1
    have e0 : w1.rowIdsOf tim = w1.arrs a := by simp [World.rowIdsOf, hm1]
    rw [e0] at h
    generalize hw2 : w1.clearRows (w1.arrs a) = w2 at h hc
    have hm2 : w2.imols tim = .mat ps1 a := by rw [← hw2]; simpa using hm1
    have ha2 : w2.arrs = w1.arrs := by rw [← hw2]; simp
    have hms2 : w2.imols sim = .mat qs b := by
      rw [← hw2]; simp; rw [himols1 sim (Ne.symm hne)]; exact hms
    have hb2 : w2.arrs b = w.arrs b := by rw [ha2, harrs1 b (Ne.symm hab)]
    have e1 : w2.rowIdsOf tim = w1.arrs a := by simp [World.rowIdsOf, hm2, ha2]
    have e2 : w2.rowIdsOf sim = w.arrs b := by simp [World.rowIdsOf, hms2, hb2]
    have e3 : w2.phasesOf tim = ps1 := by simp [World.phasesOf, hm2]
    rw [e1, e2, e3] at h
    have hbrow : ∀ r ∈ w.arrs b, w2.rows r = w.rows r := by
      intro r hr
      have hnot : r ∉ w1.arrs a := by
        intro hmem
        rcases hsub1 r hmem with h | h
        · exact hapb r hr h
        · have := hltq r hr; omega
      rw [hc r]; simp [hnot]; exact hold1 r (hltq r hr)
    split at h
    · obtain ⟨s1, s2⟩ := assignByPhase_spec ps1 (w1.arrs a) tim (qs.zip (w.arrs b)) w2 w' h
        (zip_nodup_of_fst _ _ hqnd)
        (fun x hx y hy heq hnone => zip_fst_inj _ _ hqnd x hx y hy
          (hinj1 x.1 (List.of_mem_zip hx).1 y.1 (List.of_mem_zip hy).1 heq hnone))
        (by
          intro m hml y hy heq
          have hml' : m < (w1.arrs a).length := by omega
          have hmem : (w1.arrs a).getD m tim ∈ w1.arrs a := by
            simp [List.getD_eq_getElem?_getD, List.getElem?_eq_getElem hml']
          have hyb := (List.of_mem_zip hy).2
          rw [heq] at hmem
          rcases hsub1 _ hmem with h | h
          · exact hapb _ hyb h
          · have := hltq _ hyb; omega)
        (by
          intro m n hm' hn' heq
          have hm1' : m < (w1.arrs a).length := by omega
          have hn1' : n < (w1.arrs a).length := by omega
          simp [List.getD_eq_getElem?_getD, List.getElem?_eq_getElem hm1', List.getElem?_eq_getElem hn1'] at heq
          exact nodup_getElem_inj' _ hnd1 m n hm1' hn1' heq)
      obtain ⟨f1, f2, f3, f4, f5⟩ := assignByPhase_fields ps1 (w1.arrs a) tim (qs.zip (w.arrs b)) w2 w' h
      have hm' : w'.imols tim = .mat ps1 a := by rw [f1]; exact hm2
      have ha' : w'.arrs a = w1.arrs a := by rw [f2, ha2]
      have hgetmem : ∀ m, m < ps1.length → (w1.arrs a).getD m tim ∈ w1.arrs a := by
        intro m hml
        have hml' : m < (w1.arrs a).length := by omega
        simp [List.getD_eq_getElem?_getD, List.getElem?_eq_getElem hml']
      have hgetinj : ∀ m n, m < ps1.length → n < ps1.length →
          (w1.arrs a).getD m tim = (w1.arrs a).getD n tim → m = n := by
        intro m n hm'' hn'' heq
        have hm1' : m < (w1.arrs a).length := by omega
        have hn1' : n < (w1.arrs a).length := by omega
        simp [List.getD_eq_getElem?_getD, List.getElem?_eq_getElem hm1', List.getElem?_eq_getElem hn1'] at heq
        exact nodup_getElem_inj' _ hnd1 m n hm1' hn1' heq
      refine ⟨?_, ?_, by rw [f3, ← hw2]; simp [hphs1], by rw [f4, ← hw2]; simp [htcs1],
        by rw [f5, ← hw2]; simp [hstrs1], ?_, ?_, ?_, fun h => absurd h hpq⟩
      · apply holds_mat hm' (by rw [ha']; exact hlen1)
        · intro k p r hk hv
          simp only [List.getElem?_map] at hv
          cases hbk : (w.arrs b)[k]? with
          | none => simp [hbk] at hv
          | some rb =>
            simp [hbk] at hv
            obtain ⟨m, hm1', hm2'⟩ := s1 (p, rb) (getElem?_zip_mem _ _ k p rb hk hbk)
            refine ⟨m, hm1', ?_⟩
            rw [ha', hm2', hbrow rb (List.mem_of_getElem? hbk), hv]
        · intro m hml hall
          rw [ha', s2]
          · rw [hc, if_pos (hgetmem m hml)]
          · intro y hy m' hm'' heq
            have := hgetinj m' m (phIdx_lt _ _ _ hm'') hml heq
            subst this
            exact hall y.1 (List.of_mem_zip hy).1 hm''
      · simp only [WFImol, hm']; rw [ha']; exact ⟨hnp1, hlen1, hnd1⟩
      · intro x hx hxa
        have hx1 : x ∉ w1.arrs a := by
          intro hmem
          rcases hsub1 x hmem with h | h
          · exact hxa h
          · omega
        rw [s2, hc, if_neg hx1]
        · exact hold1 x hx
        · intro y hy m hm'' heq
          exact hx1 (heq ▸ hgetmem m (phIdx_lt _ _ _ hm''))
      · intro y hy; rw [f1, ← hw2]; simp; exact himols1 y hy
      · intro y hy; rw [f2, ha2]; exact harrs1 y hy
    · cases h



theorem holds_congr {w w' : World} {im : Nat} {sps : List Ph} {sv : List Row} (h : HoldsExactly w im sps sv)
    (hi : w'.imols = w.imols) (ha : w'.arrs = w.arrs) (hr : w'.rows = w.rows) (hp : w'.phs = w.phs) :
    HoldsExactly w' im sps sv := by
  have h1 : w'.phasesOf im = w.phasesOf im := by simp [World.phasesOf, hi, hp]
  have h2 : w'.rowIdsOf im = w.rowIdsOf im := by simp [World.rowIdsOf, hi, ha]
  constructor
  · intro k p r hk hv
    obtain ⟨m, tr, a1, a2, a3⟩ := h.arrive k p r hk hv
    exact ⟨m, tr, by rw [h1]; exact a1, by rw [h2]; exact a2, by rw [hr]; exact a3⟩
  · intro m tr hm hall
    rw [hr]
    exact h.rest m tr (by rw [← h2]; exact hm) (by rw [← h1]; exact hall)

theorem wf_congr {w w' : World} {im : Nat} (h : WFImol w im) (hi : w'.imols = w.imols) (ha : w'.arrs = w.arrs) :
    WFImol w' im := by
  simpa [WFImol, hi, ha] using h

/-- target and source share no flow data -/
structure Apart (w : World) (t s : Nat) : Prop where
  rows : ∀ x ∈ w.rowIdsOf (w.strs t).imol, x ∉ w.rowIdsOf (w.strs s).imol
  imol : (w.strs t).imol ≠ (w.strs s).imol
  arr : ∀ ps a qs b, w.imols (w.strs t).imol = .mat ps a → w.imols (w.strs s).imol = .mat qs b → a ≠ b

/-- T and P after the final `ThermalCondition.copy_like` -/
theorem tcCopyLike_TP (w1 : World) (t s : Nat) :
    ((w1.tcCopyLike t s).observe t).T = (w1.tcs (w1.strs s).tc).1 ∧
    ((w1.tcCopyLike t s).observe t).P = (w1.tcs (w1.strs s).tc).2 := by
  simp [World.tcCopyLike, World.observe]


/-- What `target.copy_like(source)` establishes. -/
structure CopyLikeResult (w : World) (t s : Nat) (w' : World) : Prop where
  /-- temperature and pressure are the source's -/
  T : (w'.observe t).T = (w.observe s).T
  P : (w'.observe t).P = (w.observe s).P
  /-- the target holds exactly the material of the source, phase by phase -/
  holds : HoldsExactly w' (w'.strs t).imol (w.observe s).phases (w.observe s).flows
  /-- the target is well formed -/
  wf : WFImol w' (w'.strs t).imol
  /-- a single-phase target ends with exactly the phase tuple of the source (staying single-phase
  for a one-phase source, becoming multi-phase otherwise) -/
  single : w.isMat (w.strs t).imol = false → (w'.observe t).phases = (w.observe s).phases

theorem copyLike_result (w : World) (t s : Nat) (w' : World) (hsc : Scoped w) (ht : t < w.nS) (hs : s < w.nS)
    (hwt : WFImol w (w.strs t).imol) (hws : WFImol w (w.strs s).imol) (hap : Apart w t s)
    (h : w.copyLike t s = .ok w') : CopyLikeResult w t s w' := by
  unfold World.copyLike at h
  simp only at h
  split at h
  · cases h
  · cases hmt : w.imols (w.strs t).imol with
    | chem tph trow =>
      cases hms : w.imols (w.strs s).imol with
      | chem sph srow =>
        simp only [hmt, hms, hap.imol, if_false] at h
        obtain ⟨w1, h1, rfl⟩ := ofExcept_bind_ok _ _ _ h
        have hne : trow ≠ srow := by
          have := hap.rows trow (by simp [World.rowIdsOf, hmt])
          simpa [World.rowIdsOf, hms] using this
        obtain ⟨v1, v2, v3, v4⟩ := chemCopyLike_value _ _ _ _ _ _ _ _ _ hne h1
        obtain ⟨_, f1, f2, f3, _, _, f6, _⟩ := chemCopyLike_spec _ _ _ _ _ _ _ _ _ h1
        have hm1 : w1.imols (w.strs t).imol = .chem tph trow := by rw [f1]; exact hmt
        have hobs : (w.observe s).phases = [w.phs sph] ∧ (w.observe s).flows = [w.rows srow] := by
          simp [World.observe, World.phasesOf, World.rowIdsOf, hms]
        have hstr : (w1.tcCopyLike t s).strs = w.strs := by simp [World.tcCopyLike, f3]
        have hT := tcCopyLike_TP w1 t s
        refine ⟨?_, ?_, ?_, ?_, ?_⟩
        · rw [hT.1, f3, f6]; simp [World.observe]
        · rw [hT.2, f3, f6]; simp [World.observe]
        · rw [hstr, hobs.1, hobs.2]
          exact holds_congr (holds_chem hm1 _ _ v2 v1) (by simp [World.tcCopyLike]) (by simp [World.tcCopyLike])
            (by simp [World.tcCopyLike]) (by simp [World.tcCopyLike])
        · rw [hstr]; simp [WFImol, World.tcCopyLike, hm1]
        · intro _
          rw [hobs.1]
          simp [World.observe, World.tcCopyLike, f3, World.phasesOf, hm1, v2]
      | mat qs sa =>
        simp only [hmt, hms] at h
        obtain ⟨hnq, hlenq, hndq⟩ : normPh qs = qs ∧ (w.arrs sa).length = qs.length ∧ (w.arrs sa).Nodup := by
          simpa [WFImol, hms] using hws
        have hobs : (w.observe s).phases = qs ∧ (w.observe s).flows = (w.arrs sa).map w.rows := by
          simp [World.observe, World.phasesOf, World.rowIdsOf, hms]
        split at h
        · next q =>
          -- one-phase MultiStream source
          obtain ⟨w1, h1, rfl⟩ := ofExcept_bind_ok _ _ _ h
          have hl1 : (w.arrs sa).length = 1 := by simpa using hlenq
          obtain ⟨sr, hsr⟩ : ∃ sr, w.arrs sa = [sr] := by
            cases hra : w.arrs sa with
            | nil => simp [hra] at hl1
            | cons x xs =>
              cases xs with
              | nil => exact ⟨x, rfl⟩
              | cons y ys => simp [hra] at hl1
          have hne : trow ≠ sr := by
            have := hap.rows trow (by simp [World.rowIdsOf, hmt])
            simpa [World.rowIdsOf, hms, hsr] using this
          have hsr' : ((w.setPh tph q).arrs sa).getD 0 0 = sr := by simp [hsr]
          rw [hsr'] at h1
          obtain ⟨v1, v2, v3, v4⟩ := chemCopyLike_value _ _ _ _ _ _ _ _ _ hne h1
          obtain ⟨_, f1, f2, f3, _, _, f6, _⟩ := chemCopyLike_spec _ _ _ _ _ _ _ _ _ h1
          have hm1 : w1.imols (w.strs t).imol = .chem tph trow := by rw [f1]; simpa using hmt
          have hstr : (w1.tcCopyLike t s).strs = w.strs := by simp [World.tcCopyLike, f3]
          have hT := tcCopyLike_TP w1 t s
          refine ⟨?_, ?_, ?_, ?_, ?_⟩
          · rw [hT.1, f3, f6]; simp [World.observe]
          · rw [hT.2, f3, f6]; simp [World.observe]
          · rw [hstr, hobs.1, hobs.2, hsr]
            exact holds_congr (holds_chem hm1 _ _ v2 (by rw [v1]; simp)) (by simp [World.tcCopyLike])
              (by simp [World.tcCopyLike]) (by simp [World.tcCopyLike]) (by simp [World.tcCopyLike])
          · rw [hstr]; simp [WFImol, World.tcCopyLike, hm1]
          · intro _
            rw [hobs.1]
            simp [World.observe, World.tcCopyLike, f3, World.phasesOf, hm1, v2]
        · -- the target becomes a MultiStream over the phases of the source
          obtain ⟨w3, h3, rfl⟩ := ofExcept_bind_ok _ _ _ h
          have hts : t ≠ s := by intro e; subst e; rw [hmt] at hms; cases hms
          have hSim : (w.strs s).imol < w.next := hsc s hs _ (mem_fp_imol w s)
          have hsa : sa < w.next := hsc s hs _ (mem_fp_mat hms).1
          have hltq : ∀ r ∈ w.arrs sa, r < w.next := fun r hr => hsc s hs r ((mem_fp_mat hms).2 r hr)
          unfold World.blankMat at h3
          simp only [newImol_snd, newArr_snd, newArr_next, newRows_next, List.length_map] at h3
          -- names for the new objects
          generalize hzs : ((normPh qs).map fun _ => Row.zero) = zs at h3
          have hzl : zs.length = (normPh qs).length := by rw [← hzs]; simp
          have hids := newRows_ids zs w
          have hold := newRows_old w zs
          generalize hnr : w.newRows zs = nr at h3 hids hold
          obtain ⟨w1, rs⟩ := nr
          simp only at h3 hids hold
          have hn1 : w1.next = w.next + zs.length := by
            have := newRows_next w zs; rw [hnr] at this; exact this
          have himols1 : w1.imols = w.imols := by have := newRows_imols w zs; rw [hnr] at this; exact this
          have harrs1 : w1.arrs = w.arrs := by have := newRows_arrs w zs; rw [hnr] at this; exact this
          have hstrs1 : w1.strs = w.strs := by have := newRows_strs w zs; rw [hnr] at this; exact this
          have htcs1 : w1.tcs = w.tcs := by have := newRows_tcs w zs; rw [hnr] at this; exact this
          have hrs_mem : ∀ r ∈ rs, w.next ≤ r ∧ r < w.next + zs.length := by
            intro r hr; rw [hids] at hr; exact mem_range'_lt hr
          have hN : w1.next = w.next + (normPh qs).length := by rw [hn1, hzl]
          obtain ⟨N, hNdef⟩ : ∃ N, N = w.next + (normPh qs).length := ⟨_, rfl⟩
          rw [← hNdef] at h3 hN
          have harne : N ≠ sa := by omega
          have himne : N + 1 ≠ (w.strs s).imol := by omega
          obtain ⟨W2, hW2⟩ : ∃ W2, W2 = ((w1.newArr rs).1.newImol (Imol.mat (normPh qs) N)).1.setStr t
              { w.strs t with imol := N + 1 } := ⟨_, rfl⟩
          rw [← hW2] at h3
          have q1 : W2.imols (N + 1) = .mat (normPh qs) N := by rw [hW2]; simp [hN]
          have q2 : W2.imols (w.strs s).imol = .mat qs sa := by
            rw [hW2]; simp [hN, upd_ne _ _ _ _ (Ne.symm himne), himols1, hms]
          have q3 : W2.arrs N = rs := by rw [hW2]; simp [hN]
          have q4 : W2.arrs sa = w.arrs sa := by rw [hW2]; simp [hN, upd_ne _ _ _ _ (Ne.symm harne), harrs1]
          have q5 : W2.next = N + 2 := by rw [hW2]; simp [hN]
          have q6 : W2.rows = w1.rows := by rw [hW2]; simp
          have q7 : W2.strs = upd w.strs t { w.strs t with imol := N + 1 } := by rw [hW2]; simp [hstrs1]
          have q8 : W2.tcs = w.tcs := by rw [hW2]; simp [htcs1]
          obtain ⟨v1, v2, v3, v4, v5, v6, v7, v8, v9⟩ := matCopyFromMat_value W2 _ (N + 1) _ _ _ w3
            (normPh qs) qs N sa q1 q2 himne harne (normPh_congr _ _ (mem_normPh _))
            (by rw [q3, hids]; simp [hzl])
            (by rw [q3, hids]; exact List.nodup_range')
            (by intro r hr; rw [q3] at hr; have := hrs_mem r hr; rw [q5]; omega) hnq
            (by rw [q4]; exact hlenq)
            (by intro r hr; rw [q4] at hr; have := hltq r hr; rw [q5]; omega)
            (by
              intro x hx hx2
              rw [q3] at hx; rw [q4] at hx2
              have := hrs_mem x hx; have := hltq x hx2; omega) h3
          have hsrc : (W2.arrs sa).map W2.rows = (w.arrs sa).map w.rows := by
            rw [q4, q6]
            apply List.map_congr_left
            intro r hr
            exact hold r (hltq r hr)
          rw [hsrc] at v1
          have hstr3 : w3.strs = upd w.strs t { w.strs t with imol := N + 1 } := by rw [v5, q7]
          have htc3 : w3.tcs = w.tcs := by rw [v4, q8]
          have hT := tcCopyLike_TP w3 t s
          have hst : (w3.tcCopyLike t s).strs t = { w.strs t with imol := N + 1 } := by
            simp [World.tcCopyLike, hstr3]
          have hss : w3.strs s = w.strs s := by rw [hstr3]; exact upd_ne _ _ _ _ (Ne.symm hts)
          have him3 : w3.imols (N + 1) = .mat (normPh qs) N := v9 hnq
          refine ⟨?_, ?_, ?_, ?_, ?_⟩
          · rw [hT.1, hss, htc3]; simp [World.observe]
          · rw [hT.2, hss, htc3]; simp [World.observe]
          · rw [hst, hobs.1, hobs.2]
            exact holds_congr v1 (by simp [World.tcCopyLike]) (by simp [World.tcCopyLike])
              (by simp [World.tcCopyLike]) (by simp [World.tcCopyLike])
          · rw [hst]; exact wf_congr v2 (by simp [World.tcCopyLike]) (by simp [World.tcCopyLike])
          · intro _
            rw [hobs.1]
            simp only [World.observe, hst]
            simp [World.phasesOf, World.tcCopyLike, him3, hnq]
    | mat ps ta =>
      obtain ⟨hnp, hlen, hnd⟩ : normPh ps = ps ∧ (w.arrs ta).length = ps.length ∧ (w.arrs ta).Nodup := by
        simpa [WFImol, hmt] using hwt
      have hlt : ∀ r ∈ w.arrs ta, r < w.next := fun r hr => hsc t ht r ((mem_fp_mat hmt).2 r hr)
      have hwrap : ∀ w1 : World, w1.strs = w.strs → w1.tcs = w.tcs →
          HoldsExactly w1 (w.strs t).imol (w.observe s).phases (w.observe s).flows →
          WFImol w1 (w.strs t).imol → CopyLikeResult w t s (w1.tcCopyLike t s) := by
        intro w1 f3 f6 hh hwf
        have hstr : (w1.tcCopyLike t s).strs = w.strs := by simp [World.tcCopyLike, f3]
        have hT := tcCopyLike_TP w1 t s
        refine ⟨?_, ?_, ?_, ?_, ?_⟩
        · rw [hT.1, f3, f6]; simp [World.observe]
        · rw [hT.2, f3, f6]; simp [World.observe]
        · rw [hstr]
          exact holds_congr hh (by simp [World.tcCopyLike]) (by simp [World.tcCopyLike])
            (by simp [World.tcCopyLike]) (by simp [World.tcCopyLike])
        · rw [hstr]; exact wf_congr hwf (by simp [World.tcCopyLike]) (by simp [World.tcCopyLike])
        · intro hk; simp [World.isMat, hmt] at hk
      cases hms : w.imols (w.strs s).imol with
      | chem sph srow =>
        simp only [hmt, hms] at h
        obtain ⟨w1, h1, rfl⟩ := ofExcept_bind_ok _ _ _ h
        have hsr : srow ∉ w.arrs ta := by
          intro hmem
          exact hap.rows srow (by simp [World.rowIdsOf, hmt, hmem]) (by simp [World.rowIdsOf, hms])
        have hsrlt : srow < w.next := hsc s hs srow (mem_fp_chem hms).2
        obtain ⟨v1, v2, v3, v4, v5, _⟩ := matCopyFromChem_value w _ _ _ srow (w.phs sph) _ w1 ps ta hmt hnp hlen hnd
          hlt hsr hsrlt h1
        apply hwrap w1 v5 v4 ?_ v2
        have hobs : (w.observe s).phases = [w.phs sph] ∧ (w.observe s).flows = [w.rows srow] := by
          simp [World.observe, World.phasesOf, World.rowIdsOf, hms]
        rw [hobs.1, hobs.2]; exact v1
      | mat qs sa =>
        simp only [hmt, hms] at h
        obtain ⟨w1, h1, rfl⟩ := ofExcept_bind_ok _ _ _ h
        obtain ⟨hnq, hlenq, hndq⟩ : normPh qs = qs ∧ (w.arrs sa).length = qs.length ∧ (w.arrs sa).Nodup := by
          simpa [WFImol, hms] using hws
        have hltq : ∀ r ∈ w.arrs sa, r < w.next := fun r hr => hsc s hs r ((mem_fp_mat hms).2 r hr)
        have hapr : ∀ x ∈ w.arrs ta, x ∉ w.arrs sa := by
          intro x hx
          have := hap.rows x (by simp [World.rowIdsOf, hmt, hx])
          simpa [World.rowIdsOf, hms] using this
        obtain ⟨v1, v2, v3, v4, v5, _⟩ := matCopyFromMat_value w _ _ _ _ _ w1 ps qs ta sa hmt hms hap.imol
          (hap.arr ps ta qs sa hmt hms) hnp hlen hnd hlt hnq hlenq hltq hapr h1
        apply hwrap w1 v5 v4 ?_ v2
        have hobs : (w.observe s).phases = qs ∧ (w.observe s).flows = (w.arrs sa).map w.rows := by
          simp [World.observe, World.phasesOf, World.rowIdsOf, hms]
        rw [hobs.1, hobs.2]; exact v1



/-! ### well-formedness along histories -/

/-- every stream is well formed -/
def WFAll (w : World) : Prop := ∀ i, i < w.nS → WFImol w (w.strs i).imol

/-- indexer and array objects that existed are not modified -/
def StructFrame (w w' : World) : Prop := ∀ x, x < w.next → w'.imols x = w.imols x ∧ w'.arrs x = w.arrs x

theorem StructFrame.of_writes {w w' : World} {Ws : Nat → Prop} (h : Writes w w' none' Ws) : StructFrame w w' :=
  fun x hx => ⟨(h.agree x hx (fun h => h)).2.2.2.2.2, (h.agree x hx (fun h => h)).2.2.2.2.1⟩

theorem StructFrame.of_eq {w w' : World} (hi : w'.imols = w.imols) (ha : w'.arrs = w.arrs) : StructFrame w w' :=
  fun x _ => ⟨by rw [hi], by rw [ha]⟩

theorem wf_of_structFrame {w w' : World} (hsf : StructFrame w w') (hsc : Scoped w) (j : Nat) (hj : j < w.nS)
    (hslot : (w'.strs j).imol = (w.strs j).imol) (hwf : WFImol w (w.strs j).imol) :
    WFImol w' (w'.strs j).imol := by
  rw [hslot]
  have hi := hsc j hj _ (mem_fp_imol w j)
  unfold WFImol at hwf ⊢
  rw [(hsf _ hi).1]
  cases hm : w.imols (w.strs j).imol with
  | chem ph r => trivial
  | mat ps a =>
    rw [hm] at hwf
    simp only
    rw [(hsf a (hsc j hj a (mem_fp_mat hm).1)).2]
    exact hwf

/-- all old streams keep their slots and well-formedness; it remains to look at the new one -/
theorem wfAll_of_fresh {w w' : World} (hsc : Scoped w) (hwf : WFAll w) (hw : Writes w w' none' none')
    (hnS : w'.nS = w.nS + 1) (hnew : WFImol w' (w'.strs w.nS).imol) : WFAll w' := by
  intro j hj
  by_cases hjo : j < w.nS
  · apply wf_of_structFrame (StructFrame.of_writes hw) hsc j hjo _ (hwf j hjo)
    rw [hw.strs j hjo (fun h => h)]
  · have : j = w.nS := by omega
    subst this; exact hnew

theorem wf_copyImol (w : World) (im : Nat) (hwf : WFImol w im) :
    WFImol (w.copyImol im).1 (w.copyImol im).2 := by
  unfold World.copyImol
  cases hm : w.imols im with
  | chem ph r => simp [WFImol]
  | mat ps a =>
    simp only [WFImol, hm] at hwf
    simp [WFImol, newRows_ids, hwf.1, hwf.2.1]
    exact List.nodup_range'

theorem wf_blankMat (w : World) (l : List Ph) : WFImol (w.blankMat (normPh l)).1 (w.blankMat (normPh l)).2 := by
  unfold World.blankMat
  simp [WFImol, newRows_ids]
  exact ⟨normPh_congr _ _ (mem_normPh _), List.nodup_range'⟩

theorem wf_blankFor (w : World) (l : List Ph) : WFImol (w.blankFor l).1 (w.blankFor l).2 := by
  unfold World.blankFor
  split
  · simp [WFImol, World.blankChem]
  · exact wf_blankMat w _


theorem wfAll_of_struct_eq {w w' : World} (hwf : WFAll w) (hi : w'.imols = w.imols) (ha : w'.arrs = w.arrs)
    (hs : ∀ j, (w'.strs j).imol = (w.strs j).imol) (hn : w'.nS = w.nS) : WFAll w' := by
  intro j hj
  rw [hs j]
  exact wf_congr (hwf j (by omega)) hi ha

/-- with equal phase tuples `MaterialIndexer.copy_like(MaterialIndexer)` only writes row contents -/
theorem matCopyFromMat_struct_same (w : World) (same : Bool) (tim : Nat) (tpkg : List Nat) (sim : Nat)
    (spkg : List Nat) (w' : World) (hpq : w.phasesOf tim = w.phasesOf sim)
    (h : w.matCopyFromMat same tim tpkg sim spkg = .ok w') :
    w'.imols = w.imols ∧ w'.arrs = w.arrs ∧ w'.strs = w.strs ∧ w'.nS = w.nS := by
  unfold World.matCopyFromMat at h
  split at h
  · cases h; exact ⟨rfl, rfl, rfl, rfl⟩
  · simp only [hpq, if_true] at h
    split at h
    · cases h; simp
    · split at h
      · cases h; simp
      · cases h

/-- structure after `MaterialIndexer.copy_like(ChemicalIndexer)`: the target indexer stays well formed,
nothing else is touched, and nothing at all when the target already has a row for the phase -/
theorem matCopyFromChem_wf (w : World) (same : Bool) (tim : Nat) (tpkg : List Nat) (sr : Nat) (sp : Ph)
    (spkg : List Nat) (w' : World) (ps : List Ph) (a : Nat) (hm : w.imols tim = .mat ps a)
    (hnp : normPh ps = ps) (hlen : (w.arrs a).length = ps.length) (hnd : (w.arrs a).Nodup)
    (hlt : ∀ r ∈ w.arrs a, r < w.next)
    (h : w.matCopyFromChem same tim tpkg sr sp spkg = .ok w') :
    WFImol w' tim ∧ w'.strs = w.strs ∧ w'.nS = w.nS ∧ (∀ y, y ≠ tim → w'.imols y = w.imols y) ∧
    (∀ y, y ≠ a → w'.arrs y = w.arrs y) ∧
    (phIdx ps sp ≠ none → w'.imols = w.imols ∧ w'.arrs = w.arrs) := by
  have hU := matCopyFromChem_spec _ _ _ _ _ _ _ _ h
  unfold World.matCopyFromChem at h
  simp only at h
  have hrows0 : w.rowIdsOf tim = w.arrs a := by simp [World.rowIdsOf, hm]
  rw [hrows0] at h
  generalize hw1 : w.clearRows (w.arrs a) = w1 at h
  have hm1 : w1.imols tim = .mat ps a := by rw [← hw1]; simpa using hm
  have ha1 : w1.arrs = w.arrs := by rw [← hw1]; simp
  have hi1 : w1.imols = w.imols := by rw [← hw1]; simp
  have hn1 : w1.next = w.next := by rw [← hw1]; simp
  have hph1 : w1.phasesOf tim = ps := by simp [World.phasesOf, hm1]
  rw [hph1] at h
  have hE := expand_spec w1 tim [sp] ps a hm1 hnp (by rw [ha1]; exact hlen) (by rw [ha1]; exact hnd)
    (by rw [ha1, hn1]; exact hlt)
  refine ⟨?_, hU.strs, hU.nS, hU.imols_ne, (hU.mat ps a hm).2.1, ?_⟩
  · -- well formed afterwards
    have fin : ∀ w2 : World, WFImol w2 tim →
        (match phIdx (w2.phasesOf tim) sp with
          | none => Except.error Err.undefinedPhase
          | some k =>
            if (same || remapOk tpkg spkg (w2.rows sr)) = true then
              Except.ok (w2.setRow ((w2.rowIdsOf tim).getD k tim) (w2.rows sr))
            else Except.error Err.undefinedChemical) = Except.ok w' → WFImol w' tim := by
      intro w2 hwf2 h2
      cases hk : phIdx (w2.phasesOf tim) sp with
      | none => simp [hk] at h2
      | some k =>
        simp only [hk] at h2
        by_cases hc : (same || remapOk tpkg spkg (w2.rows sr)) = true
        · simp only [hc, if_true, Except.ok.injEq] at h2
          subst h2
          exact wf_congr hwf2 (by simp) (by simp)
        · simp [hc] at h2
    apply fin _ _ h
    split
    · simp only [WFImol, hE.1]
      exact ⟨normPh_congr _ _ (mem_normPh _), hE.2.1, hE.2.2.1⟩
    · simp only [WFImol, hm1, ha1]
      exact ⟨hnp, hlen, hnd⟩
  · intro hsome
    have hnn : (phIdx ps sp).isNone = false := by
      cases hx : phIdx ps sp with
      | none => exact absurd hx hsome
      | some k => rfl
    simp only [hnn, Bool.false_eq_true, if_false] at h
    cases hk : phIdx (w1.phasesOf tim) sp with
    | none => simp [hk] at h
    | some k =>
      simp only [hk] at h
      by_cases hc : (same || remapOk tpkg spkg (w1.rows sr)) = true
      · simp only [hc, if_true, Except.ok.injEq] at h
        subst h
        simp [hi1, ha1]
      · simp [hc] at h

/-- the same for a multi-phase source: nothing structural happens when the phase tuples are equal or compatible -/
theorem matCopyFromMat_wf (w : World) (same : Bool) (tim : Nat) (tpkg : List Nat) (sim : Nat)
    (spkg : List Nat) (w' : World) (ps : List Ph) (a : Nat) (hm : w.imols tim = .mat ps a)
    (hnp : normPh ps = ps) (hlen : (w.arrs a).length = ps.length) (hnd : (w.arrs a).Nodup)
    (hlt : ∀ r ∈ w.arrs a, r < w.next)
    (h : w.matCopyFromMat same tim tpkg sim spkg = .ok w') :
    WFImol w' tim ∧ w'.strs = w.strs ∧ w'.nS = w.nS ∧ (∀ y, y ≠ tim → w'.imols y = w.imols y) ∧
    (∀ y, y ≠ a → w'.arrs y = w.arrs y) ∧
    (ps = w.phasesOf sim → w'.imols = w.imols ∧ w'.arrs = w.arrs) := by
  have hU := matCopyFromMat_spec _ _ _ _ _ _ _ h
  have hp0 : w.phasesOf tim = ps := by simp [World.phasesOf, hm]
  have hwf0 : WFImol w tim := by simp only [WFImol, hm]; exact ⟨hnp, hlen, hnd⟩
  refine ⟨?_, hU.strs, hU.nS, hU.imols_ne, (hU.mat ps a hm).2.1, ?_⟩
  · by_cases hpq : ps = w.phasesOf sim
    · obtain ⟨e1, e2, _⟩ := matCopyFromMat_struct_same w same tim tpkg sim spkg w' (by rw [hp0]; exact hpq) h
      exact wf_congr hwf0 e1 e2
    · unfold World.matCopyFromMat at h
      split at h
      · cases h; exact hwf0
      · simp only [hp0, hpq, if_false] at h
        have hE := expand_spec w tim (w.phasesOf sim) ps a hm hnp hlen hnd hlt
        have hkey : ∃ ps1, (if compatPh ps (w.phasesOf sim) then w else w.expand tim (w.phasesOf sim)).imols tim
              = .mat ps1 a ∧ normPh ps1 = ps1 ∧
            ((if compatPh ps (w.phasesOf sim) then w else w.expand tim (w.phasesOf sim)).arrs a).length = ps1.length ∧
            ((if compatPh ps (w.phasesOf sim) then w else w.expand tim (w.phasesOf sim)).arrs a).Nodup := by
          split
          · exact ⟨ps, hm, hnp, hlen, hnd⟩
          · exact ⟨_, hE.1, normPh_congr _ _ (mem_normPh _), hE.2.1, hE.2.2.1⟩
        generalize (if compatPh ps (w.phasesOf sim) then w else w.expand tim (w.phasesOf sim)) = w1 at h hkey
        obtain ⟨ps1, k1, k2, k3, k4⟩ := hkey
        split at h
        · obtain ⟨f1, f2, _⟩ := assignByPhase_fields _ _ _ _ _ w' h
          simp only [WFImol, f1, f2, clearRows_imols, clearRows_arrs, k1]
          exact ⟨k2, k3, k4⟩
        · cases h
  · intro hpq
    obtain ⟨e1, e2, _⟩ := matCopyFromMat_struct_same w same tim tpkg sim spkg w' (by rw [hp0]; exact hpq) h
    exact ⟨e1, e2⟩


theorem arrShared_false {w : World} {t a : Nat} {ps : List Ph} (hm : w.imols (w.strs t).imol = .mat ps a)
    (h : w.arrShared t = false) (j : Nat) (hj : j < w.nS) (hne : (w.strs j).imol ≠ (w.strs t).imol)
    (qs : List Ph) (b : Nat) (hmj : w.imols (w.strs j).imol = .mat qs b) : b ≠ a := by
  unfold World.arrShared at h
  simp only [hm] at h
  rw [List.any_eq_false] at h
  have := h j (by simp [hj])
  simp [hne, hmj] at this
  exact fun e => this e.symm

/-- after an in-place update of the target's indexer that kept it well formed, every stream is well formed,
provided the update was purely about contents or no other indexer shares the target's array -/
theorem wfAll_of_imol_update {w w1 : World} {t a : Nat} {ps : List Ph} (hwf : WFAll w)
    (hm : w.imols (w.strs t).imol = .mat ps a) (hwf1 : WFImol w1 (w.strs t).imol) (hstrs : w1.strs = w.strs)
    (hnS : w1.nS = w.nS) (hine : ∀ y, y ≠ (w.strs t).imol → w1.imols y = w.imols y)
    (hane : ∀ y, y ≠ a → w1.arrs y = w.arrs y)
    (hcase : (w1.imols = w.imols ∧ w1.arrs = w.arrs) ∨ w.arrShared t = false) : WFAll w1 := by
  rcases hcase with ⟨e1, e2⟩ | hns
  · exact wfAll_of_struct_eq hwf e1 e2 (fun j => by rw [hstrs]) hnS
  · intro j hj
    rw [hnS] at hj
    rw [hstrs]
    by_cases hjt : (w.strs j).imol = (w.strs t).imol
    · rw [hjt]; exact hwf1
    · have hw := hwf j hj
      unfold WFImol at hw ⊢
      rw [hine _ hjt]
      cases hmj : w.imols (w.strs j).imol with
      | chem ph r => trivial
      | mat qs b =>
        rw [hmj] at hw
        simp only
        rw [hane b (arrShared_false hm hns j hj hjt qs b hmj)]
        exact hw

theorem wfAll_tcCopyLike {w1 : World} (t s : Nat) (h : WFAll w1) : WFAll (w1.tcCopyLike t s) :=
  wfAll_of_struct_eq h (by simp [World.tcCopyLike]) (by simp [World.tcCopyLike])
    (fun j => by simp [World.tcCopyLike]) (by simp [World.tcCopyLike])

theorem phIdx_single_ne {ps : List Ph} {sp : Ph} (h : phIdx ps sp = none) : ps ≠ [sp] := by
  intro e; rw [e, phIdx_single] at h; cases h

theorem wfAll_copyLike (w : World) (t s : Nat) (w' : World) (hsc : Scoped w) (hwf : WFAll w) (ht : t < w.nS)
    (hs : s < w.nS) (h : w.copyLike t s = .ok w') : WFAll w' := by
  unfold World.copyLike at h
  simp only at h
  split at h
  · cases h
  · next hg =>
    cases hmt : w.imols (w.strs t).imol with
    | chem tph trow =>
      cases hms : w.imols (w.strs s).imol with
      | chem sph srow =>
        simp only [hmt, hms] at h
        split at h
        · cases h; exact wfAll_tcCopyLike t s hwf
        · obtain ⟨w1, h1, rfl⟩ := ofExcept_bind_ok _ _ _ h
          obtain ⟨_, f1, f2, f3, f4, _⟩ := chemCopyLike_spec _ _ _ _ _ _ _ _ _ h1
          exact wfAll_tcCopyLike t s (wfAll_of_struct_eq hwf f1 f2 (fun j => by rw [f3]) f4)
      | mat qs sa =>
        simp only [hmt, hms] at h
        split at h
        · next q =>
          obtain ⟨w1, h1, rfl⟩ := ofExcept_bind_ok _ _ _ h
          obtain ⟨_, f1, f2, f3, f4, _⟩ := chemCopyLike_spec _ _ _ _ _ _ _ _ _ h1
          exact wfAll_tcCopyLike t s (wfAll_of_struct_eq hwf (by rw [f1]; simp) (by rw [f2]; simp)
            (fun j => by rw [f3]; simp) (by rw [f4]; simp))
        · obtain ⟨w3, h3, rfl⟩ := ofExcept_bind_ok _ _ _ h
          apply wfAll_tcCopyLike
          have hws := hwf s hs
          simp only [WFImol, hms] at hws
          have hB := blankMat_spec w (normPh qs)
          have hwfB := wf_blankMat w qs
          generalize w.blankMat (normPh qs) = b at h3 hB hwfB
          obtain ⟨w1, im⟩ := b
          simp only at h3 hB hwfB
          have himfresh : w.next ≤ im := (hB.fresh im (by simp [World.fpImol])).1
          have hSim : (w.strs s).imol < w.next := hsc s hs _ (mem_fp_imol w s)
          have hph : (w1.setStr t { w.strs t with imol := im }).phasesOf im =
              (w1.setStr t { w.strs t with imol := im }).phasesOf (w.strs s).imol := by
            have e1 : (w1.setStr t { w.strs t with imol := im }).phasesOf im = normPh qs := by
              have := hB.phases; simpa [World.phasesOf] using this
            have e2 : w1.imols (w.strs s).imol = w.imols (w.strs s).imol :=
              (hB.writes.agree _ hSim (fun h => h)).2.2.2.2.2
            rw [e1]; simp [World.phasesOf, e2, hms, hws.1]
          obtain ⟨g1, g2, g3, g4⟩ := matCopyFromMat_struct_same _ _ _ _ _ _ _ hph h3
          intro j hj
          rw [g4] at hj
          simp only [setStr_nS, hB.nS] at hj
          by_cases hjt : j = t
          · subst hjt
            rw [g3]; simp only [setStr_strs, upd_same]
            exact wf_congr hwfB (by rw [g1]; simp) (by rw [g2]; simp)
          · have hsf : StructFrame w w3 := by
              intro x hx
              have := hB.writes.agree x hx (fun h => h)
              exact ⟨by rw [g1]; simp; exact this.2.2.2.2.2, by rw [g2]; simp; exact this.2.2.2.2.1⟩
            apply wf_of_structFrame hsf hsc j hj _ (hwf j hj)
            rw [g3]; simp [upd_ne _ _ _ _ hjt, hB.strs]
    | mat ps ta =>
      have hwt := hwf t ht
      simp only [WFImol, hmt] at hwt
      obtain ⟨hnp, hlen, hnd⟩ := hwt
      have hlt : ∀ r ∈ w.arrs ta, r < w.next := fun r hr => hsc t ht r ((mem_fp_mat hmt).2 r hr)
      have hpT : w.phasesOf (w.strs t).imol = ps := by simp [World.phasesOf, hmt]
      cases hms : w.imols (w.strs s).imol with
      | chem sph srow =>
        simp only [hmt, hms] at h
        obtain ⟨w1, h1, rfl⟩ := ofExcept_bind_ok _ _ _ h
        apply wfAll_tcCopyLike
        obtain ⟨k1, k2, k3, k4, k5, k6⟩ := matCopyFromChem_wf w _ _ _ _ _ _ w1 ps ta hmt hnp hlen hnd hlt h1
        apply wfAll_of_imol_update hwf hmt k1 k2 k3 k4 k5
        cases hx : phIdx ps (w.phs sph) with
        | some k => exact Or.inl (k6 (by rw [hx]; simp))
        | none =>
          right
          have hdiff : (w.phasesOf (w.strs t).imol != w.phasesOf (w.strs s).imol) = true := by
            rw [hpT]; simp [World.phasesOf, hms]; exact phIdx_single_ne hx
          simpa [hdiff] using hg
      | mat qs sa =>
        simp only [hmt, hms] at h
        obtain ⟨w1, h1, rfl⟩ := ofExcept_bind_ok _ _ _ h
        apply wfAll_tcCopyLike
        obtain ⟨k1, k2, k3, k4, k5, k6⟩ := matCopyFromMat_wf w _ _ _ _ _ w1 ps ta hmt hnp hlen hnd hlt h1
        apply wfAll_of_imol_update hwf hmt k1 k2 k3 k4 k5
        by_cases hpq : ps = w.phasesOf (w.strs s).imol
        · exact Or.inl (k6 hpq)
        · right
          have hdiff : (w.phasesOf (w.strs t).imol != w.phasesOf (w.strs s).imol) = true := by
            rw [hpT]; simpa using hpq
          simpa [hdiff] using hg


theorem wfAll_init : WFAll World.init := by
  intro i hi; simp [World.init] at hi

theorem wfAll_link (w : World) (t s : Nat) (f p tp : Bool) (w' : World) (hwf : WFAll w) (ht : t < w.nS)
    (hs : s < w.nS) (h : w.link t s f p tp = .ok w') : WFAll w' := by
  unfold World.link at h
  -- every case ends with one write to the indexer object of the target, after an optional change of its `tc` slot
  have key : ∀ (w1 : World) (m : Imol), w1.imols = w.imols → w1.arrs = w.arrs → w1.nS = w.nS →
      (∀ j, (w1.strs j).imol = (w.strs j).imol) →
      WFImol (w1.setImol (w.strs t).imol m) (w.strs t).imol → WFAll (w1.setImol (w.strs t).imol m) := by
    intro w1 m hi ha hn hsl hnew j hj
    simp only [setImol_nS, hn] at hj
    simp only [setImol_strs, hsl]
    by_cases hjt : (w.strs j).imol = (w.strs t).imol
    · rw [hjt]; exact hnew
    · have := hwf j hj
      unfold WFImol at this ⊢
      simp only [setImol_imols, upd_ne _ _ _ _ hjt, setImol_arrs, hi, ha]
      exact this
  have hw1 : ∀ (c : Bool), (if c then w.setStr t { w.strs t with tc := (w.strs s).tc } else w).imols = w.imols ∧
      (if c then w.setStr t { w.strs t with tc := (w.strs s).tc } else w).arrs = w.arrs ∧
      (if c then w.setStr t { w.strs t with tc := (w.strs s).tc } else w).nS = w.nS ∧
      ∀ j, ((if c then w.setStr t { w.strs t with tc := (w.strs s).tc } else w).strs j).imol = (w.strs j).imol := by
    intro c
    cases c
    · simp
    · refine ⟨rfl, rfl, rfl, ?_⟩
      intro j
      by_cases hj : j = t
      · subst hj; simp
      · simp [upd_ne _ _ _ _ hj]
  cases hmt : w.imols (w.strs t).imol with
  | chem tph trow =>
    cases hms : w.imols (w.strs s).imol with
    | mat qs sa => simp [hmt, hms] at h
    | chem sph srow =>
      simp only [hmt, hms] at h
      split at h
      · cases h
      · cases h
        obtain ⟨a1, a2, a3, a4⟩ := hw1 tp
        exact key _ _ a1 a2 a3 a4 (by simp [WFImol])
  | mat ps ta =>
    cases hms : w.imols (w.strs s).imol with
    | chem sph srow => simp [hmt, hms] at h
    | mat qs sa =>
      simp only [hmt, hms] at h
      split at h
      · cases h
      · next hdom =>
        cases h
        obtain ⟨a1, a2, a3, a4⟩ := hw1 tp
        apply key _ _ a1 a2 a3 a4
        have hwt := hwf t ht
        have hws := hwf s hs
        simp only [WFImol, hmt] at hwt
        simp only [WFImol, hms] at hws
        simp only [WFImol, setImol_imols, upd_same, setImol_arrs, a2]
        cases f
        · simpa using hwt
        · have hpq : ps = qs := by
            simp at hdom
            exact hdom.2
          simp only [if_true]
          rw [hpq]
          exact hws

theorem wfAll_step (w : World) (op : Op) (w' : World) (hsc : Scoped w) (hwf : WFAll w)
    (h : w.step op = .ok w') : WFAll w' := by
  have hall : (op.ids.all fun x => decide (x < w.nS)) = true := by
    unfold World.step at h
    split at h
    · assumption
    · cases h
  have hids : ∀ i ∈ op.ids, i < w.nS := by simpa using hall
  simp only [World.step, hall, if_true] at h
  cases op with
  | new a =>
    simp only [World.exec] at h
    cases hc : w.ctor a with
    | error e => simp [hc, Res.ofExcept] at h
    | ok p =>
      simp [hc, Res.ofExcept] at h
      subst h
      obtain ⟨hw, _, hn, _⟩ := writes_ctor w a p.1 p.2 hc
      apply wfAll_of_fresh hsc hwf hw hn
      have hf : a.flowsOk = true := by
        cases hf : a.flowsOk with
        | true => rfl
        | false => simp [World.ctor, hf] at hc
      have hz : (a.rescales && a.given == 0) = false := by
        cases hz : (a.rescales && a.given == 0) with
        | false => rfl
        | true => simp [World.ctor, hf, hz] at hc
      cases hm : a.multi with
      | true =>
        simp only [World.ctor, hf, hz, hm, Bool.not_true, Bool.false_eq_true, if_false, if_true, Except.ok.injEq] at hc
        rw [← hc]
        simp [WFImol, newRows_ids]
        exact ⟨normPh_congr _ _ (mem_normPh _), List.nodup_range'⟩
      | false =>
        simp only [World.ctor, hf, hz, hm, Bool.not_true, Bool.false_eq_true, if_false, Except.ok.injEq] at hc
        rw [← hc]
        simp [WFImol]
  | setFlow s p c v =>
    simp only [World.exec] at h
    cases hc : w.setFlow s p c v with
    | error e => simp [hc, Res.ofExcept] at h
    | ok w1 =>
      simp [hc, Res.ofExcept] at h
      subst h
      unfold World.setFlow at hc
      cases hm : w.imols (w.strs s).imol with
      | chem ph r =>
        simp only [hm] at hc
        split at hc
        · cases hc
        · cases hc; exact wfAll_of_struct_eq hwf rfl rfl (fun _ => rfl) rfl
      | mat ps a =>
        simp only [hm] at hc
        split at hc
        · cases hc
        · split at hc
          · cases hc
          · cases hc; exact wfAll_of_struct_eq hwf rfl rfl (fun _ => rfl) rfl
  | setT s v => simp only [World.exec] at h; cases h; exact wfAll_of_struct_eq hwf rfl rfl (fun _ => rfl) rfl
  | setP s v => simp only [World.exec] at h; cases h; exact wfAll_of_struct_eq hwf rfl rfl (fun _ => rfl) rfl
  | setPhase s p =>
    simp only [World.exec] at h; cases h
    have hs := hids s (by simp [Op.ids])
    cases hm : w.imols (w.strs s).imol with
    | chem ph r =>
      simp only [World.setPhase, hm]
      exact wfAll_of_struct_eq hwf rfl rfl (fun _ => rfl) rfl
    | mat ps a =>
      simp only [World.setPhase, hm]
      intro j hj
      simp at hj
      by_cases hjs : j = s
      · subst hjs; simp [WFImol]
      · have hw : Writes w ((((w.newPh p).1.newRow fun c =>
            List.foldl (fun x1 x2 => x1 + x2) 0 (List.map (fun r => w.rows r c) (w.arrs a))).1.newImol
            (Imol.chem (w.newPh p).2 ((w.newPh p).1.newRow fun c =>
            List.foldl (fun x1 x2 => x1 + x2) 0 (List.map (fun r => w.rows r c) (w.arrs a))).2)).1.setStr s
            { w.strs s with imol := (((w.newPh p).1.newRow fun c =>
            List.foldl (fun x1 x2 => x1 + x2) 0 (List.map (fun r => w.rows r c) (w.arrs a))).1.newImol
            (Imol.chem (w.newPh p).2 ((w.newPh p).1.newRow fun c =>
            List.foldl (fun x1 x2 => x1 + x2) 0 (List.map (fun r => w.rows r c) (w.arrs a))).2)).2 })
            none' (· = s) :=
          (writes_newPh w p).of_none.seq ((writes_newRow _ _).of_none.seq ((writes_newImol _ _).of_none.seq
            ((writes_setStr _ s _).mono (fun x _ h => h.elim) (fun i _ h => by intros; exact h))))
        apply wf_of_structFrame (StructFrame.of_writes hw) hsc j hj _ (hwf j hj)
        rw [hw.strs j hj hjs]
  | empty s =>
    simp only [World.exec] at h; cases h
    exact wfAll_of_struct_eq hwf (by simp [World.empty]) (by simp [World.empty]) (fun _ => by simp [World.empty])
      (by simp [World.empty])
  | setPrice s v =>
    simp only [World.exec] at h; cases h
    refine wfAll_of_struct_eq hwf rfl rfl (fun j => ?_) rfl
    by_cases hj : j = s
    · subst hj; simp [World.setPrice]
    · simp [World.setPrice, upd_ne _ _ _ _ hj]
  | setCF s k v => simp only [World.exec] at h; cases h; exact wfAll_of_struct_eq hwf rfl rfl (fun _ => rfl) rfl
  | copy s =>
    simp only [World.exec] at h; cases h
    have hs := hids s (by simp [Op.ids])
    apply wfAll_of_fresh hsc hwf (writes_copy w s) (copy_fresh w s).2.1
    simp only [World.copy, pushStr_strs, upd_same, copyImol_nS, newTc_nS, newCf_nS]
    have h0 : WFImol (w.newCf []).1 (w.strs s).imol := wf_congr (hwf s hs) (by simp) (by simp)
    exact wf_congr (wf_copyImol _ _ h0) (by simp) (by simp)
  | copyTo s pid pkg =>
    simp only [World.exec] at h
    have hs := hids s (by simp [Op.ids])
    have hcopy : WFAll (w.copy s).1 := by
      apply wfAll_of_fresh hsc hwf (writes_copy w s) (copy_fresh w s).2.1
      simp only [World.copy, pushStr_strs, upd_same, copyImol_nS, newTc_nS, newCf_nS]
      have h0 : WFImol (w.newCf []).1 (w.strs s).imol := wf_congr (hwf s hs) (by simp) (by simp)
      exact wf_congr (wf_copyImol _ _ h0) (by simp) (by simp)
    cases hc : w.copyTo s pid pkg with
    | error e => simp [hc, Res.ofExcept] at h
    | ok p =>
      simp [hc, Res.ofExcept] at h
      subst h
      unfold World.copyTo at hc
      simp only at hc
      split at hc
      · cases hc; exact hcopy
      · split at hc
        · cases hc
          refine wfAll_of_struct_eq hcopy rfl rfl (fun j => ?_) rfl
          by_cases hj : j = (w.copy s).2
          · subst hj; simp
          · simp [upd_ne _ _ _ _ hj]
        · cases hc
  | copyLike t s =>
    simp only [World.exec] at h
    exact wfAll_copyLike w t s w' hsc hwf (hids t (by simp [Op.ids])) (hids s (by simp [Op.ids])) h
  | copyTC t s =>
    simp only [World.exec] at h; cases h
    exact wfAll_tcCopyLike t s hwf
  | link t s f p tp =>
    simp only [World.exec] at h
    exact wfAll_link w t s f p tp w' hwf (hids t (by simp [Op.ids])) (hids s (by simp [Op.ids])) h
  | unlink s =>
    simp only [World.exec] at h; cases h
    have hs := hids s (by simp [Op.ids])
    intro j hj
    have hnS : (w.unlink s).nS = w.nS := by simp [World.unlink]
    rw [hnS] at hj
    by_cases hjs : j = s
    · subst hjs
      simp only [World.unlink, setStr_strs, upd_same]
      exact wf_congr (wf_copyImol _ _ (hwf j hj)) (by simp) (by simp)
    · apply wf_of_structFrame (StructFrame.of_writes (writes_unlink w s)) hsc j hj _ (hwf j hj)
      rw [(writes_unlink w s).strs j hj hjs]
  | proxy s =>
    simp only [World.exec] at h; cases h
    have hs := hids s (by simp [Op.ids])
    apply wfAll_of_fresh hsc hwf (writes_proxy w s) (by simp [World.proxy])
    simp only [World.proxy, pushStr_strs, upd_same]
    exact wf_congr (hwf s hs) (by simp) (by simp)
  | flowProxy s =>
    simp only [World.exec] at h; cases h
    have hs := hids s (by simp [Op.ids])
    have hnS : (w.flowProxy s).1.nS = w.nS + 1 := by
      simp only [World.flowProxy]; cases hm : w.imols (w.strs s).imol <;> simp
    apply wfAll_of_fresh hsc hwf (writes_flowProxy w s) hnS
    have hws := hwf s hs
    simp only [World.flowProxy]
    cases hm : w.imols (w.strs s).imol with
    | chem ph r => simp [WFImol]
    | mat ps a =>
      simp only [WFImol, hm] at hws
      simp [WFImol]
      have hne : w.next + 1 + 1 ≠ w.next := by omega
      simpa using hws
  | pickle s =>
    simp only [World.exec] at h; cases h
    obtain ⟨h1, _, h3, _, _⟩ := rebuild_spec w (w.pickleArgs s)
    apply wfAll_of_fresh hsc hwf h1 h3
    simp only [World.pickle, World.rebuild, World.rebuildTail, pushStr_strs, setTc_nS, setRowsSeq_nS]
    have hB := rebuild_blank ((w.newCf (w.pickleArgs s).cf).1.newTc (defaultT, defaultP)).1
      (w.pickleArgs s).data.phases
    rw [hB.nS]
    simp only [newTc_nS, newCf_nS, upd_same]
    exact wf_congr (wf_blankFor _ _) (by simp) (by simp)

theorem wfAll_run (ops : List Op) : ∀ w : World, Scoped w → WFAll w → WFAll (w.run ops) := by
  induction ops with
  | nil => intro w _ h; exact h
  | cons op ops ih =>
    intro w hsc h
    simp only [World.run]
    cases hst : w.step op with
    | ok w' => exact ih w' (scoped_step w op w' hsc hst) (wfAll_step w op w' hsc h hst)
    | skip => exact ih w hsc h
    | err e => exact h



/-- the observation of a stream whose slots, indexer structure, rows, phase value and (T, P) are the same -/
theorem observe_eq_of {w w' : World} {s : Nat} (hstr : w'.strs s = w.strs s)
    (himol : w'.imols (w.strs s).imol = w.imols (w.strs s).imol)
    (harr : ∀ ps a, w.imols (w.strs s).imol = .mat ps a → w'.arrs a = w.arrs a)
    (hph : ∀ ph r, w.imols (w.strs s).imol = .chem ph r → w'.phs ph = w.phs ph)
    (hrows : ∀ r ∈ w.rowIdsOf (w.strs s).imol, w'.rows r = w.rows r)
    (htc : w'.tcs (w.strs s).tc = w.tcs (w.strs s).tc) (hcf : w'.cfs (w.strs s).cf = w.cfs (w.strs s).cf) :
    w'.observe s = w.observe s := by
  have hri : w'.rowIdsOf (w.strs s).imol = w.rowIdsOf (w.strs s).imol := by
    unfold World.rowIdsOf; rw [himol]
    cases hm : w.imols (w.strs s).imol with
    | chem ph r => rfl
    | mat ps a => simp [harr ps a hm]
  have hpo : w'.phasesOf (w.strs s).imol = w.phasesOf (w.strs s).imol := by
    unfold World.phasesOf; rw [himol]
    cases hm : w.imols (w.strs s).imol with
    | chem ph r => simp [hph ph r hm]
    | mat ps a => rfl
  unfold World.observe
  simp only [hstr, hri, hpo, htc, hcf]
  congr 1
  exact List.map_congr_left hrows

/-- `copy_like` does not change its source (for streams that share no flow data) -/
theorem copyLike_source (w : World) (t s : Nat) (w' : World) (hsc : Scoped w) (ht : t < w.nS) (hs : s < w.nS)
    (hwt : WFImol w (w.strs t).imol) (hws : WFImol w (w.strs s).imol) (hap : Apart w t s) (hts : t ≠ s)
    (h : w.copyLike t s = .ok w') : w'.observe s = w.observe s := by
  have hScf := hsc s hs _ (mem_fp_cf w s)
  -- the final `ThermalCondition.copy_like` leaves the source's (T, P) as they are
  have tcfin : ∀ w1 : World, w1.strs s = w.strs s → w1.tcs = w.tcs →
      (w1.tcCopyLike t s).tcs (w.strs s).tc = w.tcs (w.strs s).tc := by
    intro w1 e1 e2
    simp only [World.tcCopyLike, setTc_tcs, e1, e2]
    by_cases hx : (w.strs s).tc = (w1.strs t).tc
    · rw [hx]; simp
    · exact upd_ne _ _ _ _ hx
  unfold World.copyLike at h
  simp only at h
  split at h
  · cases h
  · cases hmt : w.imols (w.strs t).imol with
    | chem tph trow =>
      cases hms : w.imols (w.strs s).imol with
      | chem sph srow =>
        simp only [hmt, hms, hap.imol, if_false] at h
        obtain ⟨w1, h1, rfl⟩ := ofExcept_bind_ok _ _ _ h
        have hne : trow ≠ srow := by
          have := hap.rows trow (by simp [World.rowIdsOf, hmt])
          simpa [World.rowIdsOf, hms] using this
        obtain ⟨v1, v2, v3, v4⟩ := chemCopyLike_value _ _ _ _ _ _ _ _ _ hne h1
        obtain ⟨_, f1, f2, f3, _, _, f6, f7⟩ := chemCopyLike_spec _ _ _ _ _ _ _ _ _ h1
        apply observe_eq_of (by simp [World.tcCopyLike, f3]) (by simp [World.tcCopyLike, f1])
          (fun ps a hm => by simp [World.tcCopyLike, f2])
        · intro ph r hm
          rw [hms] at hm; cases hm
          simp only [World.tcCopyLike, setTc_phs]
          by_cases hp : sph = tph
          · rw [hp]; rw [hp] at v2; exact v2
          · exact v4 sph hp
        · intro r hr
          simp [World.rowIdsOf, hms] at hr; subst hr
          simp only [World.tcCopyLike, setTc_rows]
          exact v3 r (Ne.symm hne)
        · exact tcfin w1 (by rw [f3]) f6
        · simp [World.tcCopyLike, f7]
      | mat qs sa =>
        simp only [hmt, hms] at h
        obtain ⟨hnq, hlenq, hndq⟩ : normPh qs = qs ∧ (w.arrs sa).length = qs.length ∧ (w.arrs sa).Nodup := by
          simpa [WFImol, hms] using hws
        split at h
        · next q =>
          obtain ⟨w1, h1, rfl⟩ := ofExcept_bind_ok _ _ _ h
          have hl1 : (w.arrs sa).length = 1 := by simpa using hlenq
          obtain ⟨sr, hsr⟩ : ∃ sr, w.arrs sa = [sr] := by
            cases hra : w.arrs sa with
            | nil => simp [hra] at hl1
            | cons x xs =>
              cases xs with
              | nil => exact ⟨x, rfl⟩
              | cons y ys => simp [hra] at hl1
          have hne : trow ≠ sr := by
            have := hap.rows trow (by simp [World.rowIdsOf, hmt])
            simpa [World.rowIdsOf, hms, hsr] using this
          have hsr' : ((w.setPh tph q).arrs sa).getD 0 0 = sr := by simp [hsr]
          rw [hsr'] at h1
          obtain ⟨v1, v2, v3, v4⟩ := chemCopyLike_value _ _ _ _ _ _ _ _ _ hne h1
          obtain ⟨_, f1, f2, f3, _, _, f6, f7⟩ := chemCopyLike_spec _ _ _ _ _ _ _ _ _ h1
          apply observe_eq_of (by simp [World.tcCopyLike, f3]) (by simp [World.tcCopyLike, f1])
            (fun ps a hm => by simp [World.tcCopyLike, f2])
          · intro ph r hm; rw [hms] at hm; cases hm
          · intro r hr
            simp [World.rowIdsOf, hms, hsr] at hr; subst hr
            simp only [World.tcCopyLike, setTc_rows]
            rw [v3 r (Ne.symm hne)]; simp
          · exact tcfin w1 (by rw [f3]; simp) (by rw [f6]; simp)
          · simp [World.tcCopyLike, f7]
        · obtain ⟨w3, h3, rfl⟩ := ofExcept_bind_ok _ _ _ h
          have hSim : (w.strs s).imol < w.next := hsc s hs _ (mem_fp_imol w s)
          have hsa : sa < w.next := hsc s hs _ (mem_fp_mat hms).1
          have hltq : ∀ r ∈ w.arrs sa, r < w.next := fun r hr => hsc s hs r ((mem_fp_mat hms).2 r hr)
          unfold World.blankMat at h3
          simp only [newImol_snd, newArr_snd, newArr_next, newRows_next, List.length_map] at h3
          generalize hzs : ((normPh qs).map fun _ => Row.zero) = zs at h3
          have hzl : zs.length = (normPh qs).length := by rw [← hzs]; simp
          have hids := newRows_ids zs w
          have hold := newRows_old w zs
          generalize hnr : w.newRows zs = nr at h3 hids hold
          obtain ⟨w1, rs⟩ := nr
          simp only at h3 hids hold
          have hn1 : w1.next = w.next + zs.length := by
            have := newRows_next w zs; rw [hnr] at this; exact this
          have himols1 : w1.imols = w.imols := by have := newRows_imols w zs; rw [hnr] at this; exact this
          have harrs1 : w1.arrs = w.arrs := by have := newRows_arrs w zs; rw [hnr] at this; exact this
          have hstrs1 : w1.strs = w.strs := by have := newRows_strs w zs; rw [hnr] at this; exact this
          have htcs1 : w1.tcs = w.tcs := by have := newRows_tcs w zs; rw [hnr] at this; exact this
          have hphs1 : w1.phs = w.phs := by have := newRows_phs w zs; rw [hnr] at this; exact this
          have hcfs1 : w1.cfs = w.cfs := by have := newRows_cfs w zs; rw [hnr] at this; exact this
          have hrs_mem : ∀ r ∈ rs, w.next ≤ r ∧ r < w.next + zs.length := by
            intro r hr; rw [hids] at hr; exact mem_range'_lt hr
          have hN : w1.next = w.next + (normPh qs).length := by rw [hn1, hzl]
          obtain ⟨N, hNdef⟩ : ∃ N, N = w.next + (normPh qs).length := ⟨_, rfl⟩
          rw [← hNdef] at h3 hN
          have harne : N ≠ sa := by omega
          have himne : N + 1 ≠ (w.strs s).imol := by omega
          obtain ⟨W2, hW2⟩ : ∃ W2, W2 = ((w1.newArr rs).1.newImol (Imol.mat (normPh qs) N)).1.setStr t
              { w.strs t with imol := N + 1 } := ⟨_, rfl⟩
          rw [← hW2] at h3
          have q1 : W2.imols (N + 1) = .mat (normPh qs) N := by rw [hW2]; simp [hN]
          have q2 : W2.imols (w.strs s).imol = .mat qs sa := by
            rw [hW2]; simp [hN, upd_ne _ _ _ _ (Ne.symm himne), himols1, hms]
          have q3 : W2.arrs N = rs := by rw [hW2]; simp [hN]
          have q4 : W2.arrs sa = w.arrs sa := by rw [hW2]; simp [hN, upd_ne _ _ _ _ (Ne.symm harne), harrs1]
          have q5 : W2.next = N + 2 := by rw [hW2]; simp [hN]
          have q6 : W2.rows = w1.rows := by rw [hW2]; simp
          have q7 : W2.strs = upd w.strs t { w.strs t with imol := N + 1 } := by rw [hW2]; simp [hstrs1]
          have q8 : W2.tcs = w.tcs := by rw [hW2]; simp [htcs1]
          have q9 : W2.phs = w.phs := by rw [hW2]; simp [hphs1]
          have q10 : W2.cfs = w.cfs := by rw [hW2]; simp [hcfs1]
          obtain ⟨_, _, v3, v4, v5, v6, v7, v8, _⟩ := matCopyFromMat_value W2 _ (N + 1) _ _ _ w3
            (normPh qs) qs N sa q1 q2 himne harne (normPh_congr _ _ (mem_normPh _))
            (by rw [q3, hids]; simp [hzl])
            (by rw [q3, hids]; exact List.nodup_range')
            (by intro r hr; rw [q3] at hr; have := hrs_mem r hr; rw [q5]; omega) hnq
            (by rw [q4]; exact hlenq)
            (by intro r hr; rw [q4] at hr; have := hltq r hr; rw [q5]; omega)
            (by
              intro x hx hx2
              rw [q3] at hx; rw [q4] at hx2
              have := hrs_mem x hx; have := hltq x hx2; omega) h3
          have hss : w3.strs s = w.strs s := by rw [v5, q7]; exact upd_ne _ _ _ _ (Ne.symm hts)
          apply observe_eq_of (by simp [World.tcCopyLike, hss])
          · simp only [World.tcCopyLike, setTc_imols]
            rw [v7 _ (Ne.symm himne), q2, hms]
          · intro ps a hm
            rw [hms] at hm; cases hm
            simp only [World.tcCopyLike, setTc_arrs]
            rw [v8 _ (Ne.symm harne), q4]
          · intro ph r hm; rw [hms] at hm; cases hm
          · intro r hr
            simp [World.rowIdsOf, hms] at hr
            simp only [World.tcCopyLike, setTc_rows]
            have hrl := hltq r hr
            rw [v6 r (by rw [q5]; omega) (by rw [q3]; intro hm; have := hrs_mem r hm; omega), q6]
            exact hold r hrl
          · exact tcfin w3 hss (by rw [v4, q8])
          · simp only [World.tcCopyLike, setTc_cfs]
            rw [(matCopyFromMat_spec _ _ _ _ _ _ _ h3).cfs, q10]
    | mat ps ta =>
      obtain ⟨hnp, hlen, hnd⟩ : normPh ps = ps ∧ (w.arrs ta).length = ps.length ∧ (w.arrs ta).Nodup := by
        simpa [WFImol, hmt] using hwt
      have hlt : ∀ r ∈ w.arrs ta, r < w.next := fun r hr => hsc t ht r ((mem_fp_mat hmt).2 r hr)
      -- both remaining branches end the same way
      have fin : ∀ w1 : World, w1.phs = w.phs → w1.tcs = w.tcs → w1.strs = w.strs →
          (∀ x, x < w.next → x ∉ w.arrs ta → w1.rows x = w.rows x) →
          (∀ y, y ≠ (w.strs t).imol → w1.imols y = w.imols y) → (∀ y, y ≠ ta → w1.arrs y = w.arrs y) →
          w1.cfs (w.strs s).cf = w.cfs (w.strs s).cf →
          (w1.tcCopyLike t s).observe s = w.observe s := by
        intro w1 v3 v4 v5 v6 v7 v8 v9
        apply observe_eq_of (by simp [World.tcCopyLike, v5])
          (by simp only [World.tcCopyLike, setTc_imols]; exact v7 _ (Ne.symm hap.imol))
        · intro qs b hm
          simp only [World.tcCopyLike, setTc_arrs]
          exact v8 b (Ne.symm (hap.arr ps ta qs b hmt hm))
        · intro ph r hm; simp [World.tcCopyLike, v3]
        · intro r hr
          simp only [World.tcCopyLike, setTc_rows]
          apply v6 r (hsc s hs r (mem_fp_rowIds hr))
          intro hmem
          exact hap.rows r (by simp [World.rowIdsOf, hmt, hmem]) hr
        · exact tcfin w1 (by rw [v5]) v4
        · simp [World.tcCopyLike, v9]
      cases hms : w.imols (w.strs s).imol with
      | chem sph srow =>
        simp only [hmt, hms] at h
        obtain ⟨w1, h1, rfl⟩ := ofExcept_bind_ok _ _ _ h
        have hsr : srow ∉ w.arrs ta := by
          intro hmem
          exact hap.rows srow (by simp [World.rowIdsOf, hmt, hmem]) (by simp [World.rowIdsOf, hms])
        have hsrlt : srow < w.next := hsc s hs srow (mem_fp_chem hms).2
        obtain ⟨_, _, v3, v4, v5, v6, v7, v8⟩ := matCopyFromChem_value w _ _ _ srow (w.phs sph) _ w1 ps ta hmt hnp
          hlen hnd hlt hsr hsrlt h1
        exact fin w1 v3 v4 v5 v6 v7 v8 (by rw [(matCopyFromChem_spec _ _ _ _ _ _ _ _ h1).cfs])
      | mat qs sa =>
        simp only [hmt, hms] at h
        obtain ⟨w1, h1, rfl⟩ := ofExcept_bind_ok _ _ _ h
        obtain ⟨hnq, hlenq, hndq⟩ : normPh qs = qs ∧ (w.arrs sa).length = qs.length ∧ (w.arrs sa).Nodup := by
          simpa [WFImol, hms] using hws
        have hltq : ∀ r ∈ w.arrs sa, r < w.next := fun r hr => hsc s hs r ((mem_fp_mat hms).2 r hr)
        have hapr : ∀ x ∈ w.arrs ta, x ∉ w.arrs sa := by
          intro x hx
          have := hap.rows x (by simp [World.rowIdsOf, hmt, hx])
          simpa [World.rowIdsOf, hms] using this
        obtain ⟨_, _, v3, v4, v5, v6, v7, v8, _⟩ := matCopyFromMat_value w _ _ _ _ _ w1 ps qs ta sa hmt hms hap.imol
          (hap.arr ps ta qs sa hmt hms) hnp hlen hnd hlt hnq hlenq hltq hapr h1
        exact fin w1 v3 v4 v5 v6 v7 v8 (by rw [(matCopyFromMat_spec _ _ _ _ _ _ _ h1).cfs])



/-- "the row object of every phase the indexer had is still the row object of that phase" -/
def RowKeep (w w' : World) (tim : Nat) (ps : List Ph) (a : Nat) : Prop :=
  ∀ p k, ps.idxOf? p = some k →
    ∃ ps' k', w'.imols tim = .mat ps' a ∧ ps'.idxOf? p = some k' ∧ (w'.arrs a)[k']? = (w.arrs a)[k]?

/-- `_expand_phases` keeps, for every phase the indexer already had, the same row object -/
theorem expand_rowKeep (w : World) (tim : Nat) (other ps : List Ph) (a : Nat) (hm : w.imols tim = .mat ps a)
    (hlen : (w.arrs a).length = ps.length) : RowKeep w (w.expand tim other) tim ps a := by
  intro p k hk
  have hkl := idxOf?_lt ps p k hk
  unfold World.expand
  simp only [hm]
  split
  · exact ⟨ps, k, hm, hk, rfl⟩
  · have hmem : p ∈ normPh (ps ++ other) := by
      rw [mem_normPh]; simp [List.mem_of_getElem? hkl.2]
    obtain ⟨k', hk'⟩ := idxOf?_some_of_mem _ _ hmem
    have hk'l := idxOf?_lt _ _ _ hk'
    refine ⟨_, k', by simp, hk', ?_⟩
    simp only [setImol_arrs, setArr_arrs, upd_same, List.getElem?_map, hk'l.2, Option.map_some, hk]
    have : k < (w.arrs a).length := by omega
    simp [List.getD_eq_getElem?_getD, List.getElem?_eq_getElem this]

theorem RowKeep.of_eq {w w' : World} {tim a : Nat} {ps : List Ph} (hm : w.imols tim = .mat ps a)
    (hi : w'.imols = w.imols) (ha : w'.arrs = w.arrs) : RowKeep w w' tim ps a :=
  fun _ k hk => ⟨ps, k, by rw [hi]; exact hm, hk, by rw [ha]⟩

theorem matCopyFromChem_rowKeep (w : World) (same : Bool) (tim : Nat) (tpkg : List Nat) (sr : Nat) (sp : Ph)
    (spkg : List Nat) (w' : World) (ps : List Ph) (a : Nat) (hm : w.imols tim = .mat ps a)
    (hlen : (w.arrs a).length = ps.length)
    (h : w.matCopyFromChem same tim tpkg sr sp spkg = .ok w') : RowKeep w w' tim ps a := by
  unfold World.matCopyFromChem at h
  simp only at h
  generalize hw1 : w.clearRows (w.rowIdsOf tim) = w1 at h
  have hm1 : w1.imols tim = .mat ps a := by rw [← hw1]; simpa using hm
  have ha1 : w1.arrs = w.arrs := by rw [← hw1]; simp
  have tail : ∀ w2 : World,
      (match phIdx (w2.phasesOf tim) sp with
        | none => Except.error Err.undefinedPhase
        | some k =>
          if (same || remapOk tpkg spkg (w2.rows sr)) = true then
            Except.ok (w2.setRow ((w2.rowIdsOf tim).getD k tim) (w2.rows sr))
          else Except.error Err.undefinedChemical) = Except.ok w' → w'.imols = w2.imols ∧ w'.arrs = w2.arrs := by
    intro w2 h2
    cases hk : phIdx (w2.phasesOf tim) sp with
    | none => simp [hk] at h2
    | some k =>
      simp only [hk] at h2
      by_cases hc : (same || remapOk tpkg spkg (w2.rows sr)) = true
      · simp only [hc, if_true, Except.ok.injEq] at h2
        subst h2; simp
      · simp [hc] at h2
  have hk1 : RowKeep w1 (if (phIdx (w1.phasesOf tim) sp).isNone then w1.expand tim [sp] else w1) tim ps a := by
    split
    · exact expand_rowKeep w1 tim [sp] ps a hm1 (by rw [ha1]; exact hlen)
    · exact RowKeep.of_eq hm1 rfl rfl
  generalize (if (phIdx (w1.phasesOf tim) sp).isNone then w1.expand tim [sp] else w1) = w2 at h hk1
  obtain ⟨t1, t2⟩ := tail w2 h
  intro p k hk
  obtain ⟨ps', k', e1, e2, e3⟩ := hk1 p k hk
  exact ⟨ps', k', by rw [t1]; exact e1, e2, by rw [t2, e3, ha1]⟩

theorem matCopyFromMat_rowKeep (w : World) (same : Bool) (tim : Nat) (tpkg : List Nat) (sim : Nat)
    (spkg : List Nat) (w' : World) (ps : List Ph) (a : Nat) (hm : w.imols tim = .mat ps a)
    (hlen : (w.arrs a).length = ps.length)
    (h : w.matCopyFromMat same tim tpkg sim spkg = .ok w') : RowKeep w w' tim ps a := by
  have hp0 : w.phasesOf tim = ps := by simp [World.phasesOf, hm]
  by_cases hpq : w.phasesOf tim = w.phasesOf sim
  · obtain ⟨e1, e2, _⟩ := matCopyFromMat_struct_same w same tim tpkg sim spkg w' hpq h
    exact RowKeep.of_eq hm e1 e2
  · unfold World.matCopyFromMat at h
    split at h
    · cases h; exact RowKeep.of_eq hm rfl rfl
    · simp only [hpq, if_false] at h
      have hk1 : RowKeep w (if compatPh (w.phasesOf tim) (w.phasesOf sim) then w else w.expand tim (w.phasesOf sim))
          tim ps a := by
        split
        · exact RowKeep.of_eq hm rfl rfl
        · exact expand_rowKeep w tim _ ps a hm hlen
      generalize (if compatPh (w.phasesOf tim) (w.phasesOf sim) then w else w.expand tim (w.phasesOf sim)) = w1
        at h hk1
      split at h
      · obtain ⟨f1, f2, _⟩ := assignByPhase_fields _ _ _ _ _ w' h
        intro p k hk
        obtain ⟨ps', k', e1, e2, e3⟩ := hk1 p k hk
        exact ⟨ps', k', by rw [f1]; simpa using e1, e2, by rw [f2]; simpa using e3⟩
      · cases h


/-! ### phase views follow their stream -/

/-- stream `j` keeps its thermal-condition object and, for every phase, its row object -/
def BindKeep (w w' : World) (j : Nat) : Prop :=
  (w'.strs j).tc = (w.strs j).tc ∧ ∀ p r, w.rowOfPhase j p = some r → w'.rowOfPhase j p = some r

theorem bindKeep_of_struct {w w' : World} (hsf : StructFrame w w') (hsc : Scoped w) (j : Nat) (hj : j < w.nS)
    (hi : (w'.strs j).imol = (w.strs j).imol) (ht : (w'.strs j).tc = (w.strs j).tc) : BindKeep w w' j := by
  refine ⟨ht, ?_⟩
  intro p r hr
  unfold World.rowOfPhase at hr ⊢
  rw [hi, (hsf _ (hsc j hj _ (mem_fp_imol w j))).1]
  cases hm : w.imols (w.strs j).imol with
  | chem ph r' => simp [hm] at hr
  | mat ps a =>
    simp only [hm] at hr ⊢
    rw [(hsf a (hsc j hj a (mem_fp_mat hm).1)).2]
    exact hr

theorem bindKeep_of_eq {w w' : World} (hi : w'.imols = w.imols) (ha : w'.arrs = w.arrs) (j : Nat)
    (hs : (w'.strs j).imol = (w.strs j).imol) (ht : (w'.strs j).tc = (w.strs j).tc) : BindKeep w w' j := by
  refine ⟨ht, ?_⟩
  intro p r hr
  simpa [World.rowOfPhase, hi, ha, hs] using hr

/-- the streams whose binding an operation changes on purpose (their views are re-attached or dropped by
`VWorld.after`), plus — the one situation left out — the proxy partners of a stream that is flow-linked -/
def Rebound (w : World) (op : Op) (j : Nat) : Prop :=
  match op with
  | .unlink s => j = s
  | .link t _ f _ _ => j = t ∨ (f = true ∧ (w.strs j).imol = (w.strs t).imol)
  | .setPhase s _ => j = s
  | .copyLike t _ => j = t ∧ w.isMat (w.strs t).imol = false
  | _ => False

theorem bindKeep_link (w : World) (t s : Nat) (f p tp : Bool) (w' : World) (h : w.link t s f p tp = .ok w')
    (j : Nat) (hR : ¬ Rebound w (.link t s f p tp) j) : BindKeep w w' j := by
  simp only [Rebound, not_or, not_and] at hR
  obtain ⟨hjt, hf⟩ := hR
  unfold World.link at h
  have hslot : ∀ (c : Bool), ((if c then w.setStr t { w.strs t with tc := (w.strs s).tc } else w).strs j) = w.strs j := by
    intro c; cases c
    · rfl
    · simp [upd_ne _ _ _ _ hjt]
  have key : ∀ (c : Bool) (m : Imol),
      ((w.strs j).imol = (w.strs t).imol → ∀ q, w.rowOfPhase j q ≠ none → m = w.imols (w.strs t).imol) →
      BindKeep w ((if c then w.setStr t { w.strs t with tc := (w.strs s).tc } else w).setImol (w.strs t).imol m) j := by
    intro c m hm
    refine ⟨by simp [hslot c], ?_⟩
    intro q r hr
    have hne : w.rowOfPhase j q ≠ none := by rw [hr]; simp
    unfold World.rowOfPhase at hr ⊢
    simp only [setImol_strs, hslot c, setImol_imols, setImol_arrs]
    have harr : (if c then w.setStr t { w.strs t with tc := (w.strs s).tc } else w).arrs = w.arrs := by cases c <;> rfl
    have himol : (if c then w.setStr t { w.strs t with tc := (w.strs s).tc } else w).imols = w.imols := by cases c <;> rfl
    rw [harr, himol]
    by_cases he : (w.strs j).imol = (w.strs t).imol
    · rw [he, upd_same, hm he q hne, ← he]; exact hr
    · rw [upd_ne _ _ _ _ he]; exact hr
  cases hmt : w.imols (w.strs t).imol with
  | chem tph trow =>
    cases hms : w.imols (w.strs s).imol with
    | mat qs sa => simp [hmt, hms] at h
    | chem sph srow =>
      simp only [hmt, hms] at h
      split at h
      · cases h
      · cases h
        apply key
        intro he q hne
        exfalso; apply hne
        simp [World.rowOfPhase, he, hmt]
  | mat ps ta =>
    cases hms : w.imols (w.strs s).imol with
    | chem sph srow => simp [hmt, hms] at h
    | mat qs sa =>
      simp only [hmt, hms] at h
      split at h
      · cases h
      · cases h
        apply key
        intro he q _
        cases f
        · simp [hmt]
        · exact absurd he (hf rfl)


theorem BindKeep.trans {w w1 w2 : World} {j : Nat} (h1 : BindKeep w w1 j) (h2 : BindKeep w1 w2 j) :
    BindKeep w w2 j :=
  ⟨h2.1.trans h1.1, fun p r hr => h2.2 p r (h1.2 p r hr)⟩

theorem bindKeep_tcCopyLike (w1 : World) (t s j : Nat) : BindKeep w1 (w1.tcCopyLike t s) j :=
  bindKeep_of_eq (by simp [World.tcCopyLike]) (by simp [World.tcCopyLike]) j (by simp [World.tcCopyLike])
    (by simp [World.tcCopyLike])

theorem bindKeep_of_imol_update {w w1 : World} {t a : Nat} {ps : List Ph}
    (hm : w.imols (w.strs t).imol = .mat ps a) (hstrs : w1.strs = w.strs)
    (hine : ∀ y, y ≠ (w.strs t).imol → w1.imols y = w.imols y) (hane : ∀ y, y ≠ a → w1.arrs y = w.arrs y)
    (hrk : RowKeep w w1 (w.strs t).imol ps a)
    (hcase : (w1.imols = w.imols ∧ w1.arrs = w.arrs) ∨ w.arrShared t = false) (j : Nat) (hj : j < w.nS) :
    BindKeep w w1 j := by
  rcases hcase with ⟨e1, e2⟩ | hns
  · exact bindKeep_of_eq e1 e2 j (by rw [hstrs]) (by rw [hstrs])
  · refine ⟨by rw [hstrs], ?_⟩
    intro p r hr
    unfold World.rowOfPhase at hr ⊢
    rw [hstrs]
    by_cases hjt : (w.strs j).imol = (w.strs t).imol
    · rw [hjt] at hr ⊢
      rw [hm] at hr
      simp only at hr
      cases hk : ps.idxOf? p with
      | none => simp [hk] at hr
      | some k =>
        simp only [hk] at hr
        obtain ⟨ps', k', e1, e2, e3⟩ := hrk p k hk
        rw [e1]; simp only [e2, e3]; exact hr
    · rw [hine _ hjt]
      cases hmj : w.imols (w.strs j).imol with
      | chem ph r' => simp [hmj] at hr
      | mat qs b =>
        simp only [hmj] at hr ⊢
        rw [hane b (arrShared_false hm hns j hj hjt qs b hmj)]
        exact hr

theorem bindKeep_copyLike (w : World) (t s : Nat) (w' : World) (hsc : Scoped w) (hwf : WFAll w) (ht : t < w.nS)
    (hs : s < w.nS) (h : w.copyLike t s = .ok w') (j : Nat) (hj : j < w.nS)
    (hR : ¬ Rebound w (.copyLike t s) j) : BindKeep w w' j := by
  simp only [Rebound, not_and] at hR
  unfold World.copyLike at h
  simp only at h
  split at h
  · cases h
  · next hg =>
    cases hmt : w.imols (w.strs t).imol with
    | chem tph trow =>
      have hjt : j ≠ t := fun e => hR e (by simp [World.isMat, hmt])
      cases hms : w.imols (w.strs s).imol with
      | chem sph srow =>
        simp only [hmt, hms] at h
        split at h
        · cases h; exact bindKeep_tcCopyLike w t s j
        · obtain ⟨w1, h1, rfl⟩ := ofExcept_bind_ok _ _ _ h
          obtain ⟨_, f1, f2, f3, _⟩ := chemCopyLike_spec _ _ _ _ _ _ _ _ _ h1
          exact (bindKeep_of_eq f1 f2 j (by rw [f3]) (by rw [f3])).trans (bindKeep_tcCopyLike w1 t s j)
      | mat qs sa =>
        simp only [hmt, hms] at h
        split at h
        · next q =>
          obtain ⟨w1, h1, rfl⟩ := ofExcept_bind_ok _ _ _ h
          obtain ⟨_, f1, f2, f3, _⟩ := chemCopyLike_spec _ _ _ _ _ _ _ _ _ h1
          exact (bindKeep_of_eq (by rw [f1]; simp) (by rw [f2]; simp) j (by rw [f3]; simp)
            (by rw [f3]; simp)).trans (bindKeep_tcCopyLike w1 t s j)
        · obtain ⟨w3, h3, rfl⟩ := ofExcept_bind_ok _ _ _ h
          refine BindKeep.trans ?_ (bindKeep_tcCopyLike w3 t s j)
          have hws := hwf s hs
          simp only [WFImol, hms] at hws
          have hB := blankMat_spec w (normPh qs)
          generalize w.blankMat (normPh qs) = b at h3 hB
          obtain ⟨w1, im⟩ := b
          simp only at h3 hB
          have hSim : (w.strs s).imol < w.next := hsc s hs _ (mem_fp_imol w s)
          have hph : (w1.setStr t { w.strs t with imol := im }).phasesOf im =
              (w1.setStr t { w.strs t with imol := im }).phasesOf (w.strs s).imol := by
            have e1 : (w1.setStr t { w.strs t with imol := im }).phasesOf im = normPh qs := by
              have := hB.phases; simpa [World.phasesOf] using this
            have e2 : w1.imols (w.strs s).imol = w.imols (w.strs s).imol :=
              (hB.writes.agree _ hSim (fun h => h)).2.2.2.2.2
            rw [e1]; simp [World.phasesOf, e2, hms, hws.1]
          obtain ⟨g1, g2, g3, g4⟩ := matCopyFromMat_struct_same _ _ _ _ _ _ _ hph h3
          have hsf : StructFrame w w3 := by
            intro x hx
            have := hB.writes.agree x hx (fun h => h)
            exact ⟨by rw [g1]; simp; exact this.2.2.2.2.2, by rw [g2]; simp; exact this.2.2.2.2.1⟩
          apply bindKeep_of_struct hsf hsc j hj
          · rw [g3]; simp [upd_ne _ _ _ _ hjt, hB.strs]
          · rw [g3]; simp [upd_ne _ _ _ _ hjt, hB.strs]
    | mat ps ta =>
      have hwt := hwf t ht
      simp only [WFImol, hmt] at hwt
      obtain ⟨hnp, hlen, hnd⟩ := hwt
      have hlt : ∀ r ∈ w.arrs ta, r < w.next := fun r hr => hsc t ht r ((mem_fp_mat hmt).2 r hr)
      have hpT : w.phasesOf (w.strs t).imol = ps := by simp [World.phasesOf, hmt]
      cases hms : w.imols (w.strs s).imol with
      | chem sph srow =>
        simp only [hmt, hms] at h
        obtain ⟨w1, h1, rfl⟩ := ofExcept_bind_ok _ _ _ h
        refine BindKeep.trans ?_ (bindKeep_tcCopyLike w1 t s j)
        obtain ⟨k1, k2, k3, k4, k5, k6⟩ := matCopyFromChem_wf w _ _ _ _ _ _ w1 ps ta hmt hnp hlen hnd hlt h1
        have hrk := matCopyFromChem_rowKeep w _ _ _ _ _ _ w1 ps ta hmt hlen h1
        apply bindKeep_of_imol_update hmt k2 k4 k5 hrk _ j hj
        cases hx : phIdx ps (w.phs sph) with
        | some k => exact Or.inl (k6 (by rw [hx]; simp))
        | none =>
          right
          have hdiff : (w.phasesOf (w.strs t).imol != w.phasesOf (w.strs s).imol) = true := by
            rw [hpT]; simp [World.phasesOf, hms]; exact phIdx_single_ne hx
          simpa [hdiff] using hg
      | mat qs sa =>
        simp only [hmt, hms] at h
        obtain ⟨w1, h1, rfl⟩ := ofExcept_bind_ok _ _ _ h
        refine BindKeep.trans ?_ (bindKeep_tcCopyLike w1 t s j)
        obtain ⟨k1, k2, k3, k4, k5, k6⟩ := matCopyFromMat_wf w _ _ _ _ _ w1 ps ta hmt hnp hlen hnd hlt h1
        have hrk := matCopyFromMat_rowKeep w _ _ _ _ _ w1 ps ta hmt hlen h1
        apply bindKeep_of_imol_update hmt k2 k4 k5 hrk _ j hj
        by_cases hpq : ps = w.phasesOf (w.strs s).imol
        · exact Or.inl (k6 hpq)
        · right
          have hdiff : (w.phasesOf (w.strs t).imol != w.phasesOf (w.strs s).imol) = true := by
            rw [hpT]; simpa using hpq
          simpa [hdiff] using hg


theorem bindKeep_of_writes {w w' : World} {Ws : Nat → Prop} (hw : Writes w w' none' Ws) (hsc : Scoped w) (j : Nat)
    (hj : j < w.nS) (hjs : ¬ Ws j) : BindKeep w w' j :=
  bindKeep_of_struct (StructFrame.of_writes hw) hsc j hj (by rw [hw.strs j hj hjs]) (by rw [hw.strs j hj hjs])

/-- Every operation keeps, for every stream it does not re-bind on purpose, the thermal-condition object and
the row object of every phase. -/
theorem bind_step (w : World) (op : Op) (w' : World) (hsc : Scoped w) (hwf : WFAll w)
    (h : w.step op = .ok w') (j : Nat) (hj : j < w.nS) (hR : ¬ Rebound w op j) : BindKeep w w' j := by
  have hall : (op.ids.all fun x => decide (x < w.nS)) = true := by
    unfold World.step at h
    split at h
    · assumption
    · cases h
  have hids : ∀ i ∈ op.ids, i < w.nS := by simpa using hall
  simp only [World.step, hall, if_true] at h
  cases op with
  | new a =>
    simp only [World.exec] at h
    cases hc : w.ctor a with
    | error e => simp [hc, Res.ofExcept] at h
    | ok p =>
      simp [hc, Res.ofExcept] at h
      subst h
      exact bindKeep_of_writes (writes_ctor w a p.1 p.2 hc).1 hsc j hj (fun h => h)
  | setFlow s p c v =>
    simp only [World.exec] at h
    cases hc : w.setFlow s p c v with
    | error e => simp [hc, Res.ofExcept] at h
    | ok w1 =>
      simp [hc, Res.ofExcept] at h
      subst h
      unfold World.setFlow at hc
      cases hm : w.imols (w.strs s).imol with
      | chem ph r =>
        simp only [hm] at hc
        split at hc
        · cases hc
        · cases hc; exact bindKeep_of_eq rfl rfl j rfl rfl
      | mat ps a =>
        simp only [hm] at hc
        split at hc
        · cases hc
        · split at hc
          · cases hc
          · cases hc; exact bindKeep_of_eq rfl rfl j rfl rfl
  | setT s v => simp only [World.exec] at h; cases h; exact bindKeep_of_eq rfl rfl j rfl rfl
  | setP s v => simp only [World.exec] at h; cases h; exact bindKeep_of_eq rfl rfl j rfl rfl
  | setPhase s p =>
    simp only [World.exec] at h; cases h
    have hjs : j ≠ s := hR
    cases hm : w.imols (w.strs s).imol with
    | chem ph r =>
      simp only [World.setPhase, hm]
      exact bindKeep_of_eq rfl rfl j rfl rfl
    | mat ps a =>
      simp only [World.setPhase, hm]
      exact bindKeep_of_writes ((writes_newPh w p).of_none.seq ((writes_newRow _ _).of_none.seq
        ((writes_newImol _ _).of_none.seq ((writes_setStr _ s _).mono (fun x _ h => h.elim)
        (fun i _ h => by intros; exact h))))) hsc j hj hjs
  | empty s =>
    simp only [World.exec] at h; cases h
    exact bindKeep_of_eq (by simp [World.empty]) (by simp [World.empty]) j (by simp [World.empty])
      (by simp [World.empty])
  | setPrice s v =>
    simp only [World.exec] at h; cases h
    have e1 : ((w.setPrice s v).strs j).imol = (w.strs j).imol := by
      by_cases hjs : j = s
      · subst hjs; simp [World.setPrice]
      · simp [World.setPrice, upd_ne _ _ _ _ hjs]
    have e2 : ((w.setPrice s v).strs j).tc = (w.strs j).tc := by
      by_cases hjs : j = s
      · subst hjs; simp [World.setPrice]
      · simp [World.setPrice, upd_ne _ _ _ _ hjs]
    exact bindKeep_of_eq (w := w) (w' := w.setPrice s v) rfl rfl j e1 e2
  | setCF s k v => simp only [World.exec] at h; cases h; exact bindKeep_of_eq rfl rfl j rfl rfl
  | copy s => simp only [World.exec] at h; cases h; exact bindKeep_of_writes (writes_copy w s) hsc j hj (fun h => h)
  | copyTo s pid pkg =>
    simp only [World.exec] at h
    cases hc : w.copyTo s pid pkg with
    | error e => simp [hc, Res.ofExcept] at h
    | ok p =>
      simp [hc, Res.ofExcept] at h
      subst h
      have hs := hids s (by simp [Op.ids])
      have := (spec_copyTo w s pid pkg p.1 p.2 hsc hs hc).writes
      -- only new objects and the new stream are written
      unfold World.copyTo at hc
      simp only at hc
      split at hc
      · cases hc; exact bindKeep_of_writes (writes_copy w s) hsc j hj (fun h => h)
      · split at hc
        · cases hc
          have hne : j ≠ (w.copy s).2 := by rw [(copy_fresh w s).1]; omega
          refine (bindKeep_of_writes (writes_copy w s) hsc j hj (fun h => h)).trans ?_
          show BindKeep (w.copy s).1 ((w.copy s).1.setStr (w.copy s).2 _) j
          refine bindKeep_of_eq (w := (w.copy s).1) (w' := (w.copy s).1.setStr (w.copy s).2 _) rfl rfl j ?_ ?_
          · simp [upd_ne _ _ _ _ hne]
          · simp [upd_ne _ _ _ _ hne]
        · cases hc
  | copyLike t s =>
    simp only [World.exec] at h
    exact bindKeep_copyLike w t s w' hsc hwf (hids t (by simp [Op.ids])) (hids s (by simp [Op.ids])) h j hj hR
  | copyTC t s => simp only [World.exec] at h; cases h; exact bindKeep_tcCopyLike w t s j
  | link t s f p tp =>
    simp only [World.exec] at h
    exact bindKeep_link w t s f p tp w' h j hR
  | unlink s =>
    simp only [World.exec] at h; cases h
    exact bindKeep_of_writes (writes_unlink w s) hsc j hj hR
  | proxy s => simp only [World.exec] at h; cases h; exact bindKeep_of_writes (writes_proxy w s) hsc j hj (fun h => h)
  | flowProxy s =>
    simp only [World.exec] at h; cases h; exact bindKeep_of_writes (writes_flowProxy w s) hsc j hj (fun h => h)
  | pickle s =>
    simp only [World.exec] at h; cases h
    exact bindKeep_of_writes (rebuild_spec w (w.pickleArgs s)).1 hsc j hj (fun h => h)


/-- every view a stream has handed out is bound to the stream's current row object for its phase and to its
current thermal-condition object; streams that do not exist yet have handed out nothing -/
def VInv (vw : VWorld) : Prop :=
  (∀ i, i < vw.w.nS → ∀ e ∈ vw.vdict i, vw.w.rowOfPhase i e.1 = some e.2.1 ∧ e.2.2 = (vw.w.strs i).tc) ∧
  (∀ i, vw.w.nS ≤ i → vw.vdict i = [])

/-- The situation that is left out: a stream is flow-linked to another one while a proxy partner of it
(a different stream object holding the same indexer object) has handed out views. -/
def AliasRelink (vw : VWorld) : VOp → Prop
  | .op (.link t _ f _ _) =>
    f = true ∧ ∃ j, j < vw.w.nS ∧ j ≠ t ∧ (vw.w.strs j).imol = (vw.w.strs t).imol ∧ vw.vdict j ≠ []
  | _ => False

theorem rowOfPhase_some {w : World} {i : Nat} {p : Ph} {r : Nat} (h : w.rowOfPhase i p = some r) :
    ∃ ps a k, w.imols (w.strs i).imol = .mat ps a ∧ ps.idxOf? p = some k ∧ (w.arrs a)[k]? = some r := by
  unfold World.rowOfPhase at h
  cases hm : w.imols (w.strs i).imol with
  | chem ph r' => simp [hm] at h
  | mat ps a =>
    simp only [hm] at h
    cases hk : ps.idxOf? p with
    | none => simp [hk] at h
    | some k => simp only [hk] at h; exact ⟨ps, a, k, rfl, hk, h⟩

theorem rowOfPhase_unlink (w : World) (s : Nat) (p : Ph) (r : Nat) (h : w.rowOfPhase s p = some r) :
    ∃ r', (w.unlink s).rowOfPhase s p = some r' := by
  obtain ⟨ps, a, k, hm, hk, hr⟩ := rowOfPhase_some h
  have hkl : k < (w.arrs a).length := by
    rcases Nat.lt_or_ge k (w.arrs a).length with h' | h'
    · exact h'
    · simp [List.getElem?_eq_none h'] at hr
  simp only [World.unlink, World.rowOfPhase, setStr_strs, upd_same, setStr_imols, setStr_arrs, newTc_imols,
    newTc_arrs]
  unfold World.copyImol
  simp only [hm]
  simp [hk, newRows_ids, hkl]

theorem vinv_reattach {vw : VWorld} {w' : World} {s : Nat} {rows : Bool}
    (hrow : ∀ e ∈ vw.vdict s, ∃ r', w'.rowOfPhase s e.1 = some r' ∧ (rows = false → r' = e.2.1)) :
    ∀ e ∈ reattachList w' s rows (vw.vdict s), w'.rowOfPhase s e.1 = some e.2.1 ∧ e.2.2 = (w'.strs s).tc := by
  intro e he
  simp only [reattachList, List.mem_map] at he
  obtain ⟨e0, he0, rfl⟩ := he
  obtain ⟨r', h1, h2⟩ := hrow e0 he0
  refine ⟨?_, rfl⟩
  cases rows
  · simp [h1, h2 rfl]
  · simp [h1]


theorem rowOfPhase_link_target (w : World) (t s : Nat) (f p tp : Bool) (w' : World) (hws : WFImol w (w.strs s).imol)
    (h : w.link t s f p tp = .ok w') (q : Ph) (r : Nat) (hr : w.rowOfPhase t q = some r) :
    ∃ r', w'.rowOfPhase t q = some r' ∧ (f = false → r' = r) := by
  obtain ⟨ps, ta, k, hmt, hk, hrk⟩ := rowOfPhase_some hr
  unfold World.link at h
  cases hms : w.imols (w.strs s).imol with
  | chem sph srow => simp [hmt, hms] at h
  | mat qs sa =>
    simp only [hmt, hms] at h
    split at h
    · cases h
    · next hdom =>
      cases h
      have himol : ∀ c : Bool, (((if c then w.setStr t { w.strs t with tc := (w.strs s).tc } else w).setImol
          (w.strs t).imol (Imol.mat ps (if f then sa else ta))).strs t).imol = (w.strs t).imol := by
        intro c; cases c <;> simp
      have harr : ∀ c : Bool, ((if c then w.setStr t { w.strs t with tc := (w.strs s).tc } else w).setImol
          (w.strs t).imol (Imol.mat ps (if f then sa else ta))).arrs = w.arrs := by
        intro c; cases c <;> rfl
      simp only [World.rowOfPhase, himol tp, setImol_imols, upd_same, hk, harr tp]
      cases f
      · exact ⟨r, by simpa using hrk, fun _ => rfl⟩
      · simp only [WFImol, hms] at hws
        have hpq : ps = qs := by simp at hdom; exact hdom.2
        have hkl := (idxOf?_lt ps q k hk).1
        have : k < (w.arrs sa).length := by rw [hws.2.1, ← hpq]; exact hkl
        exact ⟨(w.arrs sa)[k], by simp [List.getElem?_eq_getElem this], fun h => by cases h⟩

theorem link_target_tc (w : World) (t s : Nat) (f p tp : Bool) (w' : World) (h : w.link t s f p tp = .ok w') :
    w'.isMat (w'.strs t).imol = w.isMat (w.strs t).imol ∧
    ((tp = false ∧ f = false) → (w'.strs t).tc = (w.strs t).tc) := by
  unfold World.link at h
  cases hmt : w.imols (w.strs t).imol <;> cases hms : w.imols (w.strs s).imol <;> simp only [hmt, hms] at h
  · split at h
    · cases h
    · cases h; cases tp <;> simp [World.isMat, hmt]
  · cases h
  · cases h
  · split at h
    · cases h
    · cases h; cases tp <;> simp [World.isMat, hmt]

/-- One operation keeps the views attached. -/
theorem vinv_step (vw : VWorld) (op : VOp) (vw' : VWorld) (hsc : Scoped vw.w) (hwf : WFAll vw.w)
    (hinv : VInv vw) (hna : ¬ AliasRelink vw op) (h : vw.step op = .ok vw') : VInv vw' := by
  obtain ⟨hb, he⟩ := hinv
  cases op with
  | view i p =>
    simp only [VWorld.step] at h
    split at h
    · next hi =>
      cases hv : vw.view i p with
      | none => simp [hv] at h
      | some x =>
        simp [hv] at h; subst h
        unfold VWorld.view at hv
        cases hr : vw.w.rowOfPhase i p with
        | none => simp [hr] at hv
        | some r =>
          simp only [hr] at hv
          split at hv
          · cases hv; exact ⟨hb, he⟩
          · cases hv
            constructor
            · intro k hk e hmem
              by_cases hki : k = i
              · subst hki
                simp only [upd_same, List.mem_cons] at hmem
                rcases hmem with rfl | hmem
                · exact ⟨hr, rfl⟩
                · exact hb k hk e hmem
              · simp only [upd_ne _ _ _ _ hki] at hmem
                exact hb k hk e hmem
            · intro k hk
              have : k ≠ i := by intro e; subst e; exact absurd hi (Nat.not_lt.mpr hk)
              simp [upd_ne _ _ _ _ this, he k hk]
    · cases h
  | op o =>
    simp only [VWorld.step] at h
    cases hst : vw.w.step o with
    | skip => simp [hst] at h
    | err e => simp [hst] at h
    | ok w' =>
      simp [hst] at h; subst h
      have hspec := step_spec vw.w o w' hsc hst
      have hnS : vw.w.nS ≤ w'.nS := hspec.1.writes.nS
      have hids := hspec.2
      -- the dict of stream `i` after the operation, for streams that are not re-bound
      have keep : ∀ i, i < vw.w.nS → ¬ Rebound vw.w o i → ∀ e ∈ vw.vdict i,
          w'.rowOfPhase i e.1 = some e.2.1 ∧ e.2.2 = (w'.strs i).tc := by
        intro i hi hR e hmem
        obtain ⟨b1, b2⟩ := bind_step vw.w o w' hsc hwf hst i hi hR
        obtain ⟨c1, c2⟩ := hb i hi e hmem
        exact ⟨b2 _ _ c1, by rw [b1]; exact c2⟩
      have chemEmpty : ∀ i, i < vw.w.nS → vw.w.isMat (vw.w.strs i).imol = false → vw.vdict i = [] := by
        intro i hi hc
        cases hl : vw.vdict i with
        | nil => rfl
        | cons e l =>
          have := (hb i hi e (by rw [hl]; simp)).1
          obtain ⟨ps, a, k, hm, _⟩ := rowOfPhase_some this
          simp [World.isMat, hm] at hc
      -- new streams have handed out nothing
      have newEmpty : ∀ (vd : Nat → List (Ph × Nat × Nat)), (∀ i, vw.w.nS ≤ i → vd i = []) →
          (∀ i, i < vw.w.nS → ∀ e ∈ vd i, w'.rowOfPhase i e.1 = some e.2.1 ∧ e.2.2 = (w'.strs i).tc) →
          VInv ⟨w', vd⟩ := by
        intro vd h1 h2
        refine ⟨?_, fun i hi => h1 i (by simp at hi; omega)⟩
        intro i hi e hmem
        simp only at hmem ⊢
        by_cases hio : i < vw.w.nS
        · exact h2 i hio e hmem
        · rw [h1 i (by omega)] at hmem; simp at hmem
      cases o with
      | unlink s =>
        have hs : s < vw.w.nS := hids s (by simp [Op.ids])
        have hw' : w' = vw.w.unlink s := by
          simp [World.step, Op.ids, hs, World.exec] at hst; exact hst.symm
        simp only [VWorld.after]
        apply newEmpty
        · intro i hi
          have : i ≠ s := by omega
          simp [upd_ne _ _ _ _ this, he i hi]
        · intro i hi e hmem
          by_cases his : i = s
          · subst his
            simp only [upd_same] at hmem
            apply vinv_reattach (vw := vw) (w' := w') (rows := true) _ e hmem
            intro e0 he0
            obtain ⟨r', hr'⟩ := rowOfPhase_unlink vw.w i e0.1 e0.2.1 (hb i hi e0 he0).1
            exact ⟨r', by rw [hw']; exact hr', fun h => by cases h⟩
          · simp only [upd_ne _ _ _ _ his] at hmem
            exact keep i hi (by simpa [Rebound] using his) e hmem
      | link t s f p tp =>
        have ht : t < vw.w.nS := hids t (by simp [Op.ids])
        have hs : s < vw.w.nS := hids s (by simp [Op.ids])
        have hl : vw.w.link t s f p tp = .ok w' := by
          simpa [World.step, Op.ids, ht, hs, World.exec] using hst
        obtain ⟨hk1, hk2⟩ := link_target_tc vw.w t s f p tp w' hl
        -- streams other than the target
        have others : ∀ i, i < vw.w.nS → i ≠ t → ∀ e ∈ vw.vdict i,
            w'.rowOfPhase i e.1 = some e.2.1 ∧ e.2.2 = (w'.strs i).tc := by
          intro i hi hit e hmem
          apply keep i hi _ e hmem
          simp only [Rebound, not_or, not_and]
          refine ⟨hit, fun hf himol => ?_⟩
          apply hna
          exact ⟨hf, i, hi, hit, himol, by intro h0; rw [h0] at hmem; simp at hmem⟩
        simp only [VWorld.after]
        split
        · next hc =>
          apply newEmpty
          · intro i hi
            have : i ≠ t := by omega
            simp [upd_ne _ _ _ _ this, he i hi]
          · intro i hi e hmem
            by_cases hit : i = t
            · subst hit
              simp only [upd_same] at hmem
              apply vinv_reattach (vw := vw) (w' := w') (rows := f) _ e hmem
              intro e0 he0
              exact rowOfPhase_link_target vw.w i s f p tp w' (hwf s hs) hl e0.1 e0.2.1 (hb i hi e0 he0).1
            · simp only [upd_ne _ _ _ _ hit] at hmem
              exact others i hi hit e hmem
        · next hc =>
          apply newEmpty _ he
          intro i hi e hmem
          by_cases hit : i = t
          · subst hit
            -- either the target is single-phase (no views) or nothing was selected that concerns the views
            by_cases hmat : vw.w.isMat (vw.w.strs i).imol = true
            · have hft : f = false ∧ tp = false := by
                rw [hk1, hmat] at hc
                cases f <;> cases tp <;> simp at hc ⊢
              obtain ⟨r', h1, h2⟩ := rowOfPhase_link_target vw.w i s f p tp w' (hwf s hs) hl e.1 e.2.1
                (hb i hi e hmem).1
              rw [h2 hft.1] at h1
              exact ⟨h1, by rw [hk2 ⟨hft.2, hft.1⟩]; exact (hb i hi e hmem).2⟩
            · rw [chemEmpty i hi (by simpa using hmat)] at hmem; simp at hmem
          · exact others i hi hit e hmem
      | setPhase s q =>
        have hs : s < vw.w.nS := hids s (by simp [Op.ids])
        simp only [VWorld.after]
        split
        · apply newEmpty
          · intro i hi
            have : i ≠ s := by omega
            simp [upd_ne _ _ _ _ this, he i hi]
          · intro i hi e hmem
            by_cases his : i = s
            · subst his; simp at hmem
            · simp only [upd_ne _ _ _ _ his] at hmem
              exact keep i hi (by simpa [Rebound] using his) e hmem
        · next hc =>
          apply newEmpty _ he
          intro i hi e hmem
          by_cases his : i = s
          · subst his
            rw [chemEmpty i hi (by simpa using hc)] at hmem; simp at hmem
          · exact keep i hi (by simpa [Rebound] using his) e hmem
      | copyLike t s =>
        have ht : t < vw.w.nS := hids t (by simp [Op.ids])
        simp only [VWorld.after]
        have base : ∀ i, i < vw.w.nS → ∀ e ∈ vw.vdict i,
            w'.rowOfPhase i e.1 = some e.2.1 ∧ e.2.2 = (w'.strs i).tc := by
          intro i hi e hmem
          by_cases hR : Rebound vw.w (.copyLike t s) i
          · obtain ⟨rfl, hc⟩ := hR
            rw [chemEmpty i hi hc] at hmem; simp at hmem
          · exact keep i hi hR e hmem
        split
        · apply newEmpty
          · intro i hi
            have : i ≠ t := by omega
            simp [upd_ne _ _ _ _ this, he i hi]
          · intro i hi e hmem
            by_cases hit : i = t
            · subst hit; simp at hmem
            · simp only [upd_ne _ _ _ _ hit] at hmem
              exact base i hi e hmem
        · exact newEmpty _ he base
      | new a => exact newEmpty _ he (fun i hi e hm => keep i hi (by simp [Rebound]) e hm)
      | setFlow s q c v => exact newEmpty _ he (fun i hi e hm => keep i hi (by simp [Rebound]) e hm)
      | setT s v => exact newEmpty _ he (fun i hi e hm => keep i hi (by simp [Rebound]) e hm)
      | setP s v => exact newEmpty _ he (fun i hi e hm => keep i hi (by simp [Rebound]) e hm)
      | empty s => exact newEmpty _ he (fun i hi e hm => keep i hi (by simp [Rebound]) e hm)
      | setPrice s v => exact newEmpty _ he (fun i hi e hm => keep i hi (by simp [Rebound]) e hm)
      | setCF s k v => exact newEmpty _ he (fun i hi e hm => keep i hi (by simp [Rebound]) e hm)
      | copy s => exact newEmpty _ he (fun i hi e hm => keep i hi (by simp [Rebound]) e hm)
      | copyTo s pid pkg => exact newEmpty _ he (fun i hi e hm => keep i hi (by simp [Rebound]) e hm)
      | copyTC t s => exact newEmpty _ he (fun i hi e hm => keep i hi (by simp [Rebound]) e hm)
      | proxy s => exact newEmpty _ he (fun i hi e hm => keep i hi (by simp [Rebound]) e hm)
      | flowProxy s => exact newEmpty _ he (fun i hi e hm => keep i hi (by simp [Rebound]) e hm)
      | pickle s => exact newEmpty _ he (fun i hi e hm => keep i hi (by simp [Rebound]) e hm)


/-- no operation of the history is the left-out situation (checked along the run) -/
def NoAliasRelink (vw : VWorld) : List VOp → Prop
  | [] => True
  | op :: ops =>
    ¬ AliasRelink vw op ∧
    match vw.step op with
    | .ok vw' => NoAliasRelink vw' ops
    | .skip => NoAliasRelink vw ops
    | .err _ => True

theorem vstep_world (vw : VWorld) (op : VOp) (vw' : VWorld) (h : vw.step op = .ok vw') :
    (∃ o, op = .op o ∧ vw.w.step o = .ok vw'.w) ∨ vw'.w = vw.w := by
  cases op with
  | view i p =>
    right
    simp only [VWorld.step] at h
    split at h
    · cases hv : vw.view i p with
      | none => simp [hv] at h
      | some x =>
        simp [hv] at h; subst h
        unfold VWorld.view at hv
        split at hv
        · cases hv
        · split at hv <;> cases hv <;> rfl
    · cases h
  | op o =>
    left
    simp only [VWorld.step] at h
    cases hst : vw.w.step o with
    | skip => simp [hst] at h
    | err e => simp [hst] at h
    | ok w' =>
      simp [hst] at h; subst h
      refine ⟨o, rfl, ?_⟩
      cases o <;> simp only [VWorld.after] <;> (try split) <;> exact hst

theorem vinv_run (l : List VOp) : ∀ vw : VWorld, Scoped vw.w → WFAll vw.w → VInv vw → NoAliasRelink vw l →
    VInv (vw.run l) ∧ Scoped (vw.run l).w ∧ WFAll (vw.run l).w := by
  induction l with
  | nil => intro vw a b c _; exact ⟨c, a, b⟩
  | cons op ops ih =>
    intro vw hsc hwf hinv hno
    simp only [NoAliasRelink] at hno
    simp only [VWorld.run]
    cases hst : vw.step op with
    | skip => rw [hst] at hno; exact ih vw hsc hwf hinv hno.2
    | err e => exact ⟨hinv, hsc, hwf⟩
    | ok vw' =>
      rw [hst] at hno
      have hv := vinv_step vw op vw' hsc hwf hinv hno.1 hst
      rcases vstep_world vw op vw' hst with ⟨o, _, ho⟩ | hw
      · exact ih vw' (scoped_step _ o _ hsc ho) (wfAll_step _ o _ hsc hwf ho) hv hno.2
      · exact ih vw' (by rw [hw]; exact hsc) (by rw [hw]; exact hwf) hv hno.2

theorem vinv_init : VInv VWorld.init := by
  constructor
  · intro i hi; simp [VWorld.init, World.init] at hi
  · intro i _; rfl


/-! ### bookkeeping lemmas about the slot-wise pickling helpers (no claim about the real `__reduce__` methods) -/

/-- Objects pickled slot by slot (`Thermo`, `Chemical`, reactions): every slot named in the recipe
has the same value after the round trip, and no other slot is set.  (So the round trip preserves the
observable state exactly when that state is a function of the listed slots — which the oracle checks
on the real `Reaction`, `ParallelReaction`, `Chemical` and `Thermo` objects.) -/
theorem slot_pickle_roundtrip {V : Type} (slots : List Nat) (obj : Nat → Option V) (k : Nat) :
    (k ∈ slots → newFromState (getState slots obj) k = obj k) ∧
    (k ∉ slots → newFromState (getState slots obj) k = none) := by
  induction slots with
  | nil => simp [newFromState, getState]
  | cons x xs ih =>
    by_cases hk : k = x
    · subst hk; simp [newFromState, getState, List.lookup]
    · have hne : (k == x) = false := by simp [hk]
      simp only [newFromState, getState, List.map_cons, List.lookup, hne] at ih ⊢
      simp [hk]
      exact ih

/-- `Chemical.__reduce__` = `unpickle_chemical(get_chemical_data(self))`: every slot reads the same through
`getattr(chemical, slot, None)` after the round trip (user-set data, locked state, synonyms and aliases are slots). -/
theorem chemical_pickle_roundtrip {V : Type} (slots : List Nat) (obj : Nat → Option (Option V)) (k : Nat)
    (hk : k ∈ slots) : observeD (chemFromData (chemGetData slots obj)) k = observeD obj k := by
  induction slots with
  | nil => simp at hk
  | cons x xs ih =>
    by_cases hx : k = x
    · subst hx; simp [observeD, chemFromData, chemGetData, List.lookup]
    · have hne : (k == x) = false := by simp [hx]
      have hk' : k ∈ xs := by simpa [hx] using hk
      simp only [observeD, chemFromData, chemGetData, List.map_cons, List.lookup, hne] at ih ⊢
      exact ih hk'

/-- `CompiledChemicals` (hence `Thermo`, which holds one in a slot): chemicals, the names they answer to and the
chemical groups are the same after the round trip, so every name — ID, synonym, alias, group — is looked up to
the same position(s).  (The groups are part of the pickle only with fix C13-11.) -/
theorem compiled_chemicals_pickle_roundtrip (x : CChems) :
    CChems.rebuild x.pickleArgs = x ∧ ∀ name, (CChems.rebuild x.pickleArgs).index name = x.index name :=
  ⟨rfl, fun _ => rfl⟩

/-- Objects pickled through their slots by the default protocol or by `cucumber` (`Reaction`,
`ParallelReaction`, `Thermo`): with the recipe = all slots, the rebuilt object has every slot as before, set
or unset. -/
theorem slotted_pickle_roundtrip {V : Type} (slots : List Nat) (obj : Nat → Option V)
    (hall : ∀ k, k ∉ slots → obj k = none) : newFromState (getState slots obj) = obj := by
  funext k
  by_cases hk : k ∈ slots
  · exact (slot_pickle_roundtrip slots obj k).1 hk
  · rw [(slot_pickle_roundtrip slots obj k).2 hk, hall k hk]


/-! ### `copy_like` never re-binds the target to objects of the source -/

theorem target_fp_imolUpd {w w1 : World} {t s : Nat} (h : ImolUpd w w1 (w.strs t).imol) :
    ∀ x ∈ (w1.tcCopyLike t s).fp t, x ∈ w.fp t ∨ w.next ≤ x := by
  intro x hx
  simp only [World.fp, World.tcCopyLike, setTc_strs, h.strs, List.mem_cons] at hx
  rcases hx with rfl | rfl | hx
  · exact Or.inl (mem_fp_tc w t)
  · exact Or.inl (mem_fp_cf w t)
  · rw [fpImol_of_agree (w := w1) (by simp) (by simp)] at hx
    rcases h.fpImol_sub _ x hx with h | h | h
    · exact Or.inl (by simp [World.fp, h])
    · exact Or.inl (by simp [World.fp, h])
    · exact Or.inr h.1

theorem copyLike_target_fp (w : World) (t s : Nat) (w' : World) (hsc : Scoped w) (ht : t < w.nS) (hs : s < w.nS)
    (h : w.copyLike t s = .ok w') : ∀ x ∈ w'.fp t, x ∈ w.fp t ∨ w.next ≤ x := by
  have _ := hs
  unfold World.copyLike at h
  simp only at h
  split at h
  · cases h
  · cases hmt : w.imols (w.strs t).imol with
    | chem tph trow =>
      cases hms : w.imols (w.strs s).imol with
      | chem sph srow =>
        simp only [hmt, hms] at h
        split at h
        · cases h; exact target_fp_imolUpd (ImolUpd.refl _ _)
        · obtain ⟨w1, h1, rfl⟩ := ofExcept_bind_ok _ _ _ h
          exact target_fp_imolUpd (imolUpd_chemCopyLike hmt _ _ _ _ _ _ h1)
      | mat qs sa =>
        simp only [hmt, hms] at h
        split at h
        · next q =>
          obtain ⟨w1, h1, rfl⟩ := ofExcept_bind_ok _ _ _ h
          have h0 : ImolUpd w (w.setPh tph q) (w.strs t).imol :=
            ImolUpd.of_struct ((writes_setPh w tph q).mono (by
              intro x _ hx; subst hx; simp [World.fpImol, hmt]) (fun _ _ h => h)) rfl rfl rfl rfl rfl rfl
          have hmt' : (w.setPh tph q).imols (w.strs t).imol = .chem tph trow := by simpa using hmt
          exact target_fp_imolUpd (h0.trans (imolUpd_chemCopyLike hmt' _ _ _ _ _ _ h1))
        · obtain ⟨w3, h3, rfl⟩ := ofExcept_bind_ok _ _ _ h
          have hB := blankMat_spec w (normPh qs)
          generalize hb : w.blankMat (normPh qs) = b at h3 hB
          obtain ⟨w1, im⟩ := b
          simp only at h3 hB
          have hU := matCopyFromMat_spec _ _ _ _ _ _ _ h3
          have hfresh2 : ∀ x ∈ (w1.setStr t { w.strs t with imol := im }).fpImol im, w.next ≤ x ∧ x < w1.next := by
            intro x hx
            rw [fpImol_of_agree (w := w1) (by simp) (by simp)] at hx
            exact hB.fresh x hx
          have hstr3 : w3.strs = upd w.strs t { w.strs t with imol := im } := by rw [hU.strs]; simp [hB.strs]
          intro x hx
          simp only [World.fp, World.tcCopyLike, setTc_strs, hstr3, List.mem_cons, upd_same] at hx
          rcases hx with rfl | rfl | hx
          · exact Or.inl (mem_fp_tc w t)
          · exact Or.inl (mem_fp_cf w t)
          · rw [fpImol_of_agree (w := w3) (by simp) (by simp)] at hx
            rcases hU.fpImol_sub im x hx with h | h | h
            · exact Or.inr (hfresh2 x h).1
            · exact Or.inr (hfresh2 x h).1
            · simp at h; have := hB.writes.next; exact Or.inr (by omega)
    | mat ps ta =>
      cases hms : w.imols (w.strs s).imol with
      | chem sph srow =>
        simp only [hmt, hms] at h
        obtain ⟨w1, h1, rfl⟩ := ofExcept_bind_ok _ _ _ h
        exact target_fp_imolUpd (matCopyFromChem_spec _ _ _ _ _ _ _ _ h1)
      | mat qs sa =>
        simp only [hmt, hms] at h
        obtain ⟨w1, h1, rfl⟩ := ofExcept_bind_ok _ _ _ h
        exact target_fp_imolUpd (matCopyFromMat_spec _ _ _ _ _ _ _ h1)

end ThermoVerif.Links
