import ThermoVerif.Model.Network
/-
Lemmas about the docking model used by `Props/C18.lean`.

The per-side invariant is stated for a *tracked* set of objects `P : Nat → Prop`.  The full
invariant is `P = All` (every id: streams and placeholder objects alike).  A smaller `P` is
needed only between the creation of a placeholder object (`newMissing`: its pointer already
names the unit, but no port holds it yet) and its placement in the port list.
-/
namespace ThermoVerif.Network

theorem bind_ok {α β : Type} {x : Except Err α} {f : α → Except Err β} {b : β} :
    (x >>= f) = .ok b ↔ ∃ a, x = .ok a ∧ f a = .ok b := by
  cases x <;> simp [bind, Except.bind]

/-! ## List facts -/

theorem count_set_idxOf {l : List Nat} {s i : Nat} (h : l.idxOf? s = some i) (m t : Nat) :
    (l.set i m).count t = l.count t - (if s = t then 1 else 0) + (if m = t then 1 else 0) := by
  obtain ⟨hi, hs, -⟩ := List.idxOf?_eq_some_iff.mp h
  rw [List.count_set hi]; simp [hs]

theorem idxOf_lt {l : List Nat} {s i : Nat} (h : l.idxOf? s = some i) : i < l.length :=
  (List.idxOf?_eq_some_iff.mp h).1

theorem idxOf_mem {l : List Nat} {s i : Nat} (h : l.idxOf? s = some i) : s ∈ l := by
  obtain ⟨hi, hs, -⟩ := List.idxOf?_eq_some_iff.mp h
  exact hs ▸ List.getElem_mem hi

theorem count_eraseIdx_lt {l : List Nat} {i : Nat} (h : i < l.length) (t : Nat) :
    (l.eraseIdx i).count t = l.count t - (if l[i] = t then 1 else 0) := by
  have h1 : l.count t = (l.take i ++ l[i] :: l.drop (i + 1)).count t := by simp
  rw [List.eraseIdx_eq_take_drop_succ, h1]
  simp only [List.count_append, List.count_cons]
  simp; omega

theorem split3 (l : List Nat) {a b : Nat} (h : a ≤ b) :
    l = l.take a ++ (l.drop a).take (b - a) ++ l.drop b := by
  have : l.drop b = (l.drop a).drop (b - a) := by simp; congr 1; omega
  rw [this, List.append_assoc, List.take_append_drop, List.take_append_drop]


/-! ## Field access through `setLst` / `setLoc` -/

@[simp] theorem setLst_loc (sd : Side) (u : Nat) (L : List Nat) : (sd.setLst u L).loc = sd.loc := rfl
@[simp] theorem setLst_fixed (sd : Side) (u : Nat) (L : List Nat) : (sd.setLst u L).fixed = sd.fixed := rfl
@[simp] theorem setLst_size (sd : Side) (u : Nat) (L : List Nat) : (sd.setLst u L).size = sd.size := rfl
@[simp] theorem setLst_lst_same (sd : Side) (u : Nat) (L : List Nat) : (sd.setLst u L).lst u = L := by
  simp [Side.setLst]
theorem setLst_lst_ne (sd : Side) {u v : Nat} (L : List Nat) (h : v ≠ u) :
    (sd.setLst u L).lst v = sd.lst v := by
  simp [Side.setLst, h]

/-! ## Per-side invariant -/

/-- The full tracked set: every object, stream or placeholder. -/
abbrev All : Nat → Prop := fun _ => True

/-- Count formulation of "listed iff docked, and at most once", at unit `u`, for the objects in `P`. -/
def CntAt (P : Nat → Prop) (w : SW) (u : Nat) : Prop :=
  ∀ s, P s → (w.sd.lst u).count s = if w.sd.loc s = some u then 1 else 0

theorem CntAt.mono {P Q : Nat → Prop} {w : SW} {u : Nat} (h : CntAt P w u) (hq : ∀ t, Q t → P t) :
    CntAt Q w u := fun s hs => h s (hq s hs)

/-- Allocation discipline on one side (holds in all intermediate states). -/
structure Sc (nU : Nat) (w : SW) : Prop where
  lst_lt : ∀ u s, s ∈ w.sd.lst u → s < w.next
  loc_none : ∀ s, w.next ≤ s → w.sd.loc s = none
  lst_nil : ∀ u, nU ≤ u → w.sd.lst u = []
  fixed_false : ∀ u, nU ≤ u → w.sd.fixed u = false
  loc_lt : ∀ s u, w.sd.loc s = some u → u < nU

def Fx (w : SW) : Prop := ∀ u, w.sd.fixed u = true → (w.sd.lst u).length = w.sd.size u

structure SInv (nU : Nat) (P : Nat → Prop) (w : SW) : Prop where
  cnt : ∀ u, CntAt P w u
  fx : Fx w
  sc : Sc nU w

theorem SInv.mono {nU : Nat} {P Q : Nat → Prop} {w : SW} (h : SInv nU P w) (hq : ∀ t, Q t → P t) :
    SInv nU Q w := ⟨fun u => (h.cnt u).mono hq, h.fx, h.sc⟩

/-- Objects that are not allocated yet are consistent at every unit: listed nowhere, docked nowhere. -/
theorem Sc.cnt_ge {nU : Nat} {w : SW} (h : Sc nU w) {t : Nat} (ht : w.next ≤ t) (v : Nat) :
    (w.sd.lst v).count t = if w.sd.loc t = some v then 1 else 0 := by
  have h1 : t ∉ w.sd.lst v := fun hm => by have := h.lst_lt v t hm; omega
  rw [List.count_eq_zero.mpr h1, h.loc_none t ht]; simp

theorem Sc.not_mem_ge {nU : Nat} {w : SW} (h : Sc nU w) {t : Nat} (ht : w.next ≤ t) (v : Nat) :
    t ∉ w.sd.lst v := fun hm => by have := h.lst_lt v t hm; omega

/-- Bookkeeping that no list operation changes. -/
structure Ext (w w' : SW) : Prop where
  pre : w'.pre = true → w.pre = true
  fixed : w'.sd.fixed = w.sd.fixed
  size : w'.sd.size = w.sd.size
  next : w.next ≤ w'.next

theorem Ext.refl (w : SW) : Ext w w := ⟨id, rfl, rfl, Nat.le_refl _⟩

theorem Ext.trans {a b c : SW} (h1 : Ext a b) (h2 : Ext b c) : Ext a c :=
  ⟨fun h => h1.pre (h2.pre h), h2.fixed.trans h1.fixed,
   h2.size.trans h1.size, Nat.le_trans h1.next h2.next⟩

/-! ## `removeFrom` and `redock` -/

structure RedockSpec (nU : Nat) (w : SW) (u s : Nat) (w' : SW) : Prop where
  ext : Ext w w'
  pre_eq : w'.pre = w.pre
  sc : Sc nU w'
  lst_u : w'.sd.lst u = w.sd.lst u
  len : ∀ v, (w'.sd.lst v).length = (w.sd.lst v).length
  loc_s : w'.sd.loc s = some u
  loc_other : ∀ t, t < w.next → t ≠ s → w'.sd.loc t = w.sd.loc t
  /-- objects created on the way (the placeholder that fills the port `s` left) are docked elsewhere -/
  loc_new : ∀ t, w.next ≤ t → w'.sd.loc t ≠ some u
  cntOff : ∀ P : Nat → Prop, (∀ v, v ≠ u → CntAt P w v) → (∀ v, v ≠ u → CntAt P w' v)

theorem dock_spec {nU : Nat} {w : SW} {u s : Nat} (hsc : Sc nU w) (hs : s < w.next)
    (hu : u < nU) (hns : ∀ v, v ≠ u → w.sd.loc s = some v → s ∉ w.sd.lst v) :
    RedockSpec nU w u s (w.dock u s) where
  ext := ⟨id, rfl, rfl, Nat.le_refl _⟩
  pre_eq := rfl
  sc := by
    constructor <;> simp only [SW.dock, Side.setLoc]
    · exact hsc.lst_lt
    · intro x hx; have := hsc.loc_none x hx; grind
    · exact hsc.lst_nil
    · exact hsc.fixed_false
    · intro x v; have := hsc.loc_lt x v; grind
  lst_u := rfl
  len := fun _ => rfl
  loc_s := by simp [SW.dock, Side.setLoc]
  loc_other := by intro t _ hne; simp [SW.dock, Side.setLoc, hne]
  loc_new := by
    intro t ht
    have : t ≠ s := by omega
    have := hsc.loc_none t ht
    simp [SW.dock, Side.setLoc, *]
  cntOff := by
    intro P H v hv t ht
    have := H v hv t ht
    simp only [SW.dock, Side.setLoc]
    by_cases hts : t = s
    · subst hts
      have := hns v hv
      have := @List.count_eq_zero _ _ _ t (w.sd.lst v)
      grind
    · simp [hts, this]

structure RemoveSpec (nU : Nat) (w : SW) (v s : Nat) (w' : SW) : Prop where
  ext : Ext w w'
  pre_eq : w'.pre = w.pre
  sc : Sc nU w'
  next_eq : w'.next = w.next + 1
  lst_other : ∀ x, x ≠ v → w'.sd.lst x = w.sd.lst x
  len : ∀ x, (w'.sd.lst x).length = (w.sd.lst x).length
  loc_s : w'.sd.loc s = none
  loc_other : ∀ t, t ≠ w.next → t ≠ s → w'.sd.loc t = w.sd.loc t
  loc_new : w'.sd.loc w.next = some v
  cnt_other : ∀ t, t ≠ w.next → t ≠ s → (w'.sd.lst v).count t = (w.sd.lst v).count t
  cnt_s : (w'.sd.lst v).count s = (w.sd.lst v).count s - 1
  cnt_new : (w'.sd.lst v).count w.next = 1
  s_lt : s < w.next

theorem removeFrom_spec {nU : Nat} {w w' : SW} {v s : Nat} (hsc : Sc nU w)
    (hv : v < nU) (h : w.removeFrom v s = .ok w') : RemoveSpec nU w v s w' := by
  simp only [SW.removeFrom, SW.newMissing] at h
  split at h
  · cases h
  · rename_i i hi
    cases h
    have hmem := idxOf_mem hi
    have hil := idxOf_lt hi
    simp only [Side.setLoc] at hmem hil
    have hslt := hsc.lst_lt v s hmem
    have hcnt := count_set_idxOf hi
    have hnew : w.next ∉ w.sd.lst v := hsc.not_mem_ge (Nat.le_refl _) v
    constructor
    · exact ⟨id, rfl, rfl, Nat.le_succ _⟩
    · rfl
    · constructor <;> simp only [SW.undock, Side.setLoc, Side.setLst]
      · intro x t
        have := hsc.lst_lt x t
        have := @List.mem_or_eq_of_mem_set _ (w.sd.lst v) i t w.next
        grind
      · intro x hx; have := hsc.loc_none x; grind
      · intro x hx; have := hsc.lst_nil x hx; grind
      · exact hsc.fixed_false
      · intro x y; have := hsc.loc_lt x y; grind
    · rfl
    · intro x hx; simp [SW.undock, Side.setLoc, Side.setLst, hx]
    · intro x; simp only [SW.undock, Side.setLoc, Side.setLst]; split <;> simp_all
    · simp [SW.undock, Side.setLoc, Side.setLst]
    · intro t ht hts; simp only [SW.undock, Side.setLoc, Side.setLst]; grind
    · have : w.next ≠ s := by omega
      simp [SW.undock, Side.setLoc, Side.setLst, this]
    · intro t ht hts
      simp only [SW.undock, Side.setLoc, Side.setLst] at hcnt ⊢
      simp only [if_true, hcnt]
      grind
    · simp only [SW.undock, Side.setLoc, Side.setLst] at hcnt ⊢
      simp only [if_true, hcnt]
      grind
    · have h0 := List.count_eq_zero.mpr hnew
      simp only [SW.undock, Side.setLoc, Side.setLst] at hcnt ⊢
      simp only [if_true, hcnt]
      have : s ≠ w.next := by omega
      simp [this, h0]
    · exact hslt

theorem redock_spec {nU : Nat} {w w' : SW} {u s : Nat} (hsc : Sc nU w) (hs : s < w.next)
    (hu : u < nU) (h : w.redock u s = .ok w') : RedockSpec nU w u s w' := by
  unfold SW.redock at h
  split at h
  · -- loc s = none
    rename_i hn
    cases h
    exact dock_spec hsc hs hu (by simp [hn])
  · rename_i v hv
    split at h
    · rename_i hvu
      cases h; subst hvu
      exact ⟨Ext.refl _, rfl, hsc, rfl, fun _ => rfl, hv, fun _ _ _ => rfl,
        fun t ht => by rw [hsc.loc_none t ht]; simp, fun _ => id⟩
    · rename_i hvu
      split at h
      · rename_i hmem
        cases hr : w.removeFrom v s with
        | error e => simp [hr, bind, Except.bind] at h
        | ok w1 =>
          simp only [hr, bind, Except.bind] at h
          cases h
          have R := removeFrom_spec hsc (hsc.loc_lt s v hv) hr
          have hs1 : s < w1.next := Nat.lt_of_lt_of_le hs R.ext.next
          have D := dock_spec (u := u) (s := s) R.sc hs1 hu (by simp [R.loc_s])
          refine ⟨R.ext.trans D.ext, D.pre_eq.trans R.pre_eq, D.sc, ?_, ?_, D.loc_s, ?_, ?_, ?_⟩
          · rw [D.lst_u]; exact R.lst_other u (Ne.symm hvu)
          · intro x; rw [D.len, R.len]
          · intro t ht hts
            rw [D.loc_other t (by have := R.ext.next; omega) hts]
            exact R.loc_other t (by omega) hts
          · intro t ht
            by_cases htn : t = w.next
            · subst htn
              rw [D.loc_other _ (by rw [R.next_eq]; omega) (by omega), R.loc_new]
              simp; exact hvu
            · exact D.loc_new t (by rw [R.next_eq]; omega)
          · intro P H
            apply D.cntOff
            intro x hx t ht
            have Hx := H x hx t ht
            by_cases htn : t = w.next
            · subst htn
              by_cases hxv : x = v
              · subst hxv; rw [R.cnt_new, R.loc_new]; simp
              · rw [R.lst_other x hxv, R.loc_new, List.count_eq_zero.mpr (hsc.not_mem_ge (Nat.le_refl _) x)]
                simp; exact fun h => hxv h.symm
            · by_cases hxv : x = v
              · subst hxv
                by_cases hts : t = s
                · subst hts; rw [R.cnt_s, R.loc_s, Hx]; simp [hv]
                · rw [R.cnt_other t htn hts, R.loc_other t htn hts, Hx]
              · rw [R.lst_other x hxv, Hx]
                by_cases hts : t = s
                · subst hts; simp [R.loc_s, hv]; exact fun h => hxv h.symm
                · rw [R.loc_other t htn hts]
      · rename_i hmem
        cases h
        exact dock_spec hsc hs hu (by intro x _ hx; rw [hv] at hx; cases hx; exact hmem)

theorem removeFrom_ext {w w' : SW} {v s : Nat} (h : w.removeFrom v s = .ok w') :
    Ext w w' ∧ w'.pre = w.pre := by
  simp only [SW.removeFrom, SW.newMissing] at h
  split at h
  · cases h
  · cases h; exact ⟨⟨id, rfl, rfl, Nat.le_succ _⟩, rfl⟩

theorem redock_ext {w w' : SW} {u s : Nat} (h : w.redock u s = .ok w') :
    Ext w w' ∧ w'.pre = w.pre := by
  unfold SW.redock at h
  split at h
  · cases h; exact ⟨⟨id, rfl, rfl, Nat.le_refl _⟩, rfl⟩
  · split at h
    · cases h; exact ⟨Ext.refl _, rfl⟩
    · split at h
      · obtain ⟨w1, hr, h⟩ := bind_ok.mp h
        cases h
        have := removeFrom_ext hr
        exact ⟨⟨this.1.pre, this.1.fixed, this.1.size, this.1.next⟩, this.2⟩
      · cases h; exact ⟨⟨id, rfl, rfl, Nat.le_refl _⟩, rfl⟩

/-! ## Small frame lemmas -/

theorem Sc.of_eq {nU : Nat} {w w' : SW} (h : Sc nU w) (h1 : w'.sd = w.sd) (h2 : w'.next = w.next) :
    Sc nU w' := by
  cases w; cases w'; simp only at h1 h2; subst h1 h2
  exact ⟨h.1, h.2, h.3, h.4, h.5⟩

theorem CntAt.of_eq {P : Nat → Prop} {u : Nat} {w w' : SW} (h : CntAt P w u) (h1 : w'.sd = w.sd) :
    CntAt P w' u := by
  cases w; cases w'; simp only at h1; subst h1
  exact h

theorem Sc.undock {nU : Nat} {w : SW} (h : Sc nU w) (x : Nat) : Sc nU (w.undock x) := by
  constructor <;> simp only [SW.undock, Side.setLoc]
  · exact h.lst_lt
  · intro y hy; have := h.loc_none y hy; grind
  · exact h.lst_nil
  · exact h.fixed_false
  · intro y v; have := h.loc_lt y v; grind

theorem Sc.setLst {nU : Nat} {w : SW} (h : Sc nU w) {u : Nat} {L : List Nat} (hu : u < nU)
    (hL : ∀ x ∈ L, x < w.next) : Sc nU { w with sd := w.sd.setLst u L } := by
  constructor <;> simp only [Side.setLst]
  · intro v x; have := h.lst_lt v x; grind
  · exact h.loc_none
  · intro v hv; have := h.lst_nil v hv; grind
  · exact h.fixed_false
  · exact h.loc_lt

theorem SInv.setLst {nU : Nat} {P : Nat → Prop} {w : SW} {u : Nat} {L : List Nat} (hsc : Sc nU w)
    (hu : u < nU) (hL : ∀ x ∈ L, x < w.next)
    (hoff : ∀ v, v ≠ u → CntAt P w v)
    (hcu : ∀ t, P t → L.count t = if w.sd.loc t = some u then 1 else 0)
    (hfx : ∀ v, v ≠ u → w.sd.fixed v = true → (w.sd.lst v).length = w.sd.size v)
    (hfu : w.sd.fixed u = true → L.length = w.sd.size u) :
    SInv nU P { w with sd := w.sd.setLst u L } := by
  refine ⟨fun v => ?_, fun v hv => ?_, hsc.setLst hu hL⟩
  · by_cases hvu : v = u
    · subst hvu
      intro t ht
      have : (w.sd.setLst v L).lst v = L := by simp [Side.setLst]
      show List.count t ((w.sd.setLst v L).lst v) = _
      rw [this]; exact hcu t ht
    · intro t ht
      have : (w.sd.setLst u L).lst v = w.sd.lst v := by simp [Side.setLst, hvu]
      show List.count t ((w.sd.setLst u L).lst v) = _
      rw [this]; exact hoff v hvu t ht
  · by_cases hvu : v = u
    · subst hvu
      have : (w.sd.setLst v L).lst v = L := by simp [Side.setLst]
      show ((w.sd.setLst v L).lst v).length = _
      rw [this]; exact hfu hv
    · have : (w.sd.setLst u L).lst v = w.sd.lst v := by simp [Side.setLst, hvu]
      show ((w.sd.setLst u L).lst v).length = _
      rw [this]; exact hfx v hvu hv

/-! ## Steps -/

/-- A successful list operation: bookkeeping unchanged, and the full invariant (every object,
streams and placeholders) is kept provided the arguments are in scope (`A`) and the precondition
monitor is still on afterwards. -/
structure Step (nU : Nat) (A : Prop) (w w' : SW) : Prop where
  ext : Ext w w'
  inv : w'.pre = true → SInv nU All w → A → SInv nU All w'

theorem Step.trans {nU : Nat} {A B : Prop} {a b c : SW} (h1 : Step nU A a b) (h2 : Step nU B b c) :
    Step nU (A ∧ B) a c :=
  ⟨h1.ext.trans h2.ext, fun hp hi hab => h2.inv hp (h1.inv (h2.ext.pre hp) hi hab.1) hab.2⟩

theorem Step.weaken {nU : Nat} {A B : Prop} {a b : SW} (h1 : Step nU A a b) (h : B → A) :
    Step nU B a b := ⟨h1.ext, fun hp hi hb => h1.inv hp hi (h hb)⟩

/-- `seq[i] = s`, for a tracked set `P`: afterwards `s` is tracked too, provided it was consistent
at every other unit.  (With `P = All` this is the plain step; with `P = (· ≠ m)` and `s = m` a
placeholder just created for this list it is the placement that completes `m`.) -/
theorem setStream_core {nU : Nat} {w w' : SW} {u i s : Nat} (P : Nat → Prop)
    (h : w.setStream u i s = .ok w') :
    Ext w w' ∧ (w'.pre = true → SInv nU P w → s < w.next → u < nU →
      (∀ v, v ≠ u → (w.sd.lst v).count s = if w.sd.loc s = some v then 1 else 0) →
      SInv nU (fun t => P t ∨ t = s) w') := by
  simp only [SW.setStream] at h
  split at h
  · rename_i hi
    obtain ⟨w2, hr, h⟩ := bind_ok.mp h
    cases h
    have E := redock_ext hr
    have hfixed : w2.sd.fixed = w.sd.fixed := E.1.fixed
    have hsize : w2.sd.size = w.sd.size := E.1.size
    have hnext : w.next ≤ w2.next := E.1.next
    have hpre : w2.pre = (w.pre && !(w.sd.lst u).contains s) := E.2
    clear E
    refine ⟨⟨fun hp => ?_, hfixed, hsize, hnext⟩, fun hp hI hs hu hso => ?_⟩
    · have : w2.pre = true := hp
      rw [hpre, Bool.and_eq_true] at this
      exact this.1
    · have hp2 : w2.pre = true := hp
      rw [hpre, Bool.and_eq_true] at hp2
      have hcond : s ∉ w.sd.lst u := by
        have := hp2.2; simpa using this
      have R := fun a b c => redock_spec (nU := nU) (u := u) (s := s) a b c hr
      replace R := R ((hI.sc.undock (w.sd.lst u)[i]).of_eq rfl rfl) hs hu
      have hlu : w2.sd.lst u = w.sd.lst u := R.lst_u
      have hlen : ∀ v, (w2.sd.lst v).length = (w.sd.lst v).length := R.len
      have hloc_s := R.loc_s
      have hloc_o : ∀ t, t < w.next → t ≠ s →
          w2.sd.loc t = if t = (w.sd.lst u)[i] then none else w.sd.loc t := R.loc_other
      have hloc_n : ∀ t, w.next ≤ t → w2.sd.loc t ≠ some u := R.loc_new
      -- facts about x
      have hxmem : (w.sd.lst u)[i] ∈ w.sd.lst u := List.getElem_mem hi
      have hxs : (w.sd.lst u)[i] ≠ s := fun hx => hcond (hx ▸ hxmem)
      have hoff : ∀ v, v ≠ u → CntAt (fun t => P t ∨ t = s) w2 v := by
        apply R.cntOff
        intro v hv t ht
        simp only [SW.undock, Side.setLoc]
        rcases ht with ht | rfl
        · have := hI.cnt v t ht
          have := hI.cnt u t ht
          have := @List.count_pos_iff _ _ _ t (w.sd.lst u)
          clear hr h R hp
          grind
        · have := hso v hv
          clear hr h R hp
          grind
      have hsc2 := R.sc
      clear R hr h hp
      apply SInv.setLst hsc2 hu
      · intro x hx
        have := List.mem_or_eq_of_mem_set hx
        have := hsc2.lst_lt u x
        grind
      · exact hoff
      · intro t ht
        rw [hlu, List.count_set hi]
        by_cases hts : t = s
        · subst hts
          have := List.count_eq_zero.mpr hcond
          simp only [hloc_s, if_true]
          have h1 : ((w.sd.lst u)[i] == t) = false := by simpa using hxs
          simp [this, h1]
        · have hPt : P t := by rcases ht with ht | ht; exact ht; exact absurd ht hts
          have hc := hI.cnt u t hPt
          by_cases htn : t < w.next
          · have := hloc_o t htn hts
            have := @List.count_pos_iff _ _ _ t (w.sd.lst u)
            grind
          · have htn' : w.next ≤ t := by omega
            have h0 := List.count_eq_zero.mpr (hI.sc.not_mem_ge htn' u)
            have := hloc_n t htn'
            have h1 : ((w.sd.lst u)[i] == t) = false := by
              simp; intro hx; exact hI.sc.not_mem_ge htn' u (hx ▸ hxmem)
            have h2 : (s == t) = false := by simp; exact fun h => hts h.symm
            simp [h0, h1, h2, this]
      · intro v _ hv
        rw [hfixed] at hv
        rw [hlen, hsize]; exact hI.fx v hv
      · intro hv
        rw [hfixed] at hv
        rw [List.length_set, hlen, hsize]; exact hI.fx u hv
  · split at h
    · cases h
    · rename_i hi hfx
      obtain ⟨w2, hr, h⟩ := bind_ok.mp h
      cases h
      have E := redock_ext hr
      have hfixed : w2.sd.fixed = w.sd.fixed := E.1.fixed
      have hsize : w2.sd.size = w.sd.size := E.1.size
      have hnext : w.next ≤ w2.next := E.1.next
      have hpre : w2.pre = (w.pre && !(w.sd.lst u).contains s) := E.2
      clear E
      refine ⟨⟨fun hp => ?_, hfixed, hsize, hnext⟩, fun hp hI hs hu hso => ?_⟩
      · have : w2.pre = true := hp
        rw [hpre, Bool.and_eq_true] at this
        exact this.1
      · have hp2 : w2.pre = true := hp
        rw [hpre, Bool.and_eq_true] at hp2
        have hcond : s ∉ w.sd.lst u := by
          have := hp2.2; simpa using this
        have R := fun a b c => redock_spec (nU := nU) (u := u) (s := s) a b c hr
        replace R := R (hI.sc.of_eq rfl rfl) hs hu
        have hlu : w2.sd.lst u = w.sd.lst u := R.lst_u
        have hlen : ∀ v, (w2.sd.lst v).length = (w.sd.lst v).length := R.len
        have hloc_s := R.loc_s
        have hloc_o : ∀ t, t < w.next → t ≠ s → w2.sd.loc t = w.sd.loc t := R.loc_other
        have hloc_n : ∀ t, w.next ≤ t → w2.sd.loc t ≠ some u := R.loc_new
        have hoff : ∀ v, v ≠ u → CntAt (fun t => P t ∨ t = s) w2 v := by
          apply R.cntOff
          intro v hv t ht
          rcases ht with ht | rfl
          · exact hI.cnt v t ht
          · exact hso v hv
        have hsc2 := R.sc
        clear R hr h hp
        apply SInv.setLst hsc2 hu
        · intro x hx
          have := hsc2.lst_lt u x
          simp only [List.mem_append, List.mem_singleton] at hx
          grind
        · exact hoff
        · intro t ht
          rw [hlu, List.count_append, List.count_singleton]
          by_cases hts : t = s
          · subst hts
            have := List.count_eq_zero.mpr hcond
            simp [hloc_s, this]
          · have hPt : P t := by rcases ht with ht | ht; exact ht; exact absurd ht hts
            have hc := hI.cnt u t hPt
            have h2 : (s == t) = false := by simp; exact fun h => hts h.symm
            by_cases htn : t < w.next
            · have := hloc_o t htn hts
              simp [h2, this, hc]
            · have htn' : w.next ≤ t := by omega
              have h0 := List.count_eq_zero.mpr (hI.sc.not_mem_ge htn' u)
              have := hloc_n t htn'
              simp [h0, h2, this]
        · intro v _ hv
          rw [hfixed] at hv
          rw [hlen, hsize]; exact hI.fx v hv
        · intro hv
          rw [hfixed] at hv
          exact absurd hv hfx

theorem setStream_step {nU : Nat} {w w' : SW} {u i s : Nat} (h : w.setStream u i s = .ok w') :
    Step nU (s < w.next ∧ u < nU) w w' := by
  have C := setStream_core (nU := nU) All h
  exact ⟨C.1, fun hp hI ⟨hs, hu⟩ =>
    (C.2 hp hI hs hu (fun v _ => hI.cnt v s trivial)).mono (fun _ _ => Or.inl trivial)⟩

/-! ## Placeholders: creation and placement -/

theorem Sc.newMissing {nU : Nat} {w : SW} (h : Sc nU w) {u : Nat} (hu : u < nU) :
    Sc nU (w.newMissing u).1 := by
  constructor <;> simp only [SW.newMissing, Side.setLoc]
  · intro v x hx; have := h.lst_lt v x hx; omega
  · intro y hy; have := h.loc_none y; grind
  · exact h.lst_nil
  · exact h.fixed_false
  · intro y v; have := h.loc_lt y v; grind

/-- Creating a placeholder leaves every *other* object as it was; the new object itself is pending
(its pointer names `u`, no port holds it yet). -/
theorem CntAt.newMissing {P : Nat → Prop} {w : SW} {u v : Nat} (h : CntAt P w v) :
    CntAt (fun t => P t ∧ t ≠ w.next) (w.newMissing u).1 v := by
  intro t ht
  have := h t ht.1
  simp only [SW.newMissing, Side.setLoc]
  simp [ht.2, this]

theorem newMissing_ext (w : SW) (u : Nat) : Ext w (w.newMissing u).1 :=
  ⟨id, rfl, rfl, Nat.le_succ _⟩

theorem SInv.newMissing {nU : Nat} {P : Nat → Prop} {w : SW} {u : Nat} (hI : SInv nU P w)
    (hu : u < nU) : SInv nU (fun t => P t ∧ t ≠ w.next) (w.newMissing u).1 :=
  ⟨fun _ => (hI.cnt _).newMissing, hI.fx, hI.sc.newMissing hu⟩

@[simp] theorem newMissing_snd (w : SW) (u : Nat) : (w.newMissing u).2 = w.next := rfl
@[simp] theorem newMissing_next (w : SW) (u : Nat) : (w.newMissing u).1.next = w.next + 1 := rfl
@[simp] theorem newMissing_lst (w : SW) (u : Nat) : (w.newMissing u).1.sd.lst = w.sd.lst := rfl
@[simp] theorem newMissing_loc (w : SW) (u : Nat) : (w.newMissing u).1.sd.loc w.next = some u := by
  simp [SW.newMissing, Side.setLoc]

/-- `seq[i] = <a placeholder just created for this list>`: creation and placement together keep
the full invariant (this is `seq[i] = None`, and the heart of `remove`, `pop`, `disconnect_*`). -/
theorem setNone_step {nU : Nat} {w w' : SW} {u i : Nat}
    (h : (w.newMissing u).1.setStream u i (w.newMissing u).2 = .ok w') : Step nU (u < nU) w w' := by
  have C := setStream_core (nU := nU) (fun t => All t ∧ t ≠ w.next) h
  refine ⟨(newMissing_ext w u).trans C.1, fun hp hI hu => ?_⟩
  have h1 := hI.newMissing (u := u) hu
  refine (C.2 hp h1 (by simp) hu ?_).mono ?_
  · intro v hv
    have hn : w.next ∉ w.sd.lst v := hI.sc.not_mem_ge (Nat.le_refl _) v
    simp only [newMissing_snd, newMissing_lst, newMissing_loc]
    rw [List.count_eq_zero.mpr hn]
    simp; exact fun h => hv h.symm
  · intro t _
    by_cases ht : t = w.next
    · exact Or.inr ht
    · exact Or.inl ⟨trivial, ht⟩

theorem replace_step {nU : Nat} {w w' : SW} {u s t : Nat} (h : w.replace u s t = .ok w') :
    Step nU (t < w.next ∧ u < nU) w w' := by
  unfold SW.replace at h
  split at h
  · cases h
  · exact setStream_step h

/-- `seq.replace(s, <a placeholder just created for this list>)`. -/
theorem replaceNew_step {nU : Nat} {w w' : SW} {u s : Nat}
    (h : (w.newMissing u).1.replace u s (w.newMissing u).2 = .ok w') : Step nU (u < nU) w w' := by
  unfold SW.replace at h
  split at h
  · cases h
  · exact setNone_step h

theorem remove_step {nU : Nat} {w w' : SW} {u s : Nat} (h : w.remove u s = .ok w') :
    Step nU (u < nU) w w' := by
  unfold SW.remove at h
  exact replaceNew_step h

theorem disconnect_step {nU : Nat} {w w' : SW} {s : Nat} (h : w.disconnect s = .ok w') :
    Step nU True w w' := by
  unfold SW.disconnect at h
  split at h
  · cases h; exact ⟨Ext.refl _, fun _ hI _ => hI⟩
  · rename_i v hv
    have S := replaceNew_step (nU := nU) h
    exact ⟨S.ext, fun hp hI _ => S.inv hp hI (hI.sc.loc_lt s v hv)⟩

/-! ## `undockAll` -/

@[simp] theorem undockAll_lst (w : SW) (xs : List Nat) : (w.undockAll xs).sd.lst = w.sd.lst := by
  induction xs generalizing w with
  | nil => rfl
  | cons x xs ih => simp [SW.undockAll, ih, SW.undock, Side.setLoc]

@[simp] theorem undockAll_fixed (w : SW) (xs : List Nat) : (w.undockAll xs).sd.fixed = w.sd.fixed := by
  induction xs generalizing w with
  | nil => rfl
  | cons x xs ih => simp [SW.undockAll, ih, SW.undock, Side.setLoc]

@[simp] theorem undockAll_size (w : SW) (xs : List Nat) : (w.undockAll xs).sd.size = w.sd.size := by
  induction xs generalizing w with
  | nil => rfl
  | cons x xs ih => simp [SW.undockAll, ih, SW.undock, Side.setLoc]

@[simp] theorem undockAll_next (w : SW) (xs : List Nat) : (w.undockAll xs).next = w.next := by
  induction xs generalizing w with
  | nil => rfl
  | cons x xs ih => simp [SW.undockAll, ih, SW.undock]

@[simp] theorem undockAll_pre (w : SW) (xs : List Nat) : (w.undockAll xs).pre = w.pre := by
  induction xs generalizing w with
  | nil => rfl
  | cons x xs ih => simp [SW.undockAll, ih, SW.undock]

theorem undockAll_loc (w : SW) (xs : List Nat) (t : Nat) :
    (w.undockAll xs).sd.loc t = if t ∈ xs then none else w.sd.loc t := by
  induction xs generalizing w with
  | nil => simp [SW.undockAll]
  | cons x xs ih =>
    simp only [SW.undockAll, ih, SW.undock, Side.setLoc, List.mem_cons]
    grind

theorem Sc.undockAll {nU : Nat} {w : SW} (h : Sc nU w) (xs : List Nat) : Sc nU (w.undockAll xs) := by
  induction xs generalizing w with
  | nil => exact h
  | cons x xs ih => exact ih (h.undock x)

theorem undockAll_ext (w : SW) (xs : List Nat) : Ext w (w.undockAll xs) :=
  ⟨by simp, by simp, by simp, by simp⟩

theorem mem_loc {P : Nat → Prop} {w : SW} {u x : Nat} (hc : CntAt P w u) (hx : x ∈ w.sd.lst u)
    (hr : P x) : w.sd.loc x = some u := by
  have := hc x hr
  have := List.count_pos_iff.mpr hx
  grind

theorem cntOff_undockAll {P : Nat → Prop} {w : SW} {u : Nat} {xs : List Nat} (hI : ∀ v, CntAt P w v)
    (hxs : ∀ x ∈ xs, x ∈ w.sd.lst u) : ∀ v, v ≠ u → CntAt P (w.undockAll xs) v := by
  intro v hv t ht
  rw [undockAll_lst, undockAll_loc, hI v t ht]
  by_cases hm : t ∈ xs
  · have := mem_loc (hI u) (hxs t hm) ht
    grind
  · simp [hm]

/-- the same when the undocked objects are only known to be docked at `u` -/
theorem cntOff_undockAll' {P : Nat → Prop} {w : SW} {u : Nat} {xs : List Nat}
    (hI : ∀ v, v ≠ u → CntAt P w v) (hxs : ∀ x ∈ xs, w.sd.loc x = some u) :
    ∀ v, v ≠ u → CntAt P (w.undockAll xs) v := by
  intro v hv t ht
  rw [undockAll_lst, undockAll_loc, hI v hv t ht]
  by_cases hm : t ∈ xs
  · have := hxs t hm
    grind
  · simp [hm]

theorem pop_step {nU : Nat} {w w' : SW} {u i s : Nat} (h : w.pop u i = .ok (w', s)) :
    Step nU (u < nU) w w' := by
  simp only [SW.pop] at h
  split at h
  · rename_i hi
    split at h
    · obtain ⟨w2, hr, h⟩ := bind_ok.mp h
      cases h
      exact replaceNew_step hr
    · rename_i hfx
      cases h
      refine ⟨⟨id, rfl, rfl, Nat.le_refl _⟩, fun _ hI hu => ?_⟩
      have hxmem : (w.sd.lst u)[i] ∈ w.sd.lst u := List.getElem_mem hi
      apply SInv.setLst (w := w.undock (w.sd.lst u)[i]) (hI.sc.undock _) hu
      · intro x hx
        exact hI.sc.lst_lt u x (List.mem_of_mem_eraseIdx hx)
      · exact cntOff_undockAll (xs := [(w.sd.lst u)[i]]) hI.cnt (by simp)
      · intro t ht
        rw [count_eraseIdx_lt hi]
        have := hI.cnt u t ht
        have := mem_loc (hI.cnt u) hxmem trivial
        simp only [SW.undock, Side.setLoc]
        grind
      · intro v _ hv; exact hI.fx v hv
      · intro hv; exact absurd hv hfx
  · cases h

/-! ## `insert`, `append`, `extend` -/

theorem SInv.of_eq {nU : Nat} {P : Nat → Prop} {w w' : SW} (h : SInv nU P w) (h1 : w'.sd = w.sd)
    (h2 : w'.next = w.next) : SInv nU P w' := by
  cases w; cases w'; simp only at h1 h2; subst h1 h2
  exact ⟨h.1, h.2, h.3.of_eq rfl rfl⟩

/-- The state after docking `s` at `u` and rebinding the list of `u` to `L l`. -/
def SW.addOne (w : SW) (u s : Nat) (L : List Nat → List Nat) : SW :=
  let w : SW := { w with pre := w.pre && (w.sd.loc s).isNone }
  let w1 := (w.undock s).dock u s
  { w1 with sd := w1.sd.setLst u (L (w1.sd.lst u)) }

theorem addOne_step {nU : Nat} {w : SW} {u s : Nat} {L : List Nat → List Nat}
    (hL : ∀ l t, (L l).count t = l.count t + if s = t then 1 else 0) :
    Step nU (s < w.next ∧ u < nU ∧ w.sd.fixed u = false) w (w.addOne u s L) := by
  refine ⟨⟨fun hp => ?_, rfl, rfl, Nat.le_refl _⟩, fun hp hI ⟨hs, hu, hfx⟩ => ?_⟩
  · simp only [SW.addOne, SW.dock, SW.undock, Bool.and_eq_true] at hp
    exact hp.1
  · simp only [SW.addOne, SW.dock, SW.undock, Bool.and_eq_true] at hp
    have hcond : w.sd.loc s = none := by
      have := hp.2; simpa using this
    have hsc1 : Sc nU ((w.undock s).dock u s) := by
      have := (hI.sc.undock s)
      constructor <;> simp only [SW.dock, SW.undock, Side.setLoc]
      · exact hI.sc.lst_lt
      · intro y hy; have := hI.sc.loc_none y; grind
      · exact hI.sc.lst_nil
      · exact hI.sc.fixed_false
      · intro y v; have := hI.sc.loc_lt y v; grind
    have key : SInv nU All { (w.undock s).dock u s with
        sd := ((w.undock s).dock u s).sd.setLst u (L (w.sd.lst u)) } := by
      apply SInv.setLst hsc1 hu
      · intro x hx
        have := List.count_pos_iff.mpr hx
        rw [hL] at this
        have := hI.sc.lst_lt u x
        have := @List.count_pos_iff _ _ _ x (w.sd.lst u)
        simp only [SW.dock, SW.undock]
        grind
      · intro v hv t ht
        have := hI.cnt v t ht
        simp only [SW.dock, SW.undock, Side.setLoc]
        grind
      · intro t ht
        have := hI.cnt u t ht
        rw [hL]
        simp only [SW.dock, SW.undock, Side.setLoc]
        grind
      · intro v _ hv; exact hI.fx v hv
      · intro hv
        have : w.sd.fixed u = true := hv
        simp [hfx] at this
    exact key.of_eq rfl rfl

theorem count_insert_at (l : List Nat) (i s t : Nat) :
    (l.take i ++ s :: l.drop i).count t = l.count t + if s = t then 1 else 0 := by
  have h1 : l.count t = (l.take i ++ l.drop i).count t := by simp
  rw [h1]
  simp only [List.count_append, List.count_cons]
  simp; omega

theorem count_append_one (l : List Nat) (s t : Nat) :
    (l ++ [s]).count t = l.count t + if s = t then 1 else 0 := by
  simp [List.count_append, List.count_singleton]

theorem insertAt_step {nU : Nat} {w w' : SW} {u i s : Nat} (h : w.insertAt u i s = .ok w') :
    Step nU (s < w.next ∧ u < nU) w w' := by
  simp only [SW.insertAt] at h
  split at h
  · cases h
  · rename_i hfx
    cases h
    exact (addOne_step (L := fun l => l.take i ++ s :: l.drop i)
      (fun l t => count_insert_at l i s t)).weaken (fun ⟨a, b⟩ => ⟨a, b, by simpa using hfx⟩)

theorem append_step {nU : Nat} {w w' : SW} {u s : Nat} (h : w.append u s = .ok w') :
    Step nU (s < w.next ∧ u < nU) w w' := by
  simp only [SW.append] at h
  split at h
  · cases h
  · rename_i hfx
    cases h
    exact (addOne_step (L := fun l => l ++ [s])
      (fun l t => count_append_one l s t)).weaken (fun ⟨a, b⟩ => ⟨a, b, by simpa using hfx⟩)

theorem extendGo_step {nU : Nat} (w : SW) (u : Nat) (ss : List Nat) :
    Step nU ((∀ s ∈ ss, s < w.next) ∧ u < nU ∧ w.sd.fixed u = false) w (w.extendGo u ss) := by
  induction ss generalizing w with
  | nil => exact ⟨Ext.refl _, fun _ hI _ => hI⟩
  | cons s ss ih =>
    have h1 := addOne_step (nU := nU) (w := w) (u := u) (s := s) (L := fun l => l ++ [s])
      (fun l t => count_append_one l s t)
    have h2 := ih (w.addOne u s (fun l => l ++ [s]))
    exact (h1.trans h2).weaken (fun ⟨a, b, c⟩ =>
      ⟨⟨a s (by simp), b, c⟩, fun x hx => a x (by simp [hx]), b, c⟩)

theorem extend_step {nU : Nat} {w w' : SW} {u : Nat} {ss : List Nat} (h : w.extend u ss = .ok w') :
    Step nU ((∀ s ∈ ss, s < w.next) ∧ u < nU) w w' := by
  simp only [SW.extend] at h
  split at h
  · cases h
  · rename_i hfx
    cases h
    exact (extendGo_step w u ss).weaken (fun ⟨a, b⟩ => ⟨a, b, by simpa using hfx⟩)

/-! ## `newMissings`, `clear`, `empty` -/

/-- `n` placeholders created for the list of `u`: the ids `[next, next + n)`, each with its pointer
on `u`, not yet in any list. -/
structure MissSpec (w : SW) (u n : Nat) (r : SW × List Nat) : Prop where
  pre_eq : r.1.pre = w.pre
  fixed : r.1.sd.fixed = w.sd.fixed
  size : r.1.sd.size = w.sd.size
  next : r.1.next = w.next + n
  lst : r.1.sd.lst = w.sd.lst
  len : r.2.length = n
  mem_iff : ∀ m, m ∈ r.2 ↔ (w.next ≤ m ∧ m < w.next + n)
  nodup : r.2.Nodup
  loc_eq : ∀ t, r.1.sd.loc t = if w.next ≤ t ∧ t < w.next + n then some u else w.sd.loc t

theorem newMissings_spec (w : SW) (u n : Nat) : MissSpec w u n (w.newMissings u n) := by
  induction n generalizing w with
  | zero =>
    refine ⟨rfl, rfl, rfl, rfl, rfl, rfl, ?_, ?_, ?_⟩
    · intro m; simp [SW.newMissings]
    · simp [SW.newMissings]
    · intro t
      simp only [SW.newMissings]
      split
      · omega
      · rfl
  | succ n ih =>
    have h := ih (w.newMissing u).1
    simp only [SW.newMissings]
    refine ⟨h.pre_eq, h.fixed, h.size, ?_, h.lst, ?_, ?_, ?_, ?_⟩
    · rw [h.next]; simp; omega
    · simp [h.len]
    · intro m
      simp only [List.mem_cons, h.mem_iff, newMissing_next, newMissing_snd]
      omega
    · refine List.nodup_cons.mpr ⟨?_, h.nodup⟩
      rw [h.mem_iff]; simp only [newMissing_next, newMissing_snd]; omega
    · intro t
      rw [h.loc_eq]
      simp only [SW.newMissing, Side.setLoc]
      grind

theorem MissSpec.ext {w : SW} {u n : Nat} {r : SW × List Nat} (h : MissSpec w u n r) : Ext w r.1 :=
  ⟨fun hp => by rw [← h.pre_eq]; exact hp, h.fixed, h.size, by rw [h.next]; omega⟩

theorem MissSpec.lt {w : SW} {u n : Nat} {r : SW × List Nat} (h : MissSpec w u n r) :
    ∀ m ∈ r.2, m < r.1.next := by
  intro m hm; have := (h.mem_iff m).mp hm; rw [h.next]; omega

theorem MissSpec.count {w : SW} {u n : Nat} {r : SW × List Nat} (h : MissSpec w u n r) (t : Nat) :
    r.2.count t = if w.next ≤ t ∧ t < w.next + n then 1 else 0 := by
  rw [h.nodup.count]
  by_cases hm : t ∈ r.2
  · rw [if_pos hm, if_pos ((h.mem_iff t).mp hm)]
  · rw [if_neg hm, if_neg (fun hc => hm ((h.mem_iff t).mpr hc))]

theorem Sc.newMissings {nU : Nat} {w : SW} (h : Sc nU w) {u : Nat} (hu : u < nU) (n : Nat) :
    Sc nU (w.newMissings u n).1 := by
  induction n generalizing w with
  | zero => exact h
  | succ n ih => exact ih (h.newMissing hu)

/-- Away from `u` the new placeholders change nothing. -/
theorem CntAt.newMissings {nU : Nat} {P : Nat → Prop} {w : SW} (hsc : Sc nU w) {u v : Nat}
    (hv : v ≠ u) (h : CntAt P w v) (n : Nat) : CntAt P (w.newMissings u n).1 v := by
  have M := newMissings_spec w u n
  intro t ht
  rw [M.lst, M.loc_eq]
  by_cases hm : w.next ≤ t ∧ t < w.next + n
  · rw [if_pos hm, List.count_eq_zero.mpr (hsc.not_mem_ge hm.1 v)]
    simp; exact fun h => hv h.symm
  · rw [if_neg hm]; exact h t ht

/-- Appending the new placeholders to a list `L` that accounts for every other object of `u`. -/
theorem SInv.pad {nU : Nat} {w : SW} {u n : Nat} {L : List Nat} (hsc : Sc nU w) (hu : u < nU)
    (hL : ∀ x ∈ L, x < w.next)
    (hoff : ∀ v, v ≠ u → CntAt All w v)
    (hcu : ∀ t, L.count t = if w.sd.loc t = some u then 1 else 0)
    (hfx : ∀ v, v ≠ u → w.sd.fixed v = true → (w.sd.lst v).length = w.sd.size v)
    (hfu : w.sd.fixed u = true → L.length + n = w.sd.size u) :
    SInv nU All { (w.newMissings u n).1 with
      sd := (w.newMissings u n).1.sd.setLst u (L ++ (w.newMissings u n).2) } := by
  have M := newMissings_spec w u n
  apply SInv.setLst (hsc.newMissings hu n) hu
  · intro x hx
    rcases List.mem_append.mp hx with hx | hx
    · have := hL x hx; rw [M.next]; omega
    · exact M.lt x hx
  · intro v hv; exact (hoff v hv).newMissings hsc hv n
  · intro t _
    rw [List.count_append, M.count, M.loc_eq]
    by_cases hm : w.next ≤ t ∧ t < w.next + n
    · have : t ∉ L := fun hx => by have := hL t hx; omega
      rw [if_pos hm, if_pos hm, List.count_eq_zero.mpr this]; simp
    · rw [if_neg hm, if_neg hm, hcu t]; simp
  · intro v hv hf
    rw [M.fixed] at hf
    rw [M.lst, M.size]; exact hfx v hv hf
  · intro hf
    rw [M.fixed] at hf
    rw [List.length_append, M.len, M.size]; exact hfu hf

/-- Undock everything in the list of `u` and refill it with `n` fresh placeholders. -/
def SW.refill (w : SW) (u n : Nat) : SW :=
  let r := (w.undockAll (w.sd.lst u)).newMissings u n
  { r.1 with sd := r.1.sd.setLst u r.2 }

theorem refill_step {nU : Nat} (w : SW) (u n : Nat) :
    Step nU (u < nU ∧ (w.sd.fixed u = true → n = w.sd.size u)) w (w.refill u n) := by
  have M := newMissings_spec (w.undockAll (w.sd.lst u)) u n
  have E := (undockAll_ext w (w.sd.lst u)).trans M.ext
  refine ⟨⟨E.pre, E.fixed, E.size, E.next⟩, fun _ hI ⟨hu, hn⟩ => ?_⟩
  have hsc1 := hI.sc.undockAll (w.sd.lst u)
  have := SInv.pad (n := n) (L := []) hsc1 hu (by simp)
    (cntOff_undockAll hI.cnt (fun _ h => h))
    (by
      intro t
      rw [undockAll_loc]
      have := hI.cnt u t trivial
      have := @List.count_pos_iff _ _ _ t (w.sd.lst u)
      simp only [List.count_nil]
      grind)
    (by intro v _ hv; simp only [undockAll_fixed, undockAll_lst, undockAll_size] at hv ⊢; exact hI.fx v hv)
    (by intro hv; simp only [undockAll_fixed, undockAll_size] at hv ⊢; simpa using hn hv)
  simpa [SW.refill] using this

theorem clear_step {nU : Nat} (w : SW) (u : Nat) : Step nU (u < nU) w (w.clear u) := by
  simp only [SW.clear]
  split
  · rename_i hfx
    simp only [undockAll_fixed] at hfx
    exact (refill_step w u ((w.undockAll (w.sd.lst u)).sd.size u)).weaken
      (fun hu => ⟨hu, fun _ => by simp⟩)
  · rename_i hfx
    simp only [undockAll_fixed] at hfx
    exact (refill_step w u 0).weaken (fun hu => ⟨hu, fun h => absurd h hfx⟩)

theorem empty_step {nU : Nat} (w : SW) (u : Nat) : Step nU (u < nU) w (w.empty u) :=
  (refill_step w u ((w.undockAll (w.sd.lst u)).sd.size u)).weaken
    (fun hu => ⟨hu, fun _ => by simp⟩)

/-! ## `asStreams`, `redockAll`, `setStreams` -/

/-- `[_as_stream(i) for i in items]`: the placeholders created for the `None` items are pending —
their pointer names `u`, they are among the streams to be placed, no list holds them yet. -/
structure AsSpec (nU : Nat) (w : SW) (u : Nat) (items : List (Option Nat)) (r : SW × List Nat) :
    Prop where
  pre_eq : r.1.pre = w.pre
  fixed : r.1.sd.fixed = w.sd.fixed
  size : r.1.sd.size = w.sd.size
  next : w.next ≤ r.1.next
  lst : r.1.sd.lst = w.sd.lst
  ss_lt : (∀ s, some s ∈ items → s < w.next) → ∀ s ∈ r.2, s < r.1.next
  loc_old : ∀ t, t < w.next → r.1.sd.loc t = w.sd.loc t
  fresh : ∀ t, w.next ≤ t → t < r.1.next → r.1.sd.loc t = some u ∧ t ∈ r.2
  sc : Sc nU w → u < nU → Sc nU r.1

theorem asStreams_spec {nU : Nat} (w : SW) (u : Nat) (items : List (Option Nat)) :
    AsSpec nU w u items (w.asStreams u items) := by
  induction items generalizing w with
  | nil =>
    exact ⟨rfl, rfl, rfl, Nat.le_refl _, rfl, by simp [SW.asStreams], fun _ _ => rfl,
      fun t h1 h2 => by simp only [SW.asStreams] at h2; omega, fun h _ => h⟩
  | cons it items ih =>
    cases it with
    | none =>
      have h := ih (w.newMissing u).1
      simp only [SW.asStreams]
      refine ⟨h.pre_eq, h.fixed, h.size, Nat.le_trans (Nat.le_succ _) h.next, h.lst, ?_, ?_, ?_, ?_⟩
      · intro hs s hm
        simp only [List.mem_cons] at hm
        rcases hm with rfl | hm
        · have := h.next; simp only [newMissing_next, newMissing_snd] at *; omega
        · apply h.ss_lt _ s hm
          intro x hx
          have := hs x (by simp [hx]); simp; omega
      · intro t ht
        rw [h.loc_old t (by simp; omega)]
        have : t ≠ w.next := by omega
        simp [SW.newMissing, Side.setLoc, this]
      · intro t h1 h2
        by_cases htn : t = w.next
        · subst htn
          rw [h.loc_old _ (by simp)]
          exact ⟨by simp, by simp⟩
        · have := h.fresh t (by simp; omega) h2
          exact ⟨this.1, List.mem_cons_of_mem _ this.2⟩
      · intro hsc hu; exact h.sc (hsc.newMissing hu) hu
    | some s0 =>
      have h := ih w
      simp only [SW.asStreams]
      refine ⟨h.pre_eq, h.fixed, h.size, h.next, h.lst, ?_, h.loc_old, ?_, h.sc⟩
      · intro hs s hm
        simp only [List.mem_cons] at hm
        rcases hm with rfl | hm
        · have := hs s (by simp); have := h.next; simp only; omega
        · exact h.ss_lt (fun x hx => hs x (by simp [hx])) s hm
      · intro t h1 h2
        have := h.fresh t h1 h2
        exact ⟨this.1, List.mem_cons_of_mem _ this.2⟩

theorem AsSpec.ext {nU : Nat} {w : SW} {u : Nat} {items : List (Option Nat)} {r : SW × List Nat}
    (h : AsSpec nU w u items r) : Ext w r.1 :=
  ⟨fun hp => by rw [← h.pre_eq]; exact hp, h.fixed, h.size, h.next⟩

structure RedockAllSpec (nU : Nat) (w : SW) (u : Nat) (todo : List Nat) (w' : SW) : Prop where
  sc : Sc nU w'
  lst_u : w'.sd.lst u = w.sd.lst u
  len : ∀ v, (w'.sd.lst v).length = (w.sd.lst v).length
  loc_in : ∀ t ∈ todo, w'.sd.loc t = some u
  loc_out : ∀ t, t < w.next → t ∉ todo → w'.sd.loc t = w.sd.loc t
  loc_new : ∀ t, w.next ≤ t → w'.sd.loc t ≠ some u
  cntOff : ∀ P : Nat → Prop, (∀ v, v ≠ u → CntAt P w v) → (∀ v, v ≠ u → CntAt P w' v)

theorem redockAll_ext {w w' : SW} {u : Nat} {todo : List Nat} (h : w.redockAll u todo = .ok w') :
    Ext w w' ∧ w'.pre = w.pre := by
  induction todo generalizing w with
  | nil => cases h; exact ⟨Ext.refl _, rfl⟩
  | cons s ss ih =>
    simp only [SW.redockAll] at h
    obtain ⟨w1, hr, h⟩ := bind_ok.mp h
    have h1 := redock_ext hr
    have h2 := ih h
    exact ⟨h1.1.trans h2.1, h2.2.trans h1.2⟩

theorem redockAll_spec {nU : Nat} {w w' : SW} {u : Nat} {todo : List Nat} (hsc : Sc nU w)
    (hs : ∀ s ∈ todo, s < w.next) (hu : u < nU) (h : w.redockAll u todo = .ok w') :
    RedockAllSpec nU w u todo w' := by
  induction todo generalizing w with
  | nil =>
    cases h
    exact ⟨hsc, rfl, fun _ => rfl, by simp, fun _ _ _ => rfl,
      fun t ht => by rw [hsc.loc_none t ht]; simp, fun _ => id⟩
  | cons s ss ih =>
    simp only [SW.redockAll] at h
    obtain ⟨w1, hr, h⟩ := bind_ok.mp h
    have R := redock_spec hsc (hs s (by simp)) hu hr
    have hss1 : ∀ x ∈ ss, x < w1.next :=
      fun x hx => Nat.lt_of_lt_of_le (hs x (by simp [hx])) R.ext.next
    have A := ih R.sc hss1 h
    refine ⟨A.sc, A.lst_u.trans R.lst_u, fun v => (A.len v).trans (R.len v), ?_, ?_, ?_,
      fun P H => A.cntOff P (R.cntOff P H)⟩
    · intro t ht
      by_cases hts : t ∈ ss
      · exact A.loc_in t hts
      · simp only [List.mem_cons] at ht
        rcases ht with rfl | ht
        · rw [A.loc_out t (Nat.lt_of_lt_of_le (hs t (by simp)) R.ext.next) hts]
          exact R.loc_s
        · exact absurd ht hts
    · intro t htn ht
      simp only [List.mem_cons, not_or] at ht
      rw [A.loc_out t (Nat.lt_of_lt_of_le htn R.ext.next) ht.2, R.loc_other t htn ht.1]
    · intro t ht
      by_cases ht1 : w1.next ≤ t
      · exact A.loc_new t ht1
      · have hts : t ∉ ss := fun hm => by have := hs t (by simp [hm]); omega
        rw [A.loc_out t (by omega) hts]
        exact R.loc_new t ht

/-- The heart of slice assignment.  `n0` separates the objects that existed before the supplied
`None`s were turned into placeholders (`< n0`, consistent everywhere) from those placeholders
(`[n0, next)`, pending: pointer on `u`, among the supplied, in no list). -/
theorem setStreams_core {nU : Nat} {w0 w2 w3 : SW} {u a b' n0 : Nat} {ss : List Nat}
    (hab : a ≤ b')
    (hlst_u : w2.sd.lst u = (w0.sd.lst u).take a ++ ss ++ (w0.sd.lst u).drop b')
    (hlst_o : ∀ v, v ≠ u → w2.sd.lst v = w0.sd.lst v)
    (hloc : ∀ t, w2.sd.loc t =
      if t ∈ ((w0.sd.lst u).drop a).take (b' - a) then none else w0.sd.loc t)
    (hnext : w2.next = w0.next)
    (hfixed : w2.sd.fixed = w0.sd.fixed)
    (h3 : w2.redockAll u ((w0.sd.lst u).take a ++ ss ++ (w0.sd.lst u).drop b') = .ok w3)
    (hn0 : n0 ≤ w0.next)
    (hI : SInv nU (fun t => t < n0) w0)
    (hold : ∀ v x, x ∈ w0.sd.lst v → x < n0)
    (hpend : ∀ t, n0 ≤ t → t < w0.next → w0.sd.loc t = some u ∧ t ∈ ss)
    (hss : ∀ s ∈ ss, s < w0.next) (hu : u < nU)
    (hnd : ss.Nodup)
    (hnk : ∀ s ∈ ss, s ∉ (w0.sd.lst u).take a ++ (w0.sd.lst u).drop b') :
    Sc nU w3 ∧ (∀ v, v ≠ u → CntAt All w3 v) ∧ CntAt All w3 u ∧
      w3.sd.lst u = (w0.sd.lst u).take a ++ ss ++ (w0.sd.lst u).drop b' ∧
      (∀ v, v ≠ u → (w3.sd.lst v).length = (w0.sd.lst v).length) := by
  have hold_u := hold u
  generalize hl : w0.sd.lst u = l at *
  have hsplit := split3 l hab
  have hmem_l : ∀ x ∈ l, x < w0.next := fun x hx => Nat.lt_of_lt_of_le (hold_u x hx) hn0
  have hl'lt : ∀ x ∈ l.take a ++ ss ++ l.drop b', x < w2.next := by
    intro x hx
    rw [hnext]
    simp only [List.mem_append] at hx
    rcases hx with (hx | hx) | hx
    · exact hmem_l x (List.mem_of_mem_take hx)
    · exact hss x hx
    · exact hmem_l x (List.mem_of_mem_drop hx)
  have hsc2 : Sc nU w2 := by
    constructor
    · intro v x hx
      by_cases hv : v = u
      · subst hv; rw [hlst_u] at hx; exact hl'lt x hx
      · rw [hlst_o v hv] at hx; rw [hnext]; exact hI.sc.lst_lt v x hx
    · intro t ht; rw [hloc]; rw [hnext] at ht; have := hI.sc.loc_none t ht; grind
    · intro v hv; rw [hlst_o v (by omega)]; exact hI.sc.lst_nil v hv
    · intro v hv; rw [hfixed]; exact hI.sc.fixed_false v hv
    · intro t v; rw [hloc]; have := hI.sc.loc_lt t v; grind
  have hmem_rem : ∀ t, t ∈ (l.drop a).take (b' - a) → t ∈ l :=
    fun t ht => List.mem_of_mem_drop (List.mem_of_mem_take ht)
  have hoff2 : ∀ v, v ≠ u → CntAt All w2 v := by
    intro v hv t _
    by_cases ht0 : t < n0
    · rw [hlst_o v hv, hloc, hI.cnt v t ht0]
      by_cases hm : t ∈ (l.drop a).take (b' - a)
      · have := mem_loc (hI.cnt u) (hl ▸ hmem_rem t hm) ht0
        grind
      · simp [hm]
    · by_cases ht1 : t < w0.next
      · have hp := hpend t (by omega) ht1
        have h1 : t ∉ w0.sd.lst v := fun hm => ht0 (hold v t hm)
        have h2 : t ∉ (l.drop a).take (b' - a) := fun hm => ht0 (hold_u t (hmem_rem t hm))
        rw [hlst_o v hv, hloc, if_neg h2, hp.1, List.count_eq_zero.mpr h1]
        simp; exact fun h => hv h.symm
      · exact hsc2.cnt_ge (by rw [hnext]; omega) v
  have A := redockAll_spec hsc2 hl'lt hu h3
  refine ⟨A.sc, A.cntOff All hoff2, ?_, A.lst_u.trans hlst_u, fun v hv => by rw [A.len, hlst_o v hv]⟩
  intro t _
  rw [A.lst_u, hlst_u]
  have F1 : l.count t = (l.take a ++ l.drop b').count t + ((l.drop a).take (b' - a)).count t := by
    conv => lhs; rw [hsplit]
    simp only [List.count_append]; omega
  have F2 : (l.take a ++ ss ++ l.drop b').count t = (l.take a ++ l.drop b').count t + ss.count t := by
    simp only [List.count_append]; omega
  by_cases hin : t ∈ l.take a ++ ss ++ l.drop b'
  · rw [A.loc_in t hin, if_pos rfl, F2]
    by_cases hts : t ∈ ss
    · have h1 : ss.count t = 1 := by rw [hnd.count]; simp [hts]
      have h2 := List.count_eq_zero.mpr (hnk t hts)
      omega
    · have h1 := List.count_eq_zero.mpr hts
      have h2 : t ∈ l.take a ++ l.drop b' := by
        simp only [List.mem_append] at hin ⊢; grind
      have h3 := List.count_pos_iff.mpr h2
      have htl : t ∈ l := by
        simp only [List.mem_append] at h2
        rcases h2 with h2 | h2
        · exact List.mem_of_mem_take h2
        · exact List.mem_of_mem_drop h2
      have Hc := hI.cnt u t (hold_u t htl)
      rw [hl] at Hc
      have : l.count t ≤ 1 := by rw [Hc]; split <;> omega
      omega
  · rw [List.count_eq_zero.mpr hin]
    have hne : w3.sd.loc t ≠ some u := by
      by_cases ht2 : w2.next ≤ t
      · exact A.loc_new t ht2
      · rw [A.loc_out t (by omega) hin, hloc]
        by_cases hm : t ∈ (l.drop a).take (b' - a)
        · simp [hm]
        · rw [if_neg hm]
          by_cases ht0 : t < n0
          · have Hc := hI.cnt u t ht0
            rw [hl] at Hc
            have h2 : t ∉ l.take a ++ l.drop b' := by
              simp only [List.mem_append] at hin ⊢; grind
            have := List.count_eq_zero.mpr h2
            have := List.count_eq_zero.mpr hm
            have : l.count t = 0 := by omega
            rw [this] at Hc
            intro hc; rw [if_pos hc] at Hc; omega
          · have hp := hpend t (by omega) (by omega)
            exact absurd (by simp only [List.mem_append]; exact Or.inl (Or.inr hp.2)) hin
    simp [hne]

theorem setStreams_step {nU : Nat} {w w' : SW} {u a b : Nat} {items : List (Option Nat)}
    (h : w.setStreams u a b items = .ok w') :
    Step nU ((∀ s, some s ∈ items → s < w.next) ∧ u < nU) w w' := by
  unfold SW.setStreams at h
  have AS := asStreams_spec (nU := nU) w u items
  generalize w.asStreams u items = r at h AS
  obtain ⟨w0, ss⟩ := r
  simp only at h AS
  obtain ⟨w3, h3, h⟩ := bind_ok.mp h
  have hab : a ≤ max a b := Nat.le_max_left a b
  have E3 := redockAll_ext h3
  have hpre3 := E3.2
  have hfixed3 := E3.1.fixed
  have hsize3 := E3.1.size
  have hnext3 := E3.1.next
  simp only [undockAll_pre, undockAll_fixed, undockAll_size, undockAll_next,
    Side.setLst] at hpre3 hfixed3 hsize3 hnext3
  clear E3
  have C := fun h1 h2 h3' h4 h5 hn0 hI hold hpend hss hu hnd hnk =>
    setStreams_core (nU := nU) (w0 := w0) (u := u) (a := a) (b' := max a b) (n0 := w.next) (ss := ss) hab
      h1 h2 h3' h4 h5 h3 hn0 hI hold hpend hss hu hnd hnk
  replace C := C (by simp [Side.setLst]) (by intro v hv; simp [Side.setLst, hv])
    (by intro t; simp only [undockAll_loc, Side.setLst]) (by simp) (by simp [Side.setLst]) AS.next
  clear h3
  have E03 : Ext w0 w3 := ⟨fun hp => by rw [hpre3] at hp; simp only [Bool.and_eq_true] at hp; exact hp.1.1.1,
    hfixed3, hsize3, hnext3⟩
  -- everything that follows from `pre` and the invariant of `w`
  have key : w3.pre = true → SInv nU All w → (∀ s, some s ∈ items → s < w.next) → u < nU →
      Fx w0 ∧ Sc nU w3 ∧ (∀ v, v ≠ u → CntAt All w3 v) ∧ CntAt All w3 u ∧
      w3.sd.lst u = List.take a (w0.sd.lst u) ++ ss ++ List.drop (max a b) (w0.sd.lst u) ∧
      (∀ v, v ≠ u → (w3.sd.lst v).length = (w0.sd.lst v).length) ∧
      (w0.sd.fixed u = true → (List.take a (w0.sd.lst u) ++ ss ++ List.drop (max a b) (w0.sd.lst u)).length
          ≤ w0.sd.size u) := by
    intro hp hI hit hu
    rw [hpre3] at hp
    simp only [Bool.and_eq_true, decide_eq_true_eq, List.all_eq_true, Bool.not_eq_eq_eq_not,
      Bool.not_true, Bool.or_eq_true] at hp
    obtain ⟨⟨⟨hp0, hnd⟩, hnk⟩, hfit⟩ := hp
    have hfx0 : Fx w0 := by
      intro v hv
      rw [AS.fixed] at hv
      rw [AS.lst, AS.size]; exact hI.fx v hv
    have hI0 : SInv nU (fun t => t < w.next) w0 := by
      refine ⟨fun v t ht => ?_, hfx0, AS.sc hI.sc hu⟩
      rw [AS.lst, AS.loc_old t ht]; exact hI.cnt v t trivial
    have hss := AS.ss_lt hit
    have := C hI0 (by intro v x hx; rw [AS.lst] at hx; exact hI.sc.lst_lt v x hx) AS.fresh hss hu hnd (by
      intro s hs
      have := hnk s hs
      simpa using this)
    refine ⟨hfx0, this.1, this.2.1, this.2.2.1, this.2.2.2.1, this.2.2.2.2, ?_⟩
    intro hfx
    rcases hfit with hfit | hfit
    · simp [hfx] at hfit
    · simp only [List.length_append] at hfit ⊢; omega
  clear C
  have hfxo : ∀ v, v ≠ u → Fx w0 → (∀ v, v ≠ u → (w3.sd.lst v).length = (w0.sd.lst v).length) →
      w3.sd.fixed v = true → (w3.sd.lst v).length = w3.sd.size v := by
    intro v hv hfx0 hlen hf
    rw [hfixed3] at hf
    rw [hlen v hv, hsize3]; exact hfx0 v hf
  split at h
  · rename_i hc
    cases h
    simp only [Bool.and_eq_true, decide_eq_true_eq] at hc
    generalize hn : w3.sd.size u -
      (List.take a (w0.sd.lst u) ++ ss ++ List.drop (max a b) (w0.sd.lst u)).length = n at *
    have M := newMissings_spec w3 u n
    have E := (AS.ext.trans E03).trans M.ext
    refine ⟨⟨E.pre, E.fixed, E.size, E.next⟩, fun hp hI ⟨hit, hu⟩ => ?_⟩
    have hp3 : w3.pre = true := by rw [← M.pre_eq]; exact hp
    obtain ⟨hfx0, hsc3, hoff3, hcu3, hlu3, hlen3, -⟩ := key hp3 hI hit hu
    apply SInv.pad hsc3 hu
    · intro x hx; exact hsc3.lst_lt u x (by rw [hlu3]; exact hx)
    · exact hoff3
    · intro t; rw [← hlu3]; exact hcu3 t trivial
    · intro v hv hf; exact hfxo v hv hfx0 hlen3 hf
    · intro _; omega
  · rename_i hc
    cases h
    simp only [Bool.and_eq_true, decide_eq_true_eq, not_and, Nat.not_lt] at hc
    have E := AS.ext.trans E03
    refine ⟨E, fun hp hI ⟨hit, hu⟩ => ?_⟩
    obtain ⟨hfx0, hsc3, hoff3, hcu3, hlu3, hlen3, hfit⟩ := key hp hI hit hu
    refine ⟨fun v => ?_, fun v hf => ?_, hsc3⟩
    · by_cases hv : v = u
      · subst hv; exact hcu3
      · exact hoff3 v hv
    · by_cases hv : v = u
      · subst hv
        have := hc hf
        rw [hfixed3] at hf
        have := hfit hf
        rw [hlu3, hsize3] at *
        omega
      · exact hfxo v hv hfx0 hlen3 hf

end ThermoVerif.Network
