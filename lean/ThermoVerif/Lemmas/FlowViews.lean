import ThermoVerif.Model.FlowViews
import Mathlib.Tactic.Ring
import Mathlib.Tactic.FieldSimp
import Mathlib.Algebra.Field.Rat
/-
Helper lemmas for C11: the structural invariant of the view caches (`Inv`) and its preservation by
every primitive that touches identities (first part, core Lean), followed by the definitions, helper lemmas and proofs
behind the property theorems of Props/C11.lean (which restates the property-level ones).

Stream objects hold indexer objects (`Struct.ixOf`); a `proxy()` holds the same indexer object as its original, so
every statement is about "the indexer of stream i" and an update of one indexer object is seen by all its holders.
-/
namespace ThermoVerif.FlowViews

/-- The fields of an indexer a cached view depends on. -/
def Same (s t : Stream) : Prop :=
  s.data = t.data ∧ s.th = t.th ∧ s.viewPhases = t.viewPhases ∧ s.viewPc = t.viewPc

theorem Same.refl (s : Stream) : Same s s := ⟨rfl, rfl, rfl, rfl⟩
theorem Same.symm {s t : Stream} (h : Same s t) : Same t s :=
  ⟨h.1.symm, h.2.1.symm, h.2.2.1.symm, h.2.2.2.symm⟩
theorem Same.trans {s t u : Stream} (h : Same s t) (g : Same t u) : Same s u :=
  ⟨h.1.trans g.1, h.2.1.trans g.2.1, h.2.2.1.trans g.2.2.1, h.2.2.2.trans g.2.2.2⟩

/-- A cache entry is *good for* indexer `s`: the view wraps exactly the row objects `s` currently holds,
captured `s`'s current chemicals and phases / phase container, and is filed under `'mass'` or under the
thermal-condition object it refers to (so a stream that looks its own thermal condition up gets a view of it). -/
def Good (z : Struct) (s : Stream) (kv : Key × View) : Prop :=
  kv.2.rows = z.datas s.data ∧ kv.2.th = s.th ∧ kv.2.phases = s.viewPhases ∧ kv.2.pc = s.viewPc ∧
  (kv.1 = .mass ∨ kv.1 = .vol kv.2.tc)

theorem Good.of_same {z : Struct} {s t : Stream} {kv : Key × View} (h : Same s t) (g : Good z s kv) :
    Good z t kv := by
  obtain ⟨h1, h2, h3, h4⟩ := h
  obtain ⟨g1, g2, g3, g4, g5⟩ := g
  exact ⟨by rw [g1, h1], by rw [g2, h2], by rw [g3, h3], by rw [g4, h4], g5⟩

theorem Good.tc_of_vol {z : Struct} {s : Stream} {t : Nat} {v : View} (g : Good z s (.vol t, v)) : v.tc = t := by
  rcases g.2.2.2.2 with h | h
  · cases h
  · simp only [Key.vol.injEq] at h; exact h.symm

/-- The invariant behind `view_tracks_rows`. -/
structure Inv (z : Struct) : Prop where
  bix : ∀ i, i < z.nstreams → (z.streams i).ix < z.nixs
  bcache : ∀ i, i < z.nstreams → (z.ixOf i).cache < z.ncaches
  bdata : ∀ i, i < z.nstreams → (z.ixOf i).data < z.ndatas
  /-- streams whose indexers hold the same `_data_cache` dict hold the same data, chemicals, phases -/
  coh : ∀ i j, i < z.nstreams → j < z.nstreams → (z.ixOf i).cache = (z.ixOf j).cache →
        Same (z.ixOf i) (z.ixOf j)
  /-- every cached view is good for every stream that can reach it -/
  tracks : ∀ i, i < z.nstreams → ∀ kv ∈ z.caches (z.ixOf i).cache, Good z (z.ixOf i) kv

theorem inv_init : Inv ({} : Struct) :=
  ⟨fun _ h => absurd h (Nat.not_lt_zero _), fun _ h => absurd h (Nat.not_lt_zero _),
   fun _ h => absurd h (Nat.not_lt_zero _), fun _ _ h => absurd h (Nat.not_lt_zero _),
   fun _ h => absurd h (Nat.not_lt_zero _)⟩

@[simp] theorem upd_same {α : Type} (f : Nat → α) (i : Nat) (x : α) : upd f i x i = x := by simp [upd]
theorem upd_ne {α : Type} (f : Nat → α) {i j : Nat} (x : α) (h : j ≠ i) : upd f i x j = f j := by
  simp [upd, h]

/-- The streams in `C` get (one and the same) brand-new `_data_cache`; their data object is an existing one or brand-new.
Everything reachable from the other streams is untouched. -/
theorem inv_fresh {z z' : Struct} (C : Nat → Prop) (h : Inv z)
    (hbix : ∀ i, i < z'.nstreams → (z'.streams i).ix < z'.nixs)
    (hold : ∀ i, i < z'.nstreams → ¬ C i → i < z.nstreams ∧ z'.ixOf i = z.ixOf i)
    (hc : ∀ i, C i → (z'.ixOf i).cache = z.ncaches)
    (hd : ∀ i, C i → (z'.ixOf i).data < z'.ndatas)
    (hsame : ∀ i j, C i → C j → Same (z'.ixOf i) (z'.ixOf j))
    (hnc : z'.ncaches = z.ncaches + 1)
    (hcs : ∀ c, c < z.ncaches → z'.caches c = z.caches c)
    (hce : z'.caches z.ncaches = [])
    (hnd : z.ndatas ≤ z'.ndatas)
    (hds : ∀ d, d < z.ndatas → z'.datas d = z.datas d) : Inv z' := by
  refine ⟨hbix, ?_, ?_, ?_, ?_⟩
  · intro i hi
    by_cases e : C i
    · rw [hc i e, hnc]; exact Nat.lt_succ_self _
    · obtain ⟨hi', he⟩ := hold i hi e
      rw [he, hnc]; exact Nat.lt_succ_of_lt (h.bcache i hi')
  · intro i hi
    by_cases e : C i
    · exact hd i e
    · obtain ⟨hi', he⟩ := hold i hi e
      rw [he]; exact Nat.lt_of_lt_of_le (h.bdata i hi') hnd
  · intro i j hi hj hij
    by_cases ei : C i
    · by_cases ej : C j
      · exact hsame i j ei ej
      · exfalso
        obtain ⟨hj', he⟩ := hold j hj ej
        rw [hc i ei, he] at hij
        have := h.bcache j hj'
        omega
    · by_cases ej : C j
      · exfalso
        obtain ⟨hi', he⟩ := hold i hi ei
        rw [hc j ej, he] at hij
        have := h.bcache i hi'
        omega
      · obtain ⟨hi', hei⟩ := hold i hi ei
        obtain ⟨hj', hej⟩ := hold j hj ej
        rw [hei, hej] at hij ⊢
        exact h.coh i j hi' hj' hij
  · intro i hi kv hkv
    by_cases e : C i
    · rw [hc i e, hce] at hkv; cases hkv
    · obtain ⟨hi', he⟩ := hold i hi e
      rw [he] at hkv ⊢
      rw [hcs _ (h.bcache i hi')] at hkv
      obtain ⟨g1, g2⟩ := h.tracks i hi' kv hkv
      exact ⟨by rw [g1, hds _ (h.bdata i hi')], g2⟩

/-- A view that is good for stream `sid` is added to `sid`'s `_data_cache` (`by_mass` / `by_volume` on a miss). -/
theorem inv_addEntry {z z' : Struct} {sid : Nat} {kv : Key × View} (h : Inv z) (hs : sid < z.nstreams)
    (hg : Good z (z.ixOf sid) kv)
    (hn : z'.nstreams = z.nstreams) (hst : z'.streams = z.streams) (hni : z'.nixs = z.nixs) (hix : z'.ixs = z.ixs)
    (hnc : z'.ncaches = z.ncaches) (hnd : z'.ndatas = z.ndatas) (hds : z'.datas = z.datas)
    (hca : z'.caches = upd z.caches (z.ixOf sid).cache (kv :: z.caches (z.ixOf sid).cache)) : Inv z' := by
  have hof : ∀ i, z'.ixOf i = z.ixOf i := by intro i; simp [Struct.ixOf, hst, hix]
  refine ⟨?_, ?_, ?_, ?_, ?_⟩
  · intro i hi; rw [hst, hni]; exact h.bix i (hn ▸ hi)
  · intro i hi; rw [hof, hnc]; exact h.bcache i (hn ▸ hi)
  · intro i hi; rw [hof, hnd]; exact h.bdata i (hn ▸ hi)
  · intro i j hi hj; rw [hof, hof]; exact h.coh i j (hn ▸ hi) (hn ▸ hj)
  · intro i hi kv' hkv
    have hi' : i < z.nstreams := hn ▸ hi
    rw [hof] at hkv ⊢
    have goodz : ∀ x, Good z (z.ixOf i) x → Good z' (z.ixOf i) x := by
      intro x ⟨g1, g2⟩; exact ⟨by rw [g1, hds], g2⟩
    rw [hca] at hkv
    by_cases e : (z.ixOf i).cache = (z.ixOf sid).cache
    · rw [e, upd_same] at hkv
      cases hkv with
      | head => exact goodz _ (Good.of_same (h.coh sid i hs hi' e.symm) hg)
      | tail _ hm => exact goodz _ (h.tracks i hi' kv' (e ▸ hm))
    · rw [upd_ne _ _ e] at hkv
      exact goodz _ (h.tracks i hi' kv' hkv)

/-- The streams in `C` (the holders of one indexer object) take over `_data_cache`, data (and phase container) of
stream `oid` (the sharing branch of `link_with`). -/
theorem inv_share {z z' : Struct} (C : Nat → Prop) {oid : Nat} (h : Inv z) (ho : oid < z.nstreams)
    (hn : z'.nstreams = z.nstreams)
    (hbix : ∀ i, i < z'.nstreams → (z'.streams i).ix < z'.nixs)
    (hold : ∀ i, ¬ C i → z'.ixOf i = z.ixOf i)
    (hc : ∀ i, C i → (z'.ixOf i).cache = (z.ixOf oid).cache)
    (hsame : ∀ i, C i → Same (z'.ixOf i) (z.ixOf oid))
    (hnc : z'.ncaches = z.ncaches) (hca : z'.caches = z.caches)
    (hnd : z'.ndatas = z.ndatas) (hds : z'.datas = z.datas) : Inv z' := by
  have good' : ∀ s x, Good z s x → Good z' s x := by
    intro s x ⟨g1, g2⟩; exact ⟨by rw [g1, hds], g2⟩
  refine ⟨hbix, ?_, ?_, ?_, ?_⟩
  · intro i hi
    by_cases e : C i
    · rw [hc i e, hnc]; exact h.bcache oid ho
    · rw [hold i e, hnc]; exact h.bcache i (hn ▸ hi)
  · intro i hi
    by_cases e : C i
    · rw [(hsame i e).1, hnd]; exact h.bdata oid ho
    · rw [hold i e, hnd]; exact h.bdata i (hn ▸ hi)
  · intro i j hi hj hij
    have hi' : i < z.nstreams := hn ▸ hi
    have hj' : j < z.nstreams := hn ▸ hj
    by_cases ei : C i
    · by_cases ej : C j
      · exact (hsame i ei).trans (hsame j ej).symm
      · rw [hc i ei, hold j ej] at hij
        rw [hold j ej]
        exact (hsame i ei).trans (h.coh oid j ho hj' hij)
    · by_cases ej : C j
      · rw [hc j ej, hold i ei] at hij
        rw [hold i ei]
        exact (h.coh i oid hi' ho hij).trans (hsame j ej).symm
      · rw [hold i ei, hold j ej] at hij ⊢
        exact h.coh i j hi' hj' hij
  · intro i hi kv hkv
    rw [hca] at hkv
    by_cases e : C i
    · rw [hc i e] at hkv
      exact good' _ _ (Good.of_same (hsame i e).symm (h.tracks oid ho kv hkv))
    · rw [hold i e] at hkv ⊢
      exact good' _ _ (h.tracks i (hn ▸ hi) kv hkv)

/-- `_expand_phases` (repaired): the row list of the data object of the streams in `C` (the holders of one indexer
object) is replaced and their `_data_cache` is cleared; no stream outside `C` holds that data object. -/
theorem inv_expand {z z' : Struct} (C : Nat → Prop) {sid : Nat} (h : Inv z) (hs : sid < z.nstreams)
    (hun : ∀ j, j < z.nstreams → ¬ C j → (z.ixOf j).data ≠ (z.ixOf sid).data)
    (hn : z'.nstreams = z.nstreams)
    (hbix : ∀ i, i < z'.nstreams → (z'.streams i).ix < z'.nixs)
    (hold : ∀ i, ¬ C i → z'.ixOf i = z.ixOf i)
    (hc : ∀ i, C i → (z'.ixOf i).cache = (z.ixOf sid).cache)
    (hd : ∀ i, C i → (z'.ixOf i).data = (z.ixOf sid).data)
    (hsame : ∀ i j, C i → C j → Same (z'.ixOf i) (z'.ixOf j))
    (hnc : z'.ncaches = z.ncaches) (hnd : z'.ndatas = z.ndatas)
    (hca : ∀ c, c ≠ (z.ixOf sid).cache → z'.caches c = z.caches c)
    (hce : z'.caches (z.ixOf sid).cache = [])
    (hds : ∀ d, d ≠ (z.ixOf sid).data → z'.datas d = z.datas d) : Inv z' := by
  have hcne : ∀ j, j < z.nstreams → ¬ C j → (z.ixOf j).cache ≠ (z.ixOf sid).cache := by
    intro j hj e hcj
    exact hun j hj e (h.coh j sid hj hs hcj).1
  refine ⟨hbix, ?_, ?_, ?_, ?_⟩
  · intro i hi
    by_cases e : C i
    · rw [hc i e, hnc]; exact h.bcache _ hs
    · rw [hold i e, hnc]; exact h.bcache i (hn ▸ hi)
  · intro i hi
    by_cases e : C i
    · rw [hd i e, hnd]; exact h.bdata _ hs
    · rw [hold i e, hnd]; exact h.bdata i (hn ▸ hi)
  · intro i j hi hj hij
    have hi' : i < z.nstreams := hn ▸ hi
    have hj' : j < z.nstreams := hn ▸ hj
    by_cases ei : C i
    · by_cases ej : C j
      · exact hsame i j ei ej
      · exfalso; rw [hc i ei, hold j ej] at hij; exact hcne j hj' ej hij.symm
    · by_cases ej : C j
      · exfalso; rw [hc j ej, hold i ei] at hij; exact hcne i hi' ei hij
      · rw [hold i ei, hold j ej] at hij ⊢
        exact h.coh i j hi' hj' hij
  · intro i hi kv hkv
    have hi' : i < z.nstreams := hn ▸ hi
    by_cases e : C i
    · rw [hc i e, hce] at hkv; cases hkv
    · rw [hold i e] at hkv ⊢
      rw [hca _ (hcne i hi' e)] at hkv
      obtain ⟨g1, g2⟩ := h.tracks i hi' kv hkv
      exact ⟨by rw [g1, hds _ (hun i hi' e)], g2⟩

/-- Only the stream objects change (a new stream object holding an existing indexer, other thermal condition,
other phase views): every stream of the new world holds the indexer some stream of the old world held. -/
theorem inv_meta {z z' : Struct} (h : Inv z)
    (hold : ∀ i, i < z'.nstreams → ∃ j, j < z.nstreams ∧ (z'.streams i).ix = (z.streams j).ix)
    (hni : z'.nixs = z.nixs) (hix : z'.ixs = z.ixs)
    (hnc : z'.ncaches = z.ncaches) (hca : z'.caches = z.caches)
    (hnd : z'.ndatas = z.ndatas) (hds : z'.datas = z.datas) : Inv z' := by
  have hof : ∀ i, i < z'.nstreams → ∃ j, j < z.nstreams ∧ z'.ixOf i = z.ixOf j := by
    intro i hi
    obtain ⟨j, hj, e⟩ := hold i hi
    exact ⟨j, hj, by simp [Struct.ixOf, hix, e]⟩
  have good' : ∀ s x, Good z s x → Good z' s x := by
    intro s x ⟨g1, g2⟩; exact ⟨by rw [g1, hds], g2⟩
  refine ⟨?_, ?_, ?_, ?_, ?_⟩
  · intro i hi
    obtain ⟨j, hj, e⟩ := hold i hi
    rw [e, hni]; exact h.bix j hj
  · intro i hi
    obtain ⟨j, hj, e⟩ := hof i hi
    rw [e, hnc]; exact h.bcache j hj
  · intro i hi
    obtain ⟨j, hj, e⟩ := hof i hi
    rw [e, hnd]; exact h.bdata j hj
  · intro i i2 hi hi2 hc
    obtain ⟨j, hj, e⟩ := hof i hi
    obtain ⟨j2, hj2, e2⟩ := hof i2 hi2
    rw [e, e2] at hc ⊢
    exact h.coh j j2 hj hj2 hc
  · intro i hi kv hkv
    obtain ⟨j, hj, e⟩ := hof i hi
    rw [e, hca] at hkv
    rw [e]
    exact good' _ _ (h.tracks j hj kv hkv)

theorem lookup_mem {α β : Type} [BEq α] [LawfulBEq α] {k : α} {v : β} :
    ∀ {l : List (α × β)}, l.lookup k = some v → (k, v) ∈ l
  | [], h => by simp [List.lookup] at h
  | (a, b) :: t, h => by
    simp only [List.lookup] at h
    split at h
    · rename_i heq
      have : k = a := by simpa using heq
      cases h; subst this; exact List.mem_cons_self
    · exact List.mem_cons_of_mem _ (lookup_mem h)

/-! ### the primitives of the model preserve `Inv` -/

/-- `Inv` only looks at the stream / indexer / cache / data tables. -/
theorem inv_of_eq {z z' : Struct} (h : Inv z) (h1 : z'.nstreams = z.nstreams) (h2 : z'.streams = z.streams)
    (h3 : z'.nixs = z.nixs) (h4 : z'.ixs = z.ixs) (h5 : z'.ncaches = z.ncaches) (h6 : z'.caches = z.caches)
    (h7 : z'.ndatas = z.ndatas) (h8 : z'.datas = z.datas) : Inv z' :=
  inv_meta h (fun i hi => ⟨i, h1 ▸ hi, by rw [h2]⟩) h3 h4 h5 h6 h7 h8

theorem inv_allocData {z : Struct} (h : Inv z) (rowIds : List Nat) : Inv (z.allocData rowIds) := by
  refine ⟨h.bix, h.bcache, ?_, h.coh, ?_⟩
  · intro i hi
    exact Nat.lt_succ_of_lt (h.bdata i hi)
  · intro i hi kv hkv
    obtain ⟨g1, g2⟩ := h.tracks i hi kv hkv
    refine ⟨?_, g2⟩
    have : (z.ixOf i).data ≠ z.ndatas := Nat.ne_of_lt (h.bdata i hi)
    show kv.2.rows = upd z.datas z.ndatas rowIds ((z.allocData rowIds).ixOf i).data
    rw [show ((z.allocData rowIds).ixOf i) = z.ixOf i from rfl, upd_ne _ _ this]; exact g1

/-- Stream `sid` (an existing stream object, or one that was just created) is bound to a brand-new indexer object with a
brand-new `_data_cache`, over an existing data object. -/
theorem inv_bindNew {z0 z : Struct} {sid : Nat} {nix : Stream} (h : Inv z0)
    (hst : ∀ i, i < z.nstreams → i ≠ sid → i < z0.nstreams ∧ z.streams i = z0.streams i)
    (hixs : z.ixs = z0.ixs) (hnix : z.nixs = z0.nixs) (hnc : z.ncaches = z0.ncaches) (hca : z.caches = z0.caches)
    (hnd : z.ndatas = z0.ndatas) (hds : z.datas = z0.datas)
    (hd : nix.data < z.ndatas) : Inv (z.bindNew sid nix) := by
  have hother : ∀ i, i < z.nstreams → i ≠ sid → (z.bindNew sid nix).ixOf i = z0.ixOf i := by
    intro i hi hne
    obtain ⟨hi0, hs⟩ := hst i hi hne
    have hb := h.bix i hi0
    simp only [Struct.ixOf, Struct.bindNew, upd, hne, if_false, hs, hixs, hnix]
    rw [if_neg (Nat.ne_of_lt hb)]
  have hself : (z.bindNew sid nix).ixOf sid = { nix with cache := z.ncaches } := by
    simp [Struct.ixOf, Struct.bindNew, upd]
  refine inv_fresh (fun i => i = sid) h ?_ ?_ ?_ ?_ ?_ ?_ ?_ ?_ ?_ ?_
  · intro i hi
    by_cases e : i = sid
    · subst e; simp [Struct.bindNew, upd]
    · obtain ⟨hi0, hs⟩ := hst i hi e
      have := h.bix i hi0
      simp only [Struct.bindNew, upd, e, if_false, hs, hnix]
      omega
  · intro i hi e
    exact ⟨(hst i hi e).1, hother i hi e⟩
  · intro i e; subst e; rw [hself]; exact hnc
  · intro i e; subst e; rw [hself]; exact hd
  · intro i j ei ej; subst ei; subst ej; exact Same.refl _
  · simp [Struct.bindNew, hnc]
  · intro c hc
    simp only [Struct.bindNew, hca, hnc]
    exact upd_ne _ _ (Nat.ne_of_lt hc)
  · simp [Struct.bindNew, hnc]
  · simp [Struct.bindNew, hnd]
  · intro d _; simp [Struct.bindNew, hds]

theorem inv_setTc {w : World} (h : Inv w.s) (sid tc : Nat) : Inv (w.setTc sid tc).s := by
  refine inv_meta h ?_ rfl rfl rfl rfl rfl rfl
  intro i hi
  refine ⟨i, hi, ?_⟩
  simp only [World.setTc, upd]
  split <;> simp_all

theorem inv_setViews {w : World} (h : Inv w.s) (sid : Nat) (vs : List (Char × Nat)) : Inv (w.setViews sid vs).s := by
  refine inv_meta h ?_ rfl rfl rfl rfl rfl rfl
  intro i hi
  refine ⟨i, hi, ?_⟩
  simp only [World.setViews, upd]
  split <;> simp_all

theorem inv_getView {w : World} {sid : Nat} {key : Key} (h : Inv w.s) (hs : sid < w.s.nstreams)
    (hk : key = .mass ∨ key = .vol (w.stream sid).tc) : Inv (w.getView sid key).1.s := by
  dsimp only [World.getView]
  split
  · exact h
  · refine inv_addEntry (sid := sid) h hs (kv := (key, _)) ?_ rfl rfl rfl rfl rfl rfl rfl rfl
    refine ⟨rfl, rfl, rfl, rfl, ?_⟩
    rcases hk with hk | hk
    · exact Or.inl hk
    · exact Or.inr hk

theorem getView_content (w : World) (sid : Nat) (key : Key) : (w.getView sid key).1.c = w.c := by
  dsimp only [World.getView]; split <;> rfl

theorem getView_cfg (w : World) (sid : Nat) (key : Key) :
    (w.getView sid key).1.thermos = w.thermos ∧ (w.getView sid key).1.units = w.units := by
  dsimp only [World.getView]; split <;> exact ⟨rfl, rfl⟩

theorem getView_streams (w : World) (sid : Nat) (key : Key) :
    (w.getView sid key).1.s.streams = w.s.streams ∧ (w.getView sid key).1.s.nstreams = w.s.nstreams ∧
    (w.getView sid key).1.s.datas = w.s.datas ∧ (w.getView sid key).1.s.ixs = w.s.ixs := by
  dsimp only [World.getView]; split <;> exact ⟨rfl, rfl, rfl, rfl⟩

/-- the view `by_mass` / `by_volume` hands out is good for the stream's indexer; a volumetric one refers to the
thermal-condition object it was asked for -/
theorem getView_good {w : World} {sid : Nat} {key : Key} (h : Inv w.s) (hs : sid < w.s.nstreams)
    (hk : key = .mass ∨ key = .vol (w.stream sid).tc) :
    Good w.s (w.s.ixOf sid) (key, (w.getView sid key).2) ∧
    (key = .vol (w.stream sid).tc → (w.getView sid key).2.tc = (w.stream sid).tc) := by
  dsimp only [World.getView]
  split
  · rename_i v hv
    have hg := h.tracks sid hs (key, v) (lookup_mem hv)
    refine ⟨hg, ?_⟩
    intro hkv
    subst hkv
    exact hg.tc_of_vol
  · refine ⟨⟨rfl, rfl, rfl, rfl, ?_⟩, fun _ => rfl⟩
    rcases hk with hk | hk
    · exact Or.inl hk
    · exact Or.inr hk

theorem inv_rebind {w : World} {sid : Nat} (h : Inv w.s) (multi : Bool) (phases : List Char)
    (phSel : Option Char) (th : Nat) (contents : List (List Rat)) :
    Inv (w.rebind sid multi phases phSel th contents).s := by
  have h1 := inv_allocData h (List.range' w.s.nrows contents.length)
  have h2 := inv_bindNew (z := w.s.allocData (List.range' w.s.nrows contents.length)) (sid := sid)
    (nix := { multi := multi, data := w.s.ndatas,
              ph := (match phSel with | some _ => w.s.nphs | none => (w.stream sid).ph),
              phases := phases, th := th,
              locked := (match phSel with | some _ => false | none => (w.stream sid).locked) })
    h1 (fun i hi _ => ⟨hi, rfl⟩) rfl rfl rfl rfl rfl rfl (Nat.lt_succ_self _)
  exact inv_of_eq h2 rfl rfl rfl rfl rfl rfl rfl rfl

theorem rebind_nstreams (w : World) (sid : Nat) (multi : Bool) (phases : List Char)
    (phSel : Option Char) (th : Nat) (contents : List (List Rat)) :
    (w.rebind sid multi phases phSel th contents).s.nstreams = w.s.nstreams := rfl

theorem inv_newStream {w : World} (h : Inv w.s) (multi : Bool) (phases : List Char) (ph : Char) (th : Nat)
    (T P : Rat) (contents : List (List Rat)) :
    Inv (w.newStream multi phases ph th T P contents).1.s := by
  have h1 := inv_allocData h (List.range' w.s.nrows contents.length)
  let z : Struct := { w.s with nstreams := w.s.nstreams + 1,
                               streams := upd w.s.streams w.s.nstreams { tc := w.s.ntcs }, ntcs := w.s.ntcs + 1 }
  have h2 := inv_bindNew (z0 := w.s.allocData (List.range' w.s.nrows contents.length))
    (z := z.allocData (List.range' w.s.nrows contents.length)) (sid := w.s.nstreams)
    (nix := { multi := multi, data := w.s.ndatas, ph := w.s.nphs, phases := phases, th := th, locked := false })
    h1 (by
      intro i hi hne
      have hi' : i < w.s.nstreams + 1 := hi
      refine ⟨by show i < w.s.nstreams; omega, ?_⟩
      show upd w.s.streams w.s.nstreams _ i = w.s.streams i
      exact upd_ne _ _ hne) rfl rfl rfl rfl rfl rfl (Nat.lt_succ_self _)
  exact inv_of_eq h2 rfl rfl rfl rfl rfl rfl rfl rfl

theorem newStream_nstreams (w : World) (multi : Bool) (phases : List Char) (ph : Char) (th : Nat)
    (T P : Rat) (contents : List (List Rat)) :
    (w.newStream multi phases ph th T P contents).1.s.nstreams = w.s.nstreams + 1 := rfl

theorem inv_attach {w : World} (h : Inv w.s) (v r : Nat) (c : Char) (th : Nat) : Inv (w.attach v r c th).s := by
  have h1 := inv_allocData h [r]
  have h2 := inv_bindNew (z := w.s.allocData [r]) (sid := v)
    (nix := { multi := false, data := w.s.ndatas, ph := w.s.nphs, phases := [], th := th, locked := true })
    h1 (fun i hi _ => ⟨hi, rfl⟩) rfl rfl rfl rfl rfl rfl (Nat.lt_succ_self _)
  exact inv_of_eq h2 rfl rfl rfl rfl rfl rfl rfl rfl

theorem attach_nstreams (w : World) (v r : Nat) (c : Char) (th : Nat) :
    (w.attach v r c th).s.nstreams = w.s.nstreams := rfl

/-- `proxy()`: one more holder of an existing indexer object -/
theorem inv_proxy {w : World} {sid : Nat} (h : Inv w.s) (hs : sid < w.s.nstreams) : Inv (w.proxy sid).1.s := by
  refine inv_meta h ?_ rfl rfl rfl rfl rfl rfl
  intro i hi
  have hi' : i < w.s.nstreams + 1 := hi
  by_cases e : i = w.s.nstreams
  · exact ⟨sid, hs, by simp [World.proxy, upd, e]⟩
  · exact ⟨i, by omega, by simp [World.proxy, upd, e]⟩

theorem inv_flowProxy {w : World} {sid : Nat} (h : Inv w.s) (hs : sid < w.s.nstreams) :
    Inv (w.flowProxy sid).1.s := by
  let z : Struct := { w.s with nstreams := w.s.nstreams + 1, streams := upd w.s.streams w.s.nstreams { tc := w.s.ntcs },
                               ntcs := w.s.ntcs + 1 }
  have h2 := inv_bindNew (z0 := w.s) (z := z) (sid := w.s.nstreams)
    (nix := { multi := (w.stream sid).multi, data := (w.stream sid).data, ph := w.s.nphs,
              phases := (w.stream sid).phases, th := (w.stream sid).th, locked := false })
    h (by
      intro i hi hne
      have hi' : i < w.s.nstreams + 1 := hi
      refine ⟨by omega, ?_⟩
      show upd w.s.streams w.s.nstreams _ i = w.s.streams i
      exact upd_ne _ _ hne) rfl rfl rfl rfl rfl rfl (h.bdata sid hs)
  exact inv_of_eq h2 rfl rfl rfl rfl rfl rfl rfl rfl

/-- the indexer object of stream `sid` (hence of all its holders) gets a brand-new `_data_cache`, and possibly another
existing data object / phase container -/
theorem inv_refreshIx {w : World} {sid : Nat} (h : Inv w.s) (hs : sid < w.s.nstreams) (f : Stream → Stream)
    (hd : (f (w.s.ixOf sid)).data < w.s.ndatas) (streams' : Nat → SRef)
    (hst : ∀ i, (streams' i).ix = (w.s.streams i).ix) :
    Inv { w.s with ncaches := w.s.ncaches + 1, caches := upd w.s.caches w.s.ncaches [],
                   ixs := upd w.s.ixs (w.s.streams sid).ix { f (w.s.ixOf sid) with cache := w.s.ncaches },
                   streams := streams' } := by
  refine inv_fresh (fun i => (w.s.streams i).ix = (w.s.streams sid).ix) h ?_ ?_ ?_ ?_ ?_ rfl ?_ ?_ (Nat.le_refl _) ?_
  · intro i hi; show (streams' i).ix < w.s.nixs; rw [hst]; exact h.bix i hi
  · intro i hi e
    refine ⟨hi, ?_⟩
    simp only [Struct.ixOf, hst, upd, e, if_false]
  · intro i e
    simp only [Struct.ixOf, hst, upd, e, if_true]
  · intro i e
    simp only [Struct.ixOf, hst, upd, e, if_true]
    exact hd
  · intro i j ei ej
    simp only [Struct.ixOf, hst, upd, ei, ej, if_true]
    exact Same.refl _
  · intro c hc; exact upd_ne _ _ (Nat.ne_of_lt hc)
  · exact upd_same _ _ _
  · intro d _; rfl

theorem inv_linkShare {w : World} {sid oid : Nat} {phase : Bool} (h : Inv w.s) (ho : oid < w.s.nstreams)
    (hm : (w.s.ixOf sid).multi = (w.s.ixOf oid).multi)
    (hth : (w.s.ixOf sid).th = (w.s.ixOf oid).th)
    (hphs : (w.s.ixOf sid).multi = true → (w.s.ixOf sid).phases = (w.s.ixOf oid).phases)
    (hph : phase = true ∨ (w.s.ixOf sid).multi = true) : Inv (w.linkShare sid oid phase).s := by
  have hixeq : ∀ i, ((w.linkShare sid oid phase).s.streams i).ix = (w.s.streams i).ix := by
    intro i; simp only [World.linkShare, upd]; split <;> simp_all
  have hrec : ∀ i, (w.s.streams i).ix = (w.s.streams sid).ix →
      (w.linkShare sid oid phase).s.ixOf i = (w.linkShare sid oid phase).s.ixs (w.s.streams sid).ix := by
    intro i e
    simp only [Struct.ixOf, hixeq, e]
  have hcache : ((w.linkShare sid oid phase).s.ixs (w.s.streams sid).ix).cache = (w.s.ixOf oid).cache := by
    simp [World.linkShare, Struct.ixOf, upd]
  have hdata : ((w.linkShare sid oid phase).s.ixs (w.s.streams sid).ix).data = (w.s.ixOf oid).data := by
    simp [World.linkShare, Struct.ixOf, upd]
  have hth' : ((w.linkShare sid oid phase).s.ixs (w.s.streams sid).ix).th = (w.s.ixOf sid).th := by
    simp [World.linkShare, Struct.ixOf, upd]
  have hmu : ((w.linkShare sid oid phase).s.ixs (w.s.streams sid).ix).multi = (w.s.ixOf sid).multi := by
    simp [World.linkShare, Struct.ixOf, upd]
  have hphs' : ((w.linkShare sid oid phase).s.ixs (w.s.streams sid).ix).phases = (w.s.ixOf sid).phases := by
    simp [World.linkShare, Struct.ixOf, upd]
  have hph' : ((w.linkShare sid oid phase).s.ixs (w.s.streams sid).ix).ph =
      if (phase && !(w.s.ixOf sid).multi) = true then (w.s.ixOf oid).ph else (w.s.ixOf sid).ph := by
    simp [World.linkShare, Struct.ixOf, upd]
  refine inv_share (fun i => (w.s.streams i).ix = (w.s.streams sid).ix) (oid := oid) h ho rfl ?_ ?_ ?_ ?_ rfl rfl rfl rfl
  · intro i hi; rw [hixeq]; exact h.bix i hi
  · intro i e
    simp only [Struct.ixOf, hixeq]
    simp only [World.linkShare]
    exact upd_ne _ _ e
  · intro i e; rw [hrec i e, hcache]
  · intro i e
    rw [hrec i e]
    refine ⟨hdata, hth'.trans hth, ?_, ?_⟩
    · simp only [Stream.viewPhases, hmu, hphs']
      cases hmo : (w.s.ixOf oid).multi
      · simp [hm, hmo]
      · simp [hm, hmo]; exact hphs (hm.trans hmo)
    · simp only [Stream.viewPc, hmu, hph']
      cases hmo : (w.s.ixOf oid).multi
      · have hs : (w.s.ixOf sid).multi = false := hm.trans hmo
        rw [hs] at hph
        cases hph with
        | inl hp => simp [hp, hs]
        | inr hp => cases hp
      · simp [hm, hmo]

theorem inv_linkPlain {w : World} {sid oid : Nat} {flow phase tp : Bool} (h : Inv w.s) (hs : sid < w.s.nstreams)
    (ho : oid < w.s.nstreams) : Inv (w.linkPlain true sid oid flow phase tp).s := by
  simp only [World.linkPlain, if_true]
  refine inv_refreshIx h hs (fun s => { s with
      data := if flow then (w.s.ixOf oid).data else s.data,
      ph := if phase && !s.multi then (w.s.ixOf oid).ph else s.ph,
      locked := if phase && !s.multi then (w.s.ixOf oid).locked else s.locked }) ?_ _ ?_
  · simp only
    split
    · exact h.bdata oid ho
    · exact h.bdata sid hs
  · intro i; simp only [upd]; split <;> simp_all

theorem linkPlain_nstreams (w : World) (sid oid : Nat) (flow phase tp : Bool) :
    (w.linkPlain true sid oid flow phase tp).s.nstreams = w.s.nstreams := by
  simp [World.linkPlain]

theorem inv_reattachStep {w : World} (h : Inv w.s) (sid : Nat) (b1 b2 : Bool) (cv : Char × Nat) :
    Inv (World.reattachStep sid b1 b2 w cv).s ∧ (World.reattachStep sid b1 b2 w cv).s.nstreams = w.s.nstreams := by
  simp only [World.reattachStep]
  have h1 : Inv (if b1 = true then (match w.rowFor sid cv.1 with
        | some r => w.attach cv.2 r cv.1 (w.stream sid).th | none => w) else w).s ∧
      (if b1 = true then (match w.rowFor sid cv.1 with
        | some r => w.attach cv.2 r cv.1 (w.stream sid).th | none => w) else w).s.nstreams = w.s.nstreams := by
    split
    · split
      · exact ⟨inv_attach h _ _ _ _, rfl⟩
      · exact ⟨h, rfl⟩
    · exact ⟨h, rfl⟩
  split
  · exact ⟨inv_setTc h1.1 _ _, h1.2⟩
  · exact h1

theorem inv_foldReattach (sid : Nat) (b1 b2 : Bool) (l : List (Char × Nat)) {w : World} (h : Inv w.s) :
    Inv (l.foldl (World.reattachStep sid b1 b2) w).s ∧
    (l.foldl (World.reattachStep sid b1 b2) w).s.nstreams = w.s.nstreams := by
  induction l generalizing w with
  | nil => exact ⟨h, rfl⟩
  | cons a t ih =>
    have h1 := inv_reattachStep h sid b1 b2 a
    have h2 := ih h1.1
    exact ⟨h2.1, h2.2.trans h1.2⟩

theorem inv_reattach {w : World} (h : Inv w.s) (sid : Nat) (b1 b2 : Bool) :
    Inv (w.reattach sid b1 b2).s ∧ (w.reattach sid b1 b2).s.nstreams = w.s.nstreams :=
  inv_foldReattach sid b1 b2 _ h

theorem inv_link {w w' : World} {sid oid : Nat} {flow phase tp : Bool} (h : Inv w.s)
    (hs : sid < w.s.nstreams) (ho : oid < w.s.nstreams) (hl : w.link sid oid flow phase tp = .ok w') :
    Inv w'.s ∧ w'.s.nstreams = w.s.nstreams := by
  simp only [World.link, World.linkWith, World.stream] at hl
  by_cases hmulti : (w.s.ixOf sid).multi = (w.s.ixOf oid).multi
  · simp only [hmulti, ne_eq, not_true_eq_false, if_false] at hl
    split at hl
    · cases hl
    · rename_i hpre
      have h1 : Inv (if (tp && flow && (phase || (w.s.ixOf oid).multi)) = true then w.linkShare sid oid phase
            else w.linkPlain true sid oid flow phase tp).s ∧
          (if (tp && flow && (phase || (w.s.ixOf oid).multi)) = true then w.linkShare sid oid phase
            else w.linkPlain true sid oid flow phase tp).s.nstreams = w.s.nstreams := by
        split
        · rename_i hshare
          simp only [Bool.and_eq_true, Bool.or_eq_true] at hshare
          obtain ⟨⟨htp, hflow⟩, hph⟩ := hshare
          subst hflow
          simp at hpre
          exact ⟨inv_linkShare h ho hmulti (Decidable.of_not_not (of_decide_eq_false hpre.1))
            (fun hm => Decidable.of_not_not (of_decide_eq_false (hpre.2 (hmulti ▸ hm)))) (by rw [hmulti]; exact hph), rfl⟩
        · exact ⟨inv_linkPlain h hs ho, linkPlain_nstreams _ _ _ _ _ _⟩
      cases hl
      split
      · have := inv_reattach h1.1 sid flow true
        exact ⟨this.1, this.2.trans h1.2⟩
      · exact h1
  · simp [hmulti] at hl

theorem not_dataShared {w : World} {sid : Nat} (h : w.dataShared sid = false) :
    ∀ j, j < w.s.nstreams → ¬ (w.s.streams j).ix = (w.s.streams sid).ix →
      (w.s.ixOf j).data ≠ (w.s.ixOf sid).data := by
  intro j hj hne heq
  simp only [World.dataShared, List.any_eq_false, List.mem_range] at h
  have := h j hj
  simp [hne, heq] at this

theorem inv_expandPhases {w w' : World} {sid : Nat} {others : List Char} (h : Inv w.s)
    (hs : sid < w.s.nstreams) (he : World.expandPhases true w sid others = .ok w') :
    Inv w'.s ∧ w'.s.nstreams = w.s.nstreams := by
  simp only [World.expandPhases] at he
  split at he
  · cases he; exact ⟨h, rfl⟩
  · split at he
    · cases he
    · rename_i hsh
      cases he
      refine ⟨?_, rfl⟩
      have hun := not_dataShared (by simpa using hsh)
      refine inv_expand (fun i => (w.s.streams i).ix = (w.s.streams sid).ix) (sid := sid) h hs hun rfl ?_ ?_ ?_ ?_ ?_
        rfl rfl ?_ ?_ ?_
      · intro i hi; exact h.bix i hi
      · intro i e; simp only [World.clearCache, Struct.ixOf, if_true]; exact upd_ne _ _ e
      · intro i e; simp [World.clearCache, Struct.ixOf, upd, e]
      · intro i e; simp [World.clearCache, Struct.ixOf, upd, e, World.stream]
      · intro i j ei ej; simp only [World.clearCache, Struct.ixOf, if_true, upd, ei, ej]; exact Same.refl _
      · intro c hc
        simp only [World.clearCache, Struct.ixOf, upd_same, upd, if_true]
        rw [if_neg]; exact hc
      · simp [World.clearCache, Struct.ixOf, upd]
      · intro d hd; simp [World.clearCache, upd, hd, World.stream]

theorem inv_phaseView {w w' : World} {sid v : Nat} {c : Char} (h : Inv w.s)
    (he : w.phaseView sid c = .ok (w', v)) : Inv w'.s := by
  simp only [World.phaseView] at he
  split at he
  · cases he
  · split at he
    · cases he; exact h
    · split at he
      · cases he
      · rename_i r hr
        cases he
        apply inv_setViews
        have h1 := inv_allocData h [r]
        let z : Struct := { w.s with nstreams := w.s.nstreams + 1,
                                     streams := upd w.s.streams w.s.nstreams { tc := (w.s.streams sid).tc } }
        have h2 := inv_bindNew (z0 := w.s.allocData [r]) (z := z.allocData [r]) (sid := w.s.nstreams)
          (nix := { multi := false, data := w.s.ndatas, ph := w.s.nphs, phases := [], th := (w.stream sid).th,
                    locked := true })
          h1 (by
            intro i hi hne
            have hi' : i < w.s.nstreams + 1 := hi
            refine ⟨by show i < w.s.nstreams; omega, ?_⟩
            show upd w.s.streams w.s.nstreams _ i = w.s.streams i
            exact upd_ne _ _ hne) rfl rfl rfl rfl rfl rfl (Nat.lt_succ_self _)
        exact inv_of_eq h2 rfl rfl rfl rfl rfl rfl rfl rfl

theorem inv_unlink {w : World} {sid : Nat} (h : Inv w.s) : Inv (w.unlink sid).s := by
  simp only [World.unlink, World.unlinkWith, if_true]
  apply (inv_reattach _ sid true true).1
  have h1 := inv_rebind (sid := sid) h (w.stream sid).multi (w.stream sid).phases
    (if (w.stream sid).multi then none else some (w.c.phs (w.stream sid).ph)) (w.stream sid).th (w.readMol sid)
  refine inv_meta h1 ?_ rfl rfl rfl rfl rfl rfl
  intro i hi
  refine ⟨i, hi, ?_⟩
  simp only [upd]
  split <;> simp_all

theorem reattachStep_nstreams (sid : Nat) (b1 b2 : Bool) (w : World) (cv : Char × Nat) :
    (World.reattachStep sid b1 b2 w cv).s.nstreams = w.s.nstreams := by
  simp only [World.reattachStep]
  split <;> split <;> (try split) <;> rfl

theorem foldReattach_nstreams (sid : Nat) (b1 b2 : Bool) (l : List (Char × Nat)) (w : World) :
    (l.foldl (World.reattachStep sid b1 b2) w).s.nstreams = w.s.nstreams := by
  induction l generalizing w with
  | nil => rfl
  | cons a t ih => exact (ih _).trans (reattachStep_nstreams sid b1 b2 w a)

theorem unlink_nstreams (w : World) (sid : Nat) : (w.unlink sid).s.nstreams = w.s.nstreams := by
  simp only [World.unlink, World.unlinkWith, if_true, World.reattach]
  rw [foldReattach_nstreams]; rfl

/-! ### every operation preserves `Inv` -/

theorem inv_setPhase {w w' : World} {sid : Nat} {c : Char} {R : Mat} (h : Inv w.s)
    (he : w.setPhase sid c R = .ok w') : Inv w'.s ∧ w'.s.nstreams = w.s.nstreams := by
  simp only [World.setPhase] at he
  split at he
  · split at he
    · cases he
    · cases he; exact ⟨inv_setViews (inv_rebind h _ _ _ _ _) _ _, rfl⟩
  · cases he; exact ⟨h, rfl⟩

theorem inv_setPhases {w w' : World} {sid : Nat} {ps : List Char} {R : Mat} (h : Inv w.s)
    (he : w.setPhases sid ps R = .ok w') : Inv w'.s ∧ w'.s.nstreams = w.s.nstreams := by
  simp only [World.setPhases] at he
  split at he
  · cases he
  · exact inv_setPhase h he
  · split at he
    · split at he
      · cases he; exact ⟨h, rfl⟩
      · split at he
        · cases he
        · split at he
          · cases he
          · cases he
            have h1 := inv_setViews (inv_rebind (sid := sid) h true (phaseTuple ps) none (w.stream sid).th
              (refile (w.MW (w.stream sid).th).length (w.stream sid).phases (w.readMol sid) (phaseTuple ps))) sid
              ((w.views sid).filter (fun cv => fileable (phaseTuple ps) cv.1))
            have h2 := inv_reattach h1 sid true false
            exact ⟨h2.1, h2.2⟩
    · split at he
      · cases he
      · split at he
        · cases he
        · cases he; exact ⟨inv_setViews (inv_rebind h _ _ _ _ _) _ _, rfl⟩

theorem inv_resetThermo {w w' : World} {sid k : Nat} {R : Mat} (h : Inv w.s)
    (he : w.resetThermo sid k R = .ok w') : Inv w'.s ∧ w'.s.nstreams = w.s.nstreams := by
  simp only [World.resetThermo] at he
  split at he
  · cases he; exact ⟨h, rfl⟩
  · split at he
    · cases he
    · split at he
      · cases he
      · cases he
        have h2 := inv_reattach (inv_rebind (sid := sid) h (w.stream sid).multi (w.stream sid).phases none k R) sid true false
        exact ⟨h2.1, h2.2⟩

theorem inv_copyLike {w w' : World} {sid oid : Nat} {R : Mat} (h : Inv w.s) (hs : sid < w.s.nstreams)
    (he : w.copyLike sid oid R = .ok w') : Inv w'.s ∧ w'.s.nstreams = w.s.nstreams := by
  simp only [World.copyLike, World.copyLikeWith] at he
  split at he
  · cases he; exact ⟨h, rfl⟩
  · split at he
    · -- single ← single
      split at he
      · cases he
      · cases he; exact ⟨h, rfl⟩
    · -- single ← multi
      split at he
      · cases he
      · split at he
        · cases he
        · cases he; exact ⟨h, rfl⟩
      · split at he
        · cases he
        · cases he
          exact ⟨inv_setViews (inv_rebind (sid := sid) h true (w.stream oid).phases none (w.stream sid).th R) _ _, rfl⟩
    · -- multi ← single
      split at he
      · cases he
      · rename_i w1 hw1
        have h1 : Inv w1.s ∧ w1.s.nstreams = w.s.nstreams := by
          split at hw1
          · cases hw1; exact ⟨h, rfl⟩
          · exact inv_expandPhases h hs hw1
        split at he
        · cases he
        · cases he; exact h1
    · -- multi ← multi
      split at he
      · cases he
      · rename_i w1 hw1
        have h1 : Inv w1.s ∧ w1.s.nstreams = w.s.nstreams := by
          split at hw1
          · cases hw1; exact ⟨h, rfl⟩
          · exact inv_expandPhases h hs hw1
        split at he
        · cases he
        · cases he; exact h1

theorem sync_s {w w' : World} {sid : Nat} {T P : Rat} {ph : Option Char} {R : Mat}
    (he : w.sync sid T P ph R = .ok w') : w'.s = w.s := by
  simp only [World.sync] at he
  split at he
  · cases he
  · cases he; rfl

theorem inv_mixInto {w w' : World} {sid : Nat} {others : List Char} {P : Rat} {R : Mat} (h : Inv w.s)
    (hs : sid < w.s.nstreams) (he : w.mixInto sid others P R = .ok w') :
    Inv w'.s ∧ w'.s.nstreams = w.s.nstreams := by
  simp only [World.mixInto] at he
  split at he
  · cases he
  · split at he
    · cases he
    · rename_i w1 hw1
      have h1 : Inv w1.s ∧ w1.s.nstreams = w.s.nstreams := by
        split at hw1
        · cases hw1; exact ⟨h, rfl⟩
        · exact inv_expandPhases h hs hw1
      split at he
      · cases he
      · cases he; exact h1

theorem inv_getElem {w w' : World} {sid : Nat} {d : Dim} {ph : Option Char} {i : Nat} {V : Mat}
    {vid : Option Nat} {x : Rat} (h : Inv w.s) (hs : sid < w.s.nstreams)
    (he : w.getElem sid d ph i V = .ok (w', vid, x)) : Inv w'.s ∧ w'.s.nstreams = w.s.nstreams := by
  simp only [World.getElem] at he
  split at he
  · cases he
  · split at he
    · cases he
    · split at he
      · split at he
        · cases he
        · cases he; exact ⟨h, rfl⟩
      · simp only [World.massView] at he
        split at he
        · cases he
        · cases he
          exact ⟨inv_getView h hs (Or.inl rfl), (getView_streams w sid _).2.1⟩
      · simp only [World.volView] at he
        split at he
        · cases he
        · cases he
          exact ⟨inv_getView h hs (Or.inr rfl), (getView_streams w sid _).2.1⟩
      · cases he

theorem inv_putElem {w w' : World} {sid : Nat} {d : Dim} {ph : Option Char} {i : Nat} {x : Rat} {V : Mat}
    {vid : Option Nat} (h : Inv w.s) (hs : sid < w.s.nstreams)
    (he : w.putElem sid d ph i x V = .ok (w', vid)) : Inv w'.s ∧ w'.s.nstreams = w.s.nstreams := by
  simp only [World.putElem] at he
  split at he
  · cases he
  · split at he
    · cases he
    · split at he
      · split at he
        · cases he
        · cases he; exact ⟨h, rfl⟩
      · simp only [World.massView] at he
        split at he
        · cases he
        · cases he
          exact ⟨inv_getView h hs (Or.inl rfl), (getView_streams w sid _).2.1⟩
      · simp only [World.volView] at he
        split at he
        · cases he
        · cases he
          exact ⟨inv_getView h hs (Or.inr rfl), (getView_streams w sid _).2.1⟩
      · cases he

theorem inv_putRow {w w' : World} {sid : Nat} {d : Dim} {ph : Option Char} {xs : List Rat} {V : Mat}
    {vid : Option Nat} (h : Inv w.s) (hs : sid < w.s.nstreams)
    (he : w.putRow sid d ph xs V = .ok (w', vid)) : Inv w'.s ∧ w'.s.nstreams = w.s.nstreams := by
  simp only [World.putRow] at he
  split at he
  · cases he
  · split at he
    · cases he
    · split at he
      · split at he
        · cases he
        · cases he; exact ⟨h, rfl⟩
      · simp only [World.massView] at he
        split at he
        · cases he
        · cases he
          exact ⟨inv_getView h hs (Or.inl rfl), (getView_streams w sid _).2.1⟩
      · simp only [World.volView] at he
        split at he
        · cases he
        · cases he
          exact ⟨inv_getView h hs (Or.inr rfl), (getView_streams w sid _).2.1⟩
      · cases he

theorem inv_setF {w w' : World} {sid : Nat} {d : Dim} {x : Rat} {V : Mat}
    (he : w.setF sid d x V = .ok w') : w'.s = w.s := by
  simp only [World.setF] at he
  split at he
  · split at he
    · cases he; rfl
    · split at he
      · cases he
      · cases he; rfl
  · cases he
  · split at he
    · cases he
    · cases he; rfl

theorem inv_readAgg {w w' : World} {sid : Nat} {d : Dim} {V : Mat} {vid : Option Nat} {r : List Rat}
    (h : Inv w.s) (hs : sid < w.s.nstreams) (he : w.readAgg sid d V = .ok (w', vid, r)) : Inv w'.s := by
  simp only [World.readAgg] at he
  split at he
  · cases he; exact h
  · split at he
    · cases he; exact h
    · cases he; exact inv_getView h hs (Or.inl rfl)
  · cases he; exact inv_getView h hs (Or.inr rfl)
  · cases he

theorem inv_getFlowAll {w w' : World} {sid : Nat} {u : String} {V : Mat} {vid : Option Nat} {r : List Rat}
    (h : Inv w.s) (hs : sid < w.s.nstreams) (he : w.getFlowAll sid u V = .ok (w', vid, r)) : Inv w'.s := by
  simp only [World.getFlowAll] at he
  split at he
  · cases he
  · split at he
    · cases he; exact h
    · cases he; exact inv_getView h hs (Or.inl rfl)
    · cases he; exact inv_getView h hs (Or.inr rfl)
    · cases he

theorem exec_inv {w w' : World} {op : Op} {out : Out} (h : Inv w.s) (he : w.exec op = .ok (w', out)) :
    Inv w'.s := by
  unfold World.exec at he
  split at he
  · cases he
  · rename_i hg
    split at he
    · cases he
    have hsid : ∀ s ∈ op.sids, s < w.s.nstreams := by
      intro s hs
      simp only [List.any_eq_true, not_exists, not_and, decide_eq_true_eq, Nat.not_le] at hg
      exact hg s hs
    cases op with
    | new1 th ph T P flows =>
      simp only at he
      split at he
      · cases he
      · cases he; exact inv_newStream h _ _ _ _ _ _ _
    | newm th phases T P rows =>
      simp only at he
      split at he
      · cases he
      · split at he
        · cases he
        · split at he
          · cases he
          · cases he; exact inv_newStream h _ _ _ _ _ _ _
    | setT s x => cases he; exact h
    | setP s x => cases he; exact h
    | setPhase s c R =>
      simp only [Except.bind, okShape] at he
      split at he
      · cases he
      · rename_i w1 hw1; cases he; exact (inv_setPhase h hw1).1
    | setPhases s ps R =>
      simp only [Except.bind, okShape] at he
      split at he
      · cases he
      · rename_i w1 hw1; cases he; exact (inv_setPhases h hw1).1
    | link s o f p t =>
      simp only [Except.map] at he
      split at he
      · cases he
      · rename_i w1 hw1; cases he
        exact (inv_link h (hsid s (by simp [Op.sids])) (hsid o (by simp [Op.sids])) hw1).1
    | unlink s => cases he; exact inv_unlink h
    | copyLike s o R =>
      simp only [Except.bind, okShape] at he
      split at he
      · cases he
      · rename_i w1 hw1; cases he; exact (inv_copyLike h (hsid s (by simp [Op.sids])) hw1).1
    | thermo s k R =>
      simp only [Except.bind, okShape] at he
      split at he
      · cases he
      · rename_i w1 hw1; cases he; exact (inv_resetThermo h hw1).1
    | sync s T P ph R =>
      simp only [Except.bind, okShape] at he
      split at he
      · cases he
      · rename_i w1 hw1; cases he; rw [sync_s hw1]; exact h
    | mixInto s others P R =>
      simp only [Except.bind, okShape] at he
      split at he
      · cases he
      · rename_i w1 hw1; cases he; exact (inv_mixInto h (hsid s (by simp [Op.sids])) hw1).1
    | view s c =>
      simp only [Except.map] at he
      split at he
      · cases he
      · rename_i r hr
        obtain ⟨w1, v⟩ := r
        cases he
        exact inv_phaseView h hr
    | proxy s => cases he; exact inv_proxy h (hsid s (by simp [Op.sids]))
    | flowProxy s => cases he; exact inv_flowProxy h (hsid s (by simp [Op.sids]))
    | copy s k R =>
      simp only [Except.map, World.copyStream] at he
      split at he
      · cases he
      · rename_i r hr
        obtain ⟨w1, v⟩ := r
        cases he
        split at hr
        · cases hr; exact inv_newStream h _ _ _ _ _ _ _
        · split at hr
          · cases hr
          · split at hr
            · cases hr
            · cases hr; exact inv_newStream h _ _ _ _ _ _ _
    | readMol s => cases he; exact h
    | readMass s =>
      cases he
      exact inv_getView h (hsid s (by simp [Op.sids])) (Or.inl rfl)
    | readVol s V =>
      cases he
      exact inv_getView h (hsid s (by simp [Op.sids])) (Or.inr rfl)
    | readF s d V =>
      simp only at he
      split at he
      · cases he
      · cases he; exact h
    | writeF s d x V =>
      simp only [Except.map] at he
      split at he
      · cases he
      · rename_i w1 hw1; cases he; rw [inv_setF hw1]; exact h
    | get s d ph i V =>
      simp only [Except.map] at he
      split at he
      · cases he
      · rename_i r hr
        obtain ⟨w1, vid, x⟩ := r
        cases he
        exact (inv_getElem h (hsid s (by simp [Op.sids])) hr).1
    | put s d ph i x V =>
      simp only [Except.map] at he
      split at he
      · cases he
      · rename_i r hr
        obtain ⟨w1, vid⟩ := r
        cases he
        exact (inv_putElem h (hsid s (by simp [Op.sids])) hr).1
    | putRow s d ph xs V =>
      simp only [Except.map] at he
      split at he
      · cases he
      · rename_i r hr
        obtain ⟨w1, vid⟩ := r
        cases he
        exact (inv_putRow h (hsid s (by simp [Op.sids])) hr).1
    | getFlow s u ph i V =>
      simp only [Except.map, World.getFlow] at he
      split at he
      · cases he
      · rename_i r hr
        obtain ⟨w1, vid, x⟩ := r
        cases he
        split at hr
        · cases hr
        · split at hr
          · cases hr
          · rename_i w2 vid2 x2 hg2
            cases hr
            exact (inv_getElem h (hsid s (by simp [Op.sids])) hg2).1
    | setFlow s u ph i x V =>
      simp only [Except.map, World.setFlow] at he
      split at he
      · cases he
      · rename_i r hr
        obtain ⟨w1, vid⟩ := r
        cases he
        split at hr
        · cases hr
        · exact (inv_putElem h (hsid s (by simp [Op.sids])) hr).1
    | getTotal s u V =>
      simp only [Except.map] at he
      split at he
      · cases he
      · cases he; exact h
    | setTotal s u x V =>
      simp only [Except.map, World.setTotal] at he
      split at he
      · cases he
      · rename_i w1 hw1
        cases he
        split at hw1
        · cases hw1
        · rw [inv_setF hw1]; exact h
    | getData s d u ph i V =>
      simp only [Except.map, World.getData] at he
      split at he
      · cases he
      · rename_i r hr
        obtain ⟨w1, vid, x⟩ := r
        cases he
        split at hr
        · cases hr
        · split at hr
          · cases hr
          · rename_i w2 vid2 x2 hg2
            cases hr
            exact (inv_getElem h (hsid s (by simp [Op.sids])) hg2).1
    | setData s d u ph i x V =>
      simp only [Except.map, World.setData] at he
      split at he
      · cases he
      · rename_i r hr
        obtain ⟨w1, vid⟩ := r
        cases he
        split at hr
        · cases hr
        · exact (inv_putElem h (hsid s (by simp [Op.sids])) hr).1
    | getProp s d u V =>
      simp only [Except.map] at he
      split at he
      · cases he
      · cases he; exact h
    | setProp s d u x V =>
      simp only [Except.map, World.setProp] at he
      split at he
      · cases he
      · rename_i w1 hw1
        cases he
        split at hw1
        · cases hw1
        · rw [inv_setF hw1]; exact h
    | unitFor d u =>
      simp only [Except.map] at he
      split at he
      · cases he
      · cases he; exact h
    | scale s q => cases he; exact h
    | empty s => cases he; exact h
    | removeNegatives s => cases he; exact h
    | readAgg s d V =>
      simp only [Except.map] at he
      split at he
      · cases he
      · rename_i r hr
        obtain ⟨w1, vid, x⟩ := r
        cases he
        exact (inv_readAgg h (hsid s (by simp [Op.sids])) hr)
    | getFlowAll s u V =>
      simp only [Except.map] at he
      split at he
      · cases he
      · rename_i r hr
        obtain ⟨w1, vid, x⟩ := r
        cases he
        exact (inv_getFlowAll h (hsid s (by simp [Op.sids])) hr)

theorem step_inv {w : World} (op : Op) (h : Inv w.s) : Inv (w.step op).s := by
  unfold World.step
  split
  · rename_i w1 out he; exact exec_inv h he
  · exact h

theorem run_inv {w : World} (ops : List Op) (h : Inv w.s) : Inv (w.run ops).s := by
  induction ops generalizing w with
  | nil => exact h
  | cons op t ih => exact ih (step_inv op h)


/-! # definitions, helper lemmas and proofs for Props/C11 -/


/-! ## the history-dependent part: cached views track the stream -/

/-- **view_tracks_rows.**  After *any* history of operations (reads and writes through the views, T / P / phase /
phases changes, `link_with` in all flag combinations, `unlink`, `copy_like` incl. `_expand_phases`, property-package
resets, in-place mixing / scaling / reactions, unit-of-measure calls), every view object held by the `_data_cache` of any stream wraps exactly the row
objects the stream's molar indexer currently holds, refers to the stream's current thermal-condition object and
phase container / phases, captured the stream's current chemicals, and is filed under `'mass'` or under the
thermal-condition object it refers to — so the view a stream finds under its *current* thermal-condition object refers to
that object.  Streams are stream objects: originals, `proxy()`s (same indexer object), `flow_proxy()`s, and the phase
views `ms[phase]` (so the statement covers the mass / volumetric views *of* phase views). -/
theorem view_tracks_rows (w : World) (ops : List Op) (h : Inv w.s) (sid : Nat)
    (hs : sid < (w.run ops).s.nstreams) (key : Key) (v : View)
    (hv : (key, v) ∈ (w.run ops).s.caches ((w.run ops).stream sid).cache) :
    v.rows = (w.run ops).rowsOf sid ∧
    v.th = ((w.run ops).stream sid).th ∧ v.pc = ((w.run ops).stream sid).viewPc ∧
    v.phases = ((w.run ops).stream sid).viewPhases ∧
    (key = .mass ∨ key = .vol v.tc) ∧
    (key = .vol ((w.run ops).stream sid).tc → v.tc = ((w.run ops).stream sid).tc) := by
  have hg := (run_inv ops h).tracks sid hs (key, v) hv
  obtain ⟨g1, g2, g3, g4, g5⟩ := hg
  refine ⟨g1, g2, g4, g3, g5, ?_⟩
  intro hk
  subst hk
  exact (Good.tc_of_vol ⟨g1, g2, g3, g4, g5⟩)

/-- the invariant holds initially, whatever tables the adapter configured -/
theorem inv_start (thermos : List (List Rat)) (units : List UnitDef) :
    Inv ({ thermos := thermos, units := units } : World).s := inv_init

/-! ## mass view -/

/-- **mass_is_mol_MW.**  Reading `imass.data` gives, row by row and chemical by chemical, the molar flow the
stream currently holds times the molecular weight of the stream's current chemicals. -/
theorem mass_is_mol_MW {w : World} {sid : Nat} (h : Inv w.s) (hs : sid < w.s.nstreams) :
    (w.readMass sid).2.2 = (w.readMol sid).map (fun r => mulVec r (w.MW (w.stream sid).th)) := by
  have hg := (getView_good h hs (key := .mass) (Or.inl rfl)).1
  have hc := getView_content w sid .mass
  have hcfg := (getView_cfg w sid .mass).1
  obtain ⟨g1, g2, -⟩ := hg
  simp only [World.readMass, World.massView, World.readMol, World.rowsOf, World.MW, World.stream] at *
  rw [g1, g2, hc, hcfg, List.map_map]
  rfl

/-- **F_mass is the sum of the mass view.** -/
theorem Fmass_is_sum_of_mass_view {w : World} {sid : Nat} (h : Inv w.s) (hs : sid < w.s.nstreams) :
    w.Fmass sid = sumLL (w.readMass sid).2.2 := by
  rw [mass_is_mol_MW h hs]; rfl

/-- **F_mol is the sum of the molar data** (by definition of the model, recorded for completeness). -/
theorem Fmol_is_sum_of_mol (w : World) (sid : Nat) : w.Fmol sid = sumLL (w.readMol sid) := rfl

/-! ## volumetric view -/

/-- a molar-volume function of (chemicals, phase, T, P, chemical index): the parameter of the model -/
abbrev VFun := Nat → Char → Rat → Rat → Nat → Rat

/-- every molar volume held by the cache of some `VolumetricFlowDict` is the function's value at the key it is
stored under -/
def VValid (Vf : VFun) (c : Content) : Prop :=
  ∀ vid, ∀ e ∈ c.vcs vid, e.V = Vf e.th e.ph e.T e.P e.idx

/-- the phase of row position `k` of a stream -/
def streamPhase (w : World) (sid k : Nat) : Char :=
  if (w.stream sid).multi then (w.stream sid).phases.getD k 'l' else w.c.phs (w.stream sid).ph

/-- the molar volumes on the protocol line are the function's values at the stream's *current* chemicals, phase(s),
T and P (what the adapter evaluates freshly from the chemical objects) -/
def VLine (Vf : VFun) (w : World) (sid : Nat) (V : Mat) : Prop :=
  ∀ k r, (w.rowsOf sid)[k]? = some r → ∀ i,
    vAt V k i = Vf (w.stream sid).th (streamPhase w sid k)
      (w.c.tcs (w.stream sid).tc).1 (w.c.tcs (w.stream sid).tc).2 i

theorem viewPhase_eq {w : World} {sid : Nat} {v : View} {key : Key} (hg : Good w.s (w.stream sid) (key, v))
    (k : Nat) : w.viewPhase v k = streamPhase w sid k := by
  obtain ⟨-, -, g3, g4, -⟩ := hg
  simp only [World.viewPhase, streamPhase, Stream.viewPhases, Stream.viewPc] at *
  cases hm : (w.stream sid).multi <;> simp_all

/-- the molar volume a dictionary view uses — cached or fresh — is the function's value at the current key -/
theorem usedV_eq {Vf : VFun} {w : World} {sid : Nat} {v : View} {key : Key} (hv : VValid Vf w.c)
    (hg : Good w.s (w.stream sid) (key, v)) (htc : v.tc = (w.stream sid).tc) (k i : Nat) (vl : Rat)
    (hl : vl = Vf (w.stream sid).th (streamPhase w sid k)
            (w.c.tcs (w.stream sid).tc).1 (w.c.tcs (w.stream sid).tc).2 i) :
    w.usedV v k i vl = Vf (w.stream sid).th (streamPhase w sid k)
            (w.c.tcs (w.stream sid).tc).1 (w.c.tcs (w.stream sid).tc).2 i := by
  have hph := viewPhase_eq hg k
  obtain ⟨-, g2, -, -, -⟩ := hg
  have g5 := htc
  simp only at g2 g5
  simp only [World.usedV, pickV]
  split
  · rename_i e he
    split
    · rename_i hhit
      have hmem := List.mem_of_find?_eq_some he
      have hp := List.find?_some he
      simp only [VEntry.hit, Bool.and_eq_true, beq_iff_eq] at hhit hp
      obtain ⟨⟨⟨h1, h2⟩, h3⟩, h4⟩ := hhit
      rw [hv v.vid e hmem, h1, h2, h3, h4, hp.2, g2, g5, hph]
    · exact hl
  · exact hl

/-- **vol_is_mol_V.**  Reading `ivol.data` gives, row by row and chemical by chemical, the molar flow the stream
currently holds times the molar volume of that chemical at the stream's *current* phase (of that row), temperature and
pressure — whatever the history that led to the state. -/
theorem vol_is_mol_V {Vf : VFun} {w : World} {sid : Nat} {V : Mat} (h : Inv w.s) (hs : sid < w.s.nstreams)
    (hv : VValid Vf w.c) (hl : VLine Vf w sid V) :
    (w.readVol sid V).2.2 = (w.readMol sid).zipIdx.map (fun (r, k) => r.zipIdx.map (fun (x, i) =>
      x * Vf (w.stream sid).th (streamPhase w sid k) (w.c.tcs (w.stream sid).tc).1 (w.c.tcs (w.stream sid).tc).2 i)) := by
  have hg0 := getView_good h hs (key := .vol (w.stream sid).tc) (Or.inr rfl)
  have hc := getView_content w sid (.vol (w.stream sid).tc)
  have hst := getView_streams w sid (.vol (w.stream sid).tc)
  -- the same facts about the world after the view was fetched
  generalize hw1 : w.getView sid (.vol (w.stream sid).tc) = p at *
  obtain ⟨w1, v⟩ := p
  simp only at hg0 hc hst
  have hg : Good w.s (w.stream sid) (.vol (w.stream sid).tc, v) := hg0.1
  have htc : v.tc = (w.stream sid).tc := hg0.2 trivial
  have hstream : w1.stream sid = w.stream sid := by simp [World.stream, Struct.ixOf, hst.1, hst.2.2.2]
  have hg1 : Good w1.s (w1.stream sid) (.vol (w.stream sid).tc, v) := by
    rw [hstream]; obtain ⟨g1, g2⟩ := hg; exact ⟨by rw [g1, hst.2.2.1], g2⟩
  have htc1 : v.tc = (w1.stream sid).tc := by rw [hstream]; exact htc
  have hv1 : VValid Vf w1.c := by rw [hc]; exact hv
  have hrows : v.rows = w.rowsOf sid := hg.1
  simp only [World.readVol, World.volView, hw1, World.readMol]
  rw [hrows, List.zipIdx_map, List.map_map]
  apply List.map_congr_left
  rintro ⟨r, k⟩ hrk
  have hrk' := List.mem_zipIdx_iff_getElem?.mp hrk
  simp only at hrk'
  simp only [Function.comp, Prod.map, id]
  rw [hc]
  apply List.map_congr_left
  rintro ⟨x, i⟩ hxi
  have hxi' := List.mem_zipIdx_iff_getElem?.mp hxi
  simp only at hxi'
  have := usedV_eq hv1 hg1 htc1 k i (vAt V k i) (by
    have := hl k r hrk' i
    rw [hstream, hc]
    simpa [streamPhase, hstream, hc] using this)
  simp only
  rw [this, hstream, hc]
  simp [streamPhase, hstream, hc]

/-- **F_vol is the sum of the volumetric view** (F_vol is evaluated from the chemicals, the view through its cache). -/
theorem Fvol_is_sum_of_vol_view {Vf : VFun} {w : World} {sid : Nat} {V : Mat} (h : Inv w.s)
    (hs : sid < w.s.nstreams) (hv : VValid Vf w.c) (hl : VLine Vf w sid V) :
    w.Fvol sid V = sumLL (w.readVol sid V).2.2 := by
  rw [vol_is_mol_V h hs hv hl]
  simp only [World.Fvol]
  congr 1
  simp only [World.readMol]
  rw [List.zipIdx_map, List.map_map, List.map_map]
  apply List.map_congr_left
  rintro ⟨r, k⟩ hrk
  have hrk' := List.mem_zipIdx_iff_getElem?.mp hrk
  simp only at hrk'
  simp only [Function.comp, Prod.map, id]
  apply List.map_congr_left
  rintro ⟨x, i⟩ -
  simp only
  rw [hl k r hrk' i]

/-! ### the molar-volume caches stay valid along every history -/

theorem newEntry_valid {Vf : VFun} {w : World} {sid : Nat} {v : View} {key : Key}
    (hg : Good w.s (w.stream sid) (key, v)) (htc : v.tc = (w.stream sid).tc) (k i : Nat) (vl : Rat)
    (hl : vl = Vf (w.stream sid).th (streamPhase w sid k)
            (w.c.tcs (w.stream sid).tc).1 (w.c.tcs (w.stream sid).tc).2 i) :
    ∀ e ∈ w.newEntry v k i vl, e.V = Vf e.th e.ph e.T e.P e.idx := by
  have hph := viewPhase_eq hg k
  obtain ⟨-, g2, -, -, -⟩ := hg
  have g5 := htc
  simp only at g2 g5
  intro e he
  simp only [World.newEntry, pickNew] at he
  have key : ∀ e', e' ∈ [({ k := k, idx := i, th := v.th, T := (w.c.tcs v.tc).1, P := (w.c.tcs v.tc).2,
                            ph := w.viewPhase v k, V := vl } : VEntry)] →
      e'.V = Vf e'.th e'.ph e'.T e'.P e'.idx := by
    intro e' he'
    simp only [List.mem_singleton] at he'
    subst he'
    simp only
    rw [hl, g2, g5, hph]
  split at he
  · split at he
    · cases he
    · exact key e he
  · exact key e he

theorem addEntries_valid {Vf : VFun} {w : World} {v : View} {es : List VEntry} (hv : VValid Vf w.c)
    (he : ∀ e ∈ es, e.V = Vf e.th e.ph e.T e.P e.idx) : VValid Vf (w.addEntries v es).c := by
  intro vid e hmem
  simp only [World.addEntries, upd] at hmem
  split at hmem
  · rcases List.mem_append.mp hmem with h | h
    · exact he e h
    · rename_i hvid; subst hvid; exact hv _ e h
  · exact hv vid e hmem

theorem vvalid_of_vcs {Vf : VFun} {c c' : Content} (hv : VValid Vf c) (h : c'.vcs = c.vcs) : VValid Vf c' := by
  intro vid e he; rw [h] at he; exact hv vid e he

/-- what is known about the world right after `imass` / `ivol` handed out its view -/
theorem view_facts {Vf : VFun} {w : World} {sid : Nat} {key : Key} (h : Inv w.s) (hs : sid < w.s.nstreams)
    (hk : key = .mass ∨ key = .vol (w.stream sid).tc) (hv : VValid Vf w.c) :
    Good (w.getView sid key).1.s ((w.getView sid key).1.stream sid) (key, (w.getView sid key).2) ∧
    VValid Vf (w.getView sid key).1.c ∧ (w.getView sid key).1.c = w.c ∧
    (w.getView sid key).1.stream sid = w.stream sid ∧ (w.getView sid key).1.rowsOf sid = w.rowsOf sid ∧
    (w.getView sid key).2.rows = w.rowsOf sid ∧
    (key = .vol (w.stream sid).tc → (w.getView sid key).2.tc = ((w.getView sid key).1.stream sid).tc) := by
  have hg0 := getView_good h hs hk
  have hg : Good w.s (w.stream sid) (key, (w.getView sid key).2) := hg0.1
  have hc := getView_content w sid key
  have hst := getView_streams w sid key
  have hstream : (w.getView sid key).1.stream sid = w.stream sid := by
    simp [World.stream, Struct.ixOf, hst.1, hst.2.2.2]
  refine ⟨?_, by rw [hc]; exact hv, hc, hstream, by simp [World.rowsOf, hstream, hst.2.2.1], hg.1, ?_⟩
  · rw [hstream]; obtain ⟨g1, g2⟩ := hg; exact ⟨by rw [g1, hst.2.2.1], g2⟩
  · intro e; rw [hstream]; exact hg0.2 e

theorem volView_facts {Vf : VFun} {w : World} {sid : Nat} (h : Inv w.s) (hs : sid < w.s.nstreams)
    (hv : VValid Vf w.c) :
    Good (w.volView sid).1.s ((w.volView sid).1.stream sid) (.vol (w.stream sid).tc, (w.volView sid).2) ∧
    VValid Vf (w.volView sid).1.c ∧ (w.volView sid).1.c = w.c ∧
    (w.volView sid).1.stream sid = w.stream sid ∧ (w.volView sid).1.rowsOf sid = w.rowsOf sid ∧
    (w.volView sid).2.rows = w.rowsOf sid ∧ (w.volView sid).2.tc = ((w.volView sid).1.stream sid).tc := by
  have := view_facts h hs (key := .vol (w.stream sid).tc) (Or.inr rfl) hv
  exact ⟨this.1, this.2.1, this.2.2.1, this.2.2.2.1, this.2.2.2.2.1, this.2.2.2.2.2.1, this.2.2.2.2.2.2 rfl⟩

theorem massView_facts {Vf : VFun} {w : World} {sid : Nat} (h : Inv w.s) (hs : sid < w.s.nstreams)
    (hv : VValid Vf w.c) :
    Good (w.massView sid).1.s ((w.massView sid).1.stream sid) (.mass, (w.massView sid).2) ∧
    VValid Vf (w.massView sid).1.c ∧ (w.massView sid).1.c = w.c ∧
    (w.massView sid).1.stream sid = w.stream sid ∧ (w.massView sid).1.rowsOf sid = w.rowsOf sid ∧
    (w.massView sid).2.rows = w.rowsOf sid := by
  have := view_facts h hs (key := .mass) (Or.inl rfl) hv
  exact ⟨this.1, this.2.1, this.2.2.1, this.2.2.2.1, this.2.2.2.2.1, this.2.2.2.2.2.1⟩

theorem vline_transfer {Vf : VFun} {w w1 : World} {sid : Nat} {V : Mat} (hl : VLine Vf w sid V)
    (hst : w1.stream sid = w.stream sid) (hr : w1.rowsOf sid = w.rowsOf sid)
    (ht : w1.c.tcs = w.c.tcs) (hp : w1.c.phs = w.c.phs) : VLine Vf w1 sid V := by
  intro k r hk i
  rw [hr] at hk
  have := hl k r hk i
  simp only [streamPhase, hst, ht, hp] at this ⊢
  exact this

/-- the hypothesis on the parameters of one operation: whenever it touches the volumetric view, the molar volumes
on its line are the function's values at the stream's current key -/
def OpOk (Vf : VFun) (w : World) : Op → Prop
  | .readVol s V => VLine Vf w s V
  | .get s d _ _ V => d = .vol → VLine Vf w s V
  | .put s d _ _ _ V => d = .vol → VLine Vf w s V
  | .putRow s d _ _ V => d = .vol → VLine Vf w s V
  | .getData s d _ _ _ V => d = .vol → VLine Vf w s V
  | .readAgg s d V => d = .vol → VLine Vf w s V
  | .getFlowAll s u V => ∀ f, w.flowUnit u = .ok (.vol, f) → VLine Vf w s V
  | .setData s d _ _ _ _ V => d = .vol → VLine Vf w s V
  | .getFlow s u _ _ V => ∀ f, w.flowUnit u = .ok (.vol, f) → VLine Vf w s V
  | .setFlow s u _ _ _ V => ∀ f, w.flowUnit u = .ok (.vol, f) → VLine Vf w s V
  | _ => True

theorem getElem_vvalid {Vf : VFun} {w w' : World} {sid : Nat} {d : Dim} {ph : Option Char} {i : Nat} {V : Mat}
    {vid : Option Nat} {x : Rat} (h : Inv w.s) (hs : sid < w.s.nstreams) (hv : VValid Vf w.c)
    (hl : d = .vol → VLine Vf w sid V)
    (he : w.getElem sid d ph i V = .ok (w', vid, x)) : VValid Vf w'.c := by
  simp only [World.getElem] at he
  split at he
  · cases he
  · rename_i k hk
    split at he
    · cases he
    · split at he
      · split at he
        · cases he
        · cases he; exact hv
      · split at he
        · cases he
        · cases he
          exact (massView_facts h hs hv).2.1
      · have hf := volView_facts h hs hv
        split at he
        · cases he
        · rename_i r hr
          cases he
          apply addEntries_valid hf.2.1
          intro e he
          split_ifs at he
          · cases he
          · have hl1 := vline_transfer (hl rfl) hf.2.2.2.1 hf.2.2.2.2.1 (by rw [hf.2.2.1]) (by rw [hf.2.2.1])
            rw [hf.2.2.2.2.2.1] at hr
            rw [← hf.2.2.2.2.1] at hr
            exact newEntry_valid hf.1 hf.2.2.2.2.2.2 k i _ (hl1 k r hr i) e he
      · cases he

theorem putElem_vvalid {Vf : VFun} {w w' : World} {sid : Nat} {d : Dim} {ph : Option Char} {i : Nat} {x : Rat}
    {V : Mat} {vid : Option Nat} (h : Inv w.s) (hs : sid < w.s.nstreams) (hv : VValid Vf w.c)
    (hl : d = .vol → VLine Vf w sid V)
    (he : w.putElem sid d ph i x V = .ok (w', vid)) : VValid Vf w'.c := by
  simp only [World.putElem] at he
  split at he
  · cases he
  · rename_i k hk
    split at he
    · cases he
    · split at he
      · split at he
        · cases he
        · cases he; exact hv
      · split at he
        · cases he
        · cases he
          exact (massView_facts h hs hv).2.1
      · have hf := volView_facts h hs hv
        split at he
        · cases he
        · rename_i r hr
          cases he
          have : VValid Vf ((w.volView sid).1.addEntries (w.volView sid).2
              (if x = 0 then [] else (w.volView sid).1.newEntry (w.volView sid).2 k i (vAt V k i))).c := by
            apply addEntries_valid hf.2.1
            intro e he
            split_ifs at he
            · cases he
            · have hl1 := vline_transfer (hl rfl) hf.2.2.2.1 hf.2.2.2.2.1 (by rw [hf.2.2.1]) (by rw [hf.2.2.1])
              rw [hf.2.2.2.2.2.1] at hr
              rw [← hf.2.2.2.2.1] at hr
              exact newEntry_valid hf.1 hf.2.2.2.2.2.2 k i _ (hl1 k r hr i) e he
          exact vvalid_of_vcs this rfl
      · cases he

theorem putRow_vvalid {Vf : VFun} {w w' : World} {sid : Nat} {d : Dim} {ph : Option Char} {xs : List Rat}
    {V : Mat} {vid : Option Nat} (h : Inv w.s) (hs : sid < w.s.nstreams) (hv : VValid Vf w.c)
    (hl : d = .vol → VLine Vf w sid V)
    (he : w.putRow sid d ph xs V = .ok (w', vid)) : VValid Vf w'.c := by
  simp only [World.putRow] at he
  split at he
  · cases he
  · rename_i k hk
    split at he
    · cases he
    · split at he
      · split at he
        · cases he
        · cases he; exact vvalid_of_vcs hv rfl
      · split at he
        · cases he
        · cases he
          exact vvalid_of_vcs (massView_facts h hs hv).2.1 rfl
      · have hf := volView_facts h hs hv
        split at he
        · cases he
        · rename_i r hr
          cases he
          have : VValid Vf ((w.volView sid).1.addEntries (w.volView sid).2
              (xs.zipIdx.flatMap (fun (x, i) => if x = 0 then []
                else (w.volView sid).1.newEntry (w.volView sid).2 k i (vAt V k i)))).c := by
            apply addEntries_valid hf.2.1
            intro e he
            simp only [List.mem_flatMap] at he
            obtain ⟨⟨x, i⟩, -, he⟩ := he
            simp only at he
            split_ifs at he
            · cases he
            · have hl1 := vline_transfer (hl rfl) hf.2.2.2.1 hf.2.2.2.2.1 (by rw [hf.2.2.1]) (by rw [hf.2.2.1])
              rw [hf.2.2.2.2.2.1] at hr
              rw [← hf.2.2.2.2.1] at hr
              exact newEntry_valid hf.1 hf.2.2.2.2.2.2 k i _ (hl1 k r hr i) e he
          exact vvalid_of_vcs this rfl
      · cases he

theorem reattachStep_vcs (sid : Nat) (b1 b2 : Bool) (w : World) (cv : Char × Nat) :
    (World.reattachStep sid b1 b2 w cv).c.vcs = w.c.vcs := by
  simp only [World.reattachStep]
  split <;> split <;> (try split) <;> rfl

theorem foldReattach_vcs (sid : Nat) (b1 b2 : Bool) (l : List (Char × Nat)) (w : World) :
    (l.foldl (World.reattachStep sid b1 b2) w).c.vcs = w.c.vcs := by
  induction l generalizing w with
  | nil => rfl
  | cons a t ih => exact (ih _).trans (reattachStep_vcs sid b1 b2 w a)

theorem reattach_vcs (w : World) (sid : Nat) (b1 b2 : Bool) : (w.reattach sid b1 b2).c.vcs = w.c.vcs :=
  foldReattach_vcs sid b1 b2 _ w

theorem unlink_vcs (w : World) (sid : Nat) : (w.unlink sid).c.vcs = w.c.vcs := by
  simp only [World.unlink, World.unlinkWith, if_true]
  rw [reattach_vcs]; rfl

theorem phaseView_vcs {w w' : World} {sid v : Nat} {c : Char} (he : w.phaseView sid c = .ok (w', v)) :
    w'.c.vcs = w.c.vcs := by
  simp only [World.phaseView] at he
  split at he
  · cases he
  · split at he
    · cases he; rfl
    · split at he
      · cases he
      · cases he; rfl

theorem setPhase_vcs {w w' : World} {sid : Nat} {c : Char} {R : Mat} (he : w.setPhase sid c R = .ok w') :
    w'.c.vcs = w.c.vcs := by
  simp only [World.setPhase] at he
  split at he
  · split at he
    · cases he
    · cases he; rfl
  · cases he; rfl

theorem setPhases_vcs {w w' : World} {sid : Nat} {ps : List Char} {R : Mat} (he : w.setPhases sid ps R = .ok w') :
    w'.c.vcs = w.c.vcs := by
  simp only [World.setPhases] at he
  split at he
  · cases he
  · exact setPhase_vcs he
  · split at he
    · split at he
      · cases he; rfl
      · split at he
        · cases he
        · split at he
          · cases he
          · cases he; rw [reattach_vcs]; rfl
    · split at he
      · cases he
      · split at he
        · cases he
        · cases he; rfl

theorem expandPhases_vcs {w w' : World} {sid : Nat} {others : List Char} {b : Bool}
    (he : World.expandPhases b w sid others = .ok w') : w'.c.vcs = w.c.vcs := by
  simp only [World.expandPhases] at he
  split at he
  · cases he; rfl
  · split at he
    · cases he
    · cases he
      cases b <;> rfl

theorem copyLike_vcs {w w' : World} {sid oid : Nat} {R : Mat} (he : w.copyLike sid oid R = .ok w') :
    w'.c.vcs = w.c.vcs := by
  simp only [World.copyLike, World.copyLikeWith] at he
  split at he
  · cases he; rfl
  · split at he
    · split at he
      · cases he
      · cases he; rfl
    · split at he
      · cases he
      · split at he
        · cases he
        · cases he; rfl
      · split at he
        · cases he
        · cases he; rfl
    · split at he
      · cases he
      · rename_i w1 hw1
        have h1 : w1.c.vcs = w.c.vcs := by
          split at hw1
          · cases hw1; rfl
          · exact expandPhases_vcs hw1
        split at he
        · cases he
        · cases he; exact h1
    · split at he
      · cases he
      · rename_i w1 hw1
        have h1 : w1.c.vcs = w.c.vcs := by
          split at hw1
          · cases hw1; rfl
          · exact expandPhases_vcs hw1
        split at he
        · cases he
        · cases he; exact h1

theorem resetThermo_vcs {w w' : World} {sid k : Nat} {R : Mat} (he : w.resetThermo sid k R = .ok w') :
    w'.c.vcs = w.c.vcs := by
  simp only [World.resetThermo] at he
  split at he
  · cases he; rfl
  · split at he
    · cases he
    · split at he
      · cases he
      · cases he; rw [reattach_vcs]; rfl

theorem sync_vcs {w w' : World} {sid : Nat} {T P : Rat} {ph : Option Char} {R : Mat}
    (he : w.sync sid T P ph R = .ok w') : w'.c.vcs = w.c.vcs := by
  simp only [World.sync] at he
  split at he
  · cases he
  · cases he; rfl

theorem mixInto_vcs {w w' : World} {sid : Nat} {others : List Char} {P : Rat} {R : Mat}
    (he : w.mixInto sid others P R = .ok w') : w'.c.vcs = w.c.vcs := by
  simp only [World.mixInto] at he
  split at he
  · cases he
  · split at he
    · cases he
    · rename_i w1 hw1
      have h1 : w1.c.vcs = w.c.vcs := by
        split at hw1
        · cases hw1; rfl
        · exact expandPhases_vcs hw1
      split at he
      · cases he
      · cases he; exact h1

theorem link_vcs {w w' : World} {sid oid : Nat} {f p t : Bool} (he : w.link sid oid f p t = .ok w') :
    w'.c.vcs = w.c.vcs := by
  simp only [World.link, World.linkWith] at he
  split at he
  · cases he
  · split at he
    · cases he
    · cases he
      have h1 : (if (t && f && (p || (w.stream sid).multi)) = true then w.linkShare sid oid p
          else World.linkPlain true w sid oid f p t).c.vcs = w.c.vcs := by
        split
        · rfl
        · simp [World.linkPlain]
      split
      · rw [reattach_vcs]; exact h1
      · exact h1

theorem setF_vcs {w w' : World} {sid : Nat} {d : Dim} {x : Rat} {V : Mat} (he : w.setF sid d x V = .ok w') :
    w'.c.vcs = w.c.vcs := by
  simp only [World.setF] at he
  split at he
  · split at he
    · cases he; rfl
    · split at he
      · cases he
      · cases he; rfl
  · cases he
  · split at he
    · cases he
    · cases he; rfl

theorem readVol_vvalid {Vf : VFun} {w : World} {sid : Nat} {V : Mat} (h : Inv w.s) (hs : sid < w.s.nstreams)
    (hv : VValid Vf w.c) (hl : VLine Vf w sid V) : VValid Vf (w.readVol sid V).1.c := by
  have hf := volView_facts h hs hv
  simp only [World.readVol]
  apply addEntries_valid hf.2.1
  intro e he
  simp only [List.mem_flatMap] at he
  obtain ⟨⟨r, k⟩, hrk, x, hxi, he⟩ := he
  obtain ⟨x, i⟩ := x
  have hrk' := List.mem_zipIdx_iff_getElem?.mp hrk
  simp only at hrk' he
  split_ifs at he
  · cases he
  · have hl1 := vline_transfer hl hf.2.2.2.1 hf.2.2.2.2.1 (by rw [hf.2.2.1]) (by rw [hf.2.2.1])
    rw [hf.2.2.2.2.2.1] at hrk'
    rw [← hf.2.2.2.2.1] at hrk'
    exact newEntry_valid hf.1 hf.2.2.2.2.2.2 k i _ (hl1 k r hrk' i) e he

/-- one operation keeps every cached molar volume valid -/
theorem exec_vvalid {Vf : VFun} {w w' : World} {op : Op} {out : Out} (h : Inv w.s) (hv : VValid Vf w.c)
    (hok : OpOk Vf w op) (he : w.exec op = .ok (w', out)) : VValid Vf w'.c := by
  unfold World.exec at he
  split at he
  · cases he
  · rename_i hg
    split at he
    · cases he
    have hsid : ∀ s ∈ op.sids, s < w.s.nstreams := by
      intro s hs
      simp only [List.any_eq_true, not_exists, not_and, decide_eq_true_eq, Nat.not_le] at hg
      exact hg s hs
    cases op with
    | view s c =>
      simp only [Except.map] at he
      split at he
      · cases he
      · rename_i r hr
        obtain ⟨w1, v⟩ := r
        cases he
        exact vvalid_of_vcs hv (phaseView_vcs hr)
    | proxy s => cases he; exact vvalid_of_vcs hv rfl
    | flowProxy s => cases he; exact vvalid_of_vcs hv rfl
    | copy s k R =>
      simp only [Except.map, World.copyStream] at he
      split at he
      · cases he
      · rename_i r hr
        obtain ⟨w1, v⟩ := r
        cases he
        split at hr
        · cases hr; exact vvalid_of_vcs hv rfl
        · split at hr
          · cases hr
          · split at hr
            · cases hr
            · cases hr; exact vvalid_of_vcs hv rfl
    | new1 th ph T P flows =>
      simp only at he
      split at he
      · cases he
      · cases he; exact vvalid_of_vcs hv rfl
    | newm th phases T P rows =>
      simp only at he
      split at he
      · cases he
      · split at he
        · cases he
        · split at he
          · cases he
          · cases he; exact vvalid_of_vcs hv rfl
    | setT s x => cases he; exact vvalid_of_vcs hv rfl
    | setP s x => cases he; exact vvalid_of_vcs hv rfl
    | setPhase s c R =>
      simp only [Except.bind, okShape] at he
      split at he
      · cases he
      · rename_i w1 hw1; cases he; exact vvalid_of_vcs hv (setPhase_vcs hw1)
    | setPhases s ps R =>
      simp only [Except.bind, okShape] at he
      split at he
      · cases he
      · rename_i w1 hw1; cases he; exact vvalid_of_vcs hv (setPhases_vcs hw1)
    | link s o f p t =>
      simp only [Except.map] at he
      split at he
      · cases he
      · rename_i w1 hw1; cases he; exact vvalid_of_vcs hv (link_vcs hw1)
    | unlink s => cases he; exact vvalid_of_vcs hv (unlink_vcs _ _)
    | copyLike s o R =>
      simp only [Except.bind, okShape] at he
      split at he
      · cases he
      · rename_i w1 hw1; cases he; exact vvalid_of_vcs hv (copyLike_vcs hw1)
    | thermo s k R =>
      simp only [Except.bind, okShape] at he
      split at he
      · cases he
      · rename_i w1 hw1; cases he; exact vvalid_of_vcs hv (resetThermo_vcs hw1)
    | sync s T P ph R =>
      simp only [Except.bind, okShape] at he
      split at he
      · cases he
      · rename_i w1 hw1; cases he; exact vvalid_of_vcs hv (sync_vcs hw1)
    | mixInto s others P R =>
      simp only [Except.bind, okShape] at he
      split at he
      · cases he
      · rename_i w1 hw1; cases he; exact vvalid_of_vcs hv (mixInto_vcs hw1)
    | readMol s => cases he; exact hv
    | readMass s =>
      cases he
      exact (massView_facts h (hsid s (by simp [Op.sids])) hv).2.1
    | readVol s V =>
      cases he
      exact readVol_vvalid h (hsid s (by simp [Op.sids])) hv hok
    | readF s d V =>
      simp only at he
      split at he
      · cases he
      · cases he; exact hv
    | writeF s d x V =>
      simp only [Except.map] at he
      split at he
      · cases he
      · rename_i w1 hw1; cases he; exact vvalid_of_vcs hv (setF_vcs hw1)
    | get s d ph i V =>
      simp only [Except.map] at he
      split at he
      · cases he
      · rename_i r hr
        obtain ⟨w1, vid, x⟩ := r
        cases he
        exact getElem_vvalid h (hsid s (by simp [Op.sids])) hv hok hr
    | put s d ph i x V =>
      simp only [Except.map] at he
      split at he
      · cases he
      · rename_i r hr
        obtain ⟨w1, vid⟩ := r
        cases he
        exact putElem_vvalid h (hsid s (by simp [Op.sids])) hv hok hr
    | putRow s d ph xs V =>
      simp only [Except.map] at he
      split at he
      · cases he
      · rename_i r hr
        obtain ⟨w1, vid⟩ := r
        cases he
        exact putRow_vvalid h (hsid s (by simp [Op.sids])) hv hok hr
    | getFlow s u ph i V =>
      simp only [Except.map, World.getFlow] at he
      split at he
      · cases he
      · rename_i r hr
        obtain ⟨w1, vid, x⟩ := r
        cases he
        split at hr
        · cases hr
        · rename_i d f hu
          split at hr
          · cases hr
          · rename_i w2 vid2 x2 hg2
            cases hr
            refine getElem_vvalid h (hsid s (by simp [Op.sids])) hv ?_ hg2
            intro hd
            subst hd
            exact hok f hu
    | setFlow s u ph i x V =>
      simp only [Except.map, World.setFlow] at he
      split at he
      · cases he
      · rename_i r hr
        obtain ⟨w1, vid⟩ := r
        cases he
        split at hr
        · cases hr
        · rename_i d f hu
          refine putElem_vvalid h (hsid s (by simp [Op.sids])) hv ?_ hr
          intro hd
          subst hd
          exact hok f hu
    | getTotal s u V =>
      simp only [Except.map] at he
      split at he
      · cases he
      · cases he; exact hv
    | setTotal s u x V =>
      simp only [Except.map, World.setTotal] at he
      split at he
      · cases he
      · rename_i w1 hw1
        cases he
        split at hw1
        · cases hw1
        · exact vvalid_of_vcs hv (setF_vcs hw1)
    | getData s d u ph i V =>
      simp only [Except.map, World.getData] at he
      split at he
      · cases he
      · rename_i r hr
        obtain ⟨w1, vid, x⟩ := r
        cases he
        split at hr
        · cases hr
        · split at hr
          · cases hr
          · rename_i w2 vid2 x2 hg2
            cases hr
            exact getElem_vvalid h (hsid s (by simp [Op.sids])) hv hok hg2
    | setData s d u ph i x V =>
      simp only [Except.map, World.setData] at he
      split at he
      · cases he
      · rename_i r hr
        obtain ⟨w1, vid⟩ := r
        cases he
        split at hr
        · cases hr
        · exact putElem_vvalid h (hsid s (by simp [Op.sids])) hv hok hr
    | getProp s d u V =>
      simp only [Except.map] at he
      split at he
      · cases he
      · cases he; exact hv
    | setProp s d u x V =>
      simp only [Except.map, World.setProp] at he
      split at he
      · cases he
      · rename_i w1 hw1
        cases he
        split at hw1
        · cases hw1
        · exact vvalid_of_vcs hv (setF_vcs hw1)
    | unitFor d u =>
      simp only [Except.map] at he
      split at he
      · cases he
      · cases he; exact hv
    | scale s q => cases he; exact vvalid_of_vcs hv rfl
    | empty s => cases he; exact vvalid_of_vcs hv rfl
    | removeNegatives s => cases he; exact vvalid_of_vcs hv rfl
    | readAgg s d V =>
      simp only [Except.map, World.readAgg] at he
      split at he
      · cases he
      · rename_i r hr
        obtain ⟨w1, vid, x⟩ := r
        cases he
        split at hr
        · cases hr; exact hv
        · split at hr
          · cases hr; exact hv
          · cases hr; exact (massView_facts h (hsid s (by simp [Op.sids])) hv).2.1
        · cases hr; exact readVol_vvalid h (hsid s (by simp [Op.sids])) hv (hok rfl)
        · cases hr
    | getFlowAll s u V =>
      simp only [Except.map, World.getFlowAll] at he
      split at he
      · cases he
      · rename_i r hr
        obtain ⟨w1, vid, x⟩ := r
        cases he
        split at hr
        · cases hr
        · rename_i d f hu
          split at hr
          · cases hr; exact hv
          · cases hr; exact (massView_facts h (hsid s (by simp [Op.sids])) hv).2.1
          · cases hr; exact readVol_vvalid h (hsid s (by simp [Op.sids])) hv (hok f hu)
          · cases hr

/-- the hypothesis on the parameters of a whole history -/
def RunOk (Vf : VFun) : World → List Op → Prop
  | _, [] => True
  | w, op :: t => OpOk Vf w op ∧ RunOk Vf (w.step op) t

/-- **vcache_valid_along_histories.**  Along every history whose molar-volume parameters come from one function of
(chemicals, phase, T, P), every molar volume held in any view's cache is that function's value at the key it is stored
under; together with `view_tracks_rows` this is what makes `vol_is_mol_V` hold in every reachable state. -/
theorem vcache_valid_along_histories {Vf : VFun} (ops : List Op) {w : World} (h : Inv w.s) (hv : VValid Vf w.c)
    (hok : RunOk Vf w ops) : VValid Vf (w.run ops).c ∧ Inv (w.run ops).s := by
  induction ops generalizing w with
  | nil => exact ⟨hv, h⟩
  | cons op t ih =>
    obtain ⟨h1, h2⟩ := hok
    have hs := step_inv op h
    refine ih hs ?_ h2
    unfold World.step
    split
    · rename_i w1 out he; exact exec_vvalid h hv h1 he
    · exact hv

/-! ### the two view laws in every reachable state -/

/-- **mass_is_mol_MW_after_any_history.**  From the configured start, after any history whatsoever, the mass view of
any stream reads molar flow × molecular weight. -/
theorem mass_is_mol_MW_after_any_history (thermos : List (List Rat)) (units : List UnitDef) (ops : List Op)
    (sid : Nat) (hs : sid < (({ thermos := thermos, units := units } : World).run ops).s.nstreams) :
    let w := ({ thermos := thermos, units := units } : World).run ops
    (w.readMass sid).2.2 = (w.readMol sid).map (fun r => mulVec r (w.MW (w.stream sid).th)) :=
  mass_is_mol_MW (run_inv ops inv_init) hs

/-- **vol_is_mol_V_after_any_history.**  From the configured start, after any history whose molar-volume parameters
come from one function `Vf`, the volumetric view of any stream reads molar flow × `Vf` at the stream's current
chemicals, phase, T and P. -/
theorem vol_is_mol_V_after_any_history {Vf : VFun} (thermos : List (List Rat)) (units : List UnitDef)
    (ops : List Op) (hok : RunOk Vf ({ thermos := thermos, units := units } : World) ops) (sid : Nat) (V : Mat)
    (hs : sid < (({ thermos := thermos, units := units } : World).run ops).s.nstreams)
    (hl : VLine Vf (({ thermos := thermos, units := units } : World).run ops) sid V) :
    let w := ({ thermos := thermos, units := units } : World).run ops
    (w.readVol sid V).2.2 = (w.readMol sid).zipIdx.map (fun (r, k) => r.zipIdx.map (fun (x, i) =>
      x * Vf (w.stream sid).th (streamPhase w sid k) (w.c.tcs (w.stream sid).tc).1 (w.c.tcs (w.stream sid).tc).2 i)) := by
  have h := vcache_valid_along_histories (Vf := Vf) ops (w := { thermos := thermos, units := units }) inv_init
    (fun _ e he => by cases he) hok
  exact vol_is_mol_V h.2 hs h.1 hl

/-! ## totals: setting a total scales every row by one factor -/

theorem sumL_map_mul (l : List Rat) (q : Rat) : sumL (l.map (· * q)) = sumL l * q := by
  induction l with
  | nil => simp [sumL]
  | cons a t ih =>
    simp only [sumL, List.map_cons, List.foldr_cons] at ih ⊢
    rw [ih]; ring

theorem sumLL_map_map_mul (m : Mat) (q : Rat) : sumLL (m.map (fun r => r.map (· * q))) = sumLL m * q := by
  induction m with
  | nil => simp [sumLL, sumL]
  | cons a t ih =>
    simp only [sumLL, sumL, List.map_cons, List.foldr_cons] at ih ⊢
    have := sumL_map_mul a q
    simp only [sumL] at this
    rw [this, ih]; ring

theorem mulVec_map_mul (r mw : List Rat) (q : Rat) : mulVec (r.map (· * q)) mw = (mulVec r mw).map (· * q) := by
  induction r generalizing mw with
  | nil => simp [mulVec]
  | cons a t ih =>
    cases mw with
    | nil => simp [mulVec]
    | cons b u =>
      simp only [mulVec, List.map_cons, List.zipWith_cons_cons, List.cons.injEq] at ih ⊢
      exact ⟨by ring, ih u⟩

theorem zipIdx_map_mul (r : List Rat) (q : Rat) (n : Nat) (g : Nat → Rat) :
    ((r.map (· * q)).zipIdx n).map (fun (x, i) => x * g i) = ((r.zipIdx n).map (fun (x, i) => x * g i)).map (· * q) := by
  induction r generalizing n with
  | nil => simp
  | cons a t ih =>
    simp only [List.map_cons, List.zipIdx_cons, List.cons.injEq]
    exact ⟨by ring, ih (n + 1)⟩

/-- `imol.data *= q` multiplies the dense image row by row -/
theorem readMol_scale (w : World) (sid : Nat) (q : Rat) :
    (w.scale sid q).readMol sid = (w.readMol sid).map (fun r => r.map (· * q)) := by
  simp only [World.readMol, World.scale, World.rowsOf, World.stream, List.map_map]
  apply List.map_congr_left
  intro r hr
  simp [Function.comp, hr]

theorem F_scale (w : World) (sid : Nat) (d : Dim) (V : Mat) (q : Rat) :
    (w.scale sid q).F sid d V = w.F sid d V * q := by
  cases d with
  | mol => simp only [World.F, World.Fmol, readMol_scale, sumLL_map_map_mul]
  | mass =>
    simp only [World.F, World.Fmass, readMol_scale]
    have hst : (w.scale sid q).stream sid = w.stream sid := rfl
    have hmw : ∀ th, (w.scale sid q).MW th = w.MW th := fun _ => rfl
    rw [hst, hmw, List.map_map]
    rw [← sumLL_map_map_mul, List.map_map]
    congr 1
    apply List.map_congr_left
    intro r _
    simp [Function.comp, mulVec_map_mul]
  | vol =>
    simp only [World.F, World.Fvol, readMol_scale]
    rw [← sumLL_map_map_mul, List.map_map]
    congr 1
    rw [List.zipIdx_map, List.map_map]
    apply List.map_congr_left
    rintro ⟨r, k⟩ _
    simp only [Function.comp, Prod.map, id]
    exact zipIdx_map_mul r q 0 (fun i => vAt V k i)
  | other => simp [World.F]

/-- **set_total_keeps_composition.**  The setters of `F_mol`, `F_mass`, `F_vol` (and `set_total_flow` in any unit, which
goes through them) multiply every molar flow of every phase by one and the same factor, and afterwards the total reads
back as the value that was set. -/
theorem set_total_keeps_composition {w w' : World} {sid : Nat} {d : Dim} {x : Rat} {V : Mat}
    (hF : w.F sid d V ≠ 0) (he : w.setF sid d x V = .ok w') :
    w'.readMol sid = (w.readMol sid).map (fun r => r.map (· * (x / w.F sid d V))) ∧
    w'.F sid d V = x ∧ w'.s = w.s := by
  have hs : w' = w.scale sid (x / w.F sid d V) := by
    simp only [World.setF] at he
    split at he
    · rw [if_pos hF] at he; cases he; rfl
    · cases he
    · rw [if_neg hF] at he; cases he; rfl
  subst hs
  refine ⟨readMol_scale w sid _, ?_, rfl⟩
  rw [F_scale]
  field_simp

/-- the same in terms of fractions: every molar fraction `mol_ki / F_mol` is unchanged (for a non-zero new total) -/
theorem set_total_keeps_fractions {w w' : World} {sid : Nat} {d : Dim} {x : Rat} {V : Mat}
    (hF : w.F sid d V ≠ 0) (hx : x ≠ 0) (he : w.setF sid d x V = .ok w') (k i : Nat) :
    ((w'.readMol sid).getD k []).getD i 0 / w'.Fmol sid = ((w.readMol sid).getD k []).getD i 0 / w.Fmol sid := by
  obtain ⟨h1, -, -⟩ := set_total_keeps_composition hF he
  have hq : x / w.F sid d V ≠ 0 := div_ne_zero hx hF
  have hFm : w'.Fmol sid = w.Fmol sid * (x / w.F sid d V) := by
    simp only [World.Fmol, h1, sumLL_map_map_mul]
  rw [hFm, h1]
  have : ((List.map (fun r => List.map (· * (x / w.F sid d V)) r) (w.readMol sid)).getD k []).getD i 0
       = ((w.readMol sid).getD k []).getD i 0 * (x / w.F sid d V) := by
    simp only [List.getD_eq_getElem?_getD, List.getElem?_map]
    cases (w.readMol sid)[k]? with
    | none => simp
    | some r =>
      simp only [Option.map_some, Option.getD_some, List.getElem?_map]
      cases r[i]? <;> simp
  rw [this]
  by_cases hz : w.Fmol sid = 0
  · simp [hz]
  · field_simp

/-! ## units of measure -/

/-- the factor that converts a value in unit `a` to unit `b` (same dimension) -/
def conv (a b : UnitDef) : Rat := b.factor / a.factor

/-- **factor_consistent.**  With non-zero table factors, the conversion `u → u'` that the model performs
(`f(u')/f(u)`, see `set_get_other_unit`) is reflexive, transitive and invertible; the driver checks on the dumped table
that pint's direct factor `u → u'` is this quotient (`cfg-conv`). -/
theorem factor_consistent (a b c : UnitDef) (ha : a.factor ≠ 0) (hb : b.factor ≠ 0) :
    conv a a = 1 ∧ conv a b * conv b c = conv a c ∧ conv a b * conv b a = 1 := by
  refine ⟨?_, ?_, ?_⟩ <;> simp only [conv] <;> field_simp

/-- what the driver's `cfg-units` monitor establishes -/
theorem unitsNonzero_spec {l : List UnitDef} (h : unitsNonzero l = true) {u : String} {d : UnitDef}
    (hf : findUnit l u = some d) (hd : d.dim ≠ .other) : d.factor ≠ 0 := by
  have hmem := List.mem_of_find?_eq_some hf
  simp only [unitsNonzero, List.all_eq_true, Bool.or_eq_true, beq_iff_eq, bne_iff_ne, ne_eq] at h
  rcases h d hmem with h1 | h1
  · exact absurd h1 hd
  · exact h1

theorem flowUnit_ok {w : World} {u : String} {d : UnitDef} (hf : findUnit w.units u = some d)
    (hd : d.dim ≠ .other) : w.flowUnit u = .ok (d.dim, d.factor) := by
  simp [World.flowUnit, hf, hd]

/-- **dimension_guard.**  A unit whose dimension is none of molar, mass or volumetric flow is rejected by all four
entry points, and the state is left as it was. -/
theorem dimension_guard {w : World} {u : String} {d : UnitDef} (hf : findUnit w.units u = some d)
    (hd : d.dim = .other) (sid : Nat) (ph : Option Char) (i : Nat) (x : Rat) (V : Mat) :
    w.getFlow sid u ph i V = .error .dimension ∧ w.setFlow sid u ph i x V = .error .dimension ∧
    w.getTotal sid u V = .error .dimension ∧ w.setTotal sid u x V = .error .dimension ∧
    w.step (.getFlow sid u ph i V) = w ∧ w.step (.setFlow sid u ph i x V) = w ∧
    w.step (.getTotal sid u V) = w ∧ w.step (.setTotal sid u x V) = w := by
  have hu : w.flowUnit u = .error .dimension := by simp [World.flowUnit, hf, hd]
  have h1 : w.getFlow sid u ph i V = .error .dimension := by simp [World.getFlow, hu]
  have h2 : w.setFlow sid u ph i x V = .error .dimension := by simp [World.setFlow, hu]
  have h3 : w.getTotal sid u V = .error .dimension := by simp [World.getTotal, hu]
  have h4 : w.setTotal sid u x V = .error .dimension := by simp [World.setTotal, hu]
  refine ⟨h1, h2, h3, h4, ?_, ?_, ?_, ?_⟩ <;>
  · simp only [World.step, World.exec]
    split_ifs <;> simp [h1, h2, h3, h4, Except.map]

/-- **dimension_guard_dimensionality.**  The same guard stated on what the code compares: a unit whose pint
dimensionality is none of those of kmol/hr, kg/hr and m^3/hr is rejected. -/
theorem dimension_guard_dimensionality {w : World} {u : String} {d : UnitDef} (hf : findUnit w.units u = some d)
    (h1 : d.dimv ≠ molDim) (h2 : d.dimv ≠ massDim) (h3 : d.dimv ≠ volDim)
    (sid : Nat) (ph : Option Char) (i : Nat) (x : Rat) (V : Mat) :
    w.getFlow sid u ph i V = .error .dimension ∧ w.setFlow sid u ph i x V = .error .dimension ∧
    w.getTotal sid u V = .error .dimension ∧ w.setTotal sid u x V = .error .dimension := by
  have hd : d.dim = .other := by simp [UnitDef.dim, classify, h1, h2, h3]
  have := dimension_guard hf hd sid ph i x V
  exact ⟨this.1, this.2.1, this.2.2.1, this.2.2.2.1⟩

theorem setF_cfg {w w' : World} {sid : Nat} {d : Dim} {x : Rat} {V : Mat} (he : w.setF sid d x V = .ok w') :
    w'.units = w.units ∧ w'.thermos = w.thermos := by
  simp only [World.setF] at he
  split at he
  · split at he
    · cases he; exact ⟨rfl, rfl⟩
    · split at he
      · cases he
      · cases he; exact ⟨rfl, rfl⟩
  · cases he
  · split at he
    · cases he
    · cases he; exact ⟨rfl, rfl⟩

/-- **set_get_total.**  `set_total_flow(x, u)` followed by `get_total_flow(u')` in a unit of the same dimension returns
`x · f(u')/f(u)`; in particular `x` itself for `u' = u`. -/
theorem set_get_total {w w' : World} {sid : Nat} {u u' : String} {x : Rat} {V : Mat} {a b : UnitDef}
    (ha : findUnit w.units u = some a) (hb : findUnit w.units u' = some b) (hdim : a.dim = b.dim)
    (hao : a.dim ≠ .other) (hfa : a.factor ≠ 0) (hF : w.F sid a.dim V ≠ 0)
    (he : w.setTotal sid u x V = .ok w') :
    w'.getTotal sid u' V = .ok (x * conv a b) ∧ (u' = u → w'.getTotal sid u' V = .ok x) := by
  simp only [World.setTotal, flowUnit_ok ha hao] at he
  obtain ⟨-, hF', -⟩ := set_total_keeps_composition hF he
  have hcfg := setF_cfg he
  have hb' : findUnit w'.units u' = some b := by rw [hcfg.1]; exact hb
  have hbo : b.dim ≠ .other := hdim ▸ hao
  have h1 : w'.getTotal sid u' V = .ok (x * conv a b) := by
    simp only [World.getTotal, flowUnit_ok hb' hbo, ← hdim, hF', conv]
    congr 1; field_simp
  refine ⟨h1, ?_⟩
  intro huu
  subst huu
  have : a = b := by rw [ha] at hb; exact Option.some.inj hb
  subst this
  rw [h1, (factor_consistent a a a hfa hfa).1, mul_one]

/-! ## the aggregate accessors `stream.mol`, `stream.mass`, `stream.vol` -/

/-- **agg_mass_spec.**  `stream.mass` is, per chemical, the molar flow summed over the phases times the molecular weight
(multi-phase: computed as `mol * MW`; single-phase: read through the cached mass view, which `mass_is_mol_MW` ties to the
current rows). -/
theorem agg_mass_spec {w w' : World} {sid : Nat} {V : Mat} {vid : Option Nat} {r : List Rat} (h : Inv w.s)
    (hs : sid < w.s.nstreams) (he : w.readAgg sid .mass V = .ok (w', vid, r)) :
    r = if (w.stream sid).multi then mulVec (colSum (w.readMol sid)) (w.MW (w.stream sid).th)
        else colSum ((w.readMol sid).map (fun x => mulVec x (w.MW (w.stream sid).th))) := by
  simp only [World.readAgg] at he
  split at he
  · rename_i hm; cases he; simp [hm]
  · rename_i hm
    cases he
    simp only [hm, Bool.false_eq_true, if_false]
    rw [mass_is_mol_MW h hs]

/-- **agg_vol_spec.**  `stream.vol` is, per chemical, the sum over the phases of molar flow × molar volume at that
phase and the stream's current T and P. -/
theorem agg_vol_spec {Vf : VFun} {w w' : World} {sid : Nat} {V : Mat} {vid : Option Nat} {r : List Rat} (h : Inv w.s)
    (hs : sid < w.s.nstreams) (hv : VValid Vf w.c) (hl : VLine Vf w sid V)
    (he : w.readAgg sid .vol V = .ok (w', vid, r)) :
    r = colSum ((w.readMol sid).zipIdx.map (fun (x, k) => x.zipIdx.map (fun (y, i) =>
      y * Vf (w.stream sid).th (streamPhase w sid k) (w.c.tcs (w.stream sid).tc).1 (w.c.tcs (w.stream sid).tc).2 i))) := by
  simp only [World.readAgg] at he
  cases he
  rw [vol_is_mol_V h hs hv hl]

/-- `stream.mol` is the column sum of the molar rows (definition of the model, kept next to its two siblings). -/
theorem agg_mol_spec {w w' : World} {sid : Nat} {V : Mat} {vid : Option Nat} {r : List Rat}
    (he : w.readAgg sid .mol V = .ok (w', vid, r)) : r = colSum (w.readMol sid) ∧ w' = w := by
  simp only [World.readAgg] at he
  cases he; exact ⟨rfl, rfl⟩

/-! ## units on one view: `get_data / set_data`, `get_property / set_property`, `units=` -/

/-- **view_dimension_guard.**  A unit whose dimension is not the dimension of the view / property it is applied to — a
mass unit on `imol`, a molar unit on `F_vol`, … or a non-flow unit — is rejected by `get_data`, `set_data`,
`get_property`, `set_property` and the `units=` conversion, whatever was converted before (the model has no memo to be
poisoned), and the state is left as it was. -/
theorem view_dimension_guard {w : World} {u : String} {e : UnitDef} {d : Dim}
    (hf : findUnit w.units u = some e) (hd : e.dim ≠ d ∨ d = .other)
    (sid : Nat) (ph : Option Char) (i : Nat) (x : Rat) (V : Mat) :
    w.viewUnit d u = .error .dimension ∧
    w.getData sid d u ph i V = .error .dimension ∧ w.setData sid d u ph i x V = .error .dimension ∧
    w.getProp sid d u V = .error .dimension ∧ w.setProp sid d u x V = .error .dimension ∧
    w.step (.getData sid d u ph i V) = w ∧ w.step (.setData sid d u ph i x V) = w ∧
    w.step (.getProp sid d u V) = w ∧ w.step (.setProp sid d u x V) = w := by
  have hu : w.viewUnit d u = .error .dimension := by
    simp only [World.viewUnit, hf]
    rcases hd with hd | hd
    · simp [hd]
    · simp [hd]
  have h1 : w.getData sid d u ph i V = .error .dimension := by simp [World.getData, hu]
  have h2 : w.setData sid d u ph i x V = .error .dimension := by simp [World.setData, hu]
  have h3 : w.getProp sid d u V = .error .dimension := by simp [World.getProp, hu]
  have h4 : w.setProp sid d u x V = .error .dimension := by simp [World.setProp, hu]
  refine ⟨hu, h1, h2, h3, h4, ?_, ?_, ?_, ?_⟩ <;>
  · simp only [World.step, World.exec]
    split_ifs <;> simp [h1, h2, h3, h4, Except.map]

theorem viewUnit_ok {w : World} {u : String} {e : UnitDef} (hf : findUnit w.units u = some e)
    (ho : e.dim ≠ .other) : w.viewUnit e.dim u = .ok e.factor := by
  simp [World.viewUnit, hf, ho]

/-- **view_unit_agrees_with_flow_unit.**  For a unit of the view's own dimension the factor `get_data` / `get_property` use
is the one `get_flow` / `get_total_flow` use: the two families of entry points convert identically. -/
theorem view_unit_agrees_with_flow_unit {w : World} {u : String} {e : UnitDef} (hf : findUnit w.units u = some e)
    (ho : e.dim ≠ .other) (sid : Nat) (ph : Option Char) (i : Nat) (x : Rat) (V : Mat) :
    w.getData sid e.dim u ph i V = w.getFlow sid u ph i V ∧
    w.setData sid e.dim u ph i x V = w.setFlow sid u ph i x V ∧
    w.getProp sid e.dim u V = w.getTotal sid u V ∧ w.setProp sid e.dim u x V = w.setTotal sid u x V := by
  have h1 := viewUnit_ok hf ho
  have h2 := flowUnit_ok hf ho
  simp [World.getData, World.setData, World.getProp, World.setProp, World.getFlow, World.setFlow, World.getTotal,
    World.setTotal, h1, h2]

/-! ## write then read through a view -/

/-- after `imass` / `ivol` handed out a view, the view is in the cache: the next access returns the same object -/
theorem getView_lookup (w : World) (sid : Nat) (key : Key) :
    ((w.getView sid key).1.s.caches ((w.getView sid key).1.stream sid).cache).lookup key
      = some (w.getView sid key).2 := by
  dsimp only [World.getView]
  split
  · rename_i v hv; exact hv
  · simp only [World.stream, Struct.ixOf]
    simp [List.lookup, upd]

theorem getView_of_lookup {w1 : World} {sid : Nat} {key : Key} {v : View}
    (h : (w1.s.caches (w1.stream sid).cache).lookup key = some v) : w1.getView sid key = (w1, v) := by
  simp only [World.getView, h]

theorem getView_again {w w1 : World} {sid : Nat} {key : Key} (hs : w1.s = (w.getView sid key).1.s) :
    w1.getView sid key = (w1, (w.getView sid key).2) := by
  apply getView_of_lookup
  have : w1.stream sid = (w.getView sid key).1.stream sid := by simp [World.stream, hs]
  rw [this, hs]
  exact getView_lookup w sid key

theorem pickV_stable (l : List VEntry) (th : Nat) (T P : Rat) (ph : Char) (k i : Nat) (vl vl' : Rat) :
    pickV (pickNew l th T P ph k i vl ++ l) th T P ph k i vl' = pickV l th T P ph k i vl := by
  have hfresh : ∀ old : List VEntry,
      findEntry ([({ k := k, idx := i, th := th, T := T, P := P, ph := ph, V := vl } : VEntry)] ++ old) k i
        = some { k := k, idx := i, th := th, T := T, P := P, ph := ph, V := vl } := by
    intro old; simp [findEntry]
  have hhit : ({ k := k, idx := i, th := th, T := T, P := P, ph := ph, V := vl } : VEntry).hit th T P ph = true := by
    simp [VEntry.hit]
  unfold pickV pickNew
  cases hf : findEntry l k i with
  | none => simp only [hfresh, hhit, if_true]
  | some e =>
    cases hh : e.hit th T P ph with
    | true => simp [hf, hh]
    | false => simp only [hh, Bool.false_eq_true, if_false, hfresh, hhit, if_true]

theorem usedV_stable (w : World) (v : View) (k i : Nat) (vl vl' : Rat) (w1 : World)
    (hvcs : w1.c.vcs = upd w.c.vcs v.vid (w.newEntry v k i vl ++ w.c.vcs v.vid))
    (ht : w1.c.tcs = w.c.tcs) (hp : w1.c.phs = w.c.phs) :
    w1.usedV v k i vl' = w.usedV v k i vl := by
  have hph : w1.viewPhase v k = w.viewPhase v k := by simp [World.viewPhase, hp]
  simp only [World.usedV, hvcs, upd_same, ht, hph, World.newEntry]
  exact pickV_stable _ _ _ _ _ _ _ _ _

theorem set_getD (l : List Rat) (i : Nat) (y : Rat) (h : i < l.length) : (l.set i y).getD i 0 = y := by
  rw [List.getD_eq_getElem?_getD, List.getElem?_set_self h]; rfl

/-- side conditions of a write through a view: the chemical index is inside the row, and the factor of the lens is
non-zero -/
structure PutOk (Vf : VFun) (w : World) (sid : Nat) (d : Dim) (ph : Option Char) (i : Nat) : Prop where
  len : ∀ k r, w.rowPos sid ph = .ok k → (w.rowsOf sid)[k]? = some r → i < (w.c.rows r).length
  mw : d = .mass → (w.MW (w.stream sid).th).getD i 0 ≠ 0
  vol : d = .vol → ∀ k, w.rowPos sid ph = .ok k →
    Vf (w.stream sid).th (streamPhase w sid k) (w.c.tcs (w.stream sid).tc).1 (w.c.tcs (w.stream sid).tc).2 i ≠ 0

/-- `indexer[key] = y` followed by `indexer[key]` through the same view (molar, mass or volumetric) gives `y` back -/
theorem put_get_elem {Vf : VFun} {w w1 : World} {sid : Nat} {d : Dim} {ph : Option Char} {i : Nat} {y : Rat}
    {V V' : Mat} {vid : Option Nat} (h : Inv w.s) (hs : sid < w.s.nstreams) (hv : VValid Vf w.c)
    (hl : d = .vol → VLine Vf w sid V) (hok : PutOk Vf w sid d ph i)
    (hput : w.putElem sid d ph i y V = .ok (w1, vid)) :
    ∃ w2, w1.getElem sid d ph i V' = .ok (w2, vid, y) ∧ w2.units = w.units := by
  simp only [World.putElem] at hput
  split at hput
  · cases hput
  · rename_i k hk
    split at hput
    · cases hput
    · rename_i hi
      cases d with
      | mol =>
        simp only at hput
        split at hput
        · cases hput
        · rename_i r hr
          cases hput
          have hlen := hok.len k r hk hr
          refine ⟨w.setElem r i y, ?_, rfl⟩
          have hk1 : (w.setElem r i y).rowPos sid ph = .ok k := hk
          have hr1 : ((w.setElem r i y).rowsOf sid)[k]? = some r := hr
          have hi1 : ¬ i ≥ ((w.setElem r i y).MW ((w.setElem r i y).stream sid).th).length := hi
          simp only [World.getElem, hk1, hi1, if_false, hr1]
          congr 3
          simp only [World.setElem, upd_same]
          exact set_getD _ _ _ hlen
      | mass =>
        simp only at hput
        have hf := massView_facts h hs hv
        split at hput
        · cases hput
        · rename_i r hr
          cases hput
          have hr' : (w.rowsOf sid)[k]? = some r := by rw [← hf.2.2.2.2.2]; exact hr
          have hlen := hok.len k r hk hr'
          have hmw := hok.mw rfl
          generalize hw1 : (w.massView sid).1.setElem r i (y / ((w.massView sid).1.MW (w.massView sid).2.th).getD i 0) = w1
          have hs1 : w1.s = (w.getView sid .mass).1.s := by rw [← hw1]; rfl
          have hagain : w1.massView sid = (w1, (w.massView sid).2) := getView_again hs1
          have hk1 : w1.rowPos sid ph = .ok k := by
            have : w1.stream sid = w.stream sid := by
              rw [← hw1]; exact hf.2.2.2.1
            simpa [World.rowPos, this] using hk
          have hth : (w.massView sid).2.th = (w.stream sid).th := hf.1.2.1.trans (by rw [hf.2.2.2.1])
          have hMW : ∀ th, w1.MW th = w.MW th := by
            intro th; rw [← hw1]; simp [World.MW, World.setElem, World.massView, (getView_cfg w sid .mass).1]
          have hi1 : ¬ i ≥ (w1.MW (w1.stream sid).th).length := by
            have : w1.stream sid = w.stream sid := by rw [← hw1]; exact hf.2.2.2.1
            rw [hMW, this]; exact hi
          refine ⟨w1, ?_, by rw [← hw1]; exact (getView_cfg w sid .mass).2⟩
          simp only [World.getElem, hk1, hi1, if_false, hagain, hr]
          congr 3
          have hrow : (w1.c.rows r).getD i 0 = y / (w.MW (w.stream sid).th).getD i 0 := by
            rw [← hw1]
            have : ((w.massView sid).1.MW (w.massView sid).2.th) = w.MW (w.stream sid).th := by
              rw [hth]; simp [World.MW, World.massView, (getView_cfg w sid .mass).1]
            rw [this]
            simp only [World.setElem, upd_same]
            rw [hf.2.2.1]
            exact set_getD _ _ _ hlen
          rw [hrow, hMW, hth]
          field_simp
      | vol =>
        simp only at hput
        have hf := volView_facts h hs hv
        split at hput
        · cases hput
        · rename_i r hr
          cases hput
          have hr' : (w.rowsOf sid)[k]? = some r := by rw [← hf.2.2.2.2.2.1]; exact hr
          have hlen := hok.len k r hk hr'
          have hl0 := hl rfl
          have hl1 := vline_transfer hl0 hf.2.2.2.1 hf.2.2.2.2.1 (by rw [hf.2.2.1]) (by rw [hf.2.2.1])
          have hr1 : ((w.volView sid).1.rowsOf sid)[k]? = some r := by rw [hf.2.2.2.2.1]; exact hr'
          have hU := usedV_eq hf.2.1 hf.1 hf.2.2.2.2.2.2 k i (vAt V k i) (hl1 k r hr1 i)
          have hUnz : (w.volView sid).1.usedV (w.volView sid).2 k i (vAt V k i) ≠ 0 := by
            rw [hU, hf.2.2.2.1, hf.2.2.1]
            have := hok.vol rfl k hk
            simpa [streamPhase, hf.2.2.2.1, hf.2.2.1] using this
          generalize hU0 : (w.volView sid).1.usedV (w.volView sid).2 k i (vAt V k i) = U at *
          generalize hw1 : (((w.volView sid).1.addEntries (w.volView sid).2
              (if y = 0 then [] else (w.volView sid).1.newEntry (w.volView sid).2 k i (vAt V k i))).setElem r i (y / U)) = w1
          have hstream : w1.stream sid = w.stream sid := by rw [← hw1]; exact hf.2.2.2.1
          have hs1 : w1.s = (w.getView sid (.vol (w.stream sid).tc)).1.s := by rw [← hw1]; rfl
          have hagain : w1.volView sid = (w1, (w.volView sid).2) := by
            have := getView_again (w := w) (w1 := w1) (sid := sid) (key := .vol (w.stream sid).tc) hs1
            simpa [World.volView, hstream] using this
          have hk1 : w1.rowPos sid ph = .ok k := by simpa [World.rowPos, hstream] using hk
          have hi1 : ¬ i ≥ (w1.MW (w1.stream sid).th).length := by
            have hMW : ∀ th, w1.MW th = w.MW th := by
              intro th; rw [← hw1]
              simp [World.MW, World.setElem, World.addEntries, World.volView, (getView_cfg w sid _).1]
            rw [hMW, hstream]; exact hi
          have hrow : (w1.c.rows r).getD i 0 = y / U := by
            rw [← hw1]
            simp only [World.setElem, World.addEntries, upd_same]
            rw [hf.2.2.1]
            exact set_getD _ _ _ hlen
          refine ⟨w1.addEntries (w.volView sid).2 (if (w1.c.rows r).getD i 0 = 0 then []
                    else w1.newEntry (w.volView sid).2 k i (vAt V' k i)), ?_, ?_⟩
          · simp only [World.getElem, hk1, hi1, if_false, hagain, hr]
            congr 3
            rw [hrow]
            by_cases hy : y = 0
            · simp [hy]
            · have hst := usedV_stable (w.volView sid).1 (w.volView sid).2 k i (vAt V k i) (vAt V' k i) w1
                (by rw [← hw1]; simp [World.setElem, World.addEntries, hy])
                (by rw [← hw1]; rfl) (by rw [← hw1]; rfl)
              rw [hst, hU0]
              field_simp
          · rw [← hw1]; exact (getView_cfg w sid _).2
      | other => simp at hput

theorem putElem_units {w w1 : World} {sid : Nat} {d : Dim} {ph : Option Char} {i : Nat} {y : Rat} {V : Mat}
    {vid : Option Nat} (hput : w.putElem sid d ph i y V = .ok (w1, vid)) : w1.units = w.units := by
  simp only [World.putElem] at hput
  split at hput
  · cases hput
  · split at hput
    · cases hput
    · split at hput
      · split at hput
        · cases hput
        · cases hput; rfl
      · split at hput
        · cases hput
        · cases hput; exact (getView_cfg w sid _).2
      · split at hput
        · cases hput
        · cases hput; exact (getView_cfg w sid _).2
      · cases hput

/-- **set_get_other_unit.**  `set_flow(x, u, key)` followed by `get_flow(u', key)` in a unit of the same dimension
returns `x · f(u')/f(u)` — through the molar data, the mass view or the volumetric view alike, whatever state the
views' caches were in. -/
theorem set_get_other_unit {Vf : VFun} {w w1 : World} {sid : Nat} {u u' : String} {ph : Option Char} {i : Nat}
    {x : Rat} {V V' : Mat} {vid : Option Nat} {a b : UnitDef}
    (h : Inv w.s) (hs : sid < w.s.nstreams) (hv : VValid Vf w.c)
    (ha : findUnit w.units u = some a) (hb : findUnit w.units u' = some b) (hdim : a.dim = b.dim)
    (hao : a.dim ≠ .other) (hfa : a.factor ≠ 0)
    (hl : a.dim = .vol → VLine Vf w sid V) (hok : PutOk Vf w sid a.dim ph i)
    (hset : w.setFlow sid u ph i x V = .ok (w1, vid)) :
    ∃ w2, w1.getFlow sid u' ph i V' = .ok (w2, vid, x * conv a b) := by
  simp only [World.setFlow, flowUnit_ok ha hao] at hset
  obtain ⟨w2, hget, -⟩ := put_get_elem (V' := V') h hs hv hl hok hset
  have hb' : findUnit w1.units u' = some b := by rw [putElem_units hset]; exact hb
  have hbo : b.dim ≠ .other := hdim ▸ hao
  refine ⟨w2, ?_⟩
  simp only [World.getFlow, flowUnit_ok hb' hbo, ← hdim, hget, conv]
  congr 3
  field_simp

/-- **set_get_same_unit.**  `set_flow(x, u, key)` followed by `get_flow(u, key)` returns `x`. -/
theorem set_get_same_unit {Vf : VFun} {w w1 : World} {sid : Nat} {u : String} {ph : Option Char} {i : Nat}
    {x : Rat} {V V' : Mat} {vid : Option Nat} {a : UnitDef}
    (h : Inv w.s) (hs : sid < w.s.nstreams) (hv : VValid Vf w.c)
    (ha : findUnit w.units u = some a) (hao : a.dim ≠ .other) (hfa : a.factor ≠ 0)
    (hl : a.dim = .vol → VLine Vf w sid V) (hok : PutOk Vf w sid a.dim ph i)
    (hset : w.setFlow sid u ph i x V = .ok (w1, vid)) :
    ∃ w2, w1.getFlow sid u ph i V' = .ok (w2, vid, x) := by
  obtain ⟨w2, hget⟩ := set_get_other_unit (V' := V') h hs hv ha ha rfl hao hfa hl hok hset
  rw [(factor_consistent a a a hfa hfa).1, mul_one] at hget
  exact ⟨w2, hget⟩

/-! ## whole-row assignment through a view -/

theorem divVec_mulVec (xs mw : List Rat) (hl : xs.length = mw.length) (hz : ∀ m ∈ mw, m ≠ 0) :
    mulVec (divVec xs mw) mw = xs := by
  induction xs generalizing mw with
  | nil => simp [mulVec, divVec]
  | cons a t ih =>
    cases mw with
    | nil => simp at hl
    | cons b u =>
      simp only [mulVec, divVec, List.zipWith_cons_cons, List.cons.injEq] at ih ⊢
      have hb : b ≠ 0 := hz b (by simp)
      refine ⟨by field_simp, ih u (by simpa using hl) (fun m hm => hz m (by simp [hm]))⟩

/-- **put_row_mass_spec.**  `s.mass = values` / `s.imass[phase] = values` (an ndarray or another stream's mass view):
the addressed molar row becomes `values_i / MW_i` with the *receiver's* molecular weights; nothing else is rebound. -/
theorem put_row_mass_spec {w w' : World} {sid : Nat} {ph : Option Char} {xs : List Rat} {V : Mat}
    {vid : Option Nat} (h : Inv w.s) (hs : sid < w.s.nstreams)
    (he : w.putRow sid .mass ph xs V = .ok (w', vid)) :
    ∃ k r, w.rowPos sid ph = .ok k ∧ (w.rowsOf sid)[k]? = some r ∧
      w'.c.rows r = divVec xs (w.MW (w.stream sid).th) ∧ xs.length = (w.MW (w.stream sid).th).length ∧
      w'.rowsOf sid = w.rowsOf sid ∧ w'.stream sid = w.stream sid ∧ w'.thermos = w.thermos := by
  have hg := (getView_good h hs (key := .mass) (Or.inl rfl)).1
  have hcfg := (getView_cfg w sid .mass).1
  have hst := getView_streams w sid .mass
  have hstream : (w.massView sid).1.stream sid = w.stream sid := by
    simp only [World.massView, World.stream, Struct.ixOf, hst.1, hst.2.2.2]
  simp only [World.putRow] at he
  split at he
  · cases he
  · rename_i k hk
    split at he
    · cases he
    · rename_i hlen
      split at he
      · cases he
      · rename_i r hr
        cases he
        refine ⟨k, r, hk, ?_, ?_, Decidable.of_not_not hlen, ?_, ?_, hcfg⟩
        · have : (w.massView sid).2.rows = w.rowsOf sid := hg.1
          rw [← this]; exact hr
        · have hth : (w.massView sid).2.th = (w.stream sid).th := hg.2.1
          simp only [World.setRow, upd_same, World.MW, hth]
          rw [show (w.massView sid).1.thermos = w.thermos from hcfg]
        · show ((w.massView sid).1.rowsOf sid) = w.rowsOf sid
          simp only [World.rowsOf, hstream]
          rw [show (w.massView sid).1.s.datas = w.s.datas from hst.2.2.1]
        · exact hstream

/-- **put_row_vol_spec.**  `s.vol = values`, `s.ivol.data.copy_like(other.vol)`, `s.ivol[phase] = values`: the addressed
molar row becomes `values_i / (1000·V_i)` with the molar volumes at the **receiver's** chemicals, phase, T and P —
whatever stream the values came from and whatever the views' caches held. -/
theorem put_row_vol_spec {Vf : VFun} {w w' : World} {sid : Nat} {ph : Option Char} {xs : List Rat} {V : Mat}
    {vid : Option Nat} (h : Inv w.s) (hs : sid < w.s.nstreams) (hv : VValid Vf w.c) (hl : VLine Vf w sid V)
    (he : w.putRow sid .vol ph xs V = .ok (w', vid)) :
    ∃ k r, w.rowPos sid ph = .ok k ∧ (w.rowsOf sid)[k]? = some r ∧
      w'.c.rows r = xs.zipIdx.map (fun (x, i) => x / Vf (w.stream sid).th (streamPhase w sid k)
        (w.c.tcs (w.stream sid).tc).1 (w.c.tcs (w.stream sid).tc).2 i) := by
  have hf := volView_facts h hs hv
  simp only [World.putRow] at he
  split at he
  · cases he
  · rename_i k hk
    split at he
    · cases he
    · split at he
      · cases he
      · rename_i r hr
        cases he
        have hr' : (w.rowsOf sid)[k]? = some r := by rw [← hf.2.2.2.2.2.1]; exact hr
        refine ⟨k, r, hk, hr', ?_⟩
        simp only [World.setRow, upd_same]
        apply List.map_congr_left
        rintro ⟨x, i⟩ -
        have hl1 := vline_transfer hl hf.2.2.2.1 hf.2.2.2.2.1 (by rw [hf.2.2.1]) (by rw [hf.2.2.1])
        have hr1 : ((w.volView sid).1.rowsOf sid)[k]? = some r := by rw [hf.2.2.2.2.1]; exact hr'
        have hU := usedV_eq hf.2.1 hf.1 hf.2.2.2.2.2.2 k i (vAt V k i) (hl1 k r hr1 i)
        simp only
        rw [hU, hf.2.2.2.1, hf.2.2.1]
        simp [streamPhase, hf.2.2.2.1, hf.2.2.1]

/-- **put_row_mass_reads_back.**  After a whole-row assignment through the mass view, the mass view reads back exactly the
assigned values (non-zero molecular weights). -/
theorem put_row_mass_reads_back {w w' : World} {sid : Nat} {ph : Option Char} {xs : List Rat} {V : Mat}
    {vid : Option Nat} (h : Inv w.s) (hs : sid < w.s.nstreams)
    (hmw : ∀ m ∈ w.MW (w.stream sid).th, m ≠ 0)
    (he : w.putRow sid .mass ph xs V = .ok (w', vid)) :
    ∃ k, w.rowPos sid ph = .ok k ∧ (w'.readMass sid).2.2[k]? = some xs := by
  obtain ⟨k, r, hk, hr, hrow, hlen, hrows, hstream, hth⟩ := put_row_mass_spec h hs he
  obtain ⟨hI, hn⟩ := inv_putRow h hs he
  refine ⟨k, hk, ?_⟩
  rw [mass_is_mol_MW hI (by rw [hn]; exact hs)]
  simp only [World.readMol, hrows, hstream, List.getElem?_map, hr, Option.map_some]
  have : w'.MW (w.stream sid).th = w.MW (w.stream sid).th := by simp [World.MW, hth]
  rw [hrow, this, divVec_mulVec xs _ hlen hmw]

/-! ## proxies and phase views -/

/-- **proxy_spec.**  `proxy()` creates a stream object that holds the very same indexer object (hence the same data,
`_data_cache`, phase container) and the same thermal-condition object; `flow_proxy()` one that holds the same data object
through an indexer of its own with a brand-new `_data_cache`. -/
theorem proxy_spec (w : World) (sid : Nat) :
    ((w.proxy sid).1.s.streams (w.proxy sid).2).ix = (w.s.streams sid).ix ∧
    ((w.proxy sid).1.stream (w.proxy sid).2).tc = (w.stream sid).tc ∧
    (w.proxy sid).1.rowsOf (w.proxy sid).2 = w.rowsOf sid ∧
    ((w.proxy sid).1.stream (w.proxy sid).2).cache = (w.stream sid).cache := by
  simp [World.proxy, World.stream, World.rowsOf, Struct.ixOf, upd]

theorem flowProxy_spec (w : World) (sid : Nat) :
    (w.flowProxy sid).1.rowsOf (w.flowProxy sid).2 = w.rowsOf sid ∧
    ((w.flowProxy sid).1.stream (w.flowProxy sid).2).cache = w.s.ncaches ∧
    (w.flowProxy sid).1.s.caches w.s.ncaches = [] := by
  simp [World.flowProxy, World.stream, World.rowsOf, Struct.ixOf, Struct.bindNew, upd]

/-- **holders_of_one_indexer_agree.**  In every reachable state, two stream objects that hold the same indexer object (a
stream and its `proxy()`, after any operations on either) read the same molar data, and their mass views read the same
values: both are `mol × MW` of the one indexer. -/
theorem holders_of_one_indexer_agree {w : World} {p q : Nat} (h : Inv w.s) (hp : p < w.s.nstreams)
    (hq : q < w.s.nstreams) (hix : (w.s.streams p).ix = (w.s.streams q).ix) :
    w.readMol p = w.readMol q ∧ (w.readMass p).2.2 = (w.readMass q).2.2 ∧
    (w.stream p).cache = (w.stream q).cache := by
  have hs : ∀ f : Stream → Nat, f (w.s.ixOf p) = f (w.s.ixOf q) := by
    intro f; simp [Struct.ixOf, hix]
  have hmol : w.readMol p = w.readMol q := by
    simp only [World.readMol, World.rowsOf, World.stream]
    rw [show (w.s.ixOf p).data = (w.s.ixOf q).data from hs (·.data)]
  refine ⟨hmol, ?_, hs (·.cache)⟩
  rw [mass_is_mol_MW h hp, mass_is_mol_MW h hq, hmol]
  simp only [World.stream]
  rw [show (w.s.ixOf p).th = (w.s.ixOf q).th from hs (·.th)]

/-- a phase view `v` of `p` for phase label `c` is *attached*: it wraps the row object `p` files `c` under, and refers to
`p`'s thermal-condition object and chemicals -/
def Attached (w : World) (p : Nat) (c : Char) (v : Nat) : Prop :=
  ∃ r, w.rowFor p c = some r ∧ w.rowsOf v = [r] ∧ (w.stream v).tc = (w.stream p).tc ∧
    (w.stream v).th = (w.stream p).th ∧ (w.stream v).multi = false

/-- **phaseView_attached.**  The first `ms[c]` hands out an attached view. -/
theorem phaseView_attached {w w' : World} {sid v : Nat} {c : Char} (h : Inv w.s) (hs : sid < w.s.nstreams)
    (hnew : (w.views sid).lookup c = none) (he : w.phaseView sid c = .ok (w', v)) : Attached w' sid c v := by
  simp only [World.phaseView, hnew] at he
  split at he
  · cases he
  · split at he
    · cases he
    · rename_i r hr
      cases he
      have hne : ¬ w.s.nstreams = sid := fun e => Nat.lt_irrefl _ (e ▸ hs)
      have hne' : ¬ sid = w.s.nstreams := fun e => hne e.symm
      have hix : ¬ (w.s.streams sid).ix = w.s.nixs := Nat.ne_of_lt (h.bix sid hs)
      have hd : ¬ (w.s.ixs (w.s.streams sid).ix).data = w.s.ndatas := Nat.ne_of_lt (h.bdata sid hs)
      refine ⟨r, ?_, ?_, ?_, ?_, ?_⟩
      · simp only [World.rowFor, World.rowsOf, World.stream, Struct.ixOf] at hr
        simp [World.rowFor, World.rowsOf, World.stream, World.setViews, World.attach, Struct.ixOf,
          Struct.bindNew, Struct.allocData, upd, hne, hne', hix, hd]
        exact hr
      · simp [World.rowsOf, World.stream, World.setViews, World.attach, Struct.ixOf, Struct.bindNew,
          Struct.allocData, upd, hne, hne', hix, hd]
      · simp [World.stream, World.setViews, World.attach, Struct.ixOf, Struct.bindNew, Struct.allocData, upd, hne, hne', hix, hd]
      · simp [World.stream, World.setViews, World.attach, Struct.ixOf, Struct.bindNew, Struct.allocData, upd, hne, hne', hix, hd]
      · simp [World.stream, World.setViews, World.attach, Struct.ixOf, Struct.bindNew, Struct.allocData, upd, hne, hne', hix, hd]

/-- **write_through_view_reaches_parent.**  A whole-row assignment through the mass accessor of an attached phase view
(`ms[c].mass = values`) sets the row of that phase *in the parent* to `values_i / MW_i`; conversely the view reads the
parent's row (they hold the same row object). -/
theorem write_through_view_reaches_parent {w w' : World} {p v : Nat} {c : Char} {xs : List Rat} {V : Mat}
    {vid : Option Nat} (h : Inv w.s) (hv : v < w.s.nstreams) (ha : Attached w p c v)
    (he : w.putRow v .mass none xs V = .ok (w', vid)) :
    ∃ r, w.rowFor p c = some r ∧ w'.c.rows r = divVec xs (w.MW (w.stream p).th) ∧
      w.readMol v = [w.c.rows r] ∧ w'.readMol v = [w'.c.rows r] := by
  obtain ⟨r, hr, hrows, -, hth, hm⟩ := ha
  obtain ⟨k, r', hk, hr', hrow, -, hrows', -, -⟩ := put_row_mass_spec h hv he
  have hk0 : k = 0 := by
    simp only [World.rowPos, hm] at hk
    cases hk; rfl
  subst hk0
  rw [hrows] at hr'
  simp only [List.getElem?_cons_zero, Option.some.injEq] at hr'
  subst hr'
  refine ⟨r, hr, by rw [hrow, hth], ?_, ?_⟩
  · simp [World.readMol, hrows]
  · simp [World.readMol, hrows', hrows]

/-! ## the code as found violates the property (reproduced in the model by the `…Old` variants) -/

/-- two linked single-phase streams -/
def twoStreams : World :=
  let w := ({ thermos := [[18]] } : World)
  let w := (w.newStream false [] 'l' 0 300 101325 [[1]]).1
  (w.newStream false [] 'l' 0 300 101325 [[0]]).1

/-- **unlink_clear_in_place_counterexample** (fixes_proposed/C11-2).  With `unlink` as found (`_data_cache.clear()`),
`s1.link_with(s0); s1.unlink(); s1.imass` leaves in `s0`'s `_data_cache` a mass view that wraps `s1`'s rows: the
invariant of `view_tracks_rows` fails.  With the repaired `unlink` the same history leaves `s0`'s cache empty. -/
theorem unlink_clear_in_place_counterexample :
    ¬ Inv (((twoStreams.linkShare 1 0 true).unlinkOld 1).massView 1).1.s ∧
    Inv (((twoStreams.linkShare 1 0 true).unlink 1).massView 1).1.s := by
  constructor
  · intro h
    have hbad : ∃ kv ∈ (((twoStreams.linkShare 1 0 true).unlinkOld 1).massView 1).1.s.caches
          ((((twoStreams.linkShare 1 0 true).unlinkOld 1).massView 1).1.stream 0).cache,
        kv.2.rows ≠ (((twoStreams.linkShare 1 0 true).unlinkOld 1).massView 1).1.s.datas
          ((((twoStreams.linkShare 1 0 true).unlinkOld 1).massView 1).1.stream 0).data := by decide
    obtain ⟨kv, hmem, hne⟩ := hbad
    exact hne (h.tracks 0 (by decide) kv hmem).1
  · have h2 : Inv twoStreams.s := inv_newStream (inv_newStream inv_init _ _ _ _ _ _ _) _ _ _ _ _ _ _
    have h3 : Inv (twoStreams.linkShare 1 0 true).s :=
      inv_linkShare h2 (by decide) (by decide) (by decide) (by decide) (Or.inl rfl)
    exact inv_getView (inv_unlink h3) (by decide) (Or.inl rfl)

/-- the same for the non-sharing branch of `link_with` as found -/
theorem relink_clear_in_place_counterexample :
    ¬ Inv ((((twoStreams.newStream false [] 'l' 0 300 101325 [[4]]).1.linkShare 1 0 true).linkPlain false 1 2 true false
          false).massView 1).1.s := by
  intro h
  have hbad : ∃ kv ∈ ((((twoStreams.newStream false [] 'l' 0 300 101325 [[4]]).1.linkShare 1 0 true).linkPlain false 1 2
        true false false).massView 1).1.s.caches
        (((((twoStreams.newStream false [] 'l' 0 300 101325 [[4]]).1.linkShare 1 0 true).linkPlain false 1 2 true false
          false).massView 1).1.stream 0).cache,
      kv.2.rows ≠ ((((twoStreams.newStream false [] 'l' 0 300 101325 [[4]]).1.linkShare 1 0 true).linkPlain false 1 2
        true false false).massView 1).1.s.datas
        (((((twoStreams.newStream false [] 'l' 0 300 101325 [[4]]).1.linkShare 1 0 true).linkPlain false 1 2 true false
          false).massView 1).1.stream 0).data := by decide
  obtain ⟨kv, hmem, hne⟩ := hbad
  exact hne (h.tracks 0 (by decide) kv hmem).1

/-- a two-phase stream with its views cached, and the world after `_expand_phases(['s'])` as found / repaired -/
def twoPhase : World :=
  (((({ thermos := [[18]] } : World).newStream true ['g', 'l'] 'l' 0 300 101325 [[1], [2]]).1.massView 0).1)

def expanded (clear : Bool) : World :=
  match World.expandPhases clear twoPhase 0 ['s'] with
  | .ok w => w
  | .error _ => twoPhase

/-- **expand_keeps_cache_counterexample** (fixes_proposed/C11-3).  After `_expand_phases` as found, the cached mass
view still wraps the two old rows while the stream holds three. -/
theorem expand_keeps_cache_counterexample : ¬ Inv (expanded false).s ∧ Inv (expanded true).s := by
  constructor
  · intro h
    have hbad : ∃ kv ∈ (expanded false).s.caches ((expanded false).stream 0).cache,
        kv.2.rows ≠ (expanded false).s.datas ((expanded false).stream 0).data := by decide
    obtain ⟨kv, hmem, hne⟩ := hbad
    exact hne (h.tracks 0 (by decide) kv hmem).1
  · have h1 : Inv twoPhase.s := inv_getView (inv_newStream inv_init _ _ _ _ _ _ _) (by decide) (Or.inl rfl)
    have hok : (World.expandPhases true twoPhase 0 ['s']).toBool = true := by decide +kernel
    cases hx : World.expandPhases true twoPhase 0 ['s'] with
    | error e => rw [hx] at hok; cases hok
    | ok w =>
      have : expanded true = w := by simp [expanded, hx]
      rw [this]
      exact (inv_expandPhases h1 (by decide) hx).1

/-- a liquid stream whose volumetric view was read (liquid molar volume 2 cached), then switched to gas -/
def nowGas : World :=
  let w := (({ thermos := [[18]] } : World).newStream false [] 'l' 0 300 101325 [[1]]).1
  match (w.readVol 0 [[2]]).1.setPhase 0 'g' [] with
  | .ok w => w
  | .error _ => w

/-- **vol_cache_keyed_on_TP_only_counterexample** (fixes_proposed/C11-1).  With the cache test as found (T and P only)
the view keeps using the liquid volume 2 after the phase changed to gas, where the fresh gas volume is 50; keyed on the
phase too it uses 50. -/
theorem vol_cache_keyed_on_TP_only_counterexample :
    nowGas.usedVOld (nowGas.volView 0).2 0 0 50 = 2 ∧ nowGas.usedV (nowGas.volView 0).2 0 0 50 = 50 ∧
    (nowGas.readVol 0 [[50]]).2.2 = [[50]] ∧ nowGas.Fvol 0 [[50]] = 50 := by
  decide +kernel

/-! ## non-vacuity: the hypotheses are met by concrete, non-trivial states -/

/-- a table with two mass units, one molar, one volumetric and a non-flow unit -/
def demoUnits : List UnitDef :=
  [⟨"kmol/hr", molDim, 1⟩, ⟨"kg/hr", massDim, 1⟩, ⟨"lb/hr", massDim, 11/5⟩, ⟨"m3/hr", volDim, 1⟩,
   ⟨"K", [0, 0, 0, 0, 1, 0, 0, 0], 0⟩]

def demoStart : World := { thermos := [[18, 46]], units := demoUnits }

/-- molar volumes: 2, 3 in the liquid, 50, 60 otherwise (independent of T, P and the package) -/
def demoVf : VFun := fun _ ph _ _ i => if ph = 'l' then ([2, 3] : List Rat).getD i 0 else ([50, 60] : List Rat).getD i 0

/-- a history that links, reads, unlinks and reads again -/
def demoLinkOps : List Op :=
  [.new1 0 'l' 300 101325 [1, 2], .new1 0 'l' 320 101325 [0, 0], .readMass 0, .link 1 0 true true true,
   .readMass 1, .unlink 1, .put 1 .mol none 0 7 [], .readMass 1, .readMass 0]

/-- a liquid stream whose volumetric view is cached, then switched to the gas phase -/
def demoVolOps : List Op :=
  [.new1 0 'l' 300 101325 [1, 2], .readVol 0 [[2, 3]], .setPhase 0 'g' [], .setT 0 350]

theorem demoVLine {w : World} {V : Mat} {ph : Char} (hr : w.rowsOf 0 = [0]) (hp : streamPhase w 0 0 = ph)
    (hV : ∀ i, vAt V 0 i = demoVf 0 ph 0 0 i) : VLine demoVf w 0 V := by
  intro k r hk i
  rw [hr] at hk
  cases k with
  | zero => rw [hp]; exact hV i
  | succ n => simp at hk

theorem demoVol_ok : RunOk demoVf demoStart demoVolOps := by
  refine ⟨trivial, ?_, trivial, trivial, trivial⟩
  exact demoVLine (ph := 'l') (by decide +kernel) (by decide +kernel) (fun i => by simp [vAt, demoVf])

/-- `set_get_other_unit` / `set_get_same_unit` are not vacuous: 20 lb/hr of chemical 1 set through the mass view of a
two-stream world reads back as 20 lb/hr and as 20·(1/(11/5)) kg/hr. -/
theorem demoLink_ok : RunOk demoVf demoStart demoLinkOps := by
  refine ⟨trivial, trivial, trivial, trivial, trivial, trivial, ?_, trivial, trivial, trivial⟩
  intro h; cases h

end ThermoVerif.FlowViews
