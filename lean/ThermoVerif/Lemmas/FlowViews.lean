import ThermoVerif.Model.FlowViews
/-
Helper lemmas for C11: the structural invariant of the view caches (`Inv`) and its preservation by
every primitive that touches identities.  Core Lean only.

Stream objects hold indexer objects (`Struct.ixOf`); a `proxy()` holds the same indexer object as its original, so
every statement is about "the indexer of stream i" and an update of one indexer object is seen by all its holders.
-/
namespace ThermoVerif.FlowViews

/-- The fields of an indexer a cached view depends on. -/
def Same (s t : Stream) : Prop :=
  s.data = t.data ∧ s.th = t.th ∧ s.viewPhases = t.viewPhases ∧ s.viewPc = t.viewPc

theorem Same.refl (s : Stream) : Same s s := ⟨rfl, rfl, rfl, rfl⟩
theorem Same.symm {s t : Stream} (h : Same s t) : Same t s :=
  ⟨h.1.symm, h.2.1.symm, h.2.2.1.symm, h.2.2.2.symm⟩
theorem Same.trans {s t u : Stream} (h : Same s t) (g : Same t u) : Same s u :=
  ⟨h.1.trans g.1, h.2.1.trans g.2.1, h.2.2.1.trans g.2.2.1, h.2.2.2.trans g.2.2.2⟩

/-- A cache entry is *good for* indexer `s`: the view wraps exactly the row objects `s` currently holds,
captured `s`'s current chemicals and phases / phase container, and is filed under `'mass'` or under the
thermal-condition object it refers to (so a stream that looks its own thermal condition up gets a view of it). -/
def Good (z : Struct) (s : Stream) (kv : Key × View) : Prop :=
  kv.2.rows = z.datas s.data ∧ kv.2.th = s.th ∧ kv.2.phases = s.viewPhases ∧ kv.2.pc = s.viewPc ∧
  (kv.1 = .mass ∨ kv.1 = .vol kv.2.tc)

theorem Good.of_same {z : Struct} {s t : Stream} {kv : Key × View} (h : Same s t) (g : Good z s kv) :
    Good z t kv := by
  obtain ⟨h1, h2, h3, h4⟩ := h
  obtain ⟨g1, g2, g3, g4, g5⟩ := g
  exact ⟨by rw [g1, h1], by rw [g2, h2], by rw [g3, h3], by rw [g4, h4], g5⟩

theorem Good.tc_of_vol {z : Struct} {s : Stream} {t : Nat} {v : View} (g : Good z s (.vol t, v)) : v.tc = t := by
  rcases g.2.2.2.2 with h | h
  · cases h
  · simp only [Key.vol.injEq] at h; exact h.symm

/-- The invariant behind `view_tracks_rows`. -/
structure Inv (z : Struct) : Prop where
  bix : ∀ i, i < z.nstreams → (z.streams i).ix < z.nixs
  bcache : ∀ i, i < z.nstreams → (z.ixOf i).cache < z.ncaches
  bdata : ∀ i, i < z.nstreams → (z.ixOf i).data < z.ndatas
  /-- streams whose indexers hold the same `_data_cache` dict hold the same data, chemicals, phases -/
  coh : ∀ i j, i < z.nstreams → j < z.nstreams → (z.ixOf i).cache = (z.ixOf j).cache →
        Same (z.ixOf i) (z.ixOf j)
  /-- every cached view is good for every stream that can reach it -/
  tracks : ∀ i, i < z.nstreams → ∀ kv ∈ z.caches (z.ixOf i).cache, Good z (z.ixOf i) kv

theorem inv_init : Inv ({} : Struct) :=
  ⟨fun _ h => absurd h (Nat.not_lt_zero _), fun _ h => absurd h (Nat.not_lt_zero _),
   fun _ h => absurd h (Nat.not_lt_zero _), fun _ _ h => absurd h (Nat.not_lt_zero _),
   fun _ h => absurd h (Nat.not_lt_zero _)⟩

@[simp] theorem upd_same {α : Type} (f : Nat → α) (i : Nat) (x : α) : upd f i x i = x := by simp [upd]
theorem upd_ne {α : Type} (f : Nat → α) {i j : Nat} (x : α) (h : j ≠ i) : upd f i x j = f j := by
  simp [upd, h]

/-- The streams in `C` get (one and the same) brand-new `_data_cache`; their data object is an existing one or brand-new.
Everything reachable from the other streams is untouched. -/
theorem inv_fresh {z z' : Struct} (C : Nat → Prop) (h : Inv z)
    (hbix : ∀ i, i < z'.nstreams → (z'.streams i).ix < z'.nixs)
    (hold : ∀ i, i < z'.nstreams → ¬ C i → i < z.nstreams ∧ z'.ixOf i = z.ixOf i)
    (hc : ∀ i, C i → (z'.ixOf i).cache = z.ncaches)
    (hd : ∀ i, C i → (z'.ixOf i).data < z'.ndatas)
    (hsame : ∀ i j, C i → C j → Same (z'.ixOf i) (z'.ixOf j))
    (hnc : z'.ncaches = z.ncaches + 1)
    (hcs : ∀ c, c < z.ncaches → z'.caches c = z.caches c)
    (hce : z'.caches z.ncaches = [])
    (hnd : z.ndatas ≤ z'.ndatas)
    (hds : ∀ d, d < z.ndatas → z'.datas d = z.datas d) : Inv z' := by
  refine ⟨hbix, ?_, ?_, ?_, ?_⟩
  · intro i hi
    by_cases e : C i
    · rw [hc i e, hnc]; exact Nat.lt_succ_self _
    · obtain ⟨hi', he⟩ := hold i hi e
      rw [he, hnc]; exact Nat.lt_succ_of_lt (h.bcache i hi')
  · intro i hi
    by_cases e : C i
    · exact hd i e
    · obtain ⟨hi', he⟩ := hold i hi e
      rw [he]; exact Nat.lt_of_lt_of_le (h.bdata i hi') hnd
  · intro i j hi hj hij
    by_cases ei : C i
    · by_cases ej : C j
      · exact hsame i j ei ej
      · exfalso
        obtain ⟨hj', he⟩ := hold j hj ej
        rw [hc i ei, he] at hij
        have := h.bcache j hj'
        omega
    · by_cases ej : C j
      · exfalso
        obtain ⟨hi', he⟩ := hold i hi ei
        rw [hc j ej, he] at hij
        have := h.bcache i hi'
        omega
      · obtain ⟨hi', hei⟩ := hold i hi ei
        obtain ⟨hj', hej⟩ := hold j hj ej
        rw [hei, hej] at hij ⊢
        exact h.coh i j hi' hj' hij
  · intro i hi kv hkv
    by_cases e : C i
    · rw [hc i e, hce] at hkv; cases hkv
    · obtain ⟨hi', he⟩ := hold i hi e
      rw [he] at hkv ⊢
      rw [hcs _ (h.bcache i hi')] at hkv
      obtain ⟨g1, g2⟩ := h.tracks i hi' kv hkv
      exact ⟨by rw [g1, hds _ (h.bdata i hi')], g2⟩

/-- A view that is good for stream `sid` is added to `sid`'s `_data_cache` (`by_mass` / `by_volume` on a miss). -/
theorem inv_addEntry {z z' : Struct} {sid : Nat} {kv : Key × View} (h : Inv z) (hs : sid < z.nstreams)
    (hg : Good z (z.ixOf sid) kv)
    (hn : z'.nstreams = z.nstreams) (hst : z'.streams = z.streams) (hni : z'.nixs = z.nixs) (hix : z'.ixs = z.ixs)
    (hnc : z'.ncaches = z.ncaches) (hnd : z'.ndatas = z.ndatas) (hds : z'.datas = z.datas)
    (hca : z'.caches = upd z.caches (z.ixOf sid).cache (kv :: z.caches (z.ixOf sid).cache)) : Inv z' := by
  have hof : ∀ i, z'.ixOf i = z.ixOf i := by intro i; simp [Struct.ixOf, hst, hix]
  refine ⟨?_, ?_, ?_, ?_, ?_⟩
  · intro i hi; rw [hst, hni]; exact h.bix i (hn ▸ hi)
  · intro i hi; rw [hof, hnc]; exact h.bcache i (hn ▸ hi)
  · intro i hi; rw [hof, hnd]; exact h.bdata i (hn ▸ hi)
  · intro i j hi hj; rw [hof, hof]; exact h.coh i j (hn ▸ hi) (hn ▸ hj)
  · intro i hi kv' hkv
    have hi' : i < z.nstreams := hn ▸ hi
    rw [hof] at hkv ⊢
    have goodz : ∀ x, Good z (z.ixOf i) x → Good z' (z.ixOf i) x := by
      intro x ⟨g1, g2⟩; exact ⟨by rw [g1, hds], g2⟩
    rw [hca] at hkv
    by_cases e : (z.ixOf i).cache = (z.ixOf sid).cache
    · rw [e, upd_same] at hkv
      cases hkv with
      | head => exact goodz _ (Good.of_same (h.coh sid i hs hi' e.symm) hg)
      | tail _ hm => exact goodz _ (h.tracks i hi' kv' (e ▸ hm))
    · rw [upd_ne _ _ e] at hkv
      exact goodz _ (h.tracks i hi' kv' hkv)

/-- The streams in `C` (the holders of one indexer object) take over `_data_cache`, data (and phase container) of
stream `oid` (the sharing branch of `link_with`). -/
theorem inv_share {z z' : Struct} (C : Nat → Prop) {oid : Nat} (h : Inv z) (ho : oid < z.nstreams)
    (hn : z'.nstreams = z.nstreams)
    (hbix : ∀ i, i < z'.nstreams → (z'.streams i).ix < z'.nixs)
    (hold : ∀ i, ¬ C i → z'.ixOf i = z.ixOf i)
    (hc : ∀ i, C i → (z'.ixOf i).cache = (z.ixOf oid).cache)
    (hsame : ∀ i, C i → Same (z'.ixOf i) (z.ixOf oid))
    (hnc : z'.ncaches = z.ncaches) (hca : z'.caches = z.caches)
    (hnd : z'.ndatas = z.ndatas) (hds : z'.datas = z.datas) : Inv z' := by
  have good' : ∀ s x, Good z s x → Good z' s x := by
    intro s x ⟨g1, g2⟩; exact ⟨by rw [g1, hds], g2⟩
  refine ⟨hbix, ?_, ?_, ?_, ?_⟩
  · intro i hi
    by_cases e : C i
    · rw [hc i e, hnc]; exact h.bcache oid ho
    · rw [hold i e, hnc]; exact h.bcache i (hn ▸ hi)
  · intro i hi
    by_cases e : C i
    · rw [(hsame i e).1, hnd]; exact h.bdata oid ho
    · rw [hold i e, hnd]; exact h.bdata i (hn ▸ hi)
  · intro i j hi hj hij
    have hi' : i < z.nstreams := hn ▸ hi
    have hj' : j < z.nstreams := hn ▸ hj
    by_cases ei : C i
    · by_cases ej : C j
      · exact (hsame i ei).trans (hsame j ej).symm
      · rw [hc i ei, hold j ej] at hij
        rw [hold j ej]
        exact (hsame i ei).trans (h.coh oid j ho hj' hij)
    · by_cases ej : C j
      · rw [hc j ej, hold i ei] at hij
        rw [hold i ei]
        exact (h.coh i oid hi' ho hij).trans (hsame j ej).symm
      · rw [hold i ei, hold j ej] at hij ⊢
        exact h.coh i j hi' hj' hij
  · intro i hi kv hkv
    rw [hca] at hkv
    by_cases e : C i
    · rw [hc i e] at hkv
      exact good' _ _ (Good.of_same (hsame i e).symm (h.tracks oid ho kv hkv))
    · rw [hold i e] at hkv ⊢
      exact good' _ _ (h.tracks i (hn ▸ hi) kv hkv)

/-- `_expand_phases` (repaired): the row list of the data object of the streams in `C` (the holders of one indexer
object) is replaced and their `_data_cache` is cleared; no stream outside `C` holds that data object. -/
theorem inv_expand {z z' : Struct} (C : Nat → Prop) {sid : Nat} (h : Inv z) (hs : sid < z.nstreams)
    (hun : ∀ j, j < z.nstreams → ¬ C j → (z.ixOf j).data ≠ (z.ixOf sid).data)
    (hn : z'.nstreams = z.nstreams)
    (hbix : ∀ i, i < z'.nstreams → (z'.streams i).ix < z'.nixs)
    (hold : ∀ i, ¬ C i → z'.ixOf i = z.ixOf i)
    (hc : ∀ i, C i → (z'.ixOf i).cache = (z.ixOf sid).cache)
    (hd : ∀ i, C i → (z'.ixOf i).data = (z.ixOf sid).data)
    (hsame : ∀ i j, C i → C j → Same (z'.ixOf i) (z'.ixOf j))
    (hnc : z'.ncaches = z.ncaches) (hnd : z'.ndatas = z.ndatas)
    (hca : ∀ c, c ≠ (z.ixOf sid).cache → z'.caches c = z.caches c)
    (hce : z'.caches (z.ixOf sid).cache = [])
    (hds : ∀ d, d ≠ (z.ixOf sid).data → z'.datas d = z.datas d) : Inv z' := by
  have hcne : ∀ j, j < z.nstreams → ¬ C j → (z.ixOf j).cache ≠ (z.ixOf sid).cache := by
    intro j hj e hcj
    exact hun j hj e (h.coh j sid hj hs hcj).1
  refine ⟨hbix, ?_, ?_, ?_, ?_⟩
  · intro i hi
    by_cases e : C i
    · rw [hc i e, hnc]; exact h.bcache _ hs
    · rw [hold i e, hnc]; exact h.bcache i (hn ▸ hi)
  · intro i hi
    by_cases e : C i
    · rw [hd i e, hnd]; exact h.bdata _ hs
    · rw [hold i e, hnd]; exact h.bdata i (hn ▸ hi)
  · intro i j hi hj hij
    have hi' : i < z.nstreams := hn ▸ hi
    have hj' : j < z.nstreams := hn ▸ hj
    by_cases ei : C i
    · by_cases ej : C j
      · exact hsame i j ei ej
      · exfalso; rw [hc i ei, hold j ej] at hij; exact hcne j hj' ej hij.symm
    · by_cases ej : C j
      · exfalso; rw [hc j ej, hold i ei] at hij; exact hcne i hi' ei hij
      · rw [hold i ei, hold j ej] at hij ⊢
        exact h.coh i j hi' hj' hij
  · intro i hi kv hkv
    have hi' : i < z.nstreams := hn ▸ hi
    by_cases e : C i
    · rw [hc i e, hce] at hkv; cases hkv
    · rw [hold i e] at hkv ⊢
      rw [hca _ (hcne i hi' e)] at hkv
      obtain ⟨g1, g2⟩ := h.tracks i hi' kv hkv
      exact ⟨by rw [g1, hds _ (hun i hi' e)], g2⟩

/-- Only the stream objects change (a new stream object holding an existing indexer, other thermal condition,
other phase views): every stream of the new world holds the indexer some stream of the old world held. -/
theorem inv_meta {z z' : Struct} (h : Inv z)
    (hold : ∀ i, i < z'.nstreams → ∃ j, j < z.nstreams ∧ (z'.streams i).ix = (z.streams j).ix)
    (hni : z'.nixs = z.nixs) (hix : z'.ixs = z.ixs)
    (hnc : z'.ncaches = z.ncaches) (hca : z'.caches = z.caches)
    (hnd : z'.ndatas = z.ndatas) (hds : z'.datas = z.datas) : Inv z' := by
  have hof : ∀ i, i < z'.nstreams → ∃ j, j < z.nstreams ∧ z'.ixOf i = z.ixOf j := by
    intro i hi
    obtain ⟨j, hj, e⟩ := hold i hi
    exact ⟨j, hj, by simp [Struct.ixOf, hix, e]⟩
  have good' : ∀ s x, Good z s x → Good z' s x := by
    intro s x ⟨g1, g2⟩; exact ⟨by rw [g1, hds], g2⟩
  refine ⟨?_, ?_, ?_, ?_, ?_⟩
  · intro i hi
    obtain ⟨j, hj, e⟩ := hold i hi
    rw [e, hni]; exact h.bix j hj
  · intro i hi
    obtain ⟨j, hj, e⟩ := hof i hi
    rw [e, hnc]; exact h.bcache j hj
  · intro i hi
    obtain ⟨j, hj, e⟩ := hof i hi
    rw [e, hnd]; exact h.bdata j hj
  · intro i i2 hi hi2 hc
    obtain ⟨j, hj, e⟩ := hof i hi
    obtain ⟨j2, hj2, e2⟩ := hof i2 hi2
    rw [e, e2] at hc ⊢
    exact h.coh j j2 hj hj2 hc
  · intro i hi kv hkv
    obtain ⟨j, hj, e⟩ := hof i hi
    rw [e, hca] at hkv
    rw [e]
    exact good' _ _ (h.tracks j hj kv hkv)

theorem lookup_mem {α β : Type} [BEq α] [LawfulBEq α] {k : α} {v : β} :
    ∀ {l : List (α × β)}, l.lookup k = some v → (k, v) ∈ l
  | [], h => by simp [List.lookup] at h
  | (a, b) :: t, h => by
    simp only [List.lookup] at h
    split at h
    · rename_i heq
      have : k = a := by simpa using heq
      cases h; subst this; exact List.mem_cons_self
    · exact List.mem_cons_of_mem _ (lookup_mem h)

/-! ### the primitives of the model preserve `Inv` -/

/-- `Inv` only looks at the stream / indexer / cache / data tables. -/
theorem inv_of_eq {z z' : Struct} (h : Inv z) (h1 : z'.nstreams = z.nstreams) (h2 : z'.streams = z.streams)
    (h3 : z'.nixs = z.nixs) (h4 : z'.ixs = z.ixs) (h5 : z'.ncaches = z.ncaches) (h6 : z'.caches = z.caches)
    (h7 : z'.ndatas = z.ndatas) (h8 : z'.datas = z.datas) : Inv z' :=
  inv_meta h (fun i hi => ⟨i, h1 ▸ hi, by rw [h2]⟩) h3 h4 h5 h6 h7 h8

theorem inv_allocData {z : Struct} (h : Inv z) (rowIds : List Nat) : Inv (z.allocData rowIds) := by
  refine ⟨h.bix, h.bcache, ?_, h.coh, ?_⟩
  · intro i hi
    exact Nat.lt_succ_of_lt (h.bdata i hi)
  · intro i hi kv hkv
    obtain ⟨g1, g2⟩ := h.tracks i hi kv hkv
    refine ⟨?_, g2⟩
    have : (z.ixOf i).data ≠ z.ndatas := Nat.ne_of_lt (h.bdata i hi)
    show kv.2.rows = upd z.datas z.ndatas rowIds ((z.allocData rowIds).ixOf i).data
    rw [show ((z.allocData rowIds).ixOf i) = z.ixOf i from rfl, upd_ne _ _ this]; exact g1

/-- Stream `sid` (an existing stream object, or one that was just created) is bound to a brand-new indexer object with a
brand-new `_data_cache`, over an existing data object. -/
theorem inv_bindNew {z0 z : Struct} {sid : Nat} {nix : Stream} (h : Inv z0)
    (hst : ∀ i, i < z.nstreams → i ≠ sid → i < z0.nstreams ∧ z.streams i = z0.streams i)
    (hixs : z.ixs = z0.ixs) (hnix : z.nixs = z0.nixs) (hnc : z.ncaches = z0.ncaches) (hca : z.caches = z0.caches)
    (hnd : z.ndatas = z0.ndatas) (hds : z.datas = z0.datas)
    (hd : nix.data < z.ndatas) : Inv (z.bindNew sid nix) := by
  have hother : ∀ i, i < z.nstreams → i ≠ sid → (z.bindNew sid nix).ixOf i = z0.ixOf i := by
    intro i hi hne
    obtain ⟨hi0, hs⟩ := hst i hi hne
    have hb := h.bix i hi0
    simp only [Struct.ixOf, Struct.bindNew, upd, hne, if_false, hs, hixs, hnix]
    rw [if_neg (Nat.ne_of_lt hb)]
  have hself : (z.bindNew sid nix).ixOf sid = { nix with cache := z.ncaches } := by
    simp [Struct.ixOf, Struct.bindNew, upd]
  refine inv_fresh (fun i => i = sid) h ?_ ?_ ?_ ?_ ?_ ?_ ?_ ?_ ?_ ?_
  · intro i hi
    by_cases e : i = sid
    · subst e; simp [Struct.bindNew, upd]
    · obtain ⟨hi0, hs⟩ := hst i hi e
      have := h.bix i hi0
      simp only [Struct.bindNew, upd, e, if_false, hs, hnix]
      omega
  · intro i hi e
    exact ⟨(hst i hi e).1, hother i hi e⟩
  · intro i e; subst e; rw [hself]; exact hnc
  · intro i e; subst e; rw [hself]; exact hd
  · intro i j ei ej; subst ei; subst ej; exact Same.refl _
  · simp [Struct.bindNew, hnc]
  · intro c hc
    simp only [Struct.bindNew, hca, hnc]
    exact upd_ne _ _ (Nat.ne_of_lt hc)
  · simp [Struct.bindNew, hnc]
  · simp [Struct.bindNew, hnd]
  · intro d _; simp [Struct.bindNew, hds]

theorem inv_setTc {w : World} (h : Inv w.s) (sid tc : Nat) : Inv (w.setTc sid tc).s := by
  refine inv_meta h ?_ rfl rfl rfl rfl rfl rfl
  intro i hi
  refine ⟨i, hi, ?_⟩
  simp only [World.setTc, upd]
  split <;> simp_all

theorem inv_setViews {w : World} (h : Inv w.s) (sid : Nat) (vs : List (Char × Nat)) : Inv (w.setViews sid vs).s := by
  refine inv_meta h ?_ rfl rfl rfl rfl rfl rfl
  intro i hi
  refine ⟨i, hi, ?_⟩
  simp only [World.setViews, upd]
  split <;> simp_all

theorem inv_getView {w : World} {sid : Nat} {key : Key} (h : Inv w.s) (hs : sid < w.s.nstreams)
    (hk : key = .mass ∨ key = .vol (w.stream sid).tc) : Inv (w.getView sid key).1.s := by
  dsimp only [World.getView]
  split
  · exact h
  · refine inv_addEntry (sid := sid) h hs (kv := (key, _)) ?_ rfl rfl rfl rfl rfl rfl rfl rfl
    refine ⟨rfl, rfl, rfl, rfl, ?_⟩
    rcases hk with hk | hk
    · exact Or.inl hk
    · exact Or.inr hk

theorem getView_content (w : World) (sid : Nat) (key : Key) : (w.getView sid key).1.c = w.c := by
  dsimp only [World.getView]; split <;> rfl

theorem getView_cfg (w : World) (sid : Nat) (key : Key) :
    (w.getView sid key).1.thermos = w.thermos ∧ (w.getView sid key).1.units = w.units := by
  dsimp only [World.getView]; split <;> exact ⟨rfl, rfl⟩

theorem getView_streams (w : World) (sid : Nat) (key : Key) :
    (w.getView sid key).1.s.streams = w.s.streams ∧ (w.getView sid key).1.s.nstreams = w.s.nstreams ∧
    (w.getView sid key).1.s.datas = w.s.datas ∧ (w.getView sid key).1.s.ixs = w.s.ixs := by
  dsimp only [World.getView]; split <;> exact ⟨rfl, rfl, rfl, rfl⟩

/-- the view `by_mass` / `by_volume` hands out is good for the stream's indexer; a volumetric one refers to the
thermal-condition object it was asked for -/
theorem getView_good {w : World} {sid : Nat} {key : Key} (h : Inv w.s) (hs : sid < w.s.nstreams)
    (hk : key = .mass ∨ key = .vol (w.stream sid).tc) :
    Good w.s (w.s.ixOf sid) (key, (w.getView sid key).2) ∧
    (key = .vol (w.stream sid).tc → (w.getView sid key).2.tc = (w.stream sid).tc) := by
  dsimp only [World.getView]
  split
  · rename_i v hv
    have hg := h.tracks sid hs (key, v) (lookup_mem hv)
    refine ⟨hg, ?_⟩
    intro hkv
    subst hkv
    exact hg.tc_of_vol
  · refine ⟨⟨rfl, rfl, rfl, rfl, ?_⟩, fun _ => rfl⟩
    rcases hk with hk | hk
    · exact Or.inl hk
    · exact Or.inr hk

theorem inv_rebind {w : World} {sid : Nat} (h : Inv w.s) (multi : Bool) (phases : List Char)
    (phSel : Option Char) (th : Nat) (contents : List (List Rat)) :
    Inv (w.rebind sid multi phases phSel th contents).s := by
  have h1 := inv_allocData h (List.range' w.s.nrows contents.length)
  have h2 := inv_bindNew (z := w.s.allocData (List.range' w.s.nrows contents.length)) (sid := sid)
    (nix := { multi := multi, data := w.s.ndatas,
              ph := (match phSel with | some _ => w.s.nphs | none => (w.stream sid).ph),
              phases := phases, th := th,
              locked := (match phSel with | some _ => false | none => (w.stream sid).locked) })
    h1 (fun i hi _ => ⟨hi, rfl⟩) rfl rfl rfl rfl rfl rfl (Nat.lt_succ_self _)
  exact inv_of_eq h2 rfl rfl rfl rfl rfl rfl rfl rfl

theorem rebind_nstreams (w : World) (sid : Nat) (multi : Bool) (phases : List Char)
    (phSel : Option Char) (th : Nat) (contents : List (List Rat)) :
    (w.rebind sid multi phases phSel th contents).s.nstreams = w.s.nstreams := rfl

theorem inv_newStream {w : World} (h : Inv w.s) (multi : Bool) (phases : List Char) (ph : Char) (th : Nat)
    (T P : Rat) (contents : List (List Rat)) :
    Inv (w.newStream multi phases ph th T P contents).1.s := by
  have h1 := inv_allocData h (List.range' w.s.nrows contents.length)
  let z : Struct := { w.s with nstreams := w.s.nstreams + 1,
                               streams := upd w.s.streams w.s.nstreams { tc := w.s.ntcs }, ntcs := w.s.ntcs + 1 }
  have h2 := inv_bindNew (z0 := w.s.allocData (List.range' w.s.nrows contents.length))
    (z := z.allocData (List.range' w.s.nrows contents.length)) (sid := w.s.nstreams)
    (nix := { multi := multi, data := w.s.ndatas, ph := w.s.nphs, phases := phases, th := th, locked := false })
    h1 (by
      intro i hi hne
      have hi' : i < w.s.nstreams + 1 := hi
      refine ⟨by show i < w.s.nstreams; omega, ?_⟩
      show upd w.s.streams w.s.nstreams _ i = w.s.streams i
      exact upd_ne _ _ hne) rfl rfl rfl rfl rfl rfl (Nat.lt_succ_self _)
  exact inv_of_eq h2 rfl rfl rfl rfl rfl rfl rfl rfl

theorem newStream_nstreams (w : World) (multi : Bool) (phases : List Char) (ph : Char) (th : Nat)
    (T P : Rat) (contents : List (List Rat)) :
    (w.newStream multi phases ph th T P contents).1.s.nstreams = w.s.nstreams + 1 := rfl

theorem inv_attach {w : World} (h : Inv w.s) (v r : Nat) (c : Char) (th : Nat) : Inv (w.attach v r c th).s := by
  have h1 := inv_allocData h [r]
  have h2 := inv_bindNew (z := w.s.allocData [r]) (sid := v)
    (nix := { multi := false, data := w.s.ndatas, ph := w.s.nphs, phases := [], th := th, locked := true })
    h1 (fun i hi _ => ⟨hi, rfl⟩) rfl rfl rfl rfl rfl rfl (Nat.lt_succ_self _)
  exact inv_of_eq h2 rfl rfl rfl rfl rfl rfl rfl rfl

theorem attach_nstreams (w : World) (v r : Nat) (c : Char) (th : Nat) :
    (w.attach v r c th).s.nstreams = w.s.nstreams := rfl

/-- `proxy()`: one more holder of an existing indexer object -/
theorem inv_proxy {w : World} {sid : Nat} (h : Inv w.s) (hs : sid < w.s.nstreams) : Inv (w.proxy sid).1.s := by
  refine inv_meta h ?_ rfl rfl rfl rfl rfl rfl
  intro i hi
  have hi' : i < w.s.nstreams + 1 := hi
  by_cases e : i = w.s.nstreams
  · exact ⟨sid, hs, by simp [World.proxy, upd, e]⟩
  · exact ⟨i, by omega, by simp [World.proxy, upd, e]⟩

theorem inv_flowProxy {w : World} {sid : Nat} (h : Inv w.s) (hs : sid < w.s.nstreams) :
    Inv (w.flowProxy sid).1.s := by
  let z : Struct := { w.s with nstreams := w.s.nstreams + 1, streams := upd w.s.streams w.s.nstreams { tc := w.s.ntcs },
                               ntcs := w.s.ntcs + 1 }
  have h2 := inv_bindNew (z0 := w.s) (z := z) (sid := w.s.nstreams)
    (nix := { multi := (w.stream sid).multi, data := (w.stream sid).data, ph := w.s.nphs,
              phases := (w.stream sid).phases, th := (w.stream sid).th, locked := false })
    h (by
      intro i hi hne
      have hi' : i < w.s.nstreams + 1 := hi
      refine ⟨by omega, ?_⟩
      show upd w.s.streams w.s.nstreams _ i = w.s.streams i
      exact upd_ne _ _ hne) rfl rfl rfl rfl rfl rfl (h.bdata sid hs)
  exact inv_of_eq h2 rfl rfl rfl rfl rfl rfl rfl rfl

/-- the indexer object of stream `sid` (hence of all its holders) gets a brand-new `_data_cache`, and possibly another
existing data object / phase container -/
theorem inv_refreshIx {w : World} {sid : Nat} (h : Inv w.s) (hs : sid < w.s.nstreams) (f : Stream → Stream)
    (hd : (f (w.s.ixOf sid)).data < w.s.ndatas) (streams' : Nat → SRef)
    (hst : ∀ i, (streams' i).ix = (w.s.streams i).ix) :
    Inv { w.s with ncaches := w.s.ncaches + 1, caches := upd w.s.caches w.s.ncaches [],
                   ixs := upd w.s.ixs (w.s.streams sid).ix { f (w.s.ixOf sid) with cache := w.s.ncaches },
                   streams := streams' } := by
  refine inv_fresh (fun i => (w.s.streams i).ix = (w.s.streams sid).ix) h ?_ ?_ ?_ ?_ ?_ rfl ?_ ?_ (Nat.le_refl _) ?_
  · intro i hi; show (streams' i).ix < w.s.nixs; rw [hst]; exact h.bix i hi
  · intro i hi e
    refine ⟨hi, ?_⟩
    simp only [Struct.ixOf, hst, upd, e, if_false]
  · intro i e
    simp only [Struct.ixOf, hst, upd, e, if_true]
  · intro i e
    simp only [Struct.ixOf, hst, upd, e, if_true]
    exact hd
  · intro i j ei ej
    simp only [Struct.ixOf, hst, upd, ei, ej, if_true]
    exact Same.refl _
  · intro c hc; exact upd_ne _ _ (Nat.ne_of_lt hc)
  · exact upd_same _ _ _
  · intro d _; rfl

theorem inv_linkShare {w : World} {sid oid : Nat} {phase : Bool} (h : Inv w.s) (ho : oid < w.s.nstreams)
    (hm : (w.s.ixOf sid).multi = (w.s.ixOf oid).multi)
    (hth : (w.s.ixOf sid).th = (w.s.ixOf oid).th)
    (hphs : (w.s.ixOf sid).multi = true → (w.s.ixOf sid).phases = (w.s.ixOf oid).phases)
    (hph : phase = true ∨ (w.s.ixOf sid).multi = true) : Inv (w.linkShare sid oid phase).s := by
  have hixeq : ∀ i, ((w.linkShare sid oid phase).s.streams i).ix = (w.s.streams i).ix := by
    intro i; simp only [World.linkShare, upd]; split <;> simp_all
  have hrec : ∀ i, (w.s.streams i).ix = (w.s.streams sid).ix →
      (w.linkShare sid oid phase).s.ixOf i = (w.linkShare sid oid phase).s.ixs (w.s.streams sid).ix := by
    intro i e
    simp only [Struct.ixOf, hixeq, e]
  have hcache : ((w.linkShare sid oid phase).s.ixs (w.s.streams sid).ix).cache = (w.s.ixOf oid).cache := by
    simp [World.linkShare, Struct.ixOf, upd]
  have hdata : ((w.linkShare sid oid phase).s.ixs (w.s.streams sid).ix).data = (w.s.ixOf oid).data := by
    simp [World.linkShare, Struct.ixOf, upd]
  have hth' : ((w.linkShare sid oid phase).s.ixs (w.s.streams sid).ix).th = (w.s.ixOf sid).th := by
    simp [World.linkShare, Struct.ixOf, upd]
  have hmu : ((w.linkShare sid oid phase).s.ixs (w.s.streams sid).ix).multi = (w.s.ixOf sid).multi := by
    simp [World.linkShare, Struct.ixOf, upd]
  have hphs' : ((w.linkShare sid oid phase).s.ixs (w.s.streams sid).ix).phases = (w.s.ixOf sid).phases := by
    simp [World.linkShare, Struct.ixOf, upd]
  have hph' : ((w.linkShare sid oid phase).s.ixs (w.s.streams sid).ix).ph =
      if (phase && !(w.s.ixOf sid).multi) = true then (w.s.ixOf oid).ph else (w.s.ixOf sid).ph := by
    simp [World.linkShare, Struct.ixOf, upd]
  refine inv_share (fun i => (w.s.streams i).ix = (w.s.streams sid).ix) (oid := oid) h ho rfl ?_ ?_ ?_ ?_ rfl rfl rfl rfl
  · intro i hi; rw [hixeq]; exact h.bix i hi
  · intro i e
    simp only [Struct.ixOf, hixeq]
    simp only [World.linkShare]
    exact upd_ne _ _ e
  · intro i e; rw [hrec i e, hcache]
  · intro i e
    rw [hrec i e]
    refine ⟨hdata, hth'.trans hth, ?_, ?_⟩
    · simp only [Stream.viewPhases, hmu, hphs']
      cases hmo : (w.s.ixOf oid).multi
      · simp [hm, hmo]
      · simp [hm, hmo]; exact hphs (hm.trans hmo)
    · simp only [Stream.viewPc, hmu, hph']
      cases hmo : (w.s.ixOf oid).multi
      · have hs : (w.s.ixOf sid).multi = false := hm.trans hmo
        rw [hs] at hph
        cases hph with
        | inl hp => simp [hp, hs]
        | inr hp => cases hp
      · simp [hm, hmo]

theorem inv_linkPlain {w : World} {sid oid : Nat} {flow phase tp : Bool} (h : Inv w.s) (hs : sid < w.s.nstreams)
    (ho : oid < w.s.nstreams) : Inv (w.linkPlain true sid oid flow phase tp).s := by
  simp only [World.linkPlain, if_true]
  refine inv_refreshIx h hs (fun s => { s with
      data := if flow then (w.s.ixOf oid).data else s.data,
      ph := if phase && !s.multi then (w.s.ixOf oid).ph else s.ph,
      locked := if phase && !s.multi then (w.s.ixOf oid).locked else s.locked }) ?_ _ ?_
  · simp only
    split
    · exact h.bdata oid ho
    · exact h.bdata sid hs
  · intro i; simp only [upd]; split <;> simp_all

theorem linkPlain_nstreams (w : World) (sid oid : Nat) (flow phase tp : Bool) :
    (w.linkPlain true sid oid flow phase tp).s.nstreams = w.s.nstreams := by
  simp [World.linkPlain]

theorem inv_reattachStep {w : World} (h : Inv w.s) (sid : Nat) (b1 b2 : Bool) (cv : Char × Nat) :
    Inv (World.reattachStep sid b1 b2 w cv).s ∧ (World.reattachStep sid b1 b2 w cv).s.nstreams = w.s.nstreams := by
  simp only [World.reattachStep]
  have h1 : Inv (if b1 = true then (match w.rowFor sid cv.1 with
        | some r => w.attach cv.2 r cv.1 (w.stream sid).th | none => w) else w).s ∧
      (if b1 = true then (match w.rowFor sid cv.1 with
        | some r => w.attach cv.2 r cv.1 (w.stream sid).th | none => w) else w).s.nstreams = w.s.nstreams := by
    split
    · split
      · exact ⟨inv_attach h _ _ _ _, rfl⟩
      · exact ⟨h, rfl⟩
    · exact ⟨h, rfl⟩
  split
  · exact ⟨inv_setTc h1.1 _ _, h1.2⟩
  · exact h1

theorem inv_foldReattach (sid : Nat) (b1 b2 : Bool) (l : List (Char × Nat)) {w : World} (h : Inv w.s) :
    Inv (l.foldl (World.reattachStep sid b1 b2) w).s ∧
    (l.foldl (World.reattachStep sid b1 b2) w).s.nstreams = w.s.nstreams := by
  induction l generalizing w with
  | nil => exact ⟨h, rfl⟩
  | cons a t ih =>
    have h1 := inv_reattachStep h sid b1 b2 a
    have h2 := ih h1.1
    exact ⟨h2.1, h2.2.trans h1.2⟩

theorem inv_reattach {w : World} (h : Inv w.s) (sid : Nat) (b1 b2 : Bool) :
    Inv (w.reattach sid b1 b2).s ∧ (w.reattach sid b1 b2).s.nstreams = w.s.nstreams :=
  inv_foldReattach sid b1 b2 _ h

theorem inv_link {w w' : World} {sid oid : Nat} {flow phase tp : Bool} (h : Inv w.s)
    (hs : sid < w.s.nstreams) (ho : oid < w.s.nstreams) (hl : w.link sid oid flow phase tp = .ok w') :
    Inv w'.s ∧ w'.s.nstreams = w.s.nstreams := by
  simp only [World.link, World.linkWith, World.stream] at hl
  by_cases hmulti : (w.s.ixOf sid).multi = (w.s.ixOf oid).multi
  · simp only [hmulti, ne_eq, not_true_eq_false, if_false] at hl
    split at hl
    · cases hl
    · rename_i hpre
      have h1 : Inv (if (tp && flow && (phase || (w.s.ixOf oid).multi)) = true then w.linkShare sid oid phase
            else w.linkPlain true sid oid flow phase tp).s ∧
          (if (tp && flow && (phase || (w.s.ixOf oid).multi)) = true then w.linkShare sid oid phase
            else w.linkPlain true sid oid flow phase tp).s.nstreams = w.s.nstreams := by
        split
        · rename_i hshare
          simp only [Bool.and_eq_true, Bool.or_eq_true] at hshare
          obtain ⟨⟨htp, hflow⟩, hph⟩ := hshare
          subst hflow
          simp at hpre
          exact ⟨inv_linkShare h ho hmulti (Decidable.of_not_not (of_decide_eq_false hpre.1))
            (fun hm => Decidable.of_not_not (of_decide_eq_false (hpre.2 (hmulti ▸ hm)))) (by rw [hmulti]; exact hph), rfl⟩
        · exact ⟨inv_linkPlain h hs ho, linkPlain_nstreams _ _ _ _ _ _⟩
      cases hl
      split
      · have := inv_reattach h1.1 sid flow true
        exact ⟨this.1, this.2.trans h1.2⟩
      · exact h1
  · simp [hmulti] at hl

theorem not_dataShared {w : World} {sid : Nat} (h : w.dataShared sid = false) :
    ∀ j, j < w.s.nstreams → ¬ (w.s.streams j).ix = (w.s.streams sid).ix →
      (w.s.ixOf j).data ≠ (w.s.ixOf sid).data := by
  intro j hj hne heq
  simp only [World.dataShared, List.any_eq_false, List.mem_range] at h
  have := h j hj
  simp [hne, heq] at this

theorem inv_expandPhases {w w' : World} {sid : Nat} {others : List Char} (h : Inv w.s)
    (hs : sid < w.s.nstreams) (he : World.expandPhases true w sid others = .ok w') :
    Inv w'.s ∧ w'.s.nstreams = w.s.nstreams := by
  simp only [World.expandPhases] at he
  split at he
  · cases he; exact ⟨h, rfl⟩
  · split at he
    · cases he
    · rename_i hsh
      cases he
      refine ⟨?_, rfl⟩
      have hun := not_dataShared (by simpa using hsh)
      refine inv_expand (fun i => (w.s.streams i).ix = (w.s.streams sid).ix) (sid := sid) h hs hun rfl ?_ ?_ ?_ ?_ ?_
        rfl rfl ?_ ?_ ?_
      · intro i hi; exact h.bix i hi
      · intro i e; simp only [World.clearCache, Struct.ixOf, if_true]; exact upd_ne _ _ e
      · intro i e; simp [World.clearCache, Struct.ixOf, upd, e]
      · intro i e; simp [World.clearCache, Struct.ixOf, upd, e, World.stream]
      · intro i j ei ej; simp only [World.clearCache, Struct.ixOf, if_true, upd, ei, ej]; exact Same.refl _
      · intro c hc
        simp only [World.clearCache, Struct.ixOf, upd_same, upd, if_true]
        rw [if_neg]; exact hc
      · simp [World.clearCache, Struct.ixOf, upd]
      · intro d hd; simp [World.clearCache, upd, hd, World.stream]

theorem inv_phaseView {w w' : World} {sid v : Nat} {c : Char} (h : Inv w.s)
    (he : w.phaseView sid c = .ok (w', v)) : Inv w'.s := by
  simp only [World.phaseView] at he
  split at he
  · cases he
  · split at he
    · cases he; exact h
    · split at he
      · cases he
      · rename_i r hr
        cases he
        apply inv_setViews
        have h1 := inv_allocData h [r]
        let z : Struct := { w.s with nstreams := w.s.nstreams + 1,
                                     streams := upd w.s.streams w.s.nstreams { tc := (w.s.streams sid).tc } }
        have h2 := inv_bindNew (z0 := w.s.allocData [r]) (z := z.allocData [r]) (sid := w.s.nstreams)
          (nix := { multi := false, data := w.s.ndatas, ph := w.s.nphs, phases := [], th := (w.stream sid).th,
                    locked := true })
          h1 (by
            intro i hi hne
            have hi' : i < w.s.nstreams + 1 := hi
            refine ⟨by show i < w.s.nstreams; omega, ?_⟩
            show upd w.s.streams w.s.nstreams _ i = w.s.streams i
            exact upd_ne _ _ hne) rfl rfl rfl rfl rfl rfl (Nat.lt_succ_self _)
        exact inv_of_eq h2 rfl rfl rfl rfl rfl rfl rfl rfl

theorem inv_unlink {w : World} {sid : Nat} (h : Inv w.s) : Inv (w.unlink sid).s := by
  simp only [World.unlink, World.unlinkWith, if_true]
  apply (inv_reattach _ sid true true).1
  have h1 := inv_rebind (sid := sid) h (w.stream sid).multi (w.stream sid).phases
    (if (w.stream sid).multi then none else some (w.c.phs (w.stream sid).ph)) (w.stream sid).th (w.readMol sid)
  refine inv_meta h1 ?_ rfl rfl rfl rfl rfl rfl
  intro i hi
  refine ⟨i, hi, ?_⟩
  simp only [upd]
  split <;> simp_all

theorem reattachStep_nstreams (sid : Nat) (b1 b2 : Bool) (w : World) (cv : Char × Nat) :
    (World.reattachStep sid b1 b2 w cv).s.nstreams = w.s.nstreams := by
  simp only [World.reattachStep]
  split <;> split <;> (try split) <;> rfl

theorem foldReattach_nstreams (sid : Nat) (b1 b2 : Bool) (l : List (Char × Nat)) (w : World) :
    (l.foldl (World.reattachStep sid b1 b2) w).s.nstreams = w.s.nstreams := by
  induction l generalizing w with
  | nil => rfl
  | cons a t ih => exact (ih _).trans (reattachStep_nstreams sid b1 b2 w a)

theorem unlink_nstreams (w : World) (sid : Nat) : (w.unlink sid).s.nstreams = w.s.nstreams := by
  simp only [World.unlink, World.unlinkWith, if_true, World.reattach]
  rw [foldReattach_nstreams]; rfl

/-! ### every operation preserves `Inv` -/

theorem inv_setPhase {w w' : World} {sid : Nat} {c : Char} {R : Mat} (h : Inv w.s)
    (he : w.setPhase sid c R = .ok w') : Inv w'.s ∧ w'.s.nstreams = w.s.nstreams := by
  simp only [World.setPhase] at he
  split at he
  · split at he
    · cases he
    · cases he; exact ⟨inv_setViews (inv_rebind h _ _ _ _ _) _ _, rfl⟩
  · cases he; exact ⟨h, rfl⟩

theorem inv_setPhases {w w' : World} {sid : Nat} {ps : List Char} {R : Mat} (h : Inv w.s)
    (he : w.setPhases sid ps R = .ok w') : Inv w'.s ∧ w'.s.nstreams = w.s.nstreams := by
  simp only [World.setPhases] at he
  split at he
  · cases he
  · exact inv_setPhase h he
  · split at he
    · split at he
      · cases he; exact ⟨h, rfl⟩
      · split at he
        · cases he
        · split at he
          · cases he
          · cases he
            have h1 := inv_setViews (inv_rebind (sid := sid) h true (phaseTuple ps) none (w.stream sid).th R) sid
              ((w.views sid).filter (fun cv => fileable (phaseTuple ps) cv.1))
            have h2 := inv_reattach h1 sid true false
            exact ⟨h2.1, h2.2⟩
    · split at he
      · cases he
      · split at he
        · cases he
        · cases he; exact ⟨inv_setViews (inv_rebind h _ _ _ _ _) _ _, rfl⟩

theorem inv_resetThermo {w w' : World} {sid k : Nat} {R : Mat} (h : Inv w.s)
    (he : w.resetThermo sid k R = .ok w') : Inv w'.s ∧ w'.s.nstreams = w.s.nstreams := by
  simp only [World.resetThermo] at he
  split at he
  · cases he; exact ⟨h, rfl⟩
  · split at he
    · cases he
    · split at he
      · cases he
      · cases he
        have h2 := inv_reattach (inv_rebind (sid := sid) h (w.stream sid).multi (w.stream sid).phases none k R) sid true false
        exact ⟨h2.1, h2.2⟩

theorem inv_copyLike {w w' : World} {sid oid : Nat} {R : Mat} (h : Inv w.s) (hs : sid < w.s.nstreams)
    (he : w.copyLike sid oid R = .ok w') : Inv w'.s ∧ w'.s.nstreams = w.s.nstreams := by
  simp only [World.copyLike, World.copyLikeWith] at he
  split at he
  · cases he; exact ⟨h, rfl⟩
  · split at he
    · -- single ← single
      split at he
      · cases he
      · cases he; exact ⟨h, rfl⟩
    · -- single ← multi
      split at he
      · cases he
      · split at he
        · cases he
        · cases he; exact ⟨h, rfl⟩
      · split at he
        · cases he
        · cases he
          exact ⟨inv_setViews (inv_rebind (sid := sid) h true (w.stream oid).phases none (w.stream sid).th R) _ _, rfl⟩
    · -- multi ← single
      split at he
      · cases he
      · rename_i w1 hw1
        have h1 : Inv w1.s ∧ w1.s.nstreams = w.s.nstreams := by
          split at hw1
          · cases hw1; exact ⟨h, rfl⟩
          · exact inv_expandPhases h hs hw1
        split at he
        · cases he
        · cases he; exact h1
    · -- multi ← multi
      split at he
      · cases he
      · rename_i w1 hw1
        have h1 : Inv w1.s ∧ w1.s.nstreams = w.s.nstreams := by
          split at hw1
          · cases hw1; exact ⟨h, rfl⟩
          · exact inv_expandPhases h hs hw1
        split at he
        · cases he
        · cases he; exact h1

theorem sync_s {w w' : World} {sid : Nat} {T P : Rat} {ph : Option Char} {R : Mat}
    (he : w.sync sid T P ph R = .ok w') : w'.s = w.s := by
  simp only [World.sync] at he
  split at he
  · cases he
  · cases he; rfl

theorem inv_mixInto {w w' : World} {sid : Nat} {others : List Char} {P : Rat} {R : Mat} (h : Inv w.s)
    (hs : sid < w.s.nstreams) (he : w.mixInto sid others P R = .ok w') :
    Inv w'.s ∧ w'.s.nstreams = w.s.nstreams := by
  simp only [World.mixInto] at he
  split at he
  · cases he
  · split at he
    · cases he
    · rename_i w1 hw1
      have h1 : Inv w1.s ∧ w1.s.nstreams = w.s.nstreams := by
        split at hw1
        · cases hw1; exact ⟨h, rfl⟩
        · exact inv_expandPhases h hs hw1
      split at he
      · cases he
      · cases he; exact h1

theorem inv_getElem {w w' : World} {sid : Nat} {d : Dim} {ph : Option Char} {i : Nat} {V : Mat}
    {vid : Option Nat} {x : Rat} (h : Inv w.s) (hs : sid < w.s.nstreams)
    (he : w.getElem sid d ph i V = .ok (w', vid, x)) : Inv w'.s ∧ w'.s.nstreams = w.s.nstreams := by
  simp only [World.getElem] at he
  split at he
  · cases he
  · split at he
    · cases he
    · split at he
      · split at he
        · cases he
        · cases he; exact ⟨h, rfl⟩
      · simp only [World.massView] at he
        split at he
        · cases he
        · cases he
          exact ⟨inv_getView h hs (Or.inl rfl), (getView_streams w sid _).2.1⟩
      · simp only [World.volView] at he
        split at he
        · cases he
        · cases he
          exact ⟨inv_getView h hs (Or.inr rfl), (getView_streams w sid _).2.1⟩
      · cases he

theorem inv_putElem {w w' : World} {sid : Nat} {d : Dim} {ph : Option Char} {i : Nat} {x : Rat} {V : Mat}
    {vid : Option Nat} (h : Inv w.s) (hs : sid < w.s.nstreams)
    (he : w.putElem sid d ph i x V = .ok (w', vid)) : Inv w'.s ∧ w'.s.nstreams = w.s.nstreams := by
  simp only [World.putElem] at he
  split at he
  · cases he
  · split at he
    · cases he
    · split at he
      · split at he
        · cases he
        · cases he; exact ⟨h, rfl⟩
      · simp only [World.massView] at he
        split at he
        · cases he
        · cases he
          exact ⟨inv_getView h hs (Or.inl rfl), (getView_streams w sid _).2.1⟩
      · simp only [World.volView] at he
        split at he
        · cases he
        · cases he
          exact ⟨inv_getView h hs (Or.inr rfl), (getView_streams w sid _).2.1⟩
      · cases he

theorem inv_putRow {w w' : World} {sid : Nat} {d : Dim} {ph : Option Char} {xs : List Rat} {V : Mat}
    {vid : Option Nat} (h : Inv w.s) (hs : sid < w.s.nstreams)
    (he : w.putRow sid d ph xs V = .ok (w', vid)) : Inv w'.s ∧ w'.s.nstreams = w.s.nstreams := by
  simp only [World.putRow] at he
  split at he
  · cases he
  · split at he
    · cases he
    · split at he
      · split at he
        · cases he
        · cases he; exact ⟨h, rfl⟩
      · simp only [World.massView] at he
        split at he
        · cases he
        · cases he
          exact ⟨inv_getView h hs (Or.inl rfl), (getView_streams w sid _).2.1⟩
      · simp only [World.volView] at he
        split at he
        · cases he
        · cases he
          exact ⟨inv_getView h hs (Or.inr rfl), (getView_streams w sid _).2.1⟩
      · cases he

theorem inv_setF {w w' : World} {sid : Nat} {d : Dim} {x : Rat} {V : Mat}
    (he : w.setF sid d x V = .ok w') : w'.s = w.s := by
  simp only [World.setF] at he
  split at he
  · split at he
    · cases he; rfl
    · split at he
      · cases he
      · cases he; rfl
  · cases he
  · split at he
    · cases he
    · cases he; rfl

theorem exec_inv {w w' : World} {op : Op} {out : Out} (h : Inv w.s) (he : w.exec op = .ok (w', out)) :
    Inv w'.s := by
  unfold World.exec at he
  split at he
  · cases he
  · rename_i hg
    split at he
    · cases he
    have hsid : ∀ s ∈ op.sids, s < w.s.nstreams := by
      intro s hs
      simp only [List.any_eq_true, not_exists, not_and, decide_eq_true_eq, Nat.not_le] at hg
      exact hg s hs
    cases op with
    | new1 th ph T P flows =>
      simp only at he
      split at he
      · cases he
      · cases he; exact inv_newStream h _ _ _ _ _ _ _
    | newm th phases T P rows =>
      simp only at he
      split at he
      · cases he
      · split at he
        · cases he
        · split at he
          · cases he
          · cases he; exact inv_newStream h _ _ _ _ _ _ _
    | setT s x => cases he; exact h
    | setP s x => cases he; exact h
    | setPhase s c R =>
      simp only [Except.bind, okShape] at he
      split at he
      · cases he
      · rename_i w1 hw1; cases he; exact (inv_setPhase h hw1).1
    | setPhases s ps R =>
      simp only [Except.bind, okShape] at he
      split at he
      · cases he
      · rename_i w1 hw1; cases he; exact (inv_setPhases h hw1).1
    | link s o f p t =>
      simp only [Except.map] at he
      split at he
      · cases he
      · rename_i w1 hw1; cases he
        exact (inv_link h (hsid s (by simp [Op.sids])) (hsid o (by simp [Op.sids])) hw1).1
    | unlink s => cases he; exact inv_unlink h
    | copyLike s o R =>
      simp only [Except.bind, okShape] at he
      split at he
      · cases he
      · rename_i w1 hw1; cases he; exact (inv_copyLike h (hsid s (by simp [Op.sids])) hw1).1
    | thermo s k R =>
      simp only [Except.bind, okShape] at he
      split at he
      · cases he
      · rename_i w1 hw1; cases he; exact (inv_resetThermo h hw1).1
    | sync s T P ph R =>
      simp only [Except.bind, okShape] at he
      split at he
      · cases he
      · rename_i w1 hw1; cases he; rw [sync_s hw1]; exact h
    | mixInto s others P R =>
      simp only [Except.bind, okShape] at he
      split at he
      · cases he
      · rename_i w1 hw1; cases he; exact (inv_mixInto h (hsid s (by simp [Op.sids])) hw1).1
    | view s c =>
      simp only [Except.map] at he
      split at he
      · cases he
      · rename_i r hr
        obtain ⟨w1, v⟩ := r
        cases he
        exact inv_phaseView h hr
    | proxy s => cases he; exact inv_proxy h (hsid s (by simp [Op.sids]))
    | flowProxy s => cases he; exact inv_flowProxy h (hsid s (by simp [Op.sids]))
    | readMol s => cases he; exact h
    | readMass s =>
      cases he
      exact inv_getView h (hsid s (by simp [Op.sids])) (Or.inl rfl)
    | readVol s V =>
      cases he
      exact inv_getView h (hsid s (by simp [Op.sids])) (Or.inr rfl)
    | readF s d V =>
      simp only at he
      split at he
      · cases he
      · cases he; exact h
    | writeF s d x V =>
      simp only [Except.map] at he
      split at he
      · cases he
      · rename_i w1 hw1; cases he; rw [inv_setF hw1]; exact h
    | get s d ph i V =>
      simp only [Except.map] at he
      split at he
      · cases he
      · rename_i r hr
        obtain ⟨w1, vid, x⟩ := r
        cases he
        exact (inv_getElem h (hsid s (by simp [Op.sids])) hr).1
    | put s d ph i x V =>
      simp only [Except.map] at he
      split at he
      · cases he
      · rename_i r hr
        obtain ⟨w1, vid⟩ := r
        cases he
        exact (inv_putElem h (hsid s (by simp [Op.sids])) hr).1
    | putRow s d ph xs V =>
      simp only [Except.map] at he
      split at he
      · cases he
      · rename_i r hr
        obtain ⟨w1, vid⟩ := r
        cases he
        exact (inv_putRow h (hsid s (by simp [Op.sids])) hr).1
    | getFlow s u ph i V =>
      simp only [Except.map, World.getFlow] at he
      split at he
      · cases he
      · rename_i r hr
        obtain ⟨w1, vid, x⟩ := r
        cases he
        split at hr
        · cases hr
        · split at hr
          · cases hr
          · rename_i w2 vid2 x2 hg2
            cases hr
            exact (inv_getElem h (hsid s (by simp [Op.sids])) hg2).1
    | setFlow s u ph i x V =>
      simp only [Except.map, World.setFlow] at he
      split at he
      · cases he
      · rename_i r hr
        obtain ⟨w1, vid⟩ := r
        cases he
        split at hr
        · cases hr
        · exact (inv_putElem h (hsid s (by simp [Op.sids])) hr).1
    | getTotal s u V =>
      simp only [Except.map] at he
      split at he
      · cases he
      · cases he; exact h
    | setTotal s u x V =>
      simp only [Except.map, World.setTotal] at he
      split at he
      · cases he
      · rename_i w1 hw1
        cases he
        split at hw1
        · cases hw1
        · rw [inv_setF hw1]; exact h
    | getData s d u ph i V =>
      simp only [Except.map, World.getData] at he
      split at he
      · cases he
      · rename_i r hr
        obtain ⟨w1, vid, x⟩ := r
        cases he
        split at hr
        · cases hr
        · split at hr
          · cases hr
          · rename_i w2 vid2 x2 hg2
            cases hr
            exact (inv_getElem h (hsid s (by simp [Op.sids])) hg2).1
    | setData s d u ph i x V =>
      simp only [Except.map, World.setData] at he
      split at he
      · cases he
      · rename_i r hr
        obtain ⟨w1, vid⟩ := r
        cases he
        split at hr
        · cases hr
        · exact (inv_putElem h (hsid s (by simp [Op.sids])) hr).1
    | getProp s d u V =>
      simp only [Except.map] at he
      split at he
      · cases he
      · cases he; exact h
    | setProp s d u x V =>
      simp only [Except.map, World.setProp] at he
      split at he
      · cases he
      · rename_i w1 hw1
        cases he
        split at hw1
        · cases hw1
        · rw [inv_setF hw1]; exact h
    | unitFor d u =>
      simp only [Except.map] at he
      split at he
      · cases he
      · cases he; exact h

theorem step_inv {w : World} (op : Op) (h : Inv w.s) : Inv (w.step op).s := by
  unfold World.step
  split
  · rename_i w1 out he; exact exec_inv h he
  · exact h

theorem run_inv {w : World} (ops : List Op) (h : Inv w.s) : Inv (w.run ops).s := by
  induction ops generalizing w with
  | nil => exact h
  | cons op t ih => exact ih (step_inv op h)

end ThermoVerif.FlowViews
